(** C18 - simplest_from_f32 / simplest_from_f64, the PINNED (pre-repair) macro body outside finding F04
    (kept: it documents what was right about the old code; the repaired body is in SimplestIeeeFixed.v): for every format (mb >= 1
    mantissa bits, any exponent width) and every bit pattern whose last mantissa bit has a
    non-positive exponent (ulp <= 1, i.e. not [known_ieee]) the as-is model of
    impl_simplest_from_float! equals the specification [simplest_from_ieee_spec].
    Two cases: (1) not a normal power of two - the code's interval f -+ ulp/2 IS the specified one
    (up to the order of the end points); (2) normal powers of two (M = 0, E >= 2) - the code's
    lower bound is f - ulp/2 instead of f - ulp/4, but f itself is simpler than every fraction of
    [f - ulp/2, f), so the optimum of the wider interval is the optimum of the specified one. *)
From Dashu Require Import Base.Prelude Ratio.BinIter Float.RoundSpec Ratio.SimplestSpec Ratio.SimplestModel
  Ratio.SimplerOrder Ratio.SimplestProof Ratio.SimplestAsis Ratio.FareyProof Ratio.SimplestClosed Ratio.SimplestFindings
  Ratio.SimplestFloatEq.
Open Scope Z_scope.

(** ** the order of the two end-point tests does not matter *)
Lemma sle_antisym : forall x y, sle x y -> sle y x -> x = y.
Proof.
  intros x y [E|H1] [E'|H2]; try congruence. pose proof (simpler_asym _ _ H1). congruence.
Qed.

Lemma pick_comm : forall c1 x c2 y r0, pick c2 y (pick c1 x r0) = pick c1 x (pick c2 y r0).
Proof.
  intros c1 x c2 y r0.
  destruct (pick_spec c1 x r0) as (A1 & A2 & A3). destruct (pick_spec c2 y (pick c1 x r0)) as (B1 & B2 & B3).
  destruct (pick_spec c2 y r0) as (C1 & C2 & C3). destruct (pick_spec c1 x (pick c2 y r0)) as (D1 & D2 & D3).
  set (p1 := pick c1 x r0) in *. set (r := pick c2 y p1) in *.
  set (q1 := pick c2 y r0) in *. set (r' := pick c1 x q1) in *.
  assert (R0 : sle r r0) by (apply (sle_trans r p1 r0); assumption).
  assert (R0' : sle r' r0) by (apply (sle_trans r' q1 r0); assumption).
  assert (Rx : c1 = true -> sle r x) by (intros H; apply (sle_trans r p1 x); [assumption|exact (A2 H)]).
  assert (Ry' : c2 = true -> sle r' y) by (intros H; apply (sle_trans r' q1 y); [assumption|exact (C2 H)]).
  apply sle_antisym.
  - (* r <= r' : r' is one of r0, x, y *)
    destruct D3 as [->|(Hc & ->)]; [|exact (Rx Hc)]. destruct C3 as [->|(Hc & ->)]; [exact R0|exact (B2 Hc)].
  - destruct B3 as [->|(Hc & ->)]; [|exact (Ry' Hc)]. destruct A3 as [->|(Hc & ->)]; [exact R0'|exact (D2 Hc)].
Qed.

Lemma simplest_in_spec_swap : forall lo hi, fval_lt lo hi -> simplest_in_spec hi lo = simplest_in_spec lo hi.
Proof.
  intros lo hi H. unfold fval_lt in H. unfold simplest_in_spec, feq, flt.
  destruct (Z.eqb_spec (fst hi * snd lo) (fst lo * snd hi)); [lia|].
  destruct (Z.eqb_spec (fst lo * snd hi) (fst hi * snd lo)); [lia|].
  destruct (Z.ltb_spec (fst hi * snd lo) (fst lo * snd hi)); [lia|].
  destruct (Z.ltb_spec (fst lo * snd hi) (fst hi * snd lo)); [|lia]. reflexivity.
Qed.

Lemma simplest_closed_swap : forall lo hi ilo ihi, fval_lt lo hi ->
  simplest_closed (hi, lo, ihi, ilo) = simplest_closed (lo, hi, ilo, ihi).
Proof.
  intros lo hi ilo ihi H. unfold simplest_closed. rewrite (simplest_in_spec_swap lo hi H).
  destruct (simplest_in_spec lo hi); try reflexivity. rewrite pick_comm. reflexivity.
Qed.

(** ** end points of the macro in units of 2^(ex - 2) *)
Lemma est_end : forall n ex s, ex <= 0 ->
  let est : frac := if 0 <=? ex then (n * 2 ^ ex, 1) else (n, 2 ^ (- ex)) in
  freduce (2 * fst est + s, 2 * snd est) = scaled 2 (4 * n + 2 * s) (ex - 2) 1.
Proof.
  intros n ex s Hex est. unfold scaled. destruct (Z.leb_spec 0 (ex - 2)); [lia|].
  assert (HQ : 0 < 2 ^ (- ex)) by (apply Z.pow_pos_nonneg; lia).
  assert (HP : 2 ^ (- (ex - 2)) = 2 ^ (- ex) * 4).
  { replace (- (ex - 2)) with (- ex + 2) by ring. rewrite Z.pow_add_r by lia. reflexivity. }
  apply freduce_eqv.
  - unfold est. destruct (0 <=? ex); cbn [snd]; lia.
  - cbn [snd]. lia.
  - unfold fval_eq. cbn [fst snd]. rewrite HP. unfold est. destruct (Z.leb_spec 0 ex); cbn [fst snd].
    + assert (ex = 0) by lia. subst ex. change (- 0) with 0. rewrite Z.pow_0_r. ring.
    + ring.
Qed.

Lemma est_end_m : forall n ex, ex <= 0 ->
  let est : frac := if 0 <=? ex then (n * 2 ^ ex, 1) else (n, 2 ^ (- ex)) in
  freduce (2 * fst est - 1, 2 * snd est) = scaled 2 (4 * n - 2) (ex - 2) 1.
Proof. intros n ex H. exact (est_end n ex (-1) H). Qed.

Lemma est_end_p : forall n ex, ex <= 0 ->
  let est : frac := if 0 <=? ex then (n * 2 ^ ex, 1) else (n, 2 ^ (- ex)) in
  freduce (2 * fst est + 1, 2 * snd est) = scaled 2 (4 * n + 2) (ex - 2) 1.
Proof. intros n ex H. exact (est_end n ex 1 H). Qed.

Lemma even_low_bits : forall bits mb, 1 <= mb -> Z.even (bits mod 2 ^ mb) = Z.even bits.
Proof.
  intros bits mb Hmb. assert (HP : 0 < 2 ^ mb) by (apply Z.pow_pos_nonneg; lia).
  rewrite (Z.div_mod bits (2 ^ mb)) at 2 by lia.
  rewrite Z.even_add, Z.even_mul. replace mb with (1 + (mb - 1)) at 2 by ring.
  rewrite Z.pow_add_r by lia. rewrite Z.pow_1_r, Z.even_mul. cbn [Z.even orb]. destruct (Z.even (bits mod 2 ^ mb)); reflexivity.
Qed.

Lemma even_hidden_bit : forall M mb, 1 <= mb -> Z.even (M + 2 ^ mb) = Z.even M.
Proof.
  intros M mb Hmb. rewrite Z.even_add. replace mb with (1 + (mb - 1)) by ring.
  rewrite Z.pow_add_r by lia. rewrite Z.pow_1_r, Z.even_mul. cbn [Z.even orb]. destruct (Z.even M); reflexivity.
Qed.

Theorem simplest_from_ieee_pinned_spec_nonpow2 : forall mb eb bits, 1 <= mb ->
  known_ieee mb eb bits = false ->
  (bits mod 2 ^ mb =? 0) && (2 <=? (bits / 2 ^ mb) mod 2 ^ eb) = false ->
  simplest_from_ieee_pinned mb eb bits = simplest_from_ieee_spec mb eb bits.
Proof.
  intros mb eb bits Hmb Hk Hpw.
  pose proof (simplest_from_ieee_pinned_closed mb eb bits) as HA. cbv zeta in HA. rewrite HA. clear HA.
  unfold simplest_from_ieee_spec, ieee_interval_spec. cbv zeta.
  unfold known_ieee in Hk. cbv zeta in Hk.
  set (E := (bits / 2 ^ mb) mod 2 ^ eb) in *.
  set (M := bits mod 2 ^ mb) in *.
  set (ex := (if E =? 0 then 1 else E) - (2 ^ (eb - 1) - 1) - mb) in *.
  set (man0 := if E =? 0 then M else M + 2 ^ mb) in *.
  assert (Hex : ex <= 0) by (apply Z.ltb_ge in Hk; exact Hk).
  destruct (E =? 2 ^ eb - 1); [reflexivity|]. destruct ((E =? 0) && (M =? 0)); [reflexivity|].
  rewrite Hpw.
  assert (Hev : Z.even bits = Z.even man0).
  { unfold man0, M. destruct (E =? 0); [|rewrite even_hidden_bit by exact Hmb]; symmetry; apply even_low_bits; exact Hmb. }
  rewrite Hev.
  assert (Hlt : fval_lt (scaled 2 (4 * man0 - 2) (ex - 2) 1) (scaled 2 (4 * man0 + 2) (ex - 2) 1)).
  { pose proof (uval_scaled 2 (ex - 2) ltac:(lia) (4 * man0 - 2) 1 ltac:(lia)) as U1.
    pose proof (uval_scaled 2 (ex - 2) ltac:(lia) (4 * man0 + 2) 1 ltac:(lia)) as U2.
    pose proof (scaled_pos 2 (4 * man0 - 2) (ex - 2) 1 ltac:(lia) ltac:(lia)) as P1.
    pose proof (scaled_pos 2 (4 * man0 + 2) (ex - 2) 1 ltac:(lia) ltac:(lia)) as P2.
    unfold uval in U1, U2. unfold fval_lt.
    set (x := scaled 2 (4 * man0 - 2) (ex - 2) 1) in *. set (y := scaled 2 (4 * man0 + 2) (ex - 2) 1) in *.
    assert (HBK : 0 < 2 ^ Z.abs (ex - 2)) by (apply Z.pow_pos_nonneg; lia).
    assert (HPP : 0 < 2 ^ (ex - 2 + Z.abs (ex - 2))) by (apply Z.pow_pos_nonneg; lia).
    set (BK := 2 ^ Z.abs (ex - 2)) in *. set (PP := 2 ^ (ex - 2 + Z.abs (ex - 2))) in *.
    assert (fst x * snd y * BK < fst y * snd x * BK); [|nia].
    replace (fst x * snd y * BK) with ((fst x * 1 * BK) * snd y) by ring. rewrite U1.
    replace (fst y * snd x * BK) with ((fst y * 1 * BK) * snd x) by ring. rewrite U2.
    assert (0 < PP * snd x * snd y) by (apply Z.mul_pos_pos; [apply Z.mul_pos_pos|]; assumption). nia. }
  set (lo_m := scaled 2 (4 * man0 - 2) (ex - 2) 1) in *. set (hi_m := scaled 2 (4 * man0 + 2) (ex - 2) 1) in *.
  destruct ((bits / 2 ^ (mb + eb)) mod 2 =? 1).
  - (* negative: (est + 1/2, est - 1/2) = (- lo, - hi) *)
    pose proof (est_end_p (- man0) ex Hex) as L. pose proof (est_end_m (- man0) ex Hex) as R. cbv zeta in L, R.
    rewrite L, R.
    replace (4 * - man0 + 2) with (- (4 * man0 - 2)) by ring.
    replace (4 * - man0 - 2) with (- (4 * man0 + 2)) by ring.
    rewrite <- !fneg_scaled by lia. fold lo_m hi_m.
    rewrite (simplest_closed_swap (fneg hi_m) (fneg lo_m)).
    + destruct (simplest_closed _); reflexivity.
    + unfold fval_lt in *. unfold fneg. cbn [fst snd]. lia.
  - pose proof (est_end_p man0 ex Hex) as L. pose proof (est_end_m man0 ex Hex) as R. cbv zeta in L, R.
    rewrite L, R.
    fold lo_m hi_m.
    rewrite (simplest_closed_swap lo_m hi_m) by exact Hlt.
    destruct (simplest_closed _); reflexivity.
Qed.

(** non-vacuity: 0.1f32, -22/7 as f32, the smallest subnormal f64 *)
Example simplest_from_ieee_examples :
  known_ieee 23 8 1036831949 = false /\ simplest_from_ieee_pinned 23 8 1036831949 = Ok (Some (1, 10)) /\
  simplest_from_ieee_pinned 23 8 3226018962 = Ok (Some (-22, 7)) /\ simplest_from_ieee_spec 23 8 3226018962 = Ok (Some (-22, 7)) /\
  known_ieee 52 11 1 = false /\ simplest_from_ieee_pinned 52 11 1 = simplest_from_ieee_spec 52 11 1.
Proof. repeat split; vm_compute; reflexivity. Qed.

(** * normal powers of two: the code's interval is wider below f, the optimum is the same *)

(** ** order helpers (positive denominators) *)
Lemma fval_lt_trans : forall x y z, 0 < snd x -> 0 < snd y -> 0 < snd z -> fval_lt x y -> fval_lt y z -> fval_lt x z.
Proof. intros [a b] [c d] [e f]; unfold fval_lt; cbn [fst snd]; intros. apply (flt_trans a b c d e f); lia. Qed.

Lemma fval_lt_le_trans : forall x y z, 0 < snd x -> 0 < snd y -> 0 < snd z -> fval_lt x y -> ~ fval_lt z y -> fval_lt x z.
Proof. intros [a b] [c d] [e f]; unfold fval_lt; cbn [fst snd]; intros. apply (flt_trans a b c d e f); lia. Qed.

(** shrinking the lower end of an interval does not change the optimum when some F inside the
    smaller interval is simpler than everything of the larger interval below F *)
Lemma closed_shrink : forall lo lo' hi il il' ih F,
  canon lo -> canon lo' -> canon hi -> canon F ->
  fval_lt lo lo' -> fval_lt lo' F -> fval_lt F hi ->
  (forall s, canon s -> ~ fval_lt s lo -> fval_lt s F -> simpler F s = true) ->
  simplest_closed (lo, hi, il, ih) = simplest_closed (lo', hi, il', ih).
Proof.
  intros lo lo' hi il il' ih F Clo Clo' Chi CF H1 H2 H3 HF.
  pose proof (proj1 Clo) as Plo. pose proof (proj1 Clo') as Plo'. pose proof (proj1 Chi) as Phi. pose proof (proj1 CF) as PF.
  assert (HloF : fval_lt lo F) by (apply (fval_lt_trans lo lo' F); assumption).
  assert (Hlohi : fval_lt lo hi) by (apply (fval_lt_trans lo F hi); assumption).
  assert (Hlo'hi : fval_lt lo' hi) by (apply (fval_lt_trans lo' F hi); assumption).
  destruct (simplest_closed_correct lo hi il ih Clo Chi Hlohi) as (ra & Ea & Ma & Oa).
  destruct (simplest_closed_correct lo' hi il' ih Clo' Chi Hlo'hi) as (rs & Es & Ms & Os).
  rewrite Ea, Es. f_equal.
  cbn [member] in Ma, Ms. destruct Ma as (Ca & Ha). destruct Ms as (Cs & Hs).
  pose proof (proj1 Ca) as Pa. pose proof (proj1 Cs) as Ps.
  assert (MF : member (lo, hi, il, ih) F) by (cbn [member]; split; [exact CF|left; split; assumption]).
  assert (S1 : ~ fval_lt ra F).
  { intros Hlt. assert (Hnlo : ~ fval_lt ra lo).
    { destruct Ha as [(A & _)|[(_ & E)|(_ & E)]]; [|subst ra..]; unfold fval_lt in *; lia. }
    pose proof (HF ra Ca Hnlo Hlt) as HFr.
    assert (HFne : F <> ra) by (intros E; subst ra; unfold fval_lt in Hlt; lia).
    pose proof (Oa F MF HFne) as Hr. pose proof (simpler_asym _ _ Hr). congruence. }
  assert (M2 : member (lo', hi, il', ih) ra).
  { cbn [member]. split; [exact Ca|]. destruct Ha as [(A & B)|[(_ & E)|(Hc & E)]].
    - left. split; [|exact B]. apply (fval_lt_le_trans lo' F ra); assumption.
    - subst ra. contradiction (S1 HloF).
    - right; right. split; assumption. }
  assert (M3 : member (lo, hi, il, ih) rs).
  { cbn [member]. split; [exact Cs|]. destruct Hs as [(A & B)|[(_ & E)|(Hc & E)]].
    - left. split; [apply (fval_lt_trans lo lo' rs); assumption|exact B].
    - subst rs. left. split; [exact H1|exact Hlo'hi].
    - right; right; split; assumption. }
  destruct (frac_eq_dec ra rs) as [E|NE]; [exact E|].
  pose proof (Oa rs M3 (fun e => NE (eq_sym e))) as X1. pose proof (Os ra M2 NE) as X2.
  pose proof (simpler_asym _ _ X1). congruence.
Qed.

(** ** negation symmetry for positive intervals *)
Lemma fneg_invol : forall x, fneg (fneg x) = x.
Proof. intros [n d]. unfold fneg. cbn [fst snd]. rewrite Z.opp_involutive. reflexivity. Qed.

Definition rmap (f : frac -> frac) (r : result frac) : result frac :=
  match r with Ok x => Ok (f x) | Panic e => Panic e | Err e => Err e | OutOfFuel => OutOfFuel end.

Lemma simplest_in_spec_neg : forall lo hi, 0 < fst lo -> 0 < snd lo -> 0 < snd hi -> fval_lt lo hi ->
  simplest_in_spec (fneg hi) (fneg lo) = rmap fneg (simplest_in_spec lo hi).
Proof.
  intros [ln ld] [hn hd] Hln Hld Hhd Hlt. unfold fval_lt in Hlt. cbn [fst snd] in *.
  assert (Hhn : 0 < hn) by nia.
  unfold simplest_in_spec, feq, flt, fneg. cbn [fst snd].
  destruct (Z.eqb_spec (- hn * ld) (- ln * hd)); [lia|]. destruct (Z.ltb_spec (- hn * ld) (- ln * hd)); [|lia].
  destruct (Z.eqb_spec (ln * hd) (hn * ld)); [lia|]. destruct (Z.ltb_spec (ln * hd) (hn * ld)); [|lia].
  cbn [fst snd]. destruct (Z.ltb_spec (- hn) 0); [|lia]. destruct (Z.ltb_spec 0 (- ln)); [lia|]. cbn [andb].
  destruct (Z.leb_spec 0 (- hn)); [lia|]. destruct (Z.ltb_spec ln 0); [lia|]. cbn [andb]. destruct (Z.leb_spec 0 ln); [|lia].
  rewrite !Z.opp_involutive.
  destruct (simplest_pos (ln, ld) (hn, hd)); reflexivity.
Qed.

Lemma pick_fneg : forall c x best, 0 < fst x -> 0 < fst best -> pick c (fneg x) (fneg best) = fneg (pick c x best).
Proof.
  intros c [xn xd] [bn bd] Hx Hb. unfold pick, fneg. cbn [fst snd] in *. rewrite (simpler_neg xn xd bn bd Hx Hb).
  destruct (c && simpler (xn, xd) (bn, bd)); reflexivity.
Qed.

Lemma simplest_closed_neg : forall lo hi il ih, canon lo -> canon hi -> 0 < fst lo -> fval_lt lo hi ->
  simplest_closed (fneg hi, fneg lo, ih, il) = rmap fneg (simplest_closed (lo, hi, il, ih)).
Proof.
  intros lo hi il ih Clo Chi Hpos Hlt. pose proof (proj1 Clo) as Plo. pose proof (proj1 Chi) as Phi.
  unfold simplest_closed. rewrite (simplest_in_spec_neg lo hi Hpos Plo Phi Hlt).
  destruct (simplest_in_spec_correct lo hi Plo Phi) as (r0 & E & _ & Hcase).
  { unfold fval_eq. unfold fval_lt in Hlt. lia. }
  destruct Hcase as [(_ & Hb)|(Hrev & _)]; [|unfold fval_lt in *; lia].
  destruct Hb as (Pr & Hl & Hh & _). rewrite E. cbn [rmap]. f_equal.
  unfold fval_lt in Hlt, Hl, Hh.
  assert (Hr0 : 0 < fst r0) by nia. assert (Hhi : 0 < fst hi) by nia.
  rewrite (pick_fneg ih hi r0 Hhi Hr0).
  assert (Hp : 0 < fst (pick ih hi r0)) by (unfold pick; destruct (ih && simpler hi r0); assumption).
  rewrite (pick_fneg il lo _ Hpos Hp). rewrite pick_comm. reflexivity.
Qed.

(** ** units of 2^t with t < 0 *)
Lemma units_neg : forall B t x X, t < 0 -> uval B t x X 1 -> fst x * B ^ (- t) = X * snd x.
Proof.
  intros B t x X Ht U. unfold uval in U. rewrite Z.abs_neq in U by lia.
  replace (t + - t) with 0 in U by ring. rewrite Z.pow_0_r in U. lia.
Qed.

Lemma simpler_den_lt : forall x y, snd x < snd y -> simpler x y = true.
Proof. intros x y H. unfold simpler. apply Z.compare_lt_iff in H. rewrite H. reflexivity. Qed.

Section Pow2.
  Variables mb ex : Z.
  Hypothesis Hmb : 1 <= mb.
  Hypothesis Hex : ex <= 0.
  Let T := 2 ^ mb.
  Let t := ex - 2.
  Let Q := 2 ^ (- t).
  Let lo_a := scaled 2 (4 * T - 2) t 1.
  Let lo_s := scaled 2 (4 * T - 1) t 1.
  Let hi_m := scaled 2 (4 * T + 2) t 1.
  Let F := scaled 2 (4 * T) t 1.

  Lemma T_ge : 2 <= T.
  Proof. unfold T. replace mb with (1 + (mb - 1)) by ring. rewrite Z.pow_add_r by lia. assert (0 < 2 ^ (mb - 1)) by (apply Z.pow_pos_nonneg; lia). lia. Qed.

  Lemma Q_ge : 4 <= Q.
  Proof. unfold Q, t. replace (- (ex - 2)) with (2 + - ex) by ring. rewrite Z.pow_add_r by lia. assert (0 < 2 ^ (- ex)) by (apply Z.pow_pos_nonneg; lia). lia. Qed.

  Lemma sc_units : forall X, let y := scaled 2 X t 1 in canon y /\ fst y * Q = X * snd y.
  Proof.
    intros X y. split; [apply scaled_canon; lia|]. apply (units_neg 2 t y X); [unfold t; lia|].
    apply uval_scaled; lia.
  Qed.

  Lemma sc_lt : forall X1 X2, X1 < X2 -> fval_lt (scaled 2 X1 t 1) (scaled 2 X2 t 1).
  Proof.
    intros X1 X2 H. destruct (sc_units X1) as ((P1 & _) & U1). destruct (sc_units X2) as ((P2 & _) & U2).
    cbv zeta in *. unfold fval_lt. pose proof Q_ge.
    set (x := scaled 2 X1 t 1) in *. set (y := scaled 2 X2 t 1) in *.
    assert (fst x * snd y * Q < fst y * snd x * Q); [|nia].
    replace (fst x * snd y * Q) with ((fst x * Q) * snd y) by ring. rewrite U1.
    replace (fst y * snd x * Q) with ((fst y * Q) * snd x) by ring. rewrite U2.
    assert (0 < snd x * snd y) by nia. nia.
  Qed.

  Lemma four_T : 4 * T = 2 ^ (mb + 2).
  Proof. unfold T. rewrite Z.pow_add_r by lia. change (2 ^ 2) with 4. ring. Qed.

  (** f is simpler than every canonical fraction of [f - ulp/2, f) *)
  Lemma F_simpler : forall s, canon s -> ~ fval_lt s lo_a -> fval_lt s F -> simpler F s = true.
  Proof.
    intros [n d] (Pd & _) Hge Hlt. cbn [fst snd] in Pd.
    destruct (sc_units (4 * T - 2)) as ((Pa & _) & Ua). destruct (sc_units (4 * T)) as (CF & UF). cbv zeta in *.
    fold lo_a in Pa, Ua. fold F in CF, UF. pose proof (proj1 CF) as PF.
    pose proof T_ge as HT. pose proof Q_ge as HQ.
    unfold fval_lt in Hge, Hlt. cbn [fst snd] in Hge, Hlt.
    (* I1: (4T - 2) d <= n Q ;  I2: n Q < 4 T d *)
    assert (I1 : (4 * T - 2) * d <= n * Q).
    { assert ((4 * T - 2) * d * snd lo_a <= n * Q * snd lo_a); [|nia].
      replace ((4 * T - 2) * d * snd lo_a) with (((4 * T - 2) * snd lo_a) * d) by ring. rewrite <- Ua.
      assert (fst lo_a * d * Q <= n * snd lo_a * Q) by nia. lia. }
    assert (I2 : n * Q < 4 * T * d).
    { assert (n * Q * snd F < 4 * T * d * snd F); [|nia].
      replace (4 * T * d * snd F) with ((4 * T * snd F) * d) by ring. rewrite <- UF.
      assert (n * snd F * Q < fst F * d * Q) by nia. lia. }
    destruct (Z.le_gt_cases 0 (mb + ex)) as [Hk|Hk].
    - (* f = 2^k is an integer *)
      assert (EF : F = (2 ^ (mb + ex), 1)).
      { apply canon_eq; [exact CF|split; [cbn [snd]; lia|cbn [fst snd]; apply Z.gcd_1_r]|].
        unfold fval_eq. cbn [fst snd].
        assert (HQk : 2 ^ (mb + ex) * Q = 4 * T).
        { rewrite four_T. unfold Q, t. rewrite <- Z.pow_add_r by lia. f_equal. ring. }
        assert (fst F * 1 * Q = 2 ^ (mb + ex) * snd F * Q); [|nia].
        replace (fst F * 1 * Q) with (fst F * Q) by ring. rewrite UF. rewrite <- HQk. ring. }
      rewrite EF. destruct (Z.eq_dec d 1) as [->|Hd]; [exfalso|apply simpler_den_lt; cbn [snd]; lia].
      assert (HQk : 2 ^ (mb + ex) * Q = 4 * T).
      { rewrite four_T. unfold Q, t. rewrite <- Z.pow_add_r by lia. f_equal. ring. }
      assert (n < 2 ^ (mb + ex)) by nia. assert (n * Q <= (2 ^ (mb + ex) - 1) * Q) by nia. lia.
    - (* f = 1 / 2^(-k) *)
      set (D := 2 ^ (- (mb + ex))).
      assert (HD : 0 < D) by (apply Z.pow_pos_nonneg; lia).
      assert (HQD : 4 * T * D = Q).
      { rewrite four_T. unfold D, Q, t. rewrite <- Z.pow_add_r by lia. f_equal. ring. }
      assert (EF : F = (1, D)).
      { apply canon_eq; [exact CF|split; [cbn [snd]; exact HD|cbn [fst snd]; apply Z.gcd_1_l]|].
        unfold fval_eq. cbn [fst snd].
        assert (fst F * D * (4 * T) = 1 * snd F * (4 * T)); [|nia].
        replace (fst F * D * (4 * T)) with (fst F * (4 * T * D)) by ring. rewrite HQD, UF. ring. }
      rewrite EF. apply simpler_den_lt. cbn [snd].
      assert (0 < n) by nia.
      assert (n * (4 * T * D) < 4 * T * d) by (rewrite HQD; exact I2).
      assert (n * D < d) by nia. nia.
  Qed.

  Lemma pow2_shrink : forall i i',
    simplest_closed (lo_a, hi_m, i, i) = simplest_closed (lo_s, hi_m, i', i).
  Proof.
    intros i i'.
    apply (closed_shrink lo_a lo_s hi_m i i' i F); try (apply scaled_canon; lia); try (apply sc_lt; lia).
    exact F_simpler.
  Qed.

  Lemma sc_pos : forall X, 0 < X -> 0 < fst (scaled 2 X t 1).
  Proof.
    intros X HX. destruct (sc_units X) as ((Pa & _) & Ua). cbv zeta in *. pose proof Q_ge. nia.
  Qed.
End Pow2.

Theorem simplest_from_ieee_pinned_spec_pow2 : forall mb eb bits, 1 <= mb ->
  known_ieee mb eb bits = false ->
  (bits mod 2 ^ mb =? 0) && (2 <=? (bits / 2 ^ mb) mod 2 ^ eb) = true ->
  simplest_from_ieee_pinned mb eb bits = simplest_from_ieee_spec mb eb bits.
Proof.
  intros mb eb bits Hmb Hk Hpw.
  pose proof (simplest_from_ieee_pinned_closed mb eb bits) as HA. cbv zeta in HA. rewrite HA. clear HA.
  unfold simplest_from_ieee_spec, ieee_interval_spec. cbv zeta.
  unfold known_ieee in Hk. cbv zeta in Hk.
  set (E := (bits / 2 ^ mb) mod 2 ^ eb) in *.
  set (M := bits mod 2 ^ mb) in *.
  set (ex := (if E =? 0 then 1 else E) - (2 ^ (eb - 1) - 1) - mb) in *.
  set (man0 := if E =? 0 then M else M + 2 ^ mb) in *.
  assert (Hex : ex <= 0) by (apply Z.ltb_ge in Hk; exact Hk).
  rewrite Hpw. apply andb_prop in Hpw. destruct Hpw as (HM & HE). apply Z.eqb_eq in HM. apply Z.leb_le in HE.
  assert (Hev : Z.even bits = Z.even man0).
  { unfold man0, M. destruct (E =? 0); [|rewrite even_hidden_bit by exact Hmb]; symmetry; apply even_low_bits; exact Hmb. }
  assert (Hman : man0 = 2 ^ mb) by (unfold man0; destruct (Z.eqb_spec E 0); lia).
  rewrite Hev. clearbody man0. subst man0.
  destruct (E =? 2 ^ eb - 1); [reflexivity|].
  replace ((E =? 0) && (M =? 0)) with false by (destruct (Z.eqb_spec E 0); [lia|reflexivity]).
  set (i := Z.even (2 ^ mb)).
  set (lo_a := scaled 2 (4 * 2 ^ mb - 2) (ex - 2) 1). set (lo_s := scaled 2 (4 * 2 ^ mb - 1) (ex - 2) 1).
  set (hi_m := scaled 2 (4 * 2 ^ mb + 2) (ex - 2) 1).
  assert (Ca : canon lo_a) by (apply scaled_canon; lia). assert (Cs : canon lo_s) by (apply scaled_canon; lia).
  assert (Ch : canon hi_m) by (apply scaled_canon; lia).
  pose proof (T_ge mb ex Hmb Hex) as HT.
  assert (Lah : fval_lt lo_a hi_m) by (apply (sc_lt mb ex Hmb Hex); lia).
  assert (Lsh : fval_lt lo_s hi_m) by (apply (sc_lt mb ex Hmb Hex); lia).
  assert (Pa : 0 < fst lo_a) by (apply (sc_pos mb ex Hmb Hex); lia).
  assert (Ps : 0 < fst lo_s) by (apply (sc_pos mb ex Hmb Hex); lia).
  pose proof (pow2_shrink mb ex Hmb Hex i i) as S. fold lo_a lo_s hi_m in S.
  destruct ((bits / 2 ^ (mb + eb)) mod 2 =? 1).
  - pose proof (est_end_p (- 2 ^ mb) ex Hex) as L. pose proof (est_end_m (- 2 ^ mb) ex Hex) as R. cbv zeta in L, R.
    rewrite L, R.
    replace (4 * - 2 ^ mb + 2) with (- (4 * 2 ^ mb - 2)) by ring.
    replace (4 * - 2 ^ mb - 2) with (- (4 * 2 ^ mb + 2)) by ring.
    rewrite <- !fneg_scaled by lia. fold lo_a hi_m.
    rewrite (simplest_closed_swap (fneg hi_m) (fneg lo_a)) by (unfold fval_lt in *; unfold fneg; cbn [fst snd]; lia).
    rewrite (simplest_closed_neg lo_a hi_m i i Ca Ch Pa Lah).
    rewrite (simplest_closed_neg lo_s hi_m i i Cs Ch Ps Lsh).
    rewrite S. destruct (simplest_closed _); reflexivity.
  - pose proof (est_end_p (2 ^ mb) ex Hex) as L. pose proof (est_end_m (2 ^ mb) ex Hex) as R. cbv zeta in L, R.
    rewrite L, R. fold lo_a hi_m.
    rewrite (simplest_closed_swap lo_a hi_m) by exact Lah.
    rewrite S. destruct (simplest_closed _); reflexivity.
Qed.

(** ** the headline for f32 / f64: outside finding F04 the macro computes the specified optimum *)
Theorem simplest_from_ieee_pinned_spec : forall mb eb bits, 1 <= mb ->
  known_ieee mb eb bits = false ->
  simplest_from_ieee_pinned mb eb bits = simplest_from_ieee_spec mb eb bits.
Proof.
  intros mb eb bits Hmb Hk.
  destruct ((bits mod 2 ^ mb =? 0) && (2 <=? (bits / 2 ^ mb) mod 2 ^ eb)) eqn:Hpw.
  - apply simplest_from_ieee_pinned_spec_pow2; assumption.
  - apply simplest_from_ieee_pinned_spec_nonpow2; assumption.
Qed.

Example simplest_from_ieee_pow2_examples :
  known_ieee 23 8 1065353216 = false /\ simplest_from_ieee_pinned 23 8 1065353216 = Ok (Some (1, 1)) /\
  known_ieee 23 8 3196059648 = false /\ simplest_from_ieee_pinned 23 8 3196059648 = Ok (Some (-1, 4)) /\
  known_ieee 52 11 4503599627370496 = false /\
  simplest_from_ieee_pinned 52 11 4503599627370496 = simplest_from_ieee_spec 52 11 4503599627370496.
Proof. repeat split; vm_compute; reflexivity. Qed.
