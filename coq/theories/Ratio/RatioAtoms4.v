(** C04 (round 4): further atoms the regenerated bodies of coq/gen/RatioBodies4.v are written in
    (hand-written semantics; DEFINITIONS ONLY).
    - [while_fuel]: `while c { body }` over the tuple of the variables the body assigns; a loop that has not
      ended when the fuel is used up is [OutOfFuel] (a lemma then shows which fuel suffices);
    - [piece]: the three slices of the text the rational parsers hand to the integer parsers of dashu-int
      (`&src[..slash]`, `&src[slash + 1..]`, `src`); the integer parsers themselves are PARAMETERS of the
      generated parser bodies (their correctness is C07/C16's subject);
    - [dw_trailing_zeros]: u128::trailing_zeros (128 for zero). *)
From Dashu Require Import Base.Prelude Int.BitsSpec Ratio.RatArithModel Ratio.RatioAtoms.
Open Scope Z_scope.

Fixpoint while_fuel {S : Type} (fuel : nat) (c : S -> bool) (f : S -> S) (s : S) : result S :=
  match fuel with
  | O => OutOfFuel
  | Datatypes.S k => if c s then while_fuel k c f (f s) else Ok s
  end.

Inductive piece := PBefore | PAfter | PAll.

Definition dw_trailing_zeros (x : Z) : Z :=
  match trailing_zeros_spec x with Some k => k | None => 128 end.
