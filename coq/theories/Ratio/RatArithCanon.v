(** C04: the canonical representative [canon n d] - existence, value, uniqueness; coprimality toolkit. *)
From Coq Require Import Znumtheory.
From Dashu Require Import Base.Prelude Ratio.RatArithModel.
Open Scope Z_scope.

(* ---------------------------------------------------------------- exact division *)
Lemma quot_exact n g : g <> 0 -> (g | n) -> Z.quot n g = n / g.
Proof. intros Hg [k ->]. rewrite Z.quot_mul, Z.div_mul by assumption. reflexivity. Qed.

Lemma div_exact_mul n g : g <> 0 -> (g | n) -> g * (n / g) = n.
Proof. intros Hg [k ->]. rewrite Z.div_mul by assumption. ring. Qed.

Lemma gcd_pos_r n d : 0 < d -> 0 < Z.gcd n d.
Proof.
  intros Hd. pose proof (Z.gcd_nonneg n d) as H.
  destruct (Z.eq_dec (Z.gcd n d) 0) as [E|E]; [|lia].
  apply Z.gcd_eq_0_r in E. lia.
Qed.

Lemma gcd_pos_l n d : 0 < n -> 0 < Z.gcd n d.
Proof. intros H. rewrite Z.gcd_comm. apply gcd_pos_r. exact H. Qed.

(* ---------------------------------------------------------------- canon *)
Lemma canon_fst n d : 0 < d -> Z.gcd n d * fst (canon n d) = n.
Proof.
  intros Hd. unfold canon. cbn [fst]. apply div_exact_mul.
  - pose proof (gcd_pos_r n d Hd). lia.
  - apply Z.gcd_divide_l.
Qed.

Lemma canon_snd n d : 0 < d -> Z.gcd n d * snd (canon n d) = d.
Proof.
  intros Hd. unfold canon. cbn [snd]. apply div_exact_mul.
  - pose proof (gcd_pos_r n d Hd). lia.
  - apply Z.gcd_divide_r.
Qed.

Theorem canon_Inv n d : 0 < d -> Inv (canon n d).
Proof.
  intros Hd. pose proof (gcd_pos_r n d Hd) as Hg.
  pose proof (canon_snd n d Hd) as Hs. split.
  - destruct (Z.lt_trichotomy (snd (canon n d)) 0) as [H|[H|H]]; nia.
  - unfold canon. cbn [fst snd]. apply Z.gcd_div_gcd; [lia | reflexivity].
Qed.

Theorem canon_veq n d : 0 < d -> veq (canon n d) (n, d).
Proof.
  intros Hd. unfold veq. cbn [fst snd].
  pose proof (canon_fst n d Hd). pose proof (canon_snd n d Hd).
  pose proof (gcd_pos_r n d Hd). nia.
Qed.

(** zero is stored as 0/1 *)
Theorem canon_zero d : 0 < d -> canon 0 d = (0, 1).
Proof.
  intros Hd. unfold canon. rewrite Z.gcd_0_l, Z.abs_eq by lia.
  rewrite Z.div_0_l, Z.div_same by lia. reflexivity.
Qed.

Lemma Inv_zero x : Inv x -> fst x = 0 -> snd x = 1.
Proof.
  destruct x as [a b]. unfold Inv. cbn [fst snd]. intros [Hb Hg] ->.
  rewrite Z.gcd_0_l in Hg. lia.
Qed.

(** two fractions in lowest terms with the same value are the same pair *)
Theorem Inv_unique x y : Inv x -> Inv y -> veq x y -> x = y.
Proof.
  destruct x as [a b], y as [c d]. unfold Inv, veq. cbn [fst snd].
  intros [Hb Hab] [Hd Hcd] H.
  assert (Hbd : (b | d)).
  { apply Z.gauss with (m := a); [exists c; lia | rewrite Z.gcd_comm; exact Hab]. }
  assert (Hdb : (d | b)).
  { apply Z.gauss with (m := c); [exists a; lia | rewrite Z.gcd_comm; exact Hcd]. }
  assert (b = d) by (apply Z.divide_antisym_nonneg; [lia | lia | assumption | assumption]).
  subst d. f_equal. nia.
Qed.

(** the work-horse: a pair in lowest terms with the value N/D is [canon N D] *)
Theorem Inv_is_canon x N D : 0 < D -> Inv x -> fst x * D = N * snd x -> x = canon N D.
Proof.
  intros HD Hx Hv. apply Inv_unique; [exact Hx | apply canon_Inv; exact HD |].
  pose proof (canon_veq N D HD) as Hc. unfold veq in *. cbn [fst snd] in *.
  destruct Hx as [Hb _].
  pose proof (canon_Inv N D HD) as [Hcd _].
  (* fst x / snd x = N / D = fst c / snd c *)
  apply Z.mul_reg_r with (p := D); [lia|].
  set (c := canon N D) in *.
  replace (fst x * snd c * D) with ((fst x * D) * snd c) by ring. rewrite Hv.
  replace (fst c * snd x * D) with ((fst c * D) * snd x) by ring. rewrite Hc. ring.
Qed.

Theorem canon_of_Inv x : Inv x -> canon (fst x) (snd x) = x.
Proof. intros H. symmetry. apply Inv_is_canon; [apply H | exact H | ring]. Qed.

Lemma canon_scale k n d : 0 < k -> 0 < d -> canon (k * n) (k * d) = canon n d.
Proof.
  intros Hk Hd. symmetry. apply Inv_is_canon; [nia | apply canon_Inv; exact Hd |].
  pose proof (canon_veq n d Hd) as H. unfold veq in H. cbn [fst snd] in H. nia.
Qed.

Lemma canon_veq_eq n d n' d' : 0 < d -> 0 < d' -> n * d' = n' * d -> canon n d = canon n' d'.
Proof.
  intros Hd Hd' H. apply Inv_is_canon; [exact Hd' | apply canon_Inv; exact Hd |].
  pose proof (canon_veq n d Hd) as Hc. unfold veq in Hc. cbn [fst snd] in Hc.
  apply Z.mul_reg_r with (p := d); [lia|].
  set (c := canon n d) in *.
  replace (fst c * d' * d) with ((fst c * d) * d') by ring. rewrite Hc.
  replace (n' * snd c * d) with ((n' * d) * snd c) by ring. rewrite <- H. ring.
Qed.

Lemma invb_Inv x : invb x = true <-> Inv x.
Proof.
  unfold invb, Inv. rewrite andb_true_iff, Z.ltb_lt, Z.eqb_eq. tauto.
Qed.

(* ---------------------------------------------------------------- coprimality toolkit *)
Notation cop a b := (Z.gcd a b = 1).

Lemma cop_sym a b : cop a b -> cop b a.
Proof. rewrite Z.gcd_comm. auto. Qed.

Lemma cop_rel a b : cop a b <-> rel_prime a b.
Proof. apply Zgcd_1_rel_prime. Qed.

Lemma cop_mul_r a b c : cop a b -> cop a c -> cop a (b * c).
Proof. rewrite !cop_rel. apply rel_prime_mult. Qed.

Lemma cop_mul_l a b c : cop a c -> cop b c -> cop (a * b) c.
Proof. intros H1 H2. apply cop_sym. apply cop_mul_r; apply cop_sym; assumption. Qed.

Lemma cop_div_l a b c : cop a b -> (c | a) -> cop c b.
Proof. rewrite !cop_rel. intros H1 H2. eapply rel_prime_div; [exact H1 | exact H2]. Qed.

Lemma cop_div_r a b c : cop a b -> (c | b) -> cop a c.
Proof. intros H1 H2. apply cop_sym. eapply cop_div_l; [apply cop_sym; exact H1 | exact H2]. Qed.

Lemma cop_opp_l a b : cop a b -> cop (- a) b.
Proof. rewrite Z.gcd_opp_l. auto. Qed.

Lemma cop_abs_l a b : cop a b -> cop (Z.abs a) b.
Proof. rewrite Z.gcd_abs_l. auto. Qed.

(** adding a multiple of the other side does not change coprimality *)
Lemma cop_add_mul_l x k b : cop x b -> cop (x + k * b) b.
Proof. intros H. rewrite Z.gcd_comm, Z.gcd_add_mult_diag_r, Z.gcd_comm. exact H. Qed.

Lemma cop_sub_mul_l x k b : cop x b -> cop (x - k * b) b.
Proof. intros H. replace (x - k * b) with (x + (- k) * b) by ring. apply cop_add_mul_l. exact H. Qed.

Lemma cop_mul_sub_l x k b : cop x b -> cop (k * b - x) b.
Proof. intros H. replace (k * b - x) with (- x + k * b) by ring. apply cop_add_mul_l, cop_opp_l. exact H. Qed.

Lemma cop_pow a b n : 0 <= n -> cop a b -> cop (a ^ n) (b ^ n).
Proof.
  intros Hn H. pattern n. apply natlike_ind; [| | exact Hn].
  - rewrite !Z.pow_0_r. apply Z.gcd_1_l.
  - intros k Hk IH. rewrite !Z.pow_succ_r by assumption.
    assert (cop a (b ^ k)).
    { pattern k. apply natlike_ind; [rewrite Z.pow_0_r; apply Z.gcd_1_r | | exact Hk].
      intros j Hj IHj. rewrite Z.pow_succ_r by assumption. apply cop_mul_r; assumption. }
    assert (cop (a ^ k) b).
    { pattern k. apply natlike_ind; [rewrite Z.pow_0_r; apply Z.gcd_1_l | | exact Hk].
      intros j Hj IHj. rewrite Z.pow_succ_r by assumption. apply cop_mul_l; assumption. }
    apply cop_mul_l; apply cop_mul_r; assumption.
Qed.

Lemma div_gcd_l a b : Z.gcd a b <> 0 -> (a / Z.gcd a b | a).
Proof. intros H. exists (Z.gcd a b). symmetry. apply div_exact_mul; [exact H | apply Z.gcd_divide_l]. Qed.

Lemma div_gcd_r a b : Z.gcd a b <> 0 -> (b / Z.gcd a b | b).
Proof. intros H. exists (Z.gcd a b). symmetry. apply div_exact_mul; [exact H | apply Z.gcd_divide_r]. Qed.

Lemma cop_div_gcd a b : Z.gcd a b <> 0 -> cop (a / Z.gcd a b) (b / Z.gcd a b).
Proof. intros H. apply Z.gcd_div_gcd; [exact H | reflexivity]. Qed.
