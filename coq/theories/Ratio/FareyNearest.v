(** C18 - nearest: the as-is model returns Exact(x) iff the denominator fits, otherwise the
    successor or predecessor of x in F_limit, whichever no element of F_limit beats in distance,
    with the sign of (result - x).  Also: soundness of the three checkers the oracle uses. *)
From Dashu Require Import Base.Prelude Ratio.BinIter Ratio.SimplestSpec Ratio.SimplestModel
  Ratio.SimplestProof Ratio.SimplestAsis Ratio.FareyProof Ratio.FareyNext.
From Coq Require Import Znumtheory.
Open Scope Z_scope.

(** |x - s| < |x - r| by cross multiplication (all denominators positive) *)
Definition closer (x s r : frac) : Prop :=
  Z.abs (fst x * snd s - fst s * snd x) * snd r < Z.abs (fst x * snd r - fst r * snd x) * snd s.

Definition is_nearest (x : frac) (L : Z) (r : frac) : Prop :=
  in_FL L r /\ Z.gcd (fst r) (snd r) = 1 /\ forall s, in_FL L s -> ~ closer x s r.

(** at the level of the fractional part: (l, r) Farey pair around fr = (fa, fb) *)
Lemma pair_dichotomy : forall L fa fb l r n m, 0 < fb -> farey_pair L (fa, fb) l r -> 0 < m <= L ->
  n * snd l <= fst l * m \/ fst r * m <= n * snd r.
Proof.
  intros L fa fb [ln ld] [rn rd] n m Hfb (Hld & Hrd & Hdet & _ & _ & Hexit) Hm. cbn [fst snd] in *.
  destruct (Z.le_gt_cases (n * ld) (ln * m)) as [|H1]; [left; assumption|].
  destruct (Z.le_gt_cases (rn * m) (n * rd)) as [|H2]; [right; assumption|].
  pose proof (farey_adjacent ln ld rn rd n m). lia.
Qed.

Lemma choose_right : forall L fa fb l r n m, 0 < fb -> farey_pair L (fa, fb) l r -> 0 < m <= L ->
  (fst l * snd r + fst r * snd l) * fb < 2 * fa * (snd l * snd r) ->
  ~ closer (fa, fb) (n, m) r.
Proof.
  intros L fa fb l r n m Hfb Hpair Hm Hmid.
  pose proof (pair_dichotomy L fa fb l r n m Hfb Hpair Hm) as Hdi.
  destruct l as [ln ld], r as [rn rd]. destruct Hpair as (Hld & Hrd & Hdet & Hl & Hr & Hexit).
  unfold closer, fval_lt in *. cbn [fst snd] in *.
  rewrite (Z.abs_neq (fa * rd - rn * fb)) by lia.
  destruct Hdi as [Hle|Hge].
  - (* s <= l < fr *)
    assert (n * fb < fa * m) by (apply (fle_lt_trans n m ln ld fa fb); lia).
    rewrite Z.abs_eq by lia.
    assert (A1 : n * ld * (fb * rd) <= ln * m * (fb * rd)) by (apply Z.mul_le_mono_nonneg_r; [nia|lia]).
    assert (A2 : (ln * rd + rn * ld) * fb * m < 2 * fa * (ld * rd) * m) by (apply Z.mul_lt_mono_pos_r; lia).
    assert (A3 : ld * ((rn * fb - fa * rd) * m) <= ld * ((fa * m - n * fb) * rd)) by lia.
    apply Z.mul_le_mono_pos_l in A3; lia.
  - (* fr < r <= s *)
    assert (fa * m < n * fb) by (apply (flt_trans fa fb rn rd n m); lia).
    rewrite Z.abs_neq by lia. nia.
Qed.

Lemma choose_left : forall L fa fb l r n m, 0 < fb -> farey_pair L (fa, fb) l r -> 0 < m <= L ->
  2 * fa * (snd l * snd r) <= (fst l * snd r + fst r * snd l) * fb ->
  ~ closer (fa, fb) (n, m) l.
Proof.
  intros L fa fb l r n m Hfb Hpair Hm Hmid.
  pose proof (pair_dichotomy L fa fb l r n m Hfb Hpair Hm) as Hdi.
  destruct l as [ln ld], r as [rn rd]. destruct Hpair as (Hld & Hrd & Hdet & Hl & Hr & Hexit).
  unfold closer, fval_lt in *. cbn [fst snd] in *.
  rewrite (Z.abs_eq (fa * ld - ln * fb)) by lia.
  destruct Hdi as [Hle|Hge].
  - assert (n * fb < fa * m) by (apply (fle_lt_trans n m ln ld fa fb); lia).
    rewrite Z.abs_eq by lia. nia.
  - assert (fa * m < n * fb) by (apply (flt_trans fa fb rn rd n m); lia).
    rewrite Z.abs_neq by lia.
    assert (A1 : rn * m * (fb * ld) <= n * rd * (fb * ld)) by (apply Z.mul_le_mono_nonneg_r; [nia|lia]).
    assert (A2 : 2 * fa * (ld * rd) * m <= (ln * rd + rn * ld) * fb * m) by (apply Z.mul_le_mono_nonneg_r; lia).
    assert (A3 : rd * ((fa * ld - ln * fb) * m) <= rd * ((n * fb - fa * m) * ld)) by lia.
    apply Z.mul_le_mono_pos_l in A3; lia.
Qed.

(** translation by the integer part does not change distances *)
Lemma closer_shift : forall xn xd t fa n m cn cd, xn = t * xd + fa ->
  closer (xn, xd) (n, m) (t * cd + cn, cd) <-> closer (fa, xd) (n - t * m, m) (cn, cd).
Proof.
  intros xn xd t fa n m cn cd ->. unfold closer. cbn [fst snd].
  replace ((t * xd + fa) * m - n * xd) with (fa * m - (n - t * m) * xd) by ring.
  replace ((t * xd + fa) * cd - (t * cd + cn) * xd) with (fa * cd - cn * xd) by ring. reflexivity.
Qed.

Theorem nearest_asis_correct : forall x L, 1 <= L -> 0 < snd x -> Z.gcd (fst x) (snd x) = 1 ->
  (snd x <= L -> nearest_asis x L = Ok (AExact x)) /\
  (L < snd x -> exists r sg, nearest_asis x L = Ok (AInexact r sg) /\ is_nearest x L r /\
     ((sg = Positive /\ is_succ x L r) \/ (sg = Negative /\ is_pred x L r))).
Proof.
  intros [xn xd] L HL Hxd Hg. cbn [fst snd] in *. unfold nearest_asis. cbn [fst snd].
  destruct (Z.eqb_spec L 0) as [|_]; [lia|]. split.
  - intros Hfit. destruct (Z.leb_spec xd L); [reflexivity|lia].
  - intros Hcut. destruct (Z.leb_spec xd L); [lia|].
    pose proof (split_props xn xd Hxd Hg) as Hs. cbv zeta in Hs.
    destruct (split_at_point (xn, xd)) as [t [fa fb]]. cbn [fst snd] in Hs.
    destruct Hs as (Hfb & Hfg & Hsm & Hx & Hshape).
    destruct Hshape as [(E & Hrem)|(_ & E1)]; [|lia]. inversion E; subst fa fb.
    set (fa := Z.rem xn xd) in *.
    destruct (farey_neighbors_asis_ok (fa, xd) L HL) as (l & r & Hrun & Hpair); cbn [fst snd]; try assumption.
    { destruct Hsm as [|(? & ?)]; lia. }
    rewrite Hrun.
    assert (Hxe : xn = t * xd + fa) by nia.
    pose proof Hpair as (Hld & Hrd & Hdet & Hl & Hr & Hexit).
    destruct l as [ln ld], r as [rn rd]. unfold fval_lt in Hl, Hr. cbn [fst snd] in *.
    assert (Hgl : Z.gcd ln ld = 1) by (apply (det_coprime _ _ (- rd) rn); lia).
    assert (Hgr : Z.gcd rn rd = 1) by (apply (det_coprime _ _ ld (- ln)); lia).
    destruct (freduce_mul (fadd (ln, ld) (rn, rd))) as (g & Hgp & Hn & Hd & _ & Hmd).
    { unfold fadd. cbn [fst snd]. nia. }
    set (mid0 := freduce (fadd (ln, ld) (rn, rd))) in *.
    unfold fadd in Hn, Hd. cbn [fst snd] in Hn, Hd. unfold flt. cbn [fst snd].
    destruct (Z.ltb_spec (fst mid0 * xd) (fa * (2 * snd mid0))) as [Hm|Hm].
    + (* right neighbour *)
      assert (Hmid : (ln * rd + rn * ld) * xd < 2 * fa * (ld * rd)).
      { rewrite Hn, Hd. assert (g * (fst mid0 * xd) < g * (fa * (2 * snd mid0))) by (apply Z.mul_lt_mono_pos_l; lia). lia. }
      exists (int_add t (rn, rd)), Positive. split; [reflexivity|].
      assert (Hsucc : is_succ (xn, xd) L (int_add t (rn, rd))).
      { apply (shift_succ L xn xd t fa xd (fa, xd) (ln, ld) (rn, rd)); cbn [fst snd]; try assumption; try lia. }
      split; [|left; split; [reflexivity|exact Hsucc]].
      destruct Hsucc as (HFL & Hgc & _). split; [exact HFL|]. split; [exact Hgc|].
      intros [n m] Hsm'. unfold in_FL in Hsm'. cbn [fst snd] in Hsm'.
      rewrite int_add_coprime by exact Hgr. rewrite (closer_shift xn xd t fa n m rn rd Hxe).
      apply (choose_right L fa xd (ln, ld) (rn, rd) (n - t * m) m); cbn [fst snd]; assumption.
    + assert (Hmid : 2 * fa * (ld * rd) <= (ln * rd + rn * ld) * xd).
      { rewrite Hn, Hd. assert (g * (fa * (2 * snd mid0)) <= g * (fst mid0 * xd)) by (apply Z.mul_le_mono_nonneg_l; lia). lia. }
      exists (int_add t (ln, ld)), Negative. split; [reflexivity|].
      assert (Hpred : is_pred (xn, xd) L (int_add t (ln, ld))).
      { apply (shift_pred L xn xd t fa xd (fa, xd) (ln, ld) (rn, rd)); cbn [fst snd]; try assumption; try lia. }
      split; [|right; split; [reflexivity|exact Hpred]].
      destruct Hpred as (HFL & Hgc & _). split; [exact HFL|]. split; [exact Hgc|].
      intros [n m] Hsm'. unfold in_FL in Hsm'. cbn [fst snd] in Hsm'.
      rewrite int_add_coprime by exact Hgl. rewrite (closer_shift xn xd t fa n m ln ld Hxe).
      apply (choose_left L fa xd (ln, ld) (rn, rd) (n - t * m) m); cbn [fst snd]; assumption.
Qed.

Lemma nearest_limit_zero : forall x, nearest_asis x 0 = Panic DivideBy0.
Proof. reflexivity. Qed.

(** ** soundness of the oracle's checkers *)
Lemma simpler_den_le : forall r s, simpler r s = true -> snd r <= snd s.
Proof.
  intros [a b] [c d]. unfold simpler. cbn [fst snd].
  destruct (Z.compare_spec b d); intros H0; [lia|lia|discriminate].
Qed.

(** no fraction of denominator <= L strictly between lo and hi *)
Lemma den_gt_sound : forall lo hi L, 0 < snd lo -> 0 < snd hi -> fval_lt lo hi -> den_gt lo hi L = Ok true ->
  forall s, 0 < snd s <= L -> fval_lt lo s -> fval_lt s hi -> False.
Proof.
  intros lo hi L Hlo Hhi Hlt Hchk s Hs H1 H2. unfold den_gt in Hchk.
  destruct (simplest_in_spec_correct lo hi Hlo Hhi) as (q & Hq & Hgq & Hbetw).
  { unfold fval_eq. unfold fval_lt in Hlt. lia. }
  rewrite Hq in Hchk. injection Hchk as Hchk. apply Z.ltb_lt in Hchk.
  destruct Hbetw as [(_ & Hb)|(Hrev & _)]; [|unfold fval_lt in *; lia].
  destruct Hb as (Hqd & _ & _ & Hmin).
  destruct (Z.eq_dec (fst s * snd q) (fst q * snd s)) as [E|NE].
  - (* s has the value of q: q is canonical, so its denominator divides that of s *)
    assert (Hdiv : (snd q | fst q * snd s)) by (exists (fst s); lia).
    apply Gauss in Hdiv; [|apply Zgcd_1_rel_prime; rewrite Z.gcd_comm; exact Hgq].
    apply Z.divide_pos_le in Hdiv; lia.
  - pose proof (simpler_den_le _ _ (Hmin s ltac:(lia) H1 H2 NE)). lia.
Qed.

Theorem next_up_check_sound : forall x L r, 0 < snd x -> next_up_check x L r = Ok true -> is_succ x L r.
Proof.
  intros x L r Hx H. unfold next_up_check, canonical, flt in H.
  destruct (Z.ltb_spec 0 (snd r)) as [Hrd|]; cbn [andb] in H; [|discriminate].
  destruct (Z.eqb_spec (Z.gcd (fst r) (snd r)) 1) as [Hgr|]; cbn [andb] in H; [|discriminate].
  destruct (Z.leb_spec (snd r) L) as [HrL|]; cbn [andb] in H; [|discriminate].
  destruct (Z.ltb_spec (fst x * snd r) (fst r * snd x)) as [Hxr|]; [|discriminate].
  unfold is_succ, in_FL. split; [lia|]. split; [exact Hgr|]. split; [exact Hxr|].
  intros s Hs H1 H2. exact (den_gt_sound x r L Hx Hrd Hxr H s Hs H1 H2).
Qed.

Theorem next_down_check_sound : forall x L r, 0 < snd x -> next_down_check x L r = Ok true -> is_pred x L r.
Proof.
  intros x L r Hx H. unfold next_down_check, canonical, flt in H.
  destruct (Z.ltb_spec 0 (snd r)) as [Hrd|]; cbn [andb] in H; [|discriminate].
  destruct (Z.eqb_spec (Z.gcd (fst r) (snd r)) 1) as [Hgr|]; cbn [andb] in H; [|discriminate].
  destruct (Z.leb_spec (snd r) L) as [HrL|]; cbn [andb] in H; [|discriminate].
  destruct (Z.ltb_spec (fst r * snd x) (fst x * snd r)) as [Hxr|]; [|discriminate].
  unfold is_pred, in_FL. split; [lia|]. split; [exact Hgr|]. split; [exact Hxr|].
  intros s Hs H1 H2. exact (den_gt_sound r x L Hrd Hx Hxr H s Hs H2 H1).
Qed.

(** a fraction strictly closer to x than r lies strictly between r and its mirror image 2x - r *)
Lemma closer_between_up : forall xn xd sn sd rn rd, 0 < xd -> 0 < sd -> 0 < rd -> xn * rd < rn * xd ->
  closer (xn, xd) (sn, sd) (rn, rd) ->
  (2 * xn * rd - rn * xd) * sd < sn * (xd * rd) /\ sn * rd < rn * sd.
Proof.
  intros xn xd sn sd rn rd Hxd Hsd Hrd Hxr H. unfold closer in H. cbn [fst snd] in H.
  rewrite (Z.abs_neq (xn * rd - rn * xd)) in H by lia.
  destruct (Z.le_gt_cases 0 (xn * sd - sn * xd)) as [Hs|Hs].
  - rewrite Z.abs_eq in H by lia. split; [lia|]. apply (fle_lt_trans sn sd xn xd rn rd); lia.
  - rewrite Z.abs_neq in H by lia. split; [|nia].
    assert (xn * rd * sd < rn * xd * sd) by nia. assert (xn * sd * rd < sn * xd * rd) by nia. lia.
Qed.

Lemma closer_between_down : forall xn xd sn sd rn rd, 0 < xd -> 0 < sd -> 0 < rd -> rn * xd < xn * rd ->
  closer (xn, xd) (sn, sd) (rn, rd) ->
  rn * sd < sn * rd /\ sn * (xd * rd) < (2 * xn * rd - rn * xd) * sd.
Proof.
  intros xn xd sn sd rn rd Hxd Hsd Hrd Hxr H. unfold closer in H. cbn [fst snd] in H.
  rewrite (Z.abs_eq (xn * rd - rn * xd)) in H by lia.
  destruct (Z.le_gt_cases 0 (xn * sd - sn * xd)) as [Hs|Hs].
  - rewrite Z.abs_eq in H by lia. split; [nia|].
    assert (rn * xd * sd < xn * rd * sd) by nia. assert (sn * xd * rd <= xn * sd * rd) by nia. lia.
  - rewrite Z.abs_neq in H by lia. split; [|lia]. apply (flt_trans rn rd xn xd sn sd); lia.
Qed.

Theorem nearest_check_sound : forall x L r sg, 0 < snd x -> nearest_check x L r sg = Ok true ->
  is_nearest x L r /\
  ((sg = Positive /\ fval_lt x r) \/ (sg = Negative /\ fval_lt r x)).
Proof.
  intros [xn xd] L [rn rd] sg Hx H. cbn [snd] in Hx. unfold nearest_check, canonical, flt, fsub in H. cbn [fst snd] in H.
  destruct (Z.ltb_spec 0 rd) as [Hrd|]; cbn [andb] in H; [|discriminate].
  destruct (Z.eqb_spec (Z.gcd rn rd) 1) as [Hgr|]; cbn [andb] in H; [|discriminate].
  destruct (Z.leb_spec rd L) as [HrL|]; cbn [andb] in H; [|discriminate].
  assert (Hmd : 0 < xd * rd) by nia.
  destruct (Z.ltb_spec (xn * rd) (rn * xd)) as [Hup|Hnup].
  - destruct sg; [|discriminate]. split; [|left; split; [reflexivity|unfold fval_lt; cbn [fst snd]; lia]].
    unfold is_nearest, in_FL. cbn [fst snd]. split; [lia|]. split; [exact Hgr|].
    intros [sn sd] Hs Hc. cbn [fst snd] in Hs.
    destruct (closer_between_up xn xd sn sd rn rd Hx ltac:(lia) Hrd Hup Hc) as (H1 & H2).
    apply (den_gt_sound (2 * xn * rd - rn * xd, xd * rd) (rn, rd) L Hmd Hrd) with (s := (sn, sd));
      [ | exact H | exact Hs | | ]; unfold fval_lt; cbn [fst snd]; [|lia|lia].
    assert (xn * rd * rd < rn * xd * rd) by (apply Z.mul_lt_mono_pos_r; lia). lia.
  - destruct (Z.ltb_spec (rn * xd) (xn * rd)) as [Hdown|]; [|discriminate].
    destruct sg; [discriminate|]. split; [|right; split; [reflexivity|unfold fval_lt; cbn [fst snd]; lia]].
    unfold is_nearest, in_FL. cbn [fst snd]. split; [lia|]. split; [exact Hgr|].
    intros [sn sd] Hs Hc. cbn [fst snd] in Hs.
    destruct (closer_between_down xn xd sn sd rn rd Hx ltac:(lia) Hrd Hdown Hc) as (H1 & H2).
    apply (den_gt_sound (rn, rd) (2 * xn * rd - rn * xd, xd * rd) L Hrd Hmd) with (s := (sn, sd));
      [ | exact H | exact Hs | | ]; unfold fval_lt; cbn [fst snd]; [|lia|lia].
    assert (rn * xd * rd < xn * rd * rd) by (apply Z.mul_lt_mono_pos_r; lia). lia.
Qed.

(** non-vacuity: pi ~ 3.141592653 at limit 10 (the doc examples), an integer at limit 1 *)
Example farey_examples :
  next_up_asis (3141592653, 1000000000) 10 = Ok (22, 7) /\
  next_down_asis (3141592653, 1000000000) 10 = Ok (25, 8) /\
  nearest_asis (3141592653, 1000000000) 10 = Ok (AInexact (22, 7) Positive) /\
  nearest_asis (22, 7) 10 = Ok (AExact (22, 7)) /\
  next_up_asis (3, 1) 1 = Ok (4, 1) /\ next_down_asis (-1, 2) 2 = Ok (-1, 1) /\
  next_up_check (3141592653, 1000000000) 10 (22, 7) = Ok true /\
  next_down_check (3141592653, 1000000000) 10 (25, 8) = Ok true /\
  nearest_check (3141592653, 1000000000) 10 (22, 7) Positive = Ok true /\
  nearest_check (3141592653, 1000000000) 10 (25, 8) Negative = Ok false.
Proof. repeat split; vm_compute; reflexivity. Qed.
