(** C04 (round 3): the atoms the regenerated bodies of coq/gen/RatioBodies.v are written in
    (hand-written semantics of the integer-layer calls the rational macros make; DEFINITIONS ONLY).
    The integer methods rem / rem_euclid / div_euclid / div_rem_euclid panic on a zero divisor; that is how
    `%` and the Euclidean forms of the rational layer detect a zero right operand. *)
From Dashu Require Import Base.Prelude Int.BitsSpec Ratio.RatArithModel.
Open Scope Z_scope.

Definition zrem_r (l r : Z) : result Z := if r =? 0 then Panic DivideBy0 else Ok (Z.rem l r).
Definition zreme_r (l r : Z) : result Z := if r =? 0 then Panic DivideBy0 else Ok (emod l r).
Definition zdive_r (l r : Z) : result Z := if r =? 0 then Panic DivideBy0 else Ok (ediv l r).
Definition zdivreme_r (l r : Z) : result (Z * Z) := if r =? 0 then Panic DivideBy0 else Ok (ediv l r, emod l r).

(** Option::unwrap_or_default / Option::unwrap on the result of trailing_zeros *)
Definition unwrap_or_default (o : option Z) : Z := match o with Some k => k | None => 0 end.
Definition unwrap_r (o : option Z) : result Z := match o with Some k => Ok k | None => Panic Undocumented end.

(** `==` on dashu_base::Sign *)
Definition sign_eqb (a b : sign) : bool :=
  match a, b with Positive, Positive | Negative, Negative => true | _, _ => false end.
