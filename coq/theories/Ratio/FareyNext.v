(** C18 - next_up / next_down: the as-is models (split_at_point, the 1/(limit^2+1) step for values
    that already fit, farey_neighbors, IBig + RBig) return the successor / predecessor of x among
    the fractions of denominator <= limit, for every canonical x and every limit >= 1; limit 0 is
    the documented panic. *)
From Dashu Require Import Base.Prelude Ratio.BinIter Ratio.SimplestSpec Ratio.SimplestModel
  Ratio.SimplestProof Ratio.SimplestAsis Ratio.FareyProof.
From Coq Require Import Znumtheory.
Open Scope Z_scope.

Definition in_FL (L : Z) (s : frac) : Prop := 0 < snd s <= L.

Definition is_succ (x : frac) (L : Z) (r : frac) : Prop :=
  in_FL L r /\ Z.gcd (fst r) (snd r) = 1 /\ fval_lt x r /\
  forall s, in_FL L s -> fval_lt x s -> ~ fval_lt s r.

Definition is_pred (x : frac) (L : Z) (r : frac) : Prop :=
  in_FL L r /\ Z.gcd (fst r) (snd r) = 1 /\ fval_lt r x /\
  forall s, in_FL L s -> fval_lt s x -> ~ fval_lt r s.

Lemma gcd_shift : forall t n d, Z.gcd n d = 1 -> Z.gcd (t * d + n) d = 1.
Proof.
  intros t n d H. rewrite Z.gcd_comm. rewrite Z.add_comm. rewrite Z.gcd_add_mult_diag_r. rewrite Z.gcd_comm. exact H.
Qed.

(** x = t + fr, (l, r) the Farey pair around a target tg >= fr with no element of F_L in (fr, tg] *)
Lemma shift_succ : forall L xn xd t fa fb tg l r,
  0 < xd -> 0 < fb -> xn * fb = (t * fb + fa) * xd ->
  0 < snd tg -> farey_pair L tg l r ->
  fa * snd tg <= fst tg * fb ->
  (forall n m, 0 < m <= L -> fa * m < n * fb -> fst tg * m < n * snd tg) ->
  is_succ (xn, xd) L (int_add t r).
Proof.
  intros L xn xd t fa fb [tn td] [ln ld] [rn rd] Hxd Hfb Hx Htd (Hld & Hrd & Hdet & Hl & Hr & Hexit) Hfr Hgap.
  unfold fval_lt in *. cbn [fst snd] in *.
  assert (Hg : Z.gcd rn rd = 1) by (apply (det_coprime _ _ ld (- ln)); lia).
  rewrite int_add_coprime by exact Hg.
  assert (Hfr_r : fa * rd < rn * fb) by (apply (fle_lt_trans fa fb tn td rn rd); lia).
  unfold is_succ, in_FL, fval_lt. cbn [fst snd]. split; [lia|]. split; [apply gcd_shift; exact Hg|]. split.
  - assert (xn * fb * rd < (t * rd + rn) * xd * fb) by (rewrite Hx; nia). nia.
  - intros [n m] Hm Hxs Hsr. cbn [fst snd] in *.
    assert (H1 : fa * m < (n - t * m) * fb).
    { assert (xn * fb * m < n * xd * fb) by nia. rewrite Hx in H. nia. }
    pose proof (Hgap (n - t * m) m Hm H1) as H2.
    assert (H3 : ln * m < (n - t * m) * ld) by (apply (flt_trans ln ld tn td (n - t * m) m); lia).
    assert (H4 : (n - t * m) * rd < rn * m) by lia.
    pose proof (farey_adjacent ln ld rn rd (n - t * m) m). lia.
Qed.

Lemma shift_pred : forall L xn xd t fa fb tg l r,
  0 < xd -> 0 < fb -> xn * fb = (t * fb + fa) * xd ->
  0 < snd tg -> farey_pair L tg l r ->
  fst tg * fb <= fa * snd tg ->
  (forall n m, 0 < m <= L -> n * fb < fa * m -> n * snd tg < fst tg * m) ->
  is_pred (xn, xd) L (int_add t l).
Proof.
  intros L xn xd t fa fb [tn td] [ln ld] [rn rd] Hxd Hfb Hx Htd (Hld & Hrd & Hdet & Hl & Hr & Hexit) Hfr Hgap.
  unfold fval_lt in *. cbn [fst snd] in *.
  assert (Hg : Z.gcd ln ld = 1) by (apply (det_coprime _ _ (- rd) rn); lia).
  rewrite int_add_coprime by exact Hg.
  assert (Hl_fr : ln * fb < fa * ld) by (apply (flt_trans ln ld tn td fa fb); lia).
  unfold is_pred, in_FL, fval_lt. cbn [fst snd]. split; [lia|]. split; [apply gcd_shift; exact Hg|]. split.
  - assert ((t * ld + ln) * xd * fb < xn * fb * ld) by (rewrite Hx; nia). nia.
  - intros [n m] Hm Hsx Hrs. cbn [fst snd] in *.
    assert (H1 : (n - t * m) * fb < fa * m).
    { assert (n * xd * fb < xn * fb * m) by nia. rewrite Hx in H. nia. }
    pose proof (Hgap (n - t * m) m Hm H1) as H2.
    assert (H3 : (n - t * m) * rd < rn * m) by (apply (flt_trans (n - t * m) m tn td rn rd); lia).
    assert (H4 : ln * m < (n - t * m) * ld) by lia.
    pose proof (farey_adjacent ln ld rn rd (n - t * m) m). lia.
Qed.

(** ** the step 1/(limit^2+1) leaves the Farey gap of a fraction that fits *)
Definition small_frac (fa fb : Z) : Prop := Z.abs fa < fb \/ (fa = 0 /\ fb = 1).

Lemma up_target : forall L fa fb, 1 <= L -> 0 < fb <= L -> small_frac fa fb ->
  let tg := freduce (fadd (fa, fb) (1, nudge L)) in
  L < snd tg /\ Z.gcd (fst tg) (snd tg) = 1 /\ Z.abs (fst tg) <= snd tg /\
  fa * snd tg <= fst tg * fb /\
  (forall n m, 0 < m <= L -> fa * m < n * fb -> fst tg * m < n * snd tg).
Proof.
  intros L fa fb HL Hfb Hsm tg. unfold nudge in tg.
  destruct (freduce_mul (fadd (fa, fb) (1, L * L + 1))) as (g & Hg & Hn & Hd & Hcop & Hpos).
  { unfold fadd. cbn [fst snd]. apply Z.mul_pos_pos; [lia|nia]. }
  fold tg in Hn, Hd, Hcop, Hpos. unfold fadd in Hn, Hd. cbn [fst snd] in Hn, Hd.
  set (tn := fst tg) in *. set (td := snd tg) in *. set (N := L * L + 1) in *.
  assert (HN : L * L < N) by (unfold N; lia).
  assert (HfbN : 0 < fb * N) by nia.
  assert (E1 : tn * (fb * N) = (fa * N + fb) * td).
  { rewrite Hd. replace (fa * N + fb) with (g * tn) by lia. ring. }
  clear Hn Hd.
  split; [|split; [exact Hcop|split; [|split]]].
  - destruct (Z.lt_ge_cases L td) as [|Hle]; [assumption|exfalso].
    assert (Hk2 : (tn * fb - fa * td) * N = fb * td) by lia.
    assert (0 < fb * td) by nia.
    assert (1 <= tn * fb - fa * td) by nia.
    assert (fb * td <= L * L) by nia. nia.
  - assert (A : Z.abs (fa * N + fb) <= fb * N).
    { destruct Hsm as [Hs|(-> & ->)]; [|lia]. destruct (Z.lt_ge_cases fa 0); nia. }
    assert (E2 : Z.abs tn * (fb * N) = Z.abs (fa * N + fb) * td).
    { rewrite <- (Z.abs_eq (fb * N)) at 1 by lia. rewrite <- Z.abs_mul, E1, Z.abs_mul, (Z.abs_eq td) by lia. reflexivity. }
    nia.
  - assert (0 <= fb * td) by nia. assert (fa * td * N <= tn * fb * N) by lia. nia.
  - intros n m Hm Hlt. assert (1 <= n * fb - fa * m) by lia.
    assert (fb * m <= L * L) by nia.
    assert (Hj : fb * m < (n * fb - fa * m) * N) by nia.
    assert (tn * m * (fb * N) < n * td * (fb * N)).
    { replace (tn * m * (fb * N)) with (m * (tn * (fb * N))) by ring. rewrite E1. nia. }
    nia.
Qed.

Lemma down_target : forall L fa fb, 1 <= L -> 0 < fb <= L -> small_frac fa fb ->
  let tg := freduce (fsub (fa, fb) (1, nudge L)) in
  L < snd tg /\ Z.gcd (fst tg) (snd tg) = 1 /\ Z.abs (fst tg) <= snd tg /\
  fst tg * fb <= fa * snd tg /\
  (forall n m, 0 < m <= L -> n * fb < fa * m -> n * snd tg < fst tg * m).
Proof.
  intros L fa fb HL Hfb Hsm tg. unfold nudge in tg.
  destruct (freduce_mul (fsub (fa, fb) (1, L * L + 1))) as (g & Hg & Hn & Hd & Hcop & Hpos).
  { unfold fsub. cbn [fst snd]. apply Z.mul_pos_pos; [lia|nia]. }
  fold tg in Hn, Hd, Hcop, Hpos. unfold fsub in Hn, Hd. cbn [fst snd] in Hn, Hd.
  set (tn := fst tg) in *. set (td := snd tg) in *. set (N := L * L + 1) in *.
  assert (HN : L * L < N) by (unfold N; lia).
  assert (HfbN : 0 < fb * N) by nia.
  assert (E1 : tn * (fb * N) = (fa * N - fb) * td).
  { rewrite Hd. replace (fa * N - fb) with (g * tn) by lia. ring. }
  clear Hn Hd.
  split; [|split; [exact Hcop|split; [|split]]].
  - destruct (Z.lt_ge_cases L td) as [|Hle]; [assumption|exfalso].
    assert (Hk2 : (fa * td - tn * fb) * N = fb * td) by lia.
    assert (0 < fb * td) by nia.
    assert (1 <= fa * td - tn * fb) by nia.
    assert (fb * td <= L * L) by nia. nia.
  - assert (A : Z.abs (fa * N - fb) <= fb * N).
    { destruct Hsm as [Hs|(-> & ->)]; [|lia]. destruct (Z.lt_ge_cases fa 0); nia. }
    assert (E2 : Z.abs tn * (fb * N) = Z.abs (fa * N - fb) * td).
    { rewrite <- (Z.abs_eq (fb * N)) at 1 by lia. rewrite <- Z.abs_mul, E1, Z.abs_mul, (Z.abs_eq td) by lia. reflexivity. }
    nia.
  - assert (0 <= fb * td) by nia. assert (tn * fb * N <= fa * td * N) by lia. nia.
  - intros n m Hm Hlt. assert (1 <= fa * m - n * fb) by lia.
    assert (fb * m <= L * L) by nia.
    assert (Hj : fb * m < (fa * m - n * fb) * N) by nia.
    assert (n * td * (fb * N) < tn * m * (fb * N)).
    { replace (tn * m * (fb * N)) with (m * (tn * (fb * N))) by ring. rewrite E1. nia. }
    nia.
Qed.

(** ** split_at_point of a canonical fraction *)
Lemma split_props : forall xn xd, 0 < xd -> Z.gcd xn xd = 1 ->
  let t := fst (split_at_point (xn, xd)) in
  let fr := snd (split_at_point (xn, xd)) in
  0 < snd fr /\ Z.gcd (fst fr) (snd fr) = 1 /\ small_frac (fst fr) (snd fr) /\
  xn * snd fr = (t * snd fr + fst fr) * xd /\
  ((fr = (Z.rem xn xd, xd) /\ Z.rem xn xd <> 0) \/ (fr = (0, 1) /\ xd = 1)).
Proof.
  intros xn xd Hxd Hg. unfold split_at_point. cbn [fst snd].
  pose proof (Z.quot_rem' xn xd) as Hqr. pose proof (Z.rem_bound_abs xn xd ltac:(lia)) as Hb.
  destruct (Z.eqb_spec (Z.rem xn xd) 0) as [E|NE]; cbn [fst snd].
  - assert (xd = 1).
    { assert (Hdiv : (xd | xn)) by (exists (Z.quot xn xd); lia).
      assert (Hxg : Z.gcd xn xd = xd) by (apply Z.divide_gcd_iff in Hdiv; [rewrite Z.gcd_comm; exact Hdiv|lia]). lia. }
    subst xd. repeat split; try reflexivity; try lia. right. split; lia. right. split; reflexivity.
  - repeat split; try lia.
    + replace (Z.rem xn xd) with (xn - Z.quot xn xd * xd) by lia.
      rewrite Z.gcd_comm. replace (xn - Z.quot xn xd * xd) with (xn + (- Z.quot xn xd) * xd) by ring.
      rewrite Z.gcd_add_mult_diag_r. rewrite Z.gcd_comm. exact Hg.
    + left. lia.
    + left. split; [reflexivity|exact NE].
Qed.

Theorem next_up_asis_correct : forall x L, 1 <= L -> 0 < snd x -> Z.gcd (fst x) (snd x) = 1 ->
  exists r, next_up_asis x L = Ok r /\ is_succ x L r.
Proof.
  intros [xn xd] L HL Hxd Hg. cbn [fst snd] in *. unfold next_up_asis, next_gen. cbn [fst snd].
  destruct (Z.eqb_spec L 0); [lia|].
  pose proof (split_props xn xd Hxd Hg) as Hs. cbv zeta in Hs.
  destruct (split_at_point (xn, xd)) as [t [fa fb]]. cbn [fst snd] in Hs.
  destruct Hs as (Hfb & Hfg & Hsm & Hx & Hshape).
  destruct (Z.leb_spec xd L) as [Hfit|Hcut].
  - assert (HfbL : 0 < fb <= L) by (destruct Hshape as [(E & _)|(E & _)]; inversion E; lia).
    pose proof (up_target L fa fb HL HfbL Hsm) as Ht. cbv zeta in Ht.
    set (tg := freduce (fadd (fa, fb) (1, nudge L))) in *.
    destruct Ht as (Htd & Htg & Habs & Hfr & Hgap).
    destruct (farey_neighbors_asis_ok tg L HL Htd Htg Habs) as (l & r & Hrun & Hpair).
    rewrite Hrun. exists (int_add t r). split; [reflexivity|].
    apply (shift_succ L xn xd t fa fb tg l r); try assumption; lia.
  - destruct Hshape as [(E & Hrem)|(_ & E1)]; [|lia]. inversion E; subst fa fb.
    destruct (farey_neighbors_asis_ok (Z.rem xn xd, xd) L HL) as (l & r & Hrun & Hpair); cbn [fst snd]; try assumption.
    { destruct Hsm as [|(? & ?)]; lia. }
    rewrite Hrun. exists (int_add t r). split; [reflexivity|].
    apply (shift_succ L xn xd t (Z.rem xn xd) xd (Z.rem xn xd, xd) l r); cbn [fst snd]; try assumption; try lia.
Qed.

Theorem next_down_asis_correct : forall x L, 1 <= L -> 0 < snd x -> Z.gcd (fst x) (snd x) = 1 ->
  exists r, next_down_asis x L = Ok r /\ is_pred x L r.
Proof.
  intros [xn xd] L HL Hxd Hg. cbn [fst snd] in *. unfold next_down_asis, next_gen. cbn [fst snd].
  destruct (Z.eqb_spec L 0); [lia|].
  pose proof (split_props xn xd Hxd Hg) as Hs. cbv zeta in Hs.
  destruct (split_at_point (xn, xd)) as [t [fa fb]]. cbn [fst snd] in Hs.
  destruct Hs as (Hfb & Hfg & Hsm & Hx & Hshape).
  destruct (Z.leb_spec xd L) as [Hfit|Hcut].
  - assert (HfbL : 0 < fb <= L) by (destruct Hshape as [(E & _)|(E & _)]; inversion E; lia).
    pose proof (down_target L fa fb HL HfbL Hsm) as Ht. cbv zeta in Ht.
    set (tg := freduce (fsub (fa, fb) (1, nudge L))) in *.
    destruct Ht as (Htd & Htg & Habs & Hfr & Hgap).
    destruct (farey_neighbors_asis_ok tg L HL Htd Htg Habs) as (l & r & Hrun & Hpair).
    rewrite Hrun. exists (int_add t l). split; [reflexivity|].
    apply (shift_pred L xn xd t fa fb tg l r); try assumption; lia.
  - destruct Hshape as [(E & Hrem)|(_ & E1)]; [|lia]. inversion E; subst fa fb.
    destruct (farey_neighbors_asis_ok (Z.rem xn xd, xd) L HL) as (l & r & Hrun & Hpair); cbn [fst snd]; try assumption.
    { destruct Hsm as [|(? & ?)]; lia. }
    rewrite Hrun. exists (int_add t l). split; [reflexivity|].
    apply (shift_pred L xn xd t (Z.rem xn xd) xd (Z.rem xn xd, xd) l r); cbn [fst snd]; try assumption; try lia.
Qed.

Lemma next_limit_zero : forall x, next_up_asis x 0 = Panic DivideBy0 /\ next_down_asis x 0 = Panic DivideBy0.
Proof. intros x. split; reflexivity. Qed.

(** finding F03 (repaired): with the pinned step 1/limit^2 the target of an integer at limit 1
    has denominator 1 and trips farey_neighbors' first debug assertion *)
Lemma next_up_pinned_refuted : next_up_pinned (3, 1) 1 = Panic Undocumented /\ next_up_asis (3, 1) 1 = Ok (4, 1).
Proof. split; vm_compute; reflexivity. Qed.
