(** C18 - simplest_from_f32 / simplest_from_f64 after the repair of finding F04: the as-is model of
    the repaired impl_simplest_from_float! equals the specification [simplest_from_ieee_spec] for
    EVERY format (mb >= 1 mantissa bits, any exponent width) and EVERY bit pattern - no finding
    class is left.  The code's two end points are literally the end points of [ieee_interval_spec]
    (in the other order for positive floats). *)
From Dashu Require Import Base.Prelude Ratio.BinIter Float.RoundSpec Ratio.SimplestSpec Ratio.SimplestModel
  Ratio.SimplerOrder Ratio.SimplestProof Ratio.SimplestAsis Ratio.FareyProof Ratio.SimplestClosed Ratio.SimplestFindings
  Ratio.SimplestFloatEq Ratio.SimplestIeeeEq Ratio.RoundPreimage Ratio.FloatPreimage.
Open Scope Z_scope.

(** the closure `scale` of the macro is [scaled 2 n (ex - 2) 1] *)
Lemma ieee_scale_scaled : forall n ex,
  (if 2 <=? ex then (n * 2 ^ (ex - 2), 1) else freduce (n, 2 ^ (2 - ex))) = scaled 2 n (ex - 2) 1.
Proof.
  intros n ex. unfold scaled. destruct (Z.leb_spec 2 ex); destruct (Z.leb_spec 0 (ex - 2)); try lia.
  - symmetry. apply freduce_coprime. apply Z.gcd_1_r.
  - replace (- (ex - 2)) with (2 - ex) by ring. rewrite Z.mul_1_l. reflexivity.
Qed.

(** the code after the two end points is the selection step *)
Theorem simplest_from_ieee_asis_closed : forall mb eb bits,
  let E := (bits / 2 ^ mb) mod 2 ^ eb in
  let M := bits mod 2 ^ mb in
  let neg := (bits / 2 ^ (mb + eb)) mod 2 =? 1 in
  let man0 := if E =? 0 then M else M + 2 ^ mb in
  let man := if neg then - man0 else man0 in
  let ex := (if E =? 0 then 1 else E) - (2 ^ (eb - 1) - 1) - mb in
  let tz := if (Z.abs man =? 2 ^ mb) && (1 - (2 ^ (eb - 1) - 1) - mb <? ex) then 1 else 2 in
  let outer := if 0 <? man then 4 * man + 2 else 4 * man - 2 in
  let inner := if 0 <? man then 4 * man - tz else 4 * man + tz in
  simplest_from_ieee_asis mb eb bits =
  if E =? 2 ^ eb - 1 then Ok None
  else if (E =? 0) && (M =? 0) then Ok (Some (0, 1))
  else opt_wrap (simplest_closed (scaled 2 outer (ex - 2) 1, scaled 2 inner (ex - 2) 1, Z.even bits, Z.even bits)).
Proof.
  intros mb eb bits E M neg man0 man ex tz outer inner. unfold simplest_from_ieee_asis.
  fold E M neg man0 man ex. cbv zeta. fold tz. fold outer inner.
  destruct (E =? 2 ^ eb - 1); [reflexivity|]. destruct ((E =? 0) && (M =? 0)); [reflexivity|].
  rewrite !ieee_scale_scaled.
  rewrite <- (glue_closed _ _ (Z.even bits) (Z.even bits)) by (apply scaled_pos; lia).
  destruct (simplest_in_asis _ _) as [s| | |]; try reflexivity.
  destruct (Z.even bits); reflexivity.
Qed.

Lemma scaled2_lt : forall t Y1 Y2, Y1 < Y2 -> fval_lt (scaled 2 Y1 t 1) (scaled 2 Y2 t 1).
Proof.
  intros t Y1 Y2 H.
  apply (uval_lt 2 t ltac:(lia) _ _ Y1 1 Y2 1); try lia; try (apply scaled_pos; lia); apply uval_scaled; lia.
Qed.

Theorem simplest_from_ieee_asis_spec_all : forall mb eb bits, 1 <= mb ->
  simplest_from_ieee_asis mb eb bits = simplest_from_ieee_spec mb eb bits.
Proof.
  intros mb eb bits Hmb.
  pose proof (simplest_from_ieee_asis_closed mb eb bits) as HA. cbv zeta in HA. rewrite HA. clear HA.
  unfold simplest_from_ieee_spec, ieee_interval_spec. cbv zeta.
  set (E := (bits / 2 ^ mb) mod 2 ^ eb) in *.
  set (M := bits mod 2 ^ mb) in *.
  set (ex := (if E =? 0 then 1 else E) - (2 ^ (eb - 1) - 1) - mb) in *.
  set (man0 := if E =? 0 then M else M + 2 ^ mb) in *.
  set (emin := 1 - (2 ^ (eb - 1) - 1) - mb) in *.
  destruct (E =? 2 ^ eb - 1); [reflexivity|].
  destruct ((E =? 0) && (M =? 0)) eqn:Hz; [reflexivity|].
  assert (HP : 0 < 2 ^ mb) by (apply Z.pow_pos_nonneg; lia).
  assert (HM : 0 <= M < 2 ^ mb) by (apply Z.mod_pos_bound; exact HP).
  assert (Hman : 0 < man0).
  { unfold man0. destruct (Z.eqb_spec E 0) as [E0|E0]; [|lia]. cbn [andb] in Hz. apply Z.eqb_neq in Hz. lia. }
  assert (Hev : Z.even bits = Z.even man0).
  { unfold man0, M. destruct (E =? 0); [|rewrite even_hidden_bit by exact Hmb]; symmetry; apply even_low_bits; exact Hmb. }
  rewrite Hev.
  (* the narrow-side test of the code is the one of the specification *)
  assert (Htz : forall m, Z.abs m = man0 -> (Z.abs m =? 2 ^ mb) && (emin <? ex) = (M =? 0) && (2 <=? E)).
  { intros m ->. unfold man0, ex, emin. destruct (Z.eqb_spec E 0) as [E0|E0].
    - rewrite E0. cbn [Z.leb]. rewrite Bool.andb_false_r. destruct (Z.eqb_spec M (2 ^ mb)); [lia|reflexivity].
    - destruct (Z.eqb_spec (M + 2 ^ mb) (2 ^ mb)); destruct (Z.eqb_spec M 0); try lia; cbn [andb]; try reflexivity;
      destruct (Z.ltb_spec (1 - (2 ^ (eb - 1) - 1) - mb) (E - (2 ^ (eb - 1) - 1) - mb)); destruct (Z.leb_spec 2 E); try reflexivity; lia. }
  set (bl := if (M =? 0) && (2 <=? E) then 1 else 2).
  assert (Hbl : 1 <= bl <= 2) by (unfold bl; destruct ((M =? 0) && (2 <=? E)); lia).
  set (lo_m := scaled 2 (4 * man0 - bl) (ex - 2) 1). set (hi_m := scaled 2 (4 * man0 + 2) (ex - 2) 1).
  assert (Hlt : fval_lt lo_m hi_m) by (apply scaled2_lt; lia).
  destruct ((bits / 2 ^ (mb + eb)) mod 2 =? 1).
  - (* negative: the code's (outer, inner) = (- hi, - lo) is the specified pair *)
    rewrite (Htz (- man0)) by lia. fold bl.
    destruct (Z.ltb_spec 0 (- man0)); [lia|].
    replace (4 * - man0 - 2) with (- (4 * man0 + 2)) by ring.
    replace (4 * - man0 + bl) with (- (4 * man0 - bl)) by ring.
    rewrite <- !fneg_scaled by lia. fold lo_m hi_m.
    destruct (simplest_closed _); reflexivity.
  - rewrite (Htz man0) by lia. fold bl.
    destruct (Z.ltb_spec 0 man0); [|lia]. fold lo_m hi_m.
    rewrite (simplest_closed_swap lo_m hi_m) by exact Hlt.
    destruct (simplest_closed _); reflexivity.
Qed.

(** non-vacuity: 2^25 as f32 (the witness of F04), -2^54 as f64, 0.1f32, the smallest subnormal f64, MAX f32 *)
Example simplest_from_ieee_fixed_examples :
  simplest_from_ieee_asis 23 8 1275068416 = Ok (Some (33554431, 1)) /\
  simplest_from_ieee_asis 52 11 14073748835532800000 = Ok (Some (-18014398509481983, 1)) /\
  simplest_from_ieee_asis 23 8 1036831949 = Ok (Some (1, 10)) /\
  simplest_from_ieee_asis 52 11 1 = simplest_from_ieee_spec 52 11 1 /\
  simplest_from_ieee_asis 23 8 2139095039 = simplest_from_ieee_spec 23 8 2139095039.
Proof. repeat split; vm_compute; reflexivity. Qed.
