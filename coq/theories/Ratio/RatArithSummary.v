(** C04: conjunctions of results of the other RatArith* files, in the form pinned by props/C04.v *)
From Coq Require Import QArith Qabs.
From Dashu Require Import Base.Prelude Ratio.RatArithModel Ratio.RatArithCanon Ratio.RatArithProofs
  Ratio.RatArithConst Ratio.RatArithRelaxed Ratio.RatArithQ Ratio.RatArithHistory.
Open Scope Z_scope.

Lemma constructors_invariant_ok : forall n d r,
  (0 <= d -> from_parts_spec n d = Ok r -> Inv r /\ (toQ r == n # Z.to_pos d)%Q) /\
  (from_parts_signed_spec n d = Ok r -> Inv r) /\
  (forall s, 0 <= d -> from_parts_const_spec s n d = Ok r -> Inv r) /\
  (parse_spec n d = Ok r -> Inv r).
Proof.
  intros n d r. split; [|split; [|split]].
  - intros Hd H. split; [eapply from_parts_spec_Inv; eassumption | apply from_parts_spec_Q; assumption].
  - apply from_parts_signed_spec_Inv.
  - intros s. apply from_parts_const_spec_Inv.
  - apply parse_spec_Inv.
Qed.

Lemma centred_remainder_ok : forall left right, 0 < right ->
  centred_rem left right = left - right * rha left right /\ 2 * Z.abs (left - right * rha left right) <= right.
Proof. intros l r H. split; [apply centred_rem_rha | apply rha_bound]; exact H. Qed.

Lemma div_rem_euclid_ok : forall x y, Inv x -> Inv y ->
  dive_asis x y = dive_spec x y /\ divreme_asis x y = divreme_spec x y.
Proof. intros x y Hx Hy. split; [apply dive_asis_spec | apply divreme_asis_spec; assumption]. Qed.

Lemma pow_ok : forall x e, Inv x -> 0 <= e ->
  pow_asis x e = pow_spec x e /\ Inv (pow_spec x e) /\
  pow_spec x 0 = (1, 1) /\ Ok (pow_spec x (Z.succ e)) = bin_spec OMul (pow_spec x e) x.
Proof.
  intros x e Hx He. pose proof (Inv_RInv x Hx) as Hr. split; [|split; [|split]].
  - apply pow_asis_spec; assumption.
  - apply pow_spec_Inv; assumption.
  - apply pow_spec_0; assumption.
  - apply pow_spec_succ; assumption.
Qed.

Lemma mul_sign_ok : forall s x, Inv x -> mulsign_asis s x = mulsign_spec s x /\ Inv (mulsign_spec s x).
Proof. intros s x Hx. split; [apply mulsign_asis_spec; exact Hx | apply mulsign_spec_Inv, Inv_RInv; exact Hx]. Qed.

Lemma split_round_ok : forall x, Inv x ->
  split_asis x = split_spec x /\ Inv (snd (split_spec x)) /\ trunc_asis x = trunc_spec x /\
  floor_asis x = floor_spec x /\ ceil_asis x = ceil_spec x /\ round_asis x = round_spec x.
Proof.
  intros x Hx. pose proof (Inv_RInv x Hx) as Hr. split; [|split; [|split; [|split; [|split]]]].
  - apply split_asis_spec; exact Hx.
  - apply split_spec_Inv; exact Hr.
  - apply trunc_asis_spec; exact Hr.
  - apply floor_asis_spec; exact Hr.
  - apply ceil_asis_spec; exact Hr.
  - apply round_asis_spec; exact Hr.
Qed.

Lemma relaxed_constructors_ok : forall n d,
  (0 <= d -> res_veq (xfrom_parts_asis n d) (from_parts_spec n d)) /\
  res_veq (xfrom_parts_signed_asis n d) (from_parts_signed_spec n d) /\
  (forall s, 0 <= n -> 0 <= d -> res_veq (xfrom_parts_const_asis s n d) (from_parts_const_spec s n d)).
Proof.
  intros n d. split; [|split].
  - apply xfrom_parts_asis_spec.
  - apply xfrom_parts_signed_asis_spec.
  - intros s. apply xfrom_parts_const_asis_spec.
Qed.
