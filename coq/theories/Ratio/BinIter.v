(** Iteration of a step functional with fuel given in binary: [iter_pos p] allows [Pos.to_nat p]
    unfoldings of [F] but is structurally recursive on the bits of [p], so a fuel bound that is
    linear in the input (a denominator) costs nothing when the model is executed.  (C18) *)
From Coq Require Import ZArith Lia PArith.

Section BinIter.
  Context {A B : Type}.
  Variable F : (A -> B) -> A -> B.

  Fixpoint iter_nat (n : nat) (k : A -> B) (a : A) {struct n} : B :=
    match n with O => k a | S n' => F (fun a' => iter_nat n' k a') a end.

  Fixpoint iter_pos (p : positive) (k : A -> B) (a : A) {struct p} : B :=
    match p with
    | xH => F k a
    | xO p' => iter_pos p' (fun a' => iter_pos p' k a') a
    | xI p' => F (fun a1 => iter_pos p' (fun a' => iter_pos p' k a') a1) a
    end.

  Hypothesis F_ext : forall k k', (forall a, k a = k' a) -> forall a, F k a = F k' a.

  Lemma iter_nat_ext : forall n k k', (forall a, k a = k' a) -> forall a, iter_nat n k a = iter_nat n k' a.
  Proof.
    induction n as [|n IH]; intros k k' H a; cbn [iter_nat]; [apply H|].
    apply F_ext. intros a'. apply IH, H.
  Qed.

  Lemma iter_nat_add : forall n m k a, iter_nat (n + m) k a = iter_nat n (fun a' => iter_nat m k a') a.
  Proof.
    induction n as [|n IH]; intros m k a; cbn [iter_nat Nat.add]; [reflexivity|].
    apply F_ext. intros a'. apply IH.
  Qed.

  Lemma iter_pos_nat : forall p k a, iter_pos p k a = iter_nat (Pos.to_nat p) k a.
  Proof.
    induction p as [p IH|p IH|]; intros k a; cbn [iter_pos].
    - rewrite Pos2Nat.inj_xI. cbn [iter_nat]. apply F_ext. intros a1.
      replace (2 * Pos.to_nat p)%nat with (Pos.to_nat p + Pos.to_nat p)%nat by lia.
      rewrite iter_nat_add, IH. apply iter_nat_ext. intros a'. apply IH.
    - rewrite Pos2Nat.inj_xO.
      replace (2 * Pos.to_nat p)%nat with (Pos.to_nat p + Pos.to_nat p)%nat by lia.
      rewrite iter_nat_add, IH. apply iter_nat_ext. intros a'. apply IH.
    - reflexivity.
  Qed.
End BinIter.
