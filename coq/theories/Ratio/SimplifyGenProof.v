(** C18 - the small pure bodies of rational/src/simplify.rs, REGENERATED from the Rust source on every run
    (gen/SimplifyGen.v, tools/translate_c18_r3.py), against the hand-written as-is models of
    Ratio/SimplestModel.v: RBig::is_simpler_than (with the order of Sign read from base/src/sign.rs),
    one iteration of the mediant walk of RBig::farey_neighbors with its start pair and its three
    debug assertions, one iteration of the continued-fraction loop of Repr::simplest_in with the
    start values of its accumulators, the step 1/(limit^2+1) of next_up/next_down and the selection
    of nearest().  Every statement is for ALL inputs; a change of one of these bodies changes the
    generated definition and breaks the corresponding lemma below (hence an obligation of C18). *)
From Dashu Require Import Base.Prelude Ratio.BinIter Float.RoundSpec Ratio.SimplestSpec Ratio.SimplestModel
  Ratio.SimplerOrder Ratio.SimplestProof Ratio.FareyProof.
From DashuGen Require Import SimplifyGen.
Open Scope Z_scope.

(** two step functionals that agree pointwise give the same iteration *)
Lemma iter_pos_ext2 : forall (A R : Type) (F G : (A -> R) -> A -> R),
  (forall k k', (forall a, k a = k' a) -> forall a, F k a = F k' a) ->
  (forall k a, F k a = G k a) ->
  forall p k k', (forall a, k a = k' a) -> forall a, iter_pos F p k a = iter_pos G p k' a.
Proof.
  intros A R F G Fext FG. induction p as [p IH|p IH|]; intros k k' Hk a; cbn [iter_pos].
  - rewrite <- FG. apply Fext. intros a1. apply IH. intros a2. apply IH. exact Hk.
  - apply IH. intros a1. apply IH. exact Hk.
  - rewrite <- FG. apply Fext. exact Hk.
Qed.

(** ** is_simpler_than *)
Theorem is_simpler_than_gen_asis : forall x y, is_simpler_than_gen x y = is_simpler_than_asis x y.
Proof.
  intros x y. unfold is_simpler_than_gen, is_simpler_than_asis.
  destruct (snd x ?= snd y); cbn [sg_then sg_is_lt]; try reflexivity;
    destruct (Z.abs (fst x) ?= Z.abs (fst y)); cbn [sg_then sg_is_lt]; try reflexivity;
    destruct (sign_of (fst x)), (sign_of (fst y)); reflexivity.
Qed.

Theorem is_simpler_than_gen_spec : forall x y, is_simpler_than_gen x y = simpler x y.
Proof. intros x y. rewrite is_simpler_than_gen_asis. apply is_simpler_than_asis_spec. Qed.

(** ** farey_neighbors *)
Lemma sg_fgt_flt : forall x y, sg_fgt y x = flt x y.
Proof.
  intros x y. unfold sg_fgt, sg_fcmp, flt. rewrite Z.ltb_compare, (Z.compare_antisym (fst y * snd x)).
  destruct (fst y * snd x ?= fst x * snd y); reflexivity.
Qed.

Definition farey_step_result (k : fst4 -> result (frac * frac)) (s : farey_step) : result (frac * frac) :=
  match s with
  | FDone l r => Ok (l, r)
  | FCont l r => k (fst l, snd l, fst r, snd r)
  end.

(** one iteration of the loop *)
Theorem farey_F_gen : forall x L k ln ld rn rd,
  farey_F x L k (ln, ld, rn, rd) = farey_step_result k (farey_step_gen x L (ln, ld) (rn, rd)).
Proof.
  intros x L k ln ld rn rd. unfold farey_F, farey_step_gen, farey_step_result. cbn [fst snd].
  rewrite !Z.gtb_ltb, !sg_fgt_flt.
  destruct (L <? ld + rd); [|destruct (flt x (ln + rn, ld + rd)); reflexivity].
  destruct (L <? snd (freduce (ln + rn, ld + rd))); [reflexivity|].
  destruct (flt x (freduce (ln + rn, ld + rd))); reflexivity.
Qed.

(** the whole function: guards, start pair, walk *)
Definition farey_neighbors_gen (x : frac) (L : Z) : result (frac * frac) :=
  if forallb (fun b => b) (farey_guards_gen x L) then
    iter_pos (fun k s => let '(ln, ld, rn, rd) := s in farey_step_result k (farey_step_gen x L (ln, ld) (rn, rd)))
      (Z.to_pos (L + 1)) (fun _ => OutOfFuel)
      (let '(l, r) := farey_init_gen x in (fst l, snd l, fst r, snd r))
  else Panic Undocumented.

Theorem farey_neighbors_gen_asis : forall x L, 0 < snd x ->
  farey_neighbors_gen x L = farey_neighbors_asis x L.
Proof.
  intros x L Hd. unfold farey_neighbors_gen, farey_neighbors_asis, farey_guards_gen. cbn [forallb].
  assert (Hinit : (let '(l, r) := farey_init_gen x in (fst l, snd l, fst r, snd r))
                  = match sign_of (fst x) with Positive => (0, 1, 1, 1) | Negative => (-1, 1, 0, 1) end)
    by (unfold farey_init_gen; destruct (sign_of (fst x)); reflexivity).
  rewrite Hinit. clear Hinit.
  rewrite Z.gtb_ltb. destruct (L <? snd x); cbn [negb andb]; [|reflexivity].
  destruct (fst x =? 0); cbn [negb andb]; [reflexivity|].
  rewrite (Z.abs_eq (snd x)) by lia. rewrite Bool.andb_true_r.
  rewrite Z.ltb_compare, (Z.compare_antisym (Z.abs (fst x))).
  destruct (Z.abs (fst x) ?= snd x); cbn [sg_is_le CompOpp]; try reflexivity;
    symmetry; (apply iter_pos_ext2; [apply farey_F_ext| |reflexivity]);
    intros k [[[ln ld] rn] rd]; apply farey_F_gen.
Qed.

(** ** the continued-fraction loop of Repr::simplest_in *)
Definition cf_step_result (k : cfst -> result frac) (s : cf_step) : result frac :=
  match s with
  | CDone n d => Ok (n, d)
  | CCont a b c d e f g h => k (a, b, c, d, e, f, g, h)
  end.

(** one iteration: the model adds the panic of IBig::div_rem by zero *)
Theorem cf_F_gen : forall k n0 d0 n1 d1 nl dl nr dr,
  cf_F k (n0, d0, n1, d1, nl, dl, nr, dr) =
  if dl =? 0 then Panic DivideBy0 else cf_step_result k (cf_step_gen n0 d0 n1 d1 nl dl nr dr).
Proof.
  intros. unfold cf_F, cf_step_gen, cf_step_result.
  destruct (dl =? 0); [reflexivity|]. cbv zeta.
  destruct (dr <? nr - Z.quot nl dl * dr); reflexivity.
Qed.

Definition cf_loop_gen (lower upper : frac) : result frac :=
  iter_pos (fun k s => let '(n0, d0, n1, d1, nl, dl, nr, dr) := s in
                       if dl =? 0 then Panic DivideBy0 else cf_step_result k (cf_step_gen n0 d0 n1 d1 nl dl nr dr))
    (Z.to_pos (snd lower + snd upper + 1)) (fun _ => OutOfFuel)
    (let '(a, b, c, d) := cf_init_gen in (a, b, c, d, fst lower, snd lower, fst upper, snd upper)).

Theorem cf_loop_gen_asis : forall l u, cf_loop_gen l u = cf_loop l u.
Proof.
  intros l u. unfold cf_loop_gen, cf_loop, cf_init_gen. symmetry.
  apply iter_pos_ext2; [apply cf_F_ext| |reflexivity].
  intros k [[[[[[[n0 d0] n1] d1] nl] dl] nr] dr]. apply cf_F_gen.
Qed.

(** hence the regenerated loop computes the Stern-Brocot optimum of every positive interval *)
Theorem cf_loop_gen_spec : forall l u, pos_itv l u -> cf_loop_gen l u = simplest_pos l u.
Proof. intros l u H. rewrite cf_loop_gen_asis. apply cf_loop_spec. exact H. Qed.

(** ** next_up / next_down: the step that leaves a fraction which already fits *)
Theorem nudge_gen : forall L, nudge_den_gen L = nudge L.
Proof. intros L. reflexivity. Qed.

(** ** nearest: the comparison with the midpoint and what each arm returns *)
Theorem nearest_selection_gen : forall (r lf rt : frac),
  let mid0 := freduce (fadd lf rt) in
  (if nearest_first_gen r (fst mid0, 2 ^ nearest_mid_shift_gen * snd mid0)
   then (nearest_first_is_right_gen, nearest_first_sign_gen)
   else (negb nearest_first_is_right_gen, match nearest_first_sign_gen with Positive => Negative | Negative => Positive end))
  = (if flt (fst mid0, 2 * snd mid0) r then (true, Positive) else (false, Negative)).
Proof.
  intros r lf rt mid0. unfold nearest_first_gen, nearest_mid_shift_gen, nearest_first_is_right_gen, nearest_first_sign_gen.
  rewrite sg_fgt_flt. change (2 ^ 1) with 2. destruct (flt (fst mid0, 2 * snd mid0) r); reflexivity.
Qed.

(** ** the order of Sign (base/src/sign.rs): Positive is the larger one *)
Theorem sign_cmp_gen_spec : forall a b,
  sign_cmp_gen a b = match a, b with Positive, Negative => Gt | Negative, Positive => Lt | _, _ => Eq end.
Proof. intros [|] [|]; reflexivity. Qed.

(** non-vacuity / sanity: the regenerated pieces evaluated *)
Example simplify_gen_examples :
  is_simpler_than_gen (1, 2) (5, 3) = true /\ is_simpler_than_gen (1, 2) (-1, 2) = true /\
  is_simpler_than_gen (-1, 2) (1, 2) = false /\
  farey_neighbors_gen (3, 7) 5 = Ok ((2, 5), (1, 2)) /\ 0 < snd (3, 7) /\
  cf_loop_gen (1234, 5678) (1235, 5679) = Ok (5, 23) /\ pos_itv (1234, 5678) (1235, 5679) /\
  nudge_den_gen 3 = 10.
Proof. repeat split; try (vm_compute; reflexivity); vm_compute; try discriminate; try reflexivity. Qed.
