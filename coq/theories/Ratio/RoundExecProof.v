(** C18 - the EXECUTABLE rounding [round_to_prec] (Ratio/SimplestSpec.v: digit position from the digit
    counts of numerator and denominator, one comparison, then [spec_round]) that the oracle uses to
    re-check every simplest_from_float case, is the declarative relation [rounds_to] of
    Ratio/FloatPreimage.v: for every base B >= 2, mode, precision p >= 1 and fraction x = N/d with
    d > 0, N <> 0:      round_to_prec B md p x = y   <->   rounds_to B md p x y.
    The p-digit window B^(p-1) <= |x| / B^k < B^p holds for exactly one k, and the code computes it. *)
From Dashu Require Import Base.Prelude Ratio.BinIter Float.RoundSpec Ratio.SimplestSpec Ratio.SimplestModel
  Ratio.SimplestFloatEq Ratio.FloatPreimage Ratio.IeeePreimage.
Open Scope Z_scope.

Section Window.
  Variables B N d : Z.
  Hypothesis HB : 2 <= B.
  Hypothesis Hd : 0 < d.
  Hypothesis HN : N <> 0.

  (** B^k <= |N| / d, as the code tests it *)
  Definition ple (k : Z) : Prop := if 0 <=? k then d * B ^ k <= Z.abs N else d <= Z.abs N * B ^ (- k).
  Definition pleb (k : Z) : bool := if 0 <=? k then d * B ^ k <=? Z.abs N else d <=? Z.abs N * B ^ (- k).

  Lemma pleb_spec : forall k, pleb k = true <-> ple k.
  Proof. intros k. unfold pleb, ple. destruct (0 <=? k); apply Z.leb_le. Qed.

  Lemma Bpow_pos : forall n, 0 <= n -> 0 < B ^ n.
  Proof. intros n Hn. apply Z.pow_pos_nonneg; lia. Qed.

  (** on a common scale *)
  Lemma ple_shift : forall k M, 0 <= M -> 0 <= k + M -> (ple k <-> d * B ^ (k + M) <= Z.abs N * B ^ M).
  Proof.
    intros k M HM HkM. unfold ple. pose proof (Bpow_pos M HM) as HP.
    destruct (Z.leb_spec 0 k) as [Hk|Hk].
    - rewrite Z.pow_add_r by lia. rewrite Z.mul_assoc. split; intros H.
      + apply Z.mul_le_mono_nonneg_r; lia.
      + apply Z.mul_le_mono_pos_r in H; lia.
    - assert (E : B ^ M = B ^ (- k) * B ^ (k + M)) by (rewrite <- Z.pow_add_r by lia; f_equal; ring).
      rewrite E. rewrite Z.mul_assoc. pose proof (Bpow_pos (k + M) HkM) as HQ. split; intros H.
      + apply Z.mul_le_mono_nonneg_r; lia.
      + apply Z.mul_le_mono_pos_r in H; lia.
  Qed.

  Lemma ple_mono : forall j k, j <= k -> ple k -> ple j.
  Proof.
    intros j k Hjk H. set (M := Z.abs j + Z.abs k).
    apply (ple_shift j M); [unfold M; lia|unfold M; lia|].
    apply (ple_shift k M) in H; [|unfold M; lia|unfold M; lia].
    eapply Z.le_trans; [|exact H]. apply Z.mul_le_mono_nonneg_l; [lia|].
    apply Z.pow_le_mono_r; unfold M; lia.
  Qed.

  (** the two halves of the p-digit window at position e, in the form of [rounds_to] *)
  Lemma window_lo : forall p e, 1 <= p ->
    (B ^ (p - 1) * snd (qscale B e (N, d)) <= Z.abs (fst (qscale B e (N, d))) <-> ple (e + p - 1)).
  Proof.
    intros p e Hp. unfold qscale. destruct (Z.leb_spec 0 e) as [He|He]; cbn [fst snd].
    - rewrite (ple_shift (e + p - 1) 0) by lia. rewrite !Z.add_0_r, Z.pow_0_r, Z.mul_1_r.
      replace (e + p - 1) with ((p - 1) + e) by ring. rewrite !Z.pow_add_r by lia.
      replace (B ^ (p - 1) * (d * B ^ e)) with (d * (B ^ (p - 1) * B ^ e)) by ring. lia.
    - rewrite (ple_shift (e + p - 1) (- e)) by lia. replace (e + p - 1 + - e) with (p - 1) by ring.
      pose proof (Bpow_pos (- e) ltac:(lia)) as HP.
      rewrite Z.abs_mul, (Z.abs_eq (B ^ (- e))) by lia. rewrite (Z.mul_comm (B ^ (p - 1)) d). lia.
  Qed.

  Lemma window_hi : forall p e, 0 <= p ->
    (Z.abs (fst (qscale B e (N, d))) < B ^ p * snd (qscale B e (N, d)) <-> ~ ple (e + p)).
  Proof.
    intros p e Hp. unfold qscale. destruct (Z.leb_spec 0 e) as [He|He]; cbn [fst snd].
    - rewrite (ple_shift (e + p) 0) by lia. rewrite !Z.add_0_r, Z.pow_0_r, Z.mul_1_r.
      replace (e + p) with (p + e) by ring. rewrite !Z.pow_add_r by lia.
      replace (B ^ p * (d * B ^ e)) with (d * (B ^ p * B ^ e)) by ring. lia.
    - rewrite (ple_shift (e + p) (- e)) by lia. replace (e + p + - e) with p by ring.
      pose proof (Bpow_pos (- e) ltac:(lia)) as HP.
      rewrite Z.abs_mul, (Z.abs_eq (B ^ (- e))) by lia. rewrite (Z.mul_comm (B ^ p) d). lia.
  Qed.

  Lemma window_ple : forall p e, 1 <= p ->
    (B ^ (p - 1) * snd (qscale B e (N, d)) <= Z.abs (fst (qscale B e (N, d))) < B ^ p * snd (qscale B e (N, d))
     <-> ple (e + p - 1) /\ ~ ple (e + p)).
  Proof. intros p e Hp. rewrite <- (window_lo p e Hp), <- (window_hi p e ltac:(lia)). reflexivity. Qed.

  Lemma window_unique : forall p e e', 1 <= p ->
    ple (e + p - 1) /\ ~ ple (e + p) -> ple (e' + p - 1) /\ ~ ple (e' + p) -> e = e'.
  Proof.
    intros p e e' Hp (H1 & H2) (H1' & H2').
    destruct (Z.lt_trichotomy e e') as [Hlt|[Heq|Hgt]]; [|exact Heq|]; exfalso.
    - apply H2. apply (ple_mono (e + p) (e' + p - 1)); [lia|exact H1'].
    - apply H2'. apply (ple_mono (e' + p) (e + p - 1)); [lia|exact H1].
  Qed.

  (** the digit counts bracket the position within one *)
  Lemma ple_k0 : let k0 := ndigits B (Z.abs N) - ndigits B d in ple (k0 - 1) /\ ~ ple (k0 + 1).
  Proof.
    intros k0. pose proof (ndigits_spec B (Z.abs N) HB ltac:(lia)) as (Ha1 & Ha2).
    pose proof (ndigits_spec B d HB Hd) as (Hb1 & Hb2).
    pose proof (ndigits_pos B (Z.abs N) ltac:(lia)) as Ha. pose proof (ndigits_pos B d Hd) as Hb.
    set (a := ndigits B (Z.abs N)) in *. set (b := ndigits B d) in *.
    set (M := Z.abs k0 + 1).
    split.
    - apply (ple_shift (k0 - 1) M); [unfold M; lia|unfold M; lia|].
      pose proof (Bpow_pos (k0 - 1 + M) ltac:(unfold M; lia)) as HQ. pose proof (Bpow_pos M ltac:(unfold M; lia)) as HM.
      apply Z.le_trans with (B ^ b * B ^ (k0 - 1 + M)); [apply Z.mul_le_mono_nonneg_r; lia|].
      rewrite <- Z.pow_add_r by (unfold M; lia).
      replace (b + (k0 - 1 + M)) with ((a - 1) + M) by (unfold k0; ring).
      rewrite Z.pow_add_r by (unfold M; lia). apply Z.mul_le_mono_nonneg_r; lia.
    - intros H. apply (ple_shift (k0 + 1) M) in H; [|unfold M; lia|unfold M; lia].
      pose proof (Bpow_pos (k0 + 1 + M) ltac:(unfold M; lia)) as HQ. pose proof (Bpow_pos M ltac:(unfold M; lia)) as HM.
      assert (H1 : Z.abs N * B ^ M < B ^ a * B ^ M) by (apply Z.mul_lt_mono_pos_r; lia).
      assert (H2 : B ^ a * B ^ M = B ^ (b - 1) * B ^ (k0 + 1 + M)).
      { rewrite <- !Z.pow_add_r by (unfold M; lia). f_equal. unfold k0. ring. }
      assert (H3 : B ^ (b - 1) * B ^ (k0 + 1 + M) <= d * B ^ (k0 + 1 + M)) by (apply Z.mul_le_mono_nonneg_r; lia).
      lia.
  Qed.

  (** the position the code computes *)
  Definition exec_pos : Z :=
    let k0 := ndigits B (Z.abs N) - ndigits B d in if pleb k0 then k0 else k0 - 1.

  Lemma exec_pos_ok : ple exec_pos /\ ~ ple (exec_pos + 1).
  Proof.
    unfold exec_pos. destruct ple_k0 as (H1 & H2). set (k0 := ndigits B (Z.abs N) - ndigits B d) in *.
    destruct (pleb k0) eqn:E.
    - split; [apply pleb_spec; exact E|exact H2].
    - split; [exact H1|]. replace (k0 - 1 + 1) with k0 by ring. intros H. apply pleb_spec in H. congruence.
  Qed.
End Window.

Lemma round_to_prec_unfold : forall B md p x,
  round_to_prec B md p x =
  let e := exec_pos B (fst x) (snd x) - p + 1 in
  scaled B (spec_round md (fst (qscale B e x)) (snd (qscale B e x))) e 1.
Proof.
  intros B md p [N d]. unfold round_to_prec, exec_pos, pleb, qscale. cbn [fst snd]. cbv zeta.
  set (k0 := ndigits B (Z.abs N) - ndigits B d).
  set (k := if (if 0 <=? k0 then d * B ^ k0 <=? Z.abs N else d <=? Z.abs N * B ^ (- k0)) then k0 else k0 - 1).
  destruct (0 <=? k - p + 1); reflexivity.
Qed.

(** the headline: the executable rounding is the declarative one *)
Theorem round_to_prec_rounds_to : forall B md p x y, 2 <= B -> 1 <= p -> 0 < snd x -> fst x <> 0 ->
  (round_to_prec B md p x = y <-> rounds_to B md p x y).
Proof.
  intros B md p [N d] y HB Hp Hd HN. cbn [fst snd] in Hd, HN.
  rewrite round_to_prec_unfold. cbn [fst snd]. cbv zeta.
  set (e := exec_pos B N d - p + 1).
  destruct (exec_pos_ok B N d HB Hd HN) as (K1 & K2).
  assert (We : ple B N d (e + p - 1) /\ ~ ple B N d (e + p)).
  { unfold e. replace (exec_pos B N d - p + 1 + p - 1) with (exec_pos B N d) by ring.
    replace (exec_pos B N d - p + 1 + p) with (exec_pos B N d + 1) by ring. split; assumption. }
  unfold rounds_to. split.
  - intros <-. exists e. split; [|reflexivity]. apply (window_ple B N d HB p e Hp). exact We.
  - intros (k & Wk & ->). apply (window_ple B N d HB p k Hp) in Wk.
    rewrite (window_unique B N d HB Hd HN p e k Hp We Wk). reflexivity.
Qed.

(** the rounding relation is functional: a fraction rounds to exactly one value *)
Corollary rounds_to_functional : forall B md p x y y', 2 <= B -> 1 <= p -> 0 < snd x -> fst x <> 0 ->
  rounds_to B md p x y -> rounds_to B md p x y' -> y = y'.
Proof.
  intros B md p x y y' HB Hp Hd HN H H'.
  apply (round_to_prec_rounds_to B md p x y HB Hp Hd HN) in H.
  apply (round_to_prec_rounds_to B md p x y' HB Hp Hd HN) in H'. congruence.
Qed.

(** non-vacuity: 9 with three binary digits, ties to even: 8; 1/3 with two decimal digits, away: 0.34 *)
Example round_to_prec_rounds_to_ex :
  round_to_prec 2 MHalfEven 3 (9, 1) = (8, 1) /\ rounds_to 2 MHalfEven 3 (9, 1) (8, 1) /\
  round_to_prec 10 MAway 2 (1, 3) = (17, 50) /\ rounds_to 10 MAway 2 (1, 3) (17, 50).
Proof.
  split; [vm_compute; reflexivity|]. split; [apply round_to_prec_rounds_to; cbn; try lia; vm_compute; reflexivity|].
  split; [vm_compute; reflexivity|]. apply round_to_prec_rounds_to; cbn; try lia; vm_compute; reflexivity.
Qed.

(** ** f32 / f64: the executable [ieee_round] (position of the binade clamped at emin, [spec_round] ties to
    even, overflow test) against the declarative [ieee_rounds_to] of Ratio/IeeePreimage.v: every format,
    every fraction x = N/d with d > 0, N <> 0 *)
Definition ieee_round_value (mb eb : Z) (x : frac) : frac :=
  let e := Z.max (exec_pos 2 (fst x) (snd x) - mb) (1 - (2 ^ (eb - 1) - 1) - mb) in
  scaled 2 (spec_round MHalfEven (fst (qscale 2 e x)) (snd (qscale 2 e x))) e 1.

Lemma ieee_round_unfold : forall mb eb x,
  ieee_round mb eb x =
  let v := ieee_round_value mb eb x in
  if 2 ^ (2 ^ (eb - 1) - 1 + 1) * snd v <=? Z.abs (fst v) then None else Some v.
Proof.
  intros mb eb [N d]. unfold ieee_round, ieee_round_value, exec_pos, pleb, qscale. cbn [fst snd]. cbv zeta.
  set (k0 := ndigits 2 (Z.abs N) - ndigits 2 d).
  set (k := if (if 0 <=? k0 then d * 2 ^ k0 <=? Z.abs N else d <=? Z.abs N * 2 ^ (- k0)) then k0 else k0 - 1).
  destruct (0 <=? Z.max (k - mb) (1 - (2 ^ (eb - 1) - 1) - mb)); reflexivity.
Qed.

Theorem ieee_round_value_rounds_to : forall mb eb x y, 0 <= mb -> 0 < snd x -> fst x <> 0 ->
  (ieee_round_value mb eb x = y <-> ieee_rounds_to mb eb x y).
Proof.
  intros mb eb [N d] y Hmb Hd HN. cbn [fst snd] in Hd, HN.
  unfold ieee_round_value, ieee_rounds_to. cbn [fst snd]. cbv zeta.
  set (emin := 1 - (2 ^ (eb - 1) - 1) - mb). set (kx := exec_pos 2 N d). set (e := Z.max (kx - mb) emin).
  destruct (exec_pos_ok 2 N d ltac:(lia) Hd HN) as (K1 & K2). fold kx in K1, K2.
  pose proof (fun j k => ple_mono 2 N d ltac:(lia) Hd HN j k) as Mono.
  split.
  - intros <-. exists e. split; [unfold e; lia|]. split; [|split; [|reflexivity]].
    + apply (window_hi 2 N d ltac:(lia) (mb + 1) e ltac:(lia)). intros H. apply K2.
      apply (Mono (kx + 1) (e + (mb + 1))); [unfold e; lia|exact H].
    + destruct (Z.eq_dec e emin) as [E|NE]; [left; exact E|right].
      replace mb with (mb + 1 - 1) at 1 by ring.
      apply (window_lo 2 N d ltac:(lia) (mb + 1) e ltac:(lia)).
      replace (e + (mb + 1) - 1) with kx by (unfold e in *; lia). exact K1.
  - intros (k & Hk & Whi & Wlo & ->).
    apply (window_hi 2 N d ltac:(lia) (mb + 1) k ltac:(lia)) in Whi.
    assert (E : k = e).
    { destruct Wlo as [->|Wlo].
      - assert (kx < emin + (mb + 1)).
        { destruct (Z.lt_ge_cases kx (emin + (mb + 1))) as [H|H]; [exact H|]. exfalso. apply Whi.
          apply (Mono (emin + (mb + 1)) kx); [lia|exact K1]. }
        unfold e. lia.
      - replace mb with (mb + 1 - 1) in Wlo at 1 by ring.
        apply (window_lo 2 N d ltac:(lia) (mb + 1) k ltac:(lia)) in Wlo.
        assert (k + (mb + 1) - 1 = kx).
        { destruct (Z.lt_trichotomy (k + (mb + 1) - 1) kx) as [H|[H|H]]; [|exact H|]; exfalso.
          - apply Whi. apply (Mono (k + (mb + 1)) kx); [lia|exact K1].
          - apply K2. apply (Mono (kx + 1) (k + (mb + 1) - 1)); [lia|exact Wlo]. }
        unfold e. lia. }
    rewrite E. reflexivity.
Qed.

(** the oracle's function: Some y only for THE value x rounds to; None (overflow) only if that value is
    at least 2^(emax+1) in magnitude *)
Theorem ieee_round_rounds_to : forall mb eb x, 0 <= mb -> 0 < snd x -> fst x <> 0 ->
  (forall y, ieee_round mb eb x = Some y -> ieee_rounds_to mb eb x y) /\
  (forall y, ieee_rounds_to mb eb x y ->
     ieee_round mb eb x = (if 2 ^ (2 ^ (eb - 1) - 1 + 1) * snd y <=? Z.abs (fst y) then None else Some y)).
Proof.
  intros mb eb x Hmb Hd HN. split.
  - intros y H. rewrite ieee_round_unfold in H. cbv zeta in H.
    destruct (_ <=? _) in H; [discriminate|]. injection H as <-.
    apply (ieee_round_value_rounds_to mb eb x _ Hmb Hd HN). reflexivity.
  - intros y H. apply (ieee_round_value_rounds_to mb eb x y Hmb Hd HN) in H.
    rewrite ieee_round_unfold. cbv zeta. rewrite H. reflexivity.
Qed.

Example ieee_round_rounds_to_ex :
  ieee_round 23 8 (33554433, 1) = Some (33554432, 1) /\ ieee_rounds_to 23 8 (33554433, 1) (33554432, 1) /\
  ieee_round 23 8 (1, 3) = Some (11184811, 33554432).
Proof.
  split; [vm_compute; reflexivity|]. split; [|vm_compute; reflexivity].
  apply (ieee_round_rounds_to 23 8 (33554433, 1)); cbn; try lia. vm_compute. reflexivity.
Qed.
