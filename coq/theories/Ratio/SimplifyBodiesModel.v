(** C18 round 4 - executable instances of the regenerated bodies of rational/src/simplify.rs
    (gen/SimplifyBodiesGen.v).  Definitions only (proofs: SimplifyBodiesProof.v). *)
From Dashu Require Import Base.Prelude Ratio.BinIter Float.RoundSpec Ratio.SimplestSpec Ratio.SimplestModel.
From DashuGen Require Import SimplifyGen SimplifyBodiesGen.
Open Scope Z_scope.

Definition cf_step_res (k : cfst -> result frac) (s : cf_step) : result frac :=
  match s with
  | CDone n d => Ok (n, d)
  | CCont a b c d e f g h => k (a, b, c, d, e, f, g, h)
  end.

(** the loop of Repr::simplest_in entered with an arbitrary state: iteration of the REGENERATED step
    (SimplifyGen.cf_step_gen, round 3) with the fuel of cf_loop; div_rem by zero is a panic *)
Definition cf_run_gen (n0 d0 n1 d1 nl dl nr dr : Z) : result (Z * Z) :=
  iter_pos (fun k s => let '(n0, d0, n1, d1, nl, dl, nr, dr) := s in
                       if dl =? 0 then Panic DivideBy0 else cf_step_res k (cf_step_gen n0 d0 n1 d1 nl dl nr dr))
    (Z.to_pos (dl + dr + 1)) (fun _ => OutOfFuel) (n0, d0, n1, d1, nl, dl, nr, dr).

Definition simplest_in_gen_x (l u : frac) : result frac := rbig_simplest_in_gen cf_run_gen l u.
Definition nearest_gen_x (x : frac) (L : Z) : result approx := nearest_gen farey_neighbors_asis x L.
Definition next_up_gen_x (x : frac) (L : Z) : result frac := next_up_gen farey_neighbors_asis x L.
Definition next_down_gen_x (x : frac) (L : Z) : result frac := next_down_gen farey_neighbors_asis x L.
