(** C04 (round 3): the REGENERATED bodies (coq/gen/RatioBodies.v, re-read from rational/src/{repr,rbig,add,mul,div}.rs
    on every run) equal the hand transcriptions of RatArithModel.v for ALL arguments (no hypotheses: pure
    unfolding), hence - by the theorems of RatArithProofs / RatArithRelaxed / RatArithRelaxedInv - they return the
    canonical exact rational and keep the invariant.  An edited macro body, a re-wired invocation or a removed
    impl breaks one of these obligations. *)
From Coq Require Import Znumtheory.
From Dashu Require Import Base.Prelude Int.BitsSpec Ratio.RatArithModel Ratio.RatArithCanon Ratio.RatArithProofs
  Ratio.RatArithRelaxed Ratio.RatArithQ Ratio.RatArithHistory Ratio.RatArithSummary Ratio.RatArithRelaxedInv Ratio.RatioAtoms Ratio.RatioBodiesModel.
From DashuGen Require Import RatioBodies.
Open Scope Z_scope.

(* ---------------------------------------------------------------- repr.rs, rbig.rs *)
Lemma gen_reduce_asis x : gen_reduce x = reduce_asis x.
Proof. destruct x as [n d]. reflexivity. Qed.
Lemma gen_reduce_with_hint_asis x h : gen_reduce_with_hint x h = reduce_with_hint_asis x h.
Proof. destruct x as [n d]. reflexivity. Qed.
Lemma gen_reduce2_asis x : gen_reduce2 x = reduce2_asis x.
Proof.
  destruct x as [n d]. unfold gen_reduce2, reduce2_asis, unwrap_r, unwrap_or_default.
  destruct (n =? 0); [reflexivity|]. destruct (trailing_zeros_spec d) as [dz|]; cbn [rbind]; [|reflexivity].
  destruct (0 <? Z.min _ dz); reflexivity.
Qed.
Lemma gen_RBig_from_parts_asis n d : gen_RBig_from_parts n d = from_parts_asis n d.
Proof. unfold gen_RBig_from_parts, from_parts_asis. rewrite gen_reduce_asis. reflexivity. Qed.
Lemma gen_Relaxed_from_parts_asis n d : gen_Relaxed_from_parts n d = xfrom_parts_asis n d.
Proof. unfold gen_Relaxed_from_parts, xfrom_parts_asis. rewrite gen_reduce2_asis. reflexivity. Qed.
Lemma gen_RBig_from_parts_signed_asis n d : gen_RBig_from_parts_signed n d = from_parts_signed_asis n d.
Proof. unfold gen_RBig_from_parts_signed, from_parts_signed_asis. apply gen_RBig_from_parts_asis. Qed.
Lemma gen_Relaxed_from_parts_signed_asis n d : gen_Relaxed_from_parts_signed n d = xfrom_parts_signed_asis n d.
Proof. unfold gen_Relaxed_from_parts_signed, xfrom_parts_signed_asis. apply gen_Relaxed_from_parts_asis. Qed.

Theorem gen_constructors_ok n d :
  (0 < d -> gen_reduce (n, d) = canon n d) /\
  (forall hint, 0 < d -> (Z.gcd n d | hint) -> gen_reduce_with_hint (n, d) hint = canon n d) /\
  (0 < d -> exists r, gen_reduce2 (n, d) = Ok r /\ RInv2 r /\ veq r (n, d)) /\
  (0 <= d -> gen_RBig_from_parts n d = from_parts_spec n d) /\
  gen_RBig_from_parts_signed n d = from_parts_signed_spec n d /\
  (0 <= d -> res_veq (gen_Relaxed_from_parts n d) (from_parts_spec n d)) /\
  res_veq (gen_Relaxed_from_parts_signed n d) (from_parts_signed_spec n d).
Proof.
  repeat split.
  - intros Hd. rewrite gen_reduce_asis. apply reduce_asis_canon. exact Hd.
  - intros h Hd Hh. rewrite gen_reduce_with_hint_asis. apply reduce_with_hint_canon; assumption.
  - intros Hd. rewrite gen_reduce2_asis. destruct (reduce2_asis_ok n d Hd) as (r & E & _ & V).
    exists r. split; [exact E|]. split; [|exact V]. eapply reduce2_asis_RInv2; eassumption.
  - intros Hd. rewrite gen_RBig_from_parts_asis. apply from_parts_asis_spec. exact Hd.
  - rewrite gen_RBig_from_parts_signed_asis. apply from_parts_signed_asis_spec.
  - intros Hd. rewrite gen_Relaxed_from_parts_asis. apply xfrom_parts_asis_spec. exact Hd.
  - rewrite gen_Relaxed_from_parts_signed_asis. apply xfrom_parts_signed_asis_spec.
Qed.

(* ---------------------------------------------------------------- the operators: generated = transcription *)
Lemma centred_unfold left_ right_ :
  (let '(sign, r1) := (sign_of (Z.rem left_ right_), Z.abs (Z.rem left_ right_)) in
   let r2 := right_ - r1 in if r1 <? r2 then signed sign r1 else signed (sign_neg sign) r2) = centred_rem left_ right_.
Proof. reflexivity. Qed.

Theorem gbin_asis o x y : gbin o x y = bin_asis o x y.
Proof.
  destruct x as [a b], y as [c d]. destruct o; cbn [gbin bin_asis].
  - unfold gen_Add_RBig, addsub_asis. destruct (Z.gcd b d =? 1); [reflexivity|]. cbv zeta. rewrite gen_reduce_with_hint_asis. reflexivity.
  - unfold gen_Sub_RBig, addsub_asis. destruct (Z.gcd b d =? 1); [reflexivity|]. cbv zeta. rewrite gen_reduce_with_hint_asis. reflexivity.
  - reflexivity.
  - unfold gen_Div_RBig, div_asis. destruct (c =? 0); reflexivity.
  - unfold gen_Rem_RBig, rem_asis, zrem_r. cbv zeta. destruct (_ =? 0); [reflexivity|]. cbn [rbind].
    rewrite gen_RBig_from_parts_asis. reflexivity.
  - unfold gen_RemEuclid_RBig, reme_asis, zreme_r. cbv zeta. destruct (_ =? 0); [reflexivity|]. cbn [rbind].
    apply gen_RBig_from_parts_asis.
Qed.

Theorem gxbin_asis o x y : gxbin o x y = xbin_asis o x y.
Proof.
  destruct x as [a b], y as [c d]. destruct o; cbn [gxbin xbin_asis].
  - apply gen_Relaxed_from_parts_asis.
  - apply gen_Relaxed_from_parts_asis.
  - apply gen_Relaxed_from_parts_asis.
  - unfold gen_Div_Relaxed. destruct (c =? 0); [reflexivity|]. apply gen_Relaxed_from_parts_asis.
  - unfold gen_Rem_Relaxed, zrem_r. cbv zeta. destruct (_ =? 0); [reflexivity|]. cbn [rbind].
    rewrite gen_Relaxed_from_parts_asis. reflexivity.
  - unfold gen_RemEuclid_Relaxed, zreme_r. cbv zeta. destruct (_ =? 0); [reflexivity|]. cbn [rbind].
    apply gen_Relaxed_from_parts_asis.
Qed.

Theorem gdivreme_asis x y : gdivreme x y = divreme_asis x y.
Proof.
  destruct x as [a b], y as [c d]. unfold gdivreme, gen_DivRemEuclid_RBig, divreme_asis, zdivreme_r. cbn [fst snd]. cbv zeta.
  destruct (_ =? 0); [reflexivity|]. cbn [rbind]. rewrite gen_RBig_from_parts_asis. reflexivity.
Qed.
Theorem gxdivreme_asis x y : gxdivreme x y = xdivreme_asis x y.
Proof.
  destruct x as [a b], y as [c d]. unfold gxdivreme, gen_DivRemEuclid_Relaxed, xdivreme_asis, zdivreme_r. cbn [fst snd]. cbv zeta.
  destruct (_ =? 0); [reflexivity|]. cbn [rbind]. rewrite gen_Relaxed_from_parts_asis. reflexivity.
Qed.
(** [impl_euclid_div] tests the numerator c and then lets the integer div_euclid see b * c *)
Theorem gdive_asis x y : 0 < snd x -> gdive x y = dive_asis x y /\ gxdive x y = dive_asis x y.
Proof.
  destruct x as [a b], y as [c d]. cbn [snd]. intros Hb.
  unfold gdive, gxdive, gen_DivEuclid_RBig, gen_DivEuclid_Relaxed, dive_asis, zdive_r. cbn [fst snd].
  destruct (Z.eqb_spec c 0) as [|Hc]; [split; reflexivity|].
  destruct (Z.eqb_spec (b * c) 0) as [E|_]; [|split; reflexivity].
  apply Z.mul_eq_0 in E. lia.
Qed.

Theorem gint_asis l u o x i : gint l u o x i = int_asis u o x i.
Proof.
  destruct x as [a b].
  destruct o, l, u; cbn [gint int_asis]; try reflexivity;
    unfold gen_Div_RBig_UBig, gen_Div_RBig_IBig, gen_Div_UBig_RBig, gen_Div_IBig_RBig;
    match goal with |- context [?t =? 0] => destruct (t =? 0) end; reflexivity.
Qed.

Theorem gxint_asis l u o x i : gxint l u o x i = xint_asis u o x i.
Proof.
  destruct x as [a b].
  destruct o, l, u; cbn [gxint xint_asis]; try reflexivity; try apply gen_Relaxed_from_parts_asis;
    unfold gen_Div_Relaxed_UBig, gen_Div_Relaxed_IBig, gen_Div_UBig_Relaxed, gen_Div_IBig_Relaxed;
    match goal with |- context [?t =? 0] => destruct (t =? 0) end; try reflexivity; apply gen_Relaxed_from_parts_asis.
Qed.

Lemma neg_abs_if a : (if sign_eqb (sign_of a) Negative then - a else a) = Z.abs a.
Proof. unfold sign_of. destruct (Z.ltb_spec a 0); cbn [sign_eqb]; lia. Qed.
Theorem gun_asis x_ o x : gun x_ o x = un_asis o x.
Proof.
  destruct x as [a b]. destruct o; cbn [gun un_asis]; try reflexivity.
  - unfold gen_abs. rewrite neg_abs_if. reflexivity.
  - destruct x_; reflexivity.
Qed.
Theorem ground_family_asis x_ s x :
  gmulsign x_ s x = mulsign_asis s x /\ gsplit x = split_asis x /\ gtrunc x = trunc_asis x /\
  gfloor x = floor_asis x /\ gceil x = ceil_asis x /\ ground x = round_asis x.
Proof. destruct x as [a b]. repeat split. destruct x_; reflexivity. Qed.
Lemma gpow_asis x e : gpow x e = pow_asis x e.
Proof. reflexivity. Qed.

Theorem gen_bodies_asis o x y l u p i :
  gbin o x y = bin_asis o x y /\ gxbin o x y = xbin_asis o x y /\
  gdivreme x y = divreme_asis x y /\ gxdivreme x y = xdivreme_asis x y /\
  gint l u p x i = int_asis u p x i /\ gxint l u p x i = xint_asis u p x i.
Proof.
  repeat split; [apply gbin_asis | apply gxbin_asis | apply gdivreme_asis | apply gxdivreme_asis | apply gint_asis | apply gxint_asis].
Qed.

(* ---------------------------------------------------------------- generated = canonical specification + Inv *)
Theorem gbin_spec o x y : Inv x -> Inv y ->
  gbin o x y = bin_spec o x y /\ (forall r, gbin o x y = Ok r -> Inv r).
Proof.
  intros Hx Hy. rewrite gbin_asis, (bin_asis_spec o x y Hx Hy). split; [reflexivity|].
  intros r H. eapply bin_spec_Inv; [apply Inv_RInv; exact Hx | apply Inv_RInv; exact Hy | exact H].
Qed.

Theorem gxbin_spec o x y : RInv x -> RInv y ->
  res_veq (gxbin o x y) (bin_spec o x y) /\ (forall r, gxbin o x y = Ok r -> RInv2 r).
Proof.
  intros Hx Hy. rewrite gxbin_asis. split; [apply xbin_asis_spec; assumption|].
  intros r H. eapply xbin_asis_RInv2; [exact Hx | exact Hy | exact H].
Qed.

Theorem geuclid_spec x y : Inv x -> Inv y ->
  gdive x y = dive_spec x y /\ gdivreme x y = divreme_spec x y.
Proof.
  intros Hx Hy. destruct (gdive_asis x y) as [E _]; [apply Hx|]. rewrite E, gdivreme_asis.
  split; [apply dive_asis_spec | apply divreme_asis_spec; assumption].
Qed.
Theorem gxeuclid_spec x y : RInv x -> RInv y ->
  gxdive x y = dive_spec x y /\ res_veq_q (gxdivreme x y) (divreme_spec x y).
Proof.
  intros Hx Hy. destruct (gdive_asis x y) as [_ E]; [apply Hx|]. rewrite E, gxdivreme_asis.
  split; [apply dive_asis_spec | apply xdivreme_asis_spec; assumption].
Qed.

Theorem gint_spec l u o x i : Inv x -> (u = true -> 0 <= i) ->
  gint l u o x i = int_spec o x i /\ (forall r, gint l u o x i = Ok r -> Inv r).
Proof.
  intros Hx Hu. rewrite gint_asis, (int_asis_spec u o x i Hx Hu). split; [reflexivity|].
  intros r H. eapply int_spec_Inv; [apply Inv_RInv; exact Hx | exact H].
Qed.
Theorem gxint_spec l u o x i : RInvE x -> (u = true -> 0 <= i) ->
  res_veq (gxint l u o x i) (int_spec o x i) /\ (forall r, gxint l u o x i = Ok r -> RInvE r).
Proof.
  intros Hx Hu. rewrite gxint_asis. split; [apply xint_asis_spec; [apply RInvE_RInv; exact Hx | exact Hu]|].
  intros r H. eapply xint_asis_RInvE; [exact Hx | exact Hu | exact H].
Qed.

Theorem gun_spec x_ o x : Inv x -> gun x_ o x = un_spec o x /\ (forall v, gun x_ o x = Ok v -> Inv v).
Proof.
  intros Hx. rewrite gun_asis, (un_asis_spec o x Hx). split; [reflexivity|].
  intros v E. eapply un_spec_Inv; [apply Inv_RInv; exact Hx | exact E].
Qed.
Theorem gxun_spec o x : RInvE x -> res_veq (gun true o x) (un_spec o x) /\ (forall v, gun true o x = Ok v -> RInvE v).
Proof.
  intros Hx. rewrite gun_asis. split; [apply xun_asis_spec; apply RInvE_RInv; exact Hx|].
  intros v E. eapply xun_asis_RInvE; [exact Hx | exact E].
Qed.
Theorem ground_family_spec x_ s x : Inv x ->
  gmulsign x_ s x = mulsign_spec s x /\ gsplit x = split_spec x /\ Inv (snd (split_spec x)) /\ gtrunc x = trunc_spec x /\
  gfloor x = floor_spec x /\ gceil x = ceil_spec x /\ ground x = round_spec x.
Proof.
  intros Hx. destruct (ground_family_asis x_ s x) as (E1 & E2 & E3 & E4 & E5 & E6).
  rewrite E1, E2, E3, E4, E5, E6. destruct (split_round_ok x Hx) as (S1 & S2 & S3 & S4 & S5 & S6).
  rewrite S1, S3, S4, S5, S6. split; [apply mulsign_asis_spec; exact Hx|]. split; [reflexivity|]. split; [exact S2|]. repeat split.
Qed.
Theorem gpow_spec x e : Inv x -> 0 <= e -> gpow x e = pow_spec x e /\ Inv (pow_spec x e).
Proof.
  intros Hx He. rewrite gpow_asis. split; [apply pow_asis_spec; assumption|].
  rewrite <- (pow_asis_spec x e Hx He). destruct x as [a b]. destruct Hx as [Hb Hg]. cbn [fst snd] in *.
  unfold pow_asis, Inv. cbn [fst snd]. split; [apply Z.pow_pos_nonneg; assumption|].
  apply cop_pow; assumption.
Qed.

(* ---------------------------------------------------------------- all finite histories, through the generated bodies *)
Lemma heval_gen_asis p o : heval_gen p o = heval_asis p o.
Proof.
  destruct o as [b i j k|u i k|i e k|b i z k|b i z k]; cbn [heval_gen heval_asis];
    [apply gbin_asis | apply gun_asis | reflexivity | apply gint_asis | apply gint_asis].
Qed.
Lemma heval_xgen_asis p o : heval_xgen p o = heval_xasis p o.
Proof.
  destruct o as [b i j k|u i k|i e k|b i z k|b i z k]; cbn [heval_xgen heval_xasis];
    [apply gxbin_asis | apply gun_asis | reflexivity | apply gxint_asis | apply gxint_asis].
Qed.
Lemma hrun_ext ev1 ev2 : (forall p o, ev1 p o = ev2 p o) -> forall ops p, hrun ev1 ops p = hrun ev2 ops p.
Proof.
  intros H ops. unfold hrun. induction ops as [|o ops IH]; intros p; cbn [fold_left]; [reflexivity|].
  unfold hstep at 2 4. rewrite H. apply IH.
Qed.

Theorem hrun_gen_spec ops p : Forall Inv p ->
  hrun heval_gen ops p = hrun heval_spec ops p /\ Forall Inv (hrun heval_gen ops p).
Proof. intros Hp. rewrite (hrun_ext _ _ heval_gen_asis). apply hrun_asis_spec. exact Hp. Qed.

Theorem hrun_xgen_lock_step ops px p : PoolRel px p -> Forall Inv p -> Forall RInvE px ->
  PoolRel (hrun heval_xgen ops px) (hrun heval_gen ops p) /\ Forall RInvE (hrun heval_xgen ops px).
Proof.
  intros HR Hp Hx. rewrite (hrun_ext _ _ heval_gen_asis), (hrun_ext _ _ heval_xgen_asis).
  split; [apply hrun_relaxed; assumption | apply hrun_xasis_RInvE; exact Hx].
Qed.

(* ---------------------------------------------------------------- is_zero / is_one / is_int *)
Theorem gen_predicates_ok n d : 0 < d ->
  (gen_RBig_is_zero n d = true <-> veq (n, d) (0, 1)) /\
  (gen_Relaxed_is_zero n d = true <-> veq (n, d) (0, 1)) /\
  (gen_Relaxed_is_one n d = true <-> veq (n, d) (1, 1)) /\
  (Inv (n, d) -> (gen_RBig_is_one n d = true <-> veq (n, d) (1, 1)) /\ (gen_RBig_is_int n d = true <-> (d | n))).
Proof.
  intros Hd. unfold gen_RBig_is_zero, gen_Relaxed_is_zero, gen_Relaxed_is_one, gen_RBig_is_one, gen_RBig_is_int, veq. cbn [fst snd].
  split; [rewrite Z.eqb_eq; lia|]. split; [rewrite Z.eqb_eq; lia|]. split; [rewrite Z.eqb_eq; lia|].
  intros [_ Hg]. cbn [fst snd] in Hg. split.
  - rewrite andb_true_iff, !Z.eqb_eq. split; [lia|]. intros E. assert (n = d) by lia. subst n.
    rewrite Z.gcd_diag in Hg. lia.
  - rewrite Z.eqb_eq. split; [intros ->; apply Z.divide_1_l|]. intros Hdiv.
    apply Z.divide_gcd_iff in Hdiv; [|lia]. rewrite Z.gcd_comm in Hdiv. lia.
Qed.

(* ---------------------------------------------------------------- exact conversion from f32 / f64 *)
Lemma gcd_pow2_odd n k : 0 <= k -> Z.odd n = true -> Z.gcd n (2 ^ k) = 1.
Proof.
  intros Hk Ho. assert (H2 : Z.gcd n 2 = 1); [|
    pattern k; apply natlike_ind; [rewrite Z.pow_0_r; apply Z.gcd_1_r| |exact Hk];
    intros j Hj IH; rewrite Z.pow_succ_r by exact Hj; apply cop_mul_r; [exact H2 | exact IH] ].
  assert (Hg : (Z.gcd n 2 | 2)) by apply Z.gcd_divide_r.
  pose proof (Z.gcd_nonneg n 2) as Hn. apply Z.divide_pos_le in Hg as Hle; [|lia].
  assert (Z.gcd n 2 <> 0) by (intros E; apply Z.gcd_eq_0 in E; lia).
  assert (Z.gcd n 2 = 1 \/ Z.gcd n 2 = 2) as [E|E] by lia; [exact E|].
  pose proof (Z.gcd_divide_l n 2) as Hd. rewrite E in Hd. destruct Hd as [q ->].
  rewrite Z.odd_mul in Ho. cbn in Ho. rewrite andb_false_r in Ho. discriminate.
Qed.

(** reduce2 of a fraction whose denominator is a power of two is already the canonical form *)
Theorem reduce2_dyadic_canon n k : 0 <= k -> reduce2_asis (n, 2 ^ k) = Ok (canon n (2 ^ k)).
Proof.
  intros Hk. pose proof (Z.pow_pos_nonneg 2 k ltac:(lia) Hk) as Hp.
  destruct (reduce2_asis_ok n (2 ^ k) Hp) as (r & E & HR & V). rewrite E. f_equal.
  pose proof (reduce2_asis_RInv2 n (2 ^ k) r Hp E) as (Hr & Hnc & Hz).
  apply Inv_is_canon; [exact Hp| |exact V].
  destruct r as [rn rd]. unfold Inv, veq in *. cbn [fst snd] in *. split; [exact Hr|].
  (* rd divides 2^k * (something): rd is a power of two *)
  assert (Hrd : exists j, 0 <= j /\ rd = 2 ^ j).
  { unfold reduce2_asis in E. destruct (n =? 0); [injection E as <- <-; exists 0; split; [lia|reflexivity]|].
    destruct (trailing_zeros_spec (2 ^ k)) as [dz|]; [|discriminate].
    destruct (0 <? Z.min _ dz) eqn:Ez; injection E as <- <-; [|exists k; split; [lia|reflexivity]].
    set (z := Z.min _ dz) in *. apply Z.ltb_lt in Ez. rewrite (Z.shiftr_div_pow2 (2 ^ k) z) in * by lia.
    destruct (Z.le_gt_cases z k) as [L|L].
    - exists (k - z). split; [lia|]. replace k with ((k - z) + z) at 1 by lia. rewrite Z.pow_add_r by lia.
      apply Z.div_mul. apply Z.pow_nonzero; lia.
    - exfalso. rewrite Z.div_small in Hr; [lia|]. split; [lia|]. apply Z.pow_lt_mono_r; lia. }
  destruct Hrd as (j & Hj & ->).
  destruct (Z.eq_dec j 0) as [->|Hj0]; [rewrite Z.pow_0_r; apply Z.gcd_1_r|].
  apply gcd_pow2_odd; [exact Hj|].
  assert (Z.even (2 ^ j) = true).
  { replace j with (1 + (j - 1)) by lia. rewrite Z.pow_add_r by lia. rewrite Z.even_mul. reflexivity. }
  rewrite H, andb_true_r in Hnc. rewrite <- Z.negb_even, Hnc. reflexivity.
Qed.

Theorem from_float_asis_spec man e : from_float_asis man e = Ok (from_float_spec man e) /\ Inv (from_float_spec man e).
Proof.
  unfold from_float_asis, from_float_spec, from_float_repr.
  destruct (Z.eqb_spec man 0) as [->|Hm].
  - destruct (Z.leb_spec 0 e) as [He|He].
    + rewrite Z.mul_0_l, canon_zero by lia. split; [reflexivity|]. split; [cbn; lia | reflexivity].
    + pose proof (Z.pow_pos_nonneg 2 (- e) ltac:(lia) ltac:(lia)). rewrite canon_zero by lia.
      split; [reflexivity|]. split; [cbn; lia | reflexivity].
  - rewrite gen_reduce2_asis. destruct (Z.leb_spec 0 e) as [He|He].
    + rewrite Z.shiftl_mul_pow2 by lia. change 1 with (2 ^ 0) at 1 3. rewrite reduce2_dyadic_canon by lia.
      split; [reflexivity | apply canon_Inv; reflexivity].
    + rewrite Z.setbit_spec'. rewrite Z.lor_0_l. rewrite reduce2_dyadic_canon by lia.
      split; [reflexivity | apply canon_Inv; apply Z.pow_pos_nonneg; lia].
Qed.

Theorem from_int_asis_spec v : from_int_asis v = canon v 1 /\ Inv (from_int_asis v).
Proof.
  assert (H : Inv (v, 1)) by (split; [cbn; lia | apply Z.gcd_1_r]).
  split; [|exact H]. symmetry. apply (canon_of_Inv (v, 1) H).
Qed.

(* ---------------------------------------------------------------- Sum / Product *)
(** rational/src/iter.rs exists as a file but is not declared in lib.rs: RBig has no Sum / Product impl *)
Lemma iter_not_a_module : gen_ratio_iter_is_a_module = false.
Proof. reflexivity. Qed.

(* ---------------------------------------------------------------- non-vacuity *)
Example gbin_ex : gbin OAdd (1, 6) (1, 10) = Ok (4, 15) /\ gbin ORem (7, 2) (0, 1) = Panic DivideBy0 /\
  gxbin OMul (2, 3) (3, 4) = Ok (3, 6) /\ gint true false IRsub (1, 2) 3 = Ok (5, 2) /\
  gdivreme (7, 2) (-1, 3) = Ok (-10, (1, 6)) /\ Inv (1, 6).
Proof. repeat split; vm_compute; try reflexivity; intros; discriminate. Qed.
Example from_float_ex : from_float_asis 12 (-3) = Ok (3, 2) /\ from_float_asis 5 2 = Ok (20, 1).
Proof. split; reflexivity. Qed.
Example gen_predicates_ex : gen_RBig_is_int 4 1 = true /\ gen_Relaxed_is_one 3 3 = true /\ gen_RBig_is_one 1 1 = true.
Proof. repeat split. Qed.
