(** C04: the specification IS exact rational arithmetic - stated in Coq's field of rationals Q -
    and every result of the specification satisfies the RBig invariant. *)
From Coq Require Import Znumtheory QArith Qabs.
From Dashu Require Import Base.Prelude Ratio.RatArithModel Ratio.RatArithCanon Ratio.RatArithProofs.
Open Scope Z_scope.

Definition toQ (x : rat) : Q := Qmake (fst x) (Z.to_pos (snd x)).

(* ---------------------------------------------------------------- the invariant holds for every result of the specification *)
Theorem bin_spec_Inv o x y r : RInv x -> RInv y -> bin_spec o x y = Ok r -> Inv r.
Proof.
  destruct x as [a b], y as [c d]. unfold RInv. cbn [snd]. intros Hb Hd.
  destruct o; cbn [bin_spec]; try (destruct (Z.eqb_spec c 0); [discriminate|]);
    intros H; injection H as <-; apply canon_Inv; nia.
Qed.

(** the only failure is the division-by-zero panic, exactly when the divisor is zero *)
Theorem bin_spec_panic o x y :
  (exists r, bin_spec o x y = Ok r /\ ((o = ODiv \/ o = ORem \/ o = ORemE) -> fst y <> 0)) \/
  (bin_spec o x y = Panic DivideBy0 /\ (o = ODiv \/ o = ORem \/ o = ORemE) /\ fst y = 0).
Proof.
  destruct x as [a b], y as [c d]. cbn [fst].
  destruct o; cbn [bin_spec]; try (left; eexists; split; [reflexivity | intros [H|[H|H]]; discriminate]);
    (destruct (Z.eqb_spec c 0); [right; auto | left; eexists; split; [reflexivity | auto]]).
Qed.

Theorem un_spec_Inv o x r : RInv x -> un_spec o x = Ok r -> Inv r.
Proof.
  destruct x as [a b]. unfold RInv. cbn [snd]. intros Hb.
  destruct o; cbn [un_spec]; try (destruct (Z.eqb_spec a 0); [discriminate|]);
    intros H; injection H as <-; try (apply canon_Inv; nia).
  split; cbn [fst snd]; [lia | apply Z.gcd_1_r].
Qed.

Theorem pow_spec_Inv x e : RInv x -> 0 <= e -> Inv (pow_spec x e).
Proof. unfold RInv, pow_spec. intros Hb He. apply canon_Inv. apply Z.pow_pos_nonneg; lia. Qed.

Theorem int_spec_Inv o x i r : RInv x -> int_spec o x i = Ok r -> Inv r.
Proof.
  destruct x as [a b]. unfold RInv. cbn [snd]. intros Hb.
  destruct o; cbn [int_spec]; try (destruct (Z.eqb_spec i 0); [discriminate|]);
    try (destruct (Z.eqb_spec a 0); [discriminate|]);
    intros H; injection H as <-; apply canon_Inv; nia.
Qed.

Theorem from_parts_spec_Inv n d r : 0 <= d -> from_parts_spec n d = Ok r -> Inv r.
Proof.
  unfold from_parts_spec. intros Hd. destruct (Z.eqb_spec d 0); [discriminate|].
  intros H; injection H as <-. apply canon_Inv. lia.
Qed.

Theorem from_parts_signed_spec_Inv n d r : from_parts_signed_spec n d = Ok r -> Inv r.
Proof.
  unfold from_parts_signed_spec. destruct (Z.eqb_spec d 0); [discriminate|].
  intros H; injection H as <-. apply canon_Inv. lia.
Qed.

Theorem from_parts_const_spec_Inv s n d r : 0 <= d -> from_parts_const_spec s n d = Ok r -> Inv r.
Proof.
  unfold from_parts_const_spec. intros Hd. destruct (Z.eqb_spec d 0); [discriminate|].
  intros H; injection H as <-. apply canon_Inv. lia.
Qed.

Theorem parse_spec_Inv n d r : parse_spec n d = Ok r -> Inv r.
Proof.
  unfold parse_spec. destruct (Z.eqb_spec d 0); [discriminate|].
  intros H; injection H as <-. apply canon_Inv. lia.
Qed.

Theorem mulsign_spec_Inv s x : RInv x -> Inv (mulsign_spec s x).
Proof. unfold RInv, mulsign_spec. intros H. apply canon_Inv. exact H. Qed.

Theorem split_spec_Inv x : RInv x -> Inv (snd (split_spec x)).
Proof. unfold RInv, split_spec. cbn [snd]. intros H. apply canon_Inv. exact H. Qed.

(* ---------------------------------------------------------------- values in Q *)
Lemma toQ_of_veq x N D : 0 < snd x -> 0 < D -> fst x * D = N * snd x -> (toQ x == N # Z.to_pos D)%Q.
Proof.
  intros Hx HD H. unfold Qeq, toQ. cbn [Qnum Qden]. rewrite !Z2Pos.id by lia. exact H.
Qed.

Lemma toQ_canon n d : 0 < d -> (toQ (canon n d) == n # Z.to_pos d)%Q.
Proof.
  intros Hd. apply toQ_of_veq; [apply canon_Inv; exact Hd | exact Hd |].
  pose proof (canon_veq n d Hd) as H. unfold veq in H. cbn [fst snd] in H. exact H.
Qed.

Lemma rha_bound l r : 0 < r -> 2 * Z.abs (l - r * rha l r) <= r.
Proof.
  intros HR. unfold rha.
  destruct (Z.lt_trichotomy l 0) as [Hl|[->|Hl]].
  - set (L := - l). assert (HL : 0 < L) by (unfold L; lia). replace l with (- L) by (unfold L; ring).
    rewrite (Z.abs_opp L), (Z.abs_eq L) by lia. replace (Z.sgn (- L)) with (-1) by lia.
    rewrite half_up_quot by lia.
    pose proof (Z.div_mod L r ltac:(lia)) as E. pose proof (Z.mod_pos_bound L r HR) as Bm.
    set (k := L / r) in *. set (m := L mod r) in *.
    destruct (Z.ltb_spec (2 * m) r); nia.
  - cbn [Z.abs Z.sgn]. rewrite Z.mul_0_l, Z.mul_0_r. cbn [Z.sub Z.opp Z.add Z.abs]. lia.
  - rewrite (Z.abs_eq l) by lia. replace (Z.sgn l) with 1 by lia. rewrite half_up_quot by lia.
    pose proof (Z.div_mod l r ltac:(lia)) as E. pose proof (Z.mod_pos_bound l r HR) as Bm.
    set (k := l / r) in *. set (m := l mod r) in *.
    destruct (Z.ltb_spec (2 * m) r); nia.
Qed.

Ltac q_unfold :=
  unfold Qminus in *; unfold Qeq, Qle, Qlt, Qplus, Qopp, Qmult, Qabs, inject_Z, toQ in *; cbn [Qnum Qden fst snd] in *;
  rewrite <- ?Pos2Z.opp_pos in *; rewrite ?Pos2Z.inj_mul, ?Z2Pos.id in * by lia.

(** +, -, * and / are the field operations of Q; the centred and the Euclidean remainder are
    characterised by x = y * n + r with n an integer and |r| <= |y|/2, resp. 0 <= r < |y| *)
Theorem bin_spec_Q o x y r : RInv x -> RInv y -> bin_spec o x y = Ok r ->
  match o with
  | OAdd => toQ r == toQ x + toQ y
  | OSub => toQ r == toQ x - toQ y
  | OMul => toQ r == toQ x * toQ y
  | ODiv => toQ r == toQ x / toQ y
  | ORem => exists n : Z, toQ x == toQ y * inject_Z n + toQ r /\ Qabs (toQ r) * (2 # 1) <= Qabs (toQ y)
  | ORemE => exists n : Z, toQ x == toQ y * inject_Z n + toQ r /\ 0 <= toQ r /\ toQ r < Qabs (toQ y)
  end%Q.
Proof.
  intros Hx Hy H. pose proof (bin_spec_Inv o x y r Hx Hy H) as [Hr _].
  destruct x as [a b], y as [c d]. unfold RInv in *. cbn [snd] in *.
  destruct o; cbn [bin_spec] in H; try (destruct (Z.eqb_spec c 0) as [|Hc]; [discriminate|]);
    injection H as <-.
  - pose proof (canon_veq (a * d + c * b) (b * d) ltac:(nia)) as V. unfold veq in V.
    set (rr := canon _ _) in *; clearbody rr. q_unfold. lia.
  - pose proof (canon_veq (a * d - c * b) (b * d) ltac:(nia)) as V. unfold veq in V.
    set (rr := canon _ _) in *; clearbody rr. q_unfold. lia.
  - pose proof (canon_veq (a * c) (b * d) ltac:(nia)) as V. unfold veq in V.
    set (rr := canon _ _) in *; clearbody rr. q_unfold. lia.
  - pose proof (canon_veq (a * d * Z.sgn c) (b * Z.abs c) ltac:(nia)) as V. unfold veq in V.
    set (rr := canon _ _) in *; clearbody rr. unfold Qdiv, Qinv. cbn [toQ Qnum Qden fst snd].
    destruct c as [|p|p]; [contradiction| |]; cbn [Z.sgn Z.abs] in V; q_unfold; lia.
  - pose proof (canon_veq (a * d - b * Z.abs c * rha (a * d) (b * Z.abs c)) (b * d) ltac:(nia)) as V.
    pose proof (rha_bound (a * d) (b * Z.abs c) ltac:(nia)) as Bd. unfold veq in V.
    set (n := rha (a * d) (b * Z.abs c)) in *; clearbody n. set (rr := canon _ _) in *; clearbody rr.
    exists (Z.sgn c * n). q_unfold. cbn [fst snd] in V. split.
    + assert (c * Z.sgn c = Z.abs c) by lia. nia.
    + assert (E : Z.abs (fst rr) * (b * d) = Z.abs (a * d - b * Z.abs c * n) * snd rr).
      { rewrite <- (Z.abs_eq (b * d)), <- (Z.abs_eq (snd rr)), <- !Z.abs_mul by nia. f_equal. exact V. }
      apply Z.mul_le_mono_pos_r with (p := b); [lia|]. nia.
  - unfold emod in *.
    pose proof (canon_veq ((a * d) mod Z.abs (b * c)) (b * d) ltac:(nia)) as V. unfold veq in V.
    pose proof (Z.mod_pos_bound (a * d) (Z.abs (b * c)) ltac:(nia)) as Bm.
    pose proof (Z.div_mod (a * d) (Z.abs (b * c)) ltac:(nia)) as E.
    set (m := (a * d) mod Z.abs (b * c)) in *. set (k := (a * d) / Z.abs (b * c)) in *.
    clearbody m k. set (rr := canon _ _) in *; clearbody rr.
    exists (Z.sgn c * k). q_unfold. cbn [fst snd] in V.
    assert (Hbc : Z.abs (b * c) = b * Z.abs c) by (rewrite Z.abs_mul; lia).
    assert (c * Z.sgn c = Z.abs c) by lia.
    split; [|split].
    + nia.
    + nia.
    + apply Z.mul_lt_mono_pos_r with (p := b); [lia|]. nia.
Qed.

(** unary operations *)
Theorem un_spec_Q o x r : RInv x -> un_spec o x = Ok r ->
  match o with
  | UNeg => toQ r == - toQ x
  | UAbs => toQ r == Qabs (toQ x)
  | UInv => toQ r == / toQ x
  | USqr => toQ r == toQ x * toQ x
  | UCubic => toQ r == toQ x * toQ x * toQ x
  | USignum => toQ r == inject_Z (Z.sgn (fst x))
  | UFract => toQ x == inject_Z (trunc_spec x) + toQ r
  end%Q.
Proof.
  intros Hx H. pose proof (un_spec_Inv o x r Hx H) as [Hr _].
  destruct x as [a b]. unfold RInv in *. cbn [snd] in *.
  destruct o; cbn [un_spec] in H; try (destruct (Z.eqb_spec a 0) as [|Ha]; [discriminate|]);
    injection H as <-.
  - pose proof (canon_veq (- a) b Hx) as V. unfold veq in V. set (rr := canon _ _) in *; clearbody rr. q_unfold. lia.
  - pose proof (canon_veq (Z.abs a) b Hx) as V. unfold veq in V. set (rr := canon _ _) in *; clearbody rr. q_unfold. lia.
  - pose proof (canon_veq (Z.sgn a * b) (Z.abs a) ltac:(lia)) as V. unfold veq in V.
    set (rr := canon _ _) in *; clearbody rr. unfold Qinv. cbn [toQ Qnum Qden fst snd].
    destruct a as [|p|p]; [contradiction| |]; cbn [Z.sgn Z.abs] in V; q_unfold; lia.
  - pose proof (canon_veq (a * a) (b * b) ltac:(nia)) as V. unfold veq in V. set (rr := canon _ _) in *; clearbody rr. q_unfold. lia.
  - pose proof (canon_veq (a * a * a) (b * b * b) ltac:(nia)) as V. unfold veq in V. set (rr := canon _ _) in *; clearbody rr.
    q_unfold. lia.
  - q_unfold. cbn [Z.to_pos]. lia.
  - pose proof (canon_veq (Z.rem a b) b Hx) as V. unfold veq in V. set (rr := canon _ _) in *; clearbody rr.
    unfold trunc_spec. pose proof (Z.quot_rem' a b) as E. q_unfold. cbn [fst snd] in *. nia.
Qed.

Theorem from_parts_spec_Q n d r : 0 <= d -> from_parts_spec n d = Ok r -> (toQ r == n # Z.to_pos d)%Q.
Proof.
  unfold from_parts_spec. intros Hd. destruct (Z.eqb_spec d 0); [discriminate|].
  intros H; injection H as <-. apply toQ_canon. lia.
Qed.

(** pow, the integer-mixed forms and the Sign product are instances of the binary operations *)
Theorem pow_spec_0 x : RInv x -> pow_spec x 0 = (1, 1).
Proof. intros _. unfold pow_spec. rewrite !Z.pow_0_r. reflexivity. Qed.

Theorem pow_spec_succ x e : RInv x -> 0 <= e -> Ok (pow_spec x (Z.succ e)) = bin_spec OMul (pow_spec x e) x.
Proof.
  destruct x as [a b]. unfold RInv, pow_spec. cbn [fst snd]. intros Hb He.
  assert (Hp : 0 < b ^ e) by (apply Z.pow_pos_nonneg; lia).
  pose proof (canon_veq (a ^ e) (b ^ e) Hp) as V. unfold veq in V. cbn [fst snd] in V.
  pose proof (canon_Inv (a ^ e) (b ^ e) Hp) as [Hs _].
  destruct (canon (a ^ e) (b ^ e)) as [n d] eqn:E. cbn [fst snd bin_spec] in *. f_equal.
  rewrite !Z.pow_succ_r by exact He. apply canon_veq_eq; [nia | nia |].
  replace (a * a ^ e * (d * b)) with (a * b * (a ^ e * d)) by ring.
  replace (n * a * (b * b ^ e)) with (a * b * (n * b ^ e)) by ring. rewrite V. reflexivity.
Qed.

Theorem int_spec_as_bin o x i : int_spec o x i =
  match o with
  | IAdd => bin_spec OAdd x (i, 1) | ISub => bin_spec OSub x (i, 1) | IMul => bin_spec OMul x (i, 1)
  | IDiv => bin_spec ODiv x (i, 1) | IRsub => bin_spec OSub (i, 1) x | IRdiv => bin_spec ODiv (i, 1) x
  end.
Proof.
  destruct x as [a b]. destruct o; cbn [int_spec bin_spec];
    try (destruct (Z.eqb_spec i 0); [reflexivity|]); try (destruct (Z.eqb_spec a 0); [reflexivity|]);
    f_equal; f_equal; ring.
Qed.

Example bin_spec_Q_ex : bin_spec ORem (7, 2) (1, 1) = Ok (-1, 2).
Proof. reflexivity. Qed.

(** Euclidean division with remainder: x = y * q + r, 0 <= r < |y|, q the integer returned *)
Theorem divreme_spec_Q x y q r : RInv x -> RInv y -> divreme_spec x y = Ok (q, r) ->
  (toQ x == toQ y * inject_Z q + toQ r /\ 0 <= toQ r /\ toQ r < Qabs (toQ y))%Q.
Proof.
  intros Hx Hy H.
  destruct x as [a b], y as [c d]. unfold RInv in *. cbn [snd] in *.
  unfold divreme_spec, dive_spec in H. cbn [bin_spec] in H.
  destruct (Z.eqb_spec c 0) as [|Hc]; [discriminate|]. cbn [rbind] in H. injection H as <- <-.
  pose proof (canon_Inv (emod (a * d) (b * c)) (b * d) ltac:(nia)) as [Hr _].
  unfold emod, ediv in *.
  pose proof (canon_veq ((a * d) mod Z.abs (b * c)) (b * d) ltac:(nia)) as V. unfold veq in V.
  pose proof (Z.mod_pos_bound (a * d) (Z.abs (b * c)) ltac:(nia)) as Bm.
  pose proof (Z.div_mod (a * d) (Z.abs (b * c)) ltac:(nia)) as E.
  set (m := (a * d) mod Z.abs (b * c)) in *. set (k := (a * d) / Z.abs (b * c)) in *.
  clearbody m k. set (rr := canon _ _) in *; clearbody rr.
  q_unfold. cbn [fst snd] in V.
  assert (Hbc : Z.abs (b * c) = b * Z.abs c) by (rewrite Z.abs_mul; lia).
  assert (Hs : Z.sgn (b * c) = Z.sgn c) by (rewrite Z.sgn_mul; lia).
  assert (c * Z.sgn c = Z.abs c) by lia. rewrite Hs.
  split; [|split].
  - nia.
  - nia.
  - apply Z.mul_lt_mono_pos_r with (p := b); [lia|]. nia.
Qed.

Example divreme_spec_ex : divreme_spec (-7, 2) (-1, 3) = Ok (11, (1, 6)).
Proof. reflexivity. Qed.
Example un_spec_ex : un_spec UInv (-6, 8) = Ok (-4, 3) /\ un_spec UInv (0, 3) = Panic DivideBy0.
Proof. split; reflexivity. Qed.
Example pow_spec_ex : pow_spec (-2, 3) 3 = (-8, 27) /\ pow_spec (0, 1) 0 = (1, 1).
Proof. split; reflexivity. Qed.
