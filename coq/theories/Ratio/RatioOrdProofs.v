(** C05, rational part: repr_eq / repr_cmp (bit-length filters + cross multiplication) of
    rational/src/cmp.rs decide equality / order of the values for all numerators and positive denominators
    (no reduction needed: this is what Relaxed relies on); RBig's structural == and Hash are sound on
    reduced fractions. *)
From Dashu Require Import Base.Prelude Ratio.RatioOrdModel.
From Coq Require Import Znumtheory.
Open Scope Z_scope.

Lemma bit_len_bounds a : a <> 0 -> 2 ^ (bit_len a - 1) <= Z.abs a < 2 ^ bit_len a.
Proof.
  intros Ha. unfold bit_len. destruct (Z.eqb_spec a 0); [contradiction|].
  replace (Z.log2 (Z.abs a) + 1 - 1) with (Z.log2 (Z.abs a)) by lia.
  replace (Z.log2 (Z.abs a) + 1) with (Z.succ (Z.log2 (Z.abs a))) by lia.
  apply Z.log2_spec. lia.
Qed.

Lemma bit_len_pos a : a <> 0 -> 1 <= bit_len a.
Proof. intros Ha. unfold bit_len. destruct (Z.eqb_spec a 0); [contradiction|]. pose proof (Z.log2_nonneg (Z.abs a)). lia. Qed.

(** |a| * |b| lies between 2^(la+lb-2) and 2^(la+lb) *)
Lemma product_bounds a b : a <> 0 -> b <> 0 ->
  2 ^ (bit_len a + bit_len b - 2) <= Z.abs a * Z.abs b < 2 ^ (bit_len a + bit_len b).
Proof.
  intros Ha Hb. pose proof (bit_len_bounds a Ha) as [La Ua]. pose proof (bit_len_bounds b Hb) as [Lb Ub].
  pose proof (bit_len_pos a Ha). pose proof (bit_len_pos b Hb).
  replace (bit_len a + bit_len b - 2) with ((bit_len a - 1) + (bit_len b - 1)) by lia.
  rewrite !Z.pow_add_r by lia.
  assert (0 < 2 ^ (bit_len a - 1)) by (apply Z.pow_pos_nonneg; lia).
  assert (0 < 2 ^ (bit_len b - 1)) by (apply Z.pow_pos_nonneg; lia).
  split.
  - apply Z.mul_le_mono_nonneg; lia.
  - apply Z.mul_lt_mono_nonneg; lia.
Qed.

(** the filter of repr_cmp: a gap of two in the bit-length difference decides the order of magnitudes *)
Lemma bits_filter n1 d1 n2 d2 : n1 <> 0 -> n2 <> 0 -> 0 < d1 -> 0 < d2 ->
  bit_len n1 - bit_len d1 > bit_len n2 - bit_len d2 + 1 ->
  Z.abs n2 * d1 < Z.abs n1 * d2.
Proof.
  intros Hn1 Hn2 Hd1 Hd2 Hgap.
  pose proof (product_bounds n1 d2 Hn1 ltac:(lia)) as [L1 _].
  pose proof (product_bounds n2 d1 Hn2 ltac:(lia)) as [_ U2].
  rewrite (Z.abs_eq d2) in L1 by lia. rewrite (Z.abs_eq d1) in U2 by lia.
  assert (2 ^ (bit_len n2 + bit_len d1) <= 2 ^ (bit_len n1 + bit_len d2 - 2)) by (apply Z.pow_le_mono_r; lia).
  lia.
Qed.

Lemma sign_of_pos x : sign_of x = Positive <-> 0 <= x.
Proof. unfold sign_of. destruct (Z.ltb_spec x 0); split; intros; try lia; try reflexivity; discriminate. Qed.
Lemma sign_of_neg x : sign_of x = Negative <-> x < 0.
Proof. unfold sign_of. destruct (Z.ltb_spec x 0); split; intros; try lia; try reflexivity; discriminate. Qed.

Lemma cmp_gt a b : b < a -> (a ?= b) = Gt. Proof. intros. now apply Z.compare_gt_iff. Qed.
Lemma cmp_lt a b : a < b -> (a ?= b) = Lt. Proof. intros. now apply Z.compare_lt_iff. Qed.

(** repr_cmp::<false> is the order of the values *)
Theorem q_repr_cmp_correct l r : 0 < qden l -> 0 < qden r -> q_repr_cmp false l r = qcmp_spec l r.
Proof.
  destruct l as [n1 d1], r as [n2 d2]. cbn [qden qnum]. intros Hd1 Hd2.
  unfold q_repr_cmp, qcmp_spec. cbn [qden qnum].
  destruct (sign_of n1) eqn:S1, (sign_of n2) eqn:S2;
    try apply sign_of_pos in S1; try apply sign_of_neg in S1; try apply sign_of_pos in S2; try apply sign_of_neg in S2.
  4: { (* both negative *)
    destruct ((d1 =? 1) && (d2 =? 1)) eqn:E1.
    { apply andb_prop in E1. destruct E1 as [E1 E2]. apply Z.eqb_eq in E1, E2. subst. f_equal; lia. }
    destruct (Z.eqb_spec n1 0); [lia|]. destruct (Z.eqb_spec n2 0); [lia|].
    destruct (Z.gtb_spec (bit_len n1 - bit_len d1) (bit_len n2 - bit_len d2 + 1)) as [G|G].
    { pose proof (bits_filter n1 d1 n2 d2 n n0 Hd1 Hd2 ltac:(lia)). symmetry. apply cmp_lt. nia. }
    destruct (Z.ltb_spec (bit_len n2 - bit_len d2) (bit_len n1 - bit_len d1 - 1)); [lia | reflexivity]. }
  - (* both non-negative *)
    destruct ((d1 =? 1) && (d2 =? 1)) eqn:E1.
    { apply andb_prop in E1. destruct E1 as [E1 E2]. apply Z.eqb_eq in E1, E2. subst. f_equal; lia. }
    destruct (Z.eqb_spec n1 0), (Z.eqb_spec n2 0); subst.
    + reflexivity.
    + symmetry. apply cmp_lt. nia.
    + symmetry. apply cmp_gt. nia.
    + destruct (Z.gtb_spec (bit_len n1 - bit_len d1) (bit_len n2 - bit_len d2 + 1)) as [G|G].
      { pose proof (bits_filter n1 d1 n2 d2 n n0 Hd1 Hd2 ltac:(lia)). symmetry. apply cmp_gt. nia. }
      destruct (Z.ltb_spec (bit_len n2 - bit_len d2) (bit_len n1 - bit_len d1 - 1)); [lia | reflexivity].
  - symmetry. apply cmp_gt. nia.
  - symmetry. apply cmp_lt. nia.
Qed.

(** repr_cmp::<true> is the order of the absolute values *)
Theorem q_repr_cmp_abs_correct l r : 0 < qden l -> 0 < qden r ->
  q_repr_cmp true l r = qcmp_spec (qabs l) (qabs r).
Proof.
  destruct l as [n1 d1], r as [n2 d2]. cbn [qden qnum]. intros Hd1 Hd2.
  unfold q_repr_cmp, qcmp_spec, qabs. cbn [qden qnum].
  destruct ((d1 =? 1) && (d2 =? 1)) eqn:E1.
  { apply andb_prop in E1. destruct E1 as [E1 E2]. apply Z.eqb_eq in E1, E2. subst. f_equal; lia. }
  destruct (Z.eqb_spec n1 0), (Z.eqb_spec n2 0); subst.
  - reflexivity.
  - symmetry. apply cmp_lt. cbn [Z.abs]. nia.
  - symmetry. apply cmp_gt. cbn [Z.abs]. nia.
  - destruct (Z.gtb_spec (bit_len n1 - bit_len d1) (bit_len n2 - bit_len d2 + 1)) as [G|G].
    { pose proof (bits_filter n1 d1 n2 d2 n n0 Hd1 Hd2 ltac:(lia)). symmetry. apply cmp_gt. lia. }
    destruct (Z.ltb_spec (bit_len n2 - bit_len d2) (bit_len n1 - bit_len d1 - 1)); [lia|].
    rewrite !Z.abs_mul, (Z.abs_eq d1), (Z.abs_eq d2) by lia. reflexivity.
Qed.

(** the second bit-size branch of repr_cmp is dead code (it repeats the first condition) *)
Lemma q_repr_cmp_second_filter_dead lb rb : (lb >? rb + 1) = false -> (rb <? lb - 1) = false.
Proof. intros H. destruct (Z.gtb_spec lb (rb + 1)); [discriminate|]. apply Z.ltb_ge. lia. Qed.

(** the filter of repr_eq: equal products have bit-length sums at most one apart *)
Lemma eq_filter n1 d1 n2 d2 : n1 <> 0 -> n2 <> 0 -> 0 < d1 -> 0 < d2 ->
  Z.abs n1 * d2 = Z.abs n2 * d1 ->
  Z.abs (bit_len n1 + bit_len d2 - (bit_len n2 + bit_len d1)) <= 1.
Proof.
  intros Hn1 Hn2 Hd1 Hd2 E.
  pose proof (product_bounds n1 d2 Hn1 ltac:(lia)) as [L1 U1].
  pose proof (product_bounds n2 d1 Hn2 ltac:(lia)) as [L2 U2].
  rewrite (Z.abs_eq d2) in * by lia. rewrite (Z.abs_eq d1) in * by lia.
  destruct (Z.le_gt_cases (bit_len n1 + bit_len d2) (bit_len n2 + bit_len d1 + 1)) as [A|A];
  destruct (Z.le_gt_cases (bit_len n2 + bit_len d1) (bit_len n1 + bit_len d2 + 1)) as [A'|A']; try lia.
  - assert (2 ^ (bit_len n1 + bit_len d2) <= 2 ^ (bit_len n2 + bit_len d1 - 2)) by (apply Z.pow_le_mono_r; lia). lia.
  - assert (2 ^ (bit_len n2 + bit_len d1) <= 2 ^ (bit_len n1 + bit_len d2 - 2)) by (apply Z.pow_le_mono_r; lia). lia.
Qed.

Theorem q_repr_eq_correct a b : 0 < qden a -> 0 < qden b -> q_repr_eq false a b = qeq_spec a b.
Proof.
  destruct a as [n1 d1], b as [n2 d2]. cbn [qden qnum]. intros Hd1 Hd2.
  unfold q_repr_eq, qeq_spec. cbn [qden qnum negb andb].
  destruct (sign_of n1) eqn:S1, (sign_of n2) eqn:S2; cbn [sgn_eqb negb];
    try apply sign_of_pos in S1; try apply sign_of_neg in S1; try apply sign_of_pos in S2; try apply sign_of_neg in S2.
  2: { symmetry. apply Z.eqb_neq. nia. }
  2: { symmetry. apply Z.eqb_neq. nia. }
  all: destruct (Z.eqb_spec n1 0) as [->|N1];
    [ destruct (Z.eqb_spec n2 0) as [->|N2]; symmetry; [apply Z.eqb_eq; lia | apply Z.eqb_neq; nia] |].
  all: destruct (Z.gtb_spec (Z.abs (bit_len n1 + bit_len d2 - (bit_len n2 + bit_len d1))) 1) as [G|G].
  all: try (symmetry; apply Z.eqb_neq; intros E;
            destruct (Z.eq_dec n2 0) as [->|N2]; [nia|];
            pose proof (eq_filter n1 d1 n2 d2 N1 N2 Hd1 Hd2 ltac:(nia)); lia).
  all: destruct (Z.eqb_spec (n1 * d2) (n2 * d1)) as [E|E];
       [ rewrite E; apply Z.eqb_refl | apply Z.eqb_neq; nia ].
Qed.

Theorem q_repr_eq_abs_correct a b : 0 < qden a -> 0 < qden b ->
  q_repr_eq true a b = qeq_spec (qabs a) (qabs b).
Proof.
  destruct a as [n1 d1], b as [n2 d2]. cbn [qden qnum]. intros Hd1 Hd2.
  unfold q_repr_eq, qeq_spec, qabs. cbn [qden qnum negb andb].
  destruct (Z.eqb_spec n1 0) as [->|N1].
  - cbn [Z.abs]. destruct (Z.eqb_spec n2 0) as [->|N2]; symmetry; [apply Z.eqb_eq; lia | apply Z.eqb_neq; nia].
  - destruct (Z.gtb_spec (Z.abs (bit_len n1 + bit_len d2 - (bit_len n2 + bit_len d1))) 1) as [G|G].
    + symmetry. apply Z.eqb_neq. intros E.
      destruct (Z.eq_dec n2 0) as [->|N2]; [cbn [Z.abs] in E; nia|].
      pose proof (eq_filter n1 d1 n2 d2 N1 N2 Hd1 Hd2 E). lia.
    + rewrite !Z.abs_mul, (Z.abs_eq d1), (Z.abs_eq d2) by lia. reflexivity.
Qed.

(** == of Relaxed holds exactly when cmp says Equal *)
Theorem q_cmp_eq_iff_eq a b : 0 < qden a -> 0 < qden b ->
  (q_repr_cmp false a b = Eq <-> q_repr_eq false a b = true).
Proof.
  intros Ha Hb. rewrite q_repr_cmp_correct, q_repr_eq_correct by assumption.
  unfold qcmp_spec, qeq_spec. rewrite Z.compare_eq_iff, Z.eqb_eq. reflexivity.
Qed.

(** the spec is the order of the rational numbers n/d *)
From Coq Require Import QArith.
Open Scope Z_scope.
Lemma qcmp_spec_Q a b : 0 < qden a -> 0 < qden b ->
  qcmp_spec a b = Qcompare (Qmake (qnum a) (Z.to_pos (qden a))) (Qmake (qnum b) (Z.to_pos (qden b))).
Proof.
  intros Ha Hb. unfold qcmp_spec, Qcompare. cbn [Qnum Qden]. rewrite !Z2Pos.id by assumption. reflexivity.
Qed.

(* ---------------------------------------------------------------- RBig: structural == and Hash *)

Lemma reducedb_ok a : reducedb a = true <-> reduced a.
Proof. unfold reducedb, reduced. rewrite andb_true_iff, Z.ltb_lt, Z.eqb_eq. reflexivity. Qed.

(** a value has one reduced representation *)
Lemma reduced_unique a b : reduced a -> reduced b -> qnum a * qden b = qnum b * qden a ->
  qnum a = qnum b /\ qden a = qden b.
Proof.
  destruct a as [n1 d1], b as [n2 d2]. unfold reduced. cbn [qnum qden]. intros [Hd1 G1] [Hd2 G2] E.
  assert (d1 = d2) as ->.
  { apply Z.divide_antisym_nonneg; try lia.
    - apply Z.gauss with n1; [exists n2; lia | rewrite Z.gcd_comm; exact G1].
    - apply Z.gauss with n2; [exists n1; lia | rewrite Z.gcd_comm; exact G2]. }
  split; [nia | reflexivity].
Qed.

Theorem rbig_eq_correct a b : reduced a -> reduced b -> rbig_eq a b = qeq_spec a b.
Proof.
  intros Ra Rb. unfold rbig_eq, qeq_spec.
  destruct (Z.eqb_spec (qnum a * qden b) (qnum b * qden a)) as [E|E].
  - destruct (reduced_unique a b Ra Rb E) as [-> ->]. now rewrite !Z.eqb_refl.
  - destruct (Z.eqb_spec (qnum a) (qnum b)) as [E1|E1], (Z.eqb_spec (qden a) (qden b)) as [E2|E2];
      try reflexivity. exfalso. apply E. rewrite E1, E2. reflexivity.
Qed.

Theorem rbig_abs_eq_correct a b : reduced a -> reduced b -> rbig_abs_eq a b = qeq_spec (qabs a) (qabs b).
Proof.
  intros Ra Rb.
  assert (reduced (qabs a)) as Ra' by (destruct Ra; split; cbn [qabs qnum qden]; [assumption | now rewrite Z.gcd_abs_l]).
  assert (reduced (qabs b)) as Rb' by (destruct Rb; split; cbn [qabs qnum qden]; [assumption | now rewrite Z.gcd_abs_l]).
  rewrite <- (rbig_eq_correct _ _ Ra' Rb'). reflexivity.
Qed.

Theorem rbig_hash_correct a b : reduced a -> reduced b -> qeq_spec a b = true ->
  rbig_hash_input a = rbig_hash_input b.
Proof.
  intros Ra Rb E. apply Z.eqb_eq in E. destruct (reduced_unique a b Ra Rb E) as [E1 E2].
  unfold rbig_hash_input. now rewrite E1, E2.
Qed.

(** RBig: cmp (through repr_cmp) says Equal exactly when the structural == holds *)
Theorem rbig_cmp_eq_iff_eq a b : reduced a -> reduced b ->
  (q_repr_cmp false a b = Eq <-> rbig_eq a b = true).
Proof.
  intros Ra Rb. rewrite q_repr_cmp_correct by (apply Ra || apply Rb). rewrite rbig_eq_correct by assumption.
  unfold qcmp_spec, qeq_spec. rewrite Z.compare_eq_iff, Z.eqb_eq. reflexivity.
Qed.

(** non-vacuity: an unreduced Relaxed pair, a filter hit, a reduced pair *)
Example q_examples :
  q_repr_eq false (QR 6 4) (QR 27 18) = true /\ q_repr_cmp false (QR 6 4) (QR 27 18) = Eq /\
  q_repr_cmp false (QR (-1) 1000) (QR (-1000) 1) = Gt /\ rbig_eq (QR 3 2) (QR 3 2) = true /\ reducedb (QR 3 2) = true.
Proof. vm_compute. repeat split. Qed.
