(** C04: [RBig::from_parts_const] - the naive const gcd loop: invariant, termination (fuel bound), result. *)
From Coq Require Import Znumtheory.
From Dashu Require Import Base.Prelude Ratio.RatArithModel Ratio.RatArithCanon Ratio.RatArithProofs.
Open Scope Z_scope.

Lemma cgcd_loop_inv fuel : forall y r y' r', 0 <= r < y -> cgcd_loop fuel y r = Some (y', r') ->
  Z.gcd y' r' = Z.gcd y r /\ 0 <= r' <= 1 /\ r' < y'.
Proof.
  induction fuel as [|f IH]; intros y r y' r' Hr H; cbn [cgcd_loop] in H; [discriminate|].
  destruct (Z.ltb_spec 1 r) as [H1|H1].
  - pose proof (Z.mod_pos_bound y r ltac:(lia)) as Bm.
    destruct (IH _ _ _ _ Bm H) as (G & B1 & B2). split; [|split; assumption].
    rewrite G. rewrite Z.gcd_comm, Z.gcd_mod by lia. apply Z.gcd_comm.
  - injection H as <- <-. repeat split; lia.
Qed.

(** the remainder at least halves every two iterations: 2 log2 r + 1 iterations suffice *)
Lemma cgcd_loop_fuel k : forall y r, 0 <= r < y -> r < 2 ^ Z.of_nat k -> cgcd_loop (S (k + k)) y r <> None.
Proof.
  induction k as [|k IH]; intros y r Hr Hk.
  - cbn [Z.of_nat] in Hk. rewrite Z.pow_0_r in Hk. cbn [Nat.add cgcd_loop].
    destruct (Z.ltb_spec 1 r); [lia | discriminate].
  - rewrite Nat.add_succ_r. cbn [Nat.add]. cbn [cgcd_loop].
    destruct (Z.ltb_spec 1 r) as [H1|H1]; [|discriminate].
    pose proof (Z.mod_pos_bound y r ltac:(lia)) as B1. set (r1 := y mod r) in *.
    destruct (Z.ltb_spec 1 r1) as [H2|H2]; [|discriminate].
    pose proof (Z.mod_pos_bound r r1 ltac:(lia)) as B2.
    apply IH; [exact B2|].
    pose proof (Z.div_mod r r1 ltac:(lia)) as E.
    assert (1 <= r / r1) by (apply Z.div_le_lower_bound; lia).
    rewrite Nat2Z.inj_succ, Z.pow_succ_r in Hk by lia. nia.
Qed.

Lemma cgcd_fuel_enough n d : 0 < d -> cgcd_loop (cgcd_fuel d) d (n mod d) <> None.
Proof.
  intros Hd. unfold cgcd_fuel.
  replace (2 * Z.to_nat (Z.log2 d + 1))%nat with (Z.to_nat (Z.log2 d + 1) + Z.to_nat (Z.log2 d + 1))%nat by lia.
  pose proof (Z.mod_pos_bound n d Hd) as Bm. pose proof (Z.log2_nonneg d) as Hl.
  apply cgcd_loop_fuel; [exact Bm|]. rewrite Z2Nat.id by lia.
  pose proof (Z.log2_spec d Hd) as S. replace (Z.log2 d + 1) with (Z.succ (Z.log2 d)) by lia. lia.
Qed.

Lemma signed_mul s m : signed s m = sgnz s * m.
Proof. reflexivity. Qed.

Lemma cop_sgnz_mul s a b : Z.gcd a b = 1 -> Z.gcd (sgnz s * a) b = 1.
Proof.
  intros H. destruct s; cbn [sgnz]; [rewrite Z.mul_1_l; exact H|].
  replace (-1 * a) with (- a) by ring. apply cop_opp_l. exact H.
Qed.

(** never out of fuel, and the result is the canonical fraction; [n], [d] are DoubleWords (any size here) *)
Theorem from_parts_const_asis_spec s n d : 0 <= n -> 0 <= d ->
  from_parts_const_asis s n d = from_parts_const_spec s n d.
Proof.
  intros Hn Hd. unfold from_parts_const_asis, from_parts_const_spec.
  destruct (Z.eqb_spec d 0) as [|Hd0]; [reflexivity|].
  destruct (Z.eqb_spec n 0) as [->|Hn0].
  { rewrite Z.mul_0_r, canon_zero by lia. reflexivity. }
  destruct (Z.ltb_spec 1 n) as [H1n|H1n]; destruct (Z.ltb_spec 1 d) as [H1d|H1d]; cbn [andb].
  - pose proof (cgcd_fuel_enough n d ltac:(lia)) as HF.
    destruct (cgcd_loop (cgcd_fuel d) d (n mod d)) as [[y r]|] eqn:EL; [|contradiction].
    destruct (cgcd_loop_inv _ _ _ _ _ (Z.mod_pos_bound n d ltac:(lia)) EL) as (G & B1 & B2).
    rewrite (Z.gcd_comm d (n mod d)), Z.gcd_mod, (Z.gcd_comm d n) in G by lia.
    destruct (Z.eqb_spec r 0) as [->|Hr].
    + rewrite Z.gcd_0_r, Z.abs_eq in G by lia. subst y. f_equal.
      destruct (gcd_split n d ltac:(lia)) as (g & n1 & d1 & Eg & Hg & En & Ed & H1).
      rewrite Eg. clear Eg. subst n d. rewrite !div_mul_l by lia. rewrite signed_mul.
      assert (0 < d1) by nia.
      apply Inv_is_canon; [nia | | cbn [fst snd]; ring].
      split; cbn [fst snd]; [assumption | apply cop_sgnz_mul; exact H1].
    + assert (r = 1) by lia. subst r. rewrite Z.gcd_1_r in G. f_equal. rewrite signed_mul.
      apply Inv_canon_self; [lia | apply cop_sgnz_mul; congruence].
  - assert (d = 1) by lia. subst d. f_equal. rewrite signed_mul.
    apply Inv_canon_self; [lia | apply Z.gcd_1_r].
  - assert (n = 1) by lia. subst n. f_equal. rewrite signed_mul.
    apply Inv_canon_self; [lia | apply cop_sgnz_mul; apply Z.gcd_1_l].
  - assert (n = 1) by lia. subst n. f_equal. rewrite signed_mul.
    apply Inv_canon_self; [lia | apply cop_sgnz_mul; apply Z.gcd_1_l].
Qed.

Example from_parts_const_ex : from_parts_const_asis Negative 6 4 = Ok (-3, 2).
Proof. reflexivity. Qed.
