(** C18 - the findings of the float side: executable class predicates (extracted, used by the
    oracle to decide whether an input lies in a listed class) and the refutations
    "as-is model <> specification" at the recorded witnesses.  The witnesses are the ones of
    findings/C18.json; each was first reproduced against the real code by the harness. *)
From Dashu Require Import Base.Prelude Ratio.BinIter Float.RoundSpec Ratio.SimplestSpec Ratio.SimplestModel.
Open Scope Z_scope.

(** F04 (repaired; class of the pinned body): the unbiased exponent of the last mantissa bit is positive (ulp >= 2) *)
Definition known_ieee (mb eb bits : Z) : bool :=
  let E := (bits / 2 ^ mb) mod 2 ^ eb in
  0 <? (if E =? 0 then 1 else E) - (2 ^ (eb - 1) - 1) - mb.

Definition is_half (md : mode) : bool := match md with MHalfEven | MHalfAway => true | _ => false end.
Definition calls_ulp (md : mode) : bool := match md with MAway | MUp | MDown => true | _ => false end.
Definition is_halfeven (md : mode) : bool := match md with MHalfEven => true | _ => false end.

(** F06 is open; [sig] is the normalised significand.  F05 (known_halfeven), F07 (known_powbase) and
    F08 (known_unlimited) are repaired: their class predicates are kept only to state the refutations
    of the earlier bodies and are no longer part of [known_float]. *)
Definition known_unlimited (md : mode) (p : Z) : bool := (p =? 0) && calls_ulp md.
Definition known_oddbase (B : Z) (md : mode) (p : Z) : bool := negb (p =? 0) && is_half md && Z.odd B.
Definition known_halfeven (md : mode) (p : Z) : bool := negb (p =? 0) && is_halfeven md.
Definition known_powbase (p sig : Z) : bool := negb (p =? 0) && (Z.abs sig =? 1).

Definition known_float (B : Z) (md : mode) (p sig : Z) : bool := known_oddbase B md p.

(** F04 (repaired)  from_f32 4c000000 (2^25): the pinned macro's interval is f +- 1/2, the true one
    (2^25 - 1, 2^25 + 2); the repaired macro computes the true one *)
Lemma simplest_from_ieee_asis_refuted :
  known_ieee 23 8 1275068416 = true /\
  simplest_from_ieee_pinned 23 8 1275068416 = Ok (Some (33554432, 1)) /\
  simplest_from_ieee_asis 23 8 1275068416 = Ok (Some (33554431, 1)) /\
  simplest_from_ieee_spec 23 8 1275068416 = Ok (Some (33554431, 1)).
Proof. repeat split; vm_compute; reflexivity. Qed.

(** F05 (repaired)  from_float 2 HalfEven 3 5 1  (101b * 2 = 10 with three binary digits: the
    significand is odd, so the ties 9 and 11 round to the even neighbours 8 and 12 and the preimage
    of 10 is the open interval (9, 11); the pinned code tested the parity of the significand with the
    wrong polarity, included the end points and answered 9; the repaired code answers 10) *)
Lemma simplest_from_float_halfeven_refuted :
  fnormalize 2 5 1 = (5, 1) /\ known_halfeven MHalfEven 3 = true /\ known_float 2 MHalfEven 3 5 = false /\
  simplest_from_float_pinned 2 MHalfEven 3 5 1 = Ok (Some (9, 1)) /\
  simplest_from_float_asis 2 MHalfEven 3 5 1 = Ok (Some (10, 1)) /\
  simplest_from_float_spec 2 MHalfEven 3 5 1 = Ok (Some (10, 1)) /\
  round_to_prec 2 MHalfEven 3 (9, 1) = (8, 1).
Proof. repeat split; vm_compute; reflexivity. Qed.

(** F06  from_float 3 HalfEven 1 1 -1  (1/3 with one ternary digit) *)
Lemma simplest_from_float_oddbase_refuted :
  known_float 3 MHalfEven 1 1 = true /\
  simplest_from_float_asis 3 MHalfEven 1 1 (-1) = Ok (Some (1, 2)) /\
  simplest_from_float_spec 3 MHalfEven 1 1 (-1) = Ok (Some (1, 3)).
Proof. repeat split; vm_compute; reflexivity. Qed.

(** F07 (repaired)  from_float 3 Away 1 1 1  (3 with one ternary digit, rounding away from zero: only
    (2, 3] rounds to 3; the code before the repair took (0, 3] and answered 1, the repaired
    error_bounds lowers the bound on the side of zero of a power of the base by one digit) *)
Lemma simplest_from_float_powbase_refuted :
  known_powbase 1 1 = true /\ known_float 3 MAway 1 1 = false /\
  simplest_from_float_r2 3 MAway 1 1 1 = Ok (Some (1, 1)) /\
  simplest_from_float_asis 3 MAway 1 1 1 = Ok (Some (3, 1)) /\
  simplest_from_float_spec 3 MAway 1 1 1 = Ok (Some (3, 1)).
Proof. repeat split; vm_compute; reflexivity. Qed.

(** F07, half modes: 10^1 with one decimal digit, HalfAway: the preimage is [9.5, 15); the code before
    the repair took [5, 15) and answered 5, which rounds to 5 *)
Lemma simplest_from_float_powbase_half_refuted :
  simplest_from_float_r2 10 MHalfAway 1 1 1 = Ok (Some (5, 1)) /\
  simplest_from_float_asis 10 MHalfAway 1 1 1 = Ok (Some (10, 1)) /\
  simplest_from_float_spec 10 MHalfAway 1 1 1 = Ok (Some (10, 1)) /\
  round_to_prec 10 MHalfAway 1 (5, 1) = (5, 1).
Proof. repeat split; vm_compute; reflexivity. Qed.

(** F08 (repaired)  from_float a Away 0 7b -1  (12.3 with unlimited precision) *)
Lemma simplest_from_float_unlimited_refuted :
  known_unlimited MAway 0 = true /\ known_float 10 MAway 0 123 = false /\
  simplest_from_float_pinned 10 MAway 0 123 (-1) = Panic UnlimitedPrecision /\
  simplest_from_float_asis 10 MAway 0 123 (-1) = Ok (Some (123, 10)) /\
  simplest_from_float_spec 10 MAway 0 123 (-1) = Ok (Some (123, 10)).
Proof. repeat split; vm_compute; reflexivity. Qed.

(** F09 (repaired)  from_float a Away 0 7b -1  (12.3 with unlimited precision): between the repair of the
    zero shortcuts of FBig + and - (they round the surviving operand into the result precision) and
    the repair of simplest_from_float, the bounds f - 0 and f + 0 were formed with the precision 1, so
    the float itself was rounded to ONE digit under its mode; [simplest_from_float_zero_shortcut] is
    that state of the code at unlimited precision (both end points equal, simplest_in returns them) *)
Definition simplest_from_float_zero_shortcut (B : Z) (md : mode) (sig ex : Z) : result (option frac) :=
  Ok (Some (round_to_prec B md 1 (scaled B sig ex 1))).

Lemma simplest_from_float_unlimited_rounded_refuted :
  simplest_from_float_zero_shortcut 10 MAway 123 (-1) = Ok (Some (20, 1)) /\
  simplest_from_float_asis 10 MAway 0 123 (-1) = Ok (Some (123, 10)) /\
  simplest_from_float_spec 10 MAway 0 123 (-1) = Ok (Some (123, 10)).
Proof. repeat split; vm_compute; reflexivity. Qed.
