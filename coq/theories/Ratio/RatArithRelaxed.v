(** C04: the Relaxed flavour.  Every Relaxed operation returns a positive denominator and the same value
    as the specification (hence as RBig) - and the specification only depends on the operands' values. *)
From Coq Require Import Znumtheory.
From Dashu Require Import Base.Prelude Int.BitsSpec Ratio.RatArithModel Ratio.RatArithCanon Ratio.RatArithProofs.
Open Scope Z_scope.

(** agreement of a Relaxed result with a reference result *)
Definition res_veq (r' r : result rat) : Prop :=
  match r', r with
  | Ok a, Ok b => RInv a /\ veq a b
  | Panic p, Panic q => p = q
  | _, _ => False
  end.

Lemma veq_refl x : veq x x.
Proof. reflexivity. Qed.
Lemma veq_sym x y : veq x y -> veq y x.
Proof. unfold veq. intros H. symmetry. exact H. Qed.
Lemma veq_trans x y z : snd y <> 0 -> veq x y -> veq y z -> veq x z.
Proof.
  destruct x as [a b], y as [c d], z as [e f]. unfold veq. cbn [fst snd]. intros Hd H1 H2.
  apply Z.mul_reg_r with (p := d); [exact Hd|].
  replace (a * f * d) with ((a * d) * f) by ring. rewrite H1.
  replace (c * b * f) with ((c * f) * b) by ring. rewrite H2. ring.
Qed.

(* ---------------------------------------------------------------- trailing zeros, reduce2 *)
Lemma tz_pos_divides p : (2 ^ tz_pos p | Zpos p).
Proof.
  induction p as [p IH|p IH|]; cbn [tz_pos].
  - rewrite Z.pow_0_r. apply Z.divide_1_l.
  - pose proof (tz_pos_nonneg p). rewrite Z.pow_add_r, Z.pow_1_r by lia.
    change (Zpos p~0) with (2 * Zpos p). apply Z.mul_divide_mono_l. exact IH.
  - rewrite Z.pow_0_r. apply Z.divide_1_l.
Qed.

Lemma tz_spec_divides n k : trailing_zeros_spec n = Some k -> 0 <= k /\ (2 ^ k | n).
Proof.
  destruct n as [|p|p]; cbn [trailing_zeros_spec]; [discriminate| |]; intros H; injection H as <-.
  - split; [apply tz_pos_nonneg | apply tz_pos_divides].
  - split; [apply tz_pos_nonneg|]. change (Zneg p) with (- Zpos p). apply Z.divide_opp_r, tz_pos_divides.
Qed.

Lemma pow2_le_divides z k n : 0 <= z <= k -> (2 ^ k | n) -> (2 ^ z | n).
Proof.
  intros Hz H. apply Z.divide_trans with (m := 2 ^ k); [|exact H].
  exists (2 ^ (k - z)). rewrite <- Z.pow_add_r by lia. f_equal. lia.
Qed.

Lemma shiftr_exact n z : 0 <= z -> (2 ^ z | n) -> 2 ^ z * Z.shiftr n z = n.
Proof.
  intros Hz H. rewrite Z.shiftr_div_pow2 by exact Hz. apply div_exact_mul; [|exact H].
  pose proof (Z.pow_pos_nonneg 2 z). lia.
Qed.

Theorem reduce2_asis_ok n d : 0 < d -> exists r, reduce2_asis (n, d) = Ok r /\ RInv r /\ veq r (n, d).
Proof.
  intros Hd. unfold reduce2_asis. destruct (Z.eqb_spec n 0) as [->|Hn].
  { exists (0, 1). repeat split; unfold RInv, veq; cbn [fst snd]; lia. }
  destruct (trailing_zeros_spec d) as [dz|] eqn:Ed; [|destruct d; [lia|discriminate|discriminate]].
  destruct (trailing_zeros_spec n) as [nz|] eqn:En; [|destruct n; [lia|discriminate|discriminate]].
  destruct (tz_spec_divides _ _ Ed) as [Hdz Dd]. destruct (tz_spec_divides _ _ En) as [Hnz Dn].
  destruct (Z.ltb_spec 0 (Z.min nz dz)) as [Hz|Hz].
  - set (z := Z.min nz dz) in *. eexists. split; [reflexivity|].
    pose proof (shiftr_exact n z ltac:(lia) (pow2_le_divides z nz n ltac:(lia) Dn)) as E1.
    pose proof (shiftr_exact d z ltac:(lia) (pow2_le_divides z dz d ltac:(lia) Dd)) as E2.
    pose proof (Z.pow_pos_nonneg 2 z ltac:(lia) ltac:(lia)) as Hp.
    unfold RInv, veq. cbn [fst snd]. split; nia.
  - eexists. split; [reflexivity|]. unfold RInv, veq. cbn [fst snd]. split; lia.
Qed.

(** [Relaxed::from_parts] agrees with the canonical fraction *)
Theorem xfrom_parts_canon N D : 0 < D -> res_veq (xfrom_parts_asis N D) (Ok (canon N D)).
Proof.
  intros HD. unfold xfrom_parts_asis. destruct (Z.eqb_spec D 0); [lia|].
  destruct (reduce2_asis_ok N D HD) as (r & -> & HR & HV). cbn [res_veq]. split; [exact HR|].
  apply veq_trans with (y := (N, D)); [cbn [snd]; lia | exact HV | apply veq_sym, canon_veq; exact HD].
Qed.

Theorem xfrom_parts_asis_spec n d : 0 <= d -> res_veq (xfrom_parts_asis n d) (from_parts_spec n d).
Proof.
  intros Hd. unfold from_parts_spec. destruct (Z.eqb_spec d 0) as [->|].
  - reflexivity.
  - apply xfrom_parts_canon. lia.
Qed.

Theorem xfrom_parts_signed_asis_spec n d : res_veq (xfrom_parts_signed_asis n d) (from_parts_signed_spec n d).
Proof.
  unfold xfrom_parts_signed_asis, from_parts_signed_spec. destruct (Z.eqb_spec d 0) as [->|Hd].
  - reflexivity.
  - rewrite sgnz_sign_of by exact Hd. apply xfrom_parts_canon. lia.
Qed.

Theorem xparse_asis_spec n d : res_veq (xparse_asis n d) (parse_spec n d) \/ (d = 0 /\ xparse_asis n d = Err 0 /\ parse_spec n d = Err 0).
Proof.
  unfold xparse_asis, parse_spec. destruct (Z.eqb_spec d 0) as [->|Hd]; [right; auto|left].
  rewrite sgnz_sign_of by exact Hd.
  pose proof (xfrom_parts_canon (n * Z.sgn d) (Z.abs d) ltac:(lia)) as H. unfold xfrom_parts_asis in H.
  destruct (Z.eqb_spec (Z.abs d) 0); [lia | exact H].
Qed.

(* ---------------------------------------------------------------- Relaxed operations against the specification *)
Theorem xbin_asis_spec o x y : RInv x -> RInv y -> res_veq (xbin_asis o x y) (bin_spec o x y).
Proof.
  destruct x as [a b], y as [c d]. unfold RInv. cbn [snd]. intros Hb Hd.
  destruct o; cbn [xbin_asis bin_spec].
  - apply xfrom_parts_canon. nia.
  - apply xfrom_parts_canon. nia.
  - apply xfrom_parts_canon. nia.
  - destruct (Z.eqb_spec c 0) as [|Hc]; [reflexivity|]. rewrite sgnz_sign_of by exact Hc.
    apply xfrom_parts_canon. nia.
  - destruct (Z.eqb_spec c 0) as [->|Hc].
    + cbn [Z.abs Z.mul Z.eqb]. reflexivity.
    + destruct (Z.eqb_spec (Z.abs c * b) 0); [nia|].
      rewrite centred_rem_rha by nia. rewrite (Z.mul_comm (Z.abs c) b).
      apply xfrom_parts_canon. nia.
  - destruct (Z.eqb_spec c 0) as [->|Hc].
    + cbn [Z.mul Z.eqb]. reflexivity.
    + destruct (Z.eqb_spec (c * b) 0); [nia|]. rewrite (Z.mul_comm c b).
      apply xfrom_parts_canon. nia.
Qed.

Theorem xint_asis_spec u o x i : RInv x -> (u = true -> 0 <= i) -> res_veq (xint_asis u o x i) (int_spec o x i).
Proof.
  destruct x as [a b]. unfold RInv. cbn [snd]. intros Hb Hu.
  assert (HC : forall N, res_veq (Ok (N, b)) (Ok (canon N b))).
  { intros N. cbn [res_veq]. split; [exact Hb | apply veq_sym, canon_veq; exact Hb]. }
  destruct o; cbn [xint_asis int_spec]; try apply HC.
  - apply xfrom_parts_canon. exact Hb.
  - destruct (Z.eqb_spec i 0) as [|Hi]; [reflexivity|]. destruct u.
    + specialize (Hu eq_refl). replace (Z.sgn i) with 1 by lia. rewrite Z.mul_1_r, (Z.abs_eq i) by lia.
      apply xfrom_parts_canon. nia.
    + rewrite sgnz_sign_of by exact Hi. apply xfrom_parts_canon. nia.
  - destruct (Z.eqb_spec a 0) as [|Ha]; [reflexivity|]. rewrite sgnz_sign_of by exact Ha.
    apply xfrom_parts_canon. lia.
Qed.

(** unary operations, pow and the Sign product are [Repr] methods shared by both flavours *)
Theorem xun_asis_spec o x : RInv x -> res_veq (xun_asis o x) (un_spec o x).
Proof.
  destruct x as [a b]. unfold RInv, xun_asis. cbn [snd]. intros Hb.
  assert (HC : forall N D, 0 < D -> res_veq (Ok (N, D)) (Ok (canon N D))).
  { intros N D HD. cbn [res_veq]. split; [exact HD | apply veq_sym, canon_veq; exact HD]. }
  destruct o; cbn [un_asis un_spec inv_asis]; try (apply HC; nia).
  - destruct (Z.eqb_spec a 0) as [|Ha]; [reflexivity|]. unfold signed. rewrite sgnz_sign_of by exact Ha.
    apply HC. lia.
  - cbn [res_veq]. split; [unfold RInv; cbn [snd]; lia | apply veq_refl].
  - unfold fract_asis. destruct (Z.eqb_spec (Z.rem a b) 0) as [E|E].
    + rewrite E, canon_zero by exact Hb. cbn [res_veq]. split; [unfold RInv; cbn [snd]; lia | apply veq_refl].
    + apply HC. exact Hb.
Qed.

Theorem xpow_asis_spec x e : RInv x -> 0 <= e -> res_veq (Ok (xpow_asis x e)) (Ok (pow_spec x e)).
Proof.
  destruct x as [a b]. unfold RInv, xpow_asis, pow_asis, pow_spec. cbn [fst snd]. intros Hb He.
  assert (0 < b ^ e) by (apply Z.pow_pos_nonneg; lia).
  cbn [res_veq]. split; [exact H | apply veq_sym, canon_veq; exact H].
Qed.

(* ---------------------------------------------------------------- the specification depends on values only *)
Lemma veq_sgn a b a0 b0 : 0 < b -> 0 < b0 -> a * b0 = a0 * b -> Z.sgn a = Z.sgn a0.
Proof. intros. nia. Qed.

Lemma veq_abs a b a0 b0 : 0 < b -> 0 < b0 -> a * b0 = a0 * b -> Z.abs a * b0 = Z.abs a0 * b.
Proof.
  intros Hb Hb0 H. rewrite <- (Z.abs_eq b0), <- (Z.abs_eq b), <- !Z.abs_mul by lia. f_equal. exact H.
Qed.

Lemma veq_zero a b a0 b0 : 0 < b -> 0 < b0 -> a * b0 = a0 * b -> (a = 0 <-> a0 = 0).
Proof. intros. nia. Qed.

Lemma rem_spec_scale k l r D : 0 < k -> 0 < r -> 0 < D ->
  canon (k * l - (k * r) * rha (k * l) (k * r)) (k * D) = canon (l - r * rha l r) D.
Proof.
  intros Hk Hr HD. rewrite rha_scale by assumption.
  replace (k * l - k * r * rha l r) with (k * (l - r * rha l r)) by ring.
  apply canon_scale; assumption.
Qed.

Theorem bin_spec_congr o x y x0 y0 :
  RInv x -> RInv y -> RInv x0 -> RInv y0 -> veq x x0 -> veq y y0 -> bin_spec o x y = bin_spec o x0 y0.
Proof.
  destruct x as [a b], y as [c d], x0 as [a0 b0], y0 as [c0 d0]. unfold RInv, veq. cbn [fst snd].
  intros Hb Hd Hb0 Hd0 H1 H2.
  pose proof (veq_zero c d c0 d0 Hd Hd0 H2) as Hz.
  pose proof (veq_sgn c d c0 d0 Hd Hd0 H2) as Hs.
  pose proof (veq_abs c d c0 d0 Hd Hd0 H2) as Ha.
  destruct o; cbn [bin_spec].
  - f_equal. apply canon_veq_eq; [nia | nia |].
    replace ((a * d + c * b) * (b0 * d0)) with ((a * b0) * d * d0 + (c * d0) * b * b0) by ring.
    rewrite H1, H2. ring.
  - f_equal. apply canon_veq_eq; [nia | nia |].
    replace ((a * d - c * b) * (b0 * d0)) with ((a * b0) * d * d0 - (c * d0) * b * b0) by ring.
    rewrite H1, H2. ring.
  - f_equal. apply canon_veq_eq; [nia | nia |].
    replace (a * c * (b0 * d0)) with ((a * b0) * (c * d0)) by ring. rewrite H1, H2. ring.
  - destruct (Z.eqb_spec c 0) as [Hc|Hc]; destruct (Z.eqb_spec c0 0) as [Hc0|Hc0]; try tauto.
    f_equal. apply canon_veq_eq; [nia | nia |]. rewrite Hs.
    replace (a * d * Z.sgn c0 * (b0 * Z.abs c0)) with ((a * b0) * (Z.abs c0 * d) * Z.sgn c0) by ring.
    rewrite H1, <- Ha. ring.
  - destruct (Z.eqb_spec c 0) as [Hc|Hc]; destruct (Z.eqb_spec c0 0) as [Hc0|Hc0]; try tauto.
    f_equal.
    rewrite <- (rem_spec_scale (b0 * d0) (a * d) (b * Z.abs c) (b * d)) by nia.
    rewrite <- (rem_spec_scale (b * d) (a0 * d0) (b0 * Z.abs c0) (b0 * d0)) by nia.
    replace (b0 * d0 * (a * d)) with (b * d * (a0 * d0))
      by (replace (b0 * d0 * (a * d)) with ((a * b0) * d * d0) by ring; rewrite H1; ring).
    replace (b0 * d0 * (b * Z.abs c)) with (b * d * (b0 * Z.abs c0))
      by (replace (b0 * d0 * (b * Z.abs c)) with ((Z.abs c * d0) * b * b0) by ring; rewrite Ha; ring).
    replace (b0 * d0 * (b * d)) with (b * d * (b0 * d0)) by ring. reflexivity.
  - destruct (Z.eqb_spec c 0) as [Hc|Hc]; destruct (Z.eqb_spec c0 0) as [Hc0|Hc0]; try tauto.
    f_equal.
    rewrite <- (canon_scale (b0 * d0) (emod (a * d) (b * c)) (b * d)) by nia.
    rewrite <- (canon_scale (b * d) (emod (a0 * d0) (b0 * c0)) (b0 * d0)) by nia.
    rewrite <- !emod_scale by nia.
    replace (b0 * d0 * (a * d)) with (b * d * (a0 * d0))
      by (replace (b0 * d0 * (a * d)) with ((a * b0) * d * d0) by ring; rewrite H1; ring).
    replace (b0 * d0 * (b * c)) with (b * d * (b0 * c0))
      by (replace (b0 * d0 * (b * c)) with ((c * d0) * b * b0) by ring; rewrite H2; ring).
    replace (b0 * d0 * (b * d)) with (b * d * (b0 * d0)) by ring. reflexivity.
Qed.

Theorem int_spec_congr o x x0 i : RInv x -> RInv x0 -> veq x x0 -> int_spec o x i = int_spec o x0 i.
Proof.
  destruct x as [a b], x0 as [a0 b0]. unfold RInv, veq. cbn [fst snd]. intros Hb Hb0 H.
  pose proof (veq_zero a b a0 b0 Hb Hb0 H) as Hz.
  pose proof (veq_sgn a b a0 b0 Hb Hb0 H) as Hs.
  pose proof (veq_abs a b a0 b0 Hb Hb0 H) as Ha.
  destruct o; cbn [int_spec].
  - f_equal. apply canon_veq_eq; [lia | lia |].
    replace ((a + b * i) * b0) with (a * b0 + b * i * b0) by ring. rewrite H. ring.
  - f_equal. apply canon_veq_eq; [lia | lia |].
    replace ((a - b * i) * b0) with (a * b0 - b * i * b0) by ring. rewrite H. ring.
  - f_equal. apply canon_veq_eq; [lia | lia |].
    replace (a * i * b0) with ((a * b0) * i) by ring. rewrite H. ring.
  - destruct (Z.eqb_spec i 0); [reflexivity|]. f_equal. apply canon_veq_eq; [nia | nia |].
    replace (a * Z.sgn i * (b0 * Z.abs i)) with ((a * b0) * Z.sgn i * Z.abs i) by ring. rewrite H. ring.
  - f_equal. apply canon_veq_eq; [lia | lia |].
    replace ((b * i - a) * b0) with (b * i * b0 - a * b0) by ring. rewrite H. ring.
  - destruct (Z.eqb_spec a 0) as [Hc|Hc]; destruct (Z.eqb_spec a0 0) as [Hc0|Hc0]; try tauto.
    f_equal. apply canon_veq_eq; [lia | lia |]. rewrite Hs.
    replace (b * i * Z.sgn a0 * Z.abs a0) with ((Z.abs a0 * b) * i * Z.sgn a0) by ring.
    rewrite <- Ha. ring.
Qed.

Theorem un_spec_congr o x x0 : RInv x -> RInv x0 -> veq x x0 -> un_spec o x = un_spec o x0.
Proof.
  destruct x as [a b], x0 as [a0 b0]. unfold RInv, veq. cbn [fst snd]. intros Hb Hb0 H.
  pose proof (veq_zero a b a0 b0 Hb Hb0 H) as Hz.
  pose proof (veq_sgn a b a0 b0 Hb Hb0 H) as Hs.
  pose proof (veq_abs a b a0 b0 Hb Hb0 H) as Ha.
  destruct o; cbn [un_spec].
  - f_equal. apply canon_veq_eq; [lia | lia |]. replace (- a * b0) with (- (a * b0)) by ring. rewrite H. ring.
  - f_equal. apply canon_veq_eq; [lia | lia |]. exact Ha.
  - destruct (Z.eqb_spec a 0) as [Hc|Hc]; destruct (Z.eqb_spec a0 0) as [Hc0|Hc0]; try tauto.
    f_equal. apply canon_veq_eq; [lia | lia |]. rewrite Hs.
    replace (Z.sgn a0 * b * Z.abs a0) with (Z.sgn a0 * (Z.abs a0 * b)) by ring. rewrite <- Ha. ring.
  - f_equal. apply canon_veq_eq; [nia | nia |].
    replace (a * a * (b0 * b0)) with ((a * b0) * (a * b0)) by ring. rewrite H. ring.
  - f_equal. apply canon_veq_eq; [nia | nia |].
    replace (a * a * a * (b0 * b0 * b0)) with ((a * b0) * (a * b0) * (a * b0)) by ring. rewrite H. ring.
  - rewrite Hs. reflexivity.
  - f_equal.
    rewrite <- (canon_scale b0 (Z.rem a b) b) by lia.
    rewrite <- (canon_scale b (Z.rem a0 b0) b0) by lia.
    rewrite <- !Z.mul_rem_distr_l by lia.
    replace (b0 * a) with (b * a0) by (rewrite (Z.mul_comm b0 a), H; ring).
    replace (b0 * b) with (b * b0) by ring. reflexivity.
Qed.

Theorem pow_spec_congr x x0 e : RInv x -> RInv x0 -> 0 <= e -> veq x x0 -> pow_spec x e = pow_spec x0 e.
Proof.
  destruct x as [a b], x0 as [a0 b0]. unfold RInv, veq, pow_spec. cbn [fst snd]. intros Hb Hb0 He H.
  apply canon_veq_eq; [apply Z.pow_pos_nonneg; lia | apply Z.pow_pos_nonneg; lia |].
  rewrite <- !Z.pow_mul_l. f_equal. exact H.
Qed.

(* ---------------------------------------------------------------- Relaxed = RBig *)
Lemma Inv_RInv x : Inv x -> RInv x.
Proof. intros [H _]. exact H. Qed.

(** a Relaxed operation on operands with the values of x and y agrees with the RBig operation on x and y *)
Theorem relaxed_bin_eq_rbig o x' y' x y :
  RInv x' -> RInv y' -> Inv x -> Inv y -> veq x' x -> veq y' y ->
  res_veq (xbin_asis o x' y') (bin_asis o x y).
Proof.
  intros Hx' Hy' Hx Hy V1 V2. rewrite bin_asis_spec by assumption.
  rewrite <- (bin_spec_congr o x' y' x y) by (try assumption; apply Inv_RInv; assumption).
  apply xbin_asis_spec; assumption.
Qed.

Theorem relaxed_int_eq_rbig u o x' x i :
  RInv x' -> Inv x -> veq x' x -> (u = true -> 0 <= i) ->
  res_veq (xint_asis u o x' i) (int_asis u o x i).
Proof.
  intros Hx' Hx V Hu. rewrite int_asis_spec by assumption.
  rewrite <- (int_spec_congr o x' x i) by (try assumption; apply Inv_RInv; assumption).
  apply xint_asis_spec; assumption.
Qed.

Theorem relaxed_un_eq_rbig o x' x : RInv x' -> Inv x -> veq x' x -> res_veq (xun_asis o x') (un_asis o x).
Proof.
  intros Hx' Hx V. rewrite (un_asis_spec o x) by assumption.
  rewrite <- (un_spec_congr o x' x) by (try assumption; apply Inv_RInv; assumption).
  apply xun_asis_spec; assumption.
Qed.

Theorem relaxed_pow_eq_rbig x' x e : RInv x' -> Inv x -> veq x' x -> 0 <= e ->
  res_veq (Ok (xpow_asis x' e)) (Ok (pow_asis x e)).
Proof.
  intros Hx' Hx V He. rewrite (pow_asis_spec x e) by assumption.
  rewrite <- (pow_spec_congr x' x e) by (try assumption; apply Inv_RInv; assumption).
  apply xpow_asis_spec; assumption.
Qed.

Example relaxed_add_ex : xbin_asis OAdd (6, 4) (10, 4) = Ok (4, 1) /\ bin_asis OAdd (3, 2) (5, 2) = Ok (4, 1).
Proof. split; reflexivity. Qed.

(* ---------------------------------------------------------------- remaining Relaxed entry points *)
Definition res_veq_q (r' r : result (Z * rat)) : Prop :=
  match r', r with
  | Ok (q', a), Ok (q, b) => q' = q /\ RInv a /\ veq a b
  | Panic p, Panic q => p = q
  | _, _ => False
  end.

Theorem xdivreme_asis_spec x y : RInv x -> RInv y -> res_veq_q (xdivreme_asis x y) (divreme_spec x y).
Proof.
  intros Hx Hy. pose proof (xbin_asis_spec ORemE x y Hx Hy) as H.
  destruct x as [a b], y as [c d]. unfold RInv in *. cbn [snd] in *.
  unfold xdivreme_asis, divreme_spec, dive_spec. cbn [xbin_asis bin_spec] in *.
  destruct (Z.eqb_spec c 0) as [->|Hc].
  - rewrite Z.mul_0_l. cbn [Z.eqb rbind res_veq_q]. reflexivity.
  - destruct (Z.eqb_spec (c * b) 0); [nia|]. cbn [rbind].
    destruct (xfrom_parts_asis (emod (a * d) (c * b)) (b * d)) as [r'| | |]; cbn [res_veq rbind res_veq_q] in *;
      try contradiction.
    rewrite (Z.mul_comm c b). tauto.
Qed.

Theorem xfrom_parts_const_asis_spec s n d : 0 <= n -> 0 <= d ->
  res_veq (xfrom_parts_const_asis s n d) (from_parts_const_spec s n d).
Proof.
  intros Hn Hd. unfold xfrom_parts_const_asis, from_parts_const_spec.
  destruct (Z.eqb_spec d 0) as [|Hd0]; [reflexivity|].
  destruct (Z.eqb_spec n 0) as [->|Hn0].
  { rewrite Z.mul_0_r, canon_zero by lia. cbn [res_veq]. split; [unfold RInv; cbn [snd]; lia | apply veq_refl]. }
  destruct (trailing_zeros_spec d) as [dz|] eqn:Ed; [|destruct d; [lia|discriminate|discriminate]].
  destruct (trailing_zeros_spec n) as [nz|] eqn:En; [|destruct n; [lia|discriminate|discriminate]].
  destruct (tz_spec_divides _ _ Ed) as [Hdz Dd]. destruct (tz_spec_divides _ _ En) as [Hnz Dn].
  set (z := if nz <=? dz then nz else dz).
  assert (Hz : 0 <= z <= nz /\ z <= dz) by (unfold z; destruct (Z.leb_spec nz dz); lia).
  pose proof (shiftr_exact n z ltac:(lia) (pow2_le_divides z nz n ltac:(lia) Dn)) as E1.
  pose proof (shiftr_exact d z ltac:(lia) (pow2_le_divides z dz d ltac:(lia) Dd)) as E2.
  pose proof (Z.pow_pos_nonneg 2 z ltac:(lia) ltac:(lia)) as Hp.
  assert (Hd' : 0 < Z.shiftr d z) by nia.
  cbn [res_veq]. split; [exact Hd'|].
  apply veq_trans with (y := (sgnz s * n, d)); [cbn [snd]; lia | | apply veq_sym, canon_veq; lia].
  unfold veq, signed. cbn [fst snd]. nia.
Qed.

Example xfrom_parts_const_ex : xfrom_parts_const_asis Negative 12 8 = Ok (-3, 2).
Proof. reflexivity. Qed.
Example reduce2_ex : reduce2_asis (12, 8) = Ok (3, 2) /\ reduce2_asis (12, 0) = Panic Undocumented.
Proof. split; reflexivity. Qed.
Example xbin_ex : xbin_asis ORem (14, 4) (2, 2) = Ok (-1, 2) /\ bin_spec ORem (14, 4) (2, 2) = Ok (-1, 2).
Proof. split; reflexivity. Qed.
Example bin_spec_congr_ex : bin_spec ORemE (14, 4) (-2, 6) = bin_spec ORemE (7, 2) (-1, 3).
Proof. reflexivity. Qed.
