(** C18 round 4 - the bounds RBig::simplest_from_float ACTUALLY forms (FBig::ulp, half_ulp, towards_zero,
    with_precision(p+1), &FBig -/+ FBig through Context::max / repr_add_small_large / repr_add_large_small /
    repr_round_sum, Repr::new, RBig::try_from) are the fractions of the value-level as-is model:
    [simplest_from_float_deep = simplest_from_float_asis] for every base >= 2, mode, precision (0 = unlimited
    included), normalised significand of at most p digits, exponent and EVERY sound digit estimate.
    The exactness of the FBig subtraction/addition is obtained from C03's theorems on the add models
    (rounded_sum + rounded_sum_contract: a representable sum is never rounded): the sum has at most p+1
    digits because (row_good, re-proved over the REGENERATED table) towards_zero is only applied to the
    bound on the side of zero. *)
From Dashu Require Import Base.Prelude Float.RoundSpec Ratio.SimplestSpec Ratio.SimplestModel Ratio.SimplestProof
  Ratio.SimplestClosed Ratio.SimplestFindings Ratio.SimplestFloatEq Ratio.FloatPreimage Ratio.ErrorBoundsTableProof.
From Dashu Require Import Float.Contract Float.Model Float.ModelProof Float.AddModel Float.AddModelProof
  Float.RoundOpsModel Ratio.SimplestDeepModel.
From DashuGen Require Import ErrorBoundsTable SimplestFloatGen.
From Coq Require Import Znumtheory.
Open Scope Z_scope.

(* ------------------------------------------------------------------ small bridges *)
Lemma dlen_ndigits B s : 2 <= B -> s <> 0 -> dlen B s = ndigits B (Z.abs s).
Proof.
  intros HB Hs. assert (Ha : 0 < Z.abs s) by lia.
  apply dlen_unique; [exact HB | apply ndigits_pos; exact Ha | apply ndigits_spec; assumption].
Qed.

Lemma strip_fnormalize B fuel : forall s e, strip_aux B fuel s e = fnormalize_fuel fuel B s e.
Proof. induction fuel as [|f IH]; intros s e; cbn [strip_aux fnormalize_fuel]; [reflexivity|]. rewrite IH. reflexivity. Qed.

Lemma normalize_fnormalize B s e : normalize B s e = fnormalize B s e.
Proof. unfold normalize, fnormalize. destruct (s =? 0); [reflexivity | apply strip_fnormalize]. Qed.

Lemma table_of_eq md B p sig dg : eb_table_of md B p sig dg = error_bounds_table md B p sig dg.
Proof. destruct md; reflexivity. Qed.
Lemma half_of_eq md B : eb_half_of md B = error_bounds_half md B.
Proof. destruct md; reflexivity. Qed.
Lemma ebt_base_eq t : ebt_base t = eb_term_base t.
Proof. induction t; cbn [ebt_base eb_term_base]; auto. Qed.
Lemma ebt_drop_eq B sig t : ebt_drop B sig t = eb_term_drop B sig t.
Proof. induction t as [| | |t IH]; cbn [ebt_drop eb_term_drop]; try reflexivity; rewrite IH; reflexivity. Qed.

Lemma ebt_base_not_tz t e : ebt_base t <> EBTowardsZero e.
Proof. induction t; cbn [ebt_base]; try discriminate. exact IHt. Qed.

Lemma repr_round_fits B p m s e : p = 0 \/ dlen B s <= p -> repr_round B p m s e = AExact s e.
Proof.
  intros H. unfold repr_round. destruct (Z.eqb_spec p 0) as [|Hp]; [reflexivity|].
  rewrite Z.gtb_ltb. destruct (Z.ltb_spec p (dlen B s)); [lia | reflexivity].
Qed.

(* ------------------------------------------------------------------ fractions of floats *)
Section Scaled.
Variable B : Z.
Hypothesis HB : 0 < B.

Lemma scaled_zero e : scaled B 0 e 1 = (0, 1).
Proof.
  apply canon_eq; [apply scaled_canon; lia | split; cbn [fst snd]; [lia | reflexivity] |].
  pose proof (scaled_val B 0 e 1 (Z.abs e) HB ltac:(lia) ltac:(lia) ltac:(lia)) as H.
  unfold fval_eq. cbn [fst snd].
  assert (HP : 0 < B ^ Z.abs e) by (apply Z.pow_pos_nonneg; lia).
  assert (fst (scaled B 0 e 1) = 0) by nia. lia.
Qed.

(** two canonical fractions whose values agree after scaling by B^K *)
Lemma scaled_eq_val N1 e1 N2 e2 K : 0 <= K -> 0 <= e1 + K -> 0 <= e2 + K ->
  N1 * B ^ (e1 + K) = N2 * B ^ (e2 + K) -> scaled B N1 e1 1 = scaled B N2 e2 1.
Proof.
  intros HK H1 H2 E.
  apply canon_eq; [apply scaled_canon; lia | apply scaled_canon; lia |].
  pose proof (scaled_val B N1 e1 1 K HB ltac:(lia) HK H1) as V1.
  pose proof (scaled_val B N2 e2 1 K HB ltac:(lia) HK H2) as V2.
  set (x := scaled B N1 e1 1) in *. set (y := scaled B N2 e2 1) in *.
  assert (HP : 0 < B ^ K) by (apply Z.pow_pos_nonneg; lia).
  unfold fval_eq. apply (Z.mul_cancel_r _ _ (B ^ K)); [lia|].
  transitivity (fst x * 1 * B ^ K * snd y); [ring|]. rewrite V1.
  transitivity (fst y * 1 * B ^ K * snd x); [|ring]. rewrite V2. rewrite E. ring.
Qed.

Lemma scaled_shift r k e : 0 <= k -> scaled B (r * B ^ k) e 1 = scaled B r (e + k) 1.
Proof.
  intros Hk. apply (scaled_eq_val _ _ _ _ (Z.abs e)); try lia.
  rewrite <- Z.mul_assoc, <- Z.pow_add_r by lia. f_equal. f_equal. lia.
Qed.

Definition fop (sg : sign) : frac -> frac -> frac := match sg with Positive => fadd | Negative => fsub end.

(** the exact sum of two floats, in units of B^e0, is the sum of their fractions *)
Lemma scaled_sum s1 e1 s2 e2 e0 sg : e0 <= e1 -> e0 <= e2 ->
  scaled B (s1 * B ^ (e1 - e0) + sgnz sg * s2 * B ^ (e2 - e0)) e0 1
  = freduce (fop sg (scaled B s1 e1 1) (scaled B s2 e2 1)).
Proof.
  intros H1 H2. set (K := Z.abs e0 + Z.abs e1 + Z.abs e2).
  pose proof (scaled_val B s1 e1 1 K HB ltac:(lia) ltac:(lia) ltac:(lia)) as V1.
  pose proof (scaled_val B s2 e2 1 K HB ltac:(lia) ltac:(lia) ltac:(lia)) as V2.
  pose proof (scaled_val B (s1 * B ^ (e1 - e0) + sgnz sg * s2 * B ^ (e2 - e0)) e0 1 K HB ltac:(lia) ltac:(lia) ltac:(lia)) as V0.
  pose proof (scaled_pos B s1 e1 1 HB ltac:(lia)) as P1. pose proof (scaled_pos B s2 e2 1 HB ltac:(lia)) as P2.
  set (x := scaled B s1 e1 1) in *. set (y := scaled B s2 e2 1) in *.
  set (z := scaled B _ e0 1) in *.
  assert (Pxy : 0 < snd (fop sg x y)) by (destruct sg; cbn [fop fadd fsub snd]; apply Z.mul_pos_pos; assumption).
  destruct (freduce_canon (fop sg x y) Pxy) as (Cr & Er).
  apply canon_eq; [apply scaled_canon; lia | exact Cr |].
  assert (HP : 0 < B ^ K) by (apply Z.pow_pos_nonneg; lia).
  assert (E1 : B ^ (e1 - e0) * B ^ (e0 + K) = B ^ (e1 + K)) by (rewrite <- Z.pow_add_r by lia; f_equal; lia).
  assert (E2 : B ^ (e2 - e0) * B ^ (e0 + K) = B ^ (e2 + K)) by (rewrite <- Z.pow_add_r by lia; f_equal; lia).
  (* value of fop sg x y *)
  assert (Vxy : fst (fop sg x y) * B ^ K = (s1 * B ^ (e1 + K) + sgnz sg * s2 * B ^ (e2 + K)) * snd (fop sg x y)).
  { destruct sg; cbn [fop fadd fsub fst snd sgnz].
    - transitivity (fst x * 1 * B ^ K * snd y + fst y * 1 * B ^ K * snd x); [ring|]. rewrite V1, V2. ring.
    - transitivity (fst x * 1 * B ^ K * snd y - fst y * 1 * B ^ K * snd x); [ring|]. rewrite V1, V2. ring. }
  set (w := fop sg x y) in *. set (r := freduce w) in *.
  unfold fval_eq in *.
  (* z ~ w, then w ~ r *)
  assert (Ezw : fst z * snd w = fst w * snd z).
  { apply (Z.mul_cancel_r _ _ (B ^ K)); [lia|].
    transitivity (fst z * 1 * B ^ K * snd w); [ring|]. rewrite V0.
    transitivity (fst w * B ^ K * snd z); [|ring]. rewrite Vxy.
    rewrite Z.mul_add_distr_r. rewrite <- !Z.mul_assoc. rewrite E1, E2. ring. }
  apply (Z.mul_cancel_r _ _ (snd w)); [lia|].
  transitivity (fst z * snd w * snd r); [ring|]. rewrite Ezw.
  transitivity (fst r * snd w * snd z); [|ring]. rewrite Er. ring.
Qed.

Lemma try_from_scaled s e : freduce (repr_try_from_gen B s e) = scaled B s e 1.
Proof.
  unfold repr_try_from_gen, scaled. rewrite Z.geb_leb.
  destruct (Z.leb_spec 0 e); [reflexivity|]. rewrite Z.mul_1_l. reflexivity.
Qed.
End Scaled.

Section Deep.
Variable B : Z.
Hypothesis HB : 2 <= B.
Variable dub : Z -> Z.
Hypothesis dub_ok : forall s, dlen B s <= dub s.

Lemma scaled_normalize s e : scaled B (fst (normalize B s e)) (snd (normalize B s e)) 1 = scaled B s e 1.
Proof.
  pose proof (normalize_spec B HB s e) as H. destruct (normalize B s e) as [s' e']. cbn [fst snd].
  destruct H as (H0 & H1). destruct (Z.eq_dec s 0) as [->|Hs].
  - destruct (H0 eq_refl) as (-> & ->). rewrite !scaled_zero by lia. reflexivity.
  - destruct (H1 Hs) as (_ & _ & k & Hk & -> & ->). symmetry. apply scaled_shift; lia.
Qed.

(** C03: a sum that is representable in the result precision is returned exactly *)
Lemma rounded_exact P m S e0 a : 1 <= P -> rounded_sum B P m S e0 a -> Z.abs S < B ^ P ->
  scaled B (approx_sig a) (approx_exp a) 1 = scaled B S e0 1.
Proof.
  intros HP HR HS. pose proof (rounded_sum_contract B HB P m S e0 a HP HR) as C.
  destruct a as [r e|r e f]; cbn [approx_sig approx_exp].
  - destruct C as [(-> & ->)|(He & <-)].
    + rewrite !scaled_zero by lia. reflexivity.
    + rewrite scaled_shift by lia. f_equal. lia.
  - cbv zeta in C. destruct C as (_ & _ & _ & _ & _ & _ & _ & _ & _ & NR). exfalso. apply NR.
    exists S, 0. split; [lia|]. split; [rewrite Z.pow_0_r; ring | exact HS].
Qed.

(** &FBig -/+ FBig with a zero right operand: the left operand comes back (it fits the result precision) *)
Lemma add_zero_right m f t sg : fb_sig f mod B <> 0 -> fb_sig t = 0 ->
  ctx_max_gen (fb_prec f) (fb_prec t) = 0 \/ dlen B (fb_sig f) <= ctx_max_gen (fb_prec f) (fb_prec t) ->
  add_ref_val_gen B dub m f t sg = (fb_sig f, fb_exp f, ctx_max_gen (fb_prec f) (fb_prec t)).
Proof.
  intros Hn Ht Hfit. unfold add_ref_val_gen. cbv zeta. rewrite Ht, Z.mul_0_r.
  assert (Hs : fb_sig f <> 0) by (intros E; rewrite E in Hn; apply Hn; apply Z.mod_0_l; lia).
  rewrite (proj2 (Z.eqb_neq _ _) Hs). cbn [Z.eqb].
  rewrite repr_round_fits by exact Hfit. unfold approx_val, sf_new. cbn [approx_sig approx_exp fst snd].
  rewrite normalize_fnormalize, fnormalize_id by exact Hn. reflexivity.
Qed.

(** ... with two non-zero operands whose exact sum has at most P digits: the exact sum *)
Lemma add_exact m f t sg : let P := ctx_max_gen (fb_prec f) (fb_prec t) in
  1 <= P -> fb_sig f <> 0 -> fb_sig t <> 0 -> dlen B (fb_sig f) <= P -> dlen B (fb_sig t) <= P ->
  Z.abs (exact_sum B (fb_sig f) (fb_exp f) (fb_sig t) (fb_exp t) sg) < B ^ P ->
  let X := add_ref_val_gen B dub m f t sg in
  freduce (repr_try_from_gen B (fb_sig X) (fb_exp X))
  = freduce (fop sg (scaled B (fb_sig f) (fb_exp f) 1) (scaled B (fb_sig t) (fb_exp t) 1)).
Proof.
  intros P HP Hf Ht Hdf Hdt HS X.
  rewrite try_from_scaled by lia.
  set (s1 := fb_sig f) in *. set (e1 := fb_exp f) in *. set (s2 := fb_sig t) in *. set (e2 := fb_exp t) in *.
  assert (Hr : sgnz sg * s2 <> 0) by (destruct sg; cbn [sgnz]; lia).
  assert (Hdr : dlen B (sgnz sg * s2) <= P) by (rewrite dlen_sgnz; exact Hdt).
  unfold exact_sum in HS.
  rewrite <- (scaled_sum B ltac:(lia) s1 e1 s2 e2 (Z.min e1 e2) sg) by lia.
  subst X. unfold add_ref_val_gen. cbv zeta. fold s1 e1 s2 e2 P.
  rewrite (proj2 (Z.eqb_neq _ _) Hf), (proj2 (Z.eqb_neq _ _) Hr).
  unfold sf_new, fb_sig, fb_exp. cbn [fst snd]. rewrite scaled_normalize.
  unfold approx_val. cbn [fst snd].
  apply (rounded_exact P m); [exact HP | | exact HS].
  clearbody s1 e1 s2 e2 P. clear HS.
  destruct (Z.compare_spec e1 e2) as [Heq|Hlt|Hgt].
  - subst e2. rewrite Z.min_id, Z.sub_diag, Z.pow_0_r, !Z.mul_1_r.
    apply equal_exp_rounded; assumption.
  - replace (Z.min e1 e2) with e1 by lia. rewrite Z.sub_diag, Z.pow_0_r, Z.mul_1_r. rewrite Z.add_comm.
    pose proof (repr_add_large_small_correct B HB dub dub_ok P m (sgnz sg * s2) e2 s1 e1 Positive HP Hr Hf Hlt Hdr Hdf) as H.
    cbn [sgnz] in H. rewrite Z.mul_1_l in H. exact H.
  - replace (Z.min e1 e2) with e2 by lia. rewrite Z.sub_diag, Z.pow_0_r, Z.mul_1_r.
    pose proof (repr_add_small_large_correct B HB dub dub_ok P m (sgnz sg * s2) e2 s1 e1 Positive HP Hr Hf Hgt Hdr Hdf) as H.
    cbn [sgnz] in H. rewrite Z.mul_1_l in H. exact H.
Qed.

(* ------------------------------------------------------------------ the rows of the regenerated table *)
(** towards_zero is only applied to the bound on the side of zero (sg = the sign with which the bound is
    added to f): re-proved over the regenerated table on every run *)
Definition term_good (sg : sign) (sig : Z) (t : eb_term) : Prop :=
  match t with
  | EBZero | EBUlp | EBHalfUlp => True
  | EBTowardsZero EBUlp | EBTowardsZero EBHalfUlp => sgnz sg * sig < 0
  | _ => False
  end.

Lemma row_good md p sig dg : sig <> 0 ->
  let '(l, r, _, _) := eb_table_of md B p sig dg in term_good Negative sig l /\ term_good Positive sig r.
Proof.
  intros Hs. assert (Hz : (sig =? 0) = false) by (apply Z.eqb_neq; exact Hs).
  destruct md;
    cbv beta iota delta [eb_table_of error_bounds_Zero_gen error_bounds_Away_gen error_bounds_Up_gen
      error_bounds_Down_gen error_bounds_HalfEven_gen error_bounds_HalfAway_gen];
    rewrite ?Hz; destruct (p =? 0); cbv zeta; cbn [term_good]; try (split; exact I);
    (destruct (Z.ltb_spec sig 0) as [Hn|Hn];
     [rewrite ?(eb_sign_of_neg sig Hn) | rewrite ?(eb_sign_of_pos sig ltac:(lia))]);
    cbn [eb_sign_eqb term_good sgnz]; split; try exact I; lia.
Qed.

Lemma half_bounds md : 1 <= fst (eb_half_of md B) < B /\ 0 <= snd (eb_half_of md B) <= 1.
Proof.
  assert (H : 1 <= (B + 1) / 2 < B).
  { pose proof (Z.div_mod (B + 1) 2 ltac:(lia)). pose proof (Z.mod_pos_bound (B + 1) 2 ltac:(lia)). lia. }
  destruct md; cbn [eb_half_of error_bounds_Zero_half_gen error_bounds_Away_half_gen error_bounds_Up_half_gen
    error_bounds_Down_half_gen error_bounds_HalfEven_half_gen error_bounds_HalfAway_half_gen fst snd]; lia.
Qed.

Lemma drop_bounds sig : 0 <= eb_towards_zero_drop_gen B sig <= 1 /\ (eb_towards_zero_drop_gen B sig = 1 -> Z.abs sig = 1).
Proof.
  unfold eb_towards_zero_drop_gen, eb_is_power_of_base_gen. destruct (Z.eqb_spec (Z.abs sig) 1); split; lia.
Qed.

(* ------------------------------------------------------------------ one bound *)
Definition bound_prec (p : Z) : Z := if p =? 0 then 0 else p + 1.
Section Float.
Variables (md : mode) (p sig ex : Z).
Hypothesis Hp : 0 <= p.
Hypothesis Hnorm : sig mod B <> 0.
Hypothesis Hdg : p = 0 \/ ndigits B (Z.abs sig) <= p.

Let f : fbig := ((sig, ex), p).
Let np := bound_prec p.
Let v := scaled B sig ex 1.

Lemma sig_nz : sig <> 0.
Proof. intros E; rewrite E in Hnorm; apply Hnorm; apply Z.mod_0_l; lia. Qed.

Lemma dlen_le_p : p = 0 \/ dlen B sig <= p.
Proof. destruct Hdg; [left; assumption | right; rewrite dlen_ndigits by (try exact HB; exact sig_nz); assumption]. Qed.

Lemma ctx_p_np : ctx_max_gen p np = np.
Proof. unfold ctx_max_gen, np, bound_prec. rewrite Z.gtb_ltb. destruct (Z.eqb_spec p 0); [subst; reflexivity|]. destruct (Z.ltb_spec (p + 1) p); [lia | reflexivity]. Qed.

(** the power B^a * B^b bound used below *)
Lemma pow_mul a b : 0 <= a -> 0 <= b -> B ^ a * B ^ b = B ^ (a + b).
Proof. intros. rewrite Z.pow_add_r by lia. reflexivity. Qed.

(** size of the exact sum  sig * B^delta + s * c  (|s| = 1): at most p+1 digits *)
Lemma sum_small c delta s : 1 <= p -> dlen B sig <= p -> 1 <= c < B -> (s = 1 \/ s = -1) ->
  0 <= delta <= p - dlen B sig + 2 ->
  (delta = p - dlen B sig + 2 -> Z.abs sig = 1 /\ s * sig < 0) ->
  Z.abs (sig * B ^ delta + s * c) < B ^ (p + 1).
Proof.
  intros Hp1 Hd Hc Hs Hdel Htop.
  pose proof (dlen_spec B HB sig sig_nz) as ((_ & Hub) & Hd1). set (dg := dlen B sig) in *.
  destruct (Z.eq_dec delta (p - dg + 2)) as [E|NE].
  - destruct (Htop E) as (H1 & Hopp).
    assert (dg = 1).
    { apply (dlen_unique B HB sig 1); [lia|]. rewrite H1, Z.sub_diag, Z.pow_0_r, Z.pow_1_r. lia. }
    assert (Ed : delta = p + 1) by lia. rewrite Ed.
    assert (HP : 0 < B ^ (p + 1)) by (apply Z.pow_pos_nonneg; lia).
    assert (HBP : B <= B ^ (p + 1)).
    { replace B with (B ^ 1) at 1 by apply Z.pow_1_r. apply Z.pow_le_mono_r; lia. }
    destruct (Z.abs_eq_or_opp sig) as [Ea|Ea]; destruct Hs as [-> | ->]; lia.
  - assert (Hle : delta <= p - dg + 1) by lia.
    assert (HPd : 0 < B ^ delta) by (apply Z.pow_pos_nonneg; lia).
    assert (H1 : Z.abs sig * B ^ delta <= (B ^ dg - 1) * B ^ delta) by (apply Z.mul_le_mono_nonneg_r; lia).
    assert (H2 : B ^ dg * B ^ delta = B ^ (dg + delta)) by (apply pow_mul; lia).
    assert (H3 : B ^ (dg + delta) <= B ^ (p + 1)) by (apply Z.pow_le_mono_r; lia).
    assert (H4 : B <= B ^ delta \/ delta = 0).
    { destruct (Z.eq_dec delta 0); [right; assumption|left].
      replace B with (B ^ 1) at 1 by apply Z.pow_1_r. apply Z.pow_le_mono_r; lia. }
    assert (Habs : Z.abs (sig * B ^ delta + s * c) <= Z.abs sig * B ^ delta + c).
    { rewrite <- (Z.abs_eq (B ^ delta)) at 2 by lia. rewrite <- Z.abs_mul.
      eapply Z.le_trans; [apply Z.abs_triangle|]. apply Z.add_le_mono_l. destruct Hs as [-> | ->]; lia. }
    destruct H4 as [H4|H4].
    + nia.
    + (* delta = 0: then dg <= p - 1 + ... *) subst delta. rewrite Z.pow_0_r in *.
      assert (dg <= p + 1) by lia.
      destruct (Z.eq_dec dg (p + 1)); [lia|].
      assert (B ^ dg * B <= B ^ (p + 1)).
      { replace (B ^ dg * B) with (B ^ (dg + 1)) by (rewrite Z.pow_add_r, Z.pow_1_r by lia; reflexivity).
        apply Z.pow_le_mono_r; lia. }
      assert (0 < B ^ dg) by (apply Z.pow_pos_nonneg; lia). nia.
Qed.

(** one good term: the FBig value of the bound is the model's fraction, with_precision leaves it alone, and
    f -/+ it is formed exactly *)
Lemma term_bridge sg t : term_good sg sig t ->
  match eb_term_eval B md p sig ex t with
  | Ok q => exists tv, eb_term_fbig B md f t = Ok tv /\
      sf_unwrap np (with_precision_gen B md tv np) = Ok (fb_sig tv, fb_exp tv, np) /\
      (let X := add_ref_val_gen B dub md f (fb_sig tv, fb_exp tv, np) sg in
       freduce (repr_try_from_gen B (fb_sig X) (fb_exp X)) = freduce (fop sg v q))
  | Panic e => eb_term_fbig B md f t = Panic e
  | Err e => eb_term_fbig B md f t = Err e
  | OutOfFuel => eb_term_fbig B md f t = OutOfFuel
  end.
Proof.
  intros Hg. pose proof sig_nz as Hs. pose proof dlen_le_p as Hdl.
  unfold eb_term_eval, eb_term_fbig. rewrite <- ebt_base_eq, <- ebt_drop_eq, <- half_of_eq.
  change (fb_sig f) with sig. change (fb_exp f) with ex. change (fb_prec f) with p.
  rewrite <- (dlen_ndigits B sig HB Hs).
  set (d := ebt_drop B sig t). set (dg := dlen B sig).
  assert (Hbase : ebt_base t = EBZero \/ ebt_base t <> EBZero /\ 0 <= d <= 1 /\ (d = 1 -> Z.abs sig = 1 /\ sgnz sg * sig < 0)).
  { subst d. pose proof (drop_bounds sig) as (Hd01 & Hd1).
    destruct t as [| | |t0].
    - left; reflexivity.
    - right. cbn [ebt_base ebt_drop]. split; [discriminate|]. split; [lia|]. intros E; lia.
    - right. cbn [ebt_base ebt_drop]. split; [discriminate|]. split; [lia|]. intros E; lia.
    - destruct t0 as [| | |t1]; cbn [term_good] in Hg; try contradiction; right; cbn [ebt_base ebt_drop];
        (split; [discriminate|]); (split; [lia|]); intros E; (split; [apply Hd1; lia | exact Hg]). }
  assert (Hv : canon v) by (apply scaled_canon; lia).
  (* the zero bound *)
  assert (Zero : forall e0, exists tv : fbig, Ok (0, e0, 0) = Ok tv /\
      sf_unwrap np (with_precision_gen B md tv np) = Ok (fb_sig tv, fb_exp tv, np) /\
      (let X := add_ref_val_gen B dub md f (fb_sig tv, fb_exp tv, np) sg in
       freduce (repr_try_from_gen B (fb_sig X) (fb_exp X)) = freduce (fop sg v (0, 1)))).
  { intros e0. exists (0, e0, 0). split; [reflexivity|]. split.
    - unfold with_precision_gen, with_precision_shrinks_gen, fb_prec, fb_sig, fb_exp. cbn [fst snd Z.eqb negb orb].
      rewrite repr_round_fits by (right; rewrite dlen_zero by exact HB; unfold np, bound_prec; destruct (p =? 0); lia).
      reflexivity.
    - cbv zeta. rewrite add_zero_right; unfold fb_sig, fb_exp, fb_prec, f; cbn [fst snd]; try assumption; try reflexivity.
      + rewrite try_from_scaled by lia. fold v. destruct (fsub_zero v Hv) as (E1 & E2). destruct sg; cbn [fop]; congruence.
      + rewrite ctx_p_np. unfold np, bound_prec. destruct (Z.eqb_spec p 0); [left; reflexivity | right; lia]. }
  destruct Hbase as [E0 | (Hnz & Hd01 & Hd1)].
  { rewrite E0. apply Zero. }
  (* ulp / half ulp *)
  unfold fbig_ulp_gen. destruct (Z.eqb_spec p 0) as [Hp0|Hp0].
  { pose proof (ebt_base_not_tz t) as NT.
    destruct (ebt_base t) as [| | |e0]; cbn [rbind]; try reflexivity;
      exfalso; first [apply Hnz; reflexivity | apply (NT e0); reflexivity]. }
  assert (Hp1 : 1 <= p) by lia. assert (Hdp : dg <= p) by (destruct Hdl; [lia | assumption]).
  assert (Enp : np = p + 1) by (unfold np, bound_prec; destruct (Z.eqb_spec p 0); [lia | reflexivity]).
  pose proof (half_bounds md) as ((Hc1 & Hc2) & Hk0 & Hk1).
  (* common part: a bound (c, el) with context precision p *)
  assert (Common : forall c k, 1 <= c < B -> 0 <= k <= 1 ->
     exists tv : fbig, Ok (c, ex + dg - p - k - d, p) = Ok tv /\
      sf_unwrap np (with_precision_gen B md tv np) = Ok (fb_sig tv, fb_exp tv, np) /\
      (let X := add_ref_val_gen B dub md f (fb_sig tv, fb_exp tv, np) sg in
       freduce (repr_try_from_gen B (fb_sig X) (fb_exp X)) = freduce (fop sg v (scaled B c (ex + dg - p - k - d) 1)))).
  { intros c k Hc Hk. exists (c, ex + dg - p - k - d, p). split; [reflexivity|]. split.
    - unfold with_precision_gen, with_precision_shrinks_gen, fb_prec, fb_sig, fb_exp. cbn [fst snd].
      rewrite (proj2 (Z.eqb_neq _ _) Hp0). cbn [negb orb]. rewrite Z.gtb_ltb.
      destruct (Z.ltb_spec np p); [lia | reflexivity].
    - cbv zeta. unfold fb_sig, fb_exp, f. cbn [fst snd].
      set (el := ex + dg - p - k - d).
      assert (Hdc : dlen B c = 1).
      { apply (dlen_unique B HB c 1); [lia|]. rewrite Z.sub_diag, Z.pow_0_r, Z.pow_1_r. lia. }
      pose proof (add_exact md f (c, el, np) sg) as A. cbv zeta in A.
      unfold fb_sig, fb_exp, fb_prec, f in A. cbn [fst snd] in A. rewrite ctx_p_np, Enp in A.
      unfold v. rewrite Enp. apply A; try lia.
      unfold exact_sum. replace (Z.min ex el) with el by (unfold el; lia).
      rewrite Z.sub_diag, Z.pow_0_r, Z.mul_1_r.
      apply sum_small; try lia; try (destruct sg; cbn [sgnz]; lia). }
  destruct (ebt_base t) eqn:Eb; try (exfalso; apply Hnz; reflexivity); cbn [rbind fst snd].
  - (* EBUlp *) specialize (Common 1 0 ltac:(lia) ltac:(lia)).
    replace (ex + dg - p - 0 - d) with (ex + dg - p - d) in Common by lia.
    (* the exponent of the regenerated body may be associated differently (e.g. ex + (dg - p) - d since the source forms
       digits - precision as one term): bring it to the form of [Common] whatever its shape *)
    match goal with |- exists tv : fbig, Ok (_, ?e, _) = Ok tv /\ _ =>
      replace e with (ex + dg - p - d) by lia end.
    exact Common.
  - (* EBHalfUlp *) specialize (Common (fst (eb_half_of md B)) (snd (eb_half_of md B)) ltac:(lia) ltac:(lia)).
    match goal with |- exists tv : fbig, Ok (_, ?e, _) = Ok tv /\ _ =>
      replace e with (ex + dg - p - snd (eb_half_of md B) - d) by lia end.
    exact Common.
  - (* EBTowardsZero cannot be a base *) exfalso. exact (ebt_base_not_tz t _ Eb).
Qed.
End Float.

(* ------------------------------------------------------------------ the headline *)
Theorem simplest_from_float_deep_asis : forall md p sig ex,
  0 <= p -> sig mod B <> 0 -> (p = 0 \/ ndigits B (Z.abs sig) <= p) ->
  simplest_from_float_deep B dub md p sig ex = simplest_from_float_asis B md p sig ex.
Proof.
  intros md p sig ex Hp Hnorm Hdg.
  assert (Hs : sig <> 0) by (apply sig_nz; assumption).
  unfold simplest_from_float_deep, simplest_from_float_gen, simplest_from_float_asis, simplest_from_float_with.
  rewrite normalize_fnormalize, (fnormalize_id B sig ex Hnorm).
  unfold fb_sig at 1. cbn [fst snd]. rewrite (proj2 (Z.eqb_neq _ _) Hs).
  rewrite error_bounds_asis_eq_table by exact Hs.
  unfold error_bounds_fbig. unfold fb_prec at 1, fb_sig at 1 2. cbn [fst snd].
  rewrite <- (dlen_ndigits B sig HB Hs).
  change (error_bounds_table md B p sig (dlen B sig)) with (eb_table_of md B p sig (dlen B sig)).
  pose proof (row_good md p sig (dlen B sig) Hs) as RG.
  destruct (eb_table_of md B p sig (dlen B sig)) as [[[l r] il] ir]. destruct RG as (Gl & Gr).
  unfold eb_eval.
  pose proof (term_bridge md p sig ex Hp Hnorm Hdg Negative l Gl) as TL.
  pose proof (term_bridge md p sig ex Hp Hnorm Hdg Positive r Gr) as TR.
  destruct (eb_term_eval B md p sig ex l) as [ql| | |]; cbn [rbind].
  2-4: rewrite TL; reflexivity.
  destruct TL as (tl & -> & WL & AL). cbn [rbind].
  destruct (eb_term_eval B md p sig ex r) as [qr| | |]; cbn [rbind].
  2-4: rewrite TR; reflexivity.
  destruct TR as (tr & -> & WR & AR). cbn [rbind].
  change (fb_prec (sig, ex, p)) with p. change (if p =? 0 then 0 else p + 1) with (bound_prec p). rewrite WL. cbn [rbind]. rewrite WR. cbn [rbind].
  cbv zeta in AL, AR. rewrite AL, AR. cbn [fop].
  destruct (simplest_in_asis _ _); reflexivity.
Qed.

(** the interval the code ACTUALLY forms (error_bounds at FBig level, with_precision, the FBig subtraction and
    addition, RBig::try_from) is the interval of the value-level model *)
Theorem float_bounds_deep_asis : forall md p sig ex,
  0 <= p -> sig mod B <> 0 -> (p = 0 \/ ndigits B (Z.abs sig) <= p) ->
  match error_bounds_asis B md p sig ex with
  | Ok (l, r, il, ir) => exists tl tr lb rb,
      float_bounds_deep B dub md p sig ex = Ok (tl, tr, il, ir, lb, rb) /\
      freduce (repr_try_from_gen B (fb_sig lb) (fb_exp lb)) = freduce (fsub (scaled B sig ex 1) l) /\
      freduce (repr_try_from_gen B (fb_sig rb) (fb_exp rb)) = freduce (fadd (scaled B sig ex 1) r)
  | Panic e => float_bounds_deep B dub md p sig ex = Panic e
  | Err e => float_bounds_deep B dub md p sig ex = Err e
  | OutOfFuel => float_bounds_deep B dub md p sig ex = OutOfFuel
  end.
Proof.
  intros md p sig ex Hp Hnorm Hdg.
  assert (Hs : sig <> 0) by (apply sig_nz; assumption).
  unfold float_bounds_deep. rewrite normalize_fnormalize, (fnormalize_id B sig ex Hnorm).
  rewrite error_bounds_asis_eq_table by exact Hs.
  unfold error_bounds_fbig. change (fb_prec (sig, ex, p)) with p. change (fb_sig (sig, ex, p)) with sig.
  rewrite <- (dlen_ndigits B sig HB Hs).
  change (error_bounds_table md B p sig (dlen B sig)) with (eb_table_of md B p sig (dlen B sig)).
  pose proof (row_good md p sig (dlen B sig) Hs) as RG.
  destruct (eb_table_of md B p sig (dlen B sig)) as [[[l r] il] ir]. destruct RG as (Gl & Gr).
  unfold eb_eval.
  pose proof (term_bridge md p sig ex Hp Hnorm Hdg Negative l Gl) as TL.
  pose proof (term_bridge md p sig ex Hp Hnorm Hdg Positive r Gr) as TR.
  destruct (eb_term_eval B md p sig ex l) as [ql| | |]; cbn [rbind].
  2-4: rewrite TL; reflexivity.
  destruct TL as (tl & -> & WL & AL). cbn [rbind].
  destruct (eb_term_eval B md p sig ex r) as [qr| | |]; cbn [rbind].
  2-4: rewrite TR; reflexivity.
  destruct TR as (tr & -> & WR & AR). cbn [rbind].
  change (if p =? 0 then 0 else p + 1) with (bound_prec p). rewrite WL. cbn [rbind]. rewrite WR. cbn [rbind].
  cbv zeta in AL, AR. cbn [fop] in AL, AR.
  eexists tl, tr, _, _. split; [reflexivity|]. split; assumption.
Qed.

(** ... hence, outside the open class F06, the specified preimage interval of the float *)
Theorem float_bounds_deep_interval : forall md p sig ex,
  0 < p -> sig mod B <> 0 -> ndigits B (Z.abs sig) <= p -> known_float B md p sig = false ->
  exists tl tr il ir lb rb,
    float_bounds_deep B dub md p sig ex = Ok (tl, tr, il, ir, lb, rb) /\
    (freduce (repr_try_from_gen B (fb_sig lb) (fb_exp lb)), freduce (repr_try_from_gen B (fb_sig rb) (fb_exp rb)), il, ir)
    = float_interval_spec B md p sig ex.
Proof.
  intros md p sig ex Hp Hnorm Hdg Hk.
  pose proof (float_bounds_deep_asis md p sig ex ltac:(lia) Hnorm (or_intror Hdg)) as H.
  pose proof (interval_asis_spec B p sig ex HB Hp Hnorm Hdg md Hk) as I.
  destruct (error_bounds_asis B md p sig ex) as [[[[l r] il] ir]| | |]; try contradiction.
  destruct H as (tl & tr & lb & rb & E & EL & ER).
  exists tl, tr, il, ir, lb, rb. split; [exact E|]. rewrite EL, ER. exact I.
Qed.

(** the deep model computes the specified optimum (all bases / modes / precisions outside F06; unlimited: all) *)
Theorem simplest_from_float_deep_spec : forall md p sig ex,
  0 < p -> sig mod B <> 0 -> ndigits B (Z.abs sig) <= p -> known_float B md p sig = false ->
  simplest_from_float_deep B dub md p sig ex = simplest_from_float_spec B md p sig ex.
Proof.
  intros md p sig ex Hp Hnorm Hdg Hk. rewrite simplest_from_float_deep_asis by (try assumption; try lia; right; assumption).
  apply simplest_from_float_asis_spec; assumption.
Qed.

Theorem simplest_from_float_deep_spec_unlimited : forall md sig ex, sig mod B <> 0 ->
  simplest_from_float_deep B dub md 0 sig ex = simplest_from_float_spec B md 0 sig ex.
Proof.
  intros md sig ex Hnorm. rewrite simplest_from_float_deep_asis by (try assumption; try lia; left; reflexivity).
  apply simplest_from_float_asis_spec_unlimited_all; assumption.
Qed.

End Deep.

Example simplest_from_float_deep_nonvacuous :
  simplest_from_float_deep_x 10 MHalfAway 3 133 (-2) = Ok (Some (4, 3)) /\
  simplest_from_float_deep_x1 10 MHalfAway 1 1 1 = Ok (Some (10, 1)) /\
  simplest_from_float_deep_x 3 MAway 1 1 1 = Ok (Some (3, 1)) /\
  simplest_from_float_deep_x 10 MAway 0 123 (-1) = Ok (Some (123, 10)) /\
  float_bounds_deep_x 10 MHalfAway 3 1330 (-3) = Ok ((5, -3, 3), (5, -3, 3), true, false, (1325, -3, 4), (1335, -3, 4)) /\
  133 mod 10 <> 0 /\ ndigits 10 (Z.abs 133) <= 3 /\ known_float 10 MHalfAway 3 133 = false.
Proof. repeat split; try (vm_compute; reflexivity); vm_compute; discriminate. Qed.
