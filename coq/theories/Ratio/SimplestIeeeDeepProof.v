(** C18 round 4 - the f32/f64 macro over C06's decoder = the bit-level as-is model = the specification. *)
From Dashu Require Import Base.Prelude Ratio.BinIter Float.RoundSpec Ratio.SimplestSpec Ratio.SimplestModel
  Ratio.SimplestIeeeEq Ratio.SimplestIeeeFixed Ratio.SimplestIeeeDeepModel.
From Dashu Require Import Conv.ConvSpec Conv.ConvModel Conv.ConvDecodeProofs.
Open Scope Z_scope.

Definition fmt_mb_eb (mb eb : Z) : fmt := {| prec := mb + 1; emin := 2 - 2 ^ (eb - 1) - mb; ebits := eb |}.

Lemma asis_is_tail mb eb bits :
  simplest_from_ieee_asis mb eb bits =
  let E := (bits / 2 ^ mb) mod 2 ^ eb in
  let M := bits mod 2 ^ mb in
  let neg := (bits / 2 ^ (mb + eb)) mod 2 =? 1 in
  if E =? 2 ^ eb - 1 then Ok None
  else if (E =? 0) && (M =? 0) then Ok (Some (0, 1))
  else ieee_tail mb eb (if neg then - (if E =? 0 then M else M + 2 ^ mb) else (if E =? 0 then M else M + 2 ^ mb))
         ((if E =? 0 then 1 else E) - (2 ^ (eb - 1) - 1) - mb) bits.
Proof. reflexivity. Qed.

Lemma top_bit bits k : 0 <= k -> 0 <= bits < 2 ^ (k + 1) -> ((bits / 2 ^ k) mod 2 =? 1) = (2 ^ k <=? bits).
Proof.
  intros Hk Hb. assert (HP : 0 < 2 ^ k) by (apply Z.pow_pos_nonneg; lia).
  assert (H2 : 2 ^ (k + 1) = 2 * 2 ^ k) by (rewrite Z.pow_add_r, Z.pow_1_r by lia; ring).
  assert (Hq : 0 <= bits / 2 ^ k < 2).
  { split; [apply Z.div_pos; lia|]. apply Z.div_lt_upper_bound; lia. }
  destruct (Z.leb_spec (2 ^ k) bits) as [H|H].
  - assert (bits / 2 ^ k = 1).
    { assert (1 <= bits / 2 ^ k) by (apply Z.div_le_lower_bound; lia). lia. }
    rewrite H0. reflexivity.
  - rewrite Z.div_small by lia. reflexivity.
Qed.

(** the macro over the SPECIFIED decoder is the bit-level model, every format, every pattern of the width *)
Theorem ieee_deep_spec_asis mb eb bits : 0 <= mb -> 0 <= eb -> 0 <= bits < 2 ^ (mb + eb + 1) ->
  simplest_from_ieee_deep (decode_spec (fmt_mb_eb mb eb)) mb eb bits = simplest_from_ieee_asis mb eb bits.
Proof.
  intros Hm He Hb. rewrite asis_is_tail. cbv zeta.
  unfold simplest_from_ieee_deep, decode_spec, fmt_mb_eb. cbn [prec emin ebits]. cbv zeta.
  replace (mb + 1 - 1) with mb by lia.
  rewrite (top_bit bits (mb + eb)) by lia. rewrite (Z.add_comm eb mb).
  set (E := (bits / 2 ^ mb) mod 2 ^ eb). set (M := bits mod 2 ^ mb). set (neg := 2 ^ (mb + eb) <=? bits).
  destruct (E =? 2 ^ eb - 1); [destruct (M =? 0); reflexivity|].
  assert (HM : 0 <= M < 2 ^ mb) by (apply Z.mod_pos_bound; apply Z.pow_pos_nonneg; lia).
  assert (Hz : ((if neg then - (if E =? 0 then M else M + 2 ^ mb) else (if E =? 0 then M else M + 2 ^ mb)) =? 0)
               = ((E =? 0) && (M =? 0))).
  { destruct (Z.eqb_spec E 0), (Z.eqb_spec M 0), neg; cbn [andb]; try (apply Z.eqb_eq; lia); apply Z.eqb_neq; lia. }
  rewrite Hz. destruct ((E =? 0) && (M =? 0)); [reflexivity|].
  f_equal. destruct (E =? 0); lia.
Qed.

(** f32 / f64: the decoder is C06's as-is model of base/src/bit.rs, equal to decode_spec by C06_decode_f32/f64 *)
Theorem simplest_from_f32_deep_asis bits : 0 <= bits < 2 ^ 32 ->
  simplest_from_f32_deep bits = simplest_from_ieee_asis 23 8 bits.
Proof.
  intros Hb. unfold simplest_from_f32_deep, simplest_from_ieee_deep. rewrite decode_f32_correct by lia.
  exact (ieee_deep_spec_asis 23 8 bits ltac:(lia) ltac:(lia) Hb).
Qed.

Theorem simplest_from_f64_deep_asis bits : 0 <= bits < 2 ^ 64 ->
  simplest_from_f64_deep bits = simplest_from_ieee_asis 52 11 bits.
Proof.
  intros Hb. unfold simplest_from_f64_deep, simplest_from_ieee_deep. rewrite decode_f64_correct by lia.
  exact (ieee_deep_spec_asis 52 11 bits ltac:(lia) ltac:(lia) Hb).
Qed.

Theorem simplest_from_f32_deep_spec bits : 0 <= bits < 2 ^ 32 ->
  simplest_from_f32_deep bits = simplest_from_ieee_spec 23 8 bits.
Proof. intros Hb. rewrite simplest_from_f32_deep_asis by exact Hb. apply simplest_from_ieee_asis_spec_all. lia. Qed.

Theorem simplest_from_f64_deep_spec bits : 0 <= bits < 2 ^ 64 ->
  simplest_from_f64_deep bits = simplest_from_ieee_spec 52 11 bits.
Proof. intros Hb. rewrite simplest_from_f64_deep_asis by exact Hb. apply simplest_from_ieee_asis_spec_all. lia. Qed.

Example ieee_deep_examples :
  simplest_from_f32_deep 1275068416 = Ok (Some (33554431, 1)) /\ 0 <= 1275068416 < 2 ^ 32 /\
  simplest_from_f32_deep 2139095040 = Ok None /\ simplest_from_f32_deep 2147483648 = Ok (Some (0, 1)) /\
  simplest_from_f64_deep 4614259503928742473 = Ok (Some (22, 7)).
Proof. repeat split; vm_compute; first [reflexivity | discriminate]. Qed.
