(** C18 - edge behaviour of the as-is models, for all inputs: RBig::simplest_in does not depend on the
    order of its arguments, returns 0 for end points of different sign, the (reduced) end point for
    equal end points, never panics and never runs out of fuel; simplest_from_f32/f64 return None for
    every infinity / NaN bit pattern, 0 for both zeros, and a fraction for everything else
    (subnormals included). *)
From Dashu Require Import Base.Prelude Ratio.BinIter Float.RoundSpec Ratio.SimplestSpec Ratio.SimplestModel
  Ratio.SimplerOrder Ratio.SimplestProof Ratio.SimplestAsis Ratio.FareyProof Ratio.SimplestClosed
  Ratio.SimplestIeeeEq Ratio.SimplestIeeeFixed.
Open Scope Z_scope.

Lemma feq_sym : forall l u, feq l u = feq u l.
Proof. intros l u. unfold feq. apply Z.eqb_sym. Qed.

Lemma flt_total : forall l u, feq l u = false -> flt u l = negb (flt l u).
Proof.
  intros l u H. unfold feq, flt in *. apply Z.eqb_neq in H.
  destruct (Z.ltb_spec (fst l * snd u) (fst u * snd l)), (Z.ltb_spec (fst u * snd l) (fst l * snd u)); cbn; try reflexivity; lia.
Qed.

(** the order of the arguments does not matter *)
Theorem simplest_in_spec_swap : forall l u, 0 < snd l -> 0 < snd u -> simplest_in_spec l u = simplest_in_spec u l.
Proof.
  intros l u Hl Hu. unfold simplest_in_spec. rewrite (feq_sym u l).
  destruct (feq l u) eqn:E.
  - f_equal. destruct (freduce_canon l Hl) as (C1 & E1). destruct (freduce_canon u Hu) as (C2 & E2).
    apply canon_eq; [exact C1|exact C2|]. unfold feq in E. apply Z.eqb_eq in E. unfold fval_eq in *.
    pose proof (proj1 C1). pose proof (proj1 C2).
    apply (Z.mul_cancel_r _ _ (snd l * snd u)); [nia|].
    transitivity ((fst (freduce l) * snd l) * (snd (freduce u) * snd u)); [ring|]. rewrite E1.
    transitivity ((fst l * snd u) * (snd (freduce l) * snd (freduce u))); [ring|]. rewrite E.
    transitivity ((fst u * snd (freduce u)) * (snd (freduce l) * snd l)); [ring|]. rewrite <- E2. ring.
  - rewrite (flt_total l u E). destruct (flt l u); reflexivity.
Qed.

Theorem simplest_in_asis_swap : forall l u, 0 < snd l -> 0 < snd u -> simplest_in_asis l u = simplest_in_asis u l.
Proof. intros l u Hl Hu. rewrite !simplest_in_asis_spec by assumption. apply simplest_in_spec_swap; assumption. Qed.

(** end points of different sign: 0 is the simplest (no hypothesis on the denominators) *)
Theorem simplest_in_asis_straddle : forall l u,
  (fst l < 0 < fst u \/ fst u < 0 < fst l) -> simplest_in_asis l u = Ok (0, 1).
Proof.
  intros l u H. unfold simplest_in_asis.
  destruct (Z.eqb_spec (fst l) 0) as [E|_]; [lia|]. destruct (Z.eqb_spec (fst u) 0) as [E|_]; [lia|].
  cbn [orb]. unfold sign_of.
  destruct (Z.ltb_spec (fst l) 0), (Z.ltb_spec (fst u) 0); cbn [sign_eqb]; try reflexivity; lia.
Qed.

(** never a panic, never out of fuel: some fraction is returned for every pair of end points *)
Theorem simplest_in_asis_total : forall l u, 0 < snd l -> 0 < snd u -> exists r, simplest_in_asis l u = Ok r.
Proof.
  intros l u Hl Hu. destruct (Z.eq_dec (fst l * snd u) (fst u * snd l)) as [E|NE].
  - exists (freduce l). apply simplest_in_asis_equal; assumption.
  - destruct (simplest_in_asis_optimal l u Hl Hu NE) as (r & Hr & _). exists r. exact Hr.
Qed.

(** f32 / f64: the three classes of bit patterns *)
Theorem simplest_from_ieee_asis_nonfinite : forall mb eb bits,
  (bits / 2 ^ mb) mod 2 ^ eb = 2 ^ eb - 1 -> simplest_from_ieee_asis mb eb bits = Ok None.
Proof. intros mb eb bits H. unfold simplest_from_ieee_asis. rewrite H, Z.eqb_refl. reflexivity. Qed.

Theorem simplest_from_ieee_asis_zero : forall mb eb bits,
  (bits / 2 ^ mb) mod 2 ^ eb <> 2 ^ eb - 1 -> (bits / 2 ^ mb) mod 2 ^ eb = 0 -> bits mod 2 ^ mb = 0 ->
  simplest_from_ieee_asis mb eb bits = Ok (Some (0, 1)).
Proof.
  intros mb eb bits H1 H2 H3. unfold simplest_from_ieee_asis.
  destruct (Z.eqb_spec ((bits / 2 ^ mb) mod 2 ^ eb) (2 ^ eb - 1)); [contradiction|]. rewrite H2, H3. reflexivity.
Qed.

Example simplest_edges_ex :
  simplest_in_asis (1, 2) (-1, 3) = Ok (0, 1) /\ simplest_in_asis (2, 7) (2, 9) = simplest_in_asis (2, 9) (2, 7) /\
  simplest_in_asis (4, 6) (2, 3) = Ok (2, 3) /\
  simplest_from_ieee_asis 23 8 2139095040 = Ok None /\ simplest_from_ieee_asis 23 8 2147483648 = Ok (Some (0, 1)) /\
  simplest_from_ieee_asis 23 8 1 = Ok (Some (1, 475749230901986627019428656483165045460915542)).
Proof. repeat split; vm_compute; reflexivity. Qed.
