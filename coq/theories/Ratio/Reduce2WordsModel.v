(** C04 (round 3): [Repr::reduce2] (rational/src/repr.rs) one layer down - on the typed magnitudes of the
    numerator (sign, Repr) and of the denominator (Repr): inline double word or heap word list of an
    arbitrary word size [w].  trailing_zeros is the word scan of integer/src/bits.rs (trailing_zeros_large),
    `>>` is shr_dword / shr_large with its carries and, for a negative numerator, the floor correction of
    shift_ops.rs (C09's kernels; the numerator of the result is read at value level).  DEFINITIONS ONLY. *)
From Dashu Require Import Base.Prelude Base.Words Int.BitsSpec Int.BitsWords Int.BitsKernels Ratio.RatArithModel Ratio.RatioAtoms.
Open Scope Z_scope.

Section Reduce2Words.
Variable w : Z.

(** IBig::is_zero / UBig::is_zero on the typed view *)
Definition repr_is_zero (r : brepr) : bool := match r with BSmall d => d =? 0 | BLarge _ => false end.

Definition reduce2_words (s : sign) (nr dr : brepr) : result (Z * brepr) :=
  if repr_is_zero nr then Ok (0, BSmall 1)
  else
    let n_zeros := unwrap_or_default (repr_trailing_zeros w nr) in
    match repr_trailing_zeros w dr with
    | None => Panic Undocumented
    | Some d_zeros =>
        let zeros := Z.min n_zeros d_zeros in
        if 0 <? zeros then Ok (ibig_shr_asis w s nr zeros, repr_shr w dr zeros)
        else Ok (signed s (bvalue w nr), dr)
    end.

(** Relaxed::from_parts on the typed view, from the integers (what the harness passes) *)
Definition xfrom_parts_words (n d : Z) : result rat :=
  if d =? 0 then Panic DivideBy0
  else match reduce2_words (sign_of n) (to_brepr w (Z.abs n)) (to_brepr w d) with
       | Ok (n', d') => Ok (n', bvalue w d')
       | Panic r => Panic r | Err e => Err e | OutOfFuel => OutOfFuel
       end.
End Reduce2Words.
