(** C18 - end to end: what the as-is models of simplest_from_f32/f64/float return is THE simplest
    canonical fraction among those that round back to the float under its rounding rule
    (composition of "as-is = specification", "the specified interval is the preimage of the float"
    and "the selection step returns the simplest member"). *)
From Dashu Require Import Base.Prelude Ratio.BinIter Float.RoundSpec Ratio.SimplestSpec Ratio.SimplestModel
  Ratio.SimplerOrder Ratio.SimplestProof Ratio.SimplestAsis Ratio.FareyProof Ratio.SimplestClosed Ratio.SimplestFindings
  Ratio.SimplestFloatEq Ratio.SimplestIeeeEq Ratio.SimplestIeeeFixed Ratio.RoundPreimage Ratio.FloatPreimage Ratio.IeeePreimage.
Open Scope Z_scope.

Theorem simplest_from_ieee_correct : forall mb eb bits i, 1 <= mb -> 0 <= eb ->
  ieee_interval_spec mb eb bits = Some (Some i) ->       (* the bit pattern is finite and non-zero *)
  exists r, simplest_from_ieee_asis mb eb bits = Ok (Some r) /\ canon r /\
    ieee_rounds_to mb eb r (ieee_value mb eb bits) /\
    forall s, canon s -> ieee_rounds_to mb eb s (ieee_value mb eb bits) -> s <> r -> simpler r s = true.
Proof.
  intros mb eb bits i Hmb Heb Hi. rewrite simplest_from_ieee_asis_spec_all by exact Hmb.
  exact (simplest_from_ieee_spec_meaning mb eb bits i Hmb Heb Hi).
Qed.

Theorem simplest_from_float_correct : forall B md p sig ex,
  2 <= B -> 1 <= p -> sig mod B <> 0 -> ndigits B (Z.abs sig) <= p -> known_float B md p sig = false ->
  exists r, simplest_from_float_asis B md p sig ex = Ok (Some r) /\ canon r /\
    rounds_to B md p r (scaled B sig ex 1) /\
    forall s, canon s -> rounds_to B md p s (scaled B sig ex 1) -> s <> r -> simpler r s = true.
Proof.
  intros B md p sig ex HB Hp Hn Hdg Hk. rewrite simplest_from_float_asis_spec by (try assumption; lia).
  apply simplest_from_float_spec_meaning; try assumption.
  intros ->. apply Hn. apply Z.mod_0_l. lia.
Qed.

Example simplest_from_float_correct_nonvacuous :
  (exists i, ieee_interval_spec 23 8 1275068416 = Some (Some i)) /\ simplest_from_ieee_asis 23 8 1275068416 = Ok (Some (33554431, 1)) /\
  known_float 10 MHalfEven 3 133 = false /\ simplest_from_float_asis 10 MHalfEven 3 133 (-2) = Ok (Some (4, 3)).
Proof. split; [eexists; vm_compute; reflexivity|]. repeat split; vm_compute; reflexivity. Qed.
