(** C04: what the Relaxed flavour keeps of its own representation ("reduction by powers of two only",
    rational/src/repr.rs [Repr::reduce2]).
    - [reduce2] removes ALL common factors two (the result never has an even numerator and an even
      denominator) and stores zero as 0/1 ([RInv2]);
    - every Relaxed operation returns a positive denominator without a common factor two ([RInvE]), for
      all operands and along every finite history;
    - the zero clause of [RInv2] is NOT kept by the integer-mixed sums (3/3 - 1 is stored as 0/3): shown
      by [xint_zero_not_normalised].  The property does not demand it (Relaxed equality is by value). *)
From Coq Require Import Bool.
From Dashu Require Import Base.Prelude Int.BitsSpec Ratio.RatArithModel Ratio.RatArithCanon Ratio.RatArithProofs
  Ratio.RatArithRelaxed Ratio.RatArithHistory.
Open Scope Z_scope.

Definition nc2 (a b : Z) : Prop := Z.even a && Z.even b = false.
Definition RInvE (x : rat) : Prop := 0 < snd x /\ nc2 (fst x) (snd x).

Lemma RInv2_RInvE x : RInv2 x -> RInvE x.
Proof. unfold RInv2, RInvE, nc2. intros (H1 & H2 & _). split; assumption. Qed.
Lemma RInvE_RInv x : RInvE x -> RInv x.
Proof. unfold RInvE, RInv. intros [H _]. exact H. Qed.
Lemma Inv_RInv2 x : Inv x -> RInv2 x.
Proof.
  destruct x as [a b]. unfold Inv, RInv2. cbn [fst snd]. intros [Hb Hg]. split; [exact Hb|]. split.
  - destruct (Z.even a) eqn:Ea; [|reflexivity]. destruct (Z.even b) eqn:Eb; [|reflexivity].
    apply Z.even_spec in Ea, Eb. destruct Ea as [a' ->], Eb as [b' ->].
    rewrite Z.gcd_mul_mono_l in Hg. cbn [Z.abs] in Hg. lia.
  - intros ->. rewrite Z.gcd_0_l in Hg. lia.
Qed.

(* ---------------------------------------------------------------- reduce2 *)
Lemma shiftr_bit_odd a k : 0 <= k -> Z.testbit a k = true -> Z.even (Z.shiftr a k) = false.
Proof.
  intros Hk H. rewrite <- Z.negb_odd, <- Z.bit0_odd, Z.shiftr_spec by lia. rewrite Z.add_0_l, H. reflexivity.
Qed.

Theorem reduce2_asis_RInv2 n d r : 0 < d -> reduce2_asis (n, d) = Ok r -> RInv2 r.
Proof.
  intros Hd. unfold reduce2_asis. destruct (Z.eqb_spec n 0) as [->|Hn].
  { intros H; injection H as <-. unfold RInv2. cbn [fst snd]. split; [lia|]. split; [reflexivity | reflexivity]. }
  destruct (trailing_zeros_spec d) as [dz|] eqn:Ed; [|discriminate].
  destruct (trailing_zeros_spec n) as [nz|] eqn:En; [|apply trailing_zeros_spec_none in En; lia].
  destruct (trailing_zeros_spec_ok _ _ Ed) as (Hdz & Bd & _).
  destruct (trailing_zeros_spec_ok _ _ En) as (Hnz & Bn & _).
  destruct (tz_spec_divides _ _ Ed) as [_ Dd]. destruct (tz_spec_divides _ _ En) as [_ Dn].
  destruct (Z.ltb_spec 0 (Z.min nz dz)) as [Hz|Hz]; intros H; injection H as <-; unfold RInv2; cbn [fst snd].
  - set (z := Z.min nz dz) in *.
    pose proof (shiftr_exact n z ltac:(lia) (pow2_le_divides z nz n ltac:(lia) Dn)) as E1.
    pose proof (shiftr_exact d z ltac:(lia) (pow2_le_divides z dz d ltac:(lia) Dd)) as E2.
    pose proof (Z.pow_pos_nonneg 2 z ltac:(lia) ltac:(lia)) as Hp.
    split; [nia|]. split; [|nia].
    destruct (Z.le_ge_cases nz dz) as [L|L].
    + replace z with nz by lia. rewrite (shiftr_bit_odd n nz Hnz Bn). reflexivity.
    + replace z with dz by lia. rewrite (shiftr_bit_odd d dz Hdz Bd). apply andb_false_r.
  - split; [exact Hd|]. split; [|lia].
    assert (nz = 0 \/ dz = 0) as [-> | ->] by lia.
    + rewrite <- (Z.negb_odd n), <- Z.bit0_odd, Bn. reflexivity.
    + rewrite <- (Z.negb_odd d), <- Z.bit0_odd, Bd. apply andb_false_r.
Qed.

Theorem xfrom_parts_asis_RInv2 n d r : 0 < d -> xfrom_parts_asis n d = Ok r -> RInv2 r.
Proof.
  intros Hd. unfold xfrom_parts_asis. destruct (Z.eqb_spec d 0); [lia|]. apply reduce2_asis_RInv2. exact Hd.
Qed.

(* ---------------------------------------------------------------- the operations *)
(** + - * / % rem_euclid all end in [Relaxed::from_parts] *)
Theorem xbin_asis_RInv2 o x y r : RInv x -> RInv y -> xbin_asis o x y = Ok r -> RInv2 r.
Proof.
  destruct x as [a b], y as [c d]. unfold RInv. cbn [snd]. intros Hb Hd.
  destruct o; cbn [xbin_asis].
  - apply xfrom_parts_asis_RInv2. nia.
  - apply xfrom_parts_asis_RInv2. nia.
  - apply xfrom_parts_asis_RInv2. nia.
  - destruct (Z.eqb_spec c 0) as [|Hc]; [discriminate|]. apply xfrom_parts_asis_RInv2. nia.
  - destruct (Z.eqb_spec (Z.abs c * b) 0); [discriminate|]. apply xfrom_parts_asis_RInv2. nia.
  - destruct (Z.eqb_spec (c * b) 0); [discriminate|]. apply xfrom_parts_asis_RInv2. nia.
Qed.

Ltac parity :=
  unfold nc2 in *;
  rewrite ?Z.even_add, ?Z.even_sub, ?Z.even_mul, ?Z.even_opp in *;
  repeat match goal with |- context [Z.even ?t] => destruct (Z.even t) end;
  cbn in *; congruence.

Lemma even_abs a : Z.even (Z.abs a) = Z.even a.
Proof. destruct (Z.abs_eq_or_opp a) as [-> | ->]; [reflexivity | apply Z.even_opp]. Qed.
Lemma even_sgnz_mul s m : Z.even (sgnz s * m) = Z.even m.
Proof. destruct s; cbn [sgnz]; [rewrite Z.mul_1_l; reflexivity|]. replace (-1 * m) with (- m) by ring. apply Z.even_opp. Qed.

(** integer-mixed forms: the sums keep the denominator and do not call reduce2 - still no common factor two *)
Theorem xint_asis_RInvE u o x i r : RInvE x -> (u = true -> 0 <= i) -> xint_asis u o x i = Ok r -> RInvE r.
Proof.
  destruct x as [a b]. unfold RInvE at 1. cbn [fst snd]. intros [Hb Hp] Hu.
  destruct o; cbn [xint_asis].
  - intros H; injection H as <-. split; cbn [fst snd]; [exact Hb | parity].
  - intros H; injection H as <-. split; cbn [fst snd]; [exact Hb | parity].
  - intros H. apply RInv2_RInvE. eapply xfrom_parts_asis_RInv2; [|exact H]. exact Hb.
  - destruct (Z.eqb_spec i 0) as [|Hi]; [discriminate|]. destruct u; intros H; apply RInv2_RInvE.
    + specialize (Hu eq_refl). eapply xfrom_parts_asis_RInv2; [|exact H]. nia.
    + eapply xfrom_parts_asis_RInv2; [|exact H]. nia.
  - intros H; injection H as <-. split; cbn [fst snd]; [exact Hb | parity].
  - destruct (Z.eqb_spec a 0) as [|Ha]; [discriminate|]. intros H. apply RInv2_RInvE.
    eapply xfrom_parts_asis_RInv2; [|exact H]. lia.
Qed.

(** neg abs inv sqr cubic signum fract are [Repr] methods without any reduction *)
Theorem xun_asis_RInvE o x r : RInvE x -> xun_asis o x = Ok r -> RInvE r.
Proof.
  destruct x as [a b]. unfold RInvE at 1, xun_asis. cbn [fst snd]. intros [Hb Hp].
  destruct o; cbn [un_asis inv_asis].
  - intros H; injection H as <-. split; cbn [fst snd]; [exact Hb | parity].
  - intros H; injection H as <-. split; cbn [fst snd]; [exact Hb |]. unfold nc2 in *. rewrite even_abs. exact Hp.
  - destruct (Z.eqb_spec a 0) as [|Ha]; [discriminate|]. intros H; injection H as <-.
    split; cbn [fst snd]; [lia|]. unfold nc2, signed in *. rewrite even_abs, even_sgnz_mul.
    rewrite andb_comm. exact Hp.
  - intros H; injection H as <-. split; cbn [fst snd]; [nia | parity].
  - intros H; injection H as <-. split; cbn [fst snd]; [nia | parity].
  - intros H; injection H as <-. split; cbn [fst snd]; [lia|]. unfold nc2. apply andb_false_r.
  - intros H; injection H as <-. unfold fract_asis. destruct (Z.eqb_spec (Z.rem a b) 0) as [E|E].
    + split; cbn [fst snd]; [lia | reflexivity].
    + split; cbn [fst snd]; [exact Hb|].
      pose proof (Z.quot_rem' a b) as Q. unfold nc2 in *.
      assert (Ea : Z.even a = Bool.eqb (Z.even b || Z.even (Z.quot a b)) (Z.even (Z.rem a b))).
      { rewrite Q at 1. rewrite Z.even_add, Z.even_mul. reflexivity. }
      rewrite Ea in Hp.
      destruct (Z.even b), (Z.even (Z.quot a b)), (Z.even (Z.rem a b)); cbn in *; congruence.
Qed.

Theorem xpow_asis_RInvE x e : RInvE x -> 0 <= e -> RInvE (xpow_asis x e).
Proof.
  destruct x as [a b]. unfold RInvE, xpow_asis, pow_asis, nc2. cbn [fst snd]. intros [Hb Hp] He.
  split; [apply Z.pow_pos_nonneg; lia|].
  destruct (Z.eq_dec e 0) as [->|Hne].
  - rewrite !Z.pow_0_r. reflexivity.
  - rewrite !Z.even_pow by lia. exact Hp.
Qed.

Theorem xmulsign_RInvE s x : RInvE x -> RInvE (mulsign_asis s x).
Proof.
  destruct x as [a b]. unfold RInvE, mulsign_asis, nc2. cbn [fst snd]. intros [Hb Hp]. split; [exact Hb|].
  rewrite Z.mul_comm, even_sgnz_mul. exact Hp.
Qed.

(** the constructors *)
Theorem xfrom_parts_const_asis_RInvE s n d r : 0 <= n -> 0 <= d -> xfrom_parts_const_asis s n d = Ok r -> RInvE r.
Proof.
  intros Hn0 Hd0. unfold xfrom_parts_const_asis.
  destruct (Z.eqb_spec d 0) as [|Hd]; [discriminate|]. destruct (Z.eqb_spec n 0) as [|Hn].
  { intros H; injection H as <-. split; cbn [fst snd]; [lia | reflexivity]. }
  destruct (trailing_zeros_spec d) as [dz|] eqn:Ed; [|apply trailing_zeros_spec_none in Ed; lia].
  destruct (trailing_zeros_spec n) as [nz|] eqn:En; [|apply trailing_zeros_spec_none in En; lia].
  destruct (trailing_zeros_spec_ok _ _ Ed) as (Hdz & Bd & _).
  destruct (trailing_zeros_spec_ok _ _ En) as (Hnz & Bn & _).
  destruct (tz_spec_divides _ _ Ed) as [_ Dd].
  intros H; injection H as <-. unfold RInvE, nc2, signed. cbn [fst snd]. rewrite even_sgnz_mul.
  destruct (Z.leb_spec nz dz) as [L|L].
  - pose proof (shiftr_exact d nz ltac:(lia) (pow2_le_divides nz dz d ltac:(lia) Dd)) as E2.
    pose proof (Z.pow_pos_nonneg 2 nz ltac:(lia) ltac:(lia)) as Hp.
    split; [nia|]. rewrite (shiftr_bit_odd n nz Hnz Bn). reflexivity.
  - pose proof (shiftr_exact d dz ltac:(lia) Dd) as E2.
    pose proof (Z.pow_pos_nonneg 2 dz ltac:(lia) ltac:(lia)) as Hp.
    split; [nia|]. rewrite (shiftr_bit_odd d dz Hdz Bd). apply andb_false_r.
Qed.

(** what is NOT kept: a zero produced by an integer-mixed sum keeps the old denominator *)
Lemma xint_zero_not_normalised :
  RInvE (3, 3) /\ xint_asis false ISub (3, 3) 1 = Ok (0, 3) /\ ~ RInv2 (0, 3) /\ RInvE (0, 3).
Proof.
  split; [split; [cbn; lia | reflexivity]|]. split; [reflexivity|]. split.
  - unfold RInv2. cbn [fst snd]. intros (_ & _ & H). specialize (H eq_refl). discriminate.
  - split; [cbn; lia | reflexivity].
Qed.

(* ---------------------------------------------------------------- all finite histories *)
Lemma RInvE_default : RInvE (0, 1).
Proof. split; [cbn; lia | reflexivity]. Qed.

Lemma heval_xasis_RInvE p o r : Forall RInvE p -> heval_xasis p o = Ok r -> RInvE r.
Proof.
  intros Hp. assert (G : forall i, RInvE (pget p i)) by (intros i; apply pget_Forall; [exact RInvE_default | exact Hp]).
  destruct o; cbn [heval_xasis].
  - intros H. apply RInv2_RInvE. eapply xbin_asis_RInv2; [| |exact H]; apply RInvE_RInv, G.
  - apply xun_asis_RInvE, G.
  - intros H; injection H as <-. apply xpow_asis_RInvE; [apply G | apply N2Z.is_nonneg].
  - apply xint_asis_RInvE; [apply G | discriminate].
  - apply xint_asis_RInvE; [apply G | intros _; apply N2Z.is_nonneg].
Qed.

Lemma hstep_xasis_RInvE p o : Forall RInvE p -> Forall RInvE (hstep heval_xasis p o).
Proof.
  intros Hp. unfold hstep. destruct (heval_xasis p o) as [r| | |] eqn:E; try exact Hp.
  apply pset_Forall; [exact Hp | eapply heval_xasis_RInvE; eassumption].
Qed.

Theorem hrun_xasis_RInvE ops : forall p, Forall RInvE p -> Forall RInvE (hrun heval_xasis ops p).
Proof.
  unfold hrun. induction ops as [|o ops IH]; intros p Hp; cbn [fold_left]; [exact Hp|].
  apply IH. apply hstep_xasis_RInvE. exact Hp.
Qed.

Example hrun_xasis_RInvE_nonvacuous :
  hrun heval_xasis [HInt ISub 0%nat 1 1%nat; HBin OAdd 1%nat 0%nat 0%nat] [(3, 3); (1, 2)] = [(9, 9); (0, 3)].
Proof. reflexivity. Qed.
