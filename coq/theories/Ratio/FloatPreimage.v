(** C18 - the rounding interval of the SPECIFICATION of simplest_from_float is exactly the preimage
    of the float under its rounding rule: for every base B >= 2, mode, precision p >= 1 and non-zero
    significand of at most p digits, a canonical fraction x is a member of
    [float_interval_spec B md p sig ex] iff x, rounded to p significant digits in base B under the
    mode (declaratively: [rounds_to], through the shared [spec_round]), gives sig * B^ex. *)
From Dashu Require Import Base.Prelude Ratio.BinIter Float.RoundSpec Float.RoundSpecProof Ratio.SimplestSpec Ratio.SimplestModel
  Ratio.SimplerOrder Ratio.SimplestProof Ratio.SimplestAsis Ratio.FareyProof Ratio.SimplestClosed Ratio.SimplestFindings
  Ratio.SimplestFloatEq Ratio.RoundPreimage.
Open Scope Z_scope.

(** x / B^k as a pair numerator, denominator (k of either sign) *)
Definition qscale (B k : Z) (x : frac) : Z * Z :=
  if 0 <=? k then (fst x, snd x * B ^ k) else (fst x * B ^ (- k), snd x).

(** x rounded to p significant digits in base B under mode md is the fraction y: there is a digit
    position k with B^(p-1) <= |x| / B^k < B^p (the p-digit window of x) and y = round(x / B^k) * B^k *)
Definition rounds_to (B : Z) (md : mode) (p : Z) (x y : frac) : Prop :=
  exists k, B ^ (p - 1) * snd (qscale B k x) <= Z.abs (fst (qscale B k x)) < B ^ p * snd (qscale B k x) /\
            y = scaled B (spec_round md (fst (qscale B k x)) (snd (qscale B k x))) k 1.

(** ** digits *)
Lemma ndigits_fuel_spec : forall f B m, 2 <= B -> 0 < m -> m < 2 ^ Z.of_nat f ->
  B ^ (ndigits_fuel f B m - 1) <= m < B ^ (ndigits_fuel f B m).
Proof.
  induction f as [|f IH]; intros B m HB Hm Hf.
  - cbn in Hf. lia.
  - cbn [ndigits_fuel]. destruct (Z.ltb_spec m B) as [H|H].
    + cbn. lia.
    + assert (Hq : 0 < m / B) by (apply Z.div_str_pos; lia).
      assert (Hq2 : m / B < 2 ^ Z.of_nat f).
      { apply Z.div_lt_upper_bound; [lia|]. rewrite Nat2Z.inj_succ, Z.pow_succ_r in Hf by lia.
        assert (0 < 2 ^ Z.of_nat f) by (apply Z.pow_pos_nonneg; lia). nia. }
      specialize (IH B (m / B) HB Hq Hq2). pose proof (ndigits_fuel_nonneg f B (m / B)) as Hn.
      set (n := ndigits_fuel f B (m / B)) in *. clearbody n.
      assert (n <> 0). { intros ->. cbn in IH. lia. }
      replace (1 + n - 1) with (1 + (n - 1)) by ring. rewrite !Z.pow_add_r, Z.pow_1_r by lia.
      pose proof (Z.div_mod m B ltac:(lia)). pose proof (Z.mod_pos_bound m B ltac:(lia)).
      assert (0 < B ^ (n - 1)) by (apply Z.pow_pos_nonneg; lia). nia.
Qed.

Lemma ndigits_spec : forall B m, 2 <= B -> 0 < m -> B ^ (ndigits B m - 1) <= m < B ^ (ndigits B m).
Proof.
  intros B m HB Hm. unfold ndigits. destruct (Z.leb_spec m 0); [lia|].
  apply ndigits_fuel_spec; [exact HB|exact Hm|]. pose proof (Z.log2_nonneg m).
  rewrite Z2Nat.id by lia. apply Z.log2_lt_pow2; lia.
Qed.

(** ** units *)
Lemma qscale_pos : forall B k x, 0 < B -> 0 < snd x -> 0 < snd (qscale B k x).
Proof.
  intros B k x HB Hx. unfold qscale. destruct (Z.leb_spec 0 k); cbn [snd]; [|exact Hx].
  apply Z.mul_pos_pos; [exact Hx|apply Z.pow_pos_nonneg; lia].
Qed.

Lemma uval_qscale : forall B t x, 0 < B -> uval B t x (fst (qscale B t x)) (snd (qscale B t x)).
Proof.
  intros B t x HB. unfold uval, qscale. destruct (Z.leb_spec 0 t); cbn [fst snd].
  - rewrite Z.abs_eq by lia. rewrite Z.pow_add_r by lia. ring.
  - rewrite Z.abs_neq by lia. replace (t + - t) with 0 by ring. rewrite Z.pow_0_r. ring.
Qed.

Lemma qscale_step : forall B t x, 0 < B ->
  fst (qscale B (t + 1) x) * (snd (qscale B t x) * B) = fst (qscale B t x) * snd (qscale B (t + 1) x).
Proof.
  intros B t x HB. unfold qscale.
  destruct (Z.leb_spec 0 t); destruct (Z.leb_spec 0 (t + 1)); try lia; cbn [fst snd].
  - rewrite Z.pow_add_r, Z.pow_1_r by lia. ring.
  - assert (t = -1) by lia. subst t. change (- (-1)) with 1. change (-1 + 1) with 0. rewrite Z.pow_0_r, Z.pow_1_r. ring.
  - replace (- t) with (- (t + 1) + 1) by ring. rewrite Z.pow_add_r, Z.pow_1_r by lia. ring.
Qed.

Section UnitsCmp.
  Variables B t : Z.
  Hypothesis HB : 0 < B.

  Lemma uval_lt : forall x y X1 D1 X2 D2, 0 < snd x -> 0 < snd y -> 0 < D1 -> 0 < D2 ->
    uval B t x X1 D1 -> uval B t y X2 D2 -> (fval_lt x y <-> X1 * D2 < X2 * D1).
  Proof.
    intros x y X1 D1 X2 D2 Hx Hy HD1 HD2 Ux Uy. unfold uval, fval_lt in *.
    pose proof (BK_pos B t HB) as HK. pose proof (P_pos B t HB) as HP.
    set (K := B ^ Z.abs t) in *. set (P := B ^ (t + Z.abs t)) in *. clearbody K P.
    assert (E1 : (fst x * snd y) * (D1 * D2 * K) = (X1 * D2) * (P * snd x * snd y)).
    { transitivity ((fst x * D1 * K) * (snd y * D2)); [ring|]. rewrite Ux. ring. }
    assert (E2 : (fst y * snd x) * (D1 * D2 * K) = (X2 * D1) * (P * snd x * snd y)).
    { transitivity ((fst y * D2 * K) * (snd x * D1)); [ring|]. rewrite Uy. ring. }
    assert (H1 : 0 < D1 * D2 * K) by (repeat apply Z.mul_pos_pos; assumption).
    assert (H2 : 0 < P * snd x * snd y) by (repeat apply Z.mul_pos_pos; assumption).
    rewrite (Z.mul_lt_mono_pos_r (D1 * D2 * K)) by exact H1. rewrite E1, E2.
    rewrite <- (Z.mul_lt_mono_pos_r (P * snd x * snd y)) by exact H2. reflexivity.
  Qed.

  Lemma uval_eq_inv : forall x X1 D1 X2 D2, 0 < snd x -> uval B t x X1 D1 -> uval B t x X2 D2 -> X1 * D2 = X2 * D1.
  Proof.
    intros x X1 D1 X2 D2 Hx U1 U2. unfold uval in *.
    pose proof (BK_pos B t HB) as HK. pose proof (P_pos B t HB) as HP.
    set (K := B ^ Z.abs t) in *. set (P := B ^ (t + Z.abs t)) in *. clearbody K P.
    assert (E : (X1 * D2) * (P * snd x) = (X2 * D1) * (P * snd x)).
    { transitivity ((X1 * P * snd x) * D2); [ring|]. rewrite <- U1.
      transitivity ((fst x * D2 * K) * D1); [ring|]. rewrite U2. ring. }
    apply Z.mul_cancel_r in E; [exact E|]. assert (0 < P * snd x) by (apply Z.mul_pos_pos; assumption). lia.
  Qed.
End UnitsCmp.

(** equal scaled values: the significands differ by the power of the base between the exponents *)
Lemma scaled_eq_inv : forall B Y1 k1 Y2 k2, 0 < B -> k1 <= k2 -> scaled B Y1 k1 1 = scaled B Y2 k2 1 ->
  Y1 = Y2 * B ^ (k2 - k1).
Proof.
  intros B Y1 k1 Y2 k2 HB Hk E.
  pose proof (uval_scaled B k1 HB Y1 1 ltac:(lia)) as U1.
  pose proof (uval_shift B k1 HB Y2 k2 1 (k2 - k1) ltac:(ring) ltac:(lia) ltac:(lia)) as U2.
  rewrite <- E in U2.
  pose proof (uval_eq_inv B k1 HB _ _ _ _ _ (scaled_pos B Y1 k1 1 HB ltac:(lia)) U1 U2). lia.
Qed.

(** ** the specification's interval, read as a table in units *)
Lemma float_interval_spec_table : forall B md p sig ex, (p =? 0) = false ->
  float_interval_spec B md p sig ex =
  let a := Z.abs sig in let dg := ndigits B a in let m := a * B ^ (p - dg) in let t := ex + dg - p - 1 in
  let c := 2 * m * B in let neg := sig <? 0 in
  let '(bl, ab, itz, iaw) := interval_table md neg (m =? B ^ (p - 1)) B m in
  if neg then (fneg (scaled B (c + ab) t 2), fneg (scaled B (c - bl) t 2), iaw, itz)
  else (scaled B (c - bl) t 2, scaled B (c + ab) t 2, itz, iaw).
Proof.
  intros B md p sig ex Hp. unfold float_interval_spec, interval_table. rewrite Hp. cbv zeta.
  destruct md, (sig <? 0); reflexivity.
Qed.

Lemma member_iff : forall lo hi ilo ihi x, canon x ->
  (member (lo, hi, ilo, ihi) x <->
   (fval_lt lo x /\ fval_lt x hi) \/ (if ilo then x = lo else False) \/ (if ihi then x = hi else False)).
Proof.
  intros lo hi ilo ihi x Cx. unfold member. destruct ilo, ihi; split.
  all: try (intros (_ & [H|[(_ & H)|(_ & H)]]); try discriminate; tauto).
  all: try (intros (_ & [H|[(E & H)|(E & H)]]); try discriminate; tauto).
  all: intros [H|[H|H]]; try contradiction; split; try exact Cx; tauto.
Qed.

Section FloatPre.
  Variables B p sig ex : Z.
  Variable md : mode.
  Hypothesis HB : 2 <= B.
  Hypothesis Hp : 1 <= p.
  Hypothesis Hs : sig <> 0.
  Hypothesis Hdg : ndigits B (Z.abs sig) <= p.

  Let a := Z.abs sig.
  Let dg := ndigits B a.
  Let m := a * B ^ (p - dg).
  Let t := ex + dg - p - 1.
  Let P1 := B ^ (p - 1).
  Let neg := sig <? 0.
  Let s := if neg then -1 else 1.
  Let f := scaled B sig ex 1.

  Lemma fp_B : 0 < B. Proof. lia. Qed.
  Lemma fp_a : 0 < a. Proof. unfold a. lia. Qed.
  Lemma fp_dg : 1 <= dg <= p. Proof. split; [apply ndigits_pos, fp_a|exact Hdg]. Qed.
  Lemma fp_P1 : 1 <= P1. Proof. unfold P1. assert (0 < B ^ (p - 1)) by (apply Z.pow_pos_nonneg; lia). lia. Qed.
  Lemma fp_Bp : B ^ p = P1 * B.
  Proof. unfold P1. replace p with ((p - 1) + 1) at 1 by ring. rewrite Z.pow_add_r, Z.pow_1_r by lia. reflexivity. Qed.

  Lemma fp_m : P1 <= m < P1 * B.
  Proof.
    pose proof (ndigits_spec B a HB fp_a) as H. fold dg in H. pose proof fp_dg as Hd.
    assert (HQ : 0 < B ^ (p - dg)) by (apply Z.pow_pos_nonneg; lia).
    assert (E1 : P1 = B ^ (dg - 1) * B ^ (p - dg)) by (unfold P1; rewrite <- Z.pow_add_r by lia; f_equal; ring).
    assert (E2 : P1 * B = B ^ dg * B ^ (p - dg)) by (rewrite <- fp_Bp, <- Z.pow_add_r by lia; f_equal; ring).
    unfold m. rewrite E2, E1. nia.
  Qed.

  Lemma fp_ev : Z.even (P1 * B) = Z.even B.
  Proof. rewrite <- fp_Bp. apply Z.even_pow. lia. Qed.

  Lemma fp_sig : sig * B ^ (p - dg + 1) = s * m * B.
  Proof.
    pose proof fp_dg. rewrite Z.pow_add_r, Z.pow_1_r by lia. unfold s, neg, m, a.
    destruct (Z.ltb_spec sig 0); [rewrite Z.abs_neq by lia|rewrite Z.abs_eq by lia]; ring.
  Qed.

  Lemma fp_f_units : uval B t f (s * m * B) 1.
  Proof.
    rewrite <- fp_sig. apply uval_shift; [exact fp_B|unfold t; ring|pose proof fp_dg; lia|lia].
  Qed.

  Lemma fp_f_pos : 0 < snd f. Proof. apply scaled_pos; [exact fp_B|lia]. Qed.

  Lemma fp_f_as : forall Y k j, k = t + j -> 0 <= j -> Y * B ^ j = s * m * B -> f = scaled B Y k 1.
  Proof.
    intros Y k j Hk Hj E.
    apply (uval_inj B t fp_B _ _ (s * m * B) 1 (Y * B ^ j) 1); try lia.
    - apply scaled_canon; [exact fp_B|lia].
    - apply scaled_canon; [exact fp_B|lia].
    - exact fp_f_units.
    - apply uval_shift; [exact fp_B|exact Hk|exact Hj|lia].
  Qed.

  Variable x : frac.
  Hypothesis Cx : canon x.
  Let X := fst (qscale B t x).
  Let D := snd (qscale B t x).

  Lemma fp_D : 0 < D. Proof. apply qscale_pos; [exact fp_B|exact (proj1 Cx)]. Qed.
  Lemma fp_x_units : uval B t x X D. Proof. apply uval_qscale, fp_B. Qed.

  Lemma fp_lt_l : forall Y, fval_lt (scaled B Y t 2) x <-> Y * D < 2 * X.
  Proof.
    intros Y. rewrite (uval_lt B t fp_B _ _ Y 2 X D (scaled_pos B Y t 2 fp_B ltac:(lia)) (proj1 Cx) ltac:(lia) fp_D
      (uval_scaled B t fp_B Y 2 ltac:(lia)) fp_x_units). lia.
  Qed.

  Lemma fp_lt_r : forall Y, fval_lt x (scaled B Y t 2) <-> 2 * X < Y * D.
  Proof.
    intros Y. rewrite (uval_lt B t fp_B _ _ X D Y 2 (proj1 Cx) (scaled_pos B Y t 2 fp_B ltac:(lia)) fp_D ltac:(lia)
      fp_x_units (uval_scaled B t fp_B Y 2 ltac:(lia))). lia.
  Qed.

  Lemma fp_eq : forall Y, x = scaled B Y t 2 <-> 2 * X = Y * D.
  Proof.
    intros Y. split.
    - intros E. pose proof (uval_scaled B t fp_B Y 2 ltac:(lia)) as U. rewrite <- E in U.
      pose proof (uval_eq_inv B t fp_B x X D Y 2 (proj1 Cx) fp_x_units U). lia.
    - intros E. apply (uval_inj B t fp_B _ _ X D Y 2); try lia.
      + exact Cx.
      + apply scaled_canon; [exact fp_B|lia].
      + exact fp_D.
      + exact fp_x_units.
      + apply uval_scaled; [exact fp_B|lia].
  Qed.

  (** step 1: membership in the specified interval, in units *)
  Lemma member_units_gen : forall (b : bool) bl ab itz iaw,
    member (if b then (fneg (scaled B (2 * m * B + ab) t 2), fneg (scaled B (2 * m * B - bl) t 2), iaw, itz)
            else (scaled B (2 * m * B - bl) t 2, scaled B (2 * m * B + ab) t 2, itz, iaw)) x <->
    (if b then (- (2 * m * B + ab) * D < 2 * X < - (2 * m * B - bl) * D) \/ (if iaw then 2 * X = - (2 * m * B + ab) * D else False) \/
               (if itz then 2 * X = - (2 * m * B - bl) * D else False)
     else ((2 * m * B - bl) * D < 2 * X < (2 * m * B + ab) * D) \/ (if itz then 2 * X = (2 * m * B - bl) * D else False) \/
          (if iaw then 2 * X = (2 * m * B + ab) * D else False)).
  Proof.
    intros b bl ab itz iaw. destruct b.
    - rewrite !fneg_scaled by (try exact fp_B; lia). rewrite member_iff by exact Cx.
      rewrite fp_lt_l, fp_lt_r.
      assert (E1 : (if iaw then x = scaled B (- (2 * m * B + ab)) t 2 else False) <-> (if iaw then 2 * X = - (2 * m * B + ab) * D else False))
        by (destruct iaw; [apply fp_eq|tauto]).
      assert (E2 : (if itz then x = scaled B (- (2 * m * B - bl)) t 2 else False) <-> (if itz then 2 * X = - (2 * m * B - bl) * D else False))
        by (destruct itz; [apply fp_eq|tauto]).
      rewrite E1, E2. tauto.
    - rewrite member_iff by exact Cx. rewrite fp_lt_l, fp_lt_r.
      assert (E1 : (if itz then x = scaled B (2 * m * B - bl) t 2 else False) <-> (if itz then 2 * X = (2 * m * B - bl) * D else False))
        by (destruct itz; [apply fp_eq|tauto]).
      assert (E2 : (if iaw then x = scaled B (2 * m * B + ab) t 2 else False) <-> (if iaw then 2 * X = (2 * m * B + ab) * D else False))
        by (destruct iaw; [apply fp_eq|tauto]).
      rewrite E1, E2. tauto.
  Qed.

  Lemma member_units : member (float_interval_spec B md p sig ex) x <-> in_units md neg B P1 m X D.
  Proof.
    rewrite float_interval_spec_table by (apply Z.eqb_neq; lia). cbv zeta.
    fold a. fold dg. fold m. fold t. fold P1. fold neg. unfold in_units.
    destruct (interval_table md neg (m =? P1) B m) as [[[bl ab] itz] iaw].
    apply member_units_gen.
  Qed.

  (** step 2: rounding to p digits, in units *)
  Let N1 := fst (qscale B (t + 1) x).
  Let d1 := snd (qscale B (t + 1) x).

  Lemma fp_d1 : 0 < d1. Proof. apply qscale_pos; [exact fp_B|exact (proj1 Cx)]. Qed.
  Lemma fp_DB : 0 < D * B. Proof. pose proof fp_D. pose proof fp_B. nia. Qed.
  Lemma fp_step : N1 * (D * B) = X * d1. Proof. apply qscale_step, fp_B. Qed.
  Lemma fp_step_abs : Z.abs N1 * (D * B) = Z.abs X * d1.
  Proof.
    pose proof fp_DB. pose proof fp_d1.
    rewrite <- (Z.abs_eq (D * B)) at 1 by lia. rewrite <- Z.abs_mul, fp_step, Z.abs_mul, (Z.abs_eq d1) by lia. reflexivity.
  Qed.

  Lemma fp_binade1 : (B ^ (p - 1) * d1 <= Z.abs N1 < B ^ p * d1) <-> (P1 * B * D <= Z.abs X < P1 * B * B * D).
  Proof.
    destruct (scale_cmp P1 1 (Z.abs N1) d1 (Z.abs X) (D * B) fp_d1 fp_DB fp_step_abs) as (A1 & _ & _ & _).
    destruct (scale_cmp (P1 * B) 1 (Z.abs N1) d1 (Z.abs X) (D * B) fp_d1 fp_DB fp_step_abs) as (_ & _ & _ & A4).
    rewrite fp_Bp. change (B ^ (p - 1)) with P1. lia.
  Qed.

  Lemma fp_round1 : spec_round md N1 d1 = spec_round md X (D * B).
  Proof. apply spec_round_eqv; [exact fp_d1|exact fp_DB|exact fp_step]. Qed.

  Lemma rounds_units_to : rounds_units md neg B P1 m X D -> rounds_to B md p x f.
  Proof.
    unfold rounds_units. cbv zeta. fold s. intros [(Hb & Hpre)|(Hb & Hpre)].
    - exists (t + 1). fold N1 d1. split; [apply fp_binade1; exact Hb|].
      rewrite fp_round1. rewrite (proj2 (spec_round_preimage md X (D * B) (s * m) fp_DB) Hpre).
      apply (fp_f_as (s * m) (t + 1) 1); [ring|lia|rewrite Z.pow_1_r; ring].
    - exists t. fold X D. split; [rewrite fp_Bp; change (B ^ (p - 1)) with P1; lia|].
      rewrite (proj2 (spec_round_preimage md X D (s * m * B) fp_D) Hpre).
      apply (fp_f_as (s * m * B) t 0); [ring|lia|rewrite Z.pow_0_r; ring].
  Qed.

  Lemma fp_s_abs : forall z, Z.abs (s * z) = Z.abs z.
  Proof. intros z. unfold s. destruct neg; lia. Qed.

  Lemma rounds_to_units : rounds_to B md p x f -> rounds_units md neg B P1 m X D.
  Proof.
    intros (k & Hb & Hf). unfold rounds_units. cbv zeta. fold s.
    set (Nk := fst (qscale B k x)) in *. set (dk := snd (qscale B k x)) in *.
    assert (Hdk : 0 < dk) by (apply qscale_pos; [exact fp_B|exact (proj1 Cx)]).
    set (r := spec_round md Nk dk) in *.
    assert (Hr : P1 <= Z.abs r <= P1 * B).
    { rewrite <- fp_Bp. apply (spec_round_abs_bounds md Nk dk (B ^ (p - 1)) (B ^ p) Hdk); [pose proof fp_P1; unfold P1 in *; lia|lia|lia]. }
    pose proof fp_m as Hm. pose proof fp_P1 as HP1. pose proof fp_B as HB0.
    rewrite (fp_f_as (s * m * B) t 0 ltac:(ring) ltac:(lia) ltac:(rewrite Z.pow_0_r; ring)) in Hf.
    destruct (Z_lt_le_dec k t) as [Hk|Hk].
    - exfalso. symmetry in Hf. apply scaled_eq_inv in Hf; [|exact fp_B|lia].
      assert (HQ : B <= B ^ (t - k)).
      { rewrite <- (Z.pow_1_r B) at 1. apply Z.pow_le_mono_r; lia. }
      assert (Ea : Z.abs r = m * B * B ^ (t - k)).
      { rewrite Hf. rewrite <- !Z.mul_assoc, fp_s_abs, !Z.abs_mul. rewrite (Z.abs_eq m), (Z.abs_eq B), (Z.abs_eq (B ^ (t - k))) by lia. ring. }
      assert (P1 * B * B <= m * B * B ^ (t - k)) by (apply Z.mul_le_mono_nonneg; nia). nia.
    - apply scaled_eq_inv in Hf; [|exact fp_B|exact Hk].
      destruct (Z.eq_dec k t) as [Ekt|Nkt]; [|destruct (Z.eq_dec k (t + 1)) as [Ekt|Nkt1]].
      + (* the binade below: only powers of the base *)
        right. subst k. rewrite Z.sub_diag, Z.pow_0_r, Z.mul_1_r in Hf. fold X D in Nk, dk. subst Nk dk.
        split; [rewrite fp_Bp in Hb; change (B ^ (p - 1)) with P1 in Hb; lia|].
        rewrite Hf. apply spec_round_preimage; [exact fp_D|reflexivity].
      + (* the binade of the float *)
        left. subst k. replace (t + 1 - t) with 1 in Hf by ring. rewrite Z.pow_1_r in Hf.
        assert (Er : r = s * m) by nia. fold N1 d1 in Nk, dk. subst Nk dk.
        split; [apply fp_binade1; exact Hb|].
        apply (preimage_eqv md (s * m) N1 d1 X (D * B) fp_d1 fp_DB fp_step).
        rewrite <- Er. apply spec_round_preimage; [exact fp_d1|reflexivity].
      + exfalso.
        assert (HQ : B * B <= B ^ (k - t)).
        { replace (B * B) with (B ^ 2) by ring. apply Z.pow_le_mono_r; lia. }
        assert (Ea : m * B = Z.abs r * B ^ (k - t)).
        { assert (E0 : Z.abs (s * m * B) = Z.abs (r * B ^ (k - t))) by (rewrite Hf; reflexivity).
          rewrite <- Z.mul_assoc, fp_s_abs, !Z.abs_mul in E0.
          rewrite (Z.abs_eq m), (Z.abs_eq B), (Z.abs_eq (B ^ (k - t))) in E0 by lia. exact E0. }
        assert (P1 * (B * B) <= Z.abs r * B ^ (k - t)) by (apply Z.mul_le_mono_nonneg; lia). nia.
  Qed.

  Theorem float_interval_preimage_x : member (float_interval_spec B md p sig ex) x <-> rounds_to B md p x f.
  Proof.
    rewrite member_units.
    rewrite (interval_units_preimage B P1 m X D HB fp_P1 fp_m fp_D fp_ev md neg).
    split; [exact rounds_units_to|exact rounds_to_units].
  Qed.
End FloatPre.

(** the specified rounding interval of an FBig IS the preimage of the float under its rounding rule *)
Theorem float_interval_is_preimage : forall B md p sig ex x, 2 <= B -> 1 <= p -> sig <> 0 -> ndigits B (Z.abs sig) <= p ->
  canon x ->
  (member (float_interval_spec B md p sig ex) x <-> rounds_to B md p x (scaled B sig ex 1)).
Proof. intros B md p sig ex x HB Hp Hs Hdg Cx. exact (float_interval_preimage_x B p sig ex md HB Hp Hs Hdg x Cx). Qed.

Example float_interval_is_preimage_nonvacuous :
  rounds_to 10 MHalfEven 3 (4, 3) (scaled 10 133 (-2) 1) /\ member (float_interval_spec 10 MHalfEven 3 133 (-2)) (4, 3) /\
  ~ member (float_interval_spec 2 MHalfEven 3 5 1) (9, 1) /\ member (float_interval_spec 2 MHalfEven 3 4 1) (9, 1).
Proof.
  assert (C43 : canon (4, 3)) by (split; [cbn; lia|reflexivity]).
  assert (C91 : canon (9, 1)) by (split; [cbn; lia|reflexivity]).
  assert (R1 : rounds_to 10 MHalfEven 3 (4, 3) (scaled 10 133 (-2) 1)).
  { exists (-2). split; [vm_compute; split; [discriminate|reflexivity]|vm_compute; reflexivity]. }
  split; [exact R1|]. split; [|split].
  - apply float_interval_is_preimage; [lia|lia|lia|vm_compute; discriminate|exact C43|exact R1].
  - unfold member. vm_compute. intros (_ & [(H1 & H2)|[(H1 & H2)|(H1 & H2)]]); discriminate.
  - apply float_interval_is_preimage; [lia|lia|lia|vm_compute; discriminate|exact C91|].
    exists 1. split; [vm_compute; split; [discriminate|reflexivity]|vm_compute; reflexivity].
Qed.

(** ** what the specification of simplest_from_float means: THE simplest canonical fraction among
    those that round to the float *)
Lemma interval_table_pos : forall md neg pw B m, 2 <= B ->
  0 <= fst (fst (fst (interval_table md neg pw B m))) /\ 0 <= snd (fst (fst (interval_table md neg pw B m))) /\
  0 < fst (fst (fst (interval_table md neg pw B m))) + snd (fst (fst (interval_table md neg pw B m))).
Proof.
  intros md neg pw B m HB. assert (HU : 2 * B / 2 = B) by (rewrite Z.mul_comm; apply Z.div_mul; lia).
  unfold interval_table. destruct md, neg, pw; cbn [fst snd]; rewrite ?HU; change (2 / 2) with 1; lia.
Qed.

Lemma scaledB_lt : forall B t Y1 Y2 d0, 0 < B -> 0 < d0 -> Y1 < Y2 -> fval_lt (scaled B Y1 t d0) (scaled B Y2 t d0).
Proof.
  intros B t Y1 Y2 d0 HB Hd H.
  apply (uval_lt B t HB _ _ Y1 d0 Y2 d0); try lia; try (apply scaled_pos; lia); try (apply uval_scaled; lia). nia.
Qed.

Lemma float_interval_spec_wf : forall B md p sig ex, 2 <= B -> 1 <= p ->
  canon (fst (fst (fst (float_interval_spec B md p sig ex)))) /\
  canon (snd (fst (fst (float_interval_spec B md p sig ex)))) /\
  fval_lt (fst (fst (fst (float_interval_spec B md p sig ex)))) (snd (fst (fst (float_interval_spec B md p sig ex)))).
Proof.
  intros B md p sig ex HB Hp. rewrite float_interval_spec_table by (apply Z.eqb_neq; lia). cbv zeta.
  set (m := Z.abs sig * B ^ (p - ndigits B (Z.abs sig))). set (t := ex + ndigits B (Z.abs sig) - p - 1).
  pose proof (interval_table_pos md (sig <? 0) (m =? B ^ (p - 1)) B m HB) as (H1 & H2 & H3).
  destruct (interval_table md (sig <? 0) (m =? B ^ (p - 1)) B m) as [[[bl ab] itz] iaw]. cbn [fst snd] in H1, H2, H3.
  destruct (sig <? 0); cbn [fst snd].
  - rewrite !fneg_scaled by lia. repeat split; try (apply scaled_canon; lia). apply scaledB_lt; lia.
  - repeat split; try (apply scaled_canon; lia). apply scaledB_lt; lia.
Qed.

Theorem simplest_from_float_spec_meaning : forall B md p sig ex,
  2 <= B -> 1 <= p -> sig <> 0 -> ndigits B (Z.abs sig) <= p ->
  exists r, simplest_from_float_spec B md p sig ex = Ok (Some r) /\ canon r /\
    rounds_to B md p r (scaled B sig ex 1) /\
    forall s, canon s -> rounds_to B md p s (scaled B sig ex 1) -> s <> r -> simpler r s = true.
Proof.
  intros B md p sig ex HB Hp Hs Hdg.
  pose proof (float_interval_spec_wf B md p sig ex HB Hp) as (Clo & Chi & Hlt).
  pose proof (fun x Cx => float_interval_is_preimage B md p sig ex x HB Hp Hs Hdg Cx) as Pre.
  unfold simplest_from_float_spec. rewrite (proj2 (Z.eqb_neq sig 0) Hs).
  destruct (float_interval_spec B md p sig ex) as [[[lo hi] ilo] ihi]. cbn [fst snd] in Clo, Chi, Hlt.
  destruct (simplest_closed_correct lo hi ilo ihi Clo Chi Hlt) as (r & Er & Mr & Opt).
  exists r. rewrite Er. assert (Cr : canon r) by (cbn [member] in Mr; exact (proj1 Mr)).
  split; [reflexivity|]. split; [exact Cr|]. split; [apply Pre; assumption|].
  intros s Cs Rs Hne. apply Opt; [apply Pre; assumption|exact Hne].
Qed.
