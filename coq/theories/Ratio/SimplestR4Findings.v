(** C18 round 4 - decision on finding F06 (odd base, half modes), recorded with machine-checked witnesses.
    Half an ulp of an odd base is not an FBig of that base.  Today error_bounds uses ceil(B/2) * B^(e-1): the
    interval is WIDER than the preimage, so the answer may not round back to the float.  The conservative
    variant floor(B/2) * B^(e-1) with closed ends is NARROWER than the preimage: every answer rounds back to the
    float, but the simplest fraction of the preimage can lie in the gap - the property demands the optimum, so
    the conservative variant does not repair the property either (it needs bounds that are not FBig<_, B>). *)
From Dashu Require Import Base.Prelude Float.RoundSpec Ratio.SimplestSpec Ratio.SimplestModel Ratio.SimplestFindings.
Open Scope Z_scope.

(** bounds floor(B/2) * B^(e-1), both ends closed *)
Definition conservative_half_interval (B p sig ex : Z) : cinterval :=
  let e := ex + ndigits B (Z.abs sig) - p in
  let h := scaled B (B / 2) (e - 1) 1 in
  let v := scaled B sig ex 1 in
  (freduce (fsub v h), freduce (fadd v h), true, true).

(** 11_3 * 3^-2 = 4/9 with two ternary digits, HalfAway: the preimage is [7/18, 1/2), its simplest member 2/5;
    today's code answers 1/2, which rounds to 12_3 * 3^-2 = 5/9; the conservative interval [11/27, 13/27] gives
    3/7, which rounds to 4/9 but is not the simplest *)
Lemma F06_conservative_not_optimal :
  known_float 3 MHalfAway 2 4 = true /\
  float_interval_spec 3 MHalfAway 2 4 (-2) = ((7, 18), (1, 2), true, false) /\
  simplest_from_float_spec 3 MHalfAway 2 4 (-2) = Ok (Some (2, 5)) /\
  simplest_from_float_asis 3 MHalfAway 2 4 (-2) = Ok (Some (1, 2)) /\
  round_to_prec 3 MHalfAway 2 (1, 2) = (5, 9) /\
  conservative_half_interval 3 2 4 (-2) = ((11, 27), (13, 27), true, true) /\
  simplest_closed (conservative_half_interval 3 2 4 (-2)) = Ok (3, 7) /\
  round_to_prec 3 MHalfAway 2 (3, 7) = (4, 9) /\ round_to_prec 3 MHalfAway 2 (2, 5) = (4, 9) /\
  simpler (2, 5) (3, 7) = true.
Proof. repeat split; vm_compute; reflexivity. Qed.
