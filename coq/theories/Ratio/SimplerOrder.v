(** C18 - is_simpler_than is the documented strict total order on canonical fractions. *)
From Dashu Require Import Base.Prelude Ratio.SimplestSpec Ratio.SimplestModel.
Open Scope Z_scope.

Lemma is_simpler_than_asis_spec : forall x y, is_simpler_than_asis x y = simpler x y.
Proof.
  intros [xn xd] [yn yd]. unfold is_simpler_than_asis, simpler, sign_of. cbn [fst snd].
  destruct (xd ?= yd); try reflexivity.
  destruct (Z.abs xn ?= Z.abs yn) eqn:E; try reflexivity.
  apply Z.compare_eq in E.
  destruct (Z.ltb_spec xn 0), (Z.ltb_spec yn 0), (Z.ltb_spec 0 xn); cbn; try reflexivity; lia.
Qed.

Lemma simpler_irrefl : forall x, simpler x x = false.
Proof.
  intros [n d]. unfold simpler. cbn [fst snd]. rewrite !Z.compare_refl.
  destruct (Z.ltb_spec 0 n), (Z.ltb_spec n 0); cbn; try reflexivity; lia.
Qed.

Lemma simpler_asym : forall x y, simpler x y = true -> simpler y x = false.
Proof.
  intros [xn xd] [yn yd]. unfold simpler. cbn [fst snd].
  rewrite (Z.compare_antisym xd yd), (Z.compare_antisym (Z.abs xn) (Z.abs yn)).
  destruct (xd ?= yd); cbn; try congruence.
  destruct (Z.abs xn ?= Z.abs yn); cbn; try congruence.
  destruct (Z.ltb_spec 0 xn), (Z.ltb_spec yn 0), (Z.ltb_spec 0 yn), (Z.ltb_spec xn 0); cbn; try congruence; lia.
Qed.

Lemma simpler_trans : forall x y z, simpler x y = true -> simpler y z = true -> simpler x z = true.
Proof.
  intros [xn xd] [yn yd] [zn zd]. unfold simpler. cbn [fst snd].
  destruct (Z.compare_spec xd yd), (Z.compare_spec yd zd); try congruence;
    destruct (Z.compare_spec xd zd); try lia; try congruence;
    destruct (Z.compare_spec (Z.abs xn) (Z.abs yn)), (Z.compare_spec (Z.abs yn) (Z.abs zn)); try congruence;
    destruct (Z.compare_spec (Z.abs xn) (Z.abs zn)); try lia; try congruence;
    destruct (Z.ltb_spec 0 xn), (Z.ltb_spec yn 0), (Z.ltb_spec 0 yn), (Z.ltb_spec zn 0); cbn; try congruence; lia.
Qed.

(** totality: two different pairs are ordered one way or the other *)
Lemma simpler_total : forall x y, x <> y -> simpler x y = true \/ simpler y x = true.
Proof.
  intros [xn xd] [yn yd] H. unfold simpler. cbn [fst snd].
  rewrite (Z.compare_antisym xd yd), (Z.compare_antisym (Z.abs xn) (Z.abs yn)).
  destruct (Z.compare_spec xd yd); cbn; auto.
  destruct (Z.compare_spec (Z.abs xn) (Z.abs yn)); cbn; auto.
  assert (xn <> yn) by (intros ->; apply H; subst; reflexivity).
  destruct (Z.ltb_spec 0 xn), (Z.ltb_spec yn 0), (Z.ltb_spec 0 yn), (Z.ltb_spec xn 0); cbn; auto; lia.
Qed.

(** finding F01 (repaired): the pinned body was a conjunction; 1/2 is simpler than 5/3 *)
Lemma is_simpler_than_pinned_refuted :
  simpler (1, 2) (5, 3) = true /\ is_simpler_than_pinned (1, 2) (5, 3) = false.
Proof. split; reflexivity. Qed.

(** the documented order is a strict total order (on all pairs, canonical or not) *)
Theorem simpler_strict_total_order :
  (forall x, simpler x x = false) /\
  (forall x y, simpler x y = true -> simpler y x = false) /\
  (forall x y z, simpler x y = true -> simpler y z = true -> simpler x z = true) /\
  (forall x y, x <> y -> simpler x y = true \/ simpler y x = true).
Proof. exact (conj simpler_irrefl (conj simpler_asym (conj simpler_trans simpler_total))). Qed.

(** the three documented keys, in their order *)
Theorem simpler_keys : forall x y, simpler x y = true <->
  snd x < snd y \/ (snd x = snd y /\ (Z.abs (fst x) < Z.abs (fst y) \/ (Z.abs (fst x) = Z.abs (fst y) /\ fst y < 0 < fst x))).
Proof.
  intros [xn xd] [yn yd]. unfold simpler. cbn [fst snd].
  destruct (Z.compare_spec xd yd); [|split; [intros _; lia|reflexivity]|split; [discriminate|lia]].
  destruct (Z.compare_spec (Z.abs xn) (Z.abs yn)); [|split; [intros _; lia|reflexivity]|split; [discriminate|lia]].
  destruct (Z.ltb_spec 0 xn), (Z.ltb_spec yn 0); cbn [andb]; split; try discriminate; try lia; reflexivity.
Qed.

Example simpler_examples :
  simpler (1, 2) (5, 3) = true /\ simpler (1, 3) (2, 3) = true /\ simpler (1, 2) (-1, 2) = true /\ simpler (-1, 2) (1, 2) = false.
Proof. repeat split. Qed.
