(** C04 (round 4): tables and specifications over the bodies REGENERATED into coq/gen/RatioBodies4.v
    (clone / clone_from, the in-place operators, from_parts_const with its loop, the parsers, the conversions,
    the one-line wrappers, the num-traits forwarding, serde's Deserialize) and the extended histories.
    DEFINITIONS ONLY; proofs in RatioBodies4Proof.v. *)
From Coq Require Import List.
Import ListNotations.
From Dashu Require Import Base.Prelude Int.BitsSpec Ratio.RatArithModel Ratio.RatioAtoms Ratio.RatioAtoms4 Ratio.RatioBodiesModel.
From DashuGen Require Import RatioBodies RatioBodies4.
Open Scope Z_scope.

(* ------------------------------------------------------------ in-place operators *)
(** the five operators that have an `OpAssign` form (impl_binop_assign_by_taking! rows) *)
Inductive aop := AAdd | ASub | AMul | ADiv | ARem.
Definition aop_bin (a : aop) : binop :=
  match a with AAdd => OAdd | ASub => OSub | AMul => OMul | ADiv => ODiv | ARem => ORem end.
Definition gassign (a : aop) (x y : rat) : result rat :=
  let '(n, d) := x in let '(c, e) := y in
  match a with
  | AAdd => gen_AddAssign_RBig n d c e | ASub => gen_SubAssign_RBig n d c e | AMul => gen_MulAssign_RBig n d c e
  | ADiv => gen_DivAssign_RBig n d c e | ARem => gen_RemAssign_RBig n d c e
  end.
Definition gxassign (a : aop) (x y : rat) : result rat :=
  let '(n, d) := x in let '(c, e) := y in
  match a with
  | AAdd => gen_AddAssign_Relaxed n d c e | ASub => gen_SubAssign_Relaxed n d c e | AMul => gen_MulAssign_Relaxed n d c e
  | ADiv => gen_DivAssign_Relaxed n d c e | ARem => gen_RemAssign_Relaxed n d c e
  end.

(* ------------------------------------------------------------ the unary wrappers (value and reference receivers) *)
(** [x_]: Relaxed; [r]: the `&T` impl (Neg / Inverse have one; the others take &self or self only) *)
Definition gun4 (x_ r : bool) (o : unop) (x : rat) : result rat :=
  match o, x_, r with
  | UNeg, false, false => Ok (gen_RBig_neg x) | UNeg, false, true => Ok (gen_RBig_neg_ref x)
  | UNeg, true, false => Ok (gen_Relaxed_neg x) | UNeg, true, true => Ok (gen_Relaxed_neg_ref x)
  | UInv, false, false => gen_RBig_inv x | UInv, false, true => gen_RBig_inv_ref x
  | UInv, true, false => gen_Relaxed_inv x | UInv, true, true => gen_Relaxed_inv_ref x
  | UAbs, false, _ => Ok (gen_RBig_abs x) | UAbs, true, _ => Ok (gen_Relaxed_abs x)
  | USqr, false, _ => Ok (gen_RBig_sqr x) | USqr, true, _ => Ok (gen_Relaxed_sqr x)
  | UCubic, false, _ => Ok (gen_RBig_cubic x) | UCubic, true, _ => Ok (gen_Relaxed_cubic x)
  | USignum, false, _ => Ok (gen_RBig_signum (fst x) (snd x)) | USignum, true, _ => Ok (gen_Relaxed_signum (fst x) (snd x))
  | UFract, false, _ => Ok (gen_RBig_fract x) | UFract, true, _ => Ok (gen_Relaxed_fract x)
  end.

(* ------------------------------------------------------------ from_parts_const *)
(** the fuel that suffices for the loop of RBig::from_parts_const (see gen_from_parts_const_ok) *)
Definition fpc_fuel (d : Z) : nat := cgcd_fuel d.

(* ------------------------------------------------------------ parsers *)
(** what the text parsers must return, given the answers of the integer parser on the pieces of the text:
    errors of the numerator first, then of the denominator, then (prefix form) differing radices, then a zero
    denominator; otherwise the canonical rational.  Without '/': the integer over one. *)
Definition parse_radix_spec (ip : piece -> Z -> result Z) (has_slash : bool) (radix : Z) : result rat :=
  if has_slash then rbind (ip PBefore radix) (fun n => rbind (ip PAfter radix) (fun d => parse_spec n d))
  else rbind (ip PAll radix) (fun n => Ok (n, 1)).
Definition parse_prefix_spec (ipp : piece -> result (Z * Z)) (ipd : piece -> Z -> result (Z * Z)) (has_slash : bool)
  : result (rat * Z) :=
  if has_slash then
    rbind (ipp PBefore) (fun nr => rbind (ipd PAfter (snd nr)) (fun dr =>
      if snd nr =? snd dr then rbind (parse_spec (fst nr) (fst dr)) (fun v => Ok (v, snd nr)) else Err 3))
  else rbind (ipp PAll) (fun nr => Ok ((fst nr, 1), snd nr)).
(** the Relaxed twins: the same, through reduce2 *)
Definition xparse_radix_asis (ip : piece -> Z -> result Z) (has_slash : bool) (radix : Z) : result rat :=
  if has_slash then rbind (ip PBefore radix) (fun n => rbind (ip PAfter radix) (fun d => xparse_asis n d))
  else rbind (ip PAll radix) (fun n => reduce2_asis (n, 1)).
Definition xparse_prefix_asis (ipp : piece -> result (Z * Z)) (ipd : piece -> Z -> result (Z * Z)) (has_slash : bool)
  : result (rat * Z) :=
  if has_slash then
    rbind (ipp PBefore) (fun nr => rbind (ipd PAfter (snd nr)) (fun dr =>
      if snd nr =? snd dr then rbind (xparse_asis (fst nr) (fst dr)) (fun v => Ok (v, snd nr)) else Err 3))
  else rbind (ipp PAll) (fun nr => rbind (reduce2_asis (fst nr, 1)) (fun v => Ok (v, snd nr))).

(** agreement of a Relaxed result with a reference result, parser / conversion errors included *)
Definition res_veq_e (r' r : result rat) : Prop :=
  match r', r with
  | Ok a, Ok b => 0 < snd a /\ veq a b
  | Panic p, Panic q => p = q
  | Err e, Err f => e = f
  | OutOfFuel, OutOfFuel => True
  | _, _ => False
  end.
Definition res_veq_er (r' r : result (rat * Z)) : Prop :=
  match r', r with
  | Ok a, Ok b => 0 < snd (fst a) /\ veq (fst a) (fst b) /\ snd a = snd b
  | Panic p, Panic q => p = q
  | Err e, Err f => e = f
  | OutOfFuel, OutOfFuel => True
  | _, _ => False
  end.

(* ------------------------------------------------------------ serde *)
Definition deserialize_spec (n d : Z) : result rat := if d =? 0 then Err 0 else Ok (canon n d).

(* ------------------------------------------------------------ histories, extended *)
Inductive hop4 :=
| H3 (o : hop)                                    (* the operations of rounds 1-3 *)
| HAssign (a : aop) (i j : nat)                   (* pool[i] op= pool[j]  (a panic leaves Default in pool[i]) *)
| HClone (i dst : nat)                            (* pool[dst] = pool[i].clone() *)
| HCloneFrom (i dst : nat)                        (* pool[dst].clone_from(&pool[i]) *)
| HIntL (o : intop) (i : nat) (k : Z) (dst : nat) (* IBig on the LEFT: k + x, k - x, k * x, k / x *)
| HIntLU (o : intop) (i : nat) (k : N) (dst : nat)(* UBig on the left *)
| HFromInt (k : Z) (dst : nat).                   (* pool[dst] = T::from(k) *)

(** integer on the left: + and * commute, - and / are the reversed forms *)
Definition left_op (o : intop) : intop :=
  match o with ISub => IRsub | IDiv => IRdiv | o => o end.

Definition heval4_spec (p : list rat) (o : hop4) : result rat :=
  match o with
  | H3 h => heval_spec p h
  | HAssign a i j => bin_spec (aop_bin a) (pget p i) (pget p j)
  | HClone i _ | HCloneFrom i _ => Ok (pget p i)
  | HIntL b i k _ => int_spec (left_op b) (pget p i) k
  | HIntLU b i k _ => int_spec (left_op b) (pget p i) (Z.of_N k)
  | HFromInt k _ => Ok (k, 1)
  end.
Definition heval4_gen (p : list rat) (o : hop4) : result rat :=
  match o with
  | H3 h => heval_gen p h
  | HAssign a i j => gassign a (pget p i) (pget p j)
  | HClone i _ => Ok (gen_RBig_clone (pget p i))
  | HCloneFrom i dst => Ok (gen_RBig_clone_from (pget p dst) (pget p i))
  | HIntL b i k _ => gint true false (left_op b) (pget p i) k
  | HIntLU b i k _ => gint true true (left_op b) (pget p i) (Z.of_N k)
  | HFromInt k _ => Ok (gen_RBig_from_IBig k)
  end.
Definition heval4_xgen (p : list rat) (o : hop4) : result rat :=
  match o with
  | H3 h => heval_xgen p h
  | HAssign a i j => gxassign a (pget p i) (pget p j)
  | HClone i _ => Ok (gen_Relaxed_clone (pget p i))
  | HCloneFrom i dst => Ok (gen_Relaxed_clone_from (pget p dst) (pget p i))
  | HIntL b i k _ => gxint true false (left_op b) (pget p i) k
  | HIntLU b i k _ => gxint true true (left_op b) (pget p i) (Z.of_N k)
  | HFromInt k _ => Ok (gen_Relaxed_from_IBig k)
  end.
Definition hdst4 (o : hop4) : nat :=
  match o with
  | H3 h => hdst h | HAssign _ i _ => i
  | HClone _ d | HCloneFrom _ d | HIntL _ _ _ d | HIntLU _ _ _ d | HFromInt _ d => d
  end.
Definition inplace4 (o : hop4) : bool := match o with HAssign _ _ _ => true | _ => false end.

(** one step: a panicking operation leaves the pool unchanged - except the in-place forms, whose destination was
    emptied by core::mem::take before the operation ran: it holds Default afterwards *)
Definition hstep4 (ev : list rat -> hop4 -> result rat) (dflt : rat) (p : list rat) (o : hop4) : list rat :=
  match ev p o with
  | Ok r => pset p (hdst4 o) r
  | Panic _ => if inplace4 o then pset p (hdst4 o) dflt else p
  | _ => p
  end.
Definition hrun4 (ev : list rat -> hop4 -> result rat) (dflt : rat) (ops : list hop4) (p : list rat) : list rat :=
  fold_left (hstep4 ev dflt) ops p.
