(** C18 round 4 - impl_simplest_from_float! (simplest_from_f32 / f64) on top of the DECODER:
    the macro calls `$f.decode().unwrap()` (base/src/bit.rs, impl FloatEncoding for f32 / f64); here the
    decoder is a parameter [dec], instantiated with C06's as-is model [decode_asis P32 / P64], which C06 proves
    equal to [decode_spec] for every bit pattern (C06_decode_f32 / C06_decode_f64).  Definitions only. *)
From Dashu Require Import Base.Prelude Ratio.BinIter Float.RoundSpec Ratio.SimplestSpec Ratio.SimplestModel.
From Dashu Require Import Conv.ConvSpec Conv.ConvModel.
Open Scope Z_scope.

(** the macro body after `let (man, exp) = $f.decode().unwrap();`  (mb = MANTISSA_DIGITS - 1, eb = exponent bits:
    MIN_EXP - 1 - man_bits = 1 - bias - mb) *)
Definition ieee_tail (mb eb man ex bits : Z) : result (option frac) :=
  let min_exp := 1 - (2 ^ (eb - 1) - 1) - mb in
  let tz := if (Z.abs man =? 2 ^ mb) && (min_exp <? ex) then 1 else 2 in
  let center := 4 * man in
  let outer := if 0 <? man then center + 2 else center - 2 in
  let inner := if 0 <? man then center - tz else center + tz in
  let scale (n : Z) : frac := if 2 <=? ex then (n * 2 ^ (ex - 2), 1) else freduce (n, 2 ^ (2 - ex)) in
  let lf := scale outer in
  let rt := scale inner in
  match simplest_in_asis lf rt with
  | Ok s =>
      if Z.even bits then
        let s1 := if is_simpler_than_asis lf s then lf else s in
        let s2 := if is_simpler_than_asis rt s1 then rt else s1 in
        Ok (Some s2)
      else Ok (Some s)
  | Panic e => Panic e | Err e => Err e | OutOfFuel => OutOfFuel
  end.

(** `if $f.is_infinite() || $f.is_nan() { return None } else if $f == 0. { return Some(ZERO) }` read off the
    decoded value: infinities and NaNs are the patterns decode refuses, zero the ones it maps to mantissa 0 *)
Definition simplest_from_ieee_deep (dec : Z -> decoded) (mb eb bits : Z) : result (option frac) :=
  match dec bits with
  | DInf _ | DNan => Ok None
  | DFin man ex => if man =? 0 then Ok (Some (0, 1)) else ieee_tail mb eb man ex bits
  end.

Definition simplest_from_f32_deep (bits : Z) := simplest_from_ieee_deep (decode_asis P32) 23 8 bits.
Definition simplest_from_f64_deep (bits : Z) := simplest_from_ieee_deep (decode_asis P64) 52 11 bits.
