(** C04: the RBig transcriptions return the canonical exact rational ([*_asis] = [*_spec]) and the
    specification keeps the invariant.  All statements are for every operand (no size bound). *)
From Coq Require Import Znumtheory.
From Dashu Require Import Base.Prelude Int.BitsSpec Ratio.RatArithModel Ratio.RatArithCanon.
Open Scope Z_scope.

(* ---------------------------------------------------------------- splitting by a gcd *)
Lemma quot_mul_l g x : g <> 0 -> Z.quot (g * x) g = x.
Proof. intros H. rewrite Z.mul_comm. apply Z.quot_mul. exact H. Qed.
Lemma div_mul_l g x : g <> 0 -> (g * x) / g = x.
Proof. intros H. rewrite Z.mul_comm. apply Z.div_mul. exact H. Qed.

(** [a = g a1], [d = g d1] with [a1], [d1] coprime, for g = gcd a d (not both zero) *)
Lemma gcd_split a d : a <> 0 \/ d <> 0 ->
  exists g a1 d1, Z.gcd a d = g /\ 0 < g /\ a = g * a1 /\ d = g * d1 /\ Z.gcd a1 d1 = 1.
Proof.
  intros Hnz. set (g := Z.gcd a d).
  assert (Hg : 0 < g).
  { pose proof (Z.gcd_nonneg a d). destruct (Z.eq_dec g 0) as [E|E]; [|subst g; lia].
    unfold g in E. pose proof (Z.gcd_eq_0_l _ _ E). pose proof (Z.gcd_eq_0_r _ _ E). lia. }
  exists g, (a / g), (d / g). repeat split; try assumption.
  - symmetry. apply div_exact_mul; [lia | apply Z.gcd_divide_l].
  - symmetry. apply div_exact_mul; [lia | apply Z.gcd_divide_r].
  - apply Z.gcd_div_gcd; [lia | reflexivity].
Qed.

Lemma sgnz_sign_of c : c <> 0 -> sgnz (sign_of c) = Z.sgn c.
Proof. intros H. unfold sign_of. destruct (Z.ltb_spec c 0); cbn [sgnz]; lia. Qed.

Lemma sgn_cases c : c <> 0 -> Z.sgn c = 1 \/ Z.sgn c = -1.
Proof. lia. Qed.

Lemma cop_sgn_l c x : c <> 0 -> Z.gcd (Z.sgn c) x = 1.
Proof. intros H. destruct (sgn_cases c H) as [-> | ->]; [apply Z.gcd_1_l | exact (eq_trans (Z.gcd_opp_l 1 x) (Z.gcd_1_l x))]. Qed.

Lemma cop_abs_r a b : Z.gcd a b = 1 -> Z.gcd a (Z.abs b) = 1.
Proof. rewrite Z.gcd_abs_r. auto. Qed.

Lemma abs_mul_pos g x : 0 < g -> Z.abs (g * x) = g * Z.abs x.
Proof. intros H. rewrite Z.abs_mul, (Z.abs_eq g) by lia. reflexivity. Qed.

Lemma mul_pos_cancel g x : 0 < g -> 0 < g * x -> 0 < x.
Proof. nia. Qed.

(* ---------------------------------------------------------------- reduce, reduce_with_hint, from_parts *)
Theorem reduce_asis_canon n d : 0 < d -> reduce_asis (n, d) = canon n d.
Proof.
  intros Hd. unfold reduce_asis. destruct (Z.eqb_spec n 0) as [->|Hn].
  - symmetry. apply canon_zero. exact Hd.
  - unfold canon. pose proof (gcd_pos_r n d Hd).
    rewrite !quot_exact; [reflexivity | lia | apply Z.gcd_divide_r | lia | apply Z.gcd_divide_l].
Qed.

(** the hint is sound whenever the true gcd divides it *)
Theorem reduce_with_hint_canon n d hint : 0 < d -> (Z.gcd n d | hint) ->
  reduce_with_hint_asis (n, d) hint = canon n d.
Proof.
  intros Hd Hh. unfold reduce_with_hint_asis. destruct (Z.eqb_spec n 0) as [->|Hn].
  - symmetry. apply canon_zero. exact Hd.
  - assert (E : Z.gcd (Z.gcd hint n) d = Z.gcd n d).
    { rewrite <- Z.gcd_assoc, Z.gcd_comm. apply Z.divide_gcd_iff; [apply Z.gcd_nonneg | exact Hh]. }
    rewrite E. rewrite <- (reduce_asis_canon n d Hd). unfold reduce_asis.
    destruct (Z.eqb_spec n 0); [contradiction | reflexivity].
Qed.

Theorem from_parts_asis_spec n d : 0 <= d -> from_parts_asis n d = from_parts_spec n d.
Proof.
  intros Hd. unfold from_parts_asis, from_parts_spec. destruct (Z.eqb_spec d 0); [reflexivity|].
  rewrite reduce_asis_canon by lia. reflexivity.
Qed.

Theorem from_parts_signed_asis_spec n d : from_parts_signed_asis n d = from_parts_signed_spec n d.
Proof.
  unfold from_parts_signed_asis, from_parts_signed_spec. rewrite from_parts_asis_spec by lia.
  unfold from_parts_spec. destruct (Z.eqb_spec d 0) as [->|Hd]; [reflexivity|].
  destruct (Z.eqb_spec (Z.abs d) 0); [lia|]. rewrite sgnz_sign_of by exact Hd. reflexivity.
Qed.

(* ---------------------------------------------------------------- addition and subtraction *)
Lemma addsub_sub_as_add a b c d : addsub_asis Z.sub (a, b) (c, d) = addsub_asis Z.add (a, b) (- c, d).
Proof.
  unfold addsub_asis. destruct (Z.gcd b d =? 1).
  - f_equal. ring.
  - f_equal. f_equal. ring.
Qed.

(** the gcd-hint argument: everything the sum shares with the common denominator divides gcd(b, d) *)
Lemma add_hint_divides a b' c d' g :
  Z.gcd b' d' = 1 -> Z.gcd a b' = 1 -> Z.gcd c d' = 1 ->
  (Z.gcd (d' * a + b' * c) (g * b' * d') | g).
Proof.
  intros Hbd Hab Hcd. set (num := d' * a + b' * c). set (G := Z.gcd num (g * b' * d')).
  assert (Hnb : Z.gcd num b' = 1).
  { unfold num. replace (d' * a + b' * c) with (d' * a + c * b') by ring.
    apply cop_add_mul_l. apply cop_mul_l; [apply cop_sym; exact Hbd | exact Hab]. }
  assert (Hnd : Z.gcd num d' = 1).
  { unfold num. replace (d' * a + b' * c) with (b' * c + a * d') by ring.
    apply cop_add_mul_l. apply cop_mul_l; [exact Hbd | exact Hcd]. }
  assert (HG : Z.gcd G (b' * d') = 1).
  { apply cop_div_l with (a := num); [apply cop_mul_r; assumption | apply Z.gcd_divide_l]. }
  apply Z.gauss with (m := b' * d'); [|exact HG].
  replace (b' * d' * g) with (g * b' * d') by ring. apply Z.gcd_divide_r.
Qed.

Theorem add_asis_canon x y : Inv x -> Inv y ->
  addsub_asis Z.add x y = canon (fst x * snd y + fst y * snd x) (snd x * snd y).
Proof.
  destruct x as [a b], y as [c d]. unfold Inv. cbn [fst snd]. intros [Hb Hab] [Hd Hcd].
  unfold addsub_asis. destruct (Z.eqb_spec (Z.gcd b d) 1) as [Hg|Hg].
  - (* coprime denominators: no reduction is needed *)
    symmetry. apply (canon_of_Inv (a * d + c * b, b * d)). split; cbn [fst snd]; [nia|].
    apply cop_mul_r.
    + apply cop_add_mul_l. apply cop_mul_l; [exact Hab | apply cop_sym; exact Hg].
    + replace (a * d + c * b) with (c * b + a * d) by ring.
      apply cop_add_mul_l. apply cop_mul_l; [exact Hcd | exact Hg].
  - destruct (gcd_split b d ltac:(lia)) as (g & b' & d' & Eg & Hgpos & Eb & Ed & Hbd).
    rewrite Eg. subst b d. rewrite !quot_mul_l by lia.
    assert (Hb' : 0 < b') by nia. assert (Hd' : 0 < d') by nia.
    assert (Hab' : Z.gcd a b' = 1) by (apply cop_div_r with (b := g * b'); [exact Hab | exists g; ring]).
    assert (Hcd' : Z.gcd c d' = 1) by (apply cop_div_r with (b := g * d'); [exact Hcd | exists g; ring]).
    rewrite reduce_with_hint_canon.
    + apply canon_veq_eq; [nia | nia | ring].
    + nia.
    + replace (g * b' * d') with (g * b' * d') by ring. apply add_hint_divides; assumption.
Qed.

Theorem sub_asis_canon x y : Inv x -> Inv y ->
  addsub_asis Z.sub x y = canon (fst x * snd y - fst y * snd x) (snd x * snd y).
Proof.
  destruct x as [a b], y as [c d]. intros Hx Hy. rewrite addsub_sub_as_add.
  rewrite add_asis_canon; [cbn [fst snd]; f_equal; ring | exact Hx |].
  destruct Hy as [H1 H2]. split; cbn [fst snd] in *; [exact H1 | apply cop_opp_l; exact H2].
Qed.

(* ---------------------------------------------------------------- multiplication and division *)
Theorem mul_asis_canon x y : Inv x -> Inv y ->
  mul_asis x y = canon (fst x * fst y) (snd x * snd y).
Proof.
  destruct x as [a b], y as [c d]. unfold Inv. cbn [fst snd]. intros [Hb Hab] [Hd Hcd].
  unfold mul_asis.
  destruct (gcd_split a d ltac:(lia)) as (g1 & a1 & d1 & E1 & Hg1 & Ea & Ed & H1).
  destruct (gcd_split b c ltac:(lia)) as (g2 & b2 & c2 & E2 & Hg2 & Eb & Ec & H2).
  rewrite E1, E2. clear E1 E2. subst a d b c. rewrite !quot_mul_l by lia.
  assert (0 < d1) by nia. assert (0 < b2) by nia.
  apply Inv_is_canon; [nia | | cbn [fst snd]; ring].
  split; cbn [fst snd]; [nia|].
  assert (Z.gcd a1 b2 = 1).
  { apply cop_div_l with (a := g1 * a1); [|exists g1; ring].
    apply cop_div_r with (b := g2 * b2); [exact Hab | exists g2; ring]. }
  assert (Z.gcd c2 d1 = 1).
  { apply cop_div_l with (a := g2 * c2); [|exists g2; ring].
    apply cop_div_r with (b := g1 * d1); [exact Hcd | exists g1; ring]. }
  apply cop_mul_l; apply cop_mul_r; try assumption. apply cop_sym. assumption.
Qed.

Theorem div_asis_spec x y : Inv x -> Inv y -> div_asis x y = bin_spec ODiv x y.
Proof.
  destruct x as [a b], y as [c d]. unfold Inv. cbn [fst snd]. intros [Hb Hab] [Hd Hcd].
  unfold div_asis, bin_spec. destruct (Z.eqb_spec c 0) as [|Hc]; [reflexivity|]. f_equal.
  rewrite sgnz_sign_of by exact Hc.
  destruct (gcd_split a c ltac:(lia)) as (g1 & a1 & c1 & E1 & Hg1 & Ea & Ec & H1).
  destruct (gcd_split b d ltac:(lia)) as (g2 & b2 & d2 & E2 & Hg2 & Eb & Ed & H2).
  rewrite E1, E2. clear E1 E2.
  assert (Hc1 : c1 <> 0) by nia.
  assert (Hs : Z.sgn c = Z.sgn c1) by (subst c; rewrite Z.sgn_mul; lia).
  assert (Hsn : Z.sgn c1 <> 0) by lia.
  rewrite Hs. subst a b c d. rewrite abs_mul_pos by lia. rewrite !quot_mul_l by lia.
  assert (0 < d2) by nia. assert (0 < b2) by nia.
  apply Inv_is_canon; [nia | | cbn [fst snd]; ring].
  split; cbn [fst snd]; [nia|].
  assert (Z.gcd a1 b2 = 1).
  { apply cop_div_l with (a := g1 * a1); [|exists g1; ring].
    apply cop_div_r with (b := g2 * b2); [exact Hab | exists g2; ring]. }
  assert (Z.gcd d2 c1 = 1).
  { apply cop_sym. apply cop_div_l with (a := g1 * c1); [|exists g1; ring].
    apply cop_div_r with (b := g2 * d2); [exact Hcd | exists g2; ring]. }
  apply cop_mul_l; [apply cop_mul_l|]; apply cop_mul_r; try assumption;
    try (apply cop_abs_r; assumption); try (apply cop_sgn_l; exact Hc1).
  apply cop_sym. assumption.
Qed.

(* ---------------------------------------------------------------- remainders *)
(** quotient rounded to nearest, ties up, of non-negative operands *)
Lemma half_up_quot L R : 0 <= L -> 0 < R ->
  (2 * L + R) / (2 * R) = L / R + (if 2 * (L mod R) <? R then 0 else 1).
Proof.
  intros HL HR. pose proof (Z.div_mod L R ltac:(lia)) as E. pose proof (Z.mod_pos_bound L R HR) as Bm.
  set (k := L / R) in *. set (m := L mod R) in *.
  destruct (Z.ltb_spec (2 * m) R).
  - symmetry. apply Z.div_unique with (r := 2 * m + R); [lia | nia].
  - symmetry. apply Z.div_unique with (r := 2 * m - R); [lia | nia].
Qed.

Lemma rha_scale k l r : 0 < k -> 0 < r -> rha (k * l) (k * r) = rha l r.
Proof.
  intros Hk Hr. unfold rha. rewrite Z.sgn_mul, abs_mul_pos by exact Hk.
  replace (Z.sgn k) with 1 by lia.
  replace (2 * (k * Z.abs l) + k * r) with (k * (2 * Z.abs l + r)) by ring.
  replace (2 * (k * r)) with (k * (2 * r)) by ring.
  rewrite Z.div_mul_cancel_l by lia. ring.
Qed.

(** the centred remainder of the code is [left - right * nearest(left / right)], ties away from zero *)
Lemma centred_rem_rha left right : 0 < right -> centred_rem left right = left - right * rha left right.
Proof.
  intros HR. unfold centred_rem, rha.
  destruct (Z.lt_trichotomy left 0) as [Hl|[->|Hl]].
  - (* negative dividend *)
    set (L := - left). assert (HL : 0 < L) by (unfold L; lia).
    replace left with (- L) by (unfold L; ring).
    rewrite Z.rem_opp_l by lia. rewrite Z.rem_mod_nonneg by lia.
    rewrite (Z.abs_opp L), (Z.abs_eq L) by lia. replace (Z.sgn (- L)) with (-1) by lia.
    rewrite half_up_quot by lia.
    pose proof (Z.div_mod L right ltac:(lia)) as E. pose proof (Z.mod_pos_bound L right HR) as Bm.
    set (k := L / right) in *. set (m := L mod right) in *.
    rewrite (Z.abs_opp m), (Z.abs_eq m) by lia.
    unfold sign_of. destruct (Z.ltb_spec (- m) 0); destruct (Z.ltb_spec m (right - m));
      destruct (Z.ltb_spec (2 * m) right); unfold signed; cbn [sign_neg sgnz]; try lia; nia.
  - rewrite Z.rem_0_l by lia. cbn [Z.abs Z.sgn]. unfold sign_of. cbn [Z.ltb Z.compare].
    destruct (Z.ltb_spec 0 (right - 0)); unfold signed; cbn [sgnz]; lia.
  - rewrite Z.rem_mod_nonneg by lia. rewrite (Z.abs_eq left) by lia. replace (Z.sgn left) with 1 by lia.
    rewrite half_up_quot by lia.
    pose proof (Z.div_mod left right ltac:(lia)) as E. pose proof (Z.mod_pos_bound left right HR) as Bm.
    set (k := left / right) in *. set (m := left mod right) in *.
    rewrite (Z.abs_eq m) by lia.
    unfold sign_of. destruct (Z.ltb_spec m 0); destruct (Z.ltb_spec m (right - m));
      destruct (Z.ltb_spec (2 * m) right); unfold signed; cbn [sign_neg sgnz]; try lia; nia.
Qed.

Lemma emod_scale k l r : 0 < k -> emod (k * l) (k * r) = k * emod l r.
Proof. intros Hk. unfold emod. rewrite abs_mul_pos by exact Hk. destruct (Z.eq_dec (Z.abs r) 0) as [->|]; [rewrite !Z.mul_0_r, !Zmod_0_r; reflexivity | apply Z.mul_mod_distr_l; lia]. Qed.

Lemma ediv_scale k l r : 0 < k -> r <> 0 -> ediv (k * l) (k * r) = ediv l r.
Proof.
  intros Hk Hr. unfold ediv. rewrite abs_mul_pos by exact Hk. rewrite Z.sgn_mul.
  replace (Z.sgn k) with 1 by lia. rewrite Z.div_mul_cancel_l by lia. ring.
Qed.

Theorem rem_asis_spec x y : Inv x -> Inv y -> rem_asis x y = bin_spec ORem x y.
Proof.
  destruct x as [a b], y as [c d]. unfold Inv. cbn [fst snd]. intros [Hb Hab] [Hd Hcd].
  unfold rem_asis, bin_spec.
  destruct (gcd_split b d ltac:(lia)) as (g & b' & d' & Eg & Hg & Eb & Ed & Hbd).
  rewrite Eg. clear Eg. subst b d. rewrite !quot_mul_l by lia.
  assert (Hb' : 0 < b') by nia. assert (Hd' : 0 < d') by nia.
  destruct (Z.eqb_spec c 0) as [->|Hc].
  - cbn [Z.abs]. rewrite Z.mul_0_r. reflexivity.
  - destruct (Z.eqb_spec (b' * Z.abs c) 0) as [E|E]; [nia|].
    rewrite from_parts_asis_spec by nia. unfold from_parts_spec.
    destruct (Z.eqb_spec (g * b' * d') 0); [nia|]. f_equal.
    rewrite centred_rem_rha by nia.
    replace (a * (g * d')) with (g * (d' * a)) by ring.
    replace (g * b' * Z.abs c) with (g * (b' * Z.abs c)) by ring.
    rewrite rha_scale by nia.
    replace (g * (d' * a) - g * (b' * Z.abs c) * rha (d' * a) (b' * Z.abs c))
      with (g * (d' * a - b' * Z.abs c * rha (d' * a) (b' * Z.abs c))) by ring.
    replace (g * b' * (g * d')) with (g * (g * b' * d')) by ring.
    rewrite canon_scale by nia. reflexivity.
Qed.

Theorem reme_asis_spec x y : Inv x -> Inv y -> reme_asis x y = bin_spec ORemE x y.
Proof.
  destruct x as [a b], y as [c d]. unfold Inv. cbn [fst snd]. intros [Hb Hab] [Hd Hcd].
  unfold reme_asis, bin_spec.
  destruct (gcd_split b d ltac:(lia)) as (g & b' & d' & Eg & Hg & Eb & Ed & Hbd).
  rewrite Eg. clear Eg. subst b d. rewrite !quot_mul_l by lia.
  assert (Hb' : 0 < b') by nia. assert (Hd' : 0 < d') by nia.
  destruct (Z.eqb_spec c 0) as [->|Hc].
  - rewrite Z.mul_0_r. reflexivity.
  - destruct (Z.eqb_spec (b' * c) 0) as [E|E]; [nia|].
    rewrite from_parts_asis_spec by nia. unfold from_parts_spec.
    destruct (Z.eqb_spec (g * b' * d') 0); [nia|]. f_equal.
    replace (a * (g * d')) with (g * (d' * a)) by ring.
    replace (g * b' * c) with (g * (b' * c)) by ring.
    rewrite emod_scale by lia.
    replace (g * b' * (g * d')) with (g * (g * b' * d')) by ring.
    rewrite canon_scale by nia. reflexivity.
Qed.

Theorem dive_asis_spec x y : dive_asis x y = dive_spec x y.
Proof. reflexivity. Qed.

Theorem divreme_asis_spec x y : Inv x -> Inv y -> divreme_asis x y = divreme_spec x y.
Proof.
  intros Hx Hy. pose proof (reme_asis_spec x y Hx Hy) as HR.
  destruct x as [a b], y as [c d]. unfold Inv in *. cbn [fst snd] in *.
  destruct Hx as [Hb Hab], Hy as [Hd Hcd].
  unfold divreme_asis, divreme_spec, dive_spec. unfold reme_asis in HR.
  destruct (gcd_split b d ltac:(lia)) as (g & b' & d' & Eg & Hg & Eb & Ed & Hbd).
  rewrite Eg in *. clear Eg. subst b d. rewrite !quot_mul_l in * by lia.
  assert (Hb' : 0 < b') by nia.
  destruct (Z.eqb_spec c 0) as [->|Hc].
  - rewrite Z.mul_0_r. reflexivity.
  - destruct (Z.eqb_spec (b' * c) 0) as [E|E]; [nia|].
    cbn [rbind]. rewrite HR. cbn [bin_spec]. destruct (Z.eqb_spec c 0); [contradiction|].
    cbn [rbind]. f_equal. f_equal.
    replace (a * (g * d')) with (g * (d' * a)) by ring.
    replace (g * b' * c) with (g * (b' * c)) by ring.
    rewrite ediv_scale by lia. reflexivity.
Qed.

Theorem bin_asis_spec o x y : Inv x -> Inv y -> bin_asis o x y = bin_spec o x y.
Proof.
  intros Hx Hy. destruct o; cbn [bin_asis].
  - rewrite add_asis_canon by assumption. destruct x, y. reflexivity.
  - rewrite sub_asis_canon by assumption. destruct x, y. reflexivity.
  - rewrite mul_asis_canon by assumption. destruct x, y. reflexivity.
  - apply div_asis_spec; assumption.
  - apply rem_asis_spec; assumption.
  - apply reme_asis_spec; assumption.
Qed.

(* ---------------------------------------------------------------- unary operations, powers *)
Lemma Inv_canon_self n d : 0 < d -> Z.gcd n d = 1 -> (n, d) = canon n d.
Proof. intros Hd Hg. symmetry. apply (canon_of_Inv (n, d)). split; assumption. Qed.

Theorem un_asis_spec o x : Inv x -> un_asis o x = un_spec o x.
Proof.
  destruct x as [a b]. unfold Inv. cbn [fst snd]. intros [Hb Hab].
  destruct o; cbn [un_asis un_spec inv_asis].
  - f_equal. apply Inv_canon_self; [exact Hb | apply cop_opp_l; exact Hab].
  - f_equal. apply Inv_canon_self; [exact Hb | apply cop_abs_l; exact Hab].
  - destruct (Z.eqb_spec a 0) as [|Ha]; [reflexivity|]. f_equal.
    unfold signed. rewrite sgnz_sign_of by exact Ha.
    apply Inv_canon_self; [lia|]. apply cop_abs_r. apply cop_mul_l; [apply cop_sgn_l; exact Ha | apply cop_sym; exact Hab].
  - f_equal. apply Inv_canon_self; [nia|]. apply cop_mul_l; apply cop_mul_r; assumption.
  - f_equal. apply Inv_canon_self; [nia|].
    repeat apply cop_mul_l; repeat apply cop_mul_r; assumption.
  - reflexivity.
  - f_equal. unfold fract_asis. destruct (Z.eqb_spec (Z.rem a b) 0) as [E|E].
    + rewrite E. symmetry. apply canon_zero. exact Hb.
    + apply Inv_canon_self; [exact Hb|].
      pose proof (Z.quot_rem' a b) as Q.
      replace (Z.rem a b) with (a - (Z.quot a b) * b) by lia.
      apply cop_sub_mul_l. exact Hab.
Qed.

Theorem pow_asis_spec x e : Inv x -> 0 <= e -> pow_asis x e = pow_spec x e.
Proof.
  destruct x as [a b]. unfold Inv. cbn [fst snd]. intros [Hb Hab] He.
  unfold pow_asis, pow_spec. cbn [fst snd].
  apply Inv_canon_self; [apply Z.pow_pos_nonneg; lia | apply cop_pow; assumption].
Qed.

Theorem mulsign_asis_spec s x : Inv x -> mulsign_asis s x = mulsign_spec s x.
Proof.
  destruct x as [a b]. unfold Inv. cbn [fst snd]. intros [Hb Hab].
  unfold mulsign_asis, mulsign_spec. cbn [fst snd]. rewrite (Z.mul_comm a).
  apply Inv_canon_self; [exact Hb|]. destruct s; cbn [sgnz].
  - rewrite Z.mul_1_l. exact Hab.
  - replace (-1 * a) with (- a) by ring. apply cop_opp_l. exact Hab.
Qed.

(* ---------------------------------------------------------------- integer-mixed forms *)
(** [u = true]: the integer operand is a UBig, hence non-negative *)
Theorem int_asis_spec u o x i : Inv x -> (u = true -> 0 <= i) -> int_asis u o x i = int_spec o x i.
Proof.
  destruct x as [a b]. unfold Inv. cbn [fst snd]. intros [Hb Hab] Hu.
  destruct o; cbn [int_asis int_spec].
  - f_equal. apply Inv_canon_self; [exact Hb|]. rewrite (Z.mul_comm b). apply cop_add_mul_l. exact Hab.
  - f_equal. apply Inv_canon_self; [exact Hb|]. rewrite (Z.mul_comm b). apply cop_sub_mul_l. exact Hab.
  - f_equal.
    destruct (gcd_split b i ltac:(lia)) as (g & b1 & i1 & Eg & Hg & Eb & Ei & H1).
    rewrite Eg. clear Eg. subst b i. rewrite !quot_mul_l by lia. assert (0 < b1) by nia.
    apply Inv_is_canon; [nia | | cbn [fst snd]; ring].
    split; cbn [fst snd]; [assumption|].
    apply cop_mul_l; [|apply cop_sym; exact H1].
    apply cop_div_r with (b := g * b1); [exact Hab | exists g; ring].
  - destruct (Z.eqb_spec i 0) as [|Hi]; [reflexivity|].
    destruct (gcd_split a i ltac:(lia)) as (g & a1 & i1 & Eg & Hg & Ea & Ei & H1).
    rewrite Eg. clear Eg.
    assert (Hi1 : i1 <> 0) by nia.
    assert (Hs : Z.sgn i = Z.sgn i1) by (subst i; rewrite Z.sgn_mul; lia).
    assert (Ha1b : Z.gcd a1 b = 1) by (apply cop_div_l with (a := a); [exact Hab | exists g; lia]).
    destruct u.
    + specialize (Hu eq_refl). assert (0 < i1) by nia.
      replace (Z.sgn i) with 1 by lia. rewrite (Z.abs_eq i) by lia.
      subst a i. rewrite !quot_mul_l by lia. f_equal.
      apply Inv_is_canon; [nia | | cbn [fst snd]; ring].
      split; cbn [fst snd]; [nia|]. apply cop_mul_r; assumption.
    + rewrite sgnz_sign_of by exact Hi. rewrite Hs. subst a i.
      rewrite abs_mul_pos by lia. rewrite !quot_mul_l by lia. f_equal.
      apply Inv_is_canon; [nia | | cbn [fst snd]; ring].
      split; cbn [fst snd]; [nia|].
      apply cop_mul_l; apply cop_mul_r; try assumption; try (apply cop_abs_r; assumption);
        apply cop_sgn_l; exact Hi1.
  - f_equal. apply Inv_canon_self; [exact Hb|]. rewrite (Z.mul_comm b). apply cop_mul_sub_l. exact Hab.
  - destruct (Z.eqb_spec a 0) as [|Ha]; [reflexivity|].
    destruct (gcd_split a i ltac:(lia)) as (g & a1 & i1 & Eg & Hg & Ea & Ei & H1).
    rewrite Eg. clear Eg.
    assert (Ha1 : a1 <> 0) by nia.
    assert (Hs : Z.sgn a = Z.sgn a1) by (subst a; rewrite Z.sgn_mul; lia).
    assert (Ha1b : Z.gcd a1 b = 1) by (apply cop_div_l with (a := a); [exact Hab | exists g; lia]).
    rewrite sgnz_sign_of by exact Ha. rewrite Hs. subst a i.
    rewrite abs_mul_pos by lia. rewrite !quot_mul_l by lia. f_equal.
    apply Inv_is_canon; [nia | | cbn [fst snd]; ring].
    split; cbn [fst snd]; [lia|]. apply cop_abs_r.
    apply cop_mul_l; [apply cop_mul_l|]; try (apply cop_sym; assumption). apply cop_sgn_l. exact Ha1.
Qed.

(* ---------------------------------------------------------------- round.rs *)
Theorem trunc_asis_spec x : trunc_asis x = trunc_spec x.
Proof. reflexivity. Qed.

Theorem split_asis_spec x : Inv x -> split_asis x = split_spec x.
Proof.
  intros Hx. unfold split_asis, split_spec. f_equal.
  pose proof (un_asis_spec UFract x Hx) as H. destruct x as [a b]. cbn [un_asis un_spec] in H.
  injection H as H. exact H.
Qed.

Theorem floor_asis_spec x : 0 < snd x -> floor_asis x = floor_spec x.
Proof.
  destruct x as [a b]. cbn [snd]. intros Hb. unfold floor_asis, floor_spec. cbn [fst snd].
  destruct (Z.lt_ge_cases a 0) as [Ha|Ha].
  - set (L := - a). assert (HL : 0 < L) by (unfold L; lia). replace a with (- L) by (unfold L; ring).
    rewrite Z.rem_opp_l, Z.quot_opp_l by lia. rewrite Z.rem_mod_nonneg, Z.quot_div_nonneg by lia.
    pose proof (Z.div_mod L b ltac:(lia)) as E. pose proof (Z.mod_pos_bound L b Hb) as Bm.
    destruct (Z.ltb_spec (- (L mod b)) 0).
    + apply Z.div_unique with (r := b - L mod b); [lia | nia].
    + apply Z.div_unique with (r := 0); [lia | nia].
  - rewrite Z.rem_mod_nonneg, Z.quot_div_nonneg by lia.
    pose proof (Z.mod_pos_bound a b Hb) as Bm. destruct (Z.ltb_spec (a mod b) 0); [lia | reflexivity].
Qed.

Theorem ceil_asis_spec x : 0 < snd x -> ceil_asis x = ceil_spec x.
Proof.
  destruct x as [a b]. cbn [snd]. intros Hb. unfold ceil_asis, ceil_spec. cbn [fst snd].
  destruct (Z.lt_ge_cases 0 a) as [Ha|Ha].
  - rewrite Z.rem_mod_nonneg, Z.quot_div_nonneg by lia.
    pose proof (Z.div_mod a b ltac:(lia)) as E. pose proof (Z.mod_pos_bound a b Hb) as Bm.
    destruct (Z.ltb_spec 0 (a mod b)).
    + assert (- (a / b + 1) = - a / b); [|lia]. apply Z.div_unique with (r := b - a mod b); [lia | nia].
    + assert (- (a / b) = - a / b); [|lia]. apply Z.div_unique with (r := 0); [lia | nia].
  - set (L := - a). assert (HL : 0 <= L) by (unfold L; lia). replace a with (- L) by (unfold L; ring).
    rewrite Z.rem_opp_l, Z.quot_opp_l by lia. rewrite Z.rem_mod_nonneg, Z.quot_div_nonneg by lia.
    pose proof (Z.mod_pos_bound L b Hb) as Bm.
    destruct (Z.ltb_spec 0 (- (L mod b))); [lia | reflexivity].
Qed.

Theorem round_asis_spec x : 0 < snd x -> round_asis x = round_spec x.
Proof.
  destruct x as [a b]. cbn [snd]. intros Hb. unfold round_asis, round_spec, rha. cbn [fst snd].
  rewrite Z.shiftl_mul_pow2 by lia. change (2 ^ 1) with 2.
  destruct (Z.lt_trichotomy a 0) as [Ha|[->|Ha]].
  - set (L := - a). assert (HL : 0 < L) by (unfold L; lia). replace a with (- L) by (unfold L; ring).
    rewrite Z.rem_opp_l, Z.quot_opp_l by lia. rewrite Z.rem_mod_nonneg, Z.quot_div_nonneg by lia.
    rewrite (Z.abs_opp L), (Z.abs_eq L) by lia. replace (Z.sgn (- L)) with (-1) by lia.
    rewrite half_up_quot by lia. pose proof (Z.mod_pos_bound L b Hb) as Bm.
    rewrite (Z.abs_opp (L mod b)), (Z.abs_eq (L mod b)) by lia.
    unfold sign_of. destruct (Z.ltb_spec (- L) 0); [|lia].
    destruct (Z.leb_spec b (L mod b * 2)); destruct (Z.ltb_spec (2 * (L mod b)) b); lia.
  - rewrite Z.rem_0_l, Z.quot_0_l by lia. cbn [Z.abs Z.sgn Z.mul].
    destruct (Z.leb_spec b 0); lia.
  - rewrite Z.rem_mod_nonneg, Z.quot_div_nonneg by lia. rewrite (Z.abs_eq a) by lia.
    replace (Z.sgn a) with 1 by lia. rewrite half_up_quot by lia.
    pose proof (Z.mod_pos_bound a b Hb) as Bm. rewrite (Z.abs_eq (a mod b)) by lia.
    unfold sign_of. destruct (Z.ltb_spec a 0); [lia|].
    destruct (Z.leb_spec b (a mod b * 2)); destruct (Z.ltb_spec (2 * (a mod b)) b); lia.
Qed.

(* ---------------------------------------------------------------- parser (numeric level) *)
Theorem parse_asis_spec n d : parse_asis n d = parse_spec n d.
Proof.
  unfold parse_asis, parse_spec. destruct (Z.eqb_spec d 0) as [|Hd]; [reflexivity|].
  rewrite reduce_asis_canon by lia. rewrite sgnz_sign_of by exact Hd. reflexivity.
Qed.

(* ---------------------------------------------------------------- the two repaired defects (findings F01, F02) *)
(** before the repair [inv] of zero produced a zero denominator: not a rational, invariant broken *)
Lemma inv_before_fix_refuted : exists r, inv_before_fix (0, 1) = Ok r /\ ~ Inv r /\ un_spec UInv (0, 1) = Panic DivideBy0.
Proof. exists (1, 0). repeat split. intros [H _]. cbn [snd] in H. lia. Qed.

(** before the repair the parsers accepted "1/0" *)
Lemma parse_before_fix_refuted : exists r, parse_before_fix 1 0 = Ok r /\ ~ Inv r /\ parse_spec 1 0 = Err 0.
Proof. exists (1, 0). repeat split. intros [H _]. cbn [snd] in H. lia. Qed.

(* ---------------------------------------------------------------- non-vacuity *)
Example add_hint_ex : Inv (1, 6) /\ Inv (1, 10) /\ addsub_asis Z.add (1, 6) (1, 10) = (4, 15).
Proof. repeat split. Qed.
Example add_coprime_ex : addsub_asis Z.sub (1, 2) (1, 3) = (1, 6).
Proof. reflexivity. Qed.
Example add_cancel_ex : addsub_asis Z.add (1, 6) (-1, 6) = (0, 1).
Proof. reflexivity. Qed.
Example mul_cross_ex : Inv (-6, 35) /\ Inv (35, 6) /\ mul_asis (-6, 35) (35, 6) = (-1, 1).
Proof. repeat split. Qed.
Example div_ex : div_asis (2, 3) (-2, 3) = Ok (-1, 1) /\ div_asis (2, 3) (0, 1) = Panic DivideBy0.
Proof. split; reflexivity. Qed.
Example rem_tie_ex : rem_asis (1, 2) (1, 1) = Ok (-1, 2) /\ rem_asis (-7, 2) (1, 1) = Ok (1, 2).
Proof. split; reflexivity. Qed.
Example divreme_ex : divreme_asis (-7, 2) (-1, 3) = Ok (11, (1, 6)).
Proof. reflexivity. Qed.
Example int_ex : int_asis false IMul (3, 4) (-6) = Ok (-9, 2) /\ int_asis true IDiv (6, 5) 3 = Ok (2, 5)
  /\ int_asis false IRdiv (6, 5) (-3) = Ok (-5, 2).
Proof. repeat split. Qed.
Example un_ex : un_asis UInv (-3, 4) = Ok (-4, 3) /\ un_asis UFract (-7, 3) = Ok (-1, 3) /\ pow_asis (-2, 3) 3 = (-8, 27).
Proof. repeat split. Qed.
Example round_ex : round_asis (-7, 2) = -4 /\ floor_asis (-7, 2) = -4 /\ ceil_asis (-7, 2) = -3 /\ trunc_asis (-7, 2) = -3.
Proof. repeat split. Qed.
Example reduce_hint_ex : reduce_with_hint_asis (8, 30) 2 = (4, 15) /\ (Z.gcd 8 30 | 2).
Proof. split; [reflexivity | exists 1; reflexivity]. Qed.
