(** C18 - the rounding interval of the SPECIFICATION of simplest_from_f32/f64 is exactly the preimage
    of the float under IEEE round-to-nearest-even, for every binary format (mb >= 1 mantissa bits,
    eb exponent bits) and every finite non-zero bit pattern: normal numbers round at the last of
    their mb+1 significant bits, everything below the smallest normal binade rounds at the fixed
    position emin (subnormals); ties go to the even significand ([spec_round MHalfEven]). *)
From Dashu Require Import Base.Prelude Ratio.BinIter Float.RoundSpec Float.RoundSpecProof Ratio.SimplestSpec Ratio.SimplestModel
  Ratio.SimplerOrder Ratio.SimplestProof Ratio.SimplestAsis Ratio.FareyProof Ratio.SimplestClosed Ratio.SimplestFindings
  Ratio.SimplestFloatEq Ratio.RoundPreimage Ratio.FloatPreimage.
Open Scope Z_scope.

(** x rounded to the format is the fraction y: the rounding position k is the one of x's binade
    (mb+1 significant bits), but never below emin *)
Definition ieee_rounds_to (mb eb : Z) (x y : frac) : Prop :=
  let emin := 1 - (2 ^ (eb - 1) - 1) - mb in
  exists k, emin <= k /\
    Z.abs (fst (qscale 2 k x)) < 2 ^ (mb + 1) * snd (qscale 2 k x) /\
    (k = emin \/ 2 ^ mb * snd (qscale 2 k x) <= Z.abs (fst (qscale 2 k x))) /\
    y = scaled 2 (spec_round MHalfEven (fst (qscale 2 k x)) (snd (qscale 2 k x))) k 1.

(** ** integer core, in units of a quarter ulp of the float (u = 2^(ex-2); the float is 4*man units) *)
Definition ieee_in_units (neg low : bool) (Pm man X D : Z) : Prop :=
  let c := 4 * man in
  let bl := if (man =? Pm) && negb low then 1 else 2 in
  let incl := Z.even man in
  if neg then (- (c + 2) * D < X < - (c - bl) * D) \/ (if incl then X = - (c + 2) * D else False) \/
              (if incl then X = - (c - bl) * D else False)
  else ((c - bl) * D < X < (c + 2) * D) \/ (if incl then X = (c - bl) * D else False) \/
       (if incl then X = (c + 2) * D else False).

Definition ieee_rounds_units (neg low : bool) (Pm man X D : Z) : Prop :=
  let s := if neg then -1 else 1 in
  (Z.abs X < 2 * Pm * (4 * D) /\ (low = true \/ Pm * (4 * D) <= Z.abs X) /\ preimage MHalfEven (s * man) X (4 * D)) \/
  (low = false /\ Z.abs X < 2 * Pm * (2 * D) /\ preimage MHalfEven (s * (2 * man)) X (2 * D)).

Section IeeeCore.
  Variables Pm man X D : Z.
  Variable low : bool.
  Hypothesis HPm : 2 <= Pm.
  Hypothesis HPe : Z.even Pm = true.
  Hypothesis Hman : 0 < man < 2 * Pm.
  Hypothesis Hsub : man < Pm -> low = true.
  Hypothesis HD : 0 < D.

  Theorem ieee_units_preimage : forall neg, ieee_in_units neg low Pm man X D <-> ieee_rounds_units neg low Pm man X D.
  Proof.
    intros neg.
    assert (F1 : 2 * D <= Pm * D) by nia.
    assert (F2 : man * D + D <= 2 * (Pm * D)) by nia.
    assert (F3 : 0 < man * D) by nia.
    assert (F4 : man < Pm -> man * D + D <= Pm * D) by (intros; nia).
    assert (F5 : Pm < man -> Pm * D + D <= man * D) by (intros; nia).
    assert (Ep : Z.even (1 * man) = Z.even man) by (rewrite Z.mul_1_l; reflexivity).
    assert (En : Z.even (-1 * man) = Z.even man) by (rewrite Z.even_mul; reflexivity).
    assert (Ep2 : Z.even (1 * (2 * man)) = true) by (rewrite Z.mul_1_l, Z.even_mul; reflexivity).
    assert (En2 : Z.even (-1 * (2 * man)) = true) by (rewrite !Z.even_mul; reflexivity).
    unfold ieee_in_units, ieee_rounds_units. cbv zeta. cbn [preimage].
    destruct (Z.abs_spec X) as [[Hx Ea]|[Hx Ea]]; rewrite Ea; clear Ea.
    all: destruct (Z.compare_spec man Pm) as [Ec|Ec|Ec].
    all: try (subst man; rewrite Z.eqb_refl, ?HPe in *).
    all: try (rewrite (proj2 (Z.eqb_neq man Pm)) by lia).
    all: try (rewrite (Hsub Ec)).
    all: destruct neg; rewrite ?Ep, ?En, ?Ep2, ?En2, ?HPe; cbn [andb negb].
    all: try destruct low; cbn [andb negb]; try destruct (Z.even man); cbv beta iota.
    all: split; intros H; lia.
  Qed.
End IeeeCore.

(** ** comparisons with scaled values, in units B^t *)
Section UnitsX.
  Variables B t : Z.
  Variable x : frac.
  Hypothesis HB : 0 < B.
  Hypothesis Cx : canon x.
  Let X := fst (qscale B t x).
  Let D := snd (qscale B t x).

  Lemma ux_D : 0 < D. Proof. apply qscale_pos; [exact HB|exact (proj1 Cx)]. Qed.
  Lemma ux_units : uval B t x X D. Proof. apply uval_qscale, HB. Qed.

  Lemma ux_lt_l : forall Y, fval_lt (scaled B Y t 1) x <-> Y * D < X.
  Proof.
    intros Y. rewrite (uval_lt B t HB _ _ Y 1 X D (scaled_pos B Y t 1 HB ltac:(lia)) (proj1 Cx) ltac:(lia) ux_D
      (uval_scaled B t HB Y 1 ltac:(lia)) ux_units). lia.
  Qed.

  Lemma ux_lt_r : forall Y, fval_lt x (scaled B Y t 1) <-> X < Y * D.
  Proof.
    intros Y. rewrite (uval_lt B t HB _ _ X D Y 1 (proj1 Cx) (scaled_pos B Y t 1 HB ltac:(lia)) ux_D ltac:(lia)
      ux_units (uval_scaled B t HB Y 1 ltac:(lia))). lia.
  Qed.

  Lemma ux_eq : forall Y, x = scaled B Y t 1 <-> X = Y * D.
  Proof.
    intros Y. split.
    - intros E. pose proof (uval_scaled B t HB Y 1 ltac:(lia)) as U. rewrite <- E in U.
      pose proof (uval_eq_inv B t HB x X D Y 1 (proj1 Cx) ux_units U). lia.
    - intros E. apply (uval_inj B t HB _ _ X D Y 1); try lia.
      + exact Cx.
      + apply scaled_canon; [exact HB|lia].
      + exact ux_D.
      + exact ux_units.
      + apply uval_scaled; [exact HB|lia].
  Qed.
End UnitsX.

Lemma scaled_shift_eq : forall B Y1 Y2 k j, 0 < B -> 0 <= j -> Y2 = Y1 * B ^ j -> scaled B Y1 (k + j) 1 = scaled B Y2 k 1.
Proof.
  intros B Y1 Y2 k j HB Hj E.
  apply (uval_inj B k HB _ _ (Y1 * B ^ j) 1 Y2 1); try lia.
  - apply scaled_canon; [exact HB|lia].
  - apply scaled_canon; [exact HB|lia].
  - apply uval_shift; [exact HB|ring|exact Hj|lia].
  - apply uval_scaled; [exact HB|lia].
Qed.

Lemma abs_cross : forall a b c d, 0 < b -> 0 < d -> a * b = c * d -> Z.abs a * b = Z.abs c * d.
Proof. intros a b c d Hb Hd E. rewrite <- (Z.abs_eq b) at 1 by lia. rewrite <- (Z.abs_eq d) at 1 by lia. rewrite <- !Z.abs_mul, E. reflexivity. Qed.

Section IeeePre.
  Variables mb eb bits : Z.
  Hypothesis Hmb : 1 <= mb.
  Hypothesis Heb : 0 <= eb.
  Let E := (bits / 2 ^ mb) mod 2 ^ eb.
  Let M := bits mod 2 ^ mb.
  Let neg := (bits / 2 ^ (mb + eb)) mod 2 =? 1.
  Let man := if E =? 0 then M else M + 2 ^ mb.
  Let emin := 1 - (2 ^ (eb - 1) - 1) - mb.
  Let ex := (if E =? 0 then 1 else E) - (2 ^ (eb - 1) - 1) - mb.
  Let Pm := 2 ^ mb.
  Let s := if neg then -1 else 1.
  Let low := ex =? emin.
  Let t := ex - 2.
  Hypothesis Hfin : (E =? 2 ^ eb - 1) = false.
  Hypothesis Hnz : (E =? 0) && (M =? 0) = false.

  Lemma ip_Pm : 2 <= Pm.
  Proof. unfold Pm. replace mb with (1 + (mb - 1)) by ring. rewrite Z.pow_add_r by lia. assert (0 < 2 ^ (mb - 1)) by (apply Z.pow_pos_nonneg; lia). lia. Qed.
  Lemma ip_Pe : Z.even Pm = true. Proof. unfold Pm. rewrite Z.even_pow by lia. reflexivity. Qed.
  Lemma ip_E : 0 <= E. Proof. unfold E. apply Z.mod_pos_bound. apply Z.pow_pos_nonneg; lia. Qed.
  Lemma ip_M : 0 <= M < Pm. Proof. unfold M, Pm. apply Z.mod_pos_bound. apply Z.pow_pos_nonneg; lia. Qed.

  Lemma ip_man : 0 < man < 2 * Pm.
  Proof.
    pose proof ip_M as HM. pose proof Hnz as Hz. unfold man. fold Pm. destruct (Z.eqb_spec E 0) as [E0|E0]; [|lia].
    rewrite ?E0 in Hz. cbn [Z.eqb andb] in Hz. apply Z.eqb_neq in Hz. lia.
  Qed.

  Lemma ip_ex : emin <= ex /\ (ex = emin <-> E <= 1).
  Proof. pose proof ip_E. unfold ex, emin. destruct (Z.eqb_spec E 0); lia. Qed.

  Lemma ip_sub : man < Pm -> low = true.
  Proof.
    pose proof ip_M as HM. pose proof ip_ex as (_ & H2). unfold man. fold Pm. intros Hlt. unfold low. apply Z.eqb_eq, H2.
    destruct (Z.eqb_spec E 0); lia.
  Qed.

  Lemma ip_bl : (M =? 0) && (2 <=? E) = (man =? Pm) && negb low.
  Proof.
    pose proof ip_M. pose proof ip_E. pose proof ip_ex as (_ & H2). unfold low, man. fold Pm.
    destruct (Z.eqb_spec E 0) as [E0|E0].
    - rewrite E0. cbn [Z.leb]. rewrite Bool.andb_false_r. destruct (Z.eqb_spec M Pm); [lia|reflexivity].
    - destruct (Z.leb_spec 2 E).
      + destruct (Z.eqb_spec ex emin); [lia|]. cbn [negb]. rewrite !Bool.andb_true_r.
        destruct (Z.eqb_spec M 0); destruct (Z.eqb_spec (M + Pm) Pm); try reflexivity; lia.
      + destruct (Z.eqb_spec ex emin); [|lia]. cbn [negb]. rewrite !Bool.andb_false_r. reflexivity.
  Qed.

  Lemma ip_value : ieee_value mb eb bits = scaled 2 (s * man) ex 1.
  Proof.
    unfold ieee_value. cbv zeta. fold E M neg man. fold ex. f_equal. unfold s. destruct neg; ring.
  Qed.

  Lemma ip_interval : ieee_interval_spec mb eb bits =
    Some (Some (let bl := if (man =? Pm) && negb low then 1 else 2 in
                if neg then (fneg (scaled 2 (4 * man + 2) t 1), fneg (scaled 2 (4 * man - bl) t 1), Z.even man, Z.even man)
                else (scaled 2 (4 * man - bl) t 1, scaled 2 (4 * man + 2) t 1, Z.even man, Z.even man))).
  Proof.
    unfold ieee_interval_spec. cbv zeta. fold E M neg man. fold ex. rewrite Hfin, Hnz. rewrite ip_bl. reflexivity.
  Qed.

  Variable x : frac.
  Hypothesis Cx : canon x.
  Let X := fst (qscale 2 t x).
  Let D := snd (qscale 2 t x).
  Let N1 := fst (qscale 2 (t + 1) x).
  Let d1 := snd (qscale 2 (t + 1) x).
  Let N0 := fst (qscale 2 (t + 1 + 1) x).
  Let d0 := snd (qscale 2 (t + 1 + 1) x).

  Lemma ip_D : 0 < D. Proof. apply qscale_pos; [lia|exact (proj1 Cx)]. Qed.
  Lemma ip_d1 : 0 < d1. Proof. apply qscale_pos; [lia|exact (proj1 Cx)]. Qed.
  Lemma ip_d0 : 0 < d0. Proof. apply qscale_pos; [lia|exact (proj1 Cx)]. Qed.
  Lemma ip_step1 : N1 * (2 * D) = X * d1.
  Proof. pose proof (qscale_step 2 t x ltac:(lia)) as H. fold X D N1 d1 in H. lia. Qed.
  Lemma ip_step0 : N0 * (4 * D) = X * d0.
  Proof.
    pose proof (qscale_step 2 (t + 1) x ltac:(lia)) as H. fold N1 d1 N0 d0 in H. pose proof ip_step1 as H1. pose proof ip_d1.
    apply (Z.mul_cancel_r _ _ d1); [lia|].
    transitivity ((N0 * (d1 * 2)) * (2 * D)); [ring|]. rewrite H. transitivity ((N1 * (2 * D)) * d0); [ring|]. rewrite H1. ring.
  Qed.

  (** step 1: membership *)
  Lemma ip_member_gen : forall (b : bool) bl incl,
    member (if b then (fneg (scaled 2 (4 * man + 2) t 1), fneg (scaled 2 (4 * man - bl) t 1), incl, incl)
            else (scaled 2 (4 * man - bl) t 1, scaled 2 (4 * man + 2) t 1, incl, incl)) x <->
    (if b then (- (4 * man + 2) * D < X < - (4 * man - bl) * D) \/ (if incl then X = - (4 * man + 2) * D else False) \/
               (if incl then X = - (4 * man - bl) * D else False)
     else ((4 * man - bl) * D < X < (4 * man + 2) * D) \/ (if incl then X = (4 * man - bl) * D else False) \/
          (if incl then X = (4 * man + 2) * D else False)).
  Proof.
    intros b bl incl. assert (H2 : 0 < 2) by lia. destruct b.
    - rewrite !fneg_scaled by lia. rewrite member_iff by exact Cx.
      rewrite (ux_lt_l 2 t x H2 Cx), (ux_lt_r 2 t x H2 Cx). fold X D.
      destruct incl; [rewrite !(ux_eq 2 t x H2 Cx); fold X D|]; tauto.
    - rewrite member_iff by exact Cx. rewrite (ux_lt_l 2 t x H2 Cx), (ux_lt_r 2 t x H2 Cx). fold X D.
      destruct incl; [rewrite !(ux_eq 2 t x H2 Cx); fold X D|]; tauto.
  Qed.

  (** step 2: rounding *)
  Lemma ip_pow : 2 ^ (mb + 1) = 2 * Pm.
  Proof. unfold Pm. rewrite Z.pow_add_r, Z.pow_1_r by lia. ring. Qed.

  Lemma ip_units_to : ieee_rounds_units neg low Pm man X D -> ieee_rounds_to mb eb x (ieee_value mb eb bits).
  Proof.
    unfold ieee_rounds_units, ieee_rounds_to. cbv zeta. fold emin. fold s. rewrite ip_value.
    pose proof ip_D as HD. pose proof ip_d1 as Hd1. pose proof ip_d0 as Hd0. pose proof ip_ex as (Hex & Hex2).
    pose proof (abs_cross N0 (4 * D) X d0 ltac:(lia) Hd0 ip_step0) as A0.
    pose proof (abs_cross N1 (2 * D) X d1 ltac:(lia) Hd1 ip_step1) as A1.
    intros [(Hb & Hl & Hpre)|(Hl & Hb & Hpre)].
    - exists ex. replace (qscale 2 ex x) with (qscale 2 (t + 1 + 1) x) by (unfold t; f_equal; ring). fold N0 d0.
      destruct (scale_cmp (2 * Pm) 1 (Z.abs N0) d0 (Z.abs X) (4 * D) Hd0 ltac:(lia) A0) as (_ & _ & _ & B4).
      destruct (scale_cmp Pm 1 (Z.abs N0) d0 (Z.abs X) (4 * D) Hd0 ltac:(lia) A0) as (B1 & _ & _ & _).
      split; [exact Hex|]. split; [rewrite ip_pow; lia|]. split.
      + destruct Hl as [Hl|Hl]; [left; unfold low in Hl; apply Z.eqb_eq in Hl; exact Hl|right; fold Pm; lia].
      + rewrite (spec_round_eqv MHalfEven N0 d0 X (4 * D) Hd0 ltac:(lia) ip_step0).
        rewrite (proj2 (spec_round_preimage MHalfEven X (4 * D) (s * man) ltac:(lia)) Hpre). reflexivity.
    - unfold low in Hl. apply Z.eqb_neq in Hl.
      exists (ex - 1). replace (qscale 2 (ex - 1) x) with (qscale 2 (t + 1) x) by (unfold t; f_equal; ring). fold N1 d1.
      destruct (scale_cmp (2 * Pm) 1 (Z.abs N1) d1 (Z.abs X) (2 * D) Hd1 ltac:(lia) A1) as (_ & _ & _ & B4).
      destruct (scale_cmp Pm 1 (Z.abs N1) d1 (Z.abs X) (2 * D) Hd1 ltac:(lia) A1) as (B1 & _ & _ & _).
      split; [lia|]. split; [rewrite ip_pow; lia|]. split.
      + right. fold Pm.
        assert (G : Pm * (2 * D) <= Z.abs X).
        { clear B1 B4 A0 A1 Hb.
          assert (Hge : Pm <= man). { destruct (Z_lt_le_dec man Pm) as [Hlt|Hge]; [|exact Hge]. pose proof (ip_sub Hlt) as Hl2. unfold low in Hl2. apply Z.eqb_eq in Hl2. lia. }
          assert (F : Pm * D <= man * D) by nia. assert (F' : D <= Pm * D) by (pose proof ip_Pm; nia).
          cbn [preimage] in Hpre. unfold s in Hpre. destruct neg.
          - replace (-1 * (2 * man)) with (- (2 * man)) in Hpre by ring. destruct (Z.even _) in Hpre; lia.
          - replace (1 * (2 * man)) with (2 * man) in Hpre by ring. destruct (Z.even _) in Hpre; lia. }
        lia.
      + rewrite (spec_round_eqv MHalfEven N1 d1 X (2 * D) Hd1 ltac:(lia) ip_step1).
        rewrite (proj2 (spec_round_preimage MHalfEven X (2 * D) (s * (2 * man)) ltac:(lia)) Hpre).
        replace ex with ((ex - 1) + 1) at 1 by ring. apply scaled_shift_eq; [lia|lia|rewrite Z.pow_1_r; ring].
  Qed.

  Lemma ip_s_abs : forall z, Z.abs (s * z) = Z.abs z.
  Proof. intros z. unfold s. destruct neg; lia. Qed.

  Lemma ip_to_units : ieee_rounds_to mb eb x (ieee_value mb eb bits) -> ieee_rounds_units neg low Pm man X D.
  Proof.
    unfold ieee_rounds_to, ieee_rounds_units. cbv zeta. fold emin. fold s. rewrite ip_value.
    intros (k & Hk & Hub & Hlb & Hf).
    set (Nk := fst (qscale 2 k x)) in *. set (dk := snd (qscale 2 k x)) in *.
    assert (Hdk : 0 < dk) by (apply qscale_pos; [lia|exact (proj1 Cx)]).
    set (r := spec_round MHalfEven Nk dk) in *.
    pose proof ip_man as Hman. pose proof ip_Pm as HPm. pose proof ip_ex as (Hex & Hex2).
    pose proof ip_D as HD. pose proof ip_d1 as Hd1. pose proof ip_d0 as Hd0.
    assert (Hr : Z.abs r <= 2 * Pm).
    { rewrite <- ip_pow. apply (spec_round_abs_bounds MHalfEven Nk dk 0 (2 ^ (mb + 1)) Hdk); lia. }
    assert (Hr2 : k <> emin -> Pm <= Z.abs r).
    { intros Hne. destruct Hlb as [Hlb|Hlb]; [contradiction|].
      apply (spec_round_abs_bounds MHalfEven Nk dk (2 ^ mb) (2 ^ (mb + 1)) Hdk); [unfold Pm in HPm; lia|exact Hlb|lia]. }
    destruct (Z_lt_le_dec k ex) as [Hlt|Hge].
    - symmetry in Hf. apply scaled_eq_inv in Hf; [|lia|lia].
      destruct (Z.eq_dec k (ex - 1)) as [Ek|Nk1].
      + right. subst k. replace (ex - (ex - 1)) with 1 in Hf by ring. rewrite Z.pow_1_r in Hf.
        assert (ENk : Nk = N1) by (unfold Nk, N1, t; do 2 f_equal; ring).
        assert (Edk : dk = d1) by (unfold dk, d1, t; do 2 f_equal; ring).
        assert (Er : r = spec_round MHalfEven N1 d1) by (unfold r; rewrite ENk, Edk; reflexivity).
        rewrite ENk, Edk in *. clear ENk Edk.
        pose proof (abs_cross N1 (2 * D) X d1 ltac:(lia) Hd1 ip_step1) as A1.
        destruct (scale_cmp (2 * Pm) 1 (Z.abs N1) d1 (Z.abs X) (2 * D) Hd1 ltac:(lia) A1) as (_ & _ & _ & B4).
        split; [unfold low; apply Z.eqb_neq; lia|]. split; [rewrite ip_pow in Hub; lia|].
        apply (preimage_eqv MHalfEven _ N1 d1 X (2 * D) Hd1 ltac:(lia) ip_step1).
        replace (s * (2 * man)) with (spec_round MHalfEven N1 d1) by (rewrite <- Er, Hf; ring). apply spec_round_preimage; [exact Hd1|reflexivity].
      + exfalso.
        assert (HQ : 4 <= 2 ^ (ex - k)).
        { change 4 with (2 ^ 2). apply Z.pow_le_mono_r; lia. }
        assert (Ea : Z.abs r = man * 2 ^ (ex - k)).
        { rewrite Hf. rewrite <- Z.mul_assoc, ip_s_abs, Z.abs_mul. rewrite (Z.abs_eq man), (Z.abs_eq (2 ^ (ex - k))) by lia. reflexivity. }
        assert (Hlt2 : man < Pm) by nia. pose proof (ip_sub Hlt2) as Hl2. unfold low in Hl2. apply Z.eqb_eq in Hl2. lia.
    - apply scaled_eq_inv in Hf; [|lia|exact Hge].
      destruct (Z.eq_dec k ex) as [Ek|Nke].
      + left. subst k. rewrite Z.sub_diag, Z.pow_0_r, Z.mul_1_r in Hf.
        assert (ENk : Nk = N0) by (unfold Nk, N0, t; do 2 f_equal; ring).
        assert (Edk : dk = d0) by (unfold dk, d0, t; do 2 f_equal; ring).
        assert (Er : r = spec_round MHalfEven N0 d0) by (unfold r; rewrite ENk, Edk; reflexivity).
        rewrite ENk, Edk in *. clear ENk Edk.
        pose proof (abs_cross N0 (4 * D) X d0 ltac:(lia) Hd0 ip_step0) as A0.
        destruct (scale_cmp (2 * Pm) 1 (Z.abs N0) d0 (Z.abs X) (4 * D) Hd0 ltac:(lia) A0) as (_ & _ & _ & B4).
        destruct (scale_cmp Pm 1 (Z.abs N0) d0 (Z.abs X) (4 * D) Hd0 ltac:(lia) A0) as (B1 & _ & _ & _).
        split; [rewrite ip_pow in Hub; lia|]. split.
        * destruct Hlb as [Hlb|Hlb]; [left; unfold low; apply Z.eqb_eq; exact Hlb|right; fold Pm in Hlb; lia].
        * apply (preimage_eqv MHalfEven _ N0 d0 X (4 * D) Hd0 ltac:(lia) ip_step0).
          rewrite Hf, Er. apply spec_round_preimage; [exact Hd0|reflexivity].
      + exfalso.
        assert (HQ : 2 <= 2 ^ (k - ex)).
        { change 2 with (2 ^ 1) at 1. apply Z.pow_le_mono_r; lia. }
        assert (Ea : man = Z.abs r * 2 ^ (k - ex)).
        { assert (E0 : Z.abs (s * man) = Z.abs (r * 2 ^ (k - ex))) by (rewrite Hf; reflexivity).
          rewrite ip_s_abs, Z.abs_mul, (Z.abs_eq man), (Z.abs_eq (2 ^ (k - ex))) in E0 by lia. exact E0. }
        assert (Pm <= Z.abs r) by (apply Hr2; lia). nia.
  Qed.

  Theorem ieee_interval_preimage_x : forall i, ieee_interval_spec mb eb bits = Some (Some i) ->
    (member i x <-> ieee_rounds_to mb eb x (ieee_value mb eb bits)).
  Proof.
    intros i Hi. rewrite ip_interval in Hi. injection Hi as <-. cbv zeta.
    rewrite ip_member_gen.
    pose proof (ieee_units_preimage Pm man X D low ip_Pm ip_Pe ip_man ip_sub ip_D neg) as Hc.
    unfold ieee_in_units in Hc. cbv zeta in Hc. rewrite Hc.
    split; [exact ip_units_to|exact ip_to_units].
  Qed.
End IeeePre.

(** the specified rounding interval of an f32/f64 IS the preimage of the float under
    round-to-nearest-even; [ieee_interval_spec] answers Some (Some i) exactly for the finite
    non-zero bit patterns *)
Theorem ieee_interval_is_preimage : forall mb eb bits i x, 1 <= mb -> 0 <= eb ->
  ieee_interval_spec mb eb bits = Some (Some i) -> canon x ->
  (member i x <-> ieee_rounds_to mb eb x (ieee_value mb eb bits)).
Proof.
  intros mb eb bits i x Hmb Heb Hi Cx.
  assert (Hfin : ((bits / 2 ^ mb) mod 2 ^ eb =? 2 ^ eb - 1) = false).
  { unfold ieee_interval_spec in Hi. cbv zeta in Hi. destruct (_ =? 2 ^ eb - 1); [discriminate|reflexivity]. }
  assert (Hnz : ((bits / 2 ^ mb) mod 2 ^ eb =? 0) && (bits mod 2 ^ mb =? 0) = false).
  { unfold ieee_interval_spec in Hi. cbv zeta in Hi. rewrite Hfin in Hi. destruct (_ && _); [discriminate|reflexivity]. }
  exact (ieee_interval_preimage_x mb eb bits Hmb Heb Hfin Hnz x Cx i Hi).
Qed.

Example ieee_interval_is_preimage_nonvacuous :
  (* f32 1.0 = 0x3f800000: a power of two; 1 - 2^-25 is the tie below (ulp/4 below 1.0), it rounds to 1.0 (even) *)
  exists i, ieee_interval_spec 23 8 1065353216 = Some (Some i) /\ member i (33554431, 33554432) /\
            ieee_rounds_to 23 8 (33554431, 33554432) (ieee_value 23 8 1065353216).
Proof.
  eexists. split; [vm_compute; reflexivity|].
  assert (C : canon (33554431, 33554432)) by (split; [cbn; lia|vm_compute; reflexivity]).
  assert (R : ieee_rounds_to 23 8 (33554431, 33554432) (ieee_value 23 8 1065353216)).
  { exists (-24). vm_compute. repeat split; try discriminate. right. discriminate. }
  split; [|exact R].
  apply (ieee_interval_is_preimage 23 8 1065353216); [lia|lia|vm_compute; reflexivity|exact C|exact R].
Qed.

(** ** what the specification of simplest_from_f32/f64 means: THE simplest canonical fraction among
    those that round to the float *)
Lemma ieee_interval_wf : forall mb eb bits i, ieee_interval_spec mb eb bits = Some (Some i) ->
  canon (fst (fst (fst i))) /\ canon (snd (fst (fst i))) /\ fval_lt (fst (fst (fst i))) (snd (fst (fst i))).
Proof.
  intros mb eb bits i Hi. unfold ieee_interval_spec in Hi. cbv zeta in Hi.
  destruct (_ =? 2 ^ eb - 1); [discriminate|]. destruct (_ && _); [discriminate|].
  set (bl := if _ && _ then 1 else 2) in Hi. assert (Hbl : 1 <= bl <= 2) by (unfold bl; destruct (_ && _); lia).
  clearbody bl. injection Hi as <-.
  destruct (_ =? 1); cbn [fst snd].
  - rewrite !fneg_scaled by lia. repeat split; try (apply scaled_canon; lia). apply scaledB_lt; lia.
  - repeat split; try (apply scaled_canon; lia). apply scaledB_lt; lia.
Qed.

Theorem simplest_from_ieee_spec_meaning : forall mb eb bits i, 1 <= mb -> 0 <= eb ->
  ieee_interval_spec mb eb bits = Some (Some i) ->
  exists r, simplest_from_ieee_spec mb eb bits = Ok (Some r) /\ canon r /\
    ieee_rounds_to mb eb r (ieee_value mb eb bits) /\
    forall s, canon s -> ieee_rounds_to mb eb s (ieee_value mb eb bits) -> s <> r -> simpler r s = true.
Proof.
  intros mb eb bits i Hmb Heb Hi.
  pose proof (ieee_interval_wf mb eb bits i Hi) as (Clo & Chi & Hlt).
  pose proof (fun x Cx => ieee_interval_is_preimage mb eb bits i x Hmb Heb Hi Cx) as Pre.
  unfold simplest_from_ieee_spec. rewrite Hi.
  destruct i as [[[lo hi] ilo] ihi]. cbn [fst snd] in Clo, Chi, Hlt.
  destruct (simplest_closed_correct lo hi ilo ihi Clo Chi Hlt) as (r & Er & Mr & Opt).
  exists r. rewrite Er. assert (Cr : canon r) by (cbn [member] in Mr; exact (proj1 Mr)).
  split; [reflexivity|]. split; [exact Cr|]. split; [apply Pre; assumption|].
  intros s Cs Rs Hne. apply Opt; [apply Pre; assumption|exact Hne].
Qed.
