(** C18 - the preimage of an integer under [spec_round] (the six dashu rounding modes), as an
    interval of numerators: the tool that turns "x rounds to the float f" into "x lies in the
    rounding interval of f".  Pure integer arithmetic. *)
From Dashu Require Import Base.Prelude Float.RoundSpec Float.RoundTablesProof Float.RoundSpecProof.
Open Scope Z_scope.

(** [preimage md r N d]: N/d (d > 0) lies in the set of rationals that [md] rounds to the integer r *)
Definition preimage (md : mode) (r N d : Z) : Prop :=
  match md with
  | MDown => r * d <= N < (r + 1) * d
  | MUp => (r - 1) * d < N <= r * d
  | MZero => (0 < r /\ r * d <= N < (r + 1) * d) \/ (r < 0 /\ (r - 1) * d < N <= r * d) \/ (r = 0 /\ - d < N < d)
  | MAway => (0 < r /\ (r - 1) * d < N <= r * d) \/ (r < 0 /\ r * d <= N < (r + 1) * d) \/ (r = 0 /\ N = 0)
  | MHalfAway => (0 < r /\ (2 * r - 1) * d <= 2 * N < (2 * r + 1) * d) \/
                 (r < 0 /\ (2 * r - 1) * d < 2 * N <= (2 * r + 1) * d) \/ (r = 0 /\ - d < 2 * N < d)
  | MHalfEven => if Z.even r then (2 * r - 1) * d <= 2 * N <= (2 * r + 1) * d
                 else (2 * r - 1) * d < 2 * N < (2 * r + 1) * d
  end.

Lemma div_unique_bounds N d r : 0 < d -> r * d <= N < r * d + d -> N / d = r.
Proof. intros Hd H. pose proof (div_bounds N d Hd). nia. Qed.

Lemma spec_round_Down_pre N d r : 0 < d -> (spec_round MDown N d = r <-> preimage MDown r N d).
Proof.
  intros Hd. cbn [spec_round preimage]. pose proof (div_bounds N d Hd). split.
  - intros <-. lia.
  - intros H1. apply div_unique_bounds; lia.
Qed.

Lemma spec_round_Up_pre N d r : 0 < d -> (spec_round MUp N d = r <-> preimage MUp r N d).
Proof.
  intros Hd. cbn [spec_round preimage]. pose proof (div_bounds (- N) d Hd). split.
  - intros <-. lia.
  - intros H1. assert (E : (- N) / d = - r) by (apply div_unique_bounds; lia). lia.
Qed.

Lemma spec_round_Zero_pre N d r : 0 < d -> (spec_round MZero N d = r <-> preimage MZero r N d).
Proof.
  intros Hd. cbn [spec_round preimage]. rewrite quot_by_div by exact Hd.
  pose proof (div_bounds N d Hd). pose proof (div_bounds (- N) d Hd).
  destruct (Z.ltb_spec N 0) as [Hn|Hn]; split.
  - intros <-. assert (0 <= (- N) / d) by (apply Z.div_pos; lia). nia.
  - intros [(H1 & H2)|[(H1 & H2)|(H1 & H2)]]; nia.
  - intros <-. assert (0 <= N / d) by (apply Z.div_pos; lia). nia.
  - intros [(H1 & H2)|[(H1 & H2)|(H1 & H2)]]; nia.
Qed.

Lemma spec_round_Away_pre N d r : 0 < d -> (spec_round MAway N d = r <-> preimage MAway r N d).
Proof.
  intros Hd. cbn [spec_round preimage]. rewrite quot_by_div by exact Hd.
  pose proof (div_bounds N d Hd) as Hb. pose proof (div_bounds (- N) d Hd) as Hb'.
  pose proof (Z.div_mod N d ltac:(lia)) as E. pose proof (Z.mod_pos_bound N d Hd) as Hm.
  destruct (Z.eqb_spec (N mod d) 0) as [Hz|Hz].
  - assert (HN : N = (N / d) * d) by lia. split.
    + intros <-. set (q := N / d) in *. clearbody q. nia.
    + intros [(H1 & H2)|[(H1 & H2)|(H1 & H2)]].
      * set (q := N / d) in *. clearbody q. nia.
      * set (q := N / d) in *. clearbody q. nia.
      * subst. rewrite Z.div_0_l by lia. reflexivity.
  - assert (HN : N <> (N / d) * d) by lia.
    destruct (Z.ltb_spec N 0) as [Hn|Hn].
    + rewrite Z.sgn_neg by lia.
      assert (Hq : 0 <= (- N) / d) by (apply Z.div_pos; lia).
      assert (Hne : - N <> ((- N) / d) * d).
      { intros Ee. apply Hz. replace N with ((- ((- N) / d)) * d) by lia. apply Z.mod_mul. lia. }
      split.
      * intros <-. nia.
      * intros [(H1 & H2)|[(H1 & H2)|(H1 & H2)]]; nia.
    + assert (N <> 0) by (intros ->; rewrite Z.mod_0_l in Hz; lia). rewrite Z.sgn_pos by lia.
      assert (Hq : 0 <= N / d) by (apply Z.div_pos; lia).
      split.
      * intros <-. nia.
      * intros [(H1 & H2)|[(H1 & H2)|(H1 & H2)]]; nia.
Qed.

Lemma spec_round_HalfAway_pre N d r : 0 < d -> (spec_round MHalfAway N d = r <-> preimage MHalfAway r N d).
Proof.
  intros Hd. cbn [spec_round preimage].
  set (a := Z.abs N). pose proof (div_bounds (2 * a + d) (2 * d) ltac:(lia)) as Hk.
  assert (Hk0 : 0 <= (2 * a + d) / (2 * d)) by (apply Z.div_pos; unfold a; lia).
  destruct (Z.lt_trichotomy N 0) as [Hn|[Hn|Hn]].
  - rewrite Z.sgn_neg by lia. assert (Ea : a = - N) by (unfold a; lia). rewrite Ea in *. split.
    + intros <-. set (k := (2 * - N + d) / (2 * d)) in *. clearbody k. nia.
    + intros [(H1 & H2)|[(H1 & H2)|(H1 & H2)]]; nia.
  - subst N. cbn [Z.sgn]. split; [intros <-; lia|]. intros [(H1 & H2)|[(H1 & H2)|(H1 & H2)]]; nia.
  - rewrite Z.sgn_pos by lia. assert (Ea : a = N) by (unfold a; lia). rewrite Ea in *. split.
    + intros <-. set (k := (2 * N + d) / (2 * d)) in *. clearbody k. nia.
    + intros [(H1 & H2)|[(H1 & H2)|(H1 & H2)]]; nia.
Qed.

Lemma spec_round_HalfEven_pre N d r : 0 < d -> (spec_round MHalfEven N d = r <-> preimage MHalfEven r N d).
Proof.
  intros Hd. cbn [spec_round preimage].
  pose proof (div_bounds N d Hd) as Hb. pose proof (Z.div_mod N d ltac:(lia)) as E.
  pose proof (Z.mod_pos_bound N d Hd) as Hm.
  set (q := N / d) in *. set (m := N mod d) in *. clearbody q m.
  assert (Hpar : forall z, Z.even (z + 1) = negb (Z.even z)).
  { intros z. rewrite Z.even_add. destruct (Z.even z); reflexivity. }
  destruct (Z.compare_spec (2 * m) d) as [C|C|C]; split.
  - destruct (Z.even q) eqn:Eq; intros <-.
    + rewrite Eq. nia.
    + rewrite Hpar, Eq. cbn [negb]. nia.
  - destruct (Z.even r) eqn:Er; intros H1.
    + assert (HN2 : 2 * N = (2 * q + 1) * d) by nia. rewrite HN2 in H1.
      assert (r = q \/ r = q + 1) as [->| ->] by nia; [rewrite Er; reflexivity|].
      rewrite Hpar in Er. destruct (Z.even q); [discriminate|reflexivity].
    + assert (HN2 : 2 * N = (2 * q + 1) * d) by nia. rewrite HN2 in H1.
      assert (2 * r - 1 < 2 * q + 1 < 2 * r + 1) by nia. lia.
  - intros <-. destruct (Z.even q); nia.
  - destruct (Z.even r); intros H1; nia.
  - intros <-. destruct (Z.even (q + 1)); nia.
  - destruct (Z.even r); intros H1; nia.
Qed.

Theorem spec_round_preimage md N d r : 0 < d -> (spec_round md N d = r <-> preimage md r N d).
Proof.
  destruct md; [apply spec_round_Zero_pre|apply spec_round_Away_pre|apply spec_round_Up_pre|apply spec_round_Down_pre
               |apply spec_round_HalfEven_pre|apply spec_round_HalfAway_pre].
Qed.

Example spec_round_preimage_examples :
  preimage MHalfEven 2 5 2 /\ ~ preimage MHalfEven 3 5 2 /\ preimage MHalfAway 3 5 2 /\ preimage MAway (-4) (-7) 2 /\
  preimage MZero 0 (-1) 2 /\ ~ preimage MAway 0 1 2.
Proof. cbn. repeat split; lia. Qed.

(** ** the preimage depends only on the value N/d *)
Lemma scale_cmp a j N1 d1 N2 d2 : 0 < d1 -> 0 < d2 -> N1 * d2 = N2 * d1 ->
  (a * d1 <= j * N1 <-> a * d2 <= j * N2) /\ (a * d1 < j * N1 <-> a * d2 < j * N2) /\
  (j * N1 <= a * d1 <-> j * N2 <= a * d2) /\ (j * N1 < a * d1 <-> j * N2 < a * d2).
Proof.
  intros H1 H2 E.
  assert (E1 : (a * d2) * d1 = (a * d1) * d2) by ring.
  assert (E2 : (j * N2) * d1 = (j * N1) * d2) by (rewrite <- !Z.mul_assoc, E; ring).
  repeat split; intros H; nia.
Qed.

Lemma sc1 a N1 d1 N2 d2 : 0 < d1 -> 0 < d2 -> N1 * d2 = N2 * d1 ->
  (a * d1 <= N1 -> a * d2 <= N2) /\ (a * d1 < N1 -> a * d2 < N2) /\
  (N1 <= a * d1 -> N2 <= a * d2) /\ (N1 < a * d1 -> N2 < a * d2).
Proof.
  intros H1 H2 E. destruct (scale_cmp a 1 N1 d1 N2 d2 H1 H2 E) as (A & B & C & D).
  rewrite !Z.mul_1_l in *. repeat split; intros H; [apply A|apply B|apply C|apply D]; exact H.
Qed.

Lemma sc2 a N1 d1 N2 d2 : 0 < d1 -> 0 < d2 -> N1 * d2 = N2 * d1 ->
  (a * d1 <= 2 * N1 -> a * d2 <= 2 * N2) /\ (a * d1 < 2 * N1 -> a * d2 < 2 * N2) /\
  (2 * N1 <= a * d1 -> 2 * N2 <= a * d2) /\ (2 * N1 < a * d1 -> 2 * N2 < a * d2).
Proof.
  intros H1 H2 E. destruct (scale_cmp a 2 N1 d1 N2 d2 H1 H2 E) as (A & B & C & D).
  repeat split; intros H; [apply A|apply B|apply C|apply D]; exact H.
Qed.

Lemma preimage_eqv md r N1 d1 N2 d2 : 0 < d1 -> 0 < d2 -> N1 * d2 = N2 * d1 ->
  preimage md r N1 d1 -> preimage md r N2 d2.
Proof.
  intros H1 H2 E.
  destruct (sc1 r N1 d1 N2 d2 H1 H2 E) as (A1 & A2 & A3 & A4).
  destruct (sc1 (r + 1) N1 d1 N2 d2 H1 H2 E) as (B1 & B2 & B3 & B4).
  destruct (sc1 (r - 1) N1 d1 N2 d2 H1 H2 E) as (C1 & C2 & C3 & C4).
  destruct (sc1 (-1) N1 d1 N2 d2 H1 H2 E) as (D1 & D2 & D3 & D4).
  destruct (sc1 1 N1 d1 N2 d2 H1 H2 E) as (E1 & E2 & E3 & E4).
  destruct (sc1 0 N1 d1 N2 d2 H1 H2 E) as (Z1 & Z2 & Z3 & Z4).
  destruct (sc2 (2 * r - 1) N1 d1 N2 d2 H1 H2 E) as (F1 & F2 & F3 & F4).
  destruct (sc2 (2 * r + 1) N1 d1 N2 d2 H1 H2 E) as (G1 & G2 & G3 & G4).
  destruct (sc2 (-1) N1 d1 N2 d2 H1 H2 E) as (I1 & I2 & I3 & I4).
  destruct (sc2 1 N1 d1 N2 d2 H1 H2 E) as (J1 & J2 & J3 & J4).
  destruct md; cbn [preimage].
  - (* Zero *) clear F1 F2 F3 F4 G1 G2 G3 G4 I1 I2 I3 I4 J1 J2 J3 J4 Z1 Z2 Z3 Z4 A2 A4 B1 B2 B3 C1 C3 C4 D1 D3 D4 E1 E2 E3.
    intros [(K1 & K2 & K3)|[(K1 & K2 & K3)|(K1 & K2 & K3)]]; [left|right; left|right; right]; lia.
  - (* Away *) clear F1 F2 F3 F4 G1 G2 G3 G4 I1 I2 I3 I4 J1 J2 J3 J4 D1 D2 D3 D4 E1 E2 E3 E4 Z2 Z4 A2 A4 B1 B2 B3 C1 C3 C4.
    intros [(K1 & K2 & K3)|[(K1 & K2 & K3)|(K1 & K2)]]; [left|right; left|right; right]; lia.
  - (* Up *) intros (K1 & K2). split; [apply C2, K1|apply A3, K2].
  - (* Down *) intros (K1 & K2). split; [apply A1, K1|apply B4, K2].
  - (* HalfEven *) destruct (Z.even r); intros (K1 & K2); split; auto.
  - (* HalfAway *) clear A1 A2 A3 A4 B1 B2 B3 B4 C1 C2 C3 C4 D1 D2 D3 D4 E1 E2 E3 E4 Z1 Z2 Z3 Z4 F4 G1 G2 I1 I3 I4 J1 J2 J3.
    intros [(K1 & K2 & K3)|[(K1 & K2 & K3)|(K1 & K2 & K3)]]; [left|right; left|right; right]; lia.
Qed.

Theorem spec_round_eqv md N1 d1 N2 d2 : 0 < d1 -> 0 < d2 -> N1 * d2 = N2 * d1 ->
  spec_round md N1 d1 = spec_round md N2 d2.
Proof.
  intros H1 H2 E. symmetry. apply spec_round_preimage; [exact H2|].
  apply (preimage_eqv md _ N1 d1); [exact H1|exact H2|exact E|]. apply spec_round_preimage; [exact H1|reflexivity].
Qed.

(** magnitude window: rounding stays between the integers that bracket the value *)
Lemma spec_round_abs_bounds md N d lo hi : 0 < d -> 0 <= lo -> lo * d <= Z.abs N -> Z.abs N <= hi * d ->
  lo <= Z.abs (spec_round md N d) <= hi.
Proof.
  intros Hd Hlo H1 H2. pose proof (proj1 (spec_round_error md N d Hd)) as He. cbv zeta in He.
  set (r := spec_round md N d) in *. clearbody r. nia.
Qed.

(** ** the rounding interval of a p-digit significand, in integer units.
    Units: u = one digit below the last digit of the float, so the float is s*m*B units, its ulp is
    B units and the binade below it (where numbers are rounded at 1 unit) ends at P1*B units;
    P1 = B^(p-1) <= m < B^p.  x = X/D units.  The table is the one of [float_interval_spec]. *)
Definition interval_table (md : mode) (neg pw : bool) (B m : Z) : Z * Z * bool * bool :=
  let U := 2 * B in
  let U' := if pw then 2 else 2 * B in
  match md with
  | MZero => (0, U, true, false)
  | MAway => (U', 0, false, true)
  | MUp => if neg then (0, U, true, false) else (U', 0, false, true)
  | MDown => if neg then (U', 0, false, true) else (0, U, true, false)
  | MHalfAway => (U' / 2, U / 2, true, false)
  | MHalfEven => (U' / 2, U / 2, (if pw then Z.even B else Z.even m), Z.even m)
  end.

Definition in_units (md : mode) (neg : bool) (B P1 m X D : Z) : Prop :=
  let c := 2 * m * B in
  let '(bl, ab, itz, iaw) := interval_table md neg (m =? P1) B m in
  if neg then (- (c + ab) * D < 2 * X < - (c - bl) * D) \/ (if iaw then 2 * X = - (c + ab) * D else False) \/
              (if itz then 2 * X = - (c - bl) * D else False)
  else ((c - bl) * D < 2 * X < (c + ab) * D) \/ (if itz then 2 * X = (c - bl) * D else False) \/
       (if iaw then 2 * X = (c + ab) * D else False).

Definition rounds_units (md : mode) (neg : bool) (B P1 m X D : Z) : Prop :=
  let s := if neg then -1 else 1 in
  (P1 * B * D <= Z.abs X < P1 * B * B * D /\ preimage md (s * m) X (D * B)) \/
  (P1 * D <= Z.abs X < P1 * B * D /\ preimage md (s * m * B) X D).

Section Core.
  Variables B P1 m X D : Z.
  Hypothesis HB : 2 <= B.
  Hypothesis HP1 : 1 <= P1.
  Hypothesis Hm : P1 <= m < P1 * B.
  Hypothesis HD : 0 < D.
  Hypothesis Hev : Z.even (P1 * B) = Z.even B.

  Theorem interval_units_preimage : forall md neg, in_units md neg B P1 m X D <-> rounds_units md neg B P1 m X D.
  Proof.
    intros md neg.
    assert (F0 : 0 < B * D) by nia.
    assert (F1 : P1 * B * D <= m * B * D) by nia.
    assert (F2 : m * B * D + B * D <= P1 * B * B * D).
    { assert (m + 1 <= P1 * B) by lia. assert ((m + 1) * (B * D) <= (P1 * B) * (B * D)) by (apply Z.mul_le_mono_nonneg_r; lia). nia. }
    assert (F3 : 2 * D <= B * D) by nia.
    assert (F5 : 2 * (P1 * D) <= P1 * B * D) by nia.
    assert (F6 : D <= P1 * D) by nia.
    assert (F4 : m <> P1 -> P1 * B * D + B * D <= m * B * D).
    { intros Hne. assert (P1 + 1 <= m) by lia. assert ((P1 + 1) * (B * D) <= m * (B * D)) by (apply Z.mul_le_mono_nonneg_r; lia). nia. }
    assert (F9 : B * D <= P1 * B * D) by nia.
    assert (F7 : 0 < P1 * B) by nia. assert (F8 : 0 < m * B) by nia.
    assert (HU : 2 * B / 2 = B) by (rewrite Z.mul_comm; apply Z.div_mul; lia).
    assert (Ep : Z.even (1 * m) = Z.even m) by (rewrite Z.mul_1_l; reflexivity).
    assert (En : Z.even (-1 * m) = Z.even m) by (rewrite Z.even_mul; reflexivity).
    assert (Epb : Z.even (1 * P1 * B) = Z.even B) by (rewrite Z.mul_1_l; exact Hev).
    assert (Enb : Z.even (-1 * P1 * B) = Z.even B) by (rewrite <- Z.mul_assoc, Z.even_mul; cbn [Z.even orb]; exact Hev).
    unfold in_units, rounds_units, interval_table. rewrite HU.
    destruct (Z.eqb_spec m P1) as [Epw|Npw].
    - subst m. clear F4.
      destruct md, neg; cbv beta iota zeta; cbn [preimage]; change (2 / 2) with 1; rewrite ?Ep, ?En, ?Epb, ?Enb;
        repeat match goal with |- context [if Z.even ?z then _ else _] => destruct (Z.even z) end;
        cbv beta iota; split; intros H; lia.
    - specialize (F4 Npw).
      destruct md, neg; cbv beta iota zeta; cbn [preimage]; rewrite ?Ep, ?En;
        repeat match goal with |- context [if Z.even ?z then _ else _] => destruct (Z.even z) end;
        cbv beta iota; split; intros H; lia.
  Qed.
End Core.
