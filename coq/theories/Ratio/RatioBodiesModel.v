(** C04 (round 3): the operator tables over the REGENERATED bodies of coq/gen/RatioBodies.v
    (one generated definition per `impl_binop_with_macro!` / `impl_binop_with_int!` invocation of
    rational/src/{add,mul,div}.rs).  DEFINITIONS ONLY; proofs in RatioBodiesProof.v. *)
From Dashu Require Import Base.Prelude Int.BitsSpec Ratio.RatArithModel Ratio.RatioAtoms.
From DashuGen Require Import RatioBodies.
Open Scope Z_scope.

(** RBig (op) RBig and Relaxed (op) Relaxed *)
Definition gbin (o : binop) (x y : rat) : result rat :=
  let '(a, b) := x in let '(c, d) := y in
  match o with
  | OAdd => gen_Add_RBig a b c d | OSub => gen_Sub_RBig a b c d | OMul => gen_Mul_RBig a b c d
  | ODiv => gen_Div_RBig a b c d | ORem => gen_Rem_RBig a b c d | ORemE => gen_RemEuclid_RBig a b c d
  end.
Definition gxbin (o : binop) (x y : rat) : result rat :=
  let '(a, b) := x in let '(c, d) := y in
  match o with
  | OAdd => gen_Add_Relaxed a b c d | OSub => gen_Sub_Relaxed a b c d | OMul => gen_Mul_Relaxed a b c d
  | ODiv => gen_Div_Relaxed a b c d | ORem => gen_Rem_Relaxed a b c d | ORemE => gen_RemEuclid_Relaxed a b c d
  end.
Definition gdive (x y : rat) : result Z := gen_DivEuclid_RBig (fst x) (snd x) (fst y) (snd y).
Definition gxdive (x y : rat) : result Z := gen_DivEuclid_Relaxed (fst x) (snd x) (fst y) (snd y).
Definition gdivreme (x y : rat) : result (Z * rat) := gen_DivRemEuclid_RBig (fst x) (snd x) (fst y) (snd y).
Definition gxdivreme (x y : rat) : result (Z * rat) := gen_DivRemEuclid_Relaxed (fst x) (snd x) (fst y) (snd y).

(** integer-mixed forms.  [u]: the integer is a UBig.  [l]: the integer is the LEFT operand
    (only consulted for the commutative + and *, where both sides have their own impl). *)
Definition gint (l u : bool) (o : intop) (x : rat) (i : Z) : result rat :=
  let '(a, b) := x in
  match o, l, u with
  | IAdd, false, true => gen_Add_RBig_UBig a b i | IAdd, false, false => gen_Add_RBig_IBig a b i
  | IAdd, true, true => gen_Add_UBig_RBig a b i | IAdd, true, false => gen_Add_IBig_RBig a b i
  | ISub, _, true => gen_Sub_RBig_UBig a b i | ISub, _, false => gen_Sub_RBig_IBig a b i
  | IRsub, _, true => gen_Sub_UBig_RBig a b i | IRsub, _, false => gen_Sub_IBig_RBig a b i
  | IMul, false, true => gen_Mul_RBig_UBig a b i | IMul, false, false => gen_Mul_RBig_IBig a b i
  | IMul, true, true => gen_Mul_UBig_RBig a b i | IMul, true, false => gen_Mul_IBig_RBig a b i
  | IDiv, _, true => gen_Div_RBig_UBig a b i | IDiv, _, false => gen_Div_RBig_IBig a b i
  | IRdiv, _, true => gen_Div_UBig_RBig a b i | IRdiv, _, false => gen_Div_IBig_RBig a b i
  end.
Definition gxint (l u : bool) (o : intop) (x : rat) (i : Z) : result rat :=
  let '(a, b) := x in
  match o, l, u with
  | IAdd, false, true => gen_Add_Relaxed_UBig a b i | IAdd, false, false => gen_Add_Relaxed_IBig a b i
  | IAdd, true, true => gen_Add_UBig_Relaxed a b i | IAdd, true, false => gen_Add_IBig_Relaxed a b i
  | ISub, _, true => gen_Sub_Relaxed_UBig a b i | ISub, _, false => gen_Sub_Relaxed_IBig a b i
  | IRsub, _, true => gen_Sub_UBig_Relaxed a b i | IRsub, _, false => gen_Sub_IBig_Relaxed a b i
  | IMul, false, true => gen_Mul_Relaxed_UBig a b i | IMul, false, false => gen_Mul_Relaxed_IBig a b i
  | IMul, true, true => gen_Mul_UBig_Relaxed a b i | IMul, true, false => gen_Mul_IBig_Relaxed a b i
  | IDiv, _, true => gen_Div_Relaxed_UBig a b i | IDiv, _, false => gen_Div_Relaxed_IBig a b i
  | IRdiv, _, true => gen_Div_UBig_Relaxed a b i | IRdiv, _, false => gen_Div_IBig_Relaxed a b i
  end.

(** the unary operations: Repr::neg / abs (sign.rs), inv (div.rs), sqr / cubic (mul.rs), signum (sign.rs, one
    impl per flavour: [x] selects Relaxed), fract (round.rs); pow; `* Sign`; the rounding family of round.rs *)
Definition gun (x_ : bool) (o : unop) (x : rat) : result rat :=
  let '(a, b) := x in
  match o with
  | UNeg => Ok (gen_neg a b) | UAbs => Ok (gen_abs a b) | UInv => gen_inv a b
  | USqr => Ok (gen_sqr a b) | UCubic => Ok (gen_cubic a b)
  | USignum => Ok (if x_ then gen_Relaxed_signum a b else gen_RBig_signum a b)
  | UFract => Ok (gen_fract a b)
  end.
Definition gpow (x : rat) (e : Z) : rat := gen_pow (fst x) (snd x) e.
Definition gmulsign (x_ : bool) (s : sign) (x : rat) : rat :=
  if x_ then gen_Relaxed_mul_sign (fst x) (snd x) s else gen_RBig_mul_sign (fst x) (snd x) s.
Definition gsplit (x : rat) : Z * rat := gen_split_at_point (fst x) (snd x).
Definition gtrunc (x : rat) : Z := gen_trunc (fst x) (snd x).
Definition gfloor (x : rat) : Z := gen_floor (fst x) (snd x).
Definition gceil (x : rat) : Z := gen_ceil (fst x) (snd x).
Definition ground (x : rat) : Z := gen_round (fst x) (snd x).

(** one history step evaluated through the regenerated bodies *)
Definition heval_gen (p : list rat) (o : hop) : result rat :=
  match o with
  | HBin b i j _ => gbin b (pget p i) (pget p j)
  | HUn u i _ => gun false u (pget p i)
  | HPow i e _ => Ok (gpow (pget p i) (Z.of_N e))
  | HInt b i k _ => gint false false b (pget p i) k
  | HIntU b i k _ => gint false true b (pget p i) (Z.of_N k)
  end.
Definition heval_xgen (p : list rat) (o : hop) : result rat :=
  match o with
  | HBin b i j _ => gxbin b (pget p i) (pget p j)
  | HUn u i _ => gun true u (pget p i)
  | HPow i e _ => Ok (gpow (pget p i) (Z.of_N e))
  | HInt b i k _ => gxint false false b (pget p i) k
  | HIntU b i k _ => gxint false true b (pget p i) (Z.of_N k)
  end.

(** From<UBig / IBig / u8..u128 / i8..i128> for RBig and Relaxed (convert.rs: Repr { numerator: v.into(), denominator: UBig::ONE }) *)
Definition from_int_asis (v : Z) : rat := (v, 1).

(** TryFrom<f32/f64> for RBig / Relaxed (rational/src/convert.rs impl_conversion_from_float), from the decoded
    (mantissa, exponent) on: [Repr { man << exp, 1 }] or [Repr { man, 2^-exp }], then [reduce2].
    (hand transcription; the zero shortcut returns Repr::zero() before decode) *)
Definition from_float_repr (man e : Z) : rat :=
  if 0 <=? e then (Z.shiftl man e, 1) else (man, Z.setbit 0 (- e)).
Definition from_float_asis (man e : Z) : result rat :=
  if man =? 0 then Ok (0, 1) else gen_reduce2 (from_float_repr man e).
(** the exact dyadic man * 2^e, in lowest terms *)
Definition from_float_spec (man e : Z) : rat :=
  if 0 <=? e then canon (man * 2 ^ e) 1 else canon man (2 ^ (- e)).
