(** C04 (round 4): proofs over the bodies regenerated into coq/gen/RatioBodies4.v. *)
From Coq Require Import Znumtheory List Lia Bool.
Import ListNotations.
From Dashu Require Import Base.Prelude Int.BitsSpec Ratio.RatArithModel Ratio.RatArithCanon Ratio.RatArithProofs
  Ratio.RatArithConst Ratio.RatArithRelaxed Ratio.RatArithQ Ratio.RatArithHistory Ratio.RatArithRelaxedInv
  Ratio.RatioAtoms Ratio.RatioAtoms4 Ratio.RatioBodiesModel Ratio.RatioBodiesProof Ratio.RatioBodies4Model.
From DashuGen Require Import RatioBodies RatioBodies4.
Open Scope Z_scope.

(* ---------------------------------------------------------------- clone / clone_from / Default *)
(** clone_from does not depend on what the destination held before *)
Theorem gen_clone_ok x s :
  gen_Repr_clone x = x /\ gen_RBig_clone x = x /\ gen_Relaxed_clone x = x /\
  gen_Repr_clone_from x s = s /\ gen_RBig_clone_from x s = s /\ gen_Relaxed_clone_from x s = s /\
  gen_RBig_default = (0, 1) /\ gen_Relaxed_default = (0, 1).
Proof. destruct x as [a b], s as [c d]. repeat split. Qed.

(* ---------------------------------------------------------------- += -= *= /= %= *)
Theorem gassign_is_op a x y : gassign a x y = gbin (aop_bin a) x y /\ gxassign a x y = gxbin (aop_bin a) x y.
Proof. destruct x as [n d], y as [c e], a; split; reflexivity. Qed.

Theorem gassign_spec a x y : Inv x -> Inv y ->
  gassign a x y = bin_spec (aop_bin a) x y /\ (forall r, gassign a x y = Ok r -> Inv r) /\
  res_veq (gxassign a x y) (bin_spec (aop_bin a) x y).
Proof.
  intros Hx Hy. destruct (gassign_is_op a x y) as [E1 E2]. rewrite E1, E2.
  destruct (gbin_spec (aop_bin a) x y Hx Hy) as [S1 S2]. split; [exact S1|]. split; [exact S2|].
  apply gxbin_spec; apply Inv_RInv; assumption.
Qed.

(* ---------------------------------------------------------------- the one-line wrappers *)
Theorem gun4_is_gun x_ r o x : gun4 x_ r o x = gun x_ o x.
Proof. destruct x as [a b], x_, r, o; reflexivity. Qed.

Theorem gen_wrappers_ok x n :
  gen_RBig_split_at_point x = gsplit x /\ gen_Relaxed_split_at_point x = gsplit x /\
  gen_RBig_ceil x = gceil x /\ gen_Relaxed_ceil x = gceil x /\ gen_RBig_floor x = gfloor x /\ gen_Relaxed_floor x = gfloor x /\
  gen_RBig_round x = ground x /\ gen_Relaxed_round x = ground x /\ gen_RBig_trunc x = gtrunc x /\ gen_Relaxed_trunc x = gtrunc x /\
  gen_RBig_pow x n = gpow x n /\ gen_Relaxed_pow x n = gpow x n /\
  gen_RBig_sign (fst x) (snd x) = sign_of (fst x) /\ gen_Relaxed_sign (fst x) (snd x) = sign_of (fst x) /\
  gen_Relaxed_canonicalize x = gen_reduce x /\ gen_RBig_relax x = x.
Proof.
  destruct x as [a b].
  assert (S1 : gen_RBig_split_at_point (a, b) = gsplit (a, b)).
  { unfold gen_RBig_split_at_point, gsplit. destruct (gen_split_at_point _ _); reflexivity. }
  assert (S2 : gen_Relaxed_split_at_point (a, b) = gsplit (a, b)).
  { unfold gen_Relaxed_split_at_point, gsplit. destruct (gen_split_at_point _ _); reflexivity. }
  repeat split; assumption.
Qed.

Theorem canonicalize_ok x : 0 < snd x -> gen_Relaxed_canonicalize x = canon (fst x) (snd x) /\ Inv (gen_Relaxed_canonicalize x).
Proof.
  intros H. destruct x as [a b]. cbn [fst snd] in *. unfold gen_Relaxed_canonicalize.
  rewrite gen_reduce_asis, reduce_asis_canon by exact H. split; [reflexivity | apply canon_Inv; exact H].
Qed.

(* ---------------------------------------------------------------- from_parts_const: the loop *)
Lemma while_cgcd (c : Z * Z -> bool) (f : Z * Z -> Z * Z) :
  (forall y r, c (y, r) = (1 <? r)) -> (forall y r, 1 < r -> 0 <= y -> f (y, r) = (r, y mod r)) ->
  forall fuel y r, 0 <= y -> 0 <= r ->
  while_fuel fuel c f (y, r) = match cgcd_loop fuel y r with Some p => Ok p | None => OutOfFuel end.
Proof.
  intros Hc Hf. induction fuel as [|k IH]; intros y r Hy Hr; cbn [while_fuel cgcd_loop]; [reflexivity|].
  rewrite Hc. destruct (Z.ltb_spec 1 r) as [H1|H1]; [|reflexivity].
  rewrite Hf by assumption. apply IH; [lia|]. apply Z.mod_pos_bound. lia.
Qed.

Theorem gen_RBig_from_parts_const_asis s n d : 0 <= n -> 0 <= d ->
  gen_RBig_from_parts_const (fpc_fuel d) s n d = from_parts_const_asis s n d.
Proof.
  intros Hn Hd. unfold gen_RBig_from_parts_const, from_parts_const_asis, fpc_fuel.
  destruct (Z.eqb_spec d 0) as [|Hd0]; [reflexivity|].
  destruct (Z.eqb_spec n 0) as [|Hn0]; [reflexivity|].
  destruct ((1 <? n) && (1 <? d)) eqn:E; [|reflexivity].
  apply andb_true_iff in E. destruct E as [E1 E2]. apply Z.ltb_lt in E1, E2.
  rewrite (Z.rem_mod_nonneg n d) by lia.
  pose proof (Z.mod_pos_bound n d ltac:(lia)) as Bm.
  rewrite while_cgcd; [| intros; reflexivity | intros y r H1 H0; rewrite Z.rem_mod_nonneg by lia; reflexivity | lia | lia].
  destruct (cgcd_loop (cgcd_fuel d) d (n mod d)) as [[y r]|] eqn:EL; cbn [rbind]; [|reflexivity].
  destruct (cgcd_loop_inv _ _ _ _ _ Bm EL) as (_ & B1 & B2).
  destruct (Z.eqb_spec r 0) as [->|Hr]; [|reflexivity].
  rewrite !Z.quot_div_nonneg by lia. reflexivity.
Qed.

Theorem gen_from_parts_const_ok s n d : 0 <= n -> 0 <= d ->
  gen_RBig_from_parts_const (fpc_fuel d) s n d = from_parts_const_spec s n d /\
  (forall fuel, gen_Relaxed_from_parts_const fuel s n d = xfrom_parts_const_asis s n d) /\
  (forall fuel, res_veq (gen_Relaxed_from_parts_const fuel s n d) (from_parts_const_spec s n d)).
Proof.
  intros Hn Hd.
  assert (X : forall fuel, gen_Relaxed_from_parts_const fuel s n d = xfrom_parts_const_asis s n d).
  { intros fuel. unfold gen_Relaxed_from_parts_const, xfrom_parts_const_asis.
    destruct (Z.eqb_spec d 0) as [|Hd0]; [reflexivity|].
    destruct (Z.eqb_spec n 0) as [|Hn0]; [reflexivity|].
    unfold dw_trailing_zeros.
    destruct (trailing_zeros_spec n) eqn:En; [|apply trailing_zeros_spec_none in En; contradiction].
    destruct (trailing_zeros_spec d) eqn:Ed; [|apply trailing_zeros_spec_none in Ed; contradiction].
    reflexivity. }
  split; [rewrite gen_RBig_from_parts_const_asis by assumption; apply from_parts_const_asis_spec; assumption|].
  split; [exact X|]. intros fuel. rewrite X. apply xfrom_parts_const_asis_spec; assumption.
Qed.

(** the fuel bound is not vacuous: with too little fuel the generated body does report OutOfFuel *)
Example gen_from_parts_const_ex :
  gen_RBig_from_parts_const (fpc_fuel 21) Negative 34 21 = Ok (-34, 21) /\
  gen_RBig_from_parts_const (fpc_fuel 4) Positive 6 4 = Ok (3, 2) /\
  gen_RBig_from_parts_const 2 Positive 34 21 = OutOfFuel /\
  gen_Relaxed_from_parts_const 0 Negative 12 8 = Ok (-3, 2).
Proof. repeat split. Qed.

(* ---------------------------------------------------------------- parsers *)
Lemma reduce_int n : reduce_asis (n, 1) = (n, 1).
Proof.
  unfold reduce_asis. destruct (Z.eqb_spec n 0) as [->|H]; [reflexivity|].
  rewrite Z.gcd_1_r, !Z.quot_1_r. reflexivity.
Qed.

Lemma repr_parts_rbig n d :
  rbind (let '(sign, den) := (sign_of d, Z.abs d) in if den =? 0 then Err 0 else Ok (n * sgnz sign, den))
        (fun repr => Ok (gen_reduce repr)) = parse_spec n d.
Proof.
  rewrite <- parse_asis_spec. unfold parse_asis. cbv beta iota.
  destruct (Z.eqb_spec d 0) as [->|Hd]; [reflexivity|].
  destruct (Z.eqb_spec (Z.abs d) 0); [lia|]. cbn [rbind]. rewrite gen_reduce_asis. reflexivity.
Qed.
Lemma repr_parts_relaxed n d :
  rbind (let '(sign, den) := (sign_of d, Z.abs d) in if den =? 0 then Err 0 else Ok (n * sgnz sign, den))
        (fun repr => gen_reduce2 repr) = xparse_asis n d.
Proof.
  unfold xparse_asis. cbv beta iota.
  destruct (Z.eqb_spec d 0) as [->|Hd]; [reflexivity|].
  destruct (Z.eqb_spec (Z.abs d) 0); [lia|]. cbn [rbind]. rewrite gen_reduce2_asis. reflexivity.
Qed.

Lemma rbind_assoc {A B C} (x : result A) (f : A -> result B) (g : B -> result C) :
  rbind (rbind x f) g = rbind x (fun a => rbind (f a) g).
Proof. destruct x; reflexivity. Qed.
Lemma rbind_ext {A B} (x : result A) (f g : A -> result B) : (forall a, f a = g a) -> rbind x f = rbind x g.
Proof. intros H. destruct x; cbn [rbind]; auto. Qed.

Theorem gen_RBig_parsers_ok ip ipp ipd hs radix :
  gen_RBig_from_str_radix ip hs radix = parse_radix_spec ip hs radix /\
  gen_RBig_from_str ip hs = parse_radix_spec ip hs 10 /\
  gen_RBig_from_str_with_radix_prefix ipp ipd hs = parse_prefix_spec ipp ipd hs.
Proof.
  assert (R : forall r, gen_RBig_from_str_radix ip hs r = parse_radix_spec ip hs r).
  { intros r. unfold gen_RBig_from_str_radix, gen_Repr_from_str_radix, parse_radix_spec. destruct hs.
    - rewrite rbind_assoc. apply rbind_ext; intros n. rewrite rbind_assoc. apply rbind_ext; intros d.
      apply repr_parts_rbig.
    - rewrite rbind_assoc. apply rbind_ext; intros n. cbn [rbind]. rewrite gen_reduce_asis, reduce_int. reflexivity. }
  split; [apply R|]. split; [apply R|].
  unfold gen_RBig_from_str_with_radix_prefix, gen_Repr_from_str_with_radix_prefix, parse_prefix_spec. destruct hs.
  - rewrite rbind_assoc. apply rbind_ext; intros [n r1]. rewrite rbind_assoc. apply rbind_ext; intros [d r2].
    cbn [fst snd]. cbv beta iota. destruct (Z.eqb_spec r1 r2) as [->|Hr]; cbn [negb]; [|reflexivity].
    rewrite <- parse_asis_spec. unfold parse_asis.
    destruct (Z.eqb_spec d 0) as [->|Hd]; [reflexivity|].
    destruct (Z.eqb_spec (Z.abs d) 0); [lia|]. cbn [rbind]. rewrite gen_reduce_asis. reflexivity.
  - rewrite rbind_assoc. apply rbind_ext; intros [n r1]. cbn [rbind fst snd]. rewrite gen_reduce_asis, reduce_int. reflexivity.
Qed.

Theorem gen_Relaxed_parsers_asis ip ipp ipd hs radix :
  gen_Relaxed_from_str_radix ip hs radix = xparse_radix_asis ip hs radix /\
  gen_Relaxed_from_str ip hs = xparse_radix_asis ip hs 10 /\
  gen_Relaxed_from_str_with_radix_prefix ipp ipd hs = xparse_prefix_asis ipp ipd hs.
Proof.
  assert (R : forall r, gen_Relaxed_from_str_radix ip hs r = xparse_radix_asis ip hs r).
  { intros r. unfold gen_Relaxed_from_str_radix, gen_Repr_from_str_radix, xparse_radix_asis. destruct hs.
    - rewrite rbind_assoc. apply rbind_ext; intros n. rewrite rbind_assoc. apply rbind_ext; intros d.
      apply repr_parts_relaxed.
    - rewrite rbind_assoc. apply rbind_ext; intros n. cbn [rbind]. apply gen_reduce2_asis. }
  split; [apply R|]. split; [apply R|].
  unfold gen_Relaxed_from_str_with_radix_prefix, gen_Repr_from_str_with_radix_prefix, xparse_prefix_asis. destruct hs.
  - rewrite rbind_assoc. apply rbind_ext; intros [n r1]. rewrite rbind_assoc. apply rbind_ext; intros [d r2].
    cbn [fst snd]. cbv beta iota. destruct (Z.eqb_spec r1 r2) as [->|Hr]; cbn [negb]; [|reflexivity].
    unfold xparse_asis.
    destruct (Z.eqb_spec d 0) as [->|Hd]; [reflexivity|].
    destruct (Z.eqb_spec (Z.abs d) 0); [lia|]. cbn [rbind]. rewrite gen_reduce2_asis. reflexivity.
  - rewrite rbind_assoc. apply rbind_ext; intros [n r1]. cbn [rbind fst snd]. rewrite gen_reduce2_asis. reflexivity.
Qed.

(** Relaxed parsers against the specification: same errors, positive denominator, same value *)
Lemma xparse_rel n d : res_veq_e (xparse_asis n d) (parse_spec n d).
Proof.
  destruct (xparse_asis_spec n d) as [H|(-> & E1 & E2)]; [|rewrite E1, E2; reflexivity].
  destruct (xparse_asis n d), (parse_spec n d); cbn [res_veq res_veq_e] in *; try contradiction; exact H.
Qed.
Lemma reduce2_int_rel n : res_veq_e (reduce2_asis (n, 1)) (Ok (n, 1)).
Proof.
  destruct (reduce2_asis_ok n 1 ltac:(lia)) as (r & E & R & V). rewrite E. cbn [res_veq_e]. split; assumption.
Qed.

Theorem gen_Relaxed_parsers_ok ip ipp ipd hs radix :
  res_veq_e (gen_Relaxed_from_str_radix ip hs radix) (parse_radix_spec ip hs radix) /\
  res_veq_e (gen_Relaxed_from_str ip hs) (parse_radix_spec ip hs 10) /\
  res_veq_er (gen_Relaxed_from_str_with_radix_prefix ipp ipd hs) (parse_prefix_spec ipp ipd hs).
Proof.
  destruct (gen_Relaxed_parsers_asis ip ipp ipd hs radix) as (E1 & E2 & E3). rewrite E1, E2, E3.
  assert (R : forall r, res_veq_e (xparse_radix_asis ip hs r) (parse_radix_spec ip hs r)).
  { intros r. unfold xparse_radix_asis, parse_radix_spec. destruct hs.
    - destruct (ip PBefore r) as [n| | |]; cbn [rbind res_veq_e]; auto.
      destruct (ip PAfter r) as [d| | |]; cbn [rbind res_veq_e]; auto. apply xparse_rel.
    - destruct (ip PAll r) as [n| | |]; cbn [rbind res_veq_e]; auto. apply reduce2_int_rel. }
  split; [apply R|]. split; [apply R|].
  unfold xparse_prefix_asis, parse_prefix_spec. destruct hs.
  - destruct (ipp PBefore) as [[n r1]| | |]; cbn [rbind res_veq_er fst snd]; auto.
    destruct (ipd PAfter r1) as [[d r2]| | |]; cbn [rbind res_veq_er fst snd]; auto.
    destruct (r1 =? r2); cbn [res_veq_er]; auto.
    pose proof (xparse_rel n d) as H.
    destruct (xparse_asis n d), (parse_spec n d); cbn [res_veq_e rbind res_veq_er fst snd] in *; try contradiction; auto.
    destruct H; auto.
  - destruct (ipp PAll) as [[n r1]| | |]; cbn [rbind res_veq_er fst snd]; auto.
    pose proof (reduce2_int_rel n) as H.
    destruct (reduce2_asis (n, 1)); cbn [res_veq_e rbind res_veq_er fst snd] in *; try contradiction; auto.
    destruct H; auto.
Qed.

(** a text whose pieces the integer parser reads as n and d *)
Example gen_parsers_ex :
  let ip := fun p (_ : Z) => match p with PBefore => Ok 6 | PAfter => Ok (-4) | PAll => Err 0 end in
  gen_RBig_from_str ip true = Ok (-3, 2) /\ gen_Relaxed_from_str ip true = Ok (-3, 2) /\
  gen_RBig_from_str (fun _ _ => Ok 0) true = Err 0 /\ gen_RBig_from_str (fun _ _ => Err 1) true = Err 1 /\
  gen_RBig_from_str (fun _ _ => Ok 7) false = Ok (7, 1) /\
  gen_RBig_from_str_with_radix_prefix (fun _ => Ok (6, 16)) (fun _ r => Ok (4, 10)) true = Err 3.
Proof. repeat split. Qed.

(* ---------------------------------------------------------------- conversions *)
Theorem gen_from_int_ok v :
  gen_RBig_from_UBig v = (v, 1) /\ gen_RBig_from_IBig v = (v, 1) /\ gen_RBig_from_prim v = (v, 1) /\
  gen_Relaxed_from_UBig v = (v, 1) /\ gen_Relaxed_from_IBig v = (v, 1) /\ gen_Relaxed_from_prim v = (v, 1) /\
  (v, 1) = canon v 1 /\ Inv (v, 1) /\ length gen_prim_int_types = 12%nat.
Proof.
  destruct (from_int_asis_spec v) as [E I]. unfold from_int_asis in *. repeat split; try exact E; apply I.
Qed.

(** RBig -> integer: succeeds exactly on n/1 (with n >= 0 for UBig); an integer-valued RBig is never refused.
    Relaxed -> integer (after the repair /repo 4757027: the number is reduced first): succeeds exactly when the VALUE is
    an integer, whatever pair is stored *)
Lemma try_from_Repr_ok a b v :
  (gen_IBig_try_from_Repr a b = Ok v <-> (a, b) = (v, 1)) /\
  (gen_UBig_try_from_Repr a b = Ok v <-> (a, b) = (v, 1) /\ 0 <= v).
Proof.
  split.
  - unfold gen_IBig_try_from_Repr. destruct (Z.eqb_spec b 1) as [->|H]; split; intros E; try congruence; try discriminate.
  - unfold gen_UBig_try_from_Repr, sign_of. cbv beta iota.
    destruct (Z.ltb_spec a 0) as [Ha|Ha]; cbn [sign_eqb].
    + split; [discriminate | intros [E Hv]; injection E as <- _; lia].
    + destruct (Z.eqb_spec b 1) as [->|H].
      * split; [intros E; injection E as <-; rewrite Z.abs_eq by lia; split; [reflexivity | lia]
               | intros [E Hv]; injection E as <-; rewrite Z.abs_eq by lia; reflexivity].
      * split; [discriminate | intros [E _]; congruence].
Qed.

Theorem gen_try_into_int_ok x v :
  (gen_IBig_try_from_RBig x = Ok v <-> x = (v, 1)) /\
  (gen_UBig_try_from_RBig x = Ok v <-> x = (v, 1) /\ 0 <= v).
Proof. destruct x as [a b]. apply try_from_Repr_ok. Qed.

Lemma canon_is_int x v : 0 < snd x -> (canon (fst x) (snd x) = (v, 1) <-> veq x (v, 1)).
Proof.
  intros H. pose proof (canon_veq (fst x) (snd x) H) as V. pose proof (canon_Inv (fst x) (snd x) H) as I.
  destruct x as [a b]. cbn [fst snd] in *. split.
  - intros E. rewrite E in V. apply veq_sym. exact V.
  - intros E. apply Inv_unique; [exact I | split; cbn [fst snd]; [lia | apply Z.gcd_1_r] |].
    apply veq_trans with (y := (a, b)); [cbn [snd]; lia | exact V | exact E].
Qed.

Theorem gen_try_into_int_relaxed x v : 0 < snd x ->
  (gen_IBig_try_from_Relaxed x = Ok v <-> veq x (v, 1)) /\
  (gen_UBig_try_from_Relaxed x = Ok v <-> veq x (v, 1) /\ 0 <= v).
Proof.
  intros H. unfold gen_IBig_try_from_Relaxed, gen_UBig_try_from_Relaxed.
  destruct (canonicalize_ok x H) as [E _]. rewrite E.
  destruct (try_from_Repr_ok (fst (canon (fst x) (snd x))) (snd (canon (fst x) (snd x))) v) as [I U].
  rewrite <- surjective_pairing in I, U. rewrite (canon_is_int x v H) in I, U. split; assumption.
Qed.
Theorem rbig_integer_converts x v : Inv x -> veq x (v, 1) -> gen_IBig_try_from_RBig x = Ok v.
Proof.
  intros Hx V. apply gen_try_into_int_ok. apply Inv_unique; [exact Hx | | exact V].
  split; cbn [fst snd]; [lia | apply Z.gcd_1_r].
Qed.

Theorem gen_try_from_float_ok m e :
  gen_RBig_try_from_float (m =? 0) (Some (m, e)) = from_float_asis m e /\
  gen_Relaxed_try_from_float (m =? 0) (Some (m, e)) = from_float_asis m e /\
  gen_RBig_try_from_float false None = Err 1 /\ gen_Relaxed_try_from_float false None = Err 1.
Proof.
  assert (R : rbind (gen_Repr_try_from_float (m =? 0) (Some (m, e))) (fun repr => gen_reduce2 repr) = from_float_asis m e).
  { unfold gen_Repr_try_from_float, from_float_asis, from_float_repr.
    destruct (m =? 0); [reflexivity|]. destruct (0 <=? e); reflexivity. }
  repeat split; exact R.
Qed.

(* ---------------------------------------------------------------- num-traits: forwarding *)
Lemma sign_pos_iff a : negb (a =? 0) && sign_eqb (sign_of a) Positive = (0 <? a).
Proof.
  unfold sign_of. destruct (Z.eqb_spec a 0) as [->|H]; [reflexivity|].
  destruct (Z.ltb_spec a 0), (Z.ltb_spec 0 a); cbn; try reflexivity; lia.
Qed.
Lemma sign_neg_iff a : sign_eqb (sign_of a) Negative = (a <? 0).
Proof. unfold sign_of. destruct (Z.ltb_spec a 0); reflexivity. Qed.

Theorem gen_numtraits_rbig ip hs x y radix k :
  gen_nt_RBig_zero = (0, 1) /\ gen_nt_RBig_one = (1, 1) /\
  gen_nt_RBig_is_zero x = gen_RBig_is_zero (fst x) (snd x) /\ gen_nt_RBig_is_one x = gen_RBig_is_one (fst x) (snd x) /\
  gen_nt_RBig_from_str_radix ip hs radix = gen_RBig_from_str_radix ip hs radix /\
  Ok (gen_nt_RBig_abs x) = gun false UAbs x /\ Ok (gen_nt_RBig_signum x) = gun false USignum x /\
  gen_nt_RBig_abs_sub x y = rbind (gbin OSub x y) (gun false UAbs) /\
  gen_nt_RBig_is_positive x = (0 <? fst x) /\ gen_nt_RBig_is_negative x = (fst x <? 0) /\
  gen_nt_RBig_rem_euclid x y = gbin ORemE x y /\
  gen_nt_RBig_div_euclid x y = rbind (gdive x y) (fun q => Ok (q, 1)) /\
  gen_nt_RBig_pow x k = gpow x k /\ gen_nt_RBig_pow_ref x k = gpow x k.
Proof.
  destruct x as [a b], y as [c d]. cbn [fst snd].
  repeat split; try reflexivity.
  - unfold gen_nt_RBig_abs_sub. cbn [fst snd gbin]. apply rbind_ext. intros [p q]. reflexivity.
  - unfold gen_nt_RBig_is_positive, gen_RBig_is_zero, gen_RBig_sign. cbn [fst snd]. apply sign_pos_iff.
  - unfold gen_nt_RBig_is_negative, gen_RBig_sign. cbn [fst snd]. apply sign_neg_iff.
Qed.

Theorem gen_numtraits_relaxed ip hs x y radix k :
  gen_nt_Relaxed_zero = (0, 1) /\ gen_nt_Relaxed_one = (1, 1) /\
  gen_nt_Relaxed_is_zero x = gen_Relaxed_is_zero (fst x) (snd x) /\ gen_nt_Relaxed_is_one x = gen_Relaxed_is_one (fst x) (snd x) /\
  gen_nt_Relaxed_from_str_radix ip hs radix = gen_Relaxed_from_str_radix ip hs radix /\
  Ok (gen_nt_Relaxed_abs x) = gun true UAbs x /\ Ok (gen_nt_Relaxed_signum x) = gun true USignum x /\
  gen_nt_Relaxed_abs_sub x y = rbind (gxbin OSub x y) (gun true UAbs) /\
  gen_nt_Relaxed_is_positive x = (0 <? fst x) /\ gen_nt_Relaxed_is_negative x = (fst x <? 0) /\
  gen_nt_Relaxed_rem_euclid x y = gxbin ORemE x y /\
  gen_nt_Relaxed_div_euclid x y = rbind (gxdive x y) (fun q => Ok (q, 1)) /\
  gen_nt_Relaxed_pow x k = gpow x k /\ gen_nt_Relaxed_pow_ref x k = gpow x k.
Proof.
  destruct x as [a b], y as [c d]. cbn [fst snd].
  repeat split; try reflexivity.
  - unfold gen_nt_Relaxed_abs_sub. cbn [fst snd gxbin]. apply rbind_ext. intros [p q]. reflexivity.
  - unfold gen_nt_Relaxed_is_positive, gen_Relaxed_is_zero, gen_Relaxed_sign. cbn [fst snd]. apply sign_pos_iff.
  - unfold gen_nt_Relaxed_is_negative, gen_Relaxed_sign. cbn [fst snd]. apply sign_neg_iff.
Qed.

(* ---------------------------------------------------------------- serde: Deserialize *)
Theorem gen_serde_ok n d : 0 <= d ->
  gen_serde_RBig_deserialize n d = deserialize_spec n d /\
  (forall r, gen_serde_RBig_deserialize n d = Ok r -> Inv r) /\
  res_veq_e (gen_serde_Relaxed_deserialize n d) (deserialize_spec n d).
Proof.
  intros Hd. unfold gen_serde_RBig_deserialize, gen_serde_Relaxed_deserialize, gen_serde_deserialize_repr, deserialize_spec.
  destruct (Z.eqb_spec d 0) as [->|H0]; cbn [rbind res_veq_e].
  - split; [reflexivity|]. split; [discriminate | reflexivity].
  - rewrite gen_reduce_asis, reduce_asis_canon, gen_reduce2_asis by lia. split; [reflexivity|].
    split; [intros r E; injection E as <-; apply canon_Inv; lia|].
    destruct (reduce2_asis_ok n d ltac:(lia)) as (r & E & R & V). rewrite E. cbn [res_veq_e]. split; [exact R|].
    apply veq_trans with (y := (n, d)); [cbn [snd]; lia | exact V | apply veq_sym, canon_veq; lia].
Qed.

(* ---------------------------------------------------------------- extended histories: in-place forms, clone / clone_from,
   integer on the left, From<integer> *)
Lemma Inv_int k : Inv (k, 1).
Proof. split; cbn [fst snd]; [lia | apply Z.gcd_1_r]. Qed.
Lemma RInvE_int k : RInvE (k, 1).
Proof. split; cbn [fst snd]; [lia | unfold nc2; apply andb_false_r]. Qed.

Lemma heval4_gen_spec p o : Forall Inv p -> heval4_gen p o = heval4_spec p o.
Proof.
  intros Hp. pose proof (fun i => pget_Forall Inv p i Inv_default Hp) as G.
  destruct o as [h|a i j|i d|i d|b i k d|b i k d|k d]; cbn [heval4_gen heval4_spec].
  - rewrite heval_gen_asis. apply heval_asis_spec. exact Hp.
  - apply gassign_spec; apply G.
  - destruct (gen_clone_ok (pget p i) (pget p i)) as (_ & E & _). rewrite E. reflexivity.
  - destruct (gen_clone_ok (pget p d) (pget p i)) as (_ & _ & _ & _ & E & _). rewrite E. reflexivity.
  - apply gint_spec; [apply G | discriminate].
  - apply gint_spec; [apply G | intros _; apply N2Z.is_nonneg].
  - reflexivity.
Qed.

Lemma heval4_spec_Inv p o r : Forall Inv p -> heval4_spec p o = Ok r -> Inv r.
Proof.
  intros Hp. pose proof (fun i => pget_Forall Inv p i Inv_default Hp) as G.
  pose proof (fun i => Inv_RInv _ (G i)) as GR.
  destruct o as [h|a i j|i d|i d|b i k d|b i k d|k d]; cbn [heval4_spec].
  - apply heval_spec_Inv. exact Hp.
  - apply bin_spec_Inv; apply GR.
  - intros E; injection E as <-. apply G.
  - intros E; injection E as <-. apply G.
  - apply int_spec_Inv; apply GR.
  - apply int_spec_Inv; apply GR.
  - intros E; injection E as <-. apply Inv_int.
Qed.

(** a step fails only by the documented division-by-zero panic *)
Lemma heval4_spec_total p o : (exists r, heval4_spec p o = Ok r) \/ heval4_spec p o = Panic DivideBy0.
Proof.
  destruct o as [h|a i j|i d|i d|b i k d|b i k d|k d]; cbn [heval4_spec]; try (left; eexists; reflexivity).
  - apply heval_spec_total.
  - destruct (bin_spec_panic (aop_bin a) (pget p i) (pget p j)) as [(r & H & _)|(H & _)]; [left; eauto | right; exact H].
  - apply (heval_spec_total p (HInt (left_op b) i k d)).
  - apply (heval_spec_total p (HIntU (left_op b) i k d)).
Qed.

Lemma hstep4_Inv p o : Forall Inv p -> Forall Inv (hstep4 heval4_spec (0, 1) p o).
Proof.
  intros Hp. unfold hstep4. destruct (heval4_spec p o) as [r|q| |] eqn:E; try exact Hp.
  - apply pset_Forall; [exact Hp | eapply heval4_spec_Inv; eassumption].
  - destruct (inplace4 o); [apply pset_Forall; [exact Hp | apply Inv_default] | exact Hp].
Qed.

Theorem hrun4_gen_spec ops : forall p, Forall Inv p ->
  hrun4 heval4_gen gen_RBig_default ops p = hrun4 heval4_spec (0, 1) ops p /\
  Forall Inv (hrun4 heval4_gen gen_RBig_default ops p).
Proof.
  unfold hrun4. induction ops as [|o ops IH]; intros p Hp; cbn [fold_left].
  - split; [reflexivity | exact Hp].
  - assert (E : hstep4 heval4_gen gen_RBig_default p o = hstep4 heval4_spec (0, 1) p o).
    { unfold hstep4. rewrite heval4_gen_spec by exact Hp. reflexivity. }
    rewrite E. apply IH. apply hstep4_Inv. exact Hp.
Qed.

(** lock step of the Relaxed pool, and its representation invariant *)
Lemma heval4_x_rel px p o : PoolRel px p -> Forall Inv p -> res_veq (heval4_xgen px o) (heval4_gen p o).
Proof.
  intros HR Hp. pose proof (fun i => pget_Forall Inv p i Inv_default Hp) as G.
  pose proof (fun i => pget_rel px p i HR) as R.
  destruct o as [h|a i j|i d|i d|b i k d|b i k d|k d]; cbn [heval4_xgen heval4_gen].
  - rewrite heval_gen_asis, heval_xgen_asis. apply heval_x_rel; assumption.
  - destruct (gassign_is_op a (pget p i) (pget p j)) as [E1 _]. destruct (gassign_is_op a (pget px i) (pget px j)) as [_ E2].
    rewrite E1, E2, gbin_asis, gxbin_asis. apply relaxed_bin_eq_rbig; try apply G; apply R.
  - destruct (gen_clone_ok (pget p i) (pget p i)) as (_ & E1 & _). destruct (gen_clone_ok (pget px i) (pget px i)) as (_ & _ & E2 & _).
    rewrite E1, E2. cbn [res_veq]. apply R.
  - destruct (gen_clone_ok (pget p d) (pget p i)) as (_ & _ & _ & _ & E1 & _).
    destruct (gen_clone_ok (pget px d) (pget px i)) as (_ & _ & _ & _ & _ & E2 & _).
    rewrite E1, E2. cbn [res_veq]. apply R.
  - rewrite gint_asis, gxint_asis. apply relaxed_int_eq_rbig; try apply G; try apply R. discriminate.
  - rewrite gint_asis, gxint_asis. apply relaxed_int_eq_rbig; try apply G; try apply R. intros _. apply N2Z.is_nonneg.
  - destruct (gen_from_int_ok k) as (_ & E1 & _ & _ & E2 & _). rewrite E1, E2.
    cbn [res_veq]. split; [unfold RInv; cbn [snd]; lia | apply veq_refl].
Qed.

Lemma heval4_xgen_RInvE p o r : Forall RInvE p -> heval4_xgen p o = Ok r -> RInvE r.
Proof.
  intros Hp. assert (G : forall i, RInvE (pget p i)) by (intros i; apply pget_Forall; [exact RInvE_default | exact Hp]).
  destruct o as [h|a i j|i d|i d|b i k d|b i k d|k d]; cbn [heval4_xgen].
  - rewrite heval_xgen_asis. apply heval_xasis_RInvE. exact Hp.
  - destruct (gassign_is_op a (pget p i) (pget p j)) as [_ E]. rewrite E, gxbin_asis. intros H.
    apply RInv2_RInvE. eapply xbin_asis_RInv2; [| |exact H]; apply RInvE_RInv, G.
  - destruct (gen_clone_ok (pget p i) (pget p i)) as (_ & _ & E & _). rewrite E. intros H; injection H as <-. apply G.
  - destruct (gen_clone_ok (pget p d) (pget p i)) as (_ & _ & _ & _ & _ & E & _). rewrite E. intros H; injection H as <-. apply G.
  - rewrite gxint_asis. apply xint_asis_RInvE; [apply G | discriminate].
  - rewrite gxint_asis. apply xint_asis_RInvE; [apply G | intros _; apply N2Z.is_nonneg].
  - destruct (gen_from_int_ok k) as (_ & _ & _ & _ & E & _). rewrite E. intros H; injection H as <-. apply RInvE_int.
Qed.

Theorem hrun4_xgen_lock_step ops : forall px p, PoolRel px p -> Forall Inv p -> Forall RInvE px ->
  PoolRel (hrun4 heval4_xgen gen_Relaxed_default ops px) (hrun4 heval4_gen gen_RBig_default ops p) /\
  Forall RInvE (hrun4 heval4_xgen gen_Relaxed_default ops px).
Proof.
  unfold hrun4. induction ops as [|o ops IH]; intros px p HR Hp Hx; cbn [fold_left]; [split; assumption|].
  pose proof (heval4_x_rel px p o HR Hp) as HS.
  assert (HI : Forall Inv (hstep4 heval4_gen gen_RBig_default p o)).
  { replace (hstep4 heval4_gen gen_RBig_default p o) with (hstep4 heval4_spec (0, 1) p o); [apply hstep4_Inv; exact Hp|].
    unfold hstep4. rewrite heval4_gen_spec by exact Hp. reflexivity. }
  apply IH; [|exact HI|].
  - unfold hstep4. destruct (heval4_xgen px o) as [r'|q'|e'|]; destruct (heval4_gen p o) as [r|q|e|];
      cbn [res_veq] in HS; try contradiction; try exact HR.
    + apply pset_rel; assumption.
    + destruct (inplace4 o); [|exact HR]. apply pset_rel; [exact HR|].
      split; [unfold RInv; cbn; lia | apply veq_refl].
  - unfold hstep4. destruct (heval4_xgen px o) as [r'|q'|e'|] eqn:E; try exact Hx.
    + apply pset_Forall; [exact Hx | eapply heval4_xgen_RInvE; eassumption].
    + destruct (inplace4 o); [apply pset_Forall; [exact Hx | exact RInvE_default] | exact Hx].
Qed.

(** x = 3/4; x.clone_from(&2) must leave 2/1 whatever x held; 5/6 /= 0 panics and leaves 0/1 behind *)
Example hrun4_ex :
  hrun4 heval4_gen gen_RBig_default
    [HCloneFrom 1 0; HAssign ADiv 2 3; HAssign AAdd 0 1; HIntL ISub 0 7 3; HClone 3 1; HFromInt (-5) 2]
    [(3, 4); (2, 1); (5, 6); (0, 1)] = [(4, 1); (3, 1); (-5, 1); (3, 1)].
Proof. reflexivity. Qed.
Example hrun4_lock_step_nonvacuous :
  PoolRel [(6, 8); (2, 1)] [(3, 4); (2, 1)] /\ Forall Inv [(3, 4); (2, 1)] /\ Forall RInvE [(3, 4); (2, 1)].
Proof.
  split; [|split].
  - repeat constructor; cbn; lia.
  - repeat constructor; cbn; lia.
  - repeat constructor; cbn; lia.
Qed.

(* ---------------------------------------------------------------- non-vacuity of the theorems with hypotheses *)
Example relaxed_into_int_ex :
  gen_IBig_try_from_Relaxed (6, 3) = Ok 2 /\ gen_UBig_try_from_Relaxed (-6, 3) = Err 1 /\ gen_IBig_try_from_Relaxed (7, 3) = Err 2 /\
  gen_IBig_try_from_RBig (2, 1) = Ok 2 /\ Inv (2, 1) /\ veq (2, 1) (2, 1).
Proof. repeat split; cbn; lia. Qed.
Example gassign_ex :
  Inv (1, 6) /\ Inv (1, 10) /\ gassign AAdd (1, 6) (1, 10) = Ok (4, 15) /\ gxassign ADiv (1, 6) (0, 1) = Panic DivideBy0.
Proof. repeat split; cbn; lia. Qed.
Example canonicalize_serde_ex :
  gen_Relaxed_canonicalize (6, 9) = (2, 3) /\ gen_serde_RBig_deserialize 6 9 = Ok (2, 3) /\ gen_serde_RBig_deserialize 6 0 = Err 0 /\
  gen_serde_Relaxed_deserialize 6 4 = Ok (3, 2).
Proof. repeat split. Qed.
