(** C18 - RBig::farey_neighbors: the mediant walk keeps b*c - a*d = 1 and left <= x < right,
    stops within limit + 1 steps, its reduce() is the identity, and the pair it returns are the
    neighbours of x in the Farey sequence of order limit. *)
From Dashu Require Import Base.Prelude Ratio.BinIter Ratio.SimplestSpec Ratio.SimplestModel Ratio.SimplestProof Ratio.SimplestAsis.
From Coq Require Import Znumtheory.
Open Scope Z_scope.

Lemma det_coprime : forall a b u v, u * a + v * b = 1 -> Z.gcd a b = 1.
Proof.
  intros a b u v H. apply Zgcd_1_rel_prime. apply bezout_rel_prime. exact (Bezout_intro a b 1 u v H).
Qed.

Lemma flt_trans : forall a b c d e f, 0 < b -> 0 < d -> 0 < f ->
  a * d < c * b -> c * f <= e * d -> a * f < e * b.
Proof.
  intros a b c d e f Hb Hd Hf H1 H2.
  assert (a * d * f < c * b * f) by nia. assert (c * f * b <= e * d * b) by nia. nia.
Qed.

Lemma fle_lt_trans : forall a b c d e f, 0 < b -> 0 < d -> 0 < f ->
  a * d <= c * b -> c * f < e * d -> a * f < e * b.
Proof.
  intros a b c d e f Hb Hd Hf H1 H2.
  assert (a * d * f <= c * b * f) by nia. assert (c * f * b < e * d * b) by nia. nia.
Qed.

(** a canonical fraction is not equal to a fraction with a smaller denominator *)
Lemma canonical_no_smaller_den : forall xn xd n m, Z.gcd xn xd = 1 -> 0 < xd -> 0 < m < xd -> n * xd <> xn * m.
Proof.
  intros xn xd n m Hg Hxd Hm E.
  assert (Hdiv : (xd | xn * m)) by (exists n; lia).
  apply Gauss in Hdiv; [|apply Zgcd_1_rel_prime; rewrite Z.gcd_comm; exact Hg].
  apply Z.divide_pos_le in Hdiv; lia.
Qed.

(** ** freduce *)
Lemma freduce_mul : forall x, 0 < snd x ->
  exists g, 0 < g /\ fst x = g * fst (freduce x) /\ snd x = g * snd (freduce x) /\
            Z.gcd (fst (freduce x)) (snd (freduce x)) = 1 /\ 0 < snd (freduce x).
Proof.
  intros [n d] Hd. cbn [fst snd] in *. unfold freduce. cbn [fst snd]. set (g := Z.gcd n d).
  assert (Hg : 0 < g).
  { pose proof (Z.gcd_nonneg n d). assert (g <> 0) by (unfold g; intros E; apply Z.gcd_eq_0_r in E; lia). unfold g in *; lia. }
  destruct (Z.gcd_divide_l n d) as [kn Hn]. destruct (Z.gcd_divide_r n d) as [kd Hkd]. fold g in Hn, Hkd.
  exists g. split; [exact Hg|].
  assert (En : n / g = kn) by (rewrite Hn; apply Z.div_mul; lia).
  assert (Ed : d / g = kd) by (rewrite Hkd; apply Z.div_mul; lia).
  rewrite En, Ed. repeat split; try lia; try nia.
  rewrite <- En, <- Ed. apply Z.gcd_div_gcd; [lia|reflexivity].
Qed.

Lemma int_add_coprime : forall t n d, Z.gcd n d = 1 -> int_add t (n, d) = (t * d + n, d).
Proof.
  intros t n d H. unfold int_add. cbn [fst snd]. apply freduce_coprime.
  rewrite Z.gcd_comm. rewrite Z.add_comm. rewrite Z.gcd_add_mult_diag_r. rewrite Z.gcd_comm. exact H.
Qed.

(** ** the walk *)
Definition farey_nat (x : frac) (L : Z) (n : nat) (s : fst4) : result (frac * frac) :=
  iter_nat (farey_F x L) n (fun _ => OutOfFuel) s.

Lemma farey_F_ext : forall x L k k', (forall a, k a = k' a) -> forall a, farey_F x L k a = farey_F x L k' a.
Proof.
  intros x L k k' H [[[ln ld] rn] rd]. unfold farey_F. cbn [fst snd].
  repeat match goal with |- context [if ?c then _ else _] => destruct c end; try reflexivity; apply H.
Qed.

Lemma farey_nat_S : forall x L n s, farey_nat x L (S n) s = farey_F x L (farey_nat x L n) s.
Proof. intros. unfold farey_nat. cbn [iter_nat]. apply farey_F_ext. reflexivity. Qed.

Definition finv (x : frac) (L : Z) (s : fst4) : Prop :=
  let '(ln, ld, rn, rd) := s in
  0 < ld <= L /\ 0 < rd <= L /\ rn * ld - ln * rd = 1 /\ ln * snd x <= fst x * ld /\ fst x * rd < rn * snd x.

Theorem farey_nat_correct : forall x L n s, 0 < snd x -> finv x L s ->
  (let '(ln, ld, rn, rd) := s in (Z.to_nat (L + 1 - (ld + rd)) < n)%nat) ->
  exists ln ld rn rd, farey_nat x L n s = Ok ((ln, ld), (rn, rd)) /\ finv x L (ln, ld, rn, rd) /\ L < ld + rd.
Proof.
  intros [xn xd] L. cbn [snd]. induction n as [|n IH]; intros [[[ln ld] rn] rd] Hxd Hinv Hfuel; [lia|].
  rewrite farey_nat_S. unfold farey_F. cbn [fst snd].
  pose proof Hinv as (Hld & Hrd & Hdet & Hl & Hr). cbn [fst snd] in *.
  assert (Hred : freduce (ln + rn, ld + rd) = (ln + rn, ld + rd)).
  { apply freduce_coprime. apply (det_coprime _ _ ld (- ln)). lia. }
  destruct (Z.ltb_spec L (ld + rd)) as [Hexit|Hgo].
  - rewrite Hred. cbn [snd]. destruct (Z.ltb_spec L (ld + rd)); [|lia].
    exists ln, ld, rn, rd. split; [reflexivity|]. split; [exact Hinv|lia].
  - unfold flt. cbn [fst snd]. destruct (Z.ltb_spec (xn * (ld + rd)) ((ln + rn) * xd)) as [Hlt|Hge].
    + apply IH; [exact Hxd| |lia]. cbn [finv fst snd]. repeat split; lia.
    + apply IH; [exact Hxd| |lia]. cbn [finv fst snd]. repeat split; lia.
Qed.

(** nothing with a denominator below ld + rd lies strictly between Farey neighbours *)
Lemma farey_adjacent : forall ln ld rn rd n m, 0 < ld -> 0 < rd -> rn * ld - ln * rd = 1 ->
  0 < m -> ln * m < n * ld -> n * rd < rn * m -> ld + rd <= m.
Proof.
  intros ln ld rn rd n m Hld Hrd Hdet Hm H1 H2.
  assert (E : m = ld * (rn * m - n * rd) + rd * (n * ld - ln * m)).
  { replace (ld * (rn * m - n * rd) + rd * (n * ld - ln * m)) with (m * (rn * ld - ln * rd)) by ring. rewrite Hdet. ring. }
  nia.
Qed.

(** ** farey_neighbors on its domain: canonical x with |x| <= 1 and a denominator above the limit *)
Definition farey_pair (L : Z) (x l r : frac) : Prop :=
  0 < snd l <= L /\ 0 < snd r <= L /\ fst r * snd l - fst l * snd r = 1 /\
  fval_lt l x /\ fval_lt x r /\ L < snd l + snd r.

Theorem farey_neighbors_asis_ok : forall x L, 1 <= L -> L < snd x -> Z.gcd (fst x) (snd x) = 1 ->
  Z.abs (fst x) <= snd x ->
  exists l r, farey_neighbors_asis x L = Ok (l, r) /\ farey_pair L x l r.
Proof.
  intros [xn xd] L HL Hxd Hg Habs. cbn [fst snd] in *. unfold farey_neighbors_asis. cbn [fst snd].
  destruct (Z.ltb_spec L xd) as [_|]; [|lia]. cbn [negb].
  assert (Hxn0 : xn <> 0) by (intros ->; rewrite Z.gcd_0_l in Hg; lia).
  assert (Hne : Z.abs xn <> xd).
  { intros E. assert (Z.gcd xn xd = xd); [|lia]. rewrite <- E. rewrite Z.gcd_abs_r. rewrite Z.gcd_diag. lia. }
  destruct (Z.eqb_spec xn 0) as [|_]; [lia|]. destruct (Z.ltb_spec xd (Z.abs xn)) as [|_]; [lia|].
  rewrite (iter_pos_nat (farey_F (xn, xd) L) (farey_F_ext (xn, xd) L)).
  set (s0 := match sign_of xn with Positive => (0, 1, 1, 1) | Negative => (-1, 1, 0, 1) end).
  destruct (farey_nat_correct (xn, xd) L (Pos.to_nat (Z.to_pos (L + 1))) s0) as (ln & ld & rn & rd & Hrun & Hinv & Hexit).
  - cbn [snd]. lia.
  - unfold s0, sign_of. destruct (Z.ltb_spec xn 0); cbn [finv fst snd]; repeat split; lia.
  - unfold s0, sign_of. rewrite <- Z2Nat.inj_pos, Z2Pos.id by lia. destruct (Z.ltb_spec xn 0); lia.
  - unfold farey_nat, s0 in Hrun. exists (ln, ld), (rn, rd). split; [exact Hrun|].
    destruct Hinv as (Hld & Hrd & Hdet & Hl & Hr). cbn [fst snd] in *.
    unfold farey_pair, fval_lt. cbn [fst snd]. repeat split; try lia.
    pose proof (canonical_no_smaller_den xn xd ln ld Hg). lia.
Qed.
