(** C18 round 4 - DEEP as-is model of RBig::simplest_from_float (rational/src/third_party/dashu_float.rs):
    the bounds f - L, f + R are formed the way the code forms them, at Repr level:
      R::error_bounds(f)      the regenerated ErrorBounds table evaluated to FBig values (significand,
                              exponent, context precision) through the regenerated FBig::ulp, the
                              half_ulp edit (exponent -= 1, significand = (B+1)/2) and towards_zero,
      .with_precision(p+1)    the regenerated body over C10's repr_round / norm_approx, then unwrap,
      f - l, f + r            the regenerated add_ref_val over C03's add models (Context::max, zero
                              shortcuts that round, equal-exponent path, repr_add_small_large /
                              repr_add_large_small with the digit estimate [dub]), FBig::new normalises,
      RBig::try_from          the regenerated Repr::try_from, then reduce.
    Definitions only (proofs: SimplestDeepProof.v). *)
From Dashu Require Import Base.Prelude Ratio.BinIter Float.RoundSpec Ratio.SimplestSpec Ratio.SimplestModel.
From Dashu Require Import Float.Contract Float.Model Float.AddModel Float.RoundOpsModel.
From DashuGen Require Import ErrorBoundsTable SimplestFloatGen.
Open Scope Z_scope.

(** the regenerated table, by mode (the same dispatch as ErrorBoundsTableProof.error_bounds_table; repeated
    here so that the oracle does not depend on a proof file) *)
Definition eb_table_of (md : mode) (B p sig dg : Z) : eb_term * eb_term * bool * bool :=
  match md with
  | MZero => error_bounds_Zero_gen B p sig dg
  | MAway => error_bounds_Away_gen B p sig dg
  | MUp => error_bounds_Up_gen B p sig dg
  | MDown => error_bounds_Down_gen B p sig dg
  | MHalfEven => error_bounds_HalfEven_gen B p sig dg
  | MHalfAway => error_bounds_HalfAway_gen B p sig dg
  end.
Definition eb_half_of (md : mode) (B : Z) : Z * Z :=
  match md with
  | MZero => error_bounds_Zero_half_gen B
  | MAway => error_bounds_Away_half_gen B
  | MUp => error_bounds_Up_half_gen B
  | MDown => error_bounds_Down_half_gen B
  | MHalfEven => error_bounds_HalfEven_half_gen B
  | MHalfAway => error_bounds_HalfAway_half_gen B
  end.

Fixpoint ebt_base (t : eb_term) : eb_term := match t with EBTowardsZero t' => ebt_base t' | _ => t end.
Fixpoint ebt_drop (B sig : Z) (t : eb_term) : Z :=
  match t with EBTowardsZero t' => ebt_drop B sig t' + eb_towards_zero_drop_gen B sig | _ => 0 end.

Section Deep.
Variable B : Z.
Variable dub : Z -> Z.           (* Repr::digits_ub: any estimate that is not below the digit count *)

(** one bound as an FBig.  f.ulp() = FBig::new(Repr { 1, exponent + digits - precision }, f.context);
    half_ulp = that with `exponent -= k`, `significand = c` ((c, k) regenerated); towards_zero lowers the
    exponent by the regenerated amount; FBig::ZERO = (Repr::zero(), Context::new(0)) *)
Definition eb_term_fbig (md : mode) (f : fbig) (t : eb_term) : result fbig :=
  let d := ebt_drop B (fb_sig f) t in
  match ebt_base t with
  | EBUlp =>
      rbind (fbig_ulp_gen (fb_prec f) false (fb_sig f) (fb_exp f) (dlen B (fb_sig f)))
            (fun u => Ok (fst u, snd u - d, fb_prec f))
  | EBHalfUlp =>
      rbind (fbig_ulp_gen (fb_prec f) false (fb_sig f) (fb_exp f) (dlen B (fb_sig f)))
            (fun u => Ok (fst (eb_half_of md B), snd u - snd (eb_half_of md B) - d, fb_prec f))
  | _ => Ok (0, 0 - d, 0)
  end.

(** R::error_bounds(f) *)
Definition error_bounds_fbig (md : mode) (f : fbig) : result (fbig * fbig * bool * bool) :=
  let '(l, r, il, ir) := eb_table_of md B (fb_prec f) (fb_sig f) (dlen B (fb_sig f)) in
  rbind (eb_term_fbig md f l) (fun lv =>
  rbind (eb_term_fbig md f r) (fun rv => Ok (lv, rv, il, ir))).

(** RBig::simplest_from_float of the float FBig::from_repr(Repr::new(sig0, ex0), Context::new(p)) *)
Definition simplest_from_float_deep (md : mode) (p sig0 ex0 : Z) : result (option frac) :=
  simplest_from_float_gen B dub md (error_bounds_fbig md) simplest_in_asis is_simpler_than_asis
    false (normalize B sig0 ex0, p).

(** the two end points the code hands to simplest_in, as stored Reprs (for the correspondence run):
    (l, r, incl_l, incl_r) of error_bounds and lb = f - l', rb = f + r' *)
Definition float_bounds_deep (md : mode) (p sig0 ex0 : Z) : result (fbig * fbig * bool * bool * fbig * fbig) :=
  let f : fbig := (normalize B sig0 ex0, p) in
  rbind (error_bounds_fbig md f) (fun '(l, r, il, ir) =>
  let np := if p =? 0 then 0 else p + 1 in
  rbind (sf_unwrap np (with_precision_gen B md l np)) (fun l' =>
  rbind (sf_unwrap np (with_precision_gen B md r np)) (fun r' =>
  Ok (l, r, il, ir, add_ref_val_gen B dub md f l' Negative, add_ref_val_gen B dub md f r' Positive)))).
End Deep.

(** executable instances: exact digit count, and the worst admissible estimate (the result does not depend on it) *)
Definition simplest_from_float_deep_x (B : Z) := simplest_from_float_deep B (dlen B).
Definition simplest_from_float_deep_x1 (B : Z) := simplest_from_float_deep B (fun s => dlen B s + 1).
Definition float_bounds_deep_x (B : Z) := float_bounds_deep B (dlen B).
