(** C18 round 4 - WHOLE function bodies of rational/src/simplify.rs, regenerated on every run
    (gen/SimplifyBodiesGen.v, tools/translate_c18_r4.py: continuation-passing translation of early returns,
    `let sign = if .. else { return .. }`, the statement-level match with mem::swap, the debug assertion, the
    tail) against the hand-written as-is models: Repr::simplest_in + RBig::simplest_in, nearest, next_up,
    next_down.  The loop of Repr::simplest_in enters the regenerated one-step function of round 3
    (SimplifyGen.cf_step_gen) with the state the regenerated body has built. *)
From Dashu Require Import Base.Prelude Ratio.BinIter Float.RoundSpec Ratio.SimplestSpec Ratio.SimplestModel
  Ratio.SimplerOrder Ratio.SimplestProof Ratio.SimplestAsis Ratio.FareyProof Ratio.FareyNext Ratio.FareyNearest
  Ratio.SimplifyGenProof Ratio.SimplifyBodiesModel.
From DashuGen Require Import SimplifyGen SimplifyBodiesGen.
Open Scope Z_scope.

Lemma cf_run_gen_loop : forall l u,
  cf_run_gen 1 0 0 1 (fst l) (snd l) (fst u) (snd u) = cf_loop l u.
Proof. intros l u. rewrite <- cf_loop_gen_asis. reflexivity. Qed.

(** ** Repr::simplest_in followed by reduce (RBig::simplest_in) *)
Theorem rbig_simplest_in_gen_asis : forall l u,
  rbig_simplest_in_gen cf_run_gen l u = simplest_in_asis l u.
Proof.
  intros l u. unfold rbig_simplest_in_gen, repr_simplest_in_gen, simplest_in_asis. cbv zeta.
  assert (K : forall sg,
    rbind (match sg_fcmp (fabs l) (fabs u) with
           | Eq => Ok (signed sg (fst (fabs l)), snd (fabs l))
           | Gt => rbind (cf_run_gen 1 0 0 1 (fst (fabs u)) (snd (fabs u)) (fst (fabs l)) (snd (fabs l)))
                     (fun '(a, b) => if sb_sign_eqb (sign_of a) (sign_of b) then Ok (signed sg (Z.abs a), Z.abs b) else Panic Undocumented)
           | Lt => rbind (cf_run_gen 1 0 0 1 (fst (fabs l)) (snd (fabs l)) (fst (fabs u)) (snd (fabs u)))
                     (fun '(a, b) => if sb_sign_eqb (sign_of a) (sign_of b) then Ok (signed sg (Z.abs a), Z.abs b) else Panic Undocumented)
           end) (fun s => Ok (freduce s))
    = match fst (fabs l) * snd (fabs u) ?= fst (fabs u) * snd (fabs l) with
      | Eq => Ok (freduce (signed sg (fst (fabs l)), snd (fabs l)))
      | c => match cf_loop (match c with Gt => fabs u | _ => fabs l end) (match c with Gt => fabs l | _ => fabs u end) with
             | Ok nd => if sign_eqb (sign_of (fst nd)) (sign_of (snd nd))
                        then Ok (freduce (signed sg (Z.abs (fst nd)), Z.abs (snd nd))) else Panic Undocumented
             | e => e
             end
      end).
  { intros sg. unfold sg_fcmp. rewrite !cf_run_gen_loop.
    destruct (fst (fabs l) * snd (fabs u) ?= fst (fabs u) * snd (fabs l)); cbn [rbind]; [reflexivity| |].
    - destruct (cf_loop (fabs l) (fabs u)) as [[a b]| | |]; cbn [rbind fst snd]; try reflexivity.
      change (sb_sign_eqb (sign_of a) (sign_of b)) with (sign_eqb (sign_of a) (sign_of b)).
      destruct (sign_eqb (sign_of a) (sign_of b)); reflexivity.
    - destruct (cf_loop (fabs u) (fabs l)) as [[a b]| | |]; cbn [rbind fst snd]; try reflexivity.
      change (sb_sign_eqb (sign_of a) (sign_of b)) with (sign_eqb (sign_of a) (sign_of b)).
      destruct (sign_eqb (sign_of a) (sign_of b)); reflexivity. }
  change (sb_sign_eqb (sign_of (fst l)) (sign_of (fst u))) with (sign_eqb (sign_of (fst l)) (sign_of (fst u))).
  destruct (fst l =? 0); [apply K|].
  destruct ((fst u =? 0) || sign_eqb (sign_of (fst l)) (sign_of (fst u))); [apply K|]. reflexivity.
Qed.

(** hence the regenerated function computes the specified optimum of every interval *)
Theorem rbig_simplest_in_gen_spec : forall l u, 0 < snd l -> 0 < snd u ->
  rbig_simplest_in_gen cf_run_gen l u = simplest_in_spec l u.
Proof. intros l u Hl Hu. rewrite rbig_simplest_in_gen_asis. apply simplest_in_asis_spec; assumption. Qed.

(** ** nearest / next_up / next_down around farey_neighbors *)
Theorem nearest_gen_asis : forall x L, nearest_gen farey_neighbors_asis x L = nearest_asis x L.
Proof.
  intros x L. unfold nearest_gen, nearest_asis.
  destruct (L =? 0); [reflexivity|]. destruct (snd x <=? L); [reflexivity|].
  destruct (split_at_point x) as [t r].
  destruct (farey_neighbors_asis r L) as [[lf rt]| | |]; cbn [rbind]; try reflexivity.
  unfold sb_radd. cbv zeta. rewrite sg_fgt_flt. change (2 ^ 1) with 2.
  change sb_int_add with int_add.
  destruct (flt (fst (freduce (fadd lf rt)), 2 * snd (freduce (fadd lf rt))) r); reflexivity.
Qed.

Theorem next_up_gen_asis : forall x L, next_up_gen farey_neighbors_asis x L = next_up_asis x L.
Proof.
  intros x L. unfold next_up_gen, next_up_asis, next_gen, nudge.
  destruct (L =? 0); [reflexivity|]. destruct (split_at_point x) as [t fr]. cbv zeta.
  unfold sb_radd. change sb_int_add with int_add.
  destruct (snd x <=? L).
  - destruct (farey_neighbors_asis (freduce (fadd fr (1, L * L + 1))) L) as [[lf rt]| | |]; reflexivity.
  - destruct (farey_neighbors_asis fr L) as [[lf rt]| | |]; reflexivity.
Qed.

Theorem next_down_gen_asis : forall x L, next_down_gen farey_neighbors_asis x L = next_down_asis x L.
Proof.
  intros x L. unfold next_down_gen, next_down_asis, next_gen, nudge.
  destruct (L =? 0); [reflexivity|]. destruct (split_at_point x) as [t fr]. cbv zeta.
  unfold sb_rsub. change sb_int_add with int_add.
  destruct (snd x <=? L).
  - destruct (farey_neighbors_asis (freduce (fsub fr (1, L * L + 1))) L) as [[lf rt]| | |]; reflexivity.
  - destruct (farey_neighbors_asis fr L) as [[lf rt]| | |]; reflexivity.
Qed.

(** with the regenerated walk inside: the regenerated bodies around the regenerated loop return the
    successor / predecessor / nearest element of the Farey sequence *)
Theorem next_up_gen_correct : forall x L, 1 <= L -> 0 < snd x -> Z.gcd (fst x) (snd x) = 1 ->
  exists r, next_up_gen farey_neighbors_asis x L = Ok r /\ is_succ x L r.
Proof. intros x L HL Hx Hg. rewrite next_up_gen_asis. apply next_up_asis_correct; assumption. Qed.

Theorem next_down_gen_correct : forall x L, 1 <= L -> 0 < snd x -> Z.gcd (fst x) (snd x) = 1 ->
  exists r, next_down_gen farey_neighbors_asis x L = Ok r /\ is_pred x L r.
Proof. intros x L HL Hx Hg. rewrite next_down_gen_asis. apply next_down_asis_correct; assumption. Qed.

Example bodies_gen_examples :
  rbig_simplest_in_gen cf_run_gen (1234, 5678) (1235, 5679) = Ok (5, 23) /\
  rbig_simplest_in_gen cf_run_gen (-1, 2) (0, 1) = Ok (-1, 3) /\
  rbig_simplest_in_gen cf_run_gen (7, 2) (-7, 2) = Ok (0, 1) /\
  nearest_gen farey_neighbors_asis (355, 113) 10 = Ok (AInexact (22, 7) Positive) /\
  next_up_gen farey_neighbors_asis (3, 1) 1 = Ok (4, 1) /\
  next_down_gen farey_neighbors_asis (355, 113) 10 = Ok (25, 8) /\ 1 <= 10 /\ 0 < snd (355, 113) /\ Z.gcd 355 113 = 1.
Proof. repeat split; try (vm_compute; reflexivity); lia. Qed.
