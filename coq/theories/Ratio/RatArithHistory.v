(** C04: all finite histories.  A pool of live values, every operation reads operands from the pool and
    writes its result back (a panicking operation leaves the pool as it was).  By induction over the list
    of operations: the RBig pool always satisfies the invariant and equals the specification's pool; the
    Relaxed pool run in lock step keeps positive denominators and the same values. *)
From Coq Require Import Znumtheory.
From Dashu Require Import Base.Prelude Ratio.RatArithModel Ratio.RatArithCanon Ratio.RatArithProofs
  Ratio.RatArithRelaxed Ratio.RatArithQ.
Open Scope Z_scope.

Lemma Inv_default : Inv (0, 1).
Proof. split; cbn [fst snd]; [lia | reflexivity]. Qed.

Lemma pget_Forall (P : rat -> Prop) p i : P (0, 1) -> Forall P p -> P (pget p i).
Proof.
  intros H0 H. unfold pget. revert i. induction H as [|h t Hh Ht IH]; intros [|i]; cbn [nth]; auto.
Qed.

Lemma pset_Forall (P : rat -> Prop) p i v : Forall P p -> P v -> Forall P (pset p i v).
Proof.
  intros H Hv. revert i. induction H as [|h t Hh Ht IH]; intros [|i]; cbn [pset]; constructor; auto.
Qed.

(* ---------------------------------------------------------------- one step *)
Lemma heval_asis_spec p o : Forall Inv p -> heval_asis p o = heval_spec p o.
Proof.
  intros Hp. pose proof (fun i => pget_Forall Inv p i Inv_default Hp) as G.
  destruct o; cbn [heval_asis heval_spec].
  - apply bin_asis_spec; apply G.
  - apply un_asis_spec; apply G.
  - f_equal. apply pow_asis_spec; [apply G | apply N2Z.is_nonneg].
  - apply int_asis_spec; [apply G | discriminate].
  - apply int_asis_spec; [apply G | intros _; apply N2Z.is_nonneg].
Qed.

Lemma heval_spec_Inv p o r : Forall Inv p -> heval_spec p o = Ok r -> Inv r.
Proof.
  intros Hp. pose proof (fun i => Inv_RInv _ (pget_Forall Inv p i Inv_default Hp)) as G.
  destruct o; cbn [heval_spec].
  - apply bin_spec_Inv; apply G.
  - apply un_spec_Inv; apply G.
  - intros H; injection H as <-. apply pow_spec_Inv; [apply G | apply N2Z.is_nonneg].
  - apply int_spec_Inv; apply G.
  - apply int_spec_Inv; apply G.
Qed.

(** a step fails only by the documented division-by-zero panic *)
Lemma heval_spec_total p o : (exists r, heval_spec p o = Ok r) \/ heval_spec p o = Panic DivideBy0.
Proof.
  destruct o; cbn [heval_spec].
  - destruct (bin_spec_panic o (pget p i) (pget p j)) as [(r & H & _)|(H & _)]; [left; eauto | right; exact H].
  - destruct (pget p i) as [a b]. destruct o; cbn [un_spec]; try (left; eexists; reflexivity).
    destruct (a =? 0); [right; reflexivity | left; eexists; reflexivity].
  - left; eexists; reflexivity.
  - destruct (pget p i) as [a b]. destruct o; cbn [int_spec]; try (left; eexists; reflexivity).
    + destruct (k =? 0); [right; reflexivity | left; eexists; reflexivity].
    + destruct (a =? 0); [right; reflexivity | left; eexists; reflexivity].
  - destruct (pget p i) as [a b]. destruct o; cbn [int_spec]; try (left; eexists; reflexivity).
    + destruct (Z.of_N k =? 0); [right; reflexivity | left; eexists; reflexivity].
    + destruct (a =? 0); [right; reflexivity | left; eexists; reflexivity].
Qed.

Lemma hstep_Inv p o : Forall Inv p -> Forall Inv (hstep heval_spec p o).
Proof.
  intros Hp. unfold hstep. destruct (heval_spec p o) as [r| | |] eqn:E; try exact Hp.
  apply pset_Forall; [exact Hp | eapply heval_spec_Inv; eassumption].
Qed.

(* ---------------------------------------------------------------- every finite history *)
Theorem hrun_asis_spec ops : forall p, Forall Inv p ->
  hrun heval_asis ops p = hrun heval_spec ops p /\ Forall Inv (hrun heval_asis ops p).
Proof.
  unfold hrun. induction ops as [|o ops IH]; intros p Hp; cbn [fold_left].
  - split; [reflexivity | exact Hp].
  - assert (E : hstep heval_asis p o = hstep heval_spec p o).
    { unfold hstep. rewrite heval_asis_spec by exact Hp. reflexivity. }
    rewrite E. apply IH. apply hstep_Inv. exact Hp.
Qed.

(** lock step of the Relaxed pool *)
Definition PoolRel (px p : list rat) : Prop := Forall2 (fun x' x => RInv x' /\ veq x' x) px p.

Lemma pget_rel px p i : PoolRel px p -> RInv (pget px i) /\ veq (pget px i) (pget p i).
Proof.
  intros H. unfold pget. revert i. induction H as [|x' x tx t Hx Ht IH]; intros [|i]; cbn [nth]; auto;
    split; unfold RInv, veq; cbn [fst snd]; lia.
Qed.

Lemma pset_rel px p i v' v : PoolRel px p -> RInv v' /\ veq v' v -> PoolRel (pset px i v') (pset p i v).
Proof.
  unfold PoolRel. intros H Hv. revert i.
  induction H as [|x' x tx t Hx Ht IH]; intros [|i]; cbn [pset]; constructor; auto.
Qed.

Lemma heval_x_rel px p o : PoolRel px p -> Forall Inv p -> res_veq (heval_xasis px o) (heval_asis p o).
Proof.
  intros HR Hp. pose proof (fun i => pget_Forall Inv p i Inv_default Hp) as G.
  pose proof (fun i => pget_rel px p i HR) as R.
  destruct o; cbn [heval_xasis heval_asis].
  - apply relaxed_bin_eq_rbig; try apply G; apply R.
  - apply relaxed_un_eq_rbig; try apply G; apply R.
  - apply relaxed_pow_eq_rbig; try apply G; try apply R. apply N2Z.is_nonneg.
  - apply relaxed_int_eq_rbig; try apply G; try apply R. discriminate.
  - apply relaxed_int_eq_rbig; try apply G; try apply R. intros _. apply N2Z.is_nonneg.
Qed.

Lemma hdst_same o : hdst o = hdst o. Proof. reflexivity. Qed.

Theorem hrun_relaxed ops : forall px p, PoolRel px p -> Forall Inv p ->
  PoolRel (hrun heval_xasis ops px) (hrun heval_asis ops p).
Proof.
  unfold hrun. induction ops as [|o ops IH]; intros px p HR Hp; cbn [fold_left]; [exact HR|].
  pose proof (heval_x_rel px p o HR Hp) as HS.
  assert (HI : Forall Inv (hstep heval_asis p o)).
  { replace (hstep heval_asis p o) with (hstep heval_spec p o); [apply hstep_Inv; exact Hp|].
    unfold hstep. rewrite heval_asis_spec by exact Hp. reflexivity. }
  apply IH; [|exact HI].
  unfold hstep. destruct (heval_xasis px o) as [r'|q'|e'|]; destruct (heval_asis p o) as [r|q|e|];
    cbn [res_veq] in HS; try contradiction; try exact HR.
  apply pset_rel; assumption.
Qed.

(** panics agree step by step as well: Relaxed panics exactly when RBig does *)
Theorem hstep_panic_agree px p o : PoolRel px p -> Forall Inv p ->
  forall q, heval_xasis px o = Panic q <-> heval_asis p o = Panic q.
Proof.
  intros HR Hp q. pose proof (heval_x_rel px p o HR Hp) as HS.
  destruct (heval_xasis px o) as [r'|q'|e'|]; destruct (heval_asis p o) as [r|q0|e|];
    cbn [res_veq] in HS; try contradiction; split; intros H; try discriminate; congruence.
Qed.

Example hrun_ex :
  hrun heval_asis [HBin ODiv 0 1 0; HUn UInv 1 1; HBin OAdd 0 1 0; HPow 0 3 1] [(1, 2); (3, 4)]
  = [(2, 1); (8, 1)].
Proof. reflexivity. Qed.
