(** C18 - simplest_from_float outside the listed finding classes: the as-is model (Repr
    normalisation, ErrorBounds::error_bounds of the mode, f -+ bound, simplest_in, the two
    is_simpler_than tests) equals the specification (the simplest fraction of the exact rounding
    interval [float_interval_spec]) for EVERY base >= 2, precision, significand and exponent,
    provided the input is not in one of the four open classes [known_float].
    Method: every quantity is an integer multiple X/D of B^t (t = exponent of a half... of the digit
    below the last one); canonical fractions with equal X/D are equal pairs. *)
From Dashu Require Import Base.Prelude Ratio.BinIter Float.RoundSpec Ratio.SimplestSpec Ratio.SimplestModel
  Ratio.SimplerOrder Ratio.SimplestProof Ratio.SimplestAsis Ratio.FareyProof Ratio.SimplestClosed Ratio.SimplestFindings.
From Coq Require Import Znumtheory.
Open Scope Z_scope.

(** x = X * B^t / D *)
Definition uval (B t : Z) (x : frac) (X D : Z) : Prop :=
  fst x * D * B ^ (Z.abs t) = X * B ^ (t + Z.abs t) * snd x.

Lemma scaled_val : forall B N e d K, 0 < B -> 0 < d -> 0 <= K -> 0 <= e + K ->
  fst (scaled B N e d) * d * B ^ K = N * B ^ (e + K) * snd (scaled B N e d).
Proof.
  intros B N e d K HB Hd HK HeK. unfold scaled. destruct (Z.leb_spec 0 e) as [He|He].
  - destruct (freduce_canon (N * B ^ e, d) Hd) as (_ & E). unfold fval_eq in E. cbn [fst snd] in E.
    set (s := freduce (N * B ^ e, d)) in *. rewrite Z.pow_add_r by lia.
    transitivity (fst s * d * B ^ K); [ring|]. rewrite E. ring.
  - assert (HQ : 0 < B ^ (- e)) by (apply Z.pow_pos_nonneg; lia).
    destruct (freduce_canon (N, d * B ^ (- e))) as (_ & E); [cbn [snd]; nia|]. unfold fval_eq in E. cbn [fst snd] in E.
    set (s := freduce (N, d * B ^ (- e))) in *.
    assert (HK2 : B ^ K = B ^ (e + K) * B ^ (- e)) by (rewrite <- Z.pow_add_r by lia; f_equal; ring).
    rewrite HK2. transitivity (fst s * (d * B ^ (- e)) * B ^ (e + K)); [ring|]. rewrite E. ring.
Qed.

Lemma scaled_canon : forall B N e d, 0 < B -> 0 < d -> canon (scaled B N e d).
Proof.
  intros B N e d HB Hd. unfold scaled. destruct (Z.leb_spec 0 e); apply freduce_canon; cbn [snd]; [exact Hd|].
  apply Z.mul_pos_pos; [exact Hd|]. apply Z.pow_pos_nonneg; lia.
Qed.

Section Units.
  Variables B t : Z.
  Hypothesis HB : 0 < B.
  Let K := Z.abs t.
  Let BK := B ^ K.
  Let P := B ^ (t + K).

  Lemma BK_pos : 0 < BK. Proof. apply Z.pow_pos_nonneg; [exact HB|apply Z.abs_nonneg]. Qed.
  Lemma P_pos : 0 < P. Proof. apply Z.pow_pos_nonneg; [exact HB|unfold K; lia]. Qed.

  Lemma uval_shift : forall N e d j, e = t + j -> 0 <= j -> 0 < d -> uval B t (scaled B N e d) (N * B ^ j) d.
  Proof.
    intros N e d j -> Hj Hd. unfold uval. fold K.
    rewrite (scaled_val B N (t + j) d K HB Hd) by (unfold K; lia).
    replace (t + j + K) with (j + (t + K)) by ring. rewrite Z.pow_add_r by (unfold K; lia). ring.
  Qed.

  Lemma uval_scaled : forall N d, 0 < d -> uval B t (scaled B N t d) N d.
  Proof.
    intros N d Hd. pose proof (uval_shift N t d 0 ltac:(ring) ltac:(lia) Hd) as H.
    rewrite Z.pow_0_r, Z.mul_1_r in H. exact H.
  Qed.

  Lemma uval_zero : uval B t (0, 1) 0 1.
  Proof. unfold uval. cbn [fst snd]. ring. Qed.

  Lemma uval_add : forall x y X1 D1 X2 D2, 0 < snd x -> 0 < snd y -> uval B t x X1 D1 -> uval B t y X2 D2 ->
    uval B t (freduce (fadd x y)) (X1 * D2 + X2 * D1) (D1 * D2).
  Proof.
    intros [xn xd] [yn yd] X1 D1 X2 D2 Hx Hy Ux Uy. unfold uval in *. fold K BK P in Ux, Uy |- *. cbn [fst snd] in *.
    destruct (freduce_canon (fadd (xn, xd) (yn, yd))) as (_ & E); [unfold fadd; cbn [snd]; nia|].
    set (f := freduce (fadd (xn, xd) (yn, yd))) in *.
    unfold fval_eq, fadd in E. cbn [fst snd] in E.
    apply (Z.mul_cancel_r _ _ (xd * yd)); [nia|].
    transitivity (fst f * (xd * yd) * (D1 * D2 * BK)); [ring|]. rewrite E.
    transitivity (snd f * ((xn * D1 * BK) * (yd * D2) + (yn * D2 * BK) * (xd * D1))); [ring|]. rewrite Ux, Uy. ring.
  Qed.

  Lemma uval_sub : forall x y X1 D1 X2 D2, 0 < snd x -> 0 < snd y -> uval B t x X1 D1 -> uval B t y X2 D2 ->
    uval B t (freduce (fsub x y)) (X1 * D2 - X2 * D1) (D1 * D2).
  Proof.
    intros [xn xd] [yn yd] X1 D1 X2 D2 Hx Hy Ux Uy. unfold uval in *. fold K BK P in Ux, Uy |- *. cbn [fst snd] in *.
    destruct (freduce_canon (fsub (xn, xd) (yn, yd))) as (_ & E); [unfold fsub; cbn [snd]; nia|].
    set (f := freduce (fsub (xn, xd) (yn, yd))) in *.
    unfold fval_eq, fsub in E. cbn [fst snd] in E.
    apply (Z.mul_cancel_r _ _ (xd * yd)); [nia|].
    transitivity (fst f * (xd * yd) * (D1 * D2 * BK)); [ring|]. rewrite E.
    transitivity (snd f * ((xn * D1 * BK) * (yd * D2) - (yn * D2 * BK) * (xd * D1))); [ring|]. rewrite Ux, Uy. ring.
  Qed.

  Lemma uval_neg : forall x X D, uval B t x X D -> uval B t (fneg x) (- X) D.
  Proof. intros [xn xd] X D U. unfold uval, fneg in *. cbn [fst snd] in *. fold K in U |- *. lia. Qed.

  (** canonical fractions with the same number of units are the same pair *)
  Lemma uval_inj : forall x y X1 D1 X2 D2, canon x -> canon y -> 0 < D1 -> 0 < D2 ->
    uval B t x X1 D1 -> uval B t y X2 D2 -> X1 * D2 = X2 * D1 -> x = y.
  Proof.
    intros x y X1 D1 X2 D2 Cx Cy HD1 HD2 Ux Uy HX. apply canon_eq; [assumption|assumption|].
    unfold uval, fval_eq in *. fold K BK P in Ux, Uy. pose proof BK_pos. pose proof P_pos.
    apply (Z.mul_cancel_r _ _ (D1 * D2 * BK)); [nia|].
    transitivity ((fst x * D1 * BK) * (snd y * D2)); [ring|]. rewrite Ux.
    transitivity ((X1 * D2) * (P * snd x * snd y)); [ring|]. rewrite HX.
    transitivity ((X2 * P * snd y) * (D1 * snd x)); [ring|]. rewrite <- Uy. ring.
  Qed.
End Units.

Lemma canon_fneg : forall x, canon x -> canon (fneg x).
Proof. intros [n d] (H1 & H2). unfold canon, fneg in *. cbn [fst snd] in *. rewrite Z.gcd_opp_l. split; assumption. Qed.

Lemma fneg_scaled : forall B N e d, 0 < B -> 0 < d -> fneg (scaled B N e d) = scaled B (- N) e d.
Proof.
  intros B N e d HB Hd.
  apply (uval_inj B e HB _ _ (- N) d (- N) d); try assumption; try reflexivity.
  - apply canon_fneg, scaled_canon; assumption.
  - apply scaled_canon; assumption.
  - apply uval_neg, uval_scaled; assumption.
  - apply uval_scaled; assumption.
Qed.

(** ** ndigits, fnormalize *)
Lemma ndigits_fuel_nonneg : forall f B m, 0 <= ndigits_fuel f B m.
Proof. induction f as [|f IH]; intros B m; cbn [ndigits_fuel]; [lia|]. destruct (m <? B); [lia|]. pose proof (IH B (m / B)). lia. Qed.

Lemma ndigits_pos : forall B m, 0 < m -> 1 <= ndigits B m.
Proof.
  intros B m Hm. unfold ndigits. destruct (Z.leb_spec m 0); [lia|].
  pose proof (Z.log2_nonneg m). destruct (Z.to_nat (Z.log2 m + 1)) as [|f] eqn:E; [lia|].
  cbn [ndigits_fuel]. destruct (m <? B); [lia|]. pose proof (ndigits_fuel_nonneg f B (m / B)). lia.
Qed.

Lemma fnormalize_id : forall B sig ex, sig mod B <> 0 -> fnormalize B sig ex = (sig, ex).
Proof.
  intros B sig ex H. unfold fnormalize.
  destruct (Z.eqb_spec sig 0) as [->|Hs]; [rewrite Z.mod_0_l in H; [congruence|intros ->; rewrite Zmod_0_r in H; congruence]|].
  pose proof (Z.log2_nonneg (Z.abs sig)). destruct (Z.to_nat (Z.log2 (Z.abs sig) + 1)) as [|f] eqn:E; [lia|].
  cbn [fnormalize_fuel]. destruct (Z.eqb_spec (sig mod B) 0); [congruence|reflexivity].
Qed.

(** a normalised significand other than +-1 is not a power of the base *)
Lemma not_pow_base : forall B a dg p, 2 <= B -> 0 < a -> a mod B <> 0 -> a <> 1 -> 1 <= dg <= p ->
  (a * B ^ (p - dg) =? B ^ (p - 1)) = false.
Proof.
  intros B a dg p HB Ha Hmod H1 Hdg. apply Z.eqb_neq. intros E.
  replace (p - 1) with ((p - dg) + (dg - 1)) in E by ring. rewrite Z.pow_add_r in E by lia.
  assert (HP : 0 < B ^ (p - dg)) by (apply Z.pow_pos_nonneg; lia).
  assert (Ea : a = B ^ (dg - 1)) by nia.
  destruct (Z.eq_dec dg 1) as [->|Hd]; [rewrite Z.sub_diag, Z.pow_0_r in Ea; lia|].
  apply Hmod. rewrite Ea. replace (dg - 1) with (1 + (dg - 2)) by ring. rewrite Z.pow_add_r by lia.
  rewrite Z.pow_1_r. rewrite Z.mul_comm. apply Z.mod_mul. lia.
Qed.

Lemma half_even_base : forall B, Z.odd B = false -> 2 * ((B + 1) / 2) = B.
Proof.
  intros B H. rewrite <- Z.negb_even in H. apply Bool.negb_false_iff in H. apply Z.even_spec in H. destruct H as [k ->].
  replace (2 * k + 1) with (1 + k * 2) by ring. rewrite Z.div_add by lia. replace (1 / 2) with 0 by reflexivity. ring.
Qed.

Lemma tuple4_eq : forall (a a' b b' : frac) (c d : bool), a = a' -> b = b' -> (a, b, c, d) = (a', b', c, d).
Proof. intros. subst. reflexivity. Qed.

(** ** the interval of the code = the interval of the specification *)
Lemma ndigits_one : forall B, 2 <= B -> ndigits B 1 = 1.
Proof. intros B HB. unfold ndigits. change (Z.to_nat (Z.log2 1 + 1)) with 1%nat. cbn [Z.leb Z.compare ndigits_fuel]. destruct (Z.ltb_spec 1 B); [reflexivity|lia]. Qed.

Section Interval.
  Variables B p sig ex : Z.
  Hypothesis HB : 2 <= B.
  Hypothesis Hp : 0 < p.
  Hypothesis Hnorm : sig mod B <> 0.
  Hypothesis Hdg : ndigits B (Z.abs sig) <= p.

  Let a := Z.abs sig.
  Let dg := ndigits B a.
  Let t := ex + dg - p - 1.
  Let j := p - dg + 1.
  Let c := 2 * (a * B ^ (p - dg)) * B.
  Let v := scaled B sig ex 1.
  Let ulp := scaled B 1 (ex + dg - p) 1.
  Let half := scaled B ((B + 1) / 2) (ex + dg - p - 1) 1.
  (* the bounds on the side of zero of a power of the base: one digit lower *)
  Let ulp_tz := scaled B 1 (ex + dg - p - 1) 1.
  Let half_tz := scaled B ((B + 1) / 2) (ex + dg - p - 1 - 1) 1.

  Lemma sig_nz : sig <> 0.
  Proof. intros E. apply Hnorm. rewrite E. apply Z.mod_0_l. lia. Qed.

  Lemma a_pos : 0 < a. Proof. pose proof sig_nz. unfold a. lia. Qed.
  Lemma dg_range : 1 <= dg <= p. Proof. split; [apply ndigits_pos, a_pos|exact Hdg]. Qed.
  Lemma B_pos : 0 < B. Proof. lia. Qed.

  Lemma v_units : uval B t v (sig * B ^ j) 1.
  Proof. apply uval_shift; [exact B_pos|unfold t, j; ring|pose proof dg_range; unfold j; lia|lia]. Qed.

  Lemma Bj : B ^ j = B ^ (p - dg) * B.
  Proof. pose proof dg_range. unfold j. rewrite Z.pow_add_r by lia. rewrite Z.pow_1_r. reflexivity. Qed.

  Lemma ulp_units : uval B t ulp B 1.
  Proof.
    pose proof (uval_shift B t B_pos 1 (ex + dg - p) 1 1 ltac:(unfold t; ring) ltac:(lia) ltac:(lia)) as H.
    rewrite Z.pow_1_r, Z.mul_1_l in H. exact H.
  Qed.

  Lemma half_units : uval B t half ((B + 1) / 2) 1.
  Proof. apply (uval_scaled B t B_pos). lia. Qed.

  Lemma ulp_tz_units : uval B t ulp_tz 1 1.
  Proof. apply (uval_scaled B t B_pos). lia. Qed.

  (** in an even base ceil(B/2) * B^(t-1) is half a unit B^t *)
  Lemma half_tz_units : Z.odd B = false -> uval B t half_tz 1 2.
  Proof.
    intros Hodd. pose proof (half_even_base B Hodd) as Hh. set (h := (B + 1) / 2) in *.
    unfold half_tz. fold h. replace (ex + dg - p - 1 - 1) with (t - 1) by (unfold t; ring).
    pose proof (scaled_val B h (t - 1) 1 (Z.abs t + 1) B_pos ltac:(lia) ltac:(lia) ltac:(lia)) as E.
    set (s := scaled B h (t - 1) 1) in *. unfold uval.
    replace (t - 1 + (Z.abs t + 1)) with (t + Z.abs t) in E by ring.
    rewrite Z.pow_add_r, Z.pow_1_r in E by lia.
    set (BK := B ^ Z.abs t) in *. set (P := B ^ (t + Z.abs t)) in *.
    assert (Hh0 : 0 < h) by lia.
    apply (Z.mul_cancel_r _ _ h); [lia|].
    transitivity (fst s * 1 * (BK * (2 * h))); [ring|]. rewrite Hh.
    transitivity (h * P * snd s); [exact E|ring].
  Qed.

  Lemma v_pos : 0 < snd v. Proof. apply scaled_pos; [exact B_pos|lia]. Qed.
  Lemma ulp_pos : 0 < snd ulp. Proof. apply scaled_pos; [exact B_pos|lia]. Qed.
  Lemma half_pos : 0 < snd half. Proof. apply scaled_pos; [exact B_pos|lia]. Qed.
  Lemma ulp_tz_pos : 0 < snd ulp_tz. Proof. apply scaled_pos; [exact B_pos|lia]. Qed.
  Lemma half_tz_pos : 0 < snd half_tz. Proof. apply scaled_pos; [exact B_pos|lia]. Qed.

  (** f - l and f + r in units of B^t / 2 (l, r given as Xl / Dl units of B^t) *)
  Lemma end_sub : forall l Xl Dl Y, 0 < snd l -> 0 < Dl -> uval B t l Xl Dl ->
    Y * Dl = 2 * (sig * B ^ j * Dl - Xl) -> freduce (fsub v l) = scaled B Y t 2.
  Proof.
    intros l Xl Dl Y Hl HDl Ul HY.
    apply (uval_inj B t B_pos _ _ (sig * B ^ j * Dl - Xl * 1) (1 * Dl) Y 2); try lia.
    - apply freduce_canon. unfold fsub. cbn [snd]. pose proof v_pos. nia.
    - apply scaled_canon; [exact B_pos|lia].
    - apply uval_sub; [exact B_pos|exact v_pos|exact Hl|exact v_units|exact Ul].
    - apply uval_scaled; [exact B_pos|lia].
  Qed.

  Lemma end_add : forall r Xr Dr Y, 0 < snd r -> 0 < Dr -> uval B t r Xr Dr ->
    Y * Dr = 2 * (sig * B ^ j * Dr + Xr) -> freduce (fadd v r) = scaled B Y t 2.
  Proof.
    intros r Xr Dr Y Hr HDr Ur HY.
    apply (uval_inj B t B_pos _ _ (sig * B ^ j * Dr + Xr * 1) (1 * Dr) Y 2); try lia.
    - apply freduce_canon. unfold fadd. cbn [snd]. pose proof v_pos. nia.
    - apply scaled_canon; [exact B_pos|lia].
    - apply uval_add; [exact B_pos|exact v_pos|exact Hr|exact v_units|exact Ur].
    - apply uval_scaled; [exact B_pos|lia].
  Qed.

  Lemma neg_end : forall Y, fneg (scaled B Y t 2) = scaled B (- Y) t 2.
  Proof. intros Y. apply fneg_scaled; [exact B_pos|lia]. Qed.

  Lemma c_pos_sig : 0 <= sig -> 2 * (sig * B ^ j) = c.
  Proof. intros H. unfold c, a. rewrite Bj, Z.abs_eq by lia. ring. Qed.

  Lemma c_neg_sig : sig < 0 -> 2 * (sig * B ^ j) = - c.
  Proof. intros H. unfold c, a. rewrite Bj, Z.abs_neq by lia. ring. Qed.

  Lemma pw_false : Z.abs sig <> 1 -> (a * B ^ (p - dg) =? B ^ (p - 1)) = false.
  Proof.
    intros Hone.
    apply not_pow_base; [exact HB|exact a_pos| |exact Hone|exact dg_range].
    unfold a. intros E. apply Hnorm. apply Z.mod_divide; [lia|]. apply Z.mod_divide in E; [|lia].
    exact (proj1 (Z.divide_abs_r B sig) E).
  Qed.

  Lemma pw_true : Z.abs sig = 1 -> dg = 1 /\ (a * B ^ (p - dg) =? B ^ (p - 1)) = true.
  Proof.
    intros Hone. assert (Hd : dg = 1) by (unfold dg, a; rewrite Hone; apply ndigits_one; exact HB).
    split; [exact Hd|]. unfold a. rewrite Hone, Hd, Z.mul_1_l. apply Z.eqb_refl.
  Qed.

  (** HalfEven after the repair of F05: the code's tie flag is the parity of the p-digit significand *)
  Lemma incl_even : negb (Z.odd sig) || ((B mod 2 =? 0) && (dg <? p)) = Z.even (a * B ^ (p - dg)).
  Proof.
    pose proof dg_range as Hr. rewrite Z.even_mul. unfold a at 1.
    assert (Ea : Z.even (Z.abs sig) = Z.even sig) by (destruct (Z.abs_eq_or_opp sig) as [->| ->]; rewrite ?Z.even_opp; reflexivity).
    rewrite Ea, Z.negb_odd. f_equal.
    destruct (Z.ltb_spec dg p) as [H|H].
    - rewrite Z.even_pow by lia. rewrite Zmod_even. destruct (Z.even B); reflexivity.
    - replace (p - dg) with 0 by lia. rewrite Z.pow_0_r. rewrite Bool.andb_false_r. reflexivity.
  Qed.

  Lemma mod2_even : (B mod 2 =? 0) = Z.even B.
  Proof. rewrite Zmod_even. destruct (Z.even B); reflexivity. Qed.

  Ltac end_tac Hc :=
    first
      [ apply (end_sub (0, 1) 0 1); [cbn [snd]; lia|lia|apply uval_zero|lia]
      | apply (end_add (0, 1) 0 1); [cbn [snd]; lia|lia|apply uval_zero|lia]
      | apply (end_sub ulp B 1); [exact ulp_pos|lia|exact ulp_units|lia]
      | apply (end_add ulp B 1); [exact ulp_pos|lia|exact ulp_units|lia]
      | apply (end_sub ulp_tz 1 1); [exact ulp_tz_pos|lia|exact ulp_tz_units|lia]
      | apply (end_add ulp_tz 1 1); [exact ulp_tz_pos|lia|exact ulp_tz_units|lia] ].

  (** a significand other than +-1: both sides of the float have the same spacing *)
  Lemma interval_asis_spec_nonpow : Z.abs sig <> 1 -> forall md, known_float B md p sig = false ->
    match error_bounds_asis B md p sig ex with
    | Ok (l, r, il, ir) => (freduce (fsub v l), freduce (fadd v r), il, ir) = float_interval_spec B md p sig ex
    | _ => False
    end.
  Proof.
    intros Hone md Hk. unfold known_float, known_oddbase in Hk.
    assert (Hp0 : (p =? 0) = false) by (apply Z.eqb_neq; lia).
    rewrite Hp0 in Hk. cbn [negb andb orb] in Hk.
    assert (Hodd : is_half md = true -> Z.odd B = false).
    { intros Hh. rewrite Hh in Hk. cbn [andb orb] in Hk. exact Hk. }
    clear Hk.
    pose proof (pw_false Hone) as Hpw. pose proof v_pos as Hv. pose proof half_pos as Hh.
    pose proof half_units as Uh.
    assert (Hnp : is_power_of_base sig = false) by (unfold is_power_of_base; apply Z.eqb_neq; exact Hone).
    unfold error_bounds_asis, float_interval_spec. rewrite Hp0, Hnp. cbv zeta. rewrite !Z.sub_0_r.
    fold a. fold dg. rewrite Hpw.
    fold ulp half v. rewrite ?incl_even.
    replace (ex + dg - p - 1) with t by reflexivity.
    fold c.
    destruct (Z.ltb_spec sig 0) as [Hneg|Hpos].
    - pose proof (c_neg_sig Hneg) as Hc.
      destruct md; cbn [is_half] in *; try discriminate; rewrite ?neg_end;
        try (apply tuple4_eq; end_tac Hc).
      + pose proof (half_even_base B (Hodd eq_refl)) as HBh.
        assert (HU : 2 * B / 2 = B) by (rewrite Z.mul_comm; apply Z.div_mul; lia). rewrite !HU.
        apply tuple4_eq.
        * apply (end_sub half ((B + 1) / 2) 1); [exact Hh|lia|exact Uh|lia].
        * apply (end_add half ((B + 1) / 2) 1); [exact Hh|lia|exact Uh|lia].
      + pose proof (half_even_base B (Hodd eq_refl)) as HBh.
        assert (HU : 2 * B / 2 = B) by (rewrite Z.mul_comm; apply Z.div_mul; lia). rewrite !HU.
        apply tuple4_eq.
        * apply (end_sub half ((B + 1) / 2) 1); [exact Hh|lia|exact Uh|lia].
        * apply (end_add half ((B + 1) / 2) 1); [exact Hh|lia|exact Uh|lia].
    - pose proof (c_pos_sig Hpos) as Hc.
      destruct md; cbn [is_half] in *; try discriminate;
        try (apply tuple4_eq; end_tac Hc).
      + pose proof (half_even_base B (Hodd eq_refl)) as HBh.
        assert (HU : 2 * B / 2 = B) by (rewrite Z.mul_comm; apply Z.div_mul; lia). rewrite !HU.
        apply tuple4_eq.
        * apply (end_sub half ((B + 1) / 2) 1); [exact Hh|lia|exact Uh|lia].
        * apply (end_add half ((B + 1) / 2) 1); [exact Hh|lia|exact Uh|lia].
      + pose proof (half_even_base B (Hodd eq_refl)) as HBh.
        assert (HU : 2 * B / 2 = B) by (rewrite Z.mul_comm; apply Z.div_mul; lia). rewrite !HU.
        apply tuple4_eq.
        * apply (end_sub half ((B + 1) / 2) 1); [exact Hh|lia|exact Uh|lia].
        * apply (end_add half ((B + 1) / 2) 1); [exact Hh|lia|exact Uh|lia].
  Qed.

  (** a power of the base (repair of F07): towards zero the floats are B times denser, the code's
      towards_zero lowers that bound by one digit, and HalfEven includes the tie on that side iff B is even *)
  Lemma interval_asis_spec_pow : Z.abs sig = 1 -> forall md, known_float B md p sig = false ->
    match error_bounds_asis B md p sig ex with
    | Ok (l, r, il, ir) => (freduce (fsub v l), freduce (fadd v r), il, ir) = float_interval_spec B md p sig ex
    | _ => False
    end.
  Proof.
    intros Hone md Hk. unfold known_float, known_oddbase in Hk.
    assert (Hp0 : (p =? 0) = false) by (apply Z.eqb_neq; lia).
    rewrite Hp0 in Hk. cbn [negb andb orb] in Hk.
    assert (Hodd : is_half md = true -> Z.odd B = false).
    { intros Hh. rewrite Hh in Hk. cbn [andb orb] in Hk. exact Hk. }
    clear Hk.
    destruct (pw_true Hone) as (Hd1 & Hpw). pose proof v_pos as Hv. pose proof half_pos as Hh.
    pose proof half_units as Uh. pose proof half_tz_pos as Hhz.
    assert (Hnp : is_power_of_base sig = true) by (unfold is_power_of_base; apply Z.eqb_eq; exact Hone).
    unfold error_bounds_asis, float_interval_spec. rewrite Hp0, Hnp. cbv zeta.
    fold a. fold dg. rewrite Hpw.
    fold ulp half v ulp_tz half_tz. rewrite ?incl_even, ?mod2_even.
    replace (ex + dg - p - 1) with t by reflexivity.
    fold c. change (2 / 2) with 1.
    destruct (Z.ltb_spec sig 0) as [Hneg|Hpos].
    - pose proof (c_neg_sig Hneg) as Hc.
      destruct md; cbn [is_half] in *; try discriminate; rewrite ?neg_end;
        try (apply tuple4_eq; end_tac Hc).
      + pose proof (half_even_base B (Hodd eq_refl)) as HBh. pose proof (half_tz_units (Hodd eq_refl)) as Uhz.
        assert (HU : 2 * B / 2 = B) by (rewrite Z.mul_comm; apply Z.div_mul; lia). rewrite !HU.
        apply tuple4_eq.
        * apply (end_sub half ((B + 1) / 2) 1); [exact Hh|lia|exact Uh|lia].
        * apply (end_add half_tz 1 2); [exact Hhz|lia|exact Uhz|lia].
      + pose proof (half_even_base B (Hodd eq_refl)) as HBh. pose proof (half_tz_units (Hodd eq_refl)) as Uhz.
        assert (HU : 2 * B / 2 = B) by (rewrite Z.mul_comm; apply Z.div_mul; lia). rewrite !HU.
        apply tuple4_eq.
        * apply (end_sub half ((B + 1) / 2) 1); [exact Hh|lia|exact Uh|lia].
        * apply (end_add half_tz 1 2); [exact Hhz|lia|exact Uhz|lia].
    - pose proof (c_pos_sig Hpos) as Hc.
      destruct md; cbn [is_half] in *; try discriminate;
        try (apply tuple4_eq; end_tac Hc).
      + pose proof (half_even_base B (Hodd eq_refl)) as HBh. pose proof (half_tz_units (Hodd eq_refl)) as Uhz.
        assert (HU : 2 * B / 2 = B) by (rewrite Z.mul_comm; apply Z.div_mul; lia). rewrite !HU.
        apply tuple4_eq.
        * apply (end_sub half_tz 1 2); [exact Hhz|lia|exact Uhz|lia].
        * apply (end_add half ((B + 1) / 2) 1); [exact Hh|lia|exact Uh|lia].
      + pose proof (half_even_base B (Hodd eq_refl)) as HBh. pose proof (half_tz_units (Hodd eq_refl)) as Uhz.
        assert (HU : 2 * B / 2 = B) by (rewrite Z.mul_comm; apply Z.div_mul; lia). rewrite !HU.
        apply tuple4_eq.
        * apply (end_sub half_tz 1 2); [exact Hhz|lia|exact Uhz|lia].
        * apply (end_add half ((B + 1) / 2) 1); [exact Hh|lia|exact Uh|lia].
  Qed.

  Theorem interval_asis_spec : forall md, known_float B md p sig = false ->
    match error_bounds_asis B md p sig ex with
    | Ok (l, r, il, ir) => (freduce (fsub v l), freduce (fadd v r), il, ir) = float_interval_spec B md p sig ex
    | _ => False
    end.
  Proof.
    intros md Hk. destruct (Z.eq_dec (Z.abs sig) 1) as [E|NE].
    - exact (interval_asis_spec_pow E md Hk).
    - exact (interval_asis_spec_nonpow NE md Hk).
  Qed.
End Interval.

(** ** the headline: outside the open class F06 the code computes the specified optimum *)
Theorem simplest_from_float_asis_spec : forall B md p sig ex,
  2 <= B -> 0 < p -> sig mod B <> 0 -> ndigits B (Z.abs sig) <= p ->
  known_float B md p sig = false ->
  simplest_from_float_asis B md p sig ex = simplest_from_float_spec B md p sig ex.
Proof.
  intros B md p sig ex HB Hp Hnorm Hdg Hk.
  rewrite simplest_from_float_asis_closed by lia. rewrite (fnormalize_id B sig ex Hnorm).
  unfold simplest_from_float_spec.
  assert (Hs : (sig =? 0) = false) by (apply Z.eqb_neq; intros ->; apply Hnorm; apply Z.mod_0_l; lia). rewrite Hs.
  pose proof (interval_asis_spec B p sig ex HB Hp Hnorm Hdg md Hk) as H.
  destruct (error_bounds_asis B md p sig ex) as [[[[l r] il] ir]| | |]; try contradiction.
  rewrite H. destruct (simplest_closed _); reflexivity.
Qed.

(** unlimited precision (0): after the repair of F08 every mode's error_bounds follows the trait's
    contract and the code returns the float itself (as a canonical fraction) - no finding class left *)
Lemma fsub_zero : forall x, canon x -> freduce (fsub x (0, 1)) = x /\ freduce (fadd x (0, 1)) = x.
Proof.
  intros [n d] (Hd & Hg). cbn [fst snd] in *. unfold fsub, fadd. cbn [fst snd].
  replace (n * 1 - 0 * d) with n by ring. replace (n * 1 + 0 * d) with n by ring. replace (d * 1) with d by ring.
  split; apply freduce_coprime; exact Hg.
Qed.

Theorem simplest_from_float_asis_spec_unlimited_all : forall B md sig ex, 2 <= B -> sig mod B <> 0 ->
  simplest_from_float_asis B md 0 sig ex = simplest_from_float_spec B md 0 sig ex.
Proof.
  intros B md sig ex HB Hnorm.
  rewrite simplest_from_float_asis_closed by lia. rewrite (fnormalize_id B sig ex Hnorm).
  unfold simplest_from_float_spec, float_interval_spec.
  assert (Hs : (sig =? 0) = false) by (apply Z.eqb_neq; intros ->; apply Hnorm; apply Z.mod_0_l; lia). rewrite Hs.
  cbn [Z.eqb].
  pose proof (scaled_canon B sig ex 1 ltac:(lia) ltac:(lia)) as Cv.
  destruct (fsub_zero _ Cv) as (E1 & E2).
  unfold error_bounds_asis. cbn [Z.eqb].
  destruct md; rewrite E1, E2; destruct (simplest_closed _); reflexivity.
Qed.

Theorem simplest_from_float_asis_spec_unlimited : forall B md sig ex, 2 <= B -> sig mod B <> 0 ->
  known_float B md 0 sig = false ->
  simplest_from_float_asis B md 0 sig ex = simplest_from_float_spec B md 0 sig ex.
Proof. intros B md sig ex HB Hn _. apply simplest_from_float_asis_spec_unlimited_all; assumption. Qed.

Example simplest_from_float_unlimited_nonvacuous :
  simplest_from_float_asis 10 MUp 0 (-123) (-1) = Ok (Some (-123, 10)) /\ simplest_from_float_asis 3 MDown 0 7 2 = Ok (Some (63, 1)).
Proof. split; vm_compute; reflexivity. Qed.

Example simplest_from_float_asis_spec_nonvacuous :
  known_float 10 MHalfAway 3 133 = false /\ 133 mod 10 <> 0 /\ ndigits 10 133 <= 3 /\
  simplest_from_float_asis 10 MHalfAway 3 133 (-2) = Ok (Some (4, 3)) /\
  known_float 7 MDown 2 (-9) = false /\ simplest_from_float_asis 7 MDown 2 (-9) 0 = Ok (Some (-9, 1)) /\
  known_float 2 MHalfEven 3 5 = false /\ simplest_from_float_asis 2 MHalfEven 3 5 1 = Ok (Some (10, 1)) /\
  known_float 10 MHalfEven 4 15 = false /\ simplest_from_float_asis 10 MHalfEven 4 15 (-1) = Ok (Some (3, 2)).
Proof. repeat split; try (vm_compute; reflexivity); vm_compute; discriminate. Qed.
