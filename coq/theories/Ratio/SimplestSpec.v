(** C18 - rational approximation: SPECIFICATIONS (definitions only, executable).
    Fractions are pairs (n, d) of integers with d > 0 (the denominator 0 is used only inside the
    Stern-Brocot recursion to denote +infinity). *)
From Dashu Require Import Base.Prelude Ratio.BinIter Float.RoundSpec.
Open Scope Z_scope.

Definition frac := (Z * Z)%type.

Definition flt (x y : frac) : bool := fst x * snd y <? fst y * snd x.
Definition fle (x y : frac) : bool := fst x * snd y <=? fst y * snd x.
Definition feq (x y : frac) : bool := fst x * snd y =? fst y * snd x.
Definition fneg (x : frac) : frac := (- fst x, snd x).
Definition fabs (x : frac) : frac := (Z.abs (fst x), snd x).
Definition fadd (x y : frac) : frac := (fst x * snd y + fst y * snd x, snd x * snd y).
Definition fsub (x y : frac) : frac := (fst x * snd y - fst y * snd x, snd x * snd y).
Definition freduce (x : frac) : frac := let g := Z.gcd (fst x) (snd x) in (fst x / g, snd x / g).

(** the documented order of RBig::simplest_in: smaller denominator first, then smaller numerator
    magnitude, then positive before negative *)
Definition simpler (x y : frac) : bool :=
  match snd x ?= snd y with
  | Lt => true
  | Gt => false
  | Eq => match Z.abs (fst x) ?= Z.abs (fst y) with
          | Lt => true
          | Gt => false
          | Eq => (0 <? fst x) && (fst y <? 0)
          end
  end.

(** ** simplest fraction strictly between 0 <= a/b < c/d (d = 0: c/d = +infinity) *)
Definition itv := (Z * Z * Z * Z)%type.

Definition sb_F (k : itv -> result frac) (i : itv) : result frac :=
  let '(a, b, c, d) := i in
  let q := a / b in
  if (q + 1) * d <? c then Ok (q + 1, 1)
  else match k (d, c - q * d, b, a - q * b) with
       | Ok xy => Ok (q * fst xy + snd xy, fst xy)
       | e => e
       end.

Definition simplest_pos_fuel (p : positive) (i : itv) : result frac :=
  iter_pos sb_F p (fun _ => OutOfFuel) i.

Definition simplest_pos (l u : frac) : result frac :=
  simplest_pos_fuel (Z.to_pos (snd l + snd u + 1)) (fst l, snd l, fst u, snd u).

(** RBig::simplest_in(l, u): end points in either order; equal end points give the end point *)
Definition simplest_in_spec (l u : frac) : result frac :=
  if feq l u then Ok (freduce l)
  else
    let lo := if flt l u then l else u in
    let hi := if flt l u then u else l in
    if (fst lo <? 0) && (0 <? fst hi) then Ok (0, 1)
    else if 0 <=? fst lo then simplest_pos lo hi
    else match simplest_pos (fneg hi) (fneg lo) with Ok r => Ok (fneg r) | e => e end.

(** the simplest element of an interval with optional end points *)
Definition cinterval := (frac * frac * bool * bool)%type.
Definition pick (c : bool) (x best : frac) : frac := if c && simpler x best then x else best.
Definition simplest_closed (i : cinterval) : result frac :=
  let '(lo, hi, ilo, ihi) := i in
  match simplest_in_spec lo hi with
  | Ok r => Ok (pick ihi hi (pick ilo lo r))
  | e => e
  end.

(** ** Farey neighbours, judged through [simplest_in_spec]: r is the successor of x among the
    fractions of denominator <= L iff x < r, den r <= L and the simplest fraction strictly between
    x and r has a denominator > L. *)
Definition den_gt (lo hi : frac) (L : Z) : result bool :=
  match simplest_in_spec lo hi with
  | Ok r => Ok (L <? snd r)
  | Panic e => Panic e | Err e => Err e | OutOfFuel => OutOfFuel
  end.

Definition canonical (r : frac) : bool := (0 <? snd r) && (Z.gcd (fst r) (snd r) =? 1).

Definition next_up_check (x : frac) (L : Z) (r : frac) : result bool :=
  if canonical r && (snd r <=? L) && flt x r then den_gt x r L else Ok false.

Definition next_down_check (x : frac) (L : Z) (r : frac) : result bool :=
  if canonical r && (snd r <=? L) && flt r x then den_gt r x L else Ok false.

(** nearest for den x > L: r (den <= L) such that no fraction of denominator <= L is strictly
    closer to x; s is the sign of r - x *)
Definition nearest_check (x : frac) (L : Z) (r : frac) (s : sign) : result bool :=
  let mirror := fsub (2 * fst x, snd x) r in     (* 2x - r *)
  if canonical r && (snd r <=? L) then
    if flt x r then (match s with Positive => den_gt mirror r L | Negative => Ok false end)
    else if flt r x then (match s with Negative => den_gt r mirror L | Positive => Ok false end)
    else Ok false
  else Ok false.

(** ** rounding intervals *)
Fixpoint ndigits_fuel (fuel : nat) (B m : Z) : Z :=
  match fuel with
  | O => 0
  | S f => if m <? B then 1 else 1 + ndigits_fuel f B (m / B)
  end.
Definition ndigits (B m : Z) : Z :=
  if m <=? 0 then 0 else ndigits_fuel (Z.to_nat (Z.log2 m + 1)) B m.

(** N * B^e / den0 in lowest terms *)
Definition scaled (B N e den0 : Z) : frac :=
  if 0 <=? e then freduce (N * B ^ e, den0) else freduce (N, den0 * B ^ (- e)).

(** FBig value sig * B^ex with precision p > 0 (digits sig <= p), mode md: the set of rationals
    that round to it.  m = the p-digit significand, e = its exponent; unit = B^(e-1)/2. *)
Definition float_interval_spec (B : Z) (md : mode) (p sig ex : Z) : cinterval :=
  if p =? 0 then (scaled B sig ex 1, scaled B sig ex 1, true, true) else
  let a := Z.abs sig in
  let dg := ndigits B a in
  let m := a * B ^ (p - dg) in
  let e := ex + dg - p in
  let pw := m =? B ^ (p - 1) in
  let c := 2 * m * B in
  let U := 2 * B in
  let U' := if pw then 2 else 2 * B in
  let neg := sig <? 0 in
  let '(bl, ab, itz, iaw) :=
    match md with
    | MZero => (0, U, true, false)
    | MAway => (U', 0, false, true)
    | MUp => if neg then (0, U, true, false) else (U', 0, false, true)
    | MDown => if neg then (U', 0, false, true) else (0, U, true, false)
    | MHalfAway => (U' / 2, U / 2, true, false)
    | MHalfEven => (U' / 2, U / 2, (if pw then Z.even B else Z.even m), Z.even m)
    end in
  let lo_m := scaled B (c - bl) (e - 1) 2 in
  let hi_m := scaled B (c + ab) (e - 1) 2 in
  if neg then (fneg hi_m, fneg lo_m, iaw, itz) else (lo_m, hi_m, itz, iaw).

Definition simplest_from_float_spec (B : Z) (md : mode) (p sig ex : Z) : result (option frac) :=
  if sig =? 0 then Ok (Some (0, 1))
  else match simplest_closed (float_interval_spec B md p sig ex) with
       | Ok r => Ok (Some r)
       | Panic e => Panic e | Err e => Err e | OutOfFuel => OutOfFuel
       end.

(** x = N/d (d > 0, N <> 0) rounded to p digits in base B under mode md (value of the result);
    uses the shared rounding specification [spec_round] *)
Definition round_to_prec (B : Z) (md : mode) (p : Z) (x : frac) : frac :=
  let N := fst x in let d := snd x in
  let k0 := ndigits B (Z.abs N) - ndigits B d in
  (* k = floor(log_B |x|): B^k <= |x| *)
  let le_pow k := if 0 <=? k then d * B ^ k <=? Z.abs N else d <=? Z.abs N * B ^ (- k) in
  let k := if le_pow k0 then k0 else k0 - 1 in
  let e := k - p + 1 in
  let r := if 0 <=? e then spec_round md N (d * B ^ e) else spec_round md (N * B ^ (- e)) d in
  scaled B r e 1.

(** IEEE binary format with mb mantissa bits and eb exponent bits (round to nearest, ties to even) *)
Definition ieee_interval_spec (mb eb bits : Z) : option (option cinterval) :=
  let E := (bits / 2 ^ mb) mod 2 ^ eb in
  let M := bits mod 2 ^ mb in
  let neg := (bits / 2 ^ (mb + eb)) mod 2 =? 1 in
  if E =? 2 ^ eb - 1 then None
  else if (E =? 0) && (M =? 0) then Some None
  else
    let man := if E =? 0 then M else M + 2 ^ mb in
    let ex := (if E =? 0 then 1 else E) - (2 ^ (eb - 1) - 1) - mb in
    let c := 4 * man in
    let bl := if (M =? 0) && (2 <=? E) then 1 else 2 in
    let incl := Z.even man in
    let lo_m := scaled 2 (c - bl) (ex - 2) 1 in
    let hi_m := scaled 2 (c + 2) (ex - 2) 1 in
    Some (Some (if neg then (fneg hi_m, fneg lo_m, incl, incl) else (lo_m, hi_m, incl, incl))).

Definition simplest_from_ieee_spec (mb eb bits : Z) : result (option frac) :=
  match ieee_interval_spec mb eb bits with
  | None => Ok None
  | Some None => Ok (Some (0, 1))
  | Some (Some i) => match simplest_closed i with
                     | Ok r => Ok (Some r)
                     | Panic e => Panic e | Err e => Err e | OutOfFuel => OutOfFuel
                     end
  end.

Definition ieee_value (mb eb bits : Z) : frac :=
  let E := (bits / 2 ^ mb) mod 2 ^ eb in
  let M := bits mod 2 ^ mb in
  let neg := (bits / 2 ^ (mb + eb)) mod 2 =? 1 in
  let man := if E =? 0 then M else M + 2 ^ mb in
  let ex := (if E =? 0 then 1 else E) - (2 ^ (eb - 1) - 1) - mb in
  scaled 2 (if neg then - man else man) ex 1.

(** x = N/d (d > 0, N <> 0) rounded to the IEEE binary format with mb mantissa bits and eb exponent
    bits, ties to even, through the shared [spec_round]: p = mb + 1 digits in the normal range,
    fixed point (exponent emin) below it; None = overflow to infinity.  Used by the oracle to
    re-check [ieee_interval_spec] on every case (end points included iff they round to the float). *)
Definition ieee_round (mb eb : Z) (x : frac) : option frac :=
  let N := fst x in let d := snd x in
  let bias := 2 ^ (eb - 1) - 1 in
  let emin := 1 - bias - mb in
  let k0 := ndigits 2 (Z.abs N) - ndigits 2 d in
  let le_pow k := if 0 <=? k then d * 2 ^ k <=? Z.abs N else d <=? Z.abs N * 2 ^ (- k) in
  let k := if le_pow k0 then k0 else k0 - 1 in
  let e := Z.max (k - mb) emin in
  let r := if 0 <=? e then spec_round MHalfEven N (d * 2 ^ e) else spec_round MHalfEven (N * 2 ^ (- e)) d in
  let v := scaled 2 r e 1 in
  if 2 ^ (bias + 1) * snd v <=? Z.abs (fst v) then None else Some v.
