(** C05, rational part: repr_eq / repr_cmp of rational/src/cmp.rs (used by Relaxed and, for cmp, by RBig),
    the structural == / Hash of RBig.  Numerators and denominators are Z.  Definitions only. *)
From Dashu Require Import Base.Prelude.
Open Scope Z_scope.

Record qrepr := QR { qnum : Z; qden : Z }.

Definition bit_len (a : Z) : Z := if a =? 0 then 0 else Z.log2 (Z.abs a) + 1.

Definition sgn_eqb (a b : sign) : bool :=
  match a, b with Positive, Positive | Negative, Negative => true | _, _ => false end.

(** repr_eq::<ABS> *)
Definition q_repr_eq (abs : bool) (a b : qrepr) : bool :=
  if negb abs && negb (sgn_eqb (sign_of (qnum a)) (sign_of (qnum b))) then false
  else if qnum a =? 0 then qnum b =? 0
  else
    let n1d2_bits := bit_len (qnum a) + bit_len (qden b) in
    let n2d1_bits := bit_len (qnum b) + bit_len (qden a) in
    if Z.abs (n1d2_bits - n2d1_bits) >? 1 then false
    else Z.abs (qnum a * qden b) =? Z.abs (qnum b * qden a).

(** repr_cmp::<ABS>; the second bit-size test is transcribed as written
    ([rhs_bits < lhs_bits - 1], the same condition as the first: it can never fire) *)
Definition q_repr_cmp (abs : bool) (lhs rhs : qrepr) : comparison :=
  let step1 : bool + comparison :=
    if abs then inl false
    else match sign_of (qnum lhs), sign_of (qnum rhs) with
         | Positive, Positive => inl false
         | Positive, Negative => inr Gt
         | Negative, Positive => inr Lt
         | Negative, Negative => inl true
         end in
  match step1 with
  | inr c => c
  | inl negative =>
    if (qden lhs =? 1) && (qden rhs =? 1) then
      (if abs then Z.abs (qnum lhs) ?= Z.abs (qnum rhs) else qnum lhs ?= qnum rhs)
    else
      match qnum lhs =? 0, qnum rhs =? 0 with
      | true, true => Eq
      | true, false => Lt
      | false, true => Gt
      | false, false =>
        let lhs_bits := bit_len (qnum lhs) - bit_len (qden lhs) in
        let rhs_bits := bit_len (qnum rhs) - bit_len (qden rhs) in
        if lhs_bits >? rhs_bits + 1 then (if negative then Lt else Gt)
        else if rhs_bits <? lhs_bits - 1 then (if negative then Gt else Lt)
        else
          let n1d2 := qnum lhs * qden rhs in
          let n2d1 := qnum rhs * qden lhs in
          if abs then Z.abs n1d2 ?= Z.abs n2d1 else n1d2 ?= n2d1
      end
  end.

(** impl PartialEq for RBig: componentwise *)
Definition rbig_eq (a b : qrepr) : bool := (qnum a =? qnum b) && (qden a =? qden b).
(** impl AbsEq for RBig *)
Definition rbig_abs_eq (a b : qrepr) : bool := (Z.abs (qnum a) =? Z.abs (qnum b)) && (qden a =? qden b).
(** impl Hash for RBig: numerator.hash, denominator.hash: the hasher input is a function of the pair *)
Definition rbig_hash_input (a : qrepr) : Z * Z := (qnum a, qden a).

(** order and equality of the values n1/d1, n2/d2 (d > 0): cross multiplication *)
Definition qcmp_spec (a b : qrepr) : comparison := (qnum a * qden b) ?= (qnum b * qden a).
Definition qeq_spec (a b : qrepr) : bool := qnum a * qden b =? qnum b * qden a.
Definition qabs (a : qrepr) : qrepr := QR (Z.abs (qnum a)) (qden a).

(** the invariant of RBig (C04): positive denominator, lowest terms *)
Definition reduced (a : qrepr) : Prop := 0 < qden a /\ Z.gcd (qnum a) (qden a) = 1.
Definition reducedb (a : qrepr) : bool := (0 <? qden a) && (Z.gcd (qnum a) (qden a) =? 1).
(** what Relaxed guarantees: positive denominator, no common factor 2, zero is 0/1 *)
Definition relaxed_ok (a : qrepr) : bool :=
  (0 <? qden a) && (if qnum a =? 0 then qden a =? 1 else Z.odd (qnum a) || Z.odd (qden a)).
