(** C10: the as-is models of rational/src/round.rs (RatRoundModel.v) return the neighbour of n/d that
    their definition names, for every n and every d > 0; the answer depends on the value only
    (invariant under the reductions of RBig / Relaxed). *)
From Dashu Require Import Base.Prelude Float.RoundSpec Float.RoundTablesProof Float.RoundSpecProof
  Ratio.RatRoundModel.
Open Scope Z_scope.

Lemma quot_rem_facts n d : 0 < d ->
  n = d * Z.quot n d + Z.rem n d /\ Z.abs (Z.rem n d) < d /\
  (0 <= n -> 0 <= Z.rem n d) /\ (n <= 0 -> Z.rem n d <= 0).
Proof.
  intros Hd. pose proof (Z.quot_rem' n d). pose proof (Z.rem_bound_abs n d ltac:(lia)).
  split; [assumption|]. split; [lia|]. split; intros.
  - apply Z.rem_nonneg; lia.
  - apply Z.rem_nonpos; lia.
Qed.

Theorem rat_trunc_spec n d : rat_trunc n d = spec_round MZero n d.
Proof. reflexivity. Qed.

Theorem rat_floor_spec n d : 0 < d -> rat_floor n d = spec_round MDown n d.
Proof.
  intros Hd. unfold rat_floor. destruct (quot_rem_facts n d Hd) as (E & Hb & Hp & Hn).
  apply floor_unique; [exact Hd|].
  destruct (Z.ltb_spec (Z.rem n d) 0); destruct (Z.le_gt_cases 0 n); nia.
Qed.

Theorem rat_ceil_spec n d : 0 < d -> rat_ceil n d = spec_round MUp n d.
Proof.
  intros Hd. unfold rat_ceil. destruct (quot_rem_facts n d Hd) as (E & Hb & Hp & Hn).
  apply ceil_unique; [exact Hd|].
  destruct (Z.ltb_spec 0 (Z.rem n d)); destruct (Z.le_gt_cases 0 n); nia.
Qed.

Lemma half_away_nonneg a d : 0 <= a -> 0 < d ->
  (2 * a + d) / (2 * d) = a / d + (if 2 * (a mod d) >=? d then 1 else 0).
Proof.
  intros Ha Hd. pose proof (Z.div_mod a d ltac:(lia)) as E. pose proof (Z.mod_pos_bound a d Hd) as Hm.
  destruct (Z.geb_spec (2 * (a mod d)) d); symmetry.
  - apply Z.div_unique with (2 * (a mod d) - d); lia.
  - apply Z.div_unique with (2 * (a mod d) + d); lia.
Qed.

Theorem rat_round_spec n d : 0 < d -> rat_round n d = spec_round MHalfAway n d.
Proof.
  intros Hd. unfold rat_round. cbn [spec_round].
  rewrite Z.quot_div, Z.rem_mod by lia. rewrite (Z.sgn_pos d), (Z.abs_eq d) by lia.
  rewrite (half_away_nonneg (Z.abs n) d) by lia.
  pose proof (Z.mod_pos_bound (Z.abs n) d Hd) as Hm.
  destruct (Z.lt_trichotomy n 0) as [H|[H|H]].
  - rewrite (Z.sgn_neg n) by lia.
    replace (Z.abs (-1 * (Z.abs n mod d))) with (Z.abs n mod d) by lia.
    destruct (Z.geb_spec (2 * (Z.abs n mod d)) d); destruct (Z.leb_spec 0 n); lia.
  - subst n. cbn [Z.abs Z.sgn]. rewrite Z.mod_0_l, Z.div_0_l by lia. cbn.
    destruct (Z.geb_spec 0 d); lia.
  - rewrite (Z.sgn_pos n) by lia.
    replace (Z.abs (1 * (Z.abs n mod d))) with (Z.abs n mod d) by lia.
    destruct (Z.geb_spec (2 * (Z.abs n mod d)) d); destruct (Z.leb_spec 0 n); lia.
Qed.

(** fract = x - trunc x as an exact fraction, |fract| < 1, sign of x, lowest terms preserved *)
Theorem rat_fract_spec n d : 0 < d ->
  let '(fn, fd) := rat_fract n d in
  0 < fd /\ n * fd = rat_trunc n d * d * fd + fn * d /\ Z.abs fn < fd /\
  (0 <= n -> 0 <= fn) /\ (n <= 0 -> fn <= 0) /\ (Z.gcd n d = 1 -> Z.gcd fn fd = 1).
Proof.
  intros Hd. unfold rat_fract, rat_trunc, rq_zero. destruct (quot_rem_facts n d Hd) as (E & Hb & Hp & Hn).
  destruct (Z.eqb_spec (Z.rem n d) 0) as [R|R].
  - repeat split; try lia.
  - repeat split; try lia; try (intros; auto).
    rewrite Z.gcd_comm. rewrite <- (Z.gcd_add_mult_diag_r d (Z.rem n d) (Z.quot n d)).
    rewrite Z.gcd_comm. replace (Z.rem n d + Z.quot n d * d) with n by lia. assumption.
Qed.

Theorem rat_split_spec n d : rat_split n d = (rat_trunc n d, rat_fract n d).
Proof. reflexivity. Qed.

(** trunc + fract = x, in one line: n/d = t + fn/fd *)
Corollary rat_trunc_fract_sum n d : 0 < d ->
  let '(t, (fn, fd)) := rat_split n d in n * fd = (t * fd + fn) * d.
Proof.
  intros Hd. rewrite rat_split_spec. pose proof (rat_fract_spec n d Hd) as H.
  destruct (rat_fract n d) as [fn fd]. destruct H as (_ & H & _). lia.
Qed.

(* ------------------------------------------------------------------ value invariance *)

Theorem spec_round_scale m n d g : 0 < d -> 0 < g -> spec_round m (n * g) (d * g) = spec_round m n d.
Proof.
  intros Hd Hg.
  assert (Hdiv : forall x, (x * g) / (d * g) = x / d) by (intros; apply Z.div_mul_cancel_r; lia).
  assert (Hmod : (n * g) mod (d * g) = (n mod d) * g) by (apply Z.mul_mod_distr_r; lia).
  destruct m; cbn [spec_round].
  - apply Z.quot_mul_cancel_r; lia.
  - rewrite Hmod, Hdiv. rewrite Z.quot_mul_cancel_r by lia.
    rewrite Z.sgn_mul, (Z.sgn_pos g), Z.mul_1_r by lia.
    destruct (Z.eqb_spec (n mod d * g) 0), (Z.eqb_spec (n mod d) 0); try reflexivity; nia.
  - replace (- (n * g)) with ((- n) * g) by ring. rewrite Hdiv. reflexivity.
  - apply Hdiv.
  - rewrite Hmod, Hdiv. replace (2 * (n mod d * g)) with ((2 * (n mod d)) * g) by ring.
    rewrite <- (Zmult_compare_compat_r (2 * (n mod d)) d g) by lia. reflexivity.
  - rewrite Z.sgn_mul, (Z.sgn_pos g), Z.mul_1_r by lia. rewrite Z.abs_mul, (Z.abs_eq g) by lia.
    replace (2 * (Z.abs n * g) + d * g) with ((2 * Z.abs n + d) * g) by ring.
    replace (2 * (d * g)) with ((2 * d) * g) by ring. rewrite Z.div_mul_cancel_r by lia. reflexivity.
Qed.

(** RBig::from_parts (lowest terms) does not change any rounding *)
Theorem rat_reduce_round n d : 0 < d ->
  let '(n', d') := rat_reduce n d in 0 < d' /\ forall m, spec_round m n' d' = spec_round m n d.
Proof.
  intros Hd. unfold rat_reduce, rq_zero. destruct (Z.eqb_spec n 0) as [->|Hn].
  - split; [lia|]. intros m. rewrite <- (spec_round_scale m 0 1 d) by lia. f_equal; lia.
  - set (g := Z.gcd n d).
    assert (Hg : 0 < g).
    { pose proof (Z.gcd_nonneg n d). destruct (Z.eq_dec g 0) as [G|G]; [|unfold g in *; lia].
      apply Z.gcd_eq_0_l in G. contradiction. }
    destruct (Z.gcd_divide_l n d) as [a Ha]. destruct (Z.gcd_divide_r n d) as [b Hb]. fold g in Ha, Hb.
    assert (En : n / g = a) by (rewrite Ha; apply Z.div_mul; lia).
    assert (Ed : d / g = b) by (rewrite Hb; apply Z.div_mul; lia).
    rewrite En, Ed. assert (0 < b) by nia. split; [assumption|].
    intros m. rewrite Ha, Hb. symmetry. apply spec_round_scale; assumption.
Qed.

(** Relaxed::from_parts (common powers of two removed) does not change any rounding *)
Lemma strip2_round fuel : forall n d, 0 < d ->
  let '(n', d') := strip2 fuel n d in 0 < d' /\ forall m, spec_round m n' d' = spec_round m n d.
Proof.
  induction fuel as [|f IH]; intros n d Hd; cbn [strip2].
  - split; [assumption | reflexivity].
  - destruct (Z.even n && Z.even d) eqn:Ev; [|split; [assumption | reflexivity]].
    apply andb_prop in Ev. destruct Ev as [E1 E2].
    apply Z.even_spec in E1, E2. destruct E1 as [a ->], E2 as [b ->].
    replace (2 * a / 2) with a by (symmetry; rewrite Z.mul_comm; apply Z.div_mul; lia).
    replace (2 * b / 2) with b by (symmetry; rewrite Z.mul_comm; apply Z.div_mul; lia).
    specialize (IH a b ltac:(lia)). destruct (strip2 f a b) as [n' d']. destruct IH as [P R].
    split; [assumption|]. intros m. rewrite R.
    replace (2 * a) with (a * 2) by ring. replace (2 * b) with (b * 2) by ring.
    symmetry. apply spec_round_scale; lia.
Qed.

Theorem rat_reduce2_round n d : 0 < d ->
  let '(n', d') := rat_reduce2 n d in 0 < d' /\ forall m, spec_round m n' d' = spec_round m n d.
Proof.
  intros Hd. unfold rat_reduce2, rq_zero. destruct (Z.eqb_spec n 0) as [->|Hn].
  - split; [lia|]. intros m. rewrite <- (spec_round_scale m 0 1 d) by lia. f_equal; lia.
  - apply strip2_round. assumption.
Qed.

Example rat_round_examples :
  rat_round 5 2 = 3 /\ rat_round (-5) 2 = -3 /\ rat_round 7 3 = 2 /\ rat_floor (-1) 3 = -1 /\
  rat_ceil (-1) 3 = 0 /\ rat_split (-7) 2 = (-3, (-1, 2)) /\ rat_fract 6 3 = (0, 1).
Proof. repeat split. Qed.
