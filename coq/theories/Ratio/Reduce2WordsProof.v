(** C04 (round 3): the word-level [reduce2] equals the value-level transcription [reduce2_asis] (hence the
    generated [gen_reduce2]) for every word size, every sign and all well-formed magnitudes; the denominator
    it returns is again a well-formed magnitude. *)
From Dashu Require Import Base.Prelude Base.Words Int.BitsSpec Int.BitsWords Int.BitsKernels Int.BitsKernelsBase
  Int.BitsMiscProofs Int.BitsShiftProofs Int.BitsCountProofs
  Ratio.RatArithModel Ratio.RatArithRelaxed Ratio.RatioAtoms Ratio.Reduce2WordsModel.
Open Scope Z_scope.

Section Reduce2WordsProof.
Variable w : Z.
Hypothesis w_pos : 0 < w.

Lemma tz_signed s v : trailing_zeros_spec (signed s v) = trailing_zeros_spec v.
Proof. destruct s, v; reflexivity. Qed.

Lemma repr_is_zero_correct r : brepr_ok w r -> repr_is_zero r = (bvalue w r =? 0).
Proof.
  destruct r as [d|ws]; cbn [repr_is_zero bvalue]; [reflexivity|]. intros Hk. symmetry. apply Z.eqb_neq.
  pose proof (brepr_large_lower w w_pos ws Hk). pose proof (B_pos w w_pos). nia.
Qed.

Theorem reduce2_words_correct s nr dr : brepr_ok w nr -> brepr_ok w dr ->
  match reduce2_words w s nr dr with
  | Ok (n', d') => reduce2_asis (signed s (bvalue w nr), bvalue w dr) = Ok (n', bvalue w d') /\ brepr_ok w d'
  | Panic p => reduce2_asis (signed s (bvalue w nr), bvalue w dr) = Panic p
  | _ => False
  end.
Proof.
  intros Hn Hd. unfold reduce2_words, reduce2_asis.
  rewrite (repr_is_zero_correct nr Hn), tz_signed, !(repr_trailing_zeros_correct w w_pos) by assumption.
  assert (Ez : (signed s (bvalue w nr) =? 0) = (bvalue w nr =? 0)).
  { destruct s; unfold signed, sgnz; destruct (Z.eqb_spec (bvalue w nr) 0) as [->|N]; [reflexivity| |reflexivity|];
      apply Z.eqb_neq; lia. }
  rewrite Ez. destruct (bvalue w nr =? 0).
  { split; [reflexivity|]. cbn [brepr_ok]. pose proof (B_ge_2 w w_pos). nia. }
  unfold unwrap_or_default. destruct (trailing_zeros_spec (bvalue w dr)) as [dz|] eqn:Ed; [|reflexivity].
  set (nz := match trailing_zeros_spec (bvalue w nr) with Some k => k | None => 0 end).
  destruct (Z.ltb_spec 0 (Z.min nz dz)) as [Hz|Hz]; [|split; [reflexivity | exact Hd]].
  destruct (ibig_shr_asis_correct w w_pos s nr (Z.min nz dz) ltac:(lia) Hn) as (E1 & _ & _).
  destruct (repr_shr_correct w w_pos dr (Z.min nz dz) ltac:(lia) Hd) as [E2 K2].
  rewrite E1, E2. split; [reflexivity | exact K2].
Qed.

(** from the integers: the word-level Relaxed::from_parts is the value-level one *)
Theorem xfrom_parts_words_correct n d : 0 <= d -> xfrom_parts_words w n d = xfrom_parts_asis n d.
Proof.
  intros Hd. unfold xfrom_parts_words, xfrom_parts_asis. destruct (Z.eqb_spec d 0) as [|Hd0]; [reflexivity|].
  destruct (to_brepr_ok w w_pos (Z.abs n) (Z.abs_nonneg n)) as [Vn Kn].
  destruct (to_brepr_ok w w_pos d Hd) as [Vd Kd].
  pose proof (reduce2_words_correct (sign_of n) _ _ Kn Kd) as H. rewrite Vn, Vd in H.
  assert (En : signed (sign_of n) (Z.abs n) = n).
  { unfold signed, sign_of, sgnz. destruct (Z.ltb_spec n 0); lia. }
  rewrite En in H.
  destruct (reduce2_words w (sign_of n) (to_brepr w (Z.abs n)) (to_brepr w d)) as [[n' d']| | |];
    [destruct H as [H _]; symmetry; exact H | symmetry; exact H | contradiction | contradiction].
Qed.
End Reduce2WordsProof.

Example reduce2_words_ex :
  reduce2_words 8 Negative (BSmall 12) (BLarge [0; 0; 1]) = Ok (-3, BSmall 16384) /\
  reduce2_words 8 Negative (BLarge [0; 0; 0; 3]) (BLarge [0; 0; 16; 1]) = Ok (-48, BSmall 17).
Proof. split; vm_compute; reflexivity. Qed.
Example xfrom_parts_words_ex : xfrom_parts_words 8 (-12) 65536 = Ok (-3, 16384) /\ xfrom_parts_asis (-12) 65536 = Ok (-3, 16384).
Proof. split; vm_compute; reflexivity. Qed.
