(** C18 - the ErrorBounds table of float/src/round.rs, regenerated on every run
    (gen/ErrorBoundsTable.v, tools/translate_c18.py), evaluates to the hand-written as-is model
    [error_bounds_asis] for ALL inputs with a non-zero significand.  If an entry of the Rust table
    changes (a flag, ZERO <-> ulp, the half-ulp constant, the unlimited-precision guard), the
    regenerated table changes and [error_bounds_asis_eq_table] no longer compiles. *)
From Dashu Require Import Base.Prelude Float.RoundSpec Ratio.SimplestSpec Ratio.SimplestModel.
From DashuGen Require Import ErrorBoundsTable.
Open Scope Z_scope.

Definition error_bounds_table (md : mode) (B p sig dg : Z) : eb_term * eb_term * bool * bool :=
  match md with
  | MZero => error_bounds_Zero_gen B p sig dg
  | MAway => error_bounds_Away_gen B p sig dg
  | MUp => error_bounds_Up_gen B p sig dg
  | MDown => error_bounds_Down_gen B p sig dg
  | MHalfEven => error_bounds_HalfEven_gen B p sig dg
  | MHalfAway => error_bounds_HalfAway_gen B p sig dg
  end.

(** (significand of half_ulp, amount taken off the exponent of f.ulp()) of the mode's body;
    (1, 0) where the body has no half_ulp *)
Definition error_bounds_half (md : mode) (B : Z) : Z * Z :=
  match md with
  | MZero => error_bounds_Zero_half_gen B
  | MAway => error_bounds_Away_half_gen B
  | MUp => error_bounds_Up_half_gen B
  | MDown => error_bounds_Down_half_gen B
  | MHalfEven => error_bounds_HalfEven_half_gen B
  | MHalfAway => error_bounds_HalfAway_half_gen B
  end.

(** value of one bound.  FBig::ulp panics at unlimited precision (float/src/fbig.rs), and half_ulp
    starts as f.ulp(); otherwise ulp = B^(ex + digits - p); towards_zero(f, t) lowers the exponent
    of t by the regenerated amount [eb_towards_zero_drop_gen] (a zero stays zero). *)
Fixpoint eb_term_base (t : eb_term) : eb_term :=
  match t with EBTowardsZero t' => eb_term_base t' | _ => t end.
Fixpoint eb_term_drop (B sig : Z) (t : eb_term) : Z :=
  match t with EBTowardsZero t' => eb_term_drop B sig t' + eb_towards_zero_drop_gen B sig | _ => 0 end.

Definition eb_term_eval (B : Z) (md : mode) (p sig ex : Z) (t : eb_term) : result frac :=
  let e := ex + ndigits B (Z.abs sig) - p in
  let d := eb_term_drop B sig t in
  match eb_term_base t with
  | EBUlp => if p =? 0 then Panic UnlimitedPrecision else Ok (scaled B 1 (e - d) 1)
  | EBHalfUlp =>
      if p =? 0 then Panic UnlimitedPrecision
      else Ok (scaled B (fst (error_bounds_half md B)) (e - snd (error_bounds_half md B) - d) 1)
  | _ => Ok (0, 1)
  end.

(** a row: the components of the returned tuple are evaluated left to right *)
Definition eb_eval (B : Z) (md : mode) (p sig ex : Z) (row : eb_term * eb_term * bool * bool)
    : result (frac * frac * bool * bool) :=
  let '(l, r, incl_l, incl_r) := row in
  rbind (eb_term_eval B md p sig ex l) (fun lv =>
  rbind (eb_term_eval B md p sig ex r) (fun rv => Ok (lv, rv, incl_l, incl_r))).

Lemma eb_sign_of_pos n : 0 < n -> sign_of n = Positive.
Proof. intros H. unfold sign_of. destruct (Z.ltb_spec n 0); [lia | reflexivity]. Qed.
Lemma eb_sign_of_neg n : n < 0 -> sign_of n = Negative.
Proof. intros H. unfold sign_of. destruct (Z.ltb_spec n 0); [reflexivity | lia]. Qed.

Theorem error_bounds_asis_eq_table : forall B md p sig ex, sig <> 0 ->
  error_bounds_asis B md p sig ex
  = eb_eval B md p sig ex (error_bounds_table md B p sig (ndigits B (Z.abs sig))).
Proof.
  intros B md p sig ex Hs.
  assert (Hz : (sig =? 0) = false) by (apply Z.eqb_neq; exact Hs).
  destruct md;
    cbv beta iota delta [error_bounds_asis error_bounds_table error_bounds_half is_power_of_base
      error_bounds_Zero_gen error_bounds_Away_gen error_bounds_Up_gen error_bounds_Down_gen
      error_bounds_HalfEven_gen error_bounds_HalfAway_gen
      error_bounds_Zero_half_gen error_bounds_Away_half_gen error_bounds_Up_half_gen
      error_bounds_Down_half_gen error_bounds_HalfEven_half_gen error_bounds_HalfAway_half_gen];
    rewrite ?Hz;
    destruct (Z.eqb_spec p 0) as [Hp | Hp];
    try (cbv beta iota delta [eb_eval eb_term_eval eb_term_base eb_term_drop rbind]; reflexivity);
    (destruct (Z.ltb_spec sig 0) as [Hn | Hn];
     [ rewrite ?(eb_sign_of_neg sig Hn) | rewrite ?(eb_sign_of_pos sig ltac:(lia)) ]);
    cbv beta iota zeta delta [eb_eval eb_term_eval eb_term_base eb_term_drop rbind eb_sign_eqb fst snd
      eb_towards_zero_drop_gen eb_is_power_of_base_gen];
    rewrite ?(proj2 (Z.eqb_neq p 0) Hp), ?Z.sub_0_r, ?Z.add_0_l;
    reflexivity.
Qed.

(** non-vacuity: 101b * 2^1 at precision 3 in base 2, HalfEven: half ulp = 1 * 2^(1+3-3-1) = 1,
    odd significand of full precision => ties excluded; both sides computed *)
Example error_bounds_asis_eq_table_ex :
  error_bounds_asis 2 MHalfEven 3 5 1 = Ok ((1, 1), (1, 1), false, false)
  /\ eb_eval 2 MHalfEven 3 5 1 (error_bounds_table MHalfEven 2 3 5 (ndigits 2 (Z.abs 5)))
     = Ok ((1, 1), (1, 1), false, false).
Proof. split; vm_compute; reflexivity. Qed.

(** a power of the base: 10^1 with one digit, HalfAway: half an ulp = 5 above, 5/10 below *)
Example error_bounds_asis_eq_table_pow_ex :
  error_bounds_asis 10 MHalfAway 1 1 1 = Ok ((1, 2), (5, 1), true, false)
  /\ eb_eval 10 MHalfAway 1 1 1 (error_bounds_table MHalfAway 10 1 1 (ndigits 10 (Z.abs 1)))
     = Ok ((1, 2), (5, 1), true, false).
Proof. split; vm_compute; reflexivity. Qed.
