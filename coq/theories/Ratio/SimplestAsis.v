(** C18 - the as-is model of RBig::simplest_in (sign dispatch, abs, swap, two-sided continued
    fraction loop, debug assertion, unsigned_abs * sign, reduce) equals the specification for ALL
    end points: no panic, no OutOfFuel. *)
From Dashu Require Import Base.Prelude Ratio.BinIter Ratio.SimplestSpec Ratio.SimplestModel Ratio.SimplestProof.
Open Scope Z_scope.

Definition asis_go (l u : frac) (sg : sign) : result frac :=
  let lower := fabs l in
  let upper := fabs u in
  match fst lower * snd upper ?= fst upper * snd lower with
  | Eq => Ok (freduce (signed sg (fst lower), snd lower))
  | c =>
      let lo := match c with Gt => upper | _ => lower end in
      let hi := match c with Gt => lower | _ => upper end in
      match cf_loop lo hi with
      | Ok nd =>
          if sign_eqb (sign_of (fst nd)) (sign_of (snd nd))
          then Ok (freduce (signed sg (Z.abs (fst nd)), Z.abs (snd nd)))
          else Panic Undocumented
      | e => e
      end
  end.

Lemma simplest_in_asis_unfold : forall l u, simplest_in_asis l u =
  if fst l =? 0 then asis_go l u (sign_of (fst u))
  else if (fst u =? 0) || sign_eqb (sign_of (fst l)) (sign_of (fst u)) then asis_go l u (sign_of (fst l))
  else Ok (0, 1).
Proof. reflexivity. Qed.

Lemma freduce_coprime : forall x y, Z.gcd x y = 1 -> freduce (x, y) = (x, y).
Proof. intros x y H. unfold freduce. cbn [fst snd]. rewrite H, !Z.div_1_r. reflexivity. Qed.

(** what the code after the loop makes of the loop's result *)
Lemma asis_post_loop : forall lo hi sg, pos_itv lo hi ->
  exists r, simplest_pos lo hi = Ok r /\
    match cf_loop lo hi with
    | Ok nd =>
        if sign_eqb (sign_of (fst nd)) (sign_of (snd nd))
        then Ok (freduce (signed sg (Z.abs (fst nd)), Z.abs (snd nd)))
        else Panic Undocumented
    | e => e
    end = Ok (match sg with Positive => r | Negative => fneg r end).
Proof.
  intros lo hi sg H. destruct (simplest_pos_correct lo hi H) as ([x y] & Hr & Hmin).
  exists (x, y). split; [exact Hr|]. rewrite (cf_loop_spec lo hi H), Hr.
  pose proof (pos_itv_wf _ _ H) as Hwf.
  destruct (minimal_pos _ _ Hwf Hmin) as (Hx & Hy). pose proof (minimal_coprime _ _ Hwf Hmin) as Hg.
  cbn [fst snd] in *. unfold sign_of.
  destruct (Z.ltb_spec x 0); [lia|]. destruct (Z.ltb_spec y 0); [lia|]. cbn [sign_eqb].
  rewrite !Z.abs_eq by lia. unfold signed, sgnz, fneg. cbn [fst snd]. destruct sg.
  - rewrite Z.mul_1_l. rewrite freduce_coprime by exact Hg. reflexivity.
  - replace (-1 * x) with (- x) by ring. rewrite freduce_coprime by (rewrite Z.gcd_opp_l; exact Hg). reflexivity.
Qed.

Lemma go_nonneg : forall a b c d, 0 < b -> 0 < d -> 0 <= a -> 0 <= c ->
  asis_go (a, b) (c, d) Positive = simplest_in_spec (a, b) (c, d).
Proof.
  intros a b c d Hb Hd Ha Hc. unfold asis_go, fabs, simplest_in_spec, feq, flt. cbn [fst snd].
  rewrite !Z.abs_eq by lia.
  destruct (Z.compare_spec (a * d) (c * b)) as [E|L|G].
  - rewrite (proj2 (Z.eqb_eq _ _) E). unfold signed, sgnz. rewrite Z.mul_1_l. reflexivity.
  - destruct (Z.eqb_spec (a * d) (c * b)); [lia|]. destruct (Z.ltb_spec (a * d) (c * b)); [|lia]. cbn [fst snd].
    destruct (Z.ltb_spec a 0); [lia|]. cbn [andb]. destruct (Z.leb_spec 0 a); [|lia].
    destruct (asis_post_loop (a, b) (c, d) Positive) as (r & Hr & Hpost).
    { unfold pos_itv. cbn [fst snd]. repeat split; lia. }
    rewrite Hpost, Hr. reflexivity.
  - destruct (Z.eqb_spec (a * d) (c * b)); [lia|]. destruct (Z.ltb_spec (a * d) (c * b)); [lia|]. cbn [fst snd].
    destruct (Z.ltb_spec c 0); [lia|]. cbn [andb]. destruct (Z.leb_spec 0 c); [|lia].
    destruct (asis_post_loop (c, d) (a, b) Positive) as (r & Hr & Hpost).
    { unfold pos_itv. cbn [fst snd]. repeat split; lia. }
    rewrite Hpost, Hr. reflexivity.
Qed.

Lemma go_nonpos : forall a b c d, 0 < b -> 0 < d -> a <= 0 -> c <= 0 ->
  asis_go (a, b) (c, d) Negative = simplest_in_spec (a, b) (c, d).
Proof.
  intros a b c d Hb Hd Ha Hc. unfold asis_go, fabs, simplest_in_spec, feq, flt. cbn [fst snd].
  rewrite !Z.abs_neq by lia.
  destruct (Z.compare_spec (- a * d) (- c * b)) as [E|L|G].
  - destruct (Z.eqb_spec (a * d) (c * b)); [|lia]. unfold signed, sgnz.
    replace (-1 * - a) with a by ring. reflexivity.
  - destruct (Z.eqb_spec (a * d) (c * b)); [lia|]. destruct (Z.ltb_spec (a * d) (c * b)); [lia|]. cbn [fst snd].
    assert (c < 0) by nia.
    destruct (Z.ltb_spec 0 a); [lia|]. rewrite Bool.andb_false_r. destruct (Z.leb_spec 0 c); [lia|].
    destruct (asis_post_loop (- a, b) (- c, d) Negative) as (r & Hr & Hpost).
    { unfold pos_itv. cbn [fst snd]. repeat split; lia. }
    rewrite Hpost. change (fneg (a, b)) with (- a, b). change (fneg (c, d)) with (- c, d). rewrite Hr. reflexivity.
  - destruct (Z.eqb_spec (a * d) (c * b)); [lia|]. destruct (Z.ltb_spec (a * d) (c * b)); [|lia]. cbn [fst snd].
    assert (a < 0) by nia.
    destruct (Z.ltb_spec 0 c); [lia|]. rewrite Bool.andb_false_r. destruct (Z.leb_spec 0 a); [lia|].
    destruct (asis_post_loop (- c, d) (- a, b) Negative) as (r & Hr & Hpost).
    { unfold pos_itv. cbn [fst snd]. repeat split; lia. }
    rewrite Hpost. change (fneg (a, b)) with (- a, b). change (fneg (c, d)) with (- c, d). rewrite Hr. reflexivity.
Qed.

Theorem simplest_in_asis_spec : forall l u, 0 < snd l -> 0 < snd u ->
  simplest_in_asis l u = simplest_in_spec l u.
Proof.
  intros [a b] [c d] Hb Hd. cbn [fst snd] in *. rewrite simplest_in_asis_unfold. cbn [fst snd]. unfold sign_of.
  destruct (Z.eqb_spec a 0) as [Ea|Na].
  - destruct (Z.ltb_spec c 0); [apply go_nonpos|apply go_nonneg]; lia.
  - destruct (Z.eqb_spec c 0) as [Ec|Nc]; cbn [orb].
    + destruct (Z.ltb_spec a 0); [apply go_nonpos|apply go_nonneg]; lia.
    + destruct (Z.ltb_spec a 0), (Z.ltb_spec c 0); cbn [sign_eqb].
      * apply go_nonpos; lia.
      * unfold simplest_in_spec, feq, flt. cbn [fst snd].
        destruct (Z.eqb_spec (a * d) (c * b)); [nia|]. destruct (Z.ltb_spec (a * d) (c * b)); [|nia]. cbn [fst snd].
        destruct (Z.ltb_spec a 0); [|lia]. destruct (Z.ltb_spec 0 c); [|lia]. reflexivity.
      * unfold simplest_in_spec, feq, flt. cbn [fst snd].
        destruct (Z.eqb_spec (a * d) (c * b)); [nia|]. destruct (Z.ltb_spec (a * d) (c * b)); [nia|]. cbn [fst snd].
        destruct (Z.ltb_spec c 0); [|lia]. destruct (Z.ltb_spec 0 a); [|lia]. reflexivity.
      * apply go_nonneg; lia.
Qed.

(** the pinned sign shortcut (finding F02, repaired): it answered 0 for (-1/2, 0) *)
Lemma simplest_in_pinned_refuted :
  simplest_in_pinned_shortcut (-1, 2) (0, 1) = true /\ simplest_in_spec (-1, 2) (0, 1) = Ok (-1, 3).
Proof. split; vm_compute; reflexivity. Qed.

(** equal end points: the end point itself (in lowest terms) *)
Lemma simplest_in_spec_equal : forall l u, fval_eq l u -> simplest_in_spec l u = Ok (freduce l).
Proof. intros l u E. unfold simplest_in_spec, feq. unfold fval_eq in E. rewrite (proj2 (Z.eqb_eq _ _) E). reflexivity. Qed.

Theorem simplest_in_asis_equal : forall l u, 0 < snd l -> 0 < snd u -> fval_eq l u ->
  simplest_in_asis l u = Ok (freduce l).
Proof. intros l u Hl Hu E. rewrite simplest_in_asis_spec by assumption. apply simplest_in_spec_equal, E. Qed.

(** the headline statement for the as-is model: for distinct end points (either order, any
    signs) the code returns a canonical fraction strictly between them than which nothing strictly
    between is simpler - no panic, no OutOfFuel *)
Theorem simplest_in_asis_optimal : forall l u, 0 < snd l -> 0 < snd u -> ~ fval_eq l u ->
  exists r, simplest_in_asis l u = Ok r /\ Z.gcd (fst r) (snd r) = 1 /\
    ((fval_lt l u /\ simplest_between l u r) \/ (fval_lt u l /\ simplest_between u l r)).
Proof. intros l u Hl Hu Hne. rewrite simplest_in_asis_spec by assumption. apply simplest_in_spec_correct; assumption. Qed.

Example simplest_in_examples :
  simplest_in_asis (1234, 5678) (1235, 5679) = Ok (5, 23) /\
  simplest_in_asis (-1, 2) (0, 1) = Ok (-1, 3) /\
  simplest_in_asis (3, 1) (-2, 1) = Ok (0, 1) /\
  simplest_in_asis (7, 2) (7, 2) = Ok (7, 2) /\
  simplest_in_asis (6, 1) (5, 1) = Ok (11, 2).
Proof. repeat split; vm_compute; reflexivity. Qed.
