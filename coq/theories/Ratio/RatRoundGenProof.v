(** C10 round 3: the six bodies of rational/src/round.rs `impl Repr`, REGENERATED from the source on every run
    (coq/gen/RatioSmall.v, tools/translate_c10_r3.py), equal the hand-written models of RatRoundModel.v and hence
    the specification: an edit of the Rust bodies breaks one of these proofs. *)
From Dashu Require Import Base.Prelude Float.RoundSpec Ratio.RatRoundModel Ratio.RatRoundProof.
From DashuGen Require Import RoundTables RatioSmall.
Open Scope Z_scope.

Lemma shiftl1 a : Z.shiftl a 1 = 2 * a.
Proof. rewrite Z.shiftl_mul_pow2 by lia. change (2 ^ 1) with 2. lia. Qed.

Theorem rat_gen_is_model n d :
  rat_split_at_point_gen n d = rat_split n d /\ rat_ceil_gen n d = rat_ceil n d /\
  rat_floor_gen n d = rat_floor n d /\ rat_trunc_gen n d = rat_trunc n d /\
  rat_fract_gen n d = rat_fract n d /\ rat_round_gen n d = rat_round n d.
Proof.
  unfold rat_split_at_point_gen, rat_ceil_gen, rat_floor_gen, rat_trunc_gen, rat_fract_gen, rat_round_gen,
    rat_split, rat_ceil, rat_floor, rat_trunc, rat_fract, rat_round, rq_zero_gen, rq_zero.
  repeat split.
  - rewrite Z.gtb_ltb. reflexivity.
  - rewrite shiftl1. destruct (2 * Z.abs (Z.rem n d) >=? d); [|reflexivity].
    unfold sign_of. rewrite Z.leb_antisym. destruct (n <? 0); reflexivity.
Qed.

(** the regenerated bodies meet the specification (d > 0: the invariant of Repr) *)
Theorem rat_gen_spec n d : 0 < d ->
  rat_trunc_gen n d = spec_round MZero n d /\ rat_floor_gen n d = spec_round MDown n d /\
  rat_ceil_gen n d = spec_round MUp n d /\ rat_round_gen n d = spec_round MHalfAway n d /\
  rat_split_at_point_gen n d = (rat_trunc_gen n d, rat_fract_gen n d) /\
  (let '(fn, fd) := rat_fract_gen n d in
   0 < fd /\ n * fd = rat_trunc_gen n d * d * fd + fn * d /\ Z.abs fn < fd /\
   (0 <= n -> 0 <= fn) /\ (n <= 0 -> fn <= 0) /\ (Z.gcd n d = 1 -> Z.gcd fn fd = 1)).
Proof.
  intros Hd. destruct (rat_gen_is_model n d) as (S & C & F & T & R & Rd).
  rewrite S, C, F, T, R, Rd.
  split; [apply rat_trunc_spec|]. split; [apply rat_floor_spec; exact Hd|].
  split; [apply rat_ceil_spec; exact Hd|]. split; [apply rat_round_spec; exact Hd|].
  split; [apply rat_split_spec|]. apply rat_fract_spec; exact Hd.
Qed.

Example rat_gen_example :
  rat_round_gen (-7) 2 = -4 /\ rat_round_gen (-1) 2 = -1 /\ rat_ceil_gen (-7) 2 = -3 /\ rat_floor_gen (-7) 2 = -4 /\
  rat_split_at_point_gen 22 7 = (3, (1, 7)) /\ rat_fract_gen 14 7 = (0, 1).
Proof. repeat split; vm_compute; reflexivity. Qed.
