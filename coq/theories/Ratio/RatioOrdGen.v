(** C05, rational part: the comparison code REGENERATED from rational/src/cmp.rs and rbig.rs (DashuGen.CmpGen: whole
    bodies of repr_eq, repr_cmp, RBig::eq / abs_eq / hash, the const ABS of every impl, the derive lists) is the
    hand-written as-is model of RatioOrdModel.v for all inputs.  On top: RBig and Relaxed as the traits dispatch them.
      Relaxed: #[derive(PartialEq, Eq, PartialOrd, Ord)] over Repr  ->  repr_eq::<false>, repr_cmp::<false>: by VALUE
               (cross multiplication), on any positive denominators, reduced or not; no Hash impl at all.
      RBig:    hand-written structural ==, Hash of the two fields, derived Ord over Repr -> repr_cmp::<false>.
    Consequences proved: == / cmp of Relaxed are Qeq_bool / Qcompare; on reduced fractions RBig's structural == and
    Relaxed's == by value agree, cmp = Equal iff ==, equal values hash alike; RBig x Relaxed AbsOrd is the order of
    the absolute values. *)
From Coq Require Import QArith.
From Dashu Require Import Base.Prelude Ratio.RatioOrdModel Ratio.RatioOrdProofs Float.FloatOrdDispatch.
From DashuGen Require Import CmpGen.
Open Scope Z_scope.

Theorem q_repr_eq_gen_is_model abs a b : q_repr_eq_gen abs a b = q_repr_eq abs a b.
Proof. cbv beta iota zeta delta [q_repr_eq_gen q_repr_eq]. split_scrutinees. Qed.

Theorem q_repr_cmp_gen_is_model abs l r : q_repr_cmp_gen abs l r = q_repr_cmp abs l r.
Proof. cbv beta iota zeta delta [q_repr_cmp_gen q_repr_cmp]. split_scrutinees. Qed.

Theorem rbig_gen_is_model a b :
  rbig_eq_gen a b = rbig_eq a b /\ rbig_abs_eq_gen a b = rbig_abs_eq a b /\
  rbig_hash_fields_gen a = [fst (rbig_hash_input a); snd (rbig_hash_input a)].
Proof. repeat split. Qed.

(* ---------------------------------------------------------------- the trait impls as dispatched *)

(** Relaxed: derived from Repr *)
Definition relaxed_eq (a b : qrepr) : bool := q_repr_eq_gen qrepr_eq_abs_gen a b.
Definition relaxed_cmp (a b : qrepr) : comparison := q_repr_cmp_gen qrepr_cmp_abs_gen a b.
Definition relaxed_partial_cmp (a b : qrepr) : option comparison := Some (relaxed_cmp a b).
Definition relaxed_abs_eq (a b : qrepr) : bool := q_repr_eq_gen qrepr_abs_eq_abs_gen a b.
(** RBig: own ==, derived Ord *)
Definition rbig_cmp (a b : qrepr) : comparison := q_repr_cmp_gen qrepr_cmp_abs_gen a b.
(** AbsOrd between RBig / Relaxed in the four pairings *)
Definition rat_abs_cmp (a b : qrepr) : comparison := q_repr_cmp_gen rat_abs_cmp_abs_gen a b.

(** the derives this reading relies on are the ones in the source *)
Theorem derive_lists : relaxed_derives_eq_gen = true /\ relaxed_derives_ord_gen = true /\ rbig_derives_ord_gen = true /\
  rbig_derives_eq_gen = false /\ relaxed_has_hash_gen = false.
Proof. repeat split. Qed.

Definition Qof (a : qrepr) : Q := Qmake (qnum a) (Z.to_pos (qden a)).

Lemma qeq_spec_Q a b : 0 < qden a -> 0 < qden b -> qeq_spec a b = Qeq_bool (Qof a) (Qof b).
Proof.
  intros Ha Hb. unfold qeq_spec, Qeq_bool, Qof. cbn [Qnum Qden]. rewrite !Z2Pos.id by assumption.
  destruct (Z.eqb_spec (qnum a * qden b) (qnum b * qden a)) as [E|N]; symmetry.
  - apply Zeq_is_eq_bool. exact E.
  - apply not_true_is_false. intros H. apply N. apply Zeq_is_eq_bool. exact H.
Qed.

(** Relaxed: == and cmp by value on ANY representations (common factors allowed) *)
Theorem relaxed_by_value a b : 0 < qden a -> 0 < qden b ->
  relaxed_eq a b = Qeq_bool (Qof a) (Qof b) /\
  relaxed_cmp a b = Qcompare (Qof a) (Qof b) /\
  relaxed_partial_cmp a b = Some (Qcompare (Qof a) (Qof b)) /\
  (relaxed_cmp a b = Eq <-> relaxed_eq a b = true) /\
  relaxed_abs_eq a b = qeq_spec (qabs a) (qabs b) /\
  rat_abs_cmp a b = qcmp_spec (qabs a) (qabs b).
Proof.
  intros Ha Hb. unfold relaxed_partial_cmp, relaxed_eq, relaxed_cmp, relaxed_abs_eq, rat_abs_cmp.
  unfold qrepr_eq_abs_gen, qrepr_cmp_abs_gen, qrepr_abs_eq_abs_gen, rat_abs_cmp_abs_gen.
  rewrite !(q_repr_eq_gen_is_model false), !(q_repr_eq_gen_is_model true), !(q_repr_cmp_gen_is_model false), !(q_repr_cmp_gen_is_model true).
  rewrite (q_repr_eq_correct a b Ha Hb), (q_repr_cmp_correct a b Ha Hb), (q_repr_eq_abs_correct a b Ha Hb),
    (q_repr_cmp_abs_correct a b Ha Hb).
  rewrite <- (qeq_spec_Q a b Ha Hb). unfold Qof. rewrite <- (qcmp_spec_Q a b Ha Hb).
  repeat split; try reflexivity.
  - intros E. unfold qcmp_spec in E. apply Z.compare_eq in E. unfold qeq_spec. apply Z.eqb_eq. exact E.
  - intros E. unfold qeq_spec in E. apply Z.eqb_eq in E. unfold qcmp_spec. rewrite E. apply Z.compare_refl.
Qed.

(** scaling numerator and denominator by a common factor changes nothing that == / cmp of Relaxed can see *)
Theorem relaxed_scale_invariant a b t : 0 < qden a -> 0 < qden b -> 0 < t ->
  let a' := QR (qnum a * t) (qden a * t) in
  relaxed_eq a' b = relaxed_eq a b /\ relaxed_cmp a' b = relaxed_cmp a b /\ relaxed_eq a' a = true.
Proof.
  intros Ha Hb Ht a'. assert (0 < qden a') as Ha' by (unfold a'; cbn [qden]; nia).
  destruct (relaxed_by_value a' b Ha' Hb) as (E1 & C1 & _). destruct (relaxed_by_value a b Ha Hb) as (E2 & C2 & _).
  destruct (relaxed_by_value a' a Ha' Ha) as (E3 & _).
  rewrite E1, C1, E2, C2, E3. rewrite <- !qeq_spec_Q by assumption. unfold Qof. rewrite <- !qcmp_spec_Q by assumption.
  unfold qeq_spec, qcmp_spec, a'. cbn [qnum qden].
  assert (P : qnum a * t * qden b = qnum a * qden b * t) by ring.
  assert (P2 : qnum b * (qden a * t) = qnum b * qden a * t) by ring.
  split; [|split].
  - rewrite P, P2. destruct (Z.eqb_spec (qnum a * qden b) (qnum b * qden a)) as [E|N]; [rewrite E; apply Z.eqb_refl|].
    apply Z.eqb_neq. intros E. apply N. nia.
  - rewrite P, P2. symmetry. apply Zmult_compare_compat_r. lia.
  - apply Z.eqb_eq. ring.
Qed.

(** RBig and Relaxed agree: on reduced fractions the structural == of RBig is the == by value of Relaxed, its cmp
    (the same repr_cmp) returns Equal exactly then, and equal values feed the hasher the same fields *)
Theorem rbig_consistent_with_relaxed a b : reduced a -> reduced b ->
  rbig_eq_gen a b = relaxed_eq a b /\
  rbig_eq_gen a b = Qeq_bool (Qof a) (Qof b) /\
  rbig_cmp a b = Qcompare (Qof a) (Qof b) /\
  (rbig_cmp a b = Eq <-> rbig_eq_gen a b = true) /\
  (rbig_eq_gen a b = true -> rbig_hash_fields_gen a = rbig_hash_fields_gen b) /\
  rbig_abs_eq_gen a b = relaxed_abs_eq a b.
Proof.
  intros Ra Rb. pose proof (proj1 Ra) as Ha. pose proof (proj1 Rb) as Hb.
  destruct (relaxed_by_value a b Ha Hb) as (E & C & _ & I & AE & _).
  destruct (rbig_gen_is_model a b) as (G1 & G2 & _).
  rewrite G1, G2, (rbig_eq_correct a b Ra Rb), (rbig_abs_eq_correct a b Ra Rb), AE.
  unfold rbig_cmp. fold (relaxed_cmp a b). rewrite C, E, <- (qeq_spec_Q a b Ha Hb). clear G1 G2.
  rewrite (qeq_spec_Q a b Ha Hb) in *. rewrite <- C, <- E.
  repeat split; try reflexivity; try apply I.
  intros Q. rewrite E, <- (qeq_spec_Q a b Ha Hb) in Q.
  pose proof (rbig_hash_correct a b Ra Rb Q) as H. unfold rbig_hash_input in H. inversion H.
  unfold rbig_hash_fields_gen. congruence.
Qed.

(** non-vacuity: 6/4 and 3/2 as Relaxed are ==, cmp Equal; as reduced RBig values 3/2, 3/2 agree on every impl *)
Example relaxed_by_value_example :
  relaxed_eq (QR 6 4) (QR 3 2) = true /\ relaxed_cmp (QR 6 4) (QR 3 2) = Eq /\ relaxed_cmp (QR (-6) 4) (QR 3 2) = Lt /\
  rbig_eq_gen (QR 3 2) (QR 3 2) = true /\ rbig_eq_gen (QR 6 4) (QR 3 2) = false /\ reduced (QR 3 2).
Proof. vm_compute. repeat split; intros; discriminate. Qed.
