(** C10: as-is models of rational/src/round.rs Repr::{split_at_point, ceil, floor, trunc, fract, round}.
    A rational is (n, d) with d > 0; IBig div_rem truncates (C02).  Definitions only. *)
From Dashu Require Import Base.Prelude.
Open Scope Z_scope.

Definition rq_zero : Z * Z := (0, 1).

Definition rat_split (n d : Z) : Z * (Z * Z) :=
  let q := Z.quot n d in let r := Z.rem n d in
  (q, if r =? 0 then rq_zero else (r, d)).

Definition rat_ceil (n d : Z) : Z :=
  let q := Z.quot n d in let r := Z.rem n d in if 0 <? r then q + 1 else q.

Definition rat_floor (n d : Z) : Z :=
  let q := Z.quot n d in let r := Z.rem n d in if r <? 0 then q - 1 else q.

Definition rat_trunc (n d : Z) : Z := Z.quot n d.

Definition rat_fract (n d : Z) : Z * Z :=
  let r := Z.rem n d in if r =? 0 then rq_zero else (r, d).

Definition rat_round (n d : Z) : Z :=
  let q := Z.quot n d in let r := Z.rem n d in
  if 2 * Z.abs r >=? d then (if 0 <=? n then q + 1 else q - 1) else q.

(** the constructors' reductions: RBig::from_parts (lowest terms), Relaxed::from_parts (reduce2) *)
Definition rat_reduce (n d : Z) : Z * Z :=
  if n =? 0 then rq_zero else let g := Z.gcd n d in (n / g, d / g).

Fixpoint strip2 (fuel : nat) (n d : Z) : Z * Z :=
  match fuel with
  | O => (n, d)
  | S f => if Z.even n && Z.even d then strip2 f (n / 2) (d / 2) else (n, d)
  end.
Definition rat_reduce2 (n d : Z) : Z * Z :=
  if n =? 0 then rq_zero else strip2 (Z.to_nat (Z.log2 d + 1)) n d.
