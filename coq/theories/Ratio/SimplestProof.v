(** C18 - simplest_in: the Stern-Brocot recursion returns the fraction strictly inside the
    interval whose numerator and denominator are BOTH minimal (hence nothing inside is simpler),
    it never runs out of fuel, and the as-is continued-fraction loop of Repr::simplest_in
    computes the same fraction. *)
From Dashu Require Import Base.Prelude Ratio.BinIter Ratio.SimplestSpec Ratio.SimplestModel.
From Coq Require Import Znumtheory.
Open Scope Z_scope.

(** ** intervals 0 <= a/b < c/d (d = 0: +infinity) *)
Definition wf_itv (i : itv) : Prop :=
  let '(a, b, c, d) := i in 0 <= a /\ 0 < b /\ 0 <= d /\ 0 < c /\ a * d < c * b.

Definition inside (i : itv) (r : frac) : Prop :=
  let '(a, b, c, d) := i in 0 < snd r /\ a * snd r < fst r * b /\ fst r * d < c * snd r.

Definition minimal (i : itv) (r : frac) : Prop :=
  inside i r /\ forall s, inside i s -> fst r <= fst s /\ snd r <= snd s.

Definition sb_nat (n : nat) (i : itv) : result frac := iter_nat sb_F n (fun _ => OutOfFuel) i.

Lemma sb_F_ext : forall k k', (forall a, k a = k' a) -> forall a, sb_F k a = sb_F k' a.
Proof.
  intros k k' H [[[a b] c] d]. unfold sb_F.
  destruct ((a / b + 1) * d <? c); [reflexivity|]. rewrite H. reflexivity.
Qed.

Lemma simplest_pos_fuel_nat : forall p i, simplest_pos_fuel p i = sb_nat (Pos.to_nat p) i.
Proof. intros. unfold simplest_pos_fuel, sb_nat. apply iter_pos_nat. exact sb_F_ext. Qed.

Lemma sb_nat_S : forall n i, sb_nat (S n) i = sb_F (sb_nat n) i.
Proof. intros. unfold sb_nat. cbn [iter_nat]. apply sb_F_ext. reflexivity. Qed.

Lemma floor_bounds : forall a b, 0 <= a -> 0 < b -> 0 <= a / b /\ (a / b) * b <= a < (a / b + 1) * b.
Proof.
  intros a b Ha Hb. pose proof (Z.div_pos a b Ha Hb).
  pose proof (Z.mul_div_le a b Hb). pose proof (Z.mul_succ_div_gt a b Hb). split; [assumption|]. split; lia.
Qed.

(** the recursive step keeps the interval well formed and lowers b + d *)
Lemma wf_step : forall a b c d, wf_itv (a, b, c, d) -> c <= (a / b + 1) * d ->
  wf_itv (d, c - (a / b) * d, b, a - (a / b) * b) /\ (c - (a / b) * d) + (a - (a / b) * b) < b + d.
Proof.
  intros a b c d (Ha & Hb & Hd & Hc & Hlt) Hge. cbn [wf_itv].
  destruct (floor_bounds a b Ha Hb) as (Hq & Hq1 & Hq2). set (q := a / b) in *.
  assert (q * d < c) by nia.
  repeat split; try lia; nia.
Qed.

Theorem sb_nat_correct : forall n i, wf_itv i ->
  (let '(a, b, c, d) := i in (Z.to_nat (b + d) < n)%nat) ->
  exists r, sb_nat n i = Ok r /\ minimal i r.
Proof.
  induction n as [|n IH]; intros [[[a b] c] d] Hwf Hfuel; [lia|].
  rewrite sb_nat_S. unfold sb_F.
  pose proof Hwf as (Ha & Hb & Hd & Hc & Hlt).
  destruct (floor_bounds a b Ha Hb) as (Hq & Hq1 & Hq2).
  destruct (Z.ltb_spec ((a / b + 1) * d) c) as [Hbase|Hrec].
  - (* q + 1 lies inside *)
    exists (a / b + 1, 1). split; [reflexivity|]. set (q := a / b) in *. split.
    + cbn [inside fst snd]. lia.
    + intros [n' m'] (Hm & H1 & H2). cbn [fst snd] in *. split; [|lia]. nia.
  - destruct (wf_step a b c d Hwf Hrec) as (Hwf' & Hdec). set (q := a / b) in *.
    destruct (IH (d, c - q * d, b, a - q * b) Hwf') as ([x y] & Hr & (Hin & Hmin)).
    { cbn [wf_itv] in Hwf'. lia. }
    rewrite Hr. cbn [fst snd]. exists (q * x + y, x). split; [reflexivity|].
    cbn [inside fst snd] in Hin. destruct Hin as (Hy & H1 & H2).
    assert (Hqd : q * d < c) by nia.
    assert (Hx : 0 < x) by nia.
    split.
    + cbn [inside fst snd]. repeat split; nia.
    + intros [n' m'] (Hm & H3 & H4). cbn [fst snd] in *.
      assert (Hqm : q * m' < n') by nia.
      destruct (Hmin (m', n' - q * m')) as (Hx' & Hy').
      { cbn [inside fst snd]. repeat split; nia. }
      cbn [fst snd] in *. split; nia.
Qed.

(** a minimal fraction is positive and in lowest terms *)
Lemma minimal_pos : forall i r, wf_itv i -> minimal i r -> 0 < fst r /\ 0 < snd r.
Proof.
  intros [[[a b] c] d] [x y] (Ha & Hb & Hd & Hc & Hlt) ((Hy & H1 & H2) & _). cbn [fst snd] in *. split; nia.
Qed.

Lemma minimal_coprime : forall i r, wf_itv i -> minimal i r -> Z.gcd (fst r) (snd r) = 1.
Proof.
  intros i [x y] Hwf Hmin. destruct (minimal_pos _ _ Hwf Hmin) as (Hx & Hy). cbn [fst snd] in *.
  destruct i as [[[a b] c] d]. destruct Hwf as (Ha & Hb & Hd & Hc & Hlt).
  destruct Hmin as ((_ & H1 & H2) & Hmin). cbn [fst snd] in *.
  set (g := Z.gcd x y).
  assert (Hg : 0 < g) by (pose proof (Z.gcd_nonneg x y); assert (g <> 0) by (unfold g; intros E; apply Z.gcd_eq_0_l in E; lia); unfold g in *; lia).
  destruct (Z.gcd_divide_l x y) as [kx Hkx]. destruct (Z.gcd_divide_r x y) as [ky Hky]. fold g in Hkx, Hky.
  destruct (Hmin (kx, ky)) as (Hle & _).
  { cbn [inside fst snd]. repeat split; nia. }
  cbn [fst snd] in Hle. nia.
Qed.

Lemma minimal_unique : forall i r s, minimal i r -> minimal i s -> r = s.
Proof.
  intros i [x y] [x' y'] (Hin & Hmin) (Hin' & Hmin').
  destruct (Hmin _ Hin'), (Hmin' _ Hin). cbn [fst snd] in *. f_equal; lia.
Qed.

(** *** the specification on positive intervals *)
Definition pos_itv (l u : frac) : Prop := 0 <= fst l /\ 0 < snd l /\ 0 < snd u /\ fst l * snd u < fst u * snd l.

Lemma pos_itv_wf : forall l u, pos_itv l u -> wf_itv (fst l, snd l, fst u, snd u).
Proof. intros [a b] [c d] (Ha & Hb & Hd & Hlt). cbn [fst snd wf_itv] in *. repeat split; try lia; nia. Qed.

Theorem simplest_pos_correct : forall l u, pos_itv l u ->
  exists r, simplest_pos l u = Ok r /\ minimal (fst l, snd l, fst u, snd u) r.
Proof.
  intros l u H. unfold simplest_pos. rewrite simplest_pos_fuel_nat.
  apply sb_nat_correct; [apply pos_itv_wf, H|].
  destruct H as (_ & Hb & Hd & _). rewrite <- Z2Nat.inj_pos, Z2Pos.id by lia. lia.
Qed.

(** ** the as-is loop: Moebius accumulation of the same recursion *)
Definition cf_nat (n : nat) (s : cfst) : result frac := iter_nat cf_F n (fun _ => OutOfFuel) s.

Lemma cf_F_ext : forall k k', (forall a, k a = k' a) -> forall a, cf_F k a = cf_F k' a.
Proof.
  intros k k' H [[[[[[[n0 d0] n1] d1] nl] dl] nr] dr]. unfold cf_F.
  destruct (dl =? 0); [reflexivity|]. destruct (dr <? nr - Z.quot nl dl * dr); [reflexivity|]. apply H.
Qed.

Lemma cf_nat_S : forall n s, cf_nat (S n) s = cf_F (cf_nat n) s.
Proof. intros. unfold cf_nat. cbn [iter_nat]. apply cf_F_ext. reflexivity. Qed.

Definition moebius (n0 d0 n1 d1 : Z) (r : result frac) : result frac :=
  match r with Ok xy => Ok (n0 * fst xy + n1 * snd xy, d0 * fst xy + d1 * snd xy) | e => e end.

Theorem cf_nat_moebius : forall n n0 d0 n1 d1 a b c d, wf_itv (a, b, c, d) ->
  cf_nat n (n0, d0, n1, d1, a, b, c, d) = moebius n0 d0 n1 d1 (sb_nat n (a, b, c, d)).
Proof.
  induction n as [|n IH]; intros n0 d0 n1 d1 a b c d Hwf; [reflexivity|].
  rewrite cf_nat_S, sb_nat_S. unfold cf_F, sb_F.
  pose proof Hwf as (Ha & Hb & Hd & Hc & Hlt).
  destruct (Z.eqb_spec b 0) as [|_]; [lia|].
  rewrite Z.quot_div_nonneg by lia. rewrite Z.rem_mod_nonneg by lia.
  set (q := a / b).
  assert (Hmod : a mod b = a - q * b) by (unfold q; pose proof (Z.div_mod a b); lia).
  destruct (Z.ltb_spec d (c - q * d)) as [H1|H1]; destruct (Z.ltb_spec ((q + 1) * d) c) as [H2|H2]; try lia.
  - cbn [moebius fst snd]. f_equal. f_equal; ring.
  - destruct (wf_step a b c d Hwf H2) as (Hwf' & _). fold q in Hwf'.
    rewrite Hmod. rewrite IH by exact Hwf'.
    destruct (sb_nat n (d, c - q * d, b, a - q * b)) as [[x y]| | |]; cbn [moebius fst snd]; try reflexivity.
    f_equal. f_equal; ring.
Qed.

Lemma cf_loop_nat : forall l u, cf_loop l u =
  cf_nat (Pos.to_nat (Z.to_pos (snd l + snd u + 1))) (1, 0, 0, 1, fst l, snd l, fst u, snd u).
Proof. intros. unfold cf_loop, cf_nat. apply iter_pos_nat. exact cf_F_ext. Qed.

Lemma cf_loop_spec : forall l u, pos_itv l u -> cf_loop l u = simplest_pos l u.
Proof.
  intros l u H. rewrite cf_loop_nat. unfold simplest_pos. rewrite simplest_pos_fuel_nat.
  rewrite cf_nat_moebius by (apply pos_itv_wf, H).
  destruct (sb_nat _ _) as [[x y]| | |]; cbn [moebius fst snd]; try reflexivity.
  f_equal. f_equal; ring.
Qed.

(** ** RBig::simplest_in: declarative correctness of the specification *)
Definition fval_lt (x y : frac) : Prop := fst x * snd y < fst y * snd x.
Definition fval_eq (x y : frac) : Prop := fst x * snd y = fst y * snd x.

(** r is the simplest fraction strictly between lo and hi *)
Definition simplest_between (lo hi r : frac) : Prop :=
  0 < snd r /\ fval_lt lo r /\ fval_lt r hi /\
  forall s, 0 < snd s -> fval_lt lo s -> fval_lt s hi -> ~ fval_eq s r -> simpler r s = true.

Lemma simpler_of_minimal : forall x y n m, 0 < x -> x <= n -> y <= m -> n * y <> x * m -> simpler (x, y) (n, m) = true.
Proof.
  intros x y n m Hx Hn Hm Hne. unfold simpler. cbn [fst snd].
  destruct (Z.compare_spec y m) as [E|L|G]; [subst m|reflexivity|lia].
  destruct (Z.compare_spec (Z.abs x) (Z.abs n)) as [E|L|G]; [|reflexivity|lia].
  exfalso. apply Hne. assert (n = x) by lia. subst. ring.
Qed.

Lemma simpler_neg : forall x y n m, 0 < x -> 0 < n -> simpler (- x, y) (- n, m) = simpler (x, y) (n, m).
Proof.
  intros. unfold simpler. cbn [fst snd]. rewrite !Z.abs_opp.
  destruct (y ?= m); try reflexivity. destruct (Z.compare_spec (Z.abs x) (Z.abs n)); try reflexivity.
  destruct (Z.ltb_spec 0 (- x)), (Z.ltb_spec (- n) 0), (Z.ltb_spec 0 x), (Z.ltb_spec n 0); cbn; try reflexivity; lia.
Qed.

Theorem simplest_in_spec_correct : forall l u, 0 < snd l -> 0 < snd u -> ~ fval_eq l u ->
  exists r, simplest_in_spec l u = Ok r /\ Z.gcd (fst r) (snd r) = 1 /\
    ((fval_lt l u /\ simplest_between l u r) \/ (fval_lt u l /\ simplest_between u l r)).
Proof.
  intros l u Hl Hu Hne. unfold simplest_in_spec, feq, flt.
  destruct (Z.eqb_spec (fst l * snd u) (fst u * snd l)) as [E|Hneq]; [elim Hne; exact E|].
  assert (Hgen : forall lo hi, 0 < snd lo -> 0 < snd hi -> fval_lt lo hi ->
    exists r, (if (fst lo <? 0) && (0 <? fst hi) then Ok (0, 1)
               else if 0 <=? fst lo then simplest_pos lo hi
               else match simplest_pos (fneg hi) (fneg lo) with Ok r => Ok (fneg r) | e => e end) = Ok r
              /\ Z.gcd (fst r) (snd r) = 1 /\ simplest_between lo hi r).
  { clear. intros [a b] [c d] Hb Hd Hlt. unfold fval_lt in Hlt. cbn [fst snd] in *.
    destruct (Z.ltb_spec a 0) as [Ha|Ha]; [destruct (Z.ltb_spec 0 c) as [Hc|Hc]|]; cbn [andb].
    - (* straddling: 0 *)
      exists (0, 1). split; [reflexivity|]. split; [reflexivity|].
      unfold simplest_between, fval_lt, fval_eq. cbn [fst snd]. repeat split; try lia.
      intros [n m] Hm _ _ Hn0. cbn [fst snd] in *. unfold simpler. cbn [fst snd].
      destruct (Z.compare_spec 1 m) as [E|L|G]; [subst m|reflexivity|lia].
      destruct (Z.compare_spec (Z.abs 0) (Z.abs n)) as [E|L|G]; [|reflexivity|lia].
      exfalso. apply Hn0. lia.
    - (* both <= 0 : mirror *)
      destruct (Z.leb_spec 0 a) as [|_]; [lia|].
      destruct (simplest_pos_correct (fneg (c, d)) (fneg (a, b))) as ([x y] & Hr & Hmin).
      { unfold pos_itv, fneg. cbn [fst snd]. repeat split; lia. }
      rewrite Hr. exists (fneg (x, y)). split; [reflexivity|].
      assert (Hwf : wf_itv (fst (fneg (c, d)), snd (fneg (c, d)), fst (fneg (a, b)), snd (fneg (a, b)))).
      { apply pos_itv_wf. unfold pos_itv, fneg. cbn [fst snd]. repeat split; lia. }
      pose proof (minimal_pos _ _ Hwf Hmin) as (Hx & Hy).
      pose proof (minimal_coprime _ _ Hwf Hmin) as Hg.
      unfold fneg in *. cbn [fst snd] in *. split; [rewrite Z.gcd_opp_l; exact Hg|].
      destruct Hmin as ((_ & H1 & H2) & Hmin). cbn [fst snd] in *.
      unfold simplest_between, fval_lt, fval_eq. cbn [fst snd]. repeat split; try lia.
      intros [n m] Hm H3 H4 Hn0. cbn [fst snd] in *.
      destruct (Hmin (- n, m)) as (Hxn & Hym). { cbn [inside fst snd]. repeat split; lia. }
      cbn [fst snd] in *. replace n with (- (- n)) by lia. rewrite simpler_neg by lia.
      apply simpler_of_minimal; lia.
    - destruct (Z.leb_spec 0 a) as [_|]; [|lia].
      destruct (simplest_pos_correct (a, b) (c, d)) as ([x y] & Hr & Hmin).
      { unfold pos_itv. cbn [fst snd]. repeat split; lia. }
      rewrite Hr. exists (x, y). split; [reflexivity|].
      assert (Hwf : wf_itv (a, b, c, d)). { apply (pos_itv_wf (a, b) (c, d)). unfold pos_itv. cbn [fst snd]. repeat split; lia. }
      pose proof (minimal_pos _ _ Hwf Hmin) as (Hx & Hy).
      pose proof (minimal_coprime _ _ Hwf Hmin) as Hg. cbn [fst snd] in *. split; [exact Hg|].
      destruct Hmin as ((_ & H1 & H2) & Hmin). cbn [fst snd] in *.
      unfold simplest_between, fval_lt, fval_eq. cbn [fst snd]. repeat split; try lia.
      intros [n m] Hm H3 H4 Hn0. cbn [fst snd] in *.
      destruct (Hmin (n, m)) as (Hxn & Hym). { cbn [inside fst snd]. repeat split; lia. }
      cbn [fst snd] in *. apply simpler_of_minimal; lia. }
  destruct (Z.ltb_spec (fst l * snd u) (fst u * snd l)) as [Hlt|Hge].
  - destruct (Hgen l u Hl Hu Hlt) as (r & Hr & Hg & Hs). exists r. split; [exact Hr|]. split; [exact Hg|]. left. split; assumption.
  - assert (Hlt : fval_lt u l) by (unfold fval_lt; lia).
    destruct (Hgen u l Hu Hl Hlt) as (r & Hr & Hg & Hs). exists r. split; [exact Hr|]. split; [exact Hg|]. right. split; assumption.
Qed.
