(** C04: rational arithmetic of dashu-ratio (RBig = always in lowest terms, Relaxed = only common powers
    of two removed).  DEFINITIONS ONLY (proofs: RatArithCanon.v, RatArithProofs.v, RatArithHistory.v).

    A rational is a pair (numerator : Z, denominator : Z); IBig/UBig are used through their Z-level
    specifications (C01/C02/C09/C12: +,-,*, truncating / and %, Euclidean forms, gcd, trailing_zeros, >>).

    [*_spec]  what the property demands: the exact mathematical rational, in canonical form
    [*_asis]  transcription of rational/src/{repr,add,mul,div,rbig,sign,round,parse}.rs, RBig flavour
    [x*_asis] the same for the Relaxed flavour                                                        *)
From Dashu Require Import Base.Prelude Int.BitsSpec.
Open Scope Z_scope.

Definition rat := (Z * Z)%type.

(** the invariant of RBig (rational/src/repr.rs): positive denominator, lowest terms; zero is 0/1 *)
Definition Inv (x : rat) : Prop := 0 < snd x /\ Z.gcd (fst x) (snd x) = 1.
Definition invb (x : rat) : bool := (0 <? snd x) && (Z.gcd (fst x) (snd x) =? 1).
(** what Relaxed keeps: positive denominator (and no common factor two; zero is 0/1) *)
Definition RInv (x : rat) : Prop := 0 < snd x.
Definition RInv2 (x : rat) : Prop :=
  0 < snd x /\ (Z.even (fst x) && Z.even (snd x) = false) /\ (fst x = 0 -> snd x = 1).
(** equality of values by cross multiplication *)
Definition veq (x y : rat) : Prop := fst x * snd y = fst y * snd x.
Definition veqb (x y : rat) : bool := fst x * snd y =? fst y * snd x.

(* ================================================================================================
   Specification: the unique canonical representative of n/d (d > 0)
   ================================================================================================ *)
Definition canon (n d : Z) : rat := let g := Z.gcd n d in (n / g, d / g).

(** nearest integer to l/r (r > 0), ties away from zero *)
Definition rha (l r : Z) : Z := Z.sgn l * ((2 * Z.abs l + r) / (2 * r)).
(** Euclidean quotient and remainder: l = r * ediv l r + emod l r, 0 <= emod l r < |r| *)
Definition ediv (l r : Z) : Z := Z.sgn r * (l / Z.abs r).
Definition emod (l r : Z) : Z := l mod Z.abs r.

Inductive binop := OAdd | OSub | OMul | ODiv | ORem | ORemE.
Inductive unop := UNeg | UAbs | UInv | USqr | UCubic | USignum | UFract.
(** rational (op) integer and integer (op) rational *)
Inductive intop := IAdd | ISub | IMul | IDiv | IRsub | IRdiv.

Definition bin_spec (o : binop) (x y : rat) : result rat :=
  let '(a, b) := x in let '(c, d) := y in
  match o with
  | OAdd => Ok (canon (a * d + c * b) (b * d))
  | OSub => Ok (canon (a * d - c * b) (b * d))
  | OMul => Ok (canon (a * c) (b * d))
  | ODiv => if c =? 0 then Panic DivideBy0 else Ok (canon (a * d * Z.sgn c) (b * Z.abs c))
  | ORem => if c =? 0 then Panic DivideBy0 else
            let l := a * d in let r := b * Z.abs c in Ok (canon (l - r * rha l r) (b * d))
  | ORemE => if c =? 0 then Panic DivideBy0 else Ok (canon (emod (a * d) (b * c)) (b * d))
  end.

Definition dive_spec (x y : rat) : result Z :=
  let '(a, b) := x in let '(c, d) := y in
  if c =? 0 then Panic DivideBy0 else Ok (ediv (a * d) (b * c)).

Definition divreme_spec (x y : rat) : result (Z * rat) :=
  rbind (dive_spec x y) (fun q => rbind (bin_spec ORemE x y) (fun r => Ok (q, r))).

Definition un_spec (o : unop) (x : rat) : result rat :=
  let '(a, b) := x in
  match o with
  | UNeg => Ok (canon (- a) b)
  | UAbs => Ok (canon (Z.abs a) b)
  | UInv => if a =? 0 then Panic DivideBy0 else Ok (canon (Z.sgn a * b) (Z.abs a))
  | USqr => Ok (canon (a * a) (b * b))
  | UCubic => Ok (canon (a * a * a) (b * b * b))
  | USignum => Ok (Z.sgn a, 1)
  | UFract => Ok (canon (Z.rem a b) b)
  end.

Definition pow_spec (x : rat) (e : Z) : rat := canon (fst x ^ e) (snd x ^ e).

Definition int_spec (o : intop) (x : rat) (i : Z) : result rat :=
  let '(a, b) := x in
  match o with
  | IAdd => Ok (canon (a + b * i) b)
  | ISub => Ok (canon (a - b * i) b)
  | IRsub => Ok (canon (b * i - a) b)
  | IMul => Ok (canon (a * i) b)
  | IDiv => if i =? 0 then Panic DivideBy0 else Ok (canon (a * Z.sgn i) (b * Z.abs i))
  | IRdiv => if a =? 0 then Panic DivideBy0 else Ok (canon (b * i * Z.sgn a) (Z.abs a))
  end.

Definition mulsign_spec (s : sign) (x : rat) : rat := canon (sgnz s * fst x) (snd x).

Definition from_parts_spec (n d : Z) : result rat :=
  if d =? 0 then Panic DivideBy0 else Ok (canon n d).
Definition from_parts_signed_spec (n d : Z) : result rat :=
  if d =? 0 then Panic DivideBy0 else Ok (canon (n * Z.sgn d) (Z.abs d)).
Definition from_parts_const_spec (s : sign) (n d : Z) : result rat :=
  if d =? 0 then Panic DivideBy0 else Ok (canon (sgnz s * n) d).
(** text "num/den" whose parts denote the integers n and d: a zero denominator is refused *)
Definition parse_spec (n d : Z) : result rat :=
  if d =? 0 then Err 0 else Ok (canon (n * Z.sgn d) (Z.abs d)).

Definition trunc_spec (x : rat) : Z := Z.quot (fst x) (snd x).
Definition floor_spec (x : rat) : Z := fst x / snd x.
Definition ceil_spec (x : rat) : Z := - ((- fst x) / snd x).
Definition round_spec (x : rat) : Z := rha (fst x) (snd x).
Definition split_spec (x : rat) : Z * rat := (trunc_spec x, canon (Z.rem (fst x) (snd x)) (snd x)).

(* ================================================================================================
   As-is model, shared pieces (rational/src/repr.rs)
   ================================================================================================ *)
(** [Repr::reduce] *)
Definition reduce_asis (x : rat) : rat :=
  let '(n, d) := x in
  if n =? 0 then (0, 1)
  else let g := Z.gcd n d in (Z.quot n g, Z.quot d g).

(** [Repr::reduce_with_hint] *)
Definition reduce_with_hint_asis (x : rat) (hint : Z) : rat :=
  let '(n, d) := x in
  if n =? 0 then (0, 1)
  else let g := Z.gcd (Z.gcd hint n) d in (Z.quot n g, Z.quot d g).

(** [Repr::reduce2]: [denominator.trailing_zeros().unwrap()] panics on a zero denominator *)
Definition reduce2_asis (x : rat) : result rat :=
  let '(n, d) := x in
  if n =? 0 then Ok (0, 1)
  else
    let n_zeros := match trailing_zeros_spec n with Some k => k | None => 0 end in
    match trailing_zeros_spec d with
    | None => Panic Undocumented
    | Some d_zeros =>
        let zeros := Z.min n_zeros d_zeros in
        if 0 <? zeros then Ok (Z.shiftr n zeros, Z.shiftr d zeros) else Ok (n, d)
    end.

(** [RBig::from_parts], [Relaxed::from_parts] *)
Definition from_parts_asis (n d : Z) : result rat :=
  if d =? 0 then Panic DivideBy0 else Ok (reduce_asis (n, d)).
Definition xfrom_parts_asis (n d : Z) : result rat :=
  if d =? 0 then Panic DivideBy0 else reduce2_asis (n, d).

(** [from_parts_signed]: [numerator * sign(denominator)], magnitude of the denominator *)
Definition from_parts_signed_asis (n d : Z) : result rat :=
  from_parts_asis (n * sgnz (sign_of d)) (Z.abs d).
Definition xfrom_parts_signed_asis (n d : Z) : result rat :=
  xfrom_parts_asis (n * sgnz (sign_of d)) (Z.abs d).

(** the naive const gcd loop of [RBig::from_parts_const]:
    [while r > 1 { new_r = y % r; y = r; r = new_r }] *)
Fixpoint cgcd_loop (fuel : nat) (y r : Z) : option (Z * Z) :=
  match fuel with
  | O => None
  | S f => if 1 <? r then cgcd_loop f r (y mod r) else Some (y, r)
  end.
Definition cgcd_fuel (d : Z) : nat := S (2 * Z.to_nat (Z.log2 d + 1)).

Definition from_parts_const_asis (s : sign) (n d : Z) : result rat :=
  if d =? 0 then Panic DivideBy0
  else if n =? 0 then Ok (0, 1)
  else if (1 <? n) && (1 <? d) then
    match cgcd_loop (cgcd_fuel d) d (n mod d) with
    | None => OutOfFuel
    | Some (y, r) => if r =? 0 then Ok (signed s (n / y), d / y) else Ok (signed s n, d)
    end
  else Ok (signed s n, d).

Definition xfrom_parts_const_asis (s : sign) (n d : Z) : result rat :=
  if d =? 0 then Panic DivideBy0
  else if n =? 0 then Ok (0, 1)
  else
    let n2 := match trailing_zeros_spec n with Some k => k | None => 0 end in
    let d2 := match trailing_zeros_spec d with Some k => k | None => 0 end in
    let zeros := if n2 <=? d2 then n2 else d2 in
    Ok (signed s (Z.shiftr n zeros), Z.shiftr d zeros).

(** the centred remainder shared by [impl_rem_with_rbig] / [impl_rem_with_relaxed]:
    [(sign, r1) = left.rem(&right).into_parts(); r2 = right - r1; if r1 < r2 {(sign, r1)} else {(-sign, r2)}] *)
Definition centred_rem (left right : Z) : Z :=
  let r := Z.rem left right in
  let s := sign_of r in let r1 := Z.abs r in
  let r2 := right - r1 in
  if r1 <? r2 then signed s r1 else signed (sign_neg s) r2.

(* ================================================================================================
   As-is model, RBig (add.rs, mul.rs, div.rs, sign.rs, round.rs)
   ================================================================================================ *)
(** [impl_add_or_sub_with_rbig]; [m] is the method (add / sub) *)
Definition addsub_asis (m : Z -> Z -> Z) (x y : rat) : rat :=
  let '(a, b) := x in let '(c, d) := y in
  let g_bd := Z.gcd b d in
  if g_bd =? 1 then
    let left := a * d in let right := c * b in (m left right, b * d)
  else
    let ddg := Z.quot d g_bd in
    let left := ddg * a in
    let right := Z.quot b g_bd * c in
    reduce_with_hint_asis (m left right, b * ddg) g_bd.

(** [impl_mul_with_rbig] *)
Definition mul_asis (x y : rat) : rat :=
  let '(a, b) := x in let '(c, d) := y in
  let g_ad := Z.gcd a d in let g_bc := Z.gcd b c in
  (Z.quot a g_ad * Z.quot c g_bc, Z.quot b g_bc * Z.quot d g_ad).

(** [impl_div_with_rbig] *)
Definition div_asis (x y : rat) : result rat :=
  let '(a, b) := x in let '(c, d) := y in
  if c =? 0 then Panic DivideBy0
  else
    let g_ac := Z.gcd a c in let g_bd := Z.gcd b d in
    Ok (Z.quot a g_ac * Z.quot d g_bd * sgnz (sign_of c), Z.quot b g_bd * Z.quot (Z.abs c) g_ac).

(** [impl_rem_with_rbig]; the integer [%] panics when [right] is zero *)
Definition rem_asis (x y : rat) : result rat :=
  let '(a, b) := x in let '(c, d) := y in
  let g_bd := Z.gcd b d in
  let ddg := Z.quot d g_bd in
  let left := ddg * a in
  let right := Z.quot b g_bd * Z.abs c in
  if right =? 0 then Panic DivideBy0
  else from_parts_asis (centred_rem left right) (b * ddg).

(** [impl_euclid_div] *)
Definition dive_asis (x y : rat) : result Z :=
  let '(a, b) := x in let '(c, d) := y in
  if c =? 0 then Panic DivideBy0 else Ok (ediv (a * d) (b * c)).

(** [impl_euclid_rem_with_rbig], [impl_euclid_divrem_with_rbig] *)
Definition reme_asis (x y : rat) : result rat :=
  let '(a, b) := x in let '(c, d) := y in
  let g_bd := Z.gcd b d in
  let ddg := Z.quot d g_bd in
  let left := ddg * a in
  let right := Z.quot b g_bd * c in
  if right =? 0 then Panic DivideBy0
  else from_parts_asis (emod left right) (b * ddg).

Definition divreme_asis (x y : rat) : result (Z * rat) :=
  let '(a, b) := x in let '(c, d) := y in
  let g_bd := Z.gcd b d in
  let ddg := Z.quot d g_bd in
  let left := ddg * a in
  let right := Z.quot b g_bd * c in
  if right =? 0 then Panic DivideBy0
  else rbind (from_parts_asis (emod left right) (b * ddg)) (fun r => Ok (ediv left right, r)).

Definition bin_asis (o : binop) (x y : rat) : result rat :=
  match o with
  | OAdd => Ok (addsub_asis Z.add x y)
  | OSub => Ok (addsub_asis Z.sub x y)
  | OMul => Ok (mul_asis x y)
  | ODiv => div_asis x y
  | ORem => rem_asis x y
  | ORemE => reme_asis x y
  end.

(** [Repr::inv] (with the zero check of the repair, finding F01), neg/abs/signum, sqr/cubic/pow, fract *)
Definition inv_asis (x : rat) : result rat :=
  let '(a, b) := x in
  if a =? 0 then Panic DivideBy0 else Ok (signed (sign_of a) b, Z.abs a).

Definition fract_asis (x : rat) : rat :=
  let '(a, b) := x in
  let r := Z.rem a b in if r =? 0 then (0, 1) else (r, b).

Definition un_asis (o : unop) (x : rat) : result rat :=
  let '(a, b) := x in
  match o with
  | UNeg => Ok (- a, b)
  | UAbs => Ok (Z.abs a, b)
  | UInv => inv_asis x
  | USqr => Ok (a * a, b * b)
  | UCubic => Ok (a * a * a, b * b * b)
  | USignum => Ok (Z.sgn a, 1)
  | UFract => Ok (fract_asis x)
  end.

Definition pow_asis (x : rat) (e : Z) : rat := (fst x ^ e, snd x ^ e).
Definition mulsign_asis (s : sign) (x : rat) : rat := (fst x * sgnz s, snd x).

(** integer-mixed forms.  [u]: the integer is a UBig (no sign handling in the division macros) *)
Definition int_asis (u : bool) (o : intop) (x : rat) (i : Z) : result rat :=
  let '(a, b) := x in
  match o with
  | IAdd => Ok (a + b * i, b)                                   (* impl_addsub_int_with_rbig *)
  | ISub => Ok (a - b * i, b)
  | IRsub => Ok (b * i - a, b)                                  (* impl_int_sub_rbig *)
  | IMul => let g := Z.gcd b i in Ok (a * Z.quot i g, Z.quot b g)   (* impl_mul_int_with_rbig *)
  | IDiv =>
      if i =? 0 then Panic DivideBy0
      else let g := Z.gcd a i in
           if u then Ok (Z.quot a g, b * Z.quot i g)                 (* impl_rbig_div_ubig *)
           else Ok (Z.quot a g * sgnz (sign_of i), b * Z.quot (Z.abs i) g)   (* impl_rbig_div_ibig *)
  | IRdiv =>                                                     (* impl_ubig_or_ibig_div_rbig *)
      if a =? 0 then Panic DivideBy0
      else let g := Z.gcd a i in Ok (b * Z.quot i g * sgnz (sign_of a), Z.quot (Z.abs a) g)
  end.

(** round.rs *)
Definition trunc_asis (x : rat) : Z := Z.quot (fst x) (snd x).
Definition floor_asis (x : rat) : Z :=
  let q := Z.quot (fst x) (snd x) in let r := Z.rem (fst x) (snd x) in if r <? 0 then q - 1 else q.
Definition ceil_asis (x : rat) : Z :=
  let q := Z.quot (fst x) (snd x) in let r := Z.rem (fst x) (snd x) in if 0 <? r then q + 1 else q.
Definition round_asis (x : rat) : Z :=
  let q := Z.quot (fst x) (snd x) in let r := Z.rem (fst x) (snd x) in
  if snd x <=? Z.shiftl (Z.abs r) 1 then
    match sign_of (fst x) with Positive => q + 1 | Negative => q - 1 end
  else q.
Definition split_asis (x : rat) : Z * rat := (trunc_asis x, fract_asis x).

(** parse.rs (after the repair, finding F02): "n/d" -> numerator n * sign(d), denominator |d|, reduce *)
Definition parse_asis (n d : Z) : result rat :=
  if d =? 0 then Err 0 else Ok (reduce_asis (n * sgnz (sign_of d), Z.abs d)).
Definition xparse_asis (n d : Z) : result rat :=
  if d =? 0 then Err 0 else reduce2_asis (n * sgnz (sign_of d), Z.abs d).
(** the code before the repair: no test of the denominator *)
Definition parse_before_fix (n d : Z) : result rat := Ok (reduce_asis (n * sgnz (sign_of d), Z.abs d)).
Definition inv_before_fix (x : rat) : result rat :=
  let '(a, b) := x in Ok (signed (sign_of a) b, Z.abs a).

(* ================================================================================================
   As-is model, Relaxed
   ================================================================================================ *)
Definition xbin_asis (o : binop) (x y : rat) : result rat :=
  let '(a, b) := x in let '(c, d) := y in
  match o with
  | OAdd => xfrom_parts_asis (a * d + c * b) (b * d)             (* impl_addsub_with_relaxed *)
  | OSub => xfrom_parts_asis (a * d - c * b) (b * d)
  | OMul => xfrom_parts_asis (a * c) (b * d)                     (* impl_mul_with_relaxed *)
  | ODiv => if c =? 0 then Panic DivideBy0                        (* impl_div_with_relaxed *)
            else xfrom_parts_asis (a * d * sgnz (sign_of c)) (b * Z.abs c)
  | ORem =>                                                      (* impl_rem_with_relaxed *)
      let left := a * d in let right := Z.abs c * b in
      if right =? 0 then Panic DivideBy0 else xfrom_parts_asis (centred_rem left right) (b * d)
  | ORemE =>                                                     (* impl_euclid_rem_with_relaxed *)
      let left := a * d in let right := c * b in
      if right =? 0 then Panic DivideBy0 else xfrom_parts_asis (emod left right) (b * d)
  end.

Definition xdivreme_asis (x y : rat) : result (Z * rat) :=
  let '(a, b) := x in let '(c, d) := y in
  let left := a * d in let right := c * b in
  if right =? 0 then Panic DivideBy0
  else rbind (xfrom_parts_asis (emod left right) (b * d)) (fun r => Ok (ediv left right, r)).

Definition xint_asis (u : bool) (o : intop) (x : rat) (i : Z) : result rat :=
  let '(a, b) := x in
  match o with
  | IAdd => Ok (a + b * i, b)                                   (* impl_addsub_int_with_relaxed *)
  | ISub => Ok (a - b * i, b)
  | IRsub => Ok (b * i - a, b)
  | IMul => xfrom_parts_asis (a * i) b                           (* impl_mul_int_with_relaxed *)
  | IDiv =>
      if i =? 0 then Panic DivideBy0
      else if u then xfrom_parts_asis a (b * i)                  (* impl_relaxed_div_ubig *)
      else xfrom_parts_asis (a * sgnz (sign_of i)) (b * Z.abs i) (* impl_relaxed_div_ibig *)
  | IRdiv =>                                                     (* impl_ubig_or_ibig_div_relaxed *)
      if a =? 0 then Panic DivideBy0
      else xfrom_parts_asis (b * i * sgnz (sign_of a)) (Z.abs a)
  end.

(** unary operations, pow, mulsign, fract, rounding are the same code ([Repr] methods) for both flavours *)
Definition xun_asis := un_asis.
Definition xpow_asis := pow_asis.

(* ================================================================================================
   Histories: a pool of live values, every result is written back into the pool
   ================================================================================================ *)
Inductive hop :=
| HBin (o : binop) (i j dst : nat)
| HUn (o : unop) (i dst : nat)
| HPow (i : nat) (e : N) (dst : nat)
| HInt (o : intop) (i : nat) (k : Z) (dst : nat)      (* IBig operand *)
| HIntU (o : intop) (i : nat) (k : N) (dst : nat).    (* UBig operand *)

Definition pget (p : list rat) (i : nat) : rat := nth i p (0, 1).
Fixpoint pset (p : list rat) (i : nat) (v : rat) : list rat :=
  match p, i with
  | [], _ => []
  | _ :: t, O => v :: t
  | h :: t, S k => h :: pset t k v
  end.

Definition heval_spec (p : list rat) (o : hop) : result rat :=
  match o with
  | HBin b i j _ => bin_spec b (pget p i) (pget p j)
  | HUn u i _ => un_spec u (pget p i)
  | HPow i e _ => Ok (pow_spec (pget p i) (Z.of_N e))
  | HInt b i k _ => int_spec b (pget p i) k
  | HIntU b i k _ => int_spec b (pget p i) (Z.of_N k)
  end.
Definition heval_asis (p : list rat) (o : hop) : result rat :=
  match o with
  | HBin b i j _ => bin_asis b (pget p i) (pget p j)
  | HUn u i _ => un_asis u (pget p i)
  | HPow i e _ => Ok (pow_asis (pget p i) (Z.of_N e))
  | HInt b i k _ => int_asis false b (pget p i) k
  | HIntU b i k _ => int_asis true b (pget p i) (Z.of_N k)
  end.
Definition heval_xasis (p : list rat) (o : hop) : result rat :=
  match o with
  | HBin b i j _ => xbin_asis b (pget p i) (pget p j)
  | HUn u i _ => xun_asis u (pget p i)
  | HPow i e _ => Ok (xpow_asis (pget p i) (Z.of_N e))
  | HInt b i k _ => xint_asis false b (pget p i) k
  | HIntU b i k _ => xint_asis true b (pget p i) (Z.of_N k)
  end.
Definition hdst (o : hop) : nat :=
  match o with HBin _ _ _ d | HUn _ _ d | HPow _ _ d | HInt _ _ _ d | HIntU _ _ _ d => d end.

(** one step: a panicking operation leaves the pool unchanged (the caller caught the panic) *)
Definition hstep (ev : list rat -> hop -> result rat) (p : list rat) (o : hop) : list rat :=
  match ev p o with Ok r => pset p (hdst o) r | _ => p end.
Definition hrun (ev : list rat -> hop -> result rat) (ops : list hop) (p : list rat) : list rat :=
  fold_left (hstep ev) ops p.
