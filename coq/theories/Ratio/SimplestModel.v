(** C18 - rational approximation: AS-IS MODELS of rational/src/simplify.rs,
    rational/src/third_party/dashu_float.rs (simplest_from_float) and the ErrorBounds impls of
    float/src/round.rs.  Definitions only.  IBig/UBig are Z; Repr comparison, RBig addition and
    the exact float add/sub of the bounds are taken at value level (C04/C05/C03's business). *)
From Dashu Require Import Base.Prelude Ratio.BinIter Float.RoundSpec Ratio.SimplestSpec.
Open Scope Z_scope.

Definition sign_eqb (a b : sign) : bool :=
  match a, b with Positive, Positive | Negative, Negative => true | _, _ => false end.

(** RBig::is_simpler_than (hand transcription; translate.py does not emit RatioSmall.v yet):
    match on the denominators, then on the numerator magnitudes, then sign() > other.sign() *)
Definition is_simpler_than_asis (x y : frac) : bool :=
  match snd x ?= snd y with
  | Lt => true
  | Gt => false
  | Eq => match Z.abs (fst x) ?= Z.abs (fst y) with
          | Lt => true
          | Gt => false
          | Eq => match sign_of (fst x), sign_of (fst y) with Positive, Negative => true | _, _ => false end
          end
  end.

(** the pinned (pre-repair) body, kept to state the refutation of finding F01 *)
Definition is_simpler_than_pinned (x y : frac) : bool :=
  (snd x <? snd y) && (Z.abs (fst x) <=? Z.abs (fst y))
  && (match sign_of (fst x), sign_of (fst y) with Positive, Negative => true | _, _ => false end).

(** ** Repr::simplest_in: the continued-fraction loop on both end points.
    state = (n0, d0, n1, d1, num_l, den_l, num_r, den_r) *)
Definition cfst := (Z * Z * Z * Z * Z * Z * Z * Z)%type.

Definition cf_F (k : cfst -> result frac) (s : cfst) : result frac :=
  let '(n0, d0, n1, d1, nl, dl, nr, dr) := s in
  if dl =? 0 then Panic DivideBy0 else
  let q := Z.quot nl dl in
  let r1 := Z.rem nl dl in
  (* n1 += q*n0; swap(n0, n1); d1 += q*d0; swap(d0, d1) *)
  let n0' := n1 + q * n0 in
  let n1' := n0 in
  let d0' := d1 + q * d0 in
  let d1' := d0 in
  let r2 := nr - q * dr in
  (* num_l = replace(den_r, r1); num_r = replace(den_l, r2) *)
  let nl' := dr in
  let dr' := r1 in
  let nr' := dl in
  let dl' := r2 in
  if nl' <? dl' then Ok (n0' + n1', d0' + d1')
  else k (n0', d0', n1', d1', nl', dl', nr', dr').

Definition cf_loop (lower upper : frac) : result frac :=
  iter_pos cf_F (Z.to_pos (snd lower + snd upper + 1)) (fun _ => OutOfFuel)
    (1, 0, 0, 1, fst lower, snd lower, fst upper, snd upper).

(** the pinned sign shortcut (finding F02): any sign difference returns 0, and sign(0) = Positive *)
Definition simplest_in_pinned_shortcut (l u : frac) : bool :=
  negb (sign_eqb (sign_of (fst l)) (sign_of (fst u))).

Definition simplest_in_asis (l u : frac) : result frac :=
  let sl := sign_of (fst l) in
  let su := sign_of (fst u) in
  let go (sg : sign) : result frac :=
    let lower := fabs l in
    let upper := fabs u in
    match fst lower * snd upper ?= fst upper * snd lower with
    | Eq => Ok (freduce (signed sg (fst lower), snd lower))
    | c =>
        let lo := match c with Gt => upper | _ => lower end in
        let hi := match c with Gt => lower | _ => upper end in
        match cf_loop lo hi with
        | Ok nd =>
            (* debug_assert!(num.sign() == den.sign()) *)
            if sign_eqb (sign_of (fst nd)) (sign_of (snd nd))
            then Ok (freduce (signed sg (Z.abs (fst nd)), Z.abs (snd nd)))
            else Panic Undocumented
        | e => e
        end
    end in
  if fst l =? 0 then go su
  else if (fst u =? 0) || sign_eqb sl su then go sl
  else Ok (0, 1).

(** ** RBig::farey_neighbors: mediant walk.  state = (left, right) *)
Definition fst4 := (Z * Z * Z * Z)%type.

Definition farey_F (x : frac) (L : Z) (k : fst4 -> result (frac * frac)) (s : fst4) : result (frac * frac) :=
  let '(ln, ld, rn, rd) := s in
  let nx := (ln + rn, ld + rd) in
  let tighten (nx : frac) := if flt x nx then k (ln, ld, fst nx, snd nx) else k (fst nx, snd nx, rn, rd) in
  if L <? snd nx then
    let nx' := freduce nx in
    if L <? snd nx' then Ok ((ln, ld), (rn, rd)) else tighten nx'
  else tighten nx.

Definition farey_neighbors_asis (x : frac) (L : Z) : result (frac * frac) :=
  if negb (L <? snd x) then Panic Undocumented            (* debug_assert!(x.denominator() > limit) *)
  else if fst x =? 0 then Panic Undocumented               (* debug_assert!(!x.numerator().is_zero()) *)
  else if snd x <? Z.abs (fst x) then Panic Undocumented   (* debug_assert!(|num| <= den) *)
  else iter_pos (farey_F x L) (Z.to_pos (L + 1)) (fun _ => OutOfFuel)
         (match sign_of (fst x) with Positive => (0, 1, 1, 1) | Negative => (-1, 1, 0, 1) end).

(** Repr::split_at_point: truncating division *)
Definition split_at_point (x : frac) : Z * frac :=
  let t := Z.quot (fst x) (snd x) in
  let r := Z.rem (fst x) (snd x) in
  (t, if r =? 0 then (0, 1) else (r, snd x)).

(** IBig + RBig *)
Definition int_add (t : Z) (x : frac) : frac := freduce (t * snd x + fst x, snd x).

Inductive approx := AExact (x : frac) | AInexact (x : frac) (s : sign).

Definition nearest_asis (x : frac) (L : Z) : result approx :=
  if L =? 0 then Panic DivideBy0
  else if snd x <=? L then Ok (AExact x)
  else
    let '(t, r) := split_at_point x in
    match farey_neighbors_asis r L with
    | Ok (lf, rt) =>
        let mid0 := freduce (fadd lf rt) in
        let mid := (fst mid0, 2 * snd mid0) in
        if flt mid r then Ok (AInexact (int_add t rt) Positive)
        else Ok (AInexact (int_add t lf) Negative)
    | Panic e => Panic e | Err e => Err e | OutOfFuel => OutOfFuel
    end.

(** [nudge L] = the denominator of the step used to leave a fraction that already fits:
    limit^2 + 1 after the repair of finding F03 (limit^2 on the pinned tree) *)
Definition nudge (L : Z) : Z := L * L + 1.
Definition nudge_pinned (L : Z) : Z := L * L.

Definition next_gen (nd : Z -> Z) (up : bool) (x : frac) (L : Z) : result frac :=
  if L =? 0 then Panic DivideBy0
  else
    let '(t, fr) := split_at_point x in
    let target :=
      if snd x <=? L then freduce ((if up then fadd else fsub) fr (1, nd L)) else fr in
    match farey_neighbors_asis target L with
    | Ok (lf, rt) => Ok (int_add t (if up then rt else lf))
    | Panic e => Panic e | Err e => Err e | OutOfFuel => OutOfFuel
    end.

Definition next_up_asis := next_gen nudge true.
Definition next_down_asis := next_gen nudge false.
Definition next_up_pinned := next_gen nudge_pinned true.
Definition next_down_pinned := next_gen nudge_pinned false.

(** ** simplest_from_f32 / f64 (impl_simplest_from_float!): the pinned (pre-repair) body, kept to state
    the refutation of finding F04: est = Repr::try_from(f) doubled, end points (2n +- 1) / 2d *)
Definition simplest_from_ieee_pinned (mb eb bits : Z) : result (option frac) :=
  let E := (bits / 2 ^ mb) mod 2 ^ eb in
  let M := bits mod 2 ^ mb in
  let neg := (bits / 2 ^ (mb + eb)) mod 2 =? 1 in
  if E =? 2 ^ eb - 1 then Ok None
  else if (E =? 0) && (M =? 0) then Ok (Some (0, 1))
  else
    let man0 := if E =? 0 then M else M + 2 ^ mb in
    let man := if neg then - man0 else man0 in
    let ex := (if E =? 0 then 1 else E) - (2 ^ (eb - 1) - 1) - mb in
    (* Repr::try_from(f): not reduced *)
    let est : frac := if 0 <=? ex then (man * 2 ^ ex, 1) else (man, 2 ^ (- ex)) in
    let en := 2 * fst est in
    let ed := 2 * snd est in
    let lf := freduce (en + 1, ed) in
    let rt := freduce (en - 1, ed) in
    match simplest_in_asis lf rt with
    | Ok s =>
        if Z.even bits then
          let s1 := if is_simpler_than_asis lf s then lf else s in
          let s2 := if is_simpler_than_asis rt s1 then rt else s1 in
          Ok (Some s2)
        else Ok (Some s)
    | Panic e => Panic e | Err e => Err e | OutOfFuel => OutOfFuel
    end.

(** impl_simplest_from_float! after the repair of F04: (man, exp) = f.decode(); the end points are
    computed in units of ulp/4 = 2^(exp-2): 4*man +- 2 away from zero, 4*man -+ 1 towards zero when f
    is a power of two above the lowest normal binade (else -+ 2);
    min_exp = <$t>::MIN_EXP - 1 - (MANTISSA_DIGITS - 1) = 1 - bias - mb *)
Definition simplest_from_ieee_asis (mb eb bits : Z) : result (option frac) :=
  let E := (bits / 2 ^ mb) mod 2 ^ eb in
  let M := bits mod 2 ^ mb in
  let neg := (bits / 2 ^ (mb + eb)) mod 2 =? 1 in
  if E =? 2 ^ eb - 1 then Ok None
  else if (E =? 0) && (M =? 0) then Ok (Some (0, 1))
  else
    let man0 := if E =? 0 then M else M + 2 ^ mb in
    let man := if neg then - man0 else man0 in
    let ex := (if E =? 0 then 1 else E) - (2 ^ (eb - 1) - 1) - mb in
    let min_exp := 1 - (2 ^ (eb - 1) - 1) - mb in
    let tz := if (Z.abs man =? 2 ^ mb) && (min_exp <? ex) then 1 else 2 in
    let center := 4 * man in
    let outer := if 0 <? man then center + 2 else center - 2 in
    let inner := if 0 <? man then center - tz else center + tz in
    let scale (n : Z) : frac := if 2 <=? ex then (n * 2 ^ (ex - 2), 1) else freduce (n, 2 ^ (2 - ex)) in
    let lf := scale outer in
    let rt := scale inner in
    match simplest_in_asis lf rt with
    | Ok s =>
        if Z.even bits then
          let s1 := if is_simpler_than_asis lf s then lf else s in
          let s2 := if is_simpler_than_asis rt s1 then rt else s1 in
          Ok (Some s2)
        else Ok (Some s)
    | Panic e => Panic e | Err e => Err e | OutOfFuel => OutOfFuel
    end.

(** Repr::new normalises: trailing zero digits of the significand move into the exponent *)
Fixpoint fnormalize_fuel (fuel : nat) (B sig ex : Z) : Z * Z :=
  match fuel with
  | O => (sig, ex)
  | S f => if sig mod B =? 0 then fnormalize_fuel f B (sig / B) (ex + 1) else (sig, ex)
  end.
Definition fnormalize (B sig ex : Z) : Z * Z :=
  if sig =? 0 then (0, 0) else fnormalize_fuel (Z.to_nat (Z.log2 (Z.abs sig) + 1)) B sig ex.

(** ** ErrorBounds::error_bounds per mode: (L, R, incl_l, incl_r) as fractions; the half ulp of
    the two Half modes is ceil(B/2) * B^(e-1) as in the source.  [sig] is the stored (normalised,
    non-zero) significand, [dg] its digit count, [p] the precision (0 = unlimited).

    [error_bounds_r2]: state of the source after the repairs of findings F05 (HalfEven: parity of the
    significand of full precision) and F08 (Away/Up/Down: unlimited precision returns (0, 0, true,
    true)) and BEFORE the repair of F07; kept to state the refutation of F07. *)
Definition error_bounds_r2 (B : Z) (md : mode) (p sig ex : Z) : result (frac * frac * bool * bool) :=
  let zero : frac := (0, 1) in
  let dg := ndigits B (Z.abs sig) in
  let e := ex + dg - p in
  let ulp := scaled B 1 e 1 in
  let half := scaled B ((B + 1) / 2) (e - 1) 1 in
  let neg := sig <? 0 in
  match md with
  | MZero =>
      if p =? 0 then Ok (zero, zero, true, true)
      else if neg then Ok (ulp, zero, false, true) else Ok (zero, ulp, true, false)
  | MAway =>
      if p =? 0 then Ok (zero, zero, true, true)
      else if neg then Ok (zero, ulp, true, false) else Ok (ulp, zero, false, true)
  | MDown => if p =? 0 then Ok (zero, zero, true, true) else Ok (zero, ulp, true, false)
  | MUp => if p =? 0 then Ok (zero, zero, true, true) else Ok (ulp, zero, false, true)
  | MHalfAway =>
      if p =? 0 then Ok (zero, zero, true, true)
      else if neg then Ok (half, half, false, true) else Ok (half, half, true, false)
  | MHalfEven =>
      if p =? 0 then Ok (zero, zero, true, true)
      else let incl := negb (Z.odd sig) || ((B mod 2 =? 0) && (dg <? p)) in Ok (half, half, incl, incl)
  end.

(** float/src/round.rs is_power_of_base: the magnitude of the float is a power of the base iff the
    stored (normalised) significand is +-1 *)
Definition is_power_of_base (sig : Z) : bool := Z.abs sig =? 1.

(** today's source (after the repair of F07): the bound on the side of zero goes through
    towards_zero(f, width), which lowers the exponent of the width by one when f is a power of the
    base; HalfEven includes the tie on the side of zero of a power of the base iff the base is even *)
Definition error_bounds_asis (B : Z) (md : mode) (p sig ex : Z) : result (frac * frac * bool * bool) :=
  let zero : frac := (0, 1) in
  let dg := ndigits B (Z.abs sig) in
  let e := ex + dg - p in
  let drop := if is_power_of_base sig then 1 else 0 in
  let ulp := scaled B 1 e 1 in
  let ulp_tz := scaled B 1 (e - drop) 1 in
  let half := scaled B ((B + 1) / 2) (e - 1) 1 in
  let half_tz := scaled B ((B + 1) / 2) (e - 1 - drop) 1 in
  let neg := sig <? 0 in
  match md with
  | MZero =>
      if p =? 0 then Ok (zero, zero, true, true)
      else if neg then Ok (ulp, zero, false, true) else Ok (zero, ulp, true, false)
  | MAway =>
      if p =? 0 then Ok (zero, zero, true, true)
      else if neg then Ok (zero, ulp_tz, true, false) else Ok (ulp_tz, zero, false, true)
  | MDown =>
      if p =? 0 then Ok (zero, zero, true, true)
      else if neg then Ok (zero, ulp_tz, true, false) else Ok (zero, ulp, true, false)
  | MUp =>
      if p =? 0 then Ok (zero, zero, true, true)
      else if neg then Ok (ulp, zero, false, true) else Ok (ulp_tz, zero, false, true)
  | MHalfAway =>
      if p =? 0 then Ok (zero, zero, true, true)
      else if neg then Ok (half, half_tz, false, true) else Ok (half_tz, half, true, false)
  | MHalfEven =>
      if p =? 0 then Ok (zero, zero, true, true)
      else
        let incl := negb (Z.odd sig) || ((B mod 2 =? 0) && (dg <? p)) in
        let incl_zero := if is_power_of_base sig then B mod 2 =? 0 else incl in
        if neg then Ok (half, half_tz, incl, incl_zero) else Ok (half_tz, half, incl_zero, incl)
  end.

(** the pinned (pre-repair) bodies, kept to state the refutations of findings F05 and F08:
    Away/Up/Down call f.ulp() at unlimited precision, HalfEven tests bit 0 of the stored significand *)
Definition error_bounds_pinned (B : Z) (md : mode) (p sig ex : Z) : result (frac * frac * bool * bool) :=
  match md with
  | MAway | MDown | MUp => if p =? 0 then Panic UnlimitedPrecision else error_bounds_r2 B md p sig ex
  | MHalfEven =>
      if p =? 0 then error_bounds_r2 B md p sig ex
      else let half := scaled B ((B + 1) / 2) (ex + ndigits B (Z.abs sig) - p - 1) 1 in
           Ok (half, half, Z.odd sig, Z.odd sig)
  | _ => error_bounds_r2 B md p sig ex
  end.

Definition simplest_from_float_with (eb : Z -> mode -> Z -> Z -> Z -> result (frac * frac * bool * bool))
    (B : Z) (md : mode) (p sig0 ex0 : Z) : result (option frac) :=
  let '(sig, ex) := fnormalize B sig0 ex0 in
  if sig =? 0 then Ok (Some (0, 1))
  else match eb B md p sig ex with
       | Ok (l, r, incl_l, incl_r) =>
           let v := scaled B sig ex 1 in
           let lf := freduce (fsub v l) in
           let rt := freduce (fadd v r) in
           match simplest_in_asis lf rt with
           | Ok s =>
               let s1 := if incl_l && is_simpler_than_asis lf s then lf else s in
               let s2 := if incl_r && is_simpler_than_asis rt s1 then rt else s1 in
               Ok (Some s2)
           | Panic e => Panic e | Err e => Err e | OutOfFuel => OutOfFuel
           end
       | Panic e => Panic e | Err e => Err e | OutOfFuel => OutOfFuel
       end.

Definition simplest_from_float_asis := simplest_from_float_with error_bounds_asis.
Definition simplest_from_float_pinned := simplest_from_float_with error_bounds_pinned.
(** the code before the repair of F07 *)
Definition simplest_from_float_r2 := simplest_from_float_with error_bounds_r2.
