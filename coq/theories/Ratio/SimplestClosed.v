(** C18 - simplest_from_*: the part after the rounding interval is known.
    (1) [simplest_closed] (the open-interval optimum, then the two optional end points compared with
        is_simpler_than) returns THE simplest canonical fraction of the interval with the requested
        end points - for all canonical end points.
    (2) the as-is models of simplest_from_float and of impl_simplest_from_float! are exactly
        [simplest_closed] applied to the interval their error bounds describe, so every difference
        between the code and the specification is a difference of rounding intervals. *)
From Dashu Require Import Base.Prelude Ratio.BinIter Float.RoundSpec Ratio.SimplestSpec Ratio.SimplestModel
  Ratio.SimplerOrder Ratio.SimplestProof Ratio.SimplestAsis Ratio.FareyProof.
From Coq Require Import Znumtheory.
Open Scope Z_scope.

Definition canon (x : frac) : Prop := 0 < snd x /\ Z.gcd (fst x) (snd x) = 1.

(** two canonical fractions of the same value are the same pair *)
Lemma canon_eq : forall x y, canon x -> canon y -> fval_eq x y -> x = y.
Proof.
  intros [a b] [c d] (Hb & Hg1) (Hd & Hg2) E. unfold fval_eq in E. cbn [fst snd] in *.
  assert (Hbd : (b | d)).
  { apply (Gauss b a d); [exists c; lia|]. apply Zgcd_1_rel_prime. rewrite Z.gcd_comm. exact Hg1. }
  assert (Hdb : (d | b)).
  { apply (Gauss d c b); [exists a; lia|]. apply Zgcd_1_rel_prime. rewrite Z.gcd_comm. exact Hg2. }
  assert (b = d) by (apply Z.divide_antisym_nonneg; [lia|lia|assumption|assumption]).
  subst d. f_equal. nia.
Qed.

Lemma freduce_canon : forall x, 0 < snd x -> canon (freduce x) /\ fval_eq (freduce x) x.
Proof.
  intros x Hx. destruct (freduce_mul x Hx) as (g & Hg & Hn & Hd & Hc & Hp).
  split; [split; assumption|]. unfold fval_eq. set (a := fst (freduce x)) in *. set (b := snd (freduce x)) in *. rewrite Hn, Hd. ring.
Qed.

Lemma freduce_eqv : forall x y, 0 < snd x -> 0 < snd y -> fval_eq x y -> freduce x = freduce y.
Proof.
  intros x y Hx Hy E. destruct (freduce_canon x Hx) as (Cx & Ex). destruct (freduce_canon y Hy) as (Cy & Ey).
  apply canon_eq; [assumption|assumption|]. unfold fval_eq in *.
  destruct Cx as (Px & _). destruct Cy as (Py & _).
  assert (fst (freduce x) * snd (freduce y) * (snd x * snd y) = fst (freduce y) * snd (freduce x) * (snd x * snd y)).
  { transitivity (fst (freduce x) * snd x * (snd (freduce y) * snd y)); [ring|]. rewrite Ex.
    transitivity (fst (freduce y) * snd y * (snd (freduce x) * snd x)); [|ring]. rewrite Ey.
    transitivity (fst x * snd y * (snd (freduce x) * snd (freduce y))); [ring|]. rewrite E. ring. }
  apply Z.mul_cancel_r in H; [exact H|]. nia.
Qed.

(** ** "simpler or the same" and the end-point selection *)
Definition sle (x y : frac) : Prop := x = y \/ simpler x y = true.

Lemma sle_refl : forall x, sle x x.
Proof. intros x. left. reflexivity. Qed.

Lemma sle_trans : forall x y z, sle x y -> sle y z -> sle x z.
Proof.
  intros x y z [->|H1] [->|H2]; [left; reflexivity|right; assumption|right; assumption|].
  right. exact (simpler_trans _ _ _ H1 H2).
Qed.

Lemma frac_eq_dec : forall x y : frac, {x = y} + {x <> y}.
Proof. intros [a b] [c d]. destruct (Z.eq_dec a c), (Z.eq_dec b d); [left; congruence|right; congruence..]. Qed.

Lemma pick_spec : forall c x best,
  sle (pick c x best) best /\ (c = true -> sle (pick c x best) x) /\
  (pick c x best = best \/ (c = true /\ pick c x best = x)).
Proof.
  intros c x best. unfold pick. destruct c; cbn [andb].
  - destruct (simpler x best) eqn:E.
    + split; [right; exact E|]. split; [intros _; apply sle_refl|]. right. split; reflexivity.
    + split; [apply sle_refl|]. split; [|left; reflexivity]. intros _.
      destruct (frac_eq_dec best x) as [->|NE]; [apply sle_refl|].
      destruct (simpler_total best x NE) as [H|H]; [right; exact H|congruence].
  - split; [apply sle_refl|]. split; [discriminate|left; reflexivity].
Qed.

(** the candidates: canonical fractions strictly inside, or an included end point *)
Definition member (i : cinterval) (s : frac) : Prop :=
  let '(lo, hi, ilo, ihi) := i in
  canon s /\ ((fval_lt lo s /\ fval_lt s hi) \/ (ilo = true /\ s = lo) \/ (ihi = true /\ s = hi)).

Theorem simplest_closed_correct : forall lo hi ilo ihi, canon lo -> canon hi -> fval_lt lo hi ->
  exists r, simplest_closed (lo, hi, ilo, ihi) = Ok r /\ member (lo, hi, ilo, ihi) r /\
    forall s, member (lo, hi, ilo, ihi) s -> s <> r -> simpler r s = true.
Proof.
  intros lo hi ilo ihi Clo Chi Hlt.
  destruct (simplest_in_spec_correct lo hi (proj1 Clo) (proj1 Chi)) as (r0 & Hr0 & Hg0 & Hcase).
  { unfold fval_eq. unfold fval_lt in Hlt. lia. }
  destruct Hcase as [(_ & Hb)|(Hrev & _)]; [|unfold fval_lt in *; lia].
  destruct Hb as (Hd0 & Hl0 & Hh0 & Hmin).
  assert (C0 : canon r0) by (split; assumption).
  unfold simplest_closed. rewrite Hr0.
  set (r1 := pick ilo lo r0). set (r := pick ihi hi r1).
  destruct (pick_spec ilo lo r0) as (A1 & A2 & A3). fold r1 in A1, A2, A3.
  destruct (pick_spec ihi hi r1) as (B1 & B2 & B3). fold r in B1, B2, B3.
  exists r. split; [reflexivity|].
  assert (M1 : member (lo, hi, ilo, ihi) r1).
  { cbn [member]. destruct A3 as [->|(Hc & ->)]; [split; [exact C0|left; split; assumption]|].
    split; [exact Clo|right; left; split; [exact Hc|reflexivity]]. }
  split.
  - destruct B3 as [->|(Hc & ->)]; [exact M1|]. cbn [member]. split; [exact Chi|right; right; split; [exact Hc|reflexivity]].
  - intros s (Cs & Hs) Hne.
    assert (Hsle : sle r s).
    { destruct Hs as [(H1 & H2)|[(Hc & ->)|(Hc & ->)]].
      - apply (sle_trans r r1 s B1). apply (sle_trans r1 r0 s A1).
        destruct (Z.eq_dec (fst s * snd r0) (fst r0 * snd s)) as [E|NE].
        + left. symmetry. apply canon_eq; assumption.
        + right. apply Hmin; [exact (proj1 Cs)|exact H1|exact H2|exact NE].
      - apply (sle_trans r r1 lo B1). exact (A2 Hc).
      - exact (B2 Hc). }
    destruct Hsle as [E|H]; [congruence|exact H].
Qed.

Example simplest_closed_examples :
  simplest_closed ((9, 1), (11, 1), false, false) = Ok (10, 1) /\
  simplest_closed ((9, 1), (11, 1), true, true) = Ok (9, 1) /\
  simplest_closed ((-11, 1), (-9, 1), true, true) = Ok (-9, 1) /\
  simplest_closed ((1, 3), (1, 2), false, true) = Ok (1, 2).
Proof. repeat split; vm_compute; reflexivity. Qed.

(** ** the as-is glue code is [simplest_closed] *)
Definition opt_wrap (r : result frac) : result (option frac) :=
  match r with Ok x => Ok (Some x) | Panic e => Panic e | Err e => Err e | OutOfFuel => OutOfFuel end.

Lemma freduce_pos : forall x, 0 < snd x -> 0 < snd (freduce x).
Proof. intros x H. exact (proj1 (proj1 (freduce_canon x H))). Qed.

Lemma scaled_pos : forall B N e d, 0 < B -> 0 < d -> 0 < snd (scaled B N e d).
Proof.
  intros B N e d HB Hd. unfold scaled. destruct (Z.leb_spec 0 e); apply freduce_pos; cbn [snd]; [exact Hd|].
  apply Z.mul_pos_pos; [exact Hd|]. apply Z.pow_pos_nonneg; lia.
Qed.

Lemma glue_closed : forall lf rt il ir, 0 < snd lf -> 0 < snd rt ->
  match simplest_in_asis lf rt with
  | Ok s =>
      let s1 := if il && is_simpler_than_asis lf s then lf else s in
      let s2 := if ir && is_simpler_than_asis rt s1 then rt else s1 in
      Ok (Some s2)
  | Panic e => Panic e | Err e => Err e | OutOfFuel => OutOfFuel
  end = opt_wrap (simplest_closed (lf, rt, il, ir)).
Proof.
  intros lf rt il ir Hl Hr. rewrite simplest_in_asis_spec by assumption. unfold simplest_closed.
  destruct (simplest_in_spec lf rt) as [s| | |]; cbn [opt_wrap]; try reflexivity.
  cbv zeta. rewrite !is_simpler_than_asis_spec. reflexivity.
Qed.

Lemma error_bounds_asis_pos : forall B md p sig ex l r il ir, 0 < B ->
  error_bounds_asis B md p sig ex = Ok (l, r, il, ir) -> 0 < snd l /\ 0 < snd r.
Proof.
  intros B md p sig ex l r il ir HB H. unfold error_bounds_asis in H.
  pose proof (fun N e => scaled_pos B N e 1 HB ltac:(lia)) as Hsc.
  destruct md, (p =? 0), (sig <? 0); inversion H; subst; cbn [snd]; split; try apply Hsc; lia.
Qed.

Theorem simplest_from_float_asis_closed : forall B md p sig0 ex0, 0 < B ->
  simplest_from_float_asis B md p sig0 ex0 =
  let '(sig, ex) := fnormalize B sig0 ex0 in
  if sig =? 0 then Ok (Some (0, 1))
  else match error_bounds_asis B md p sig ex with
       | Ok (l, r, il, ir) =>
           opt_wrap (simplest_closed (freduce (fsub (scaled B sig ex 1) l), freduce (fadd (scaled B sig ex 1) r), il, ir))
       | Panic e => Panic e | Err e => Err e | OutOfFuel => OutOfFuel
       end.
Proof.
  intros B md p sig0 ex0 HB. unfold simplest_from_float_asis, simplest_from_float_with.
  destruct (fnormalize B sig0 ex0) as [sig ex]. destruct (sig =? 0); [reflexivity|].
  destruct (error_bounds_asis B md p sig ex) as [[[[l r] il] ir]| | |] eqn:E; try reflexivity.
  destruct (error_bounds_asis_pos B md p sig ex l r il ir HB E) as (Hl & Hr).
  pose proof (scaled_pos B sig ex 1 HB ltac:(lia)) as Hv.
  cbv zeta. apply glue_closed; apply freduce_pos; unfold fsub, fadd; cbn [snd]; apply Z.mul_pos_pos; assumption.
Qed.

(** impl_simplest_from_float! (f32/f64): "left" is the larger end point est + 1/2, as in the source *)
Theorem simplest_from_ieee_pinned_closed : forall mb eb bits,
  let E := (bits / 2 ^ mb) mod 2 ^ eb in
  let M := bits mod 2 ^ mb in
  let neg := (bits / 2 ^ (mb + eb)) mod 2 =? 1 in
  let man0 := if E =? 0 then M else M + 2 ^ mb in
  let man := if neg then - man0 else man0 in
  let ex := (if E =? 0 then 1 else E) - (2 ^ (eb - 1) - 1) - mb in
  let est : frac := if 0 <=? ex then (man * 2 ^ ex, 1) else (man, 2 ^ (- ex)) in
  simplest_from_ieee_pinned mb eb bits =
  if E =? 2 ^ eb - 1 then Ok None
  else if (E =? 0) && (M =? 0) then Ok (Some (0, 1))
  else opt_wrap (simplest_closed (freduce (2 * fst est + 1, 2 * snd est), freduce (2 * fst est - 1, 2 * snd est),
                                  Z.even bits, Z.even bits)).
Proof.
  intros mb eb bits E M neg man0 man ex est. unfold simplest_from_ieee_pinned.
  fold E M neg man0 man ex est.
  destruct (E =? 2 ^ eb - 1); [reflexivity|]. destruct ((E =? 0) && (M =? 0)); [reflexivity|].
  assert (Hd : 0 < 2 * snd est).
  { unfold est. destruct (Z.leb_spec 0 ex); cbn [snd]; [lia|]. assert (0 < 2 ^ (- ex)) by (apply Z.pow_pos_nonneg; lia). lia. }
  rewrite <- (glue_closed _ _ (Z.even bits) (Z.even bits)) by (apply freduce_pos; cbn [snd]; exact Hd).
  destruct (simplest_in_asis _ _) as [s| | |]; try reflexivity.
  destruct (Z.even bits); reflexivity.
Qed.
