(** C15 (round 4): statements about the INVENTORY of operator-trait impls (DashuGen.FormsInventory, regenerated on
    every run from the rustdoc JSON of the working tree, i.e. after macro expansion: one row per `impl Trait<Rhs> for
    Lhs` on UBig / IBig / FBig / RBig / Relaxed / Reduced with its associated Output types).
    The domain is the finite generated table (its size is part of the statements): checked by evaluation.
    - every primitive-operand form of the integers has the Output type of the model (FormsSpec.out_ty; DivRem:
      quotient of the big type, remainder of the primitive type) - the post-expansion counterpart of
      gen_prim_out_model (which reads the macro invocations);
    - all ownership variants (T / &T on either side) of one operator on the same types have the SAME Output types:
      no call form returns another type than its siblings;
    - the assignment forms exist exactly for operators whose by-value form returns the type of the left operand. *)
From Coq Require Import ZArith List Bool.
From Dashu Require Import Base.Prelude Forms.FormsSpec.
From DashuGen Require Import FormsInventory.
Import ListNotations.
Open Scope Z_scope.

Definition vty_eqb (a b : vty) : bool :=
  match a, b with
  | YUBig, YUBig | YIBig, YIBig | YFBig, YFBig | YRBig, YRBig | YRelaxed, YRelaxed | YReduced, YReduced
  | YSign, YSign | YConstDivisor, YConstDivisor | YRounding, YRounding | YItem, YItem | YOther, YOther | YNone, YNone => true
  | YPrim s n z, YPrim s' n' z' => Bool.eqb s s' && (n =? n') && Bool.eqb z z'
  | _, _ => false
  end.

Definition itrait_tag (t : itrait) : Z :=
  match t with
  | TrAdd => 0 | TrSub => 1 | TrMul => 2 | TrDiv => 3 | TrRem => 4 | TrBitAnd => 5 | TrBitOr => 6 | TrBitXor => 7 | TrShl => 8 | TrShr => 9
  | TrDivRem => 10 | TrDivEuclid => 11 | TrRemEuclid => 12 | TrDivRemEuclid => 13 | TrGcd => 14 | TrExtendedGcd => 15
  | TrAddAssign => 16 | TrSubAssign => 17 | TrMulAssign => 18 | TrDivAssign => 19 | TrRemAssign => 20 | TrBitAndAssign => 21
  | TrBitOrAssign => 22 | TrBitXorAssign => 23 | TrShlAssign => 24 | TrShrAssign => 25 | TrDivRemAssign => 26
  | TrNeg => 27 | TrNot => 28 | TrAbs => 29 | TrUnsignedAbs => 30 | TrInverse => 31 | TrSquareRoot => 32 | TrSquareRootRem => 33
  | TrCubicRoot => 34 | TrCubicRootRem => 35 | TrClone => 36 | TrSum => 37 | TrProduct => 38
  end.

(** the integer type of the model for a type of the inventory *)
Definition inv_model_ty (t : vty) : option ity :=
  match t with
  | YUBig => Some TUBig | YIBig => Some TIBig | YPrim s n _ => Some (TPrim s n) | _ => None
  end.
Definition inv_is_big (t : vty) : bool := match t with YUBig | YIBig => true | _ => false end.
Definition inv_is_prim (t : vty) : bool := match t with YPrim _ _ _ => true | _ => false end.
Definition inv_iop_of (t : itrait) : option iop :=
  match t with
  | TrAdd => Some IoAdd | TrSub => Some IoSub | TrMul => Some IoMul | TrDiv => Some IoDiv | TrRem => Some IoRem
  | TrBitAnd => Some IoAnd | TrBitOr => Some IoOr | TrBitXor => Some IoXor | _ => None
  end.
Definition ity_vty_eqb (m : ity) (v : vty) : bool :=
  match m, v with
  | TUBig, YUBig | TIBig, YIBig => true
  | TPrim s n, YPrim s' n' _ => Bool.eqb s s' && (n =? n')
  | _, _ => false
  end.

(** a primitive-operand form of an integer operator: Output = out_ty of the model *)
Definition row_prim_ok (r : impl_row) : bool :=
  match inv_iop_of (r_trait r) with
  | Some o =>
      if inv_is_big (r_lhs r) && inv_is_prim (r_rhs r) then
        match inv_model_ty (r_lhs r), inv_model_ty (r_rhs r) with
        | Some t, Some pt => ity_vty_eqb (out_ty t pt o false) (r_out r)
        | _, _ => false
        end
      else if inv_is_prim (r_lhs r) && inv_is_big (r_rhs r) then
        match inv_model_ty (r_rhs r), inv_model_ty (r_lhs r) with
        | Some t, Some pt => ity_vty_eqb (out_ty t pt o true) (r_out r)
        | _, _ => false
        end
      else true
  | None =>
      match r_trait r with
      | TrDivRem => if inv_is_big (r_lhs r) && inv_is_prim (r_rhs r)
                   then vty_eqb (r_out1 r) (r_lhs r) && vty_eqb (r_out2 r) (match r_rhs r with YPrim s n z => YPrim s n z | x => x end)
                   else true
      | TrDivRemAssign => if inv_is_big (r_lhs r) && inv_is_prim (r_rhs r) then vty_eqb (r_out2 r) (r_rhs r) else true
      | _ => true
      end
  end.

Theorem inventory_prim_out : forall r, In r inventory -> row_prim_ok r = true.
Proof. apply forallb_forall. vm_compute. reflexivity. Qed.

(** the ownership variants of one operator on the same pair of types *)
Definition same_op (a b : impl_row) : bool :=
  (itrait_tag (r_trait a) =? itrait_tag (r_trait b)) && vty_eqb (r_lhs a) (r_lhs b) && vty_eqb (r_rhs a) (r_rhs b).
Definition same_out (a b : impl_row) : bool :=
  vty_eqb (r_out a) (r_out b) && vty_eqb (r_out1 a) (r_out1 b) && vty_eqb (r_out2 a) (r_out2 b).

Theorem inventory_outputs_uniform : forall a b, In a inventory -> In b inventory -> same_op a b = true -> same_out a b = true.
Proof.
  assert (forallb (fun a => forallb (fun b => implb (same_op a b) (same_out a b)) inventory) inventory = true) as H
    by (vm_compute; reflexivity).
  intros a b Ha Hb So. rewrite forallb_forall in H. specialize (H a Ha). rewrite forallb_forall in H. specialize (H b Hb).
  rewrite So in H. exact H.
Qed.

(** the table is not empty and has rows the statements speak about: IBig % u8 -> u8, &UBig & &IBig -> UBig,
    and a pair of distinct ownership variants of one operator *)
Definition row_is (t : itrait) (l : vty) (lr : bool) (r : vty) (rr : bool) (o : vty) (x : impl_row) : bool :=
  (itrait_tag (r_trait x) =? itrait_tag t) && vty_eqb (r_lhs x) l && Bool.eqb (r_lref x) lr &&
  vty_eqb (r_rhs x) r && Bool.eqb (r_rref x) rr && vty_eqb (r_out x) o.
Example inventory_nonvacuous :
  (2000 <=? inventory_size) = true /\
  existsb (row_is TrRem YIBig false (YPrim false 8 false) false (YPrim false 8 false)) inventory = true /\
  existsb (row_is TrBitAnd YUBig true YIBig true YUBig) inventory = true /\
  existsb (row_is TrBitAnd YUBig false YIBig true YUBig) inventory = true.
Proof. repeat split; vm_compute; reflexivity. Qed.
