(** C15: the call forms of the rational operators (dashu-ratio).
    OWNERSHIP: rational/src/helper_macros.rs impl_binop_with_macro / impl_binop_with_int generate the
    four impls (T/&T x T/&T) by expanding ONE macro body with the same numerators and denominators
    (taken apart with into_parts or borrowed; `&T op int` clones them first), so at the level of
    C04's models (integers as Z) the four ownership forms of an operation ARE one function
    (Ratio/RatArithModel.v bin_asis / int_asis / xbin_asis / xint_asis) - agreement by construction;
    op= is take-and-replace (Forms/FormsProofs.v assign_by_taking_ok).
    What is proved here are the agreements between DIFFERENT macro bodies, corollaries of C04's
    theorems (Ratio/RatArithProofs.v bin_asis_spec, int_asis_spec, dive_asis_spec, reme_asis_spec,
    divreme_asis_spec; Ratio/RatArithRelaxed.v x*_asis_spec - imported read-only):
      - integer-mixed forms, both ways round (RBig op UBig/IBig, UBig/IBig op RBig; separate bodies
        impl_addsub_int_with_rbig, impl_int_sub_rbig, impl_mul_int_with_rbig, impl_rbig_div_ubig,
        impl_rbig_div_ibig, impl_ubig_or_ibig_div_rbig) = the all-rational form on the embedded integer;
      - div_rem_euclid = (div_euclid, rem_euclid);
      - Relaxed forms: the same agreements up to the value (a Relaxed result is not canonical), and
        every Relaxed form = the RBig form on operands of the same value. *)
From Dashu Require Import Base.Prelude Ratio.RatArithModel Ratio.RatArithCanon Ratio.RatArithProofs Ratio.RatArithRelaxed.
Open Scope Z_scope.

(** the all-rational call that an integer-mixed call stands for: operator, left and right operand *)
Definition int_as_bin (o : intop) (x : rat) (i : Z) : binop * rat * rat :=
  match o with
  | IAdd => (OAdd, x, (i, 1))
  | ISub => (OSub, x, (i, 1))
  | IMul => (OMul, x, (i, 1))
  | IDiv => (ODiv, x, (i, 1))
  | IRsub => (OSub, (i, 1), x)
  | IRdiv => (ODiv, (i, 1), x)
  end.
Definition bin3 (f : binop -> rat -> rat -> result rat) (t : binop * rat * rat) : result rat :=
  let '(o, l, r) := t in f o l r.

Lemma Inv_int i : Inv (i, 1).
Proof. split; cbn [fst snd]; [lia | apply Z.gcd_1_r]. Qed.

Lemma int_spec_as_bin o x i : int_spec o x i = bin3 bin_spec (int_as_bin o x i).
Proof.
  destruct x as [a b]. destruct o; cbn [int_spec int_as_bin bin3 bin_spec].
  - f_equal. f_equal; ring.
  - f_equal. f_equal; ring.
  - f_equal. f_equal; ring.
  - destruct (i =? 0); [reflexivity|]. f_equal. f_equal; ring.
  - f_equal. f_equal; ring.
  - destruct (a =? 0); [reflexivity|]. f_equal. f_equal; ring.
Qed.

(** RBig: `x op i` and `i op x` (i a UBig when u = true, an IBig otherwise) return exactly what the
    all-rational operator returns on RBig::from(i): the same canonical pair, or both panic *)
Theorem rbig_int_forms_agree : forall u o x i, Inv x -> (u = true -> 0 <= i) ->
  int_asis u o x i = bin3 bin_asis (int_as_bin o x i).
Proof.
  intros u o x i Hx Hu. rewrite (int_asis_spec u o x i Hx Hu), int_spec_as_bin.
  pose proof (Inv_int i) as Hi. destruct o; cbn [int_as_bin bin3]; symmetry; apply bin_asis_spec; assumption.
Qed.

(** the integer on the left: `i + x` and `i * x` run the body of `x + i`, `x * i`; they agree with the
    all-rational form with the operands in source order *)
Theorem rbig_int_commuted_forms_agree : forall u x i, Inv x -> (u = true -> 0 <= i) ->
  int_asis u IAdd x i = bin_asis OAdd (i, 1) x /\ int_asis u IMul x i = bin_asis OMul (i, 1) x.
Proof.
  intros u x i Hx Hu. pose proof (Inv_int i) as Hi.
  rewrite (int_asis_spec u IAdd x i Hx Hu), (int_asis_spec u IMul x i Hx Hu), !bin_asis_spec by assumption.
  destruct x as [a b]. cbn [int_spec bin_spec]. split; f_equal; f_equal; ring.
Qed.

(** RBig: the trait method div_rem_euclid returns the results of div_euclid and rem_euclid *)
Theorem rbig_euclid_forms_agree : forall x y, Inv x -> Inv y ->
  divreme_asis x y = rbind (dive_asis x y) (fun q => rbind (reme_asis x y) (fun r => Ok (q, r))).
Proof.
  intros x y Hx Hy. rewrite (divreme_asis_spec x y Hx Hy), (dive_asis_spec x y), (reme_asis_spec x y Hx Hy). reflexivity.
Qed.

(** two results of Relaxed forms: equal values (cross multiplication), or the same panic *)
Definition forms_veq (r1 r2 : result rat) : Prop :=
  match r1, r2 with
  | Ok a, Ok b => RInv a /\ RInv b /\ veq a b
  | Panic p, Panic q => p = q
  | _, _ => False
  end.

Lemma res_veq_join r1 r2 s : res_veq r1 s -> res_veq r2 s -> (forall v, s = Ok v -> RInv v) -> forms_veq r1 r2.
Proof.
  intros H1 H2 Hs. destruct r1 as [a| p | |], r2 as [b| q | |], s as [v| t | |]; cbn [res_veq forms_veq] in *; try contradiction; try congruence.
  destruct H1 as [Ra Va], H2 as [Rb Vb]. specialize (Hs v eq_refl). repeat split; auto.
  apply veq_trans with (y := v); [unfold RInv in Hs; lia | exact Va | apply veq_sym; exact Vb].
Qed.

Lemma bin_spec_RInv o x y v : RInv x -> RInv y -> bin_spec o x y = Ok v -> RInv v.
Proof.
  destruct x as [a b], y as [c d]. unfold RInv. cbn [snd]. intros Hb Hd E.
  assert (HC : forall N D, 0 < D -> 0 < snd (canon N D)) by (intros N D HD; apply (canon_Inv N D HD)).
  destruct o; cbn [bin_spec] in E; try (destruct (c =? 0) eqn:Ec; [discriminate|]; apply Z.eqb_neq in Ec);
    inversion E; subst v; apply HC; nia.
Qed.

(** Relaxed: the integer-mixed forms and the all-rational form on Relaxed::from(i) return the same value *)
Theorem relaxed_int_forms_agree : forall u o x i, RInv x -> (u = true -> 0 <= i) ->
  forms_veq (xint_asis u o x i) (bin3 xbin_asis (int_as_bin o x i)).
Proof.
  intros u o x i Hx Hu. assert (Hi : RInv (i, 1)) by (unfold RInv; cbn; lia).
  pose proof (xint_asis_spec u o x i Hx Hu) as H1. rewrite int_spec_as_bin in H1.
  destruct o; cbn [int_as_bin bin3] in *;
    (eapply res_veq_join; [exact H1 | apply xbin_asis_spec; assumption | intros v E; eapply bin_spec_RInv; [| |exact E]; assumption]).
Qed.

(** Relaxed vs RBig: every Relaxed form (all-rational or integer-mixed) on operands with the values
    of x and y returns the value the RBig form returns (C04, restated for the record of forms) *)
Theorem relaxed_forms_eq_rbig : forall o io u x' y' x y i,
  RInv x' -> RInv y' -> Inv x -> Inv y -> veq x' x -> veq y' y -> (u = true -> 0 <= i) ->
  res_veq (xbin_asis o x' y') (bin_asis o x y) /\ res_veq (xint_asis u io x' i) (int_asis u io x i).
Proof.
  intros o io u x' y' x y i Hx' Hy' Hx Hy V1 V2 Hu.
  split; [apply relaxed_bin_eq_rbig | apply relaxed_int_eq_rbig]; assumption.
Qed.

(** non-vacuity: 3/4 - 2 through impl_addsub_int_with_rbig and through the all-rational body;
    6 / (3/4) with the integer on the left; 1/2 + 3 in Relaxed *)
Example rbig_int_forms_nonvacuous :
  int_asis false ISub (3, 4) 2 = Ok (-5, 4) /\ bin_asis OSub (3, 4) (2, 1) = Ok (-5, 4) /\
  int_asis true IRdiv (3, 4) 6 = Ok (8, 1) /\ bin_asis ODiv (6, 1) (3, 4) = Ok (8, 1) /\
  xint_asis true IAdd (1, 2) 3 = Ok (7, 2).
Proof. repeat split; vm_compute; reflexivity. Qed.
