(** C15: the call forms of the residue operators (integer/src/modular: Reduced).
    add.rs / mul.rs / div.rs write ONE body per operator (the `op=` form on (&mut self, &rhs)) and
    forward the other forms to it: `a op b` = a.op(&b); `a op &b` = { a.op_assign(b); a };
    `&a op &b` = a.clone().op(b); `a / b` in every form = (&a).div(&b) - the same function of the
    two values (agreement by construction).  The forms that are a DIFFERENT call:
      - `&a + b` = b.add(a) and `&a * b` = b.mul(a): the body runs on the EXCHANGED operands;
      - `&a - b` has its own kernel (ring.sub written into rhs / sub_in_place_swap), the same value
        function in C13's model (Int/ModRingModel.v sub_asis; word level: ModRingWords.v);
      - a.sqr() against a * a (mul_in_place also detects equal operands), a.dbl() against a + a.
    Proved here as corollaries of C13 (Int/ModRingMain.v asis_ring_ops, Int/ModRingProofs.v
    different_rings_panic; relative to C13's contracts of num-modular's reciprocal division,
    imported read-only): a residue representation is determined by the ring and the residue, hence
    these forms return the IDENTICAL Reduced value, and for operands of different rings every form
    panics with DifferentRings.  Any word size w >= 2. *)
From Dashu Require Import Base.Prelude Base.Words Int.ModRingSpec Int.ModRingModel Int.ModRingProofs Int.ModRingMain.
Open Scope Z_scope.

Inductive rown := RVV | RVR | RRV | RRR.   (* lhs, rhs: V = by value, R = by reference *)

Section FormsMod.
Variables (w : Z) (f2 : Z -> Z -> Z * Z) (f3 : Z -> Z -> Z -> Z * Z) (finv : Z -> Z -> option Z) (fgcd : Z -> Z -> Z * Z * sign).
Hypothesis w_ge : 2 <= w.
Hypothesis ext : externals_ok w f2 f3 finv fgcd.

(** the four impls of Add / Mul / Sub for Reduced (op= is the VR body itself) *)
Definition residue_add_form (o : rown) (a b : reduced) : result reduced :=
  match o with RRV => add_asis w b a | _ => add_asis w a b end.
Definition residue_mul_form (o : rown) (a b : reduced) : result reduced :=
  match o with RRV => mul_asis w f2 f3 b a | _ => mul_asis w f2 f3 a b end.
Definition residue_sub_form (o : rown) (a b : reduced) : result reduced := sub_asis w a b.

(** a residue representation is unique *)
Lemma rep_unique r x c c' : rep r x c -> rep r x c' -> c = c'.
Proof. intros [R1 V1] [R2 V2]. destruct c as [raw rg], c' as [raw' rg']. cbn [e_ring e_raw] in *. congruence. Qed.

Lemma rep_mod_congr r x y c : x mod r_m r = y mod r_m r -> rep r x c -> rep r y c.
Proof. intros E [R V]. split; [exact R | rewrite <- E; exact V]. Qed.

(** operands of one ring: every ownership form of + * - returns the same Reduced value, which
    represents the integer result *)
Theorem residue_forms_identical : forall o o' r x y a b, ring_wf w r -> rep r x a -> rep r y b ->
  (exists c, residue_add_form o a b = Ok c /\ residue_add_form o' a b = Ok c /\ rep r (x + y) c) /\
  (exists c, residue_mul_form o a b = Ok c /\ residue_mul_form o' a b = Ok c /\ rep r (x * y) c) /\
  (exists c, residue_sub_form o a b = Ok c /\ residue_sub_form o' a b = Ok c /\ rep r (x - y) c).
Proof.
  intros o o' r x y a b Hwf Ha Hb.
  destruct (asis_ring_ops w f2 f3 finv fgcd w_ge ext r x y a b Hwf Ha Hb) as ((ca & Ea & Ra) & (cs & Es & Rs) & (cm & Em & Rm) & _).
  destruct (asis_ring_ops w f2 f3 finv fgcd w_ge ext r y x b a Hwf Hb Ha) as ((ca' & Ea' & Ra') & _ & (cm' & Em' & Rm') & _).
  rewrite Z.add_comm in Ra'. rewrite Z.mul_comm in Rm'.
  assert (ca' = ca) by (eapply rep_unique; eassumption). assert (cm' = cm) by (eapply rep_unique; eassumption). subst ca' cm'.
  split; [exists ca | split; [exists cm | exists cs]]; unfold residue_sub_form;
    (split; [destruct o; assumption | split; [destruct o'; assumption | assumption]]).
Qed.

(** operands of different rings: every form of + * - panics with DifferentRings *)
Theorem residue_forms_different_rings : forall o a b, r_id (e_ring a) <> r_id (e_ring b) ->
  residue_add_form o a b = Panic DifferentRings /\ residue_mul_form o a b = Panic DifferentRings /\
  residue_sub_form o a b = Panic DifferentRings.
Proof.
  intros o a b Hne. unfold residue_add_form, residue_mul_form, residue_sub_form, add_asis, sub_asis, mul_asis, same_ring.
  replace (r_id (e_ring a) =? r_id (e_ring b)) with false by (symmetry; apply Z.eqb_neq; exact Hne).
  replace (r_id (e_ring b) =? r_id (e_ring a)) with false by (symmetry; apply Z.eqb_neq; congruence).
  rewrite !andb_false_r. destruct o; repeat split; reflexivity.
Qed.

(** method forms: a.sqr() = a * a, a.dbl() = a + a, -a = 0 - a ... as identical Reduced values *)
Theorem residue_method_forms_identical : forall o r x a, ring_wf w r -> rep r x a ->
  (exists c, sqr_asis w f2 f3 a = Ok c /\ residue_mul_form o a a = Ok c /\ rep r (x * x) c) /\
  (exists c, dbl_asis w a = Ok c /\ residue_add_form o a a = Ok c /\ rep r (x + x) c).
Proof.
  intros o r x a Hwf Ha.
  destruct (asis_ring_ops w f2 f3 finv fgcd w_ge ext r x x a a Hwf Ha Ha)
    as ((ca & Ea & Ra) & _ & (cm & Em & Rm) & _ & (cd & Ed & Rd) & (cq & Eq & Rq) & _).
  replace (2 * x) with (x + x) in Rd by ring.
  assert (cq = cm) by (eapply rep_unique; eassumption). assert (cd = ca) by (eapply rep_unique; eassumption). subst cq cd.
  split; [exists cm | exists ca]; (split; [assumption | split; [destruct o; assumption | assumption]]).
Qed.

End FormsMod.

(** non-vacuity: 64-bit words, the exact external functions (C13's externals_nonvacuous), the ring
    of residues modulo 7: 5 + 4 in the exchanged-operand form `&a + b` and in the plain form *)
Example residue_forms_nonvacuous :
  let f2 := fun d a => (a / d, a mod d) in
  let f3 := fun d lo hi => ((lo + 2 ^ 64 * hi) / d, (lo + 2 ^ 64 * hi) mod d) in
  exists r a b c, ring_wf 64 r /\ r_m r = 7 /\ rep r 5 a /\ rep r 4 b /\
    residue_add_form 64 RRV a b = Ok c /\ residue_add_form 64 RVV a b = Ok c /\ rep r (5 + 4) c.
Proof.
  intros f2 f3. pose proof externals_nonvacuous as ext. assert (Hw : 2 <= 64) by lia.
  destruct (new_ring_ok 64 Hw 1 7 ltac:(lia)) as (r & _ & Hwf & Em & _).
  destruct (reduce_ok 64 Hw _ _ (ext_2by1 _ _ _ _ _ ext) (ext_3by2 _ _ _ _ _ ext) r 5 Hwf) as (a & _ & Ha).
  destruct (reduce_ok 64 Hw _ _ (ext_2by1 _ _ _ _ _ ext) (ext_3by2 _ _ _ _ _ ext) r 4 Hwf) as (b & _ & Hb).
  destruct (residue_forms_identical 64 _ _ _ _ Hw ext RRV RVV r 5 4 a b Hwf Ha Hb) as ((c & E1 & E2 & Rc) & _).
  exists r, a, b, c. exact (conj Hwf (conj Em (conj Ha (conj Hb (conj E1 (conj E2 Rc)))))).
Qed.
