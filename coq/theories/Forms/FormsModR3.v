(** C15 (round 3): the forwarding structure of the residue operators REGENERATED from
    integer/src/modular/{add,mul,div}.rs (tools/translate_c15_r3.py -> DashuGen.FormsModGen: for each
    of the 4 x 4 ownership impls of Add / Sub / Mul / Div and the 4 x 2 impls of the op= traits on
    Reduced, the impl it forwards to - with the operands exchanged or not - or the fact that it has a
    body of its own), proved equal to the hand-written form models of Forms/FormsMod.v; the forms of
    `/` and of the four op= (one call each, by the regenerated table), with C13's theorem about the
    division (Int/ModRingMain.v asis_div, imported read-only). *)
From Dashu Require Import Base.Prelude Base.Words Int.RingOps Int.ModRingSpec Int.ModRingModel Int.ModRingProofs Int.ModRingMain Forms.FormsMod.
From DashuGen Require Import FormsModGen.
Open Scope Z_scope.

Definition rown_of (o : own) : rown := match o with OVV => RVV | OVR => RVR | ORV => RRV | ORR => RRR end.

Section FormsModR3.
Variables (w : Z) (f2 : Z -> Z -> Z * Z) (f3 : Z -> Z -> Z -> Z * Z) (finv : Z -> Z -> option Z) (fgcd : Z -> Z -> Z * Z * sign).
Hypothesis w_ge : 2 <= w.
Hypothesis ext : externals_ok w f2 f3 finv fgcd.

(** the five impls with a body, with C13's as-is models (`&a - b` has its own kernel, the same
    value function in the model) *)
Definition model_res_kernels : res_kernels reduced := {|
  rk_add_assign_R := add_asis w;
  rk_sub_assign_R := sub_asis w;
  rk_sub_RV := sub_asis w;
  rk_mul_assign_R := mul_asis w f2 f3;
  rk_div_RR := div_asis w f2 f3 finv fgcd |}.
Notation MK := model_res_kernels.

Theorem gen_residue_model : forall o a b,
  gen_radd MK o a b = residue_add_form w (rown_of o) a b /\
  gen_rsub MK o a b = residue_sub_form w (rown_of o) a b /\
  gen_rmul MK o a b = residue_mul_form w f2 f3 (rown_of o) a b /\
  gen_rdiv MK o a b = div_asis w f2 f3 finv fgcd a b /\
  (forall byref, gen_radd_assign MK byref a b = add_asis w a b /\ gen_rsub_assign MK byref a b = sub_asis w a b /\
                 gen_rmul_assign MK byref a b = mul_asis w f2 f3 a b /\ gen_rdiv_assign MK byref a b = div_asis w f2 f3 finv fgcd a b).
Proof.
  intros o a b. repeat split; try (destruct o; reflexivity); destruct byref; reflexivity.
Qed.

(** `/` and `/=` of residues: every form is the one call (&a).div(&b); it returns the quotient
    C13 specifies, or every form panics alike (non-invertible divisor / different rings) *)
Theorem residue_div_forms_identical : forall o o' byref r x y a b, ring_wf w r -> rep r x a -> rep r y b ->
  gen_rdiv MK o a b = gen_rdiv MK o' a b /\ gen_rdiv_assign MK byref a b = gen_rdiv MK o a b /\
  match div_spec (r_m r) x y with
  | Ok q => exists c, gen_rdiv MK o a b = Ok c /\ rep r q c
  | Panic p => gen_rdiv MK o a b = Panic p
  | _ => False
  end.
Proof.
  intros o o' byref r x y a b Hwf Ha Hb.
  destruct (gen_residue_model o a b) as (_ & _ & _ & D & A). destruct (gen_residue_model o' a b) as (_ & _ & _ & D' & _).
  destruct (A byref) as (_ & _ & _ & DA). rewrite D, D', DA. split; [reflexivity|]. split; [reflexivity|].
  exact (asis_div w f2 f3 finv fgcd w_ge ext r x y a b Hwf Ha Hb).
Qed.

(** op= of residues is the body the operator forms forward to: `a op= b` leaves what `a op b` returns *)
Theorem residue_assign_forms_identical : forall byref a b,
  gen_radd_assign MK byref a b = gen_radd MK OVR a b /\ gen_rsub_assign MK byref a b = gen_rsub MK OVR a b /\
  gen_rmul_assign MK byref a b = gen_rmul MK OVR a b.
Proof. intros byref a b. destruct byref; repeat split; reflexivity. Qed.

End FormsModR3.
