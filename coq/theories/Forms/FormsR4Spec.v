(** C15 (round 4), definitions only: the float operators `*` and `/` next to the Context methods AFTER the
    repairs 675af08 / da565f6 of the finding float_operand_exceeds_precision (float/src/{mul,div}.rs; by
    deep-C03, whose as-is models Float/FixModel.v are used here): Context::mul / sqr / cubic round the exact
    product once (no pre-shrinking), Context::div = repr_div of the operands as they are, repr_div scales
    the divisor for an over-long dividend.  The operator bodies did not change (Forms/FormsFloatSpec.v
    fmul_op; `/` calls the same repr_div). *)
From Dashu Require Import Base.Prelude Float.RoundSpec Float.Contract Float.Model Float.AddModel Float.DivMulModel Float.FixModel.
Open Scope Z_scope.

Section R4Spec.
Variable B : Z.

(** Context::mul(..).value() at precision p *)
Definition fmul_ctx_r4 (p : Z) (m : mode) (s1 e1 s2 e2 : Z) : Z * Z := approx_val (ctx_mul_fix B p m s1 e1 s2 e2).
(** FBig / FBig in any ownership form (and /=): context.repr_div(lhs.repr, rhs.repr).value() *)
Definition fdiv_op_r4 (p : Z) (m : mode) (s1 e1 s2 e2 : Z) : result (Z * Z) := map_val (repr_div_fix B p m s1 e1 s2 e2).
(** Context::div(..).value() *)
Definition fdiv_ctx_r4 (p : Z) (m : mode) (s1 e1 s2 e2 : Z) : result (Z * Z) := map_val (ctx_div_fix B p m s1 e1 s2 e2).
(** FBig::sqr / cubic / inv = the Context method at the value's precision *)
Definition fsqr_r4 (p : Z) (m : mode) (s e : Z) : Z * Z := approx_val (ctx_sqr_fix B p m s e).
Definition fcubic_r4 (p : Z) (m : mode) (s e : Z) : Z * Z := approx_val (ctx_cubic_fix B p m s e).
Definition finv_r4 (p : Z) (m : mode) (s e : Z) : result (Z * Z) := map_val (ctx_inv_fix B p m s e).

End R4Spec.

(** the operators taking a prepared divisor, `x / &cd`, `x % &cd`, `x.div_rem(&cd)` and the assignment forms
    (integer/src/div_const.rs): UBig forms call the ConstDivisor kernels of C02 (Int/DivWordModel.v const_div_rem /
    const_rem: the Single / Double / Large divisor tables), IBig forms split the sign off, run the kernel on the
    magnitude and put the sign of the dividend on quotient and remainder (`with_sign(sign)`); every ownership
    form and the assignment form (by mem::take) run that one body.  `/` is modelled as the quotient half of
    div_rem (its own arm table calls the division-only variants of the same kernels). *)
From Dashu Require Import Int.DivWordModel Int.DivWordInst.

Definition cd_with_sign (a v : Z) : Z := Z.sgn a * v.       (* Repr::with_sign(sign of the dividend); zero stays zero *)
Definition cd_divrem_asis (w a d : Z) : result (Z * Z) :=
  rbind (i_const_div_rem w (Z.abs a) d) (fun qr => Ok (cd_with_sign a (fst qr), cd_with_sign a (snd qr))).
Definition cd_div_asis (w a d : Z) : result Z := rbind (cd_divrem_asis w a d) (fun qr => Ok (fst qr)).
Definition cd_rem_asis (w a d : Z) : result Z := rbind (i_const_rem w (Z.abs a) d) (fun r => Ok (cd_with_sign a r)).
