(** C15 (round 4): the forms with a prepared divisor (`&ConstDivisor`) return what the plain operators return:
    truncated quotient, remainder with the sign of the dividend, the documented panic for a zero divisor - for
    UBig and IBig, every ownership form and the assignment forms (one body each).  On C02's theorems about the
    ConstDivisor kernels (Int/DivWordInstProofs.v i_const_div_rem_correct / i_const_rem_correct). Any word size. *)
From Dashu Require Import Base.Prelude Base.Words Int.DivWordModel Int.DivWordInst Int.DivWordInstProofs.
From Dashu Require Import Forms.FormsSpec Forms.FormsR4Spec.
Open Scope Z_scope.

Lemma quot_sgn_abs a d : 0 < d -> Z.quot a d = Z.sgn a * (Z.abs a / d).
Proof.
  intros Hd. destruct (Z.lt_trichotomy a 0) as [N|[->|P]].
  - rewrite Z.sgn_neg, Z.abs_neq by lia. replace a with (- - a) at 1 by ring.
    rewrite Z.quot_opp_l by lia. rewrite Z.quot_div_nonneg by lia. ring.
  - reflexivity.
  - rewrite Z.sgn_pos, Z.abs_eq by lia. rewrite Z.quot_div_nonneg by lia. ring.
Qed.

Lemma rem_sgn_abs a d : 0 < d -> Z.rem a d = Z.sgn a * (Z.abs a mod d).
Proof.
  intros Hd. destruct (Z.lt_trichotomy a 0) as [N|[->|P]].
  - rewrite Z.sgn_neg, Z.abs_neq by lia. replace a with (- - a) at 1 by ring.
    rewrite Z.rem_opp_l by lia. rewrite Z.rem_mod_nonneg by lia. ring.
  - reflexivity.
  - rewrite Z.sgn_pos, Z.abs_eq by lia. rewrite Z.rem_mod_nonneg by lia. ring.
Qed.

Section ConstDiv.
Variable w : Z.
Hypothesis w_pos : 0 < w.

Lemma const_zero_divisor a : i_const_div_rem w a 0 = Panic DivideBy0 /\ i_const_rem w a 0 = Panic DivideBy0.
Proof. split; reflexivity. Qed.

Theorem constdiv_forms_agree : forall a d, 0 <= d ->
  cd_divrem_asis w a d = divrem_spec a d /\ cd_div_asis w a d = iop_spec IoDiv a d /\ cd_rem_asis w a d = iop_spec IoRem a d.
Proof.
  intros a d Hd. unfold cd_divrem_asis, cd_div_asis, cd_rem_asis, cd_divrem_asis, divrem_spec, iop_spec, cd_with_sign.
  destruct (Z.eqb_spec d 0) as [->|Nd].
  - destruct (const_zero_divisor (Z.abs a)) as [E1 E2]. rewrite E1, E2. cbn [rbind]. repeat split.
  - assert (0 < d) as Pd by lia. pose proof (Z.abs_nonneg a) as Ha.
    rewrite (i_const_div_rem_correct w w_pos (Z.abs a) d Ha Pd), (i_const_rem_correct w w_pos (Z.abs a) d Ha Pd).
    cbn [rbind fst snd]. rewrite <- quot_sgn_abs, <- rem_sgn_abs by exact Pd. repeat split.
Qed.

(** UBig operands: the sign step is the identity *)
Theorem constdiv_ubig : forall a d, 0 <= a -> 0 < d ->
  cd_divrem_asis w a d = Ok (a / d, a mod d).
Proof.
  intros a d Ha Hd. destruct (constdiv_forms_agree a d ltac:(lia)) as [E _]. rewrite E. unfold divrem_spec.
  replace (d =? 0) with false by (symmetry; apply Z.eqb_neq; lia).
  rewrite Z.quot_div_nonneg, Z.rem_mod_nonneg by lia. reflexivity.
Qed.
End ConstDiv.

Example constdiv_nonvacuous :
  cd_divrem_asis 64 (-7) 3 = Ok (-2, -1) /\ cd_rem_asis 64 (- (2 ^ 200 + 5)) (2 ^ 64 + 1) = iop_spec IoRem (- (2 ^ 200 + 5)) (2 ^ 64 + 1) /\
  cd_div_asis 64 5 0 = Panic DivideBy0.
Proof. repeat split; vm_compute; reflexivity. Qed.
