(** C15: the four hand-written bodies of FBig + and - (float/src/add.rs add_val_val, add_val_ref,
    add_ref_val, add_ref_ref - as-is models in Float/AddModel.v) return the same value for ALL
    operands, precisions, modes and digit estimates; they equal Context::add / Context::sub when no
    operand is longer than the precision; the operator * equals Context::mul under the analogous
    condition.  Outside that condition the forms differ (finding class float_operand_exceeds_precision). *)
From Dashu Require Import Base.Prelude Float.RoundSpec Float.Contract Float.Model Float.AddModel.
From Dashu Require Import Forms.FormsFloatSpec.
From DashuGen Require Import RoundTables.
From Coq Require Import Zquot.
Open Scope Z_scope.

Lemma quot_opp_any : forall a b, Z.quot (- a) b = - Z.quot a b.
Proof.
  intros a b. destruct (Z.eq_dec b 0) as [->|Hb].
  - rewrite !Zquot_0_r. reflexivity.
  - apply Z.quot_opp_l. exact Hb.
Qed.

Lemma rem_opp_any : forall a b, Z.rem (- a) b = - Z.rem a b.
Proof.
  intros a b. destruct (Z.eq_dec b 0) as [->|Hb].
  - rewrite !Zrem_0_r. reflexivity.
  - apply Z.rem_opp_l. exact Hb.
Qed.

Lemma sign_eqb_sym : forall a b, sign_eqb a b = sign_eqb b a.
Proof. destruct a, b; reflexivity. Qed.
Lemma sign_mul_pos_l : forall a, sign_mul Positive a = a.
Proof. destruct a; reflexivity. Qed.

Lemma sign_of_opp : forall s, s <> 0 -> sign_of (- s) = sign_neg (sign_of s).
Proof.
  intros s Hs. unfold sign_of. destruct (Z.ltb_spec (- s) 0), (Z.ltb_spec s 0); cbn [sign_neg]; auto; lia.
Qed.
Lemma sign_mul_neg_l : forall a, sign_mul Negative a = sign_neg a.
Proof. destruct a; reflexivity. Qed.

Lemma dlen_opp : forall B s, dlen B (- s) = dlen B s.
Proof. intros B s. unfold dlen. rewrite Z.abs_opp. reflexivity. Qed.

Section Forms.
Variable B : Z.
Variable digits_ub : Z -> Z.
(** the digit estimate looks at the magnitude only (Repr::digits_ub: log2 bounds of |significand|) *)
Hypothesis digits_ub_opp : forall s, digits_ub (- s) = digits_ub s.

Notation large_small := (repr_add_large_small B digits_ub).
Notation small_large := (repr_add_small_large B digits_ub).
Notation dispatch := (add_dispatch B digits_ub).

Lemma split_digits_opp : forall v k,
  split_digits B (- v) k = (- fst (split_digits B v k), - snd (split_digits B v k)).
Proof. intros v k. unfold split_digits. cbn [fst snd]. rewrite quot_opp_any, rem_opp_any. reflexivity. Qed.

(** [rhs.repr.significand *= rhs_sign] followed by an addition is the same as passing the sign down *)
Lemma large_small_sign : forall p m s1 e1 s2 e2 sg, s2 <> 0 ->
  large_small p m s1 e1 (sgnz sg * s2) e2 Positive = large_small p m s1 e1 s2 e2 sg.
Proof.
  intros p m s1 e1 s2 e2 sg Hs2. destruct sg; cbn [sgnz].
  - rewrite Z.mul_1_l. reflexivity.
  - replace (-1 * s2) with (- s2) by ring.
    unfold repr_add_large_small.
    rewrite digits_ub_opp. rewrite (sign_of_opp s2 Hs2). rewrite (sign_mul_pos_l (sign_neg (sign_of s2))), (sign_mul_neg_l (sign_of s2)).
    cbn [sgnz].
    set (is_sub := negb (sign_eqb (sign_of s1) (sign_neg (sign_of s2)))).
    destruct (negb (p =? 0) && (digits_ub s2 + 1 <? e1 - e2) &&
              (digits_ub s2 + 1 + (p + b2z is_sub) <? dlen B s1 + (e1 - e2))).
    { f_equal. rewrite Z.sgn_opp. ring. }
    destruct (negb (p =? 0) && (dlen B s1 >=? p)).
    { rewrite split_digits_opp. destruct (split_digits B s2 (e1 - e2)) as [hi lo]. cbn [fst snd].
      f_equal; ring. }
    destruct (negb (p =? 0) && (e1 - e2 + dlen B s1 >? p)).
    { rewrite split_digits_opp. destruct (split_digits B s2 (e1 - e2 - (p - dlen B s1))) as [hi lo]. cbn [fst snd].
      f_equal; ring. }
    f_equal; ring.
Qed.

Lemma small_large_sign : forall p m s1 e1 s2 e2 sg, s2 <> 0 ->
  small_large p m s1 e1 (sgnz sg * s2) e2 Positive = small_large p m s1 e1 s2 e2 sg.
Proof.
  intros p m s1 e1 s2 e2 sg Hs2. destruct sg; cbn [sgnz].
  - rewrite Z.mul_1_l. reflexivity.
  - replace (-1 * s2) with (- s2) by ring.
    unfold repr_add_small_large.
    rewrite dlen_opp. rewrite (sign_of_opp s2 Hs2). rewrite (sign_mul_pos_l (sign_neg (sign_of s2))), (sign_mul_neg_l (sign_of s2)).
    cbn [sgnz]. unfold shl_digits.
    set (is_sub := negb (sign_eqb (sign_of s1) (sign_neg (sign_of s2)))).
    destruct (negb (p =? 0) && (digits_ub s1 + 1 <? e2 - e1) &&
              (digits_ub s1 + 1 + (p + b2z is_sub) <? dlen B s2 + (e2 - e1))).
    { f_equal; ring. }
    destruct (negb (p =? 0) && (dlen B s2 >=? p)).
    { destruct (split_digits B s1 (e2 - e1)) as [hi lo]. f_equal; ring. }
    destruct (negb (p =? 0) && (e2 - e1 + dlen B s2 >? p)).
    { destruct (split_digits B s1 (e2 - e1 - (p - dlen B s2))) as [hi lo]. f_equal; ring. }
    f_equal; ring.
Qed.

Lemma dispatch_sign : forall p m s1 e1 s2 e2 sg, s2 <> 0 ->
  dispatch p m s1 e1 (sgnz sg * s2) e2 Positive = dispatch p m s1 e1 s2 e2 sg.
Proof.
  intros p m s1 e1 s2 e2 sg Hs2. unfold add_dispatch. destruct (e1 ?= e2).
  - cbn [sgnz]. rewrite Z.mul_1_l. reflexivity.
  - apply small_large_sign; exact Hs2.
  - apply large_small_sign; exact Hs2.
Qed.

(** add_ref_val swaps the operands (the owned one is the right one): large_small <-> small_large *)
Lemma swap_small_large : forall p m s1 e1 s2 e2,
  small_large p m s2 e2 s1 e1 Positive = large_small p m s1 e1 s2 e2 Positive.
Proof.
  intros p m s1 e1 s2 e2. unfold repr_add_small_large, repr_add_large_small.
  rewrite !sign_mul_pos_l, (sign_eqb_sym (sign_of s2) (sign_of s1)). cbn [sgnz]. unfold shl_digits.
  set (is_sub := negb (sign_eqb (sign_of s1) (sign_of s2))).
  destruct (negb (p =? 0) && (digits_ub s2 + 1 <? e1 - e2) &&
            (digits_ub s2 + 1 + (p + b2z is_sub) <? dlen B s1 + (e1 - e2))).
  { f_equal; ring. }
  destruct (negb (p =? 0) && (dlen B s1 >=? p)).
  { destruct (split_digits B s2 (e1 - e2)) as [hi lo]. f_equal; ring. }
  destruct (negb (p =? 0) && (e1 - e2 + dlen B s1 >? p)).
  { destruct (split_digits B s2 (e1 - e2 - (p - dlen B s1))) as [hi lo]. f_equal; ring. }
  f_equal; ring.
Qed.

Lemma swap_large_small : forall p m s1 e1 s2 e2,
  large_small p m s2 e2 s1 e1 Positive = small_large p m s1 e1 s2 e2 Positive.
Proof. intros. symmetry. apply swap_small_large. Qed.

Lemma mul_sgnz_eqb0 : forall sg s, (sgnz sg * s =? 0) = (s =? 0).
Proof.
  intros sg s. destruct sg; cbn [sgnz]; destruct (Z.eqb_spec s 0), (Z.eqb_spec (1 * s) 0), (Z.eqb_spec (-1 * s) 0); auto; lia.
Qed.

(** ALL FOUR BODIES AGREE, for every operand, precision, mode, sign of the operation and estimate *)
Theorem float_add_forms_agree : forall p1 p2 m s1 e1 s2 e2 sg,
  add_val_ref B digits_ub p1 p2 m s1 e1 s2 e2 sg = add_val_val B digits_ub p1 p2 m s1 e1 s2 e2 sg /\
  add_ref_val B digits_ub p1 p2 m s1 e1 s2 e2 sg = add_val_val B digits_ub p1 p2 m s1 e1 s2 e2 sg /\
  add_ref_ref B digits_ub p1 p2 m s1 e1 s2 e2 sg = add_val_val B digits_ub p1 p2 m s1 e1 s2 e2 sg.
Proof.
  intros p1 p2 m s1 e1 s2 e2 sg.
  assert (Hvr : add_val_ref B digits_ub p1 p2 m s1 e1 s2 e2 sg = add_val_val B digits_ub p1 p2 m s1 e1 s2 e2 sg).
  { unfold add_val_ref, add_val_val. rewrite mul_sgnz_eqb0.
    destruct (s1 =? 0); [reflexivity|]. destruct (Z.eqb_spec s2 0) as [->|Hs2].
    - reflexivity.
    - rewrite dispatch_sign by exact Hs2. reflexivity. }
  split; [exact Hvr|]. split; [|exact Hvr].
  unfold add_ref_val, add_val_val. destruct (s1 =? 0); [reflexivity|].
  destruct (sgnz sg * s2 =? 0); [reflexivity|].
  unfold add_dispatch. destruct (e1 ?= e2).
  - cbn [sgnz]. rewrite Z.mul_1_l. reflexivity.
  - rewrite swap_large_small. reflexivity.
  - rewrite swap_small_large. reflexivity.
Qed.

(** a value that fits the precision is not touched by Context::repr_round *)
Lemma repr_round_fits : forall p m s e, (p = 0 \/ dlen B s <= p) -> repr_round B p m s e = AExact s e.
Proof.
  intros p m s e H. unfold repr_round. destruct (Z.eqb_spec p 0); [reflexivity|].
  destruct (Z.gtb_spec (dlen B s) p); [lia | reflexivity].
Qed.

(** operator vs Context method: equal when no operand is longer than the precision of the result *)
Theorem float_add_ctx_agrees : forall p1 p2 m s1 e1 s2 e2,
  let p := ctx_max p1 p2 in
  (p = 0 \/ (dlen B s1 <= p /\ dlen B s2 <= p)) ->
  approx_val (ctx_add B digits_ub p m s1 e1 s2 e2) = add_val_val B digits_ub p1 p2 m s1 e1 s2 e2 Positive.
Proof.
  intros p1 p2 m s1 e1 s2 e2 p H. unfold ctx_add, add_val_val. fold p. cbn [sgnz]. rewrite Z.mul_1_l.
  destruct (s1 =? 0).
  - rewrite repr_round_fits by tauto. reflexivity.
  - destruct (s2 =? 0).
    + rewrite repr_round_fits by tauto. reflexivity.
    + reflexivity.
Qed.

Theorem float_sub_ctx_agrees : forall p1 p2 m s1 e1 s2 e2,
  let p := ctx_max p1 p2 in
  (p = 0 \/ (dlen B s1 <= p /\ dlen B s2 <= p)) ->
  approx_val (ctx_sub B digits_ub p m s1 e1 s2 e2) = add_val_val B digits_ub p1 p2 m s1 e1 s2 e2 Negative.
Proof.
  intros p1 p2 m s1 e1 s2 e2 p H. unfold ctx_sub, add_val_val. fold p. rewrite mul_sgnz_eqb0.
  destruct (s1 =? 0).
  - rewrite repr_round_fits by tauto. cbn [approx_neg approx_val approx_sig approx_exp sgnz].
    replace (-1 * s2) with (- s2) by ring. reflexivity.
  - destruct (Z.eqb_spec s2 0) as [->|Hs2].
    + rewrite repr_round_fits by tauto. reflexivity.
    + rewrite dispatch_sign by exact Hs2. reflexivity.
Qed.

(** the operator * (one rounding of the exact product) equals Context::mul when no operand is
    longer than twice the precision *)
Theorem float_mul_ctx_agrees : forall p m s1 e1 s2 e2,
  (p = 0 \/ (dlen B s1 <= 2 * p /\ dlen B s2 <= 2 * p)) ->
  approx_val (ctx_mul B p m s1 e1 s2 e2) = fmul_op B p m s1 e1 s2 e2.
Proof.
  intros p m s1 e1 s2 e2 H. unfold ctx_mul, fmul_op, shrink.
  destruct (Z.eqb_spec p 0).
  - destruct (normalize B (s1 * s2) (e1 + e2)); reflexivity.
  - destruct (Z.gtb_spec (dlen B s1) (2 * p)); [lia|]. destruct (Z.gtb_spec (dlen B s2) (2 * p)); [lia|].
    destruct (normalize B (s1 * s2) (e1 + e2)); reflexivity.
Qed.


(** the operator / (repr_div directly) equals Context::div when the dividend is not longer than
    precision + digits of the divisor (otherwise the operator trips repr_div's debug assertion) *)
Theorem float_div_ctx_agrees : forall p m s1 e1 s2 e2,
  dlen B s1 <= p + dlen B s2 ->
  fdiv_ctx B p m s1 e1 s2 e2 = fdiv_op B p m s1 e1 s2 e2.
Proof.
  intros p m s1 e1 s2 e2 H. unfold fdiv_ctx, fdiv_op.
  destruct (Z.gtb_spec (dlen B s1) (dlen B s2 + p)); [lia|]. rewrite andb_false_r.
  destruct (Z.gtb_spec (dlen B s1) (p + dlen B s2)); [lia|]. reflexivity.
Qed.

End Forms.

(** the estimate used for execution satisfies the hypothesis *)
Lemma dlen_estimate_opp : forall B s, dlen B (- s) = dlen B s.
Proof. exact dlen_opp. Qed.

(** finding class float_operand_exceeds_precision is inhabited: 123456 (unlimited) + 0 (precision 3),
    base 10: every operator form keeps 123456, Context::add at the same precision rounds to 123e3;
    12495001 (unlimited) * 1 (precision 2), HalfAway: the operator gives 12e6, Context::mul 13e6 *)
Lemma float_add_zero_shortcut_refuted :
  add_val_val_x 10 0 3 MHalfAway 123456 0 0 0 Positive = (123456, 0) /\
  approx_val (ctx_add_x 10 3 MHalfAway 123456 0 0 0) = (123, 3).
Proof. split; vm_compute; reflexivity. Qed.

Lemma float_mul_double_rounding_refuted :
  fmul_op 10 2 MHalfAway 12495001 0 1 0 = (12, 6) /\
  approx_val (ctx_mul 10 2 MHalfAway 12495001 0 1 0) = (13, 6).
Proof. split; vm_compute; reflexivity. Qed.

(** non-vacuity of the agreement theorems *)
Example float_add_ctx_agrees_nonvacuous :
  approx_val (ctx_add_x 10 3 MHalfAway 123 0 456 (-1)) = add_val_val_x 10 3 3 MHalfAway 123 0 456 (-1) Positive.
Proof. vm_compute. reflexivity. Qed.
