(** C15: the call forms of the operators, as functions.  Definitions only (proofs: FormsProofs.v,
    FormsFloat.v, FormsAdd.v).

    [iop_spec] is what the property demands of an integer operator (Z arithmetic, truncating
    division, infinite two's complement); the macro families of integer/src/helper_macros.rs are
    transcribed as functions of it:

    - forward_*_binop_to_repr (T/&T x T/&T): the four arms hand the SAME macro body the operands
      by value or by reference; the only difference is which buffer the Repr-level kernel reuses
      (modelled at word level for + in FormsAdd.v on top of Int/RingOps.v);
    - impl_binop_assign_by_taking:  *self = mem::take(self).op(rhs)  (self is ZERO while op runs);
    - impl_binop_with_primitive / impl_commutative_binop_with_primitive / impl_div_by_primitive /
      impl_divrem_with_primitive:  big.op(<big>::from(prim)).try_into().unwrap();
    - impl_binop_assign_with_primitive:  self.op_assign(<big>::from(prim)). *)
From Dashu Require Import Base.Prelude.
Open Scope Z_scope.

Inductive iop := IoAdd | IoSub | IoMul | IoDiv | IoRem | IoAnd | IoOr | IoXor.

Definition iop_spec (o : iop) (a b : Z) : result Z :=
  match o with
  | IoAdd => Ok (a + b)
  | IoSub => Ok (a - b)
  | IoMul => Ok (a * b)
  | IoDiv => if b =? 0 then Panic DivideBy0 else Ok (Z.quot a b)
  | IoRem => if b =? 0 then Panic DivideBy0 else Ok (Z.rem a b)
  | IoAnd => Ok (Z.land a b)
  | IoOr => Ok (Z.lor a b)
  | IoXor => Ok (Z.lxor a b)
  end.

Definition divrem_spec (a b : Z) : result (Z * Z) :=
  if b =? 0 then Panic DivideBy0 else Ok (Z.quot a b, Z.rem a b).

(** Euclidean forms (DivEuclid / RemEuclid / DivRemEuclid): 0 <= r < |b|, a = q*b + r *)
Definition rem_euclid_spec (a b : Z) : Z := a mod Z.abs b.
Definition div_euclid_spec (a b : Z) : Z := Z.sgn b * (a / Z.abs b).
Definition divrem_euclid_spec (a b : Z) : result (Z * Z) :=
  if b =? 0 then Panic DivideBy0 else Ok (div_euclid_spec a b, rem_euclid_spec a b).

(** integer types: UBig, IBig, or a primitive integer (signed?, bits) *)
Inductive ity := TUBig | TIBig | TPrim (sgn : bool) (bits : Z).

Definition in_ty (t : ity) (v : Z) : bool :=
  match t with
  | TIBig => true
  | TUBig => 0 <=? v
  | TPrim false n => (0 <=? v) && (v <? 2 ^ n)
  | TPrim true n => (- 2 ^ (n - 1) <=? v) && (v <? 2 ^ (n - 1))
  end.

(** TryFrom<big> for a primitive + unwrap(): the panic is not a documented one *)
Definition try_into (t : ity) (v : Z) : result Z := if in_ty t v then Ok v else Panic Undocumented.

(** the big-integer operation of type [t] (UBig results must not be negative: the subtraction
    kernels panic with the documented NegativeUBig) *)
Definition big_op (t : ity) (o : iop) (a b : Z) : result Z :=
  match t with
  | TUBig => rbind (iop_spec o a b) (fun v => if v <? 0 then Panic NegativeUBig else Ok v)
  | _ => iop_spec o a b
  end.

(** Output type of  big (op) prim  [left = false]  and  prim (op) big  [left = true], as written in
    the macro invocations of add_ops.rs / mul_ops.rs / div_ops.rs / bits.rs *)
Definition out_ty (t pt : ity) (o : iop) (left : bool) : ity :=
  match o with
  | IoRem => if left then t else pt                 (* impl_binop_with_primitive!(Rem<$t> ..., rem -> $t) *)
  | IoDiv => if left then pt else t                 (* impl_div_by_primitive: prim / big -> prim *)
  | IoAnd => match pt with TPrim false _ => pt | _ => t end   (* bitand -> $t for unsigned primitives *)
  | _ => t
  end.

(** big (op) prim, all four ownership arms:  self.$method(<$t>::from(rhs)).try_into().unwrap() *)
Definition prim_right_asis (t pt : ity) (o : iop) (x p : Z) : result Z :=
  rbind (big_op t o x p) (try_into (out_ty t pt o false)).
(** prim (op) big:  <$t>::from(self).$method(rhs).try_into().unwrap() *)
Definition prim_left_asis (t pt : ity) (o : iop) (p x : Z) : result Z :=
  rbind (big_op t o p x) (try_into (out_ty t pt o true)).
(** big (op)= prim:  self.$method(<$t>::from(rhs)) *)
Definition prim_assign_asis (t : ity) (o : iop) (x p : Z) : result Z := big_op t o x p.
(** DivRem<prim> for big (and DivRemAssign):  (q, r.try_into().unwrap()) *)
Definition prim_divrem_asis (t pt : ity) (x p : Z) : result (Z * Z) :=
  rbind (divrem_spec x p) (fun qr => rbind (try_into pt (snd qr)) (fun r => Ok (fst qr, r))).

(** finding class (open): the mathematically correct result does not fit the primitive Output type *)
Definition prim_unrepresentable (out : ity) (r : result Z) : bool :=
  match r with Ok v => negb (in_ty out v) | _ => false end.

(** impl_binop_assign_by_taking: the state of `self` after  self op= rhs  (None: the form panicked,
    self was left as the taken ZERO) *)
Definition assign_by_taking (op : Z -> Z -> result Z) (self rhs : Z) : result Z * Z :=
  match op self rhs with
  | Ok v => (Ok v, v)
  | e => (e, 0)
  end.

(** ---------------------------------------------------------------- float shifts (float/src/shift.rs) *)
Inductive fval := FFin (s e : Z) | FInf (neg : bool).

(** x * B^n: what << n (and >> -n) must return; zero stays the canonical zero *)
Definition fshift_spec (x : fval) (n : Z) : result fval :=
  match x with
  | FInf _ => Panic OperateWithInf
  | FFin s e => Ok (if s =? 0 then FFin s e else FFin s (e + n))
  end.

Definition fshl_asis (x : fval) (n : Z) : result fval :=            (* Shl and ShlAssign *)
  match x with
  | FInf _ => Panic OperateWithInf
  | FFin s e => Ok (if s =? 0 then FFin s e else FFin s (e + n))
  end.
Definition fshr_asis (x : fval) (n : Z) : result fval :=            (* Shr and (repaired) ShrAssign *)
  match x with
  | FInf _ => Panic OperateWithInf
  | FFin s e => Ok (if s =? 0 then FFin s e else FFin s (e - n))
  end.
(** ShrAssign as it was on the pinned tree: the exponent is decremented a second time, outside the
    zero test (finding F06, repaired) *)
Definition fshr_assign_pinned (x : fval) (n : Z) : result fval :=
  match x with
  | FInf _ => Panic OperateWithInf
  | FFin s e => Ok (FFin s ((if s =? 0 then e else e - n) - n))
  end.

(** ---------------------------------------------------------------- Clone for Repr (integer/src/repr.rs) *)
(** Buffer::default_capacity / max_compact_capacity *)
Definition default_capacity (maxcap n : Z) : Z := Z.min (n + n / 8 + 2) maxcap.
Definition max_compact_capacity (maxcap n : Z) : Z := Z.min (n + n / 4 + 4) maxcap.

(** capacity (unsigned) of the copy made by clone(): inline values keep their capacity field (1 or 2) *)
Definition clone_cap (maxcap src_cap src_len : Z) : Z :=
  if src_cap <=? 2 then src_cap else default_capacity maxcap src_len.
(** capacity of `dst` after dst.clone_from(src) *)
Definition clone_from_cap (maxcap dst_cap src_cap src_len : Z) : Z :=
  if src_cap <=? 2 then src_cap
  else if (dst_cap <? src_len) || (dst_cap >? max_compact_capacity maxcap src_len)
       then default_capacity maxcap src_len
       else dst_cap.
