(** C15: the float operators next to the Context methods (float/src/{mul,div}.rs), and the names the
    C15 oracle extracts from the theories of C03 / C04 / C13 (read-only imports).  Definitions only.
    The four hand-written bodies of + and - are Float/AddModel.v add_val_val ... add_ref_ref. *)
From Dashu Require Import Base.Prelude Float.RoundSpec Float.Contract Float.Model Float.AddModel.
From Dashu Require Import Ratio.RatArithModel Int.ModRingSpec.
Open Scope Z_scope.

Section FloatForms.
Variable B : Z.

(** impl Mul for FBig (all four arms have the same body):
    context.repr_round(Repr::new(s1 * s2, e1 + e2)).value()   -- no pre-shrinking of the operands *)
Definition fmul_op (p : Z) (m : mode) (s1 e1 s2 e2 : Z) : Z * Z :=
  let '(s, e) := normalize B (s1 * s2) (e1 + e2) in approx_val (repr_round B p m s e).

(** impl Div for FBig: context.repr_div(lhs, rhs).value(); repr_div starts with
    assert_limited_precision and debug_assert!(lhs.digits() <= precision + rhs.digits()) *)
Definition fdiv_op (p : Z) (m : mode) (s1 e1 s2 e2 : Z) : result (Z * Z) :=
  if p =? 0 then Panic UnlimitedPrecision
  else if dlen B s1 >? p + dlen B s2 then Panic Undocumented
  else rbind (repr_div B p m s1 e1 s2 e2) (fun a => Ok (approx_val a)).

(** Context::div: an over-long dividend is first rounded to digits(rhs) + precision digits *)
Definition fdiv_ctx (p : Z) (m : mode) (s1 e1 s2 e2 : Z) : result (Z * Z) :=
  let '(s1', e1') :=
    if negb (s1 =? 0) && (dlen B s1 >? dlen B s2 + p)
    then let '(s, e) := approx_val (repr_round B (dlen B s2 + p) m s1 e1) in normalize B s e   (* Repr::new *)
    else (s1, e1) in
  if p =? 0 then Panic UnlimitedPrecision
  else rbind (repr_div B p m s1' e1' s2 e2) (fun a => Ok (approx_val a)).

End FloatForms.

(** integer shifts: << multiplies by 2^n, >> is the floor division by 2^n (C09 proves the tables) *)
Definition shl_spec (a n : Z) : Z := a * 2 ^ n.
Definition shr_spec (a n : Z) : Z := a / 2 ^ n.

(** names for the extraction (the specifications of C04 and C13 under unambiguous names) *)
Definition c15_qbin := RatArithModel.bin_spec.
Definition c15_qdive := RatArithModel.dive_spec.
Definition c15_qdivreme := RatArithModel.divreme_spec.
Definition c15_qun := RatArithModel.un_spec.
Definition c15_qint := RatArithModel.int_spec.
Definition c15_qmulsign := RatArithModel.mulsign_spec.
Definition c15_madd := ModRingSpec.add_spec.
Definition c15_msub := ModRingSpec.sub_spec.
Definition c15_mmul := ModRingSpec.mul_spec.
Definition c15_mneg := ModRingSpec.neg_spec.
Definition c15_mdiv := ModRingSpec.div_spec.
