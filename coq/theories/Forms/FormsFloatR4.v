(** C15 (round 4): FBig `*` and `/` against Context::mul / Context::div after the repairs 675af08 / da565f6:
    the open class float_operand_exceeds_precision is CLOSED - every operator form and the Context method
    return the same value for ALL operands (any digit counts), proved over the fragments regenerated from
    float/src/{mul,div}.rs on every run (DashuGen.FormsFloatGen: the operator impls; DashuGen.FormsCtxGen: the
    Context methods and the head of repr_div), and that value is the correctly rounded one (citing C03:
    Float/FixMulDivProof.v). *)
From Dashu Require Import Base.Prelude Float.RoundSpec Float.Contract Float.Model Float.AddModel Float.AddModelProof Float.DivMulModel Float.DivMulProof.
From Dashu Require Import Float.FixModel Float.FixMulDivProof Int.RingOps.
From Dashu Require Import Forms.FormsFloatSpec Forms.FormsR4Spec.
From DashuGen Require Import FormsFloatGen FormsCtxGen.
Open Scope Z_scope.

(** * the regenerated Context methods are the as-is models *)
Theorem gen_ctx_mul_model : forall B p m s1 e1 s2 e2, gen_ctx_mul B p m s1 e1 s2 e2 = ctx_mul_fix B p m s1 e1 s2 e2.
Proof. intros. unfold gen_ctx_mul, ctx_mul_fix. destruct (normalize B (s1 * s2) (e1 + e2)). reflexivity. Qed.

Theorem gen_ctx_sqr_model : forall B p m s e, gen_ctx_sqr B p m s e = ctx_sqr_fix B p m s e.
Proof. intros. unfold gen_ctx_sqr, ctx_sqr_fix. destruct (normalize B (s * s) (2 * e)). reflexivity. Qed.

Theorem gen_ctx_cubic_model : forall B p m s e, gen_ctx_cubic B p m s e = ctx_cubic_fix B p m s e.
Proof. intros. unfold gen_ctx_cubic, ctx_cubic_fix. destruct (normalize B (s * s * s) (3 * e)). reflexivity. Qed.

Theorem gen_div_scale_model : forall B p s1 s2 e2, gen_div_scale B p s1 s2 e2 = div_scale B p s1 s2 e2.
Proof. intros. reflexivity. Qed.

(** entry checks of repr_div: infinities first, then the unlimited precision *)
Theorem gen_repr_div_checks_model : gen_repr_div_checks = [RdFinite; RdLimited].
Proof. reflexivity. Qed.

(** the kernel Context::repr_div as a function of (precision, lhs, rhs), C03's repaired model *)
Definition k_repr_div (B : Z) (m : mode) (p : Z) (l r : Z * Z) : result (Z * Z) :=
  map_val (repr_div_fix B p m (fst l) (snd l) (fst r) (snd r)).

Theorem gen_ctx_div_model : forall B m p s1 e1 s2 e2,
  gen_ctx_div (k_repr_div B m) p s1 e1 s2 e2 = fdiv_ctx_r4 B p m s1 e1 s2 e2.
Proof. reflexivity. Qed.

Theorem gen_ctx_inv_model : forall B m p s e, gen_ctx_inv (k_repr_div B m) p s e = finv_r4 B p m s e.
Proof. reflexivity. Qed.

(** * operator = Context method, ALL operands, over the regenerated code *)
Theorem float_mul_forms_ctx_r4 : forall o B m p1 s1 e1 p2 s2 e2,
  gen_fmul o B m p1 s1 e1 p2 s2 e2 = (approx_val (gen_ctx_mul B (ctx_max p1 p2) m s1 e1 s2 e2), ctx_max p1 p2).
Proof. intros. destruct o; reflexivity. Qed.

Theorem float_div_forms_ctx_r4 : forall o (V : Type) (k : Z -> Z * Z -> Z * Z -> V) p1 s1 e1 p2 s2 e2,
  gen_fdivrem o k p1 (s1, e1) p2 (s2, e2) = (gen_ctx_div k (ctx_max p1 p2) s1 e1 s2 e2, ctx_max p1 p2).
Proof. intros. destruct o; reflexivity. Qed.

(** x.sqr() is x * x (one body up to the spelling of the exponent) *)
Theorem gen_ctx_sqr_is_mul : forall B p m s e, gen_ctx_sqr B p m s e = gen_ctx_mul B p m s e s e.
Proof. intros. unfold gen_ctx_sqr, gen_ctx_mul. replace (2 * e) with (e + e) by ring. reflexivity. Qed.

(** * the hand-written form models *)
Theorem float_mul_ctx_agrees_r4 : forall B p m s1 e1 s2 e2,
  fmul_op B p m s1 e1 s2 e2 = fmul_ctx_r4 B p m s1 e1 s2 e2.
Proof. intros. unfold fmul_op, fmul_ctx_r4, ctx_mul_fix. destruct (normalize B (s1 * s2) (e1 + e2)). reflexivity. Qed.

Theorem float_div_ctx_agrees_r4 : forall B p m s1 e1 s2 e2,
  fdiv_op_r4 B p m s1 e1 s2 e2 = fdiv_ctx_r4 B p m s1 e1 s2 e2.
Proof. reflexivity. Qed.

(** outside the former class the repaired `/` returns what the pinned operator returned *)
Theorem fdiv_op_r4_eq_pinned : forall B, 2 <= B -> forall p m s1 e1 s2 e2, dlen B s1 <= p + dlen B s2 ->
  fdiv_op_r4 B p m s1 e1 s2 e2 = fdiv_op B p m s1 e1 s2 e2.
Proof.
  intros B HB p m s1 e1 s2 e2 Hl. unfold fdiv_op_r4, fdiv_op, repr_div_fix, div_scale.
  destruct (Z.eqb_spec p 0) as [|Np]; [reflexivity|].
  destruct (Z.gtb_spec (dlen B s1) (p + dlen B s2)); [lia|].
  destruct (repr_div B p m s1 e1 s2 e2); reflexivity.
Qed.

(** all forms panic together: unlimited precision first, then the zero divisor (cites C03) *)
Theorem float_div_panics_r4 : forall B m s1 e1 s2 e2 p,
  fdiv_op_r4 B 0 m s1 e1 s2 e2 = Panic UnlimitedPrecision /\ fdiv_ctx_r4 B 0 m s1 e1 s2 e2 = Panic UnlimitedPrecision /\
  (1 <= p -> fdiv_op_r4 B p m s1 e1 0 e2 = Panic DivideBy0 /\ fdiv_ctx_r4 B p m s1 e1 0 e2 = Panic DivideBy0).
Proof.
  intros B m s1 e1 s2 e2 p. destruct (repr_div_fix_panics B m s1 e1 s2 e2 p) as [U Z0].
  unfold fdiv_op_r4, fdiv_ctx_r4, ctx_div_fix. rewrite U. split; [reflexivity|]. split; [reflexivity|].
  intros Hp. rewrite (Z0 Hp). split; reflexivity.
Qed.

(** * and the common value is the correctly rounded one (C03's theorems about the repaired code) *)
Theorem float_mul_forms_rounded_r4 : forall B, 2 <= B -> forall o m p1 s1 e1 p2 s2 e2, 1 <= ctx_max p1 p2 ->
  exists a, rounded_sum B (ctx_max p1 p2) m (s1 * s2) (e1 + e2) a /\
    gen_fmul o B m p1 s1 e1 p2 s2 e2 = (approx_val a, ctx_max p1 p2) /\
    gen_ctx_mul B (ctx_max p1 p2) m s1 e1 s2 e2 = a.
Proof.
  intros B HB o m p1 s1 e1 p2 s2 e2 Hp. exists (ctx_mul_fix B (ctx_max p1 p2) m s1 e1 s2 e2).
  split; [apply (ctx_mul_fix_correct B HB); exact Hp|]. rewrite float_mul_forms_ctx_r4, gen_ctx_mul_model. split; reflexivity.
Qed.

Theorem float_div_forms_rounded_r4 : forall B, 2 <= B -> forall o m p1 s1 e1 p2 s2 e2, 1 <= ctx_max p1 p2 -> s2 <> 0 ->
  let p := ctx_max p1 p2 in
  let j := div_excess B p s1 s2 in
  let k := repr_div_shift B p s1 (s2 * B ^ j) in
  exists a, rounded_quot B p m (Z.sgn s2 * (s1 * B ^ k)) (Z.abs s2 * B ^ j) a /\ approx_exp a = e1 - e2 + j - k /\
    gen_fdivrem o (k_repr_div B m) p1 (s1, e1) p2 (s2, e2) = (Ok (approx_val a), p) /\
    gen_ctx_div (k_repr_div B m) p s1 e1 s2 e2 = Ok (approx_val a).
Proof.
  intros B HB o m p1 s1 e1 p2 s2 e2 Hp Hs p j k.
  destruct (repr_div_fix_rounded B HB p m s1 e1 s2 e2 Hp Hs) as (_ & _ & a & Ea & Ee & RQ).
  exists a. split; [exact RQ|]. split; [exact Ee|]. rewrite float_div_forms_ctx_r4.
  unfold gen_ctx_div, k_repr_div. cbn [fst snd]. fold p. rewrite Ea. split; reflexivity.
Qed.

(** * the repairs refute the pinned code on the witnesses of the finding *)
Example float_mul_div_repaired :
  (* 12495001 * 1 at precision 2, HalfAway, base 10: the operator gives 12e6; the pinned Context::mul gave 13e6 *)
  fmul_op 10 2 MHalfAway 12495001 0 1 0 = (12, 6) /\ approx_val (ctx_mul 10 2 MHalfAway 12495001 0 1 0) = (13, 6) /\
  fmul_ctx_r4 10 2 MHalfAway 12495001 0 1 0 = (12, 6) /\
  (* 99999999 / 3 at precision 2: the pinned operator tripped the debug assertion and the pinned Context::div
     rounded the dividend first (33e6); now 333e5 in every form (repr_div may return precision + 1 digits, as it
     always did for a dividend of precision + digits(divisor) digits - within the 1-ulp contract of C03) *)
  fdiv_op 10 2 MHalfAway 99999999 0 3 0 = Panic Undocumented /\ fdiv_ctx 10 2 MHalfAway 99999999 0 3 0 = Ok (33, 6) /\
  fdiv_op_r4 10 2 MHalfAway 99999999 0 3 0 = Ok (333, 5) /\ fdiv_ctx_r4 10 2 MHalfAway 99999999 0 3 0 = Ok (333, 5).
Proof. repeat split; vm_compute; reflexivity. Qed.

Example float_forms_rounded_nonvacuous : 1 <= ctx_max 0 2 /\ 1 <= ctx_max 2 5 /\ (3 <> 0).
Proof. unfold ctx_max. cbn. lia. Qed.
