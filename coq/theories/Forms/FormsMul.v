(** C15: the ownership forms of the integer * at the level of the Repr kernels (mul_ops.rs mod repr).
    Three of the four impls (TypedRepr * TypedRepr, TypedReprRef * TypedRepr, TypedReprRef *
    TypedReprRef) have the same four Small/Large arms (a borrowed heap operand is copied with
    `.into()` before mul_large_dword reuses the buffer; mul_large only reads both and allocates the
    result); the fourth (TypedRepr * TypedReprRef) is "mul is commutative: rhs.mul(self)", i.e. the
    same arms on the EXCHANGED operands - a different computation (multiply is called with the
    operands the other way round, the longer / shorter roles inside add_signed_mul swap).  C01
    proves repr_mul exact for all operands (Int/RingOpsMulProofs.v, imported read-only, thresholds
    of the source); here: a canonical Repr is determined by its value, hence all forms - and the
    squaring shortcut mul_large takes when both operands are the same words, and the sqr() method -
    RETURN THE IDENTICAL REPRESENTATION.  Any word size w >= 8. *)
From Dashu Require Import Base.Prelude Base.Words Int.RingAdd Int.RingMul Int.RingMulProofs Int.RingOps Int.RingOpsProofs
  Int.RingDispatchProofs Int.RingOpsMulProofs Forms.FormsInt.
From DashuGen Require Import Params.
Open Scope Z_scope.

Definition forms_SQR : nat := Z.to_nat sqr_max_len_simple.

Section FormsMul.
Variable w : Z.
Hypothesis w_ge : 8 <= w.
Notation rv := (repr_value w).
Notation srv := (srepr_value w).
Notation twf := (twf w).
Notation TS := src_T_simple.
Notation TK := src_T_kara.
Notation CH := src_CHUNK.
Notation SQ := forms_SQR.
Notation rmul := (repr_mul w TS TK CH SQ).

Let A1 : (1 <= TS)%nat := proj1 source_thresholds_admissible.
Let A2 : (3 <= TK)%nat := proj1 (proj2 source_thresholds_admissible).
Let A3 : (1 <= CH)%nat := proj1 (proj2 (proj2 source_thresholds_admissible)).

(** the four impls of Mul on the typed views *)
Definition repr_mul_form (o : own) (x y : trepr) : result trepr :=
  match o with
  | OVV | ORV | ORR => rmul x y
  | OVR => rmul y x                  (* rhs.mul(self) *)
  end.

(** impl_ibig_mul behind forward_ibig_binop_to_repr (and the UBig x IBig mixes): the magnitudes
    in the ownership form of the operator, sign0 * sign1 *)
Definition ibig_mul_form (o : own) (s0 : sign) (x : trepr) (s1 : sign) (y : trepr) : result (sign * trepr) :=
  match repr_mul_form o x y with
  | Ok r => Ok (with_sign (sign_mul s0 s1) r)
  | Panic p => Panic p | Err e => Err e | OutOfFuel => OutOfFuel
  end.

Lemma repr_mul_form_correct o x y : twf x -> twf y ->
  exists r, repr_mul_form o x y = Ok r /\ rv r = rv x * rv y /\ twf r.
Proof.
  intros Hx Hy. pose proof (twf_tok w x Hx) as Tx. pose proof (twf_tok w y Hy) as Ty.
  destruct (repr_mul_correct w w_ge TS TK CH SQ A1 A2 A3 x y Tx Ty) as (r & E & V & T).
  destruct (repr_mul_correct w w_ge TS TK CH SQ A1 A2 A3 y x Ty Tx) as (r' & E' & V' & T').
  destruct o; cbn [repr_mul_form]; [exists r | exists r' | exists r | exists r]; repeat split; auto. lia.
Qed.

(** UBig * UBig: the four ownership arms (and *= through take) build the same Repr, never panic *)
Theorem ubig_mul_forms_identical : forall o o' x y, twf x -> twf y ->
  exists r, repr_mul_form o x y = Ok r /\ repr_mul_form o' x y = Ok r /\ rv r = rv x * rv y /\ twf r.
Proof.
  intros o o' x y Hx Hy.
  destruct (repr_mul_form_correct o x y Hx Hy) as (r & E & V & T).
  destruct (repr_mul_form_correct o' x y Hx Hy) as (r' & E' & V' & T').
  assert (r' = r) by (apply (twf_unique w w_ge); auto; lia). subst r'.
  exists r. auto.
Qed.

(** IBig * IBig (UBig * IBig, IBig * UBig with Positive for the UBig side) *)
Theorem ibig_mul_forms_identical : forall o o' s0 x s1 y, twf x -> twf y ->
  exists r, ibig_mul_form o s0 x s1 y = Ok r /\ ibig_mul_form o' s0 x s1 y = Ok r /\
    srv r = signed s0 (rv x) * signed s1 (rv y) /\ twf (snd r).
Proof.
  intros o o' s0 x s1 y Hx Hy.
  destruct (ubig_mul_forms_identical o o' x y Hx Hy) as (r & E & E' & V & T).
  unfold ibig_mul_form. rewrite E, E'. eexists. split; [reflexivity|]. split; [reflexivity|].
  destruct (with_sign_value w (sign_mul s0 s1) r) as (V' & S). rewrite V', S, V. split; [|exact T].
  unfold signed. rewrite sgnz_mul. ring.
Qed.

(** the squaring shortcut: `&a * &a` (mul_large sees equal words and calls square_large) and the
    method a.sqr() build the same Repr in every ownership form *)
Theorem ubig_sqr_forms_identical : forall o x, twf x ->
  exists r, repr_mul_form o x x = Ok r /\ repr_sqr w TS TK SQ x = Ok r /\ rv r = rv x * rv x /\ twf r.
Proof.
  intros o x Hx.
  destruct (repr_mul_form_correct o x x Hx Hx) as (r & E & V & T).
  destruct (repr_sqr_correct w w_ge TS TK CH SQ A1 A2 A3 x (twf_tok w x Hx)) as (r' & E' & V' & T').
  assert (r' = r) by (apply (twf_unique w w_ge); auto; lia). subst r'.
  exists r. auto.
Qed.

End FormsMul.

(** non-vacuity: 64-bit words; 3 x 4 words in the exchanged form, and the square shortcut *)
Example ubig_mul_forms_nonvacuous :
  repr_mul_form 64 OVR (Large [1; 2; 3]) (Large [5; 0; 0; 7]) = repr_mul_form 64 OVV (Large [1; 2; 3]) (Large [5; 0; 0; 7]) /\
  repr_mul_form 64 ORR (Large [1; 2; 3]) (Large [1; 2; 3]) = repr_sqr 64 src_T_simple src_T_kara forms_SQR (Large [1; 2; 3]).
Proof. split; vm_compute; reflexivity. Qed.
