(** C15: every call form of the integer operators with primitives equals the all-big form, except in
    the class where the result does not fit the primitive Output type; the float shift forms; the
    capacity rule of Repr::clone / clone_from.  All statements are for all inputs. *)
From Dashu Require Import Base.Prelude Forms.FormsSpec.
Open Scope Z_scope.

(** ---------------------------------------------------------------- the macro families *)
Theorem prim_right_agrees : forall t pt o x p,
  prim_unrepresentable (out_ty t pt o false) (big_op t o x p) = false ->
  prim_right_asis t pt o x p = big_op t o x p.
Proof.
  intros t pt o x p H. unfold prim_right_asis, prim_unrepresentable, try_into in *.
  destruct (big_op t o x p); cbn [rbind]; auto.
  apply negb_false_iff in H. rewrite H. reflexivity.
Qed.

Theorem prim_left_agrees : forall t pt o p x,
  prim_unrepresentable (out_ty t pt o true) (big_op t o p x) = false ->
  prim_left_asis t pt o p x = big_op t o p x.
Proof.
  intros t pt o p x H. unfold prim_left_asis, prim_unrepresentable, try_into in *.
  destruct (big_op t o p x); cbn [rbind]; auto.
  apply negb_false_iff in H. rewrite H. reflexivity.
Qed.

(** in the class the primitive forms panic (undocumented unwrap of an Err) while the big form returns *)
Theorem prim_right_known : forall t pt o x p,
  prim_unrepresentable (out_ty t pt o false) (big_op t o x p) = true ->
  prim_right_asis t pt o x p = Panic Undocumented /\ exists v, big_op t o x p = Ok v.
Proof.
  intros t pt o x p H. unfold prim_right_asis, prim_unrepresentable, try_into in *.
  destruct (big_op t o x p); try discriminate. cbn [rbind].
  apply negb_true_iff in H. rewrite H. split; [reflexivity | eauto].
Qed.

Theorem prim_left_known : forall t pt o p x,
  prim_unrepresentable (out_ty t pt o true) (big_op t o p x) = true ->
  prim_left_asis t pt o p x = Panic Undocumented /\ exists v, big_op t o p x = Ok v.
Proof.
  intros t pt o p x H. unfold prim_left_asis, prim_unrepresentable, try_into in *.
  destruct (big_op t o p x); try discriminate. cbn [rbind].
  apply negb_true_iff in H. rewrite H. split; [reflexivity | eauto].
Qed.

(** the assignment forms never convert back: they are the big operation itself *)
Theorem prim_assign_agrees : forall t o x p, prim_assign_asis t o x p = big_op t o x p.
Proof. reflexivity. Qed.

(** big OutputType arms (everything but rem / and-with-unsigned / prim-div-big): never in the class *)
Theorem prim_big_output_never_known : forall t o x p,
  (t = TUBig \/ t = TIBig) -> prim_unrepresentable t (big_op t o x p) = false.
Proof.
  intros t o x p [-> | ->]; unfold prim_unrepresentable, big_op.
  - destruct (iop_spec o x p); cbn [rbind]; auto.
    destruct (Z.ltb_spec a 0); auto. cbn [in_ty]. apply negb_false_iff, Z.leb_le. lia.
  - destruct (iop_spec o x p); auto.
Qed.

(** op= by take-and-replace returns what the operator returns; self holds the result afterwards *)
Theorem assign_by_taking_ok : forall op a b,
  fst (assign_by_taking op a b) = op a b /\
  (forall v, op a b = Ok v -> snd (assign_by_taking op a b) = v) /\
  ((forall v, op a b <> Ok v) -> snd (assign_by_taking op a b) = 0).
Proof.
  intros op a b. unfold assign_by_taking. destruct (op a b) eqn:E; cbn [fst snd]; repeat split; auto;
    try (intros v Hv; congruence); try (intros Hn; exfalso; eapply Hn; reflexivity).
Qed.

(** ---------------------------------------------------------------- when is the class empty? *)
Lemma pow2_half : forall n, 0 < n -> 2 ^ n = 2 * 2 ^ (n - 1).
Proof. intros n Hn. replace n with (Z.succ (n - 1)) at 1 by lia. rewrite Z.pow_succ_r by lia. reflexivity. Qed.

(** x % p for a signed primitive p always fits: |x rem p| < |p| <= 2^(n-1) *)
Theorem rem_signed_fits : forall n x p, 0 < n ->
  in_ty (TPrim true n) p = true -> p <> 0 -> in_ty (TPrim true n) (Z.rem x p) = true.
Proof.
  intros n x p Hn Hp Hz. cbn [in_ty] in *. apply andb_true_iff in Hp. destruct Hp as [H1 H2].
  apply Z.leb_le in H1. apply Z.ltb_lt in H2.
  pose proof (Z.rem_bound_abs x p Hz) as Hb.
  apply andb_true_iff. split; [apply Z.leb_le | apply Z.ltb_lt]; lia.
Qed.

(** x % p for an unsigned primitive fits iff the truncated remainder is not negative *)
Theorem rem_unsigned_fits_iff : forall n x p, 0 <= p < 2 ^ n -> p <> 0 ->
  (in_ty (TPrim false n) (Z.rem x p) = true <-> (0 <= x \/ Z.rem x p = 0)).
Proof.
  intros n x p Hp Hz. cbn [in_ty].
  pose proof (Z.rem_bound_abs x p Hz) as Hb.
  rewrite andb_true_iff, Z.leb_le, Z.ltb_lt. split.
  - intros [H0 _]. destruct (Z.le_gt_cases 0 x) as [|Hx]; [left; lia|].
    right. pose proof (Z.rem_nonpos x p Hz ltac:(lia)). lia.
  - intros [Hx | Hr].
    + pose proof (Z.rem_nonneg x p Hz Hx). lia.
    + rewrite Hr. lia.
Qed.

(** the class is inhabited: IBig(-7) % 3u8 *)
Lemma prim_rem_refuted :
  prim_right_asis TIBig (TPrim false 8) IoRem (-7) 3 = Panic Undocumented /\
  big_op TIBig IoRem (-7) 3 = Ok (-1).
Proof. split; reflexivity. Qed.

(** bits of a non-negative number below 2^n *)
Lemma lt_pow2_of_high_bits : forall n v, 0 <= n -> 0 <= v ->
  (forall i, n <= i -> Z.testbit v i = false) -> v < 2 ^ n.
Proof.
  intros n v Hn Hv Hb.
  assert (E : v mod 2 ^ n = v).
  { apply Z.bits_inj'. intros i Hi. destruct (Z.lt_ge_cases i n).
    - apply Z.mod_pow2_bits_low; lia.
    - rewrite Z.mod_pow2_bits_high by lia. symmetry. apply Hb. lia. }
  rewrite <- E. apply Z.mod_pos_bound. apply Z.pow_pos_nonneg; lia.
Qed.

Lemma high_bits_of_lt_pow2 : forall n p i, 0 <= n -> 0 <= p < 2 ^ n -> n <= i -> Z.testbit p i = false.
Proof.
  intros n p i Hn Hp Hi. rewrite <- (Z.mod_small p (2 ^ n)) by lia. apply Z.mod_pow2_bits_high. lia.
Qed.

(** x & p for an unsigned primitive p always fits, whatever the sign of x *)
Theorem and_unsigned_fits : forall n x p, 0 <= n -> 0 <= p < 2 ^ n ->
  in_ty (TPrim false n) (Z.land x p) = true.
Proof.
  intros n x p Hn Hp. cbn [in_ty].
  assert (H0 : 0 <= Z.land x p) by (apply Z.land_nonneg; lia).
  apply andb_true_iff. split; [apply Z.leb_le; exact H0 | apply Z.ltb_lt].
  apply lt_pow2_of_high_bits; auto. intros i Hi.
  rewrite Z.land_spec, (high_bits_of_lt_pow2 n p i) by lia. apply andb_false_r.
Qed.

(** p / x with x : UBig (x > 0) fits the unsigned primitive *)
Theorem rdiv_ubig_fits : forall n p x, 0 <= p < 2 ^ n -> 0 < x ->
  in_ty (TPrim false n) (Z.quot p x) = true.
Proof.
  intros n p x Hp Hx. cbn [in_ty]. rewrite Z.quot_div_nonneg by lia.
  pose proof (Z.div_pos p x ltac:(lia) Hx).
  assert (p / x <= p) by (apply Z.div_le_upper_bound; nia).
  apply andb_true_iff. split; [apply Z.leb_le | apply Z.ltb_lt]; lia.
Qed.

(** unsigned p / x with x : IBig fits iff the quotient is not negative *)
Theorem rdiv_ibig_unsigned_fits_iff : forall n p x, 0 <= p < 2 ^ n -> x <> 0 ->
  (in_ty (TPrim false n) (Z.quot p x) = true <-> 0 <= Z.quot p x).
Proof.
  intros n p x Hp Hx. cbn [in_ty]. rewrite andb_true_iff, Z.leb_le, Z.ltb_lt. split; [tauto|].
  intros Hq. split; auto.
  assert (Z.abs (Z.quot p x) <= Z.abs p).
  { rewrite <- Z.quot_abs by lia. rewrite Z.quot_div_nonneg by lia.
    apply Z.div_le_upper_bound; [lia|]. nia. }
  lia.
Qed.

Lemma prim_rdiv_refuted :
  prim_left_asis TIBig (TPrim false 8) IoDiv 5 (-1) = Panic Undocumented /\
  big_op TIBig IoDiv 5 (-1) = Ok (-5).
Proof. split; reflexivity. Qed.


(** signed p / x with x : IBig fits unless it is iN::MIN / -1 *)
Theorem rdiv_signed_fits_iff : forall n p x, 0 < n -> in_ty (TPrim true n) p = true -> x <> 0 ->
  (in_ty (TPrim true n) (Z.quot p x) = true <-> ~ (p = - 2 ^ (n - 1) /\ x = -1)).
Proof.
  intros n p x Hn Hp Hx. cbn [in_ty] in *. apply andb_true_iff in Hp. destruct Hp as [H1 H2].
  apply Z.leb_le in H1. apply Z.ltb_lt in H2.
  assert (HM : 0 < 2 ^ (n - 1)) by (apply Z.pow_pos_nonneg; lia).
  rewrite andb_true_iff, Z.leb_le, Z.ltb_lt.
  destruct (Z.eq_dec x (-1)) as [->|Hm1].
  - replace (Z.quot p (-1)) with (- p).
    2:{ change (Z.quot p (-1)) with (Z.quot p (Z.opp 1)). rewrite Z.quot_opp_r by lia. rewrite Z.quot_1_r. reflexivity. }
    split; [intros [A B] [C _]; lia | intros N; split; [lia|]].
    destruct (Z.eq_dec p (- 2 ^ (n - 1))); [exfalso; apply N; auto | lia].
  - split; [intros _ [_ C]; contradiction | intros _].
    destruct (Z.eq_dec x 1) as [->|H1x].
    + rewrite Z.quot_1_r. lia.
    + assert (Hax : 2 <= Z.abs x) by lia.
      assert (Hq : Z.abs (Z.quot p x) * 2 <= Z.abs p).
      { rewrite <- Z.quot_abs by lia. rewrite Z.quot_div_nonneg by lia.
        pose proof (Z.mul_div_le (Z.abs p) (Z.abs x) ltac:(lia)).
        pose proof (Z.div_pos (Z.abs p) (Z.abs x) ltac:(lia) ltac:(lia)). nia. }
      lia.
Qed.

Lemma prim_rdiv_signed_refuted :
  prim_left_asis TIBig (TPrim true 8) IoDiv (-128) (-1) = Panic Undocumented /\
  big_op TIBig IoDiv (-128) (-1) = Ok 128.
Proof. split; reflexivity. Qed.

(** DivRem<prim> / DivRemAssign<prim>: the pair of the all-big form when the remainder fits *)
Theorem prim_divrem_agrees : forall t pt x p,
  (forall q r, divrem_spec x p = Ok (q, r) -> in_ty pt r = true) ->
  prim_divrem_asis t pt x p = divrem_spec x p.
Proof.
  intros t pt x p H. unfold prim_divrem_asis. destruct (divrem_spec x p) as [[q r]| | |] eqn:E; cbn [rbind]; auto.
  unfold try_into. cbn [fst snd]. rewrite (H q r eq_refl). reflexivity.
Qed.

(** ---------------------------------------------------------------- float shifts *)
Theorem fshift_forms_agree : forall x n,
  fshl_asis x n = fshift_spec x n /\ fshr_asis x n = fshift_spec x (- n).
Proof.
  intros x n. destruct x as [s e | b]; cbn [fshl_asis fshr_asis fshift_spec]; split; reflexivity.
Qed.

(** the pinned ShrAssign (finding F06, repaired): 8 >>= 1 gave 2, 0 >>= 1 gave the "zero with
    exponent -1", which Repr reads as -infinity *)
Lemma fshr_assign_pinned_refuted :
  fshr_assign_pinned (FFin 1 3) 1 = Ok (FFin 1 1) /\ fshift_spec (FFin 1 3) (-1) = Ok (FFin 1 2) /\
  fshr_assign_pinned (FFin 0 0) 1 = Ok (FFin 0 (-1)) /\ fshift_spec (FFin 0 0) (-1) = Ok (FFin 0 0).
Proof. repeat split; reflexivity. Qed.

(** ---------------------------------------------------------------- Clone for Repr *)
Lemma default_le_compact : forall maxcap n, 0 <= n -> default_capacity maxcap n <= max_compact_capacity maxcap n.
Proof.
  intros maxcap n Hn. unfold default_capacity, max_compact_capacity.
  assert (n / 8 <= n / 4).
  { apply Z.div_le_lower_bound; [lia|]. pose proof (Z.mul_div_le n 8 ltac:(lia)). lia. }
  lia.
Qed.

Lemma len_le_default : forall maxcap n, 0 <= n <= maxcap -> n <= default_capacity maxcap n.
Proof.
  intros maxcap n Hn. unfold default_capacity. pose proof (Z.div_pos n 8 ltac:(lia) ltac:(lia)). lia.
Qed.

(** a heap copy (len >= 3) made by clone() is compact *)
Theorem clone_cap_ok : forall maxcap src_cap len, 3 <= len <= maxcap -> 2 < src_cap ->
  let c := clone_cap maxcap src_cap len in len <= c <= max_compact_capacity maxcap len.
Proof.
  intros maxcap src_cap len Hl Hc. unfold clone_cap. destruct (Z.leb_spec src_cap 2); [lia|].
  pose proof (default_le_compact maxcap len ltac:(lia)). pose proof (len_le_default maxcap len ltac:(lia)). lia.
Qed.

(** clone_from onto ANY previous capacity leaves a compact buffer; the old buffer is kept exactly
    when it already is one *)
Theorem clone_from_cap_ok : forall maxcap dst_cap src_cap len, 3 <= len <= maxcap -> 2 < src_cap ->
  let c := clone_from_cap maxcap dst_cap src_cap len in
  len <= c <= max_compact_capacity maxcap len /\
  (len <= dst_cap <= max_compact_capacity maxcap len -> c = dst_cap).
Proof.
  intros maxcap dst_cap src_cap len Hl Hc. unfold clone_from_cap. destruct (Z.leb_spec src_cap 2); [lia|].
  pose proof (default_le_compact maxcap len ltac:(lia)). pose proof (len_le_default maxcap len ltac:(lia)).
  destruct (Z.ltb_spec dst_cap len); cbn [orb].
  - split; lia.
  - destruct (Z.gtb_spec dst_cap (max_compact_capacity maxcap len)); split; lia.
Qed.

(** inline values are copied with their capacity field *)
Theorem clone_inline : forall maxcap dst_cap src_cap len, src_cap <= 2 ->
  clone_cap maxcap src_cap len = src_cap /\ clone_from_cap maxcap dst_cap src_cap len = src_cap.
Proof.
  intros. unfold clone_cap, clone_from_cap. destruct (Z.leb_spec src_cap 2); [auto | lia].
Qed.

Example clone_from_cap_nonvacuous : clone_from_cap (2 ^ 57) 9 6 4 = 9 /\ clone_from_cap (2 ^ 57) 10 6 4 = 6.
Proof. split; reflexivity. Qed.
