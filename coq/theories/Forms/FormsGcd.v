(** C15: the forms of the integer gcd at the level of the Repr kernels (gcd_ops.rs mod repr).
    The impl  Gcd<TypedReprRef> for TypedReprRef  holds the four Small/Large arms; the three other
    ownership impls forward to it through as_ref() (regenerated from the source: DashuGen.FormsArms
    gen_gcd, tied in Forms/FormsArmsProofs.v).  The arms:
      (Small, Small)  DoubleWord::gcd (panics for 0, 0)
      (Small, Large)  gcd_large_dword(words1, dword0)     - the operands EXCHANGED
      (Large, Small)  gcd_large_dword(words0, dword1)
      (Large, Large)  gcd_large: cmp_in_place, equal -> copy of lhs, less -> swap, then gcd_in_place
    gcd_large_dword reduces the heap operand with the remainder-only loops rem_by_word /
    rem_by_dword (C02's kernels) and finishes with Word::gcd / DoubleWord::gcd.
    Proved for ANY kernels that meet the kernel contracts (floor remainder on well-formed words -
    what C02 proves of its models; the primitive gcd returns Z.gcd and panics exactly for (0, 0) -
    what C12 proves of prim_gcd_asis; the Lehmer loop on (larger, smaller) returns the words of the
    gcd - C12 compares its value-level model, not proved there): every ownership form, and the call
    with the operands exchanged (`a.gcd(b)` against `b.gcd(a)`), returns the IDENTICAL canonical
    Repr of Z.gcd, or every form panics (exactly for 0, 0).  Any word size w >= 8. *)
From Dashu Require Import Base.Prelude Base.Words Int.RingAdd Int.RingMul Int.RingOps Int.RingOpsProofs Forms.FormsInt.
Open Scope Z_scope.

Section FormsGcdModel.
Variable w : Z.
Variable k_dword_gcd k_word_gcd : Z -> Z -> result Z.
Variable k_rem_by_word k_rem_by_dword : list Z -> Z -> Z.
Variable k_gcd_core : list Z -> list Z -> result (list Z).
Notation BB := (Words.B w).
Notation fb := (from_buffer w).

Definition gcd_large_dword (buffer : list Z) (rhs : Z) : result trepr :=
  if rhs =? 0 then Ok (fb buffer)
  else if rhs <? BB then
    let rem := k_rem_by_word buffer rhs in
    if rem =? 0 then Ok (Small rhs) else rbind (k_word_gcd rem rhs) (fun g => Ok (Small g))
  else
    let rem := k_rem_by_dword buffer rhs in
    if rem =? 0 then Ok (Small rhs) else rbind (k_dword_gcd rem rhs) (fun g => Ok (Small g)).

Definition gcd_large (lhs rhs : list Z) : result trepr :=
  match Words.value w lhs ?= Words.value w rhs with
  | Gt => rbind (k_gcd_core lhs rhs) (fun g => Ok (fb g))
  | Eq => Ok (fb lhs)
  | Lt => rbind (k_gcd_core rhs lhs) (fun g => Ok (fb g))       (* core::mem::swap *)
  end.

Definition repr_gcd_rr (x y : trepr) : result trepr :=
  match x, y with
  | Small d0, Small d1 => rbind (k_dword_gcd d0 d1) (fun g => Ok (Small g))
  | Small d0, Large w1 => gcd_large_dword w1 d0
  | Large w0, Small d1 => gcd_large_dword w0 d1
  | Large w0, Large w1 => gcd_large w0 w1
  end.

(** T.gcd(T), T.gcd(&T), (&T).gcd(T), (&T).gcd(&T): as_ref() and the one body *)
Definition repr_gcd_form (o : own) (x y : trepr) : result trepr := repr_gcd_rr x y.

End FormsGcdModel.

Section FormsGcd.
Variable w : Z.
Hypothesis w_ge : 8 <= w.
Let w_pos : 0 < w. Proof. lia. Qed.
Notation BB := (Words.B w).
Notation val := (Words.value w).
Notation wfw := (Words.wf w).
Notation rv := (repr_value w).
Notation twf := (twf w).
Notation fb := (from_buffer w).

Variable k_dword_gcd k_word_gcd : Z -> Z -> result Z.
Variable k_rem_by_word k_rem_by_dword : list Z -> Z -> Z.
Variable k_gcd_core : list Z -> list Z -> result (list Z).
(** the kernel contracts *)
(** (round 4: stated for operands of the kernel's width only - what an as-is model with a fuel bound can
    meet; the unbounded form of round 3 follows, ubig_gcd_forms_identical below) *)
Hypothesis dword_gcd_ok : forall a b, 0 <= a < BB * BB -> 0 <= b < BB * BB ->
  k_dword_gcd a b = if (a =? 0) && (b =? 0) then Panic GcdZeroZero else Ok (Z.gcd a b).
Hypothesis word_gcd_ok : forall a b, 0 < a < BB -> 0 < b < BB -> k_word_gcd a b = Ok (Z.gcd a b).
Hypothesis rem_by_word_ok : forall ws d, wfw ws -> ws <> [] -> 0 < d < BB -> k_rem_by_word ws d = val ws mod d.
Hypothesis rem_by_dword_ok : forall ws d, wfw ws -> (2 <= length ws)%nat -> BB <= d < BB * BB ->
  k_rem_by_dword ws d = val ws mod d.
Hypothesis gcd_core_ok : forall a b, wfw a -> wfw b -> 0 < val b < val a ->
  exists g, k_gcd_core a b = Ok g /\ wfw g /\ val g = Z.gcd (val a) (val b).

Notation gform := (repr_gcd_form w k_dword_gcd k_word_gcd k_rem_by_word k_rem_by_dword k_gcd_core).
Notation grr := (repr_gcd_rr w k_dword_gcd k_word_gcd k_rem_by_word k_rem_by_dword k_gcd_core).
Notation gld := (gcd_large_dword w k_dword_gcd k_word_gcd k_rem_by_word k_rem_by_dword).

Let HB : 0 < BB := B_pos w w_pos.

(** what a correct gcd at Repr level is *)
Definition gcd_post (x y : trepr) (res : result trepr) : Prop :=
  (rv x = 0 /\ rv y = 0 -> res = Panic GcdZeroZero) /\
  (~ (rv x = 0 /\ rv y = 0) -> exists r, res = Ok r /\ rv r = Z.gcd (rv x) (rv y) /\ twf r).

Lemma gcd_le_l a b : 0 < a -> 0 <= Z.gcd a b <= a.
Proof.
  intros Ha. split; [apply Z.gcd_nonneg|]. apply Z.divide_pos_le; [exact Ha | apply Z.gcd_divide_l].
Qed.

Lemma gcd_mod_l a d : 0 < d -> Z.gcd (a mod d) d = Z.gcd a d.
Proof. intros Hd. rewrite Z.gcd_mod by lia. apply Z.gcd_comm. Qed.

Lemma gcd_mod0 a d : 0 < d -> a mod d = 0 -> Z.gcd a d = d.
Proof.
  intros Hd H0. rewrite <- (gcd_mod_l a d Hd), H0. rewrite Z.gcd_0_l. apply Z.abs_eq. lia.
Qed.

(** the heap operand against a double word: the result is the gcd, as a canonical Repr *)
Lemma gcd_large_dword_correct ws d : twf (Large ws) -> 0 <= d < BB * BB ->
  exists r, gld ws d = Ok r /\ rv r = Z.gcd (val ws) d /\ twf r.
Proof.
  intros Hx Hd. pose proof Hx as (W & L & Tp). pose proof (large_ge w w_ge ws Hx) as Hl.
  assert (Nz : ws <> []) by (destruct ws; [cbn in L; lia | discriminate]).
  unfold gcd_large_dword. destruct (Z.eqb_spec d 0) as [->|Hne].
  - destruct (from_buffer_spec w w_ge ws W) as (V & T). exists (fb ws). split; [reflexivity|]. split; [|exact T].
    rewrite V, Z.gcd_0_r. symmetry. apply Z.abs_eq. nia.
  - assert (Pd : 0 < d) by lia. destruct (Z.ltb_spec d BB) as [Hw1|Hw1].
    + rewrite (rem_by_word_ok ws d W Nz ltac:(lia)).
      pose proof (Z.mod_pos_bound (val ws) d Pd) as Hm.
      destruct (Z.eqb_spec (val ws mod d) 0) as [E0|E0].
      * exists (Small d). split; [reflexivity|]. cbn [repr_value RingOpsProofs.twf]. split; [|lia].
        symmetry. apply gcd_mod0; assumption.
      * rewrite (word_gcd_ok (val ws mod d) d ltac:(lia) ltac:(lia)). cbn [rbind]. eexists. split; [reflexivity|].
        cbn [repr_value RingOpsProofs.twf]. rewrite gcd_mod_l by exact Pd. split; [reflexivity|].
        rewrite Z.gcd_comm. pose proof (gcd_le_l d (val ws) Pd). lia.
    + rewrite (rem_by_dword_ok ws d W ltac:(lia) ltac:(lia)).
      pose proof (Z.mod_pos_bound (val ws) d Pd) as Hm.
      destruct (Z.eqb_spec (val ws mod d) 0) as [E0|E0].
      * exists (Small d). split; [reflexivity|]. cbn [repr_value RingOpsProofs.twf]. split; [|lia].
        symmetry. apply gcd_mod0; assumption.
      * rewrite (dword_gcd_ok (val ws mod d) d ltac:(lia) ltac:(lia)).
        replace (d =? 0) with false by (symmetry; apply Z.eqb_neq; exact Hne). rewrite andb_false_r. cbn [rbind].
        eexists. split; [reflexivity|]. cbn [repr_value RingOpsProofs.twf]. rewrite gcd_mod_l by exact Pd. split; [reflexivity|].
        rewrite Z.gcd_comm. pose proof (gcd_le_l d (val ws) Pd). lia.
Qed.

Theorem repr_gcd_rr_correct x y : twf x -> twf y -> gcd_post x y (grr x y).
Proof.
  intros Hx Hy. unfold gcd_post. destruct x as [d0|b0], y as [d1|b1]; cbn [repr_gcd_rr repr_value].
  - cbn [RingOpsProofs.twf] in Hx, Hy. rewrite (dword_gcd_ok d0 d1 ltac:(lia) ltac:(lia)). split.
    + intros (-> & ->). reflexivity.
    + intros Nz. destruct (Z.eqb_spec d0 0) as [E0|E0]; destruct (Z.eqb_spec d1 0) as [E1|E1]; cbn [andb rbind]; try (exfalso; tauto);
        (eexists; split; [reflexivity|]; cbn [repr_value RingOpsProofs.twf]; split; [reflexivity|]).
      * subst d0. rewrite Z.gcd_0_l, Z.abs_eq by lia. lia.
      * subst d1. rewrite Z.gcd_0_r, Z.abs_eq by lia. lia.
      * pose proof (gcd_le_l d0 d1 ltac:(lia)). lia.
  - pose proof (large_ge w w_ge b1 Hy) as Hl. cbn [RingOpsProofs.twf] in Hx. split; [intros (_ & H); nia|]. intros _.
    destruct (gcd_large_dword_correct b1 d0 Hy Hx) as (r & E & V & T). exists r. rewrite Z.gcd_comm. auto.
  - pose proof (large_ge w w_ge b0 Hx) as Hl. cbn [RingOpsProofs.twf] in Hy. split; [intros (H & _); nia|]. intros _.
    destruct (gcd_large_dword_correct b0 d1 Hx Hy) as (r & E & V & T). exists r. auto.
  - pose proof (large_ge w w_ge b0 Hx) as Hl0. pose proof (large_ge w w_ge b1 Hy) as Hl1.
    destruct Hx as (W0 & L0 & T0), Hy as (W1 & L1 & T1). split; [intros (H & _); nia|]. intros _.
    unfold gcd_large. destruct (Z.compare_spec (val b0) (val b1)) as [E|Lt|Gt].
    + destruct (from_buffer_spec w w_ge b0 W0) as (V & T). exists (fb b0). split; [reflexivity|]. split; [|exact T].
      rewrite V, <- E, Z.gcd_diag. symmetry. apply Z.abs_eq. nia.
    + destruct (gcd_core_ok b1 b0 W1 W0 ltac:(nia)) as (g & Eg & Wg & Vg). rewrite Eg. cbn [rbind].
      destruct (from_buffer_spec w w_ge g Wg) as (V & T). exists (fb g). split; [reflexivity|]. split; [|exact T].
      rewrite V, Vg. apply Z.gcd_comm.
    + destruct (gcd_core_ok b0 b1 W0 W1 ltac:(nia)) as (g & Eg & Wg & Vg). rewrite Eg. cbn [rbind].
      destruct (from_buffer_spec w w_ge g Wg) as (V & T). exists (fb g). split; [reflexivity|]. split; [|exact T]. lia.
Qed.

(** UBig gcd (and the IBig / mixed forms, which call it on the magnitudes): every ownership form and
    the call with the operands exchanged build the identical canonical Repr of Z.gcd, or all panic *)
Theorem ubig_gcd_forms_identical_b : forall o o' x y, twf x -> twf y ->
  gform o x y = gform o' x y /\ gform o y x = gform o' x y /\ gcd_post x y (gform o x y).
Proof.
  intros o o' x y Hx Hy. unfold repr_gcd_form. split; [reflexivity|].
  pose proof (repr_gcd_rr_correct x y Hx Hy) as (P0 & P1). pose proof (repr_gcd_rr_correct y x Hy Hx) as (Q0 & Q1).
  split; [|split; assumption].
  destruct (Z.eq_dec (rv x) 0) as [Zx|Nx]; [destruct (Z.eq_dec (rv y) 0) as [Zy|Ny]|].
  - rewrite P0, Q0 by tauto. reflexivity.
  - destruct (P1 ltac:(tauto)) as (r & E & V & T). destruct (Q1 ltac:(tauto)) as (r' & E' & V' & T'). rewrite E, E'.
    f_equal. apply (twf_unique w w_ge); auto. rewrite V, V'. apply Z.gcd_comm.
  - destruct (P1 ltac:(tauto)) as (r & E & V & T). destruct (Q1 ltac:(tauto)) as (r' & E' & V' & T'). rewrite E, E'.
    f_equal. apply (twf_unique w w_ge); auto. rewrite V, V'. apply Z.gcd_comm.
Qed.

End FormsGcd.

(** the statement of round 3 (contracts demanded of the primitive gcd for ALL non-negative operands) *)
Theorem ubig_gcd_forms_identical : forall w, 8 <= w ->
  forall (k_dg k_wg : Z -> Z -> result Z) (k_rw k_rd : list Z -> Z -> Z) (k_core : list Z -> list Z -> result (list Z)),
  (forall a b, 0 <= a -> 0 <= b -> k_dg a b = if (a =? 0) && (b =? 0) then Panic GcdZeroZero else Ok (Z.gcd a b)) ->
  (forall a b, 0 < a -> 0 < b -> k_wg a b = Ok (Z.gcd a b)) ->
  (forall ws d, Words.wf w ws -> ws <> [] -> 0 < d < Words.B w -> k_rw ws d = Words.value w ws mod d) ->
  (forall ws d, Words.wf w ws -> (2 <= length ws)%nat -> Words.B w <= d < Words.B w * Words.B w -> k_rd ws d = Words.value w ws mod d) ->
  (forall a b, Words.wf w a -> Words.wf w b -> 0 < Words.value w b < Words.value w a ->
     exists g, k_core a b = Ok g /\ Words.wf w g /\ Words.value w g = Z.gcd (Words.value w a) (Words.value w b)) ->
  forall o o' x y, twf w x -> twf w y ->
  let f := repr_gcd_form w k_dg k_wg k_rw k_rd k_core in
  f o x y = f o' x y /\ f o y x = f o' x y /\ gcd_post w x y (f o x y).
Proof.
  intros w Hw k_dg k_wg k_rw k_rd k_core H1 H2 H3 H4 H5 o o' x y Hx Hy.
  apply (ubig_gcd_forms_identical_b w Hw k_dg k_wg k_rw k_rd k_core); auto.
  - intros a b Ha Hb. apply H1; lia.
  - intros a b Ha Hb. apply H2; lia.
Qed.

(** an executable instance (the specification of the kernels: what the contracts demand) - used
    for the non-vacuity example; the oracle runs C12's as-is models of the primitive gcd instead *)
Definition s_gcd (a b : Z) : result Z := if (a =? 0) && (b =? 0) then Panic GcdZeroZero else Ok (Z.gcd a b).
Definition s_rem (w : Z) (ws : list Z) (d : Z) : Z := Words.value w ws mod d.
Definition s_gcd_core (w : Z) (a b : list Z) : result (list Z) :=
  Ok (to_words w (length a) (Z.gcd (Words.value w a) (Words.value w b))).

Example ubig_gcd_forms_nonvacuous :
  let f := repr_gcd_form 64 s_gcd s_gcd (s_rem 64) (s_rem 64) (s_gcd_core 64) in
  f OVR (Large [0; 0; 12]) (Small 18) = Ok (Small 6) /\ f ORV (Small 18) (Large [0; 0; 12]) = Ok (Small 6) /\
  f OVV (Large [0; 0; 12]) (Large [0; 0; 18]) = Ok (Large [0; 0; 6]) /\ f ORR (Small 0) (Small 0) = Panic GcdZeroZero.
Proof. repeat split; vm_compute; reflexivity. Qed.
