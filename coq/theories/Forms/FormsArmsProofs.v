(** C15: the arm tables of the integer operators, REGENERATED from the Rust source on every run
    (tools/translate_c15_r3.py -> DashuGen.FormsArms: the four ownership impls of Add, Sub, Mul,
    DivRem, Div, Rem, Gcd, ExtendedGcd on TypedRepr / TypedReprRef in add_ops.rs / mul_ops.rs /
    div_ops.rs / gcd_ops.rs, and
    the table of primitive-operand forms from the macro invocations of add_ops.rs / mul_ops.rs /
    div_ops.rs / bits.rs), proved equal to the hand-written as-is models the other theorems of C15
    are about (Int/RingOps.v repr_add / repr_sub, Forms/FormsMul.v repr_mul_form, Forms/FormsDiv.v repr_div_rem_form / repr_div_form /
    repr_rem_form, Forms/FormsGcd.v repr_gcd_form, Forms/FormsSpec.v out_ty).  An edit of an arm in
    the source (another kernel, exchanged operands, another length test, a dropped clone_from_slice,
    another Output type) changes the generated definition and breaks a proof obligation here.
    Also, directly over the generated code and for ANY kernels: the separately written arm tables of
    the ownership impls are the same function of the kernels. *)
From Dashu Require Import Base.Prelude Base.Words Int.RingAdd Int.RingMul Int.RingOps Int.RingOpsProofs
  Int.RingDispatchProofs Int.DivWordModel Forms.FormsSpec Forms.FormsInt Forms.FormsMul Forms.FormsDiv Forms.FormsGcd.
From DashuGen Require Import Params FormsArms.
Open Scope Z_scope.

(** ------------------------------------------------------------------ over the generated code, any kernels *)
(** + : `T + &T` runs the arms of `&T + T` on the exchanged operands; T + T and &T + &T keep the longer
    operand's buffer, &T + T always the owned one - for a commutative add_large all four agree *)
Theorem gen_add_arms_same : forall K, (forall a b, k_add_dword K a b = k_add_dword K b a) ->
  (forall a b, k_add_large K a b = k_add_large K b a) ->
  forall o x y, gen_add K o x y = gen_add K OVV x y.
Proof.
  intros K HD HC o x y. destruct o, x as [d0|b0], y as [d1|b1]; try reflexivity;
    cbn [gen_add gen_add_OVV gen_add_OVR gen_add_ORV gen_add_ORR]; try apply HD;
    destruct (length b1 <=? length b0)%nat; try reflexivity; apply HC.
Qed.

(** - : only `&T - T` differs (sub_large_ref_val writes into the subtrahend's buffer) *)
Theorem gen_sub_arms_same : forall K, (forall a b, k_sub_large_ref_val K a b = k_sub_large K a b) ->
  forall o x y, gen_sub K o x y = gen_sub K OVV x y.
Proof.
  intros K HC o x y. destruct o, x as [d0|b0], y as [d1|b1]; try reflexivity.
  cbn [gen_sub gen_sub_OVV gen_sub_ORV]. apply HC.
Qed.

Theorem gen_mul_arms_same : forall K x y,
  gen_mul K ORV x y = gen_mul K OVV x y /\ gen_mul K ORR x y = gen_mul K OVV x y /\
  gen_mul K OVR x y = gen_mul K OVV y x.
Proof. intros K x y. repeat split; destruct x, y; reflexivity. Qed.

Theorem gen_div_arms_same : forall K, (forall buf src, k_clone_from_slice K buf src = src) ->
  forall o x y,
  gen_div_rem K o x y = gen_div_rem K OVV x y /\ gen_div K o x y = gen_div K OVV x y /\
  gen_rem K o x y = gen_rem K OVV x y.
Proof.
  intros K HC o x y.
  repeat split; destruct o, x, y; cbn [gen_div_rem gen_div gen_rem gen_div_rem_OVV gen_div_rem_OVR gen_div_rem_ORV gen_div_rem_ORR
    gen_div_OVV gen_div_OVR gen_div_ORV gen_div_ORR gen_rem_OVV gen_rem_OVR gen_rem_ORV gen_rem_ORR]; try reflexivity;
    rewrite HC; reflexivity.
Qed.

Theorem gen_gcd_arms_same : forall K o x y,
  gen_gcd K o x y = gen_gcd K ORR x y /\ gen_gcd_ext K o x y = gen_gcd_ext K OVV x y.
Proof. intros K o x y. split; destruct o, x, y; reflexivity. Qed.

(** ------------------------------------------------------------------ generated = hand-written models *)
Section ArmsModels.
Variable w : Z.
Variables k_dw k_dd : list Z -> Z -> list Z * Z.
Variables k_rw k_rd : list Z -> Z -> Z.
Variable k_large : list Z -> list Z -> result (list Z * list Z).
Variables k_dg k_wg : Z -> Z -> result Z.
Variable k_core : list Z -> list Z -> result (list Z).
Variable k_xd : Z -> Z -> result gx.
Variable k_xld : list Z -> Z -> result gx.
Variable k_xl : list Z -> list Z -> result gx.

(** the kernels the arms call, with their as-is models *)
Definition model_kernels : arm_kernels := {|
  k_from_buffer := from_buffer w;
  k_clone_from_slice := clone_from_slice;
  k_dword_gcd := k_dg;
  k_add_dword := fun a b => Ok (add_dword w a b);
  k_add_large_dword := fun buf d => Ok (add_large_dword w buf d);
  k_add_large := fun a b => Ok (add_large w a b);
  k_sub_dword := sub_dword;
  k_sub_large_dword := sub_large_dword w;
  k_sub_large := sub_large w;
  k_sub_large_ref_val := sub_large_ref_val w;
  k_panic_negative_ubig := Panic NegativeUBig;
  k_mul_dword := fun a b => Ok (mul_dword w a b);
  k_mul_large_dword := fun buf d => Ok (mul_large_dword w buf d);
  k_mul_large := mul_large w src_T_simple src_T_kara src_CHUNK forms_SQR;
  k_div_rem_dword := div_rem_dword;
  k_div_rem_large_dword := div_rem_large_dword w k_dw k_dd;
  k_div_rem_large := div_rem_large_t w k_large;
  k_div_dword := div_dword;
  k_div_large_dword := div_large_dword w k_dw k_dd;
  k_div_large := div_large w k_large;
  k_rem_dword := rem_dword;
  k_rem_large_dword := rem_large_dword w k_rw k_rd;
  k_rem_large := rem_large w k_large;
  k_gcd_large_dword := gcd_large_dword w k_dg k_wg k_rw k_rd;
  k_gcd_large := gcd_large w k_core;
  k_gcd_ext_dword := k_xd;
  k_gcd_ext_large_dword := k_xld;
  k_gcd_ext_large := k_xl |}.
Notation MK := model_kernels.

(** ( `T + &T` of two inline values calls add_dword(rhs, self): the model writes add_dword self rhs ) *)
Lemma add_dword_comm a b : add_dword w a b = add_dword w b a.
Proof. unfold add_dword. rewrite (Z.add_comm b a). reflexivity. Qed.

Theorem gen_add_model : forall o x y, gen_add MK o x y = Ok (repr_add w o x y).
Proof.
  intros o x y. destruct o, x as [d0|b0], y as [d1|b1]; try reflexivity;
    cbn [gen_add gen_add_OVV gen_add_OVR gen_add_ORV gen_add_ORR repr_add model_kernels k_add_dword];
    try (rewrite add_dword_comm; reflexivity);
    destruct (length b1 <=? length b0)%nat; reflexivity.
Qed.

Theorem gen_sub_model : forall o x y, gen_sub MK o x y = repr_sub w o x y.
Proof. intros o x y. destruct o, x, y; reflexivity. Qed.

Theorem gen_mul_model : forall o x y, gen_mul MK o x y = repr_mul_form w o x y.
Proof. intros o x y. destruct o, x, y; reflexivity. Qed.

Theorem gen_div_rem_model : forall o x y, gen_div_rem MK o x y = repr_div_rem_form w k_dw k_dd k_large o x y.
Proof.
  intros o x y. destruct o, x as [d0|b0], y as [d1|b1]; try reflexivity;
    cbn [gen_div_rem gen_div_rem_OVV gen_div_rem_OVR gen_div_rem_ORV gen_div_rem_ORR repr_div_rem_form];
    destruct (length b1 <=? length b0)%nat; reflexivity.
Qed.

Theorem gen_div_model : forall o x y, gen_div MK o x y = repr_div_form w k_dw k_dd k_large o x y.
Proof.
  intros o x y. destruct o, x as [d0|b0], y as [d1|b1]; try reflexivity;
    cbn [gen_div gen_div_OVV gen_div_OVR gen_div_ORV gen_div_ORR repr_div_form];
    destruct (length b1 <=? length b0)%nat; reflexivity.
Qed.

Theorem gen_rem_model : forall o x y, gen_rem MK o x y = repr_rem_form w k_rw k_rd k_large o x y.
Proof.
  intros o x y. destruct o, x as [d0|b0], y as [d1|b1]; try reflexivity;
    cbn [gen_rem gen_rem_OVV gen_rem_OVR gen_rem_ORV gen_rem_ORR repr_rem_form];
    destruct (length b1 <=? length b0)%nat; reflexivity.
Qed.

Theorem gen_gcd_model : forall o x y, gen_gcd MK o x y = repr_gcd_form w k_dg k_wg k_rw k_rd k_core o x y.
Proof. intros o x y. destruct o, x, y; reflexivity. Qed.

End ArmsModels.

(** ------------------------------------------------------------------ primitive-operand forms *)
Definition big_ty (big_signed : bool) : ity := if big_signed then TIBig else TUBig.
Definition pout_ty (big_signed prim_signed : bool) (n : Z) (p : pout) : option ity :=
  match p with PoBig => Some (big_ty big_signed) | PoPrim => Some (TPrim prim_signed n) | PoNone => None end.

(** the Output type written in the macro invocations = out_ty of the model, for every offered form *)
Theorem gen_prim_out_model : forall bs ps n o left, gen_prim_out bs ps o left <> PoNone ->
  pout_ty bs ps n (gen_prim_out bs ps o left) = Some (out_ty (big_ty bs) (TPrim ps n) o left).
Proof. intros bs ps n o left. destruct bs, ps, o, left; cbn; intros H; try reflexivity; congruence. Qed.

(** which forms exist: UBig has none with signed primitives, `prim % big` does not exist, every
    other (type, operator, side) does; div_rem with a primitive exists for the same type pairs *)
Theorem gen_prim_offered : forall bs ps o left,
  gen_prim_out bs ps o left = PoNone <-> ((bs = false /\ ps = true) \/ (o = IoRem /\ left = true)).
Proof.
  intros bs ps o left. destruct bs, ps, o, left; cbn; split; intros H; try discriminate; try reflexivity;
    try (right; split; reflexivity); try (left; split; reflexivity);
    destruct H as [[A B]|[A B]]; discriminate.
Qed.

Theorem gen_prim_divrem_offered : forall bs ps, gen_prim_divrem bs ps = negb (negb bs && ps).
Proof. intros bs ps. destruct bs, ps; reflexivity. Qed.

(** non-vacuity: IBig % u8 has Output u8, u8 / IBig has Output u8, IBig & i8 has Output IBig *)
Example gen_prim_out_nonvacuous :
  gen_prim_out true false IoRem false = PoPrim /\ gen_prim_out true false IoDiv true = PoPrim /\
  gen_prim_out true true IoAnd false = PoBig /\ gen_prim_out false true IoAdd false = PoNone.
Proof. repeat split. Qed.
