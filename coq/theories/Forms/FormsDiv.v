(** C15: the forms of the integer / % div_rem at the level of the Repr kernels (div_ops.rs mod repr):
    the four ownership impls of each of DivRem, Div and Rem on the typed views, over the word
    kernels modelled by C02 (Int/DivWordModel.v: div_by_word, div_by_dword, rem_by_word,
    rem_by_dword, div_rem_large).  The ownership impls run the same kernels on an owned buffer
    (a borrowed heap operand is copied with `.into()`; the one real difference is the impl
    TypedReprRef op TypedRepr, which for a shorter left operand copies it into the divisor's buffer
    with clone_from_slice to return it as the remainder).  What differs by FORM is the kernel:
    `/` keeps the quotient words of div_rem_in_lhs, `%` by one or two words runs the remainder-only
    loops rem_by_word / rem_by_dword (no quotient is produced), div_rem runs div_by_word /
    div_by_dword.  Proved here for ANY kernels that meet the kernel contracts (floor quotient /
    remainder on well-formed words: exactly what C02 proves about its models - Section premises
    here, discharged below with C02's theorems, imported read-only, for the instance of the models
    that the C02 oracle runs, so that the pinned statements have no premise but the word size): every form is total, returns the canonical Repr of the floor quotient
    / remainder of the magnitudes, or Panic DivideBy0 exactly for a zero divisor; hence all
    ownership forms agree, and `/` and `%` return the two halves of div_rem as IDENTICAL
    representations; lifted through the sign rules of impl_ibig_div / rem / divrem.
    Any word size w >= 8. *)
From Dashu Require Import Base.Prelude Base.Words Int.RingAdd Int.RingMul Int.RingOps Int.RingOpsProofs
  Int.DivWordModel Int.DivWordProofs Int.DivSimpleProofs Int.DivLargeProofs Int.DivDCProofs Int.DivReprProofs
  Int.DivDCTotal Int.DivConstProofs Int.DivSign Int.DivWordInst Int.DivWordInstProofs Forms.FormsInt.
Open Scope Z_scope.

Definition rfst {A B} (x : result (A * B)) : result A := rbind x (fun qr => Ok (fst qr)).
Definition rsnd {A B} (x : result (A * B)) : result B := rbind x (fun qr => Ok (snd qr)).

Section FormsDivModel.
Variable w : Z.
(** the word kernels: div::div_by_word_in_place, div_by_dword_in_place, rem_by_word, rem_by_dword and
    div_ops.rs div_rem_in_lhs + the copy / shift back of the remainder (C02: DivWordModel.div_rem_large) *)
Variable k_div_by_word k_div_by_dword : list Z -> Z -> list Z * Z.
Variable k_rem_by_word k_rem_by_dword : list Z -> Z -> Z.
Variable k_div_rem_large : list Z -> list Z -> result (list Z * list Z).
Notation BB := (Words.B w).
Notation fb := (from_buffer w).

(** Buffer::clone_from_slice: afterwards the buffer holds the words of [src] *)
Definition clone_from_slice (buf src : list Z) : list Z := src.

(** ---------------------------------------------------------------- DivRem *)
Definition div_rem_dword (a b : Z) : result (trepr * trepr) :=
  if b =? 0 then Panic DivideBy0 else Ok (Small (a / b), Small (a mod b)).       (* checked_div, % *)

Definition div_rem_large_dword (buf : list Z) (d : Z) : result (trepr * trepr) :=
  if d =? 0 then Panic DivideBy0
  else if d <? BB then let '(q, r) := k_div_by_word buf d in Ok (fb q, Small r)
  else let '(q, r) := k_div_by_dword buf d in Ok (fb q, Small r).

Definition div_rem_large_t (lhs rhs : list Z) : result (trepr * trepr) :=
  rbind (k_div_rem_large lhs rhs) (fun '(q, r) => Ok (fb q, fb r)).

Definition repr_div_rem_form (o : own) (x y : trepr) : result (trepr * trepr) :=
  match x, y with
  | Small d0, Small d1 => div_rem_dword d0 d1
  | Small d0, Large _ => Ok (Small 0, Small d0)
  | Large b0, Small d1 => div_rem_large_dword b0 d1
  | Large b0, Large b1 =>
      if (length b1 <=? length b0)%nat then div_rem_large_t b0 b1
      else match o with
           | ORV => Ok (Small 0, fb (clone_from_slice b1 b0))      (* "Reuse buffer1 for the remainder." *)
           | _ => Ok (Small 0, fb b0)
           end
  end.

(** ---------------------------------------------------------------- Div *)
Definition div_dword (a b : Z) : result trepr := if b =? 0 then Panic DivideBy0 else Ok (Small (a / b)).
Definition div_large_dword (buf : list Z) (d : Z) : result trepr := rfst (div_rem_large_dword buf d).
(** div_large: div_rem_in_lhs, erase_front, from_buffer - the remainder is not shifted back *)
Definition div_large (lhs rhs : list Z) : result trepr :=
  rbind (k_div_rem_large lhs rhs) (fun '(q, _) => Ok (fb q)).

Definition repr_div_form (o : own) (x y : trepr) : result trepr :=
  match x, y with
  | Small d0, Small d1 => div_dword d0 d1
  | Small _, Large _ => Ok (Small 0)
  | Large b0, Small d1 => div_large_dword b0 d1
  | Large b0, Large b1 => if (length b1 <=? length b0)%nat then div_large b0 b1 else Ok (Small 0)
  end.

(** ---------------------------------------------------------------- Rem *)
Definition rem_dword (a b : Z) : result trepr := if b =? 0 then Panic DivideBy0 else Ok (Small (a mod b)).
Definition rem_large_dword (ws : list Z) (d : Z) : result trepr :=
  if d =? 0 then Panic DivideBy0
  else if d <? BB then Ok (Small (k_rem_by_word ws d))
  else Ok (Small (k_rem_by_dword ws d)).
Definition rem_large (lhs rhs : list Z) : result trepr :=
  rbind (k_div_rem_large lhs rhs) (fun '(_, r) => Ok (fb r)).

Definition repr_rem_form (o : own) (x y : trepr) : result trepr :=
  match x, y with
  | Small d0, Small d1 => rem_dword d0 d1
  | Small d0, Large _ => Ok (Small d0)
  | Large b0, Small d1 => rem_large_dword b0 d1
  | Large b0, Large b1 =>
      if (length b1 <=? length b0)%nat then rem_large b0 b1
      else match o with
           | ORV => Ok (fb (clone_from_slice b1 b0))
           | _ => Ok (fb b0)
           end
  end.

(** ---------------------------------------------------------------- IBig: impl_ibig_div / rem / divrem *)
Definition ibig_div_rem_form (o : own) (s0 : sign) (x : trepr) (s1 : sign) (y : trepr)
  : result ((sign * trepr) * (sign * trepr)) :=
  rbind (repr_div_rem_form o x y) (fun '(q, r) => Ok (with_sign (sign_mul s0 s1) q, with_sign s0 r)).
Definition ibig_div_form (o : own) (s0 : sign) (x : trepr) (s1 : sign) (y : trepr) : result (sign * trepr) :=
  rbind (repr_div_form o x y) (fun q => Ok (with_sign (sign_mul s0 s1) q)).
Definition ibig_rem_form (o : own) (s0 : sign) (x : trepr) (s1 : sign) (y : trepr) : result (sign * trepr) :=
  rbind (repr_rem_form o x y) (fun r => Ok (with_sign s0 r)).

End FormsDivModel.

Lemma skipn_last (ws : list Z) : ws <> [] -> skipn (length ws - 1) ws = [nth (length ws - 1) ws 0].
Proof.
  induction ws as [|a t IH]; intros H; [contradiction|]. destruct t as [|y t]; [reflexivity|].
  replace (length (a :: y :: t) - 1)%nat with (S (length (y :: t) - 1)) by (cbn [length]; lia).
  cbn [skipn nth]. apply IH. discriminate.
Qed.

Lemma top_word_pos w ws : wf w ws -> (1 <= length ws)%nat -> nth (length ws - 1) ws 0 <> 0 -> 0 < highest_word w ws.
Proof.
  intros W L Tp. unfold highest_word, top_words.
  rewrite skipn_last by (destruct ws; [cbn in L; lia | discriminate]).
  cbn [Words.value]. assert (In (nth (length ws - 1) ws 0) ws) by (apply nth_In; lia).
  unfold Words.wf in W. rewrite Forall_forall in W. specialize (W _ H). lia.
Qed.

Section FormsDiv.
Variable w : Z.
Hypothesis w_ge : 8 <= w.
Let w_pos : 0 < w. Proof. lia. Qed.
Notation BB := (Words.B w).
Notation val := (Words.value w).
Notation wfw := (Words.wf w).
Notation rv := (repr_value w).
Notation srv := (srepr_value w).
Notation twf := (twf w).
Notation fb := (from_buffer w).

Variable k_div_by_word k_div_by_dword : list Z -> Z -> list Z * Z.
Variable k_rem_by_word k_rem_by_dword : list Z -> Z -> Z.
Variable k_div_rem_large : list Z -> list Z -> result (list Z * list Z).
(** the kernel contracts *)
Hypothesis div_by_word_ok : forall ws d, wfw ws -> 0 < d < BB -> forall q r, k_div_by_word ws d = (q, r) ->
  val q = val ws / d /\ r = val ws mod d /\ wfw q.
Hypothesis div_by_dword_ok : forall ws d, wfw ws -> (2 <= length ws)%nat -> BB <= d < BB * BB ->
  forall q r, k_div_by_dword ws d = (q, r) -> val q = val ws / d /\ r = val ws mod d /\ wfw q.
Hypothesis rem_by_word_ok : forall ws d, wfw ws -> ws <> [] -> 0 < d < BB -> k_rem_by_word ws d = val ws mod d.
Hypothesis rem_by_dword_ok : forall ws d, wfw ws -> (2 <= length ws)%nat -> BB <= d < BB * BB ->
  k_rem_by_dword ws d = val ws mod d.
Hypothesis div_rem_large_ok : forall lhs rhs, wfw lhs -> wfw rhs -> (2 <= length rhs)%nat -> (length rhs <= length lhs)%nat ->
  nth (length rhs - 1) rhs 0 <> 0 ->
  exists q r, k_div_rem_large lhs rhs = Ok (q, r) /\ val q = val lhs / val rhs /\ val r = val lhs mod val rhs /\ wfw q /\ wfw r.

Notation divrem := (repr_div_rem_form w k_div_by_word k_div_by_dword k_div_rem_large).
Notation divf := (repr_div_form w k_div_by_word k_div_by_dword k_div_rem_large).
Notation remf := (repr_rem_form w k_rem_by_word k_rem_by_dword k_div_rem_large).

Let HB : 0 < BB := B_pos w w_pos.

Lemma twf_small d : 0 <= d < BB * BB -> twf (Small d).
Proof. intros H. exact H. Qed.

(** the multi-word kernel on two heap operands *)
Lemma large_arm b0 b1 : twf (Large b0) -> twf (Large b1) -> (length b1 <= length b0)%nat ->
  exists q r, k_div_rem_large b0 b1 = Ok (q, r) /\
    rv (fb q) = val b0 / val b1 /\ rv (fb r) = val b0 mod val b1 /\ twf (fb q) /\ twf (fb r).
Proof.
  intros H0 H1 Hle. destruct H0 as (W0 & L0 & _). destruct H1 as (W1 & L1 & T1).
  destruct (div_rem_large_ok b0 b1 W0 W1 ltac:(lia) Hle T1) as (q & r & E & Vq & Vr & Wq & Wr).
  exists q, r. destruct (from_buffer_spec w w_ge q Wq) as (Vq' & Tq). destruct (from_buffer_spec w w_ge r Wr) as (Vr' & Tr).
  split; [exact E|]. repeat split; auto; lia.
Qed.

Lemma short_arm b0 b1 : twf (Large b0) -> twf (Large b1) -> (length b0 < length b1)%nat ->
  val b0 / val b1 = 0 /\ val b0 mod val b1 = val b0 /\ rv (fb b0) = val b0 /\ twf (fb b0).
Proof.
  intros H0 H1 Hlt. destruct H0 as (W0 & L0 & T0). destruct H1 as (W1 & L1 & T1).
  pose proof (shorter_lt w w_ge b0 b1 W0 W1 Hlt T1) as Hv. pose proof (value_nonneg w w_pos b0 W0) as Hn.
  destruct (from_buffer_spec w w_ge b0 W0) as (V & Tb).
  repeat split; auto; [apply Z.div_small | apply Z.mod_small]; lia.
Qed.

(** what a correct (quotient, remainder) pair of canonical representations is *)
Definition divrem_post (x y : trepr) (res : result (trepr * trepr)) : Prop :=
  (rv y = 0 -> res = Panic DivideBy0) /\
  (rv y <> 0 -> exists q r, res = Ok (q, r) /\ rv q = rv x / rv y /\ rv r = rv x mod rv y /\ twf q /\ twf r).

Theorem repr_div_rem_form_correct o x y : twf x -> twf y -> divrem_post x y (divrem o x y).
Proof.
  intros Hx Hy. unfold divrem_post. destruct x as [d0|b0], y as [d1|b1]; cbn [repr_div_rem_form repr_value].
  - cbn [RingOpsProofs.twf] in Hx, Hy. unfold div_rem_dword. destruct (Z.eqb_spec d1 0) as [->|Hne]; split; intros H; try lia; try reflexivity.
    exists (Small (d0 / d1)), (Small (d0 mod d1)). split; [reflexivity|]. cbn [repr_value RingOpsProofs.twf].
    pose proof (Z.mod_pos_bound d0 d1 ltac:(lia)). pose proof (Z.div_pos d0 d1 ltac:(lia) ltac:(lia)).
    assert (d0 / d1 <= d0) by (apply Z.div_le_upper_bound; nia). repeat split; lia.
  - pose proof (large_ge w w_ge b1 Hy) as Hl. cbn [RingOpsProofs.twf] in Hx. split; [intros H; nia|]. intros _.
    exists (Small 0), (Small d0). split; [reflexivity|]. cbn [repr_value RingOpsProofs.twf].
    repeat split; try lia; [symmetry; apply Z.div_small; lia | symmetry; apply Z.mod_small; lia].
  - cbn [RingOpsProofs.twf] in Hy. pose proof Hx as (W0 & L0 & _). unfold div_rem_large_dword.
    destruct (Z.eqb_spec d1 0) as [->|Hne]; split; intros H; try lia; try reflexivity.
    destruct (Z.ltb_spec d1 BB) as [Hw1|Hw1].
    + destruct (k_div_by_word b0 d1) as [q r] eqn:E.
      destruct (div_by_word_ok b0 d1 W0 ltac:(lia) q r E) as (Vq & Vr & Wq).
      destruct (from_buffer_spec w w_ge q Wq) as (Vq' & Tq).
      exists (fb q), (Small r). split; [reflexivity|]. cbn [repr_value RingOpsProofs.twf].
      pose proof (Z.mod_pos_bound (val b0) d1 ltac:(lia)). repeat split; auto; try lia; nia.
    + destruct (k_div_by_dword b0 d1) as [q r] eqn:E.
      destruct (div_by_dword_ok b0 d1 W0 ltac:(lia) ltac:(lia) q r E) as (Vq & Vr & Wq).
      destruct (from_buffer_spec w w_ge q Wq) as (Vq' & Tq).
      exists (fb q), (Small r). split; [reflexivity|]. cbn [repr_value RingOpsProofs.twf].
      pose proof (Z.mod_pos_bound (val b0) d1 ltac:(lia)). repeat split; auto; lia.
  - pose proof (large_ge w w_ge b1 Hy) as Hl. split; [intros H; nia|]. intros _.
    destruct (Nat.leb_spec (length b1) (length b0)) as [Hle|Hgt].
    + destruct (large_arm b0 b1 Hx Hy Hle) as (q & r & E & Vq & Vr & Tq & Tr).
      unfold div_rem_large_t. rewrite E. cbn [rbind]. exists (fb q), (fb r). auto.
    + destruct (short_arm b0 b1 Hx Hy Hgt) as (Eq & Er & V & Tb).
      exists (Small 0), (fb b0). cbn [repr_value RingOpsProofs.twf]. rewrite Eq, Er.
      split; [destruct o; reflexivity|]. repeat split; auto; nia.
Qed.

(** `/`: by construction the quotient half of the same kernels *)
Lemma repr_div_form_fst o x y : divf o x y = rfst (divrem o x y).
Proof.
  destruct x as [d0|b0], y as [d1|b1]; cbn [repr_div_form repr_div_rem_form]; unfold rfst.
  - unfold div_dword, div_rem_dword. destruct (d1 =? 0); reflexivity.
  - reflexivity.
  - reflexivity.
  - destruct (length b1 <=? length b0)%nat; [|destruct o; reflexivity].
    unfold div_large, div_rem_large_t. destruct (k_div_rem_large b0 b1) as [[q r]| | |]; reflexivity.
Qed.

(** `%`: the remainder-only kernels return the remainder half of div_rem, as the identical Repr *)
Theorem repr_rem_form_snd o x y : twf x -> twf y -> remf o x y = rsnd (divrem o x y).
Proof.
  intros Hx Hy. pose proof (repr_div_rem_form_correct o x y Hx Hy) as (P0 & P1).
  destruct x as [d0|b0], y as [d1|b1]; cbn [repr_rem_form repr_div_rem_form repr_value] in *; unfold rsnd.
  - unfold rem_dword, div_rem_dword. destruct (d1 =? 0); reflexivity.
  - reflexivity.
  - cbn [RingOpsProofs.twf] in Hy. pose proof Hx as (W0 & L0 & _). unfold rem_large_dword, div_rem_large_dword in *.
    destruct (Z.eqb_spec d1 0) as [->|Hne]; [reflexivity|].
    destruct (P1 Hne) as (q & r & E & _ & Vr & _ & Tr). clear P0 P1.
    assert (Nz : b0 <> []) by (destruct b0; [cbn in L0; lia | discriminate]).
    destruct (Z.ltb_spec d1 BB) as [Hw1|Hw1].
    + rewrite (rem_by_word_ok b0 d1 W0 Nz ltac:(lia)).
      destruct (k_div_by_word b0 d1) as [q' r'] eqn:E'. inversion E; subst q r. cbn [rbind snd repr_value] in *. congruence.
    + rewrite (rem_by_dword_ok b0 d1 W0 ltac:(lia) ltac:(lia)).
      destruct (k_div_by_dword b0 d1) as [q' r'] eqn:E'. inversion E; subst q r. cbn [rbind snd repr_value] in *. congruence.
  - destruct (length b1 <=? length b0)%nat; [|destruct o; reflexivity].
    unfold rem_large, div_rem_large_t. destruct (k_div_rem_large b0 b1) as [[q r]| | |]; reflexivity.
Qed.

(** UBig div_rem / `/` / `%` (and the Euclidean trait methods of UBig, which forward to them; the
    op= forms through take): every ownership form of every call form returns the same canonical
    representations, or every one panics with DivideBy0 (exactly for a zero divisor) *)
Theorem ubig_div_forms_identical : forall o o' x y, twf x -> twf y ->
  divrem o x y = divrem o' x y /\ divf o x y = rfst (divrem o' x y) /\ remf o x y = rsnd (divrem o' x y) /\
  divrem_post x y (divrem o x y).
Proof.
  intros o o' x y Hx Hy.
  assert (E : forall a b, divrem a x y = divrem b x y).
  { intros a b. destruct (repr_div_rem_form_correct a x y Hx Hy) as (P0 & P1). destruct (repr_div_rem_form_correct b x y Hx Hy) as (Q0 & Q1).
    destruct (Z.eq_dec (rv y) 0) as [Z0|Nz]; [rewrite P0, Q0; auto|].
    destruct (P1 Nz) as (q & r & E1 & Vq & Vr & Tq & Tr). destruct (Q1 Nz) as (q' & r' & E2 & Vq' & Vr' & Tq' & Tr').
    rewrite E1, E2. assert (q = q') by (apply (twf_unique w w_ge); auto; lia). assert (r = r') by (apply (twf_unique w w_ge); auto; lia).
    subst. reflexivity. }
  split; [apply E|]. split; [rewrite repr_div_form_fst; f_equal; apply E|].
  split; [rewrite repr_rem_form_snd by assumption; f_equal; apply E|]. apply repr_div_rem_form_correct; assumption.
Qed.

(** IBig: the sign rules over the magnitudes; truncating division of the signed values *)
Theorem ibig_div_forms_identical : forall o o' s0 x s1 y, twf x -> twf y ->
  let dr := ibig_div_rem_form w k_div_by_word k_div_by_dword k_div_rem_large in
  dr o s0 x s1 y = dr o' s0 x s1 y /\
  ibig_div_form w k_div_by_word k_div_by_dword k_div_rem_large o s0 x s1 y = rfst (dr o' s0 x s1 y) /\
  ibig_rem_form w k_rem_by_word k_rem_by_dword k_div_rem_large o s0 x s1 y = rsnd (dr o' s0 x s1 y) /\
  (rv y = 0 -> dr o s0 x s1 y = Panic DivideBy0) /\
  (rv y <> 0 -> exists q r, dr o s0 x s1 y = Ok (q, r) /\
     srv q = Z.quot (signed s0 (rv x)) (signed s1 (rv y)) /\ srv r = Z.rem (signed s0 (rv x)) (signed s1 (rv y)) /\
     twf (snd q) /\ twf (snd r)).
Proof.
  intros o o' s0 x s1 y Hx Hy dr. subst dr. unfold ibig_div_rem_form, ibig_div_form, ibig_rem_form.
  destruct (ubig_div_forms_identical o o' x y Hx Hy) as (E & Ed & Er & P0 & P1). rewrite Ed, Er, E.
  split; [reflexivity|].
  split; [unfold rfst; destruct (divrem o' x y) as [[q r]| | |]; reflexivity|].
  split; [unfold rsnd; destruct (divrem o' x y) as [[q r]| | |]; reflexivity|].
  rewrite <- E. split; [intros Z0; rewrite (P0 Z0); reflexivity|]. intros Nz.
  destruct (P1 Nz) as (q & r & E1 & Vq & Vr & Tq & Tr). rewrite E1. cbn [rbind].
  eexists. eexists. split; [reflexivity|].
  destruct (with_sign_value w (sign_mul s0 s1) q) as (V1 & S1). destruct (with_sign_value w s0 r) as (V2 & S2).
  pose proof (twf_nonneg w w_ge x Hx). pose proof (twf_nonneg w w_ge y Hy).
  rewrite V1, V2, S1, S2, Vq, Vr, quot_signed, rem_signed by lia. auto.
Qed.

End FormsDiv.

(** closed statements for the instance of the kernels that the oracle runs (exact reciprocal
    division, exact multiply-subtract, threshold of the source): no premise left but the word size *)
Section FormsDivInst.
Variable w : Z.
Hypothesis w_ge : 8 <= w.
Let w_pos : 0 < w. Proof. lia. Qed.

Definition i_drl (lhs rhs : list Z) := div_rem_large w (x3by2 w) (xmul_sub w) Tn (fuel_for lhs) lhs rhs.
Definition i_div_rem_form := repr_div_rem_form w (i_div_by_word w) (i_div_by_dword w) i_drl.
Definition i_div_form := repr_div_form w (i_div_by_word w) (i_div_by_dword w) i_drl.
Definition i_rem_form := repr_rem_form w (i_rem_by_word w) (i_rem_by_dword w) i_drl.
Definition i_ibig_div_rem_form := ibig_div_rem_form w (i_div_by_word w) (i_div_by_dword w) i_drl.
Definition i_ibig_div_form := ibig_div_form w (i_div_by_word w) (i_div_by_dword w) i_drl.
Definition i_ibig_rem_form := ibig_rem_form w (i_rem_by_word w) (i_rem_by_dword w) i_drl.

(** C02's theorems discharge the kernel contracts for this instance *)
Lemma i_dbw_ok ws d : wf w ws -> 0 < d < B w -> forall q r, i_div_by_word w ws d = (q, r) ->
  value w q = value w ws / d /\ r = value w ws mod d /\ wf w q.
Proof.
  intros W D q r E. destruct (div_by_word_correct w w_pos x2by1 (x2by1_ok w) ws d W D q r E) as (A & B0 & C & _). auto.
Qed.
Lemma i_dbd_ok ws d : wf w ws -> (2 <= length ws)%nat -> B w <= d < B w * B w -> forall q r, i_div_by_dword w ws d = (q, r) ->
  value w q = value w ws / d /\ r = value w ws mod d /\ wf w q.
Proof.
  intros W L D q r E.
  destruct (div_by_dword_correct w w_pos (x3by2 w) (x4by2 w) (x3by2_ok w) (x4by2_ok w) ws d W L D q r E) as (A & B0 & C & _). auto.
Qed.
Lemma i_rbw_ok ws d : wf w ws -> ws <> [] -> 0 < d < B w -> i_rem_by_word w ws d = value w ws mod d.
Proof. intros W N D. exact (rem_by_word_correct w w_pos x1by1 x2by1 (x1by1_ok w) (x2by1_ok w) ws d W N D). Qed.
Lemma i_rbd_ok ws d : wf w ws -> (2 <= length ws)%nat -> B w <= d < B w * B w -> i_rem_by_dword w ws d = value w ws mod d.
Proof.
  intros W L D. exact (rem_by_dword_correct w w_pos x2by2 (x3by2 w) (x4by2 w) (x2by2_ok w) (x3by2_ok w) (x4by2_ok w) ws d W L D).
Qed.
Lemma i_drl_ok lhs rhs : wf w lhs -> wf w rhs -> (2 <= length rhs)%nat -> (length rhs <= length lhs)%nat ->
  nth (length rhs - 1) rhs 0 <> 0 ->
  exists q r, i_drl lhs rhs = Ok (q, r) /\ value w q = value w lhs / value w rhs /\ value w r = value w lhs mod value w rhs /\
    wf w q /\ wf w r.
Proof.
  intros Wl Wr L2 Ll Tp.
  destruct (div_rem_large_correct w w_pos (x3by2 w) (x3by2_ok w) (xmul_sub w) (xmul_sub_ok w w_pos) Tn Tn_ge (fuel_for lhs) lhs rhs
              Wl Wr L2 Ll (top_word_pos w rhs Wr ltac:(lia) Tp) ltac:(unfold fuel_for; lia)) as (q & r & E & Vq & Vr & Wq & Wr' & _).
  exists q, r. auto.
Qed.

Theorem i_ubig_div_forms_identical : forall o o' x y, twf w x -> twf w y ->
  i_div_rem_form o x y = i_div_rem_form o' x y /\ i_div_form o x y = rfst (i_div_rem_form o' x y) /\
  i_rem_form o x y = rsnd (i_div_rem_form o' x y) /\ divrem_post w x y (i_div_rem_form o x y).
Proof.
  exact (ubig_div_forms_identical w w_ge _ _ _ _ _ i_dbw_ok i_dbd_ok i_rbw_ok i_rbd_ok i_drl_ok).
Qed.

Theorem i_ibig_div_forms_identical : forall o o' s0 x s1 y, twf w x -> twf w y ->
  i_ibig_div_rem_form o s0 x s1 y = i_ibig_div_rem_form o' s0 x s1 y /\
  i_ibig_div_form o s0 x s1 y = rfst (i_ibig_div_rem_form o' s0 x s1 y) /\
  i_ibig_rem_form o s0 x s1 y = rsnd (i_ibig_div_rem_form o' s0 x s1 y) /\
  (repr_value w y = 0 -> i_ibig_div_rem_form o s0 x s1 y = Panic DivideBy0) /\
  (repr_value w y <> 0 -> exists q r, i_ibig_div_rem_form o s0 x s1 y = Ok (q, r) /\
     srepr_value w q = Z.quot (signed s0 (repr_value w x)) (signed s1 (repr_value w y)) /\
     srepr_value w r = Z.rem (signed s0 (repr_value w x)) (signed s1 (repr_value w y)) /\
     twf w (snd q) /\ twf w (snd r)).
Proof.
  exact (ibig_div_forms_identical w w_ge _ _ _ _ _ i_dbw_ok i_dbd_ok i_rbw_ok i_rbd_ok i_drl_ok).
Qed.

End FormsDivInst.

(** non-vacuity: 64-bit words; a 4-word by 3-word division, `%` by one word against div_rem, and
    the shorter-dividend arm of &a % b *)
Example ubig_div_forms_nonvacuous :
  i_div_rem_form 64 ORV (Large [1; 2; 3; 4]) (Large [5; 6; 7]) = i_div_rem_form 64 OVV (Large [1; 2; 3; 4]) (Large [5; 6; 7]) /\
  i_rem_form 64 ORR (Large [1; 2; 3; 4]) (Small 10) = rsnd (i_div_rem_form 64 OVV (Large [1; 2; 3; 4]) (Small 10)) /\
  i_rem_form 64 ORV (Large [5; 6; 7]) (Large [1; 2; 3; 4]) = Ok (Large [5; 6; 7]) /\
  i_div_rem_form 64 OVR (Large [5; 6; 7]) (Small 0) = Panic DivideBy0.
Proof. repeat split; vm_compute; reflexivity. Qed.
