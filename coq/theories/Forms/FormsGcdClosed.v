(** C15 (round 4): the five kernel contracts of the gcd form theorem (Forms/FormsGcd.v) DISCHARGED for the
    as-is instance the oracle runs (Forms/FormsGcdInst.v), citing C12 (Int/GrlGcdProof.v: the primitive
    binary gcd; Int/GrlLehmerProof.v + GrlLehmerTieProof.v: the Lehmer loop of gcd_in_place returns the gcd,
    ends within x + y iterations, never panics) and C02 (rem_by_word / rem_by_dword = floor remainder for
    the exact-division instance of num-modular's primitives).  Result: for every word size w >= 8 and
    all canonical operands, every ownership form of the integer gcd and the call with the operands
    exchanged build the identical canonical Repr of Z.gcd, or all panic (exactly for 0, 0) - no
    hypothesis left except that the fuels of the model suffice (x + y < lf x y, 2 * B^2 <= pf; fuel is
    not part of the code).  For ANY fuels (the ones the oracle runs with) an answer Ok is that same value. *)
From Dashu Require Import Base.Prelude Base.Words Int.RingMul Int.RingOps Int.RingOpsProofs.
From Dashu Require Import Int.GrlSpec Int.GrlModel Int.GrlGcdProof Int.GrlLehmer Int.GrlLehmerProof Int.GrlLehmerTieProof.
From Dashu Require Import Int.DivWordModel Int.DivWordProofs Int.DivConstProofs Int.DivWordInst Int.DivWordInstProofs.
From Dashu Require Import Forms.FormsInt Forms.FormsGcd Forms.FormsGcdInst.
Open Scope Z_scope.

(** * the primitive gcd (DoubleWord::gcd, Word::gcd): total once the fuel covers a + b *)
Lemma binary_gcd_no_err : forall fuel a b e, binary_gcd fuel a b <> Err e.
Proof.
  induction fuel as [|k IH]; intros a b e; cbn [binary_gcd]; [discriminate|].
  destruct (a =? b); [discriminate|]. destruct (b <? a); apply IH.
Qed.

Lemma rbind_no_err {A C} (r : result A) (f : A -> result C) e :
  (forall e', r <> Err e') -> (forall a e', f a <> Err e') -> rbind r f <> Err e.
Proof. intros Hr Hf. destruct r as [a|r0|e0|]; cbn [rbind]; try discriminate; [apply Hf | exfalso; exact (Hr e0 eq_refl)]. Qed.

Lemma prim_gcd_asis_no_err : forall fuel bits a b e, prim_gcd_asis fuel bits a b <> Err e.
Proof.
  intros fuel bits a b e. unfold prim_gcd_asis.
  repeat match goal with
  | |- (if ?c then _ else _) <> _ => destruct c
  | |- (let _ := _ in _) <> _ => cbv zeta
  end; try discriminate;
  apply rbind_no_err; intros; try discriminate; apply binary_gcd_no_err.
Qed.

Lemma prim_gcd_asis_total : forall fuel bits a b, 0 <= a -> 0 <= b -> a + b <= Z.of_nat fuel ->
  prim_gcd_asis fuel bits a b = gcd_spec a b.
Proof.
  intros fuel bits a b Ha Hb Hf.
  pose proof (prim_gcd_asis_terminates fuel bits a b Ha Hb Hf) as T.
  pose proof (prim_gcd_asis_no_err fuel bits a b) as NE.
  destruct (prim_gcd_asis fuel bits a b) as [g|r|e|] eqn:E.
  - symmetry. exact (prim_gcd_asis_correct _ _ _ _ _ Ha Hb E).
  - symmetry. exact (prim_gcd_asis_panics _ _ _ _ _ E).
  - exfalso. exact (NE e eq_refl).
  - exfalso. exact (T eq_refl).
Qed.

(** * the Lehmer loop *)
Lemma wlen_mono' : forall w a b, 0 < w -> 0 <= a <= b -> wlen w a <= wlen w b.
Proof.
  intros w a b Hw [Ha Hab]. unfold wlen.
  destruct (Z.eqb_spec a 0) as [->|Na]; destruct (Z.eqb_spec b 0) as [->|Nb]; try lia.
  - pose proof (Z.log2_nonneg b). pose proof (Z.div_pos (Z.log2 b) w ltac:(lia) Hw). lia.
  - pose proof (Z.log2_le_mono a b Hab). pose proof (Z.div_le_mono (Z.log2 a) (Z.log2 b) w Hw ltac:(lia)). lia.
Qed.

Lemma lehmer_loop_no_err : forall w fuel mdl ml x y sw e, 2 <= w -> 3 <= mdl -> 1 <= ml -> 0 <= y <= x ->
  lehmer_loop fuel mdl w ml x y sw <> Err e.
Proof.
  intros w fuel mdl ml. induction fuel as [|k IH]; intros x y sw e Hw Hmdl Hml Hyx; [discriminate|].
  cbn [lehmer_loop]. destruct (Z.leb_spec (wlen w y) ml) as [Hl|Hl]; [discriminate|].
  pose proof (wlen_mono' w y x ltac:(lia) Hyx) as Hm.
  assert (y <> 0) as Hy0 by (intros e0; subst y; unfold wlen in Hl; cbn in Hl; lia).
  destruct (lehmer_iter_always_ok w Hw mdl x y Hmdl Hyx ltac:(lia)) as [st E]. rewrite E.
  destruct st as [q r0|a b c d x1 y1].
  - destruct (lehmer_iter_euclid _ _ _ _ _ _ E) as [-> ->].
    pose proof (Z.mod_pos_bound x y ltac:(lia)). apply IH; try assumption; lia.
  - assert (0 <= y) as Py0 by lia.
    destruct (lehmer_iter_lehmer _ _ _ _ _ _ _ _ _ _ Hw Py0 E) as [_ [_ [_ [_ [Px Py]]]]].
    destruct (Z.leb_spec x1 y1); apply IH; try assumption; lia.
Qed.

(** the loop ends with a second operand of at most [ml] words *)
Lemma lehmer_loop_exit : forall fuel mdl w ml x y sw x' y' sw',
  lehmer_loop fuel mdl w ml x y sw = Ok (x', y', sw') -> wlen w y' <= ml.
Proof.
  induction fuel as [|k IH]; intros mdl w ml x y sw x' y' sw'; cbn [lehmer_loop]; [discriminate|].
  destruct (Z.leb_spec (wlen w y) ml) as [Hl|Hl].
  - intros E. injection E as <- <- <-. exact Hl.
  - destruct (lehmer_iter mdl w x y) as [[q r|a b c d x1 y1]|?|?|]; try discriminate.
    + apply IH.
    + destruct (x1 <=? y1); apply IH.
Qed.

Lemma wlen_le2_bound : forall w y, 0 < w -> 0 <= y -> wlen w y <= 2 -> y < 2 ^ (2 * w).
Proof.
  intros w y Hw Hy. unfold wlen. destruct (Z.eqb_spec y 0) as [->|Ny]; intros H.
  - apply Z.pow_pos_nonneg; lia.
  - assert (Z.log2 y / w <= 1) as H1 by lia.
    assert (Z.log2 y < 2 * w).
    { destruct (Z.lt_ge_cases (Z.log2 y) (2 * w)) as [L|L]; [exact L|].
      pose proof (Z.div_le_mono (2 * w) (Z.log2 y) w Hw L) as D.
      rewrite Z.div_mul in D by lia. lia. }
    apply Z.log2_lt_pow2; lia.
Qed.

(** gcd_in_place on (larger, smaller): with enough fuel the answer is Ok and it is the gcd *)
Theorem gcd_in_place_total : forall lf pf mdl w x y, 2 <= w -> 3 <= mdl -> 0 <= y <= x ->
  x + y < Z.of_nat lf -> 2 * 2 ^ (2 * w) <= Z.of_nat pf ->
  exists sw, gcd_in_place_gen lf pf mdl w x y = Ok (Z.gcd x y, sw).
Proof.
  intros lf pf mdl w x y Hw Hmdl Hyx Hlf Hpf.
  assert (exists r, gcd_in_place_gen lf pf mdl w x y = Ok r) as [[g sw] E].
  { unfold gcd_in_place_gen. destruct (Z.ltb_spec x y) as [L|_]; [lia|].
    pose proof (lehmer_loop_total lf mdl w 2 x y false Hw ltac:(lia) Hyx Hlf) as T.
    pose proof (lehmer_loop_never_panics w lf mdl 2 x y false) as NP.
    pose proof (lehmer_loop_no_err w lf mdl 2 x y false) as NE.
    destruct (lehmer_loop lf mdl w 2 x y false) as [[[x' y'] s]|r|e|] eqn:EL; cbn [rbind].
    - assert (0 <= 2) as H02 by lia. assert (0 <= x) as Hx0 by lia. assert (0 <= y) as Hy0 by lia.
      destruct (lehmer_loop_inv _ _ _ _ _ _ _ _ _ _ Hw H02 Hx0 Hy0 EL) as [_ [Px Py]].
      pose proof (lehmer_loop_exit _ _ _ _ _ _ _ _ _ _ EL) as Hex.
      pose proof (wlen_le2_bound w y' ltac:(lia) Py Hex) as Hb.
      destruct (Z.eqb_spec y' 0) as [e0|e0]; [eauto|].
      pose proof (Z.mod_pos_bound x' y' ltac:(lia)) as Hm.
      assert (forall bits, exists g, prim_gcd_asis pf bits (x' mod y') y' = Ok g) as P.
      { intros bits. rewrite prim_gcd_asis_total by lia. unfold gcd_spec.
        replace (y' =? 0) with false by (symmetry; apply Z.eqb_neq; exact e0). rewrite andb_false_r. eauto. }
      destruct (_ =? 0).
      + destruct (P w) as [g0 ->]. cbn [rbind]. eauto.
      + destruct (P (2 * w)) as [g0 ->]. cbn [rbind]. eauto.
    - exfalso. exact (NP r Hw Hmdl ltac:(lia) Hyx eq_refl).
    - exfalso. exact (NE e Hw Hmdl ltac:(lia) Hyx eq_refl).
    - exfalso. exact (T eq_refl). }
  exists sw. rewrite E. f_equal. f_equal.
  assert (0 <= y) as Hy0 by lia. exact (gcd_in_place_gen_correct _ _ _ _ _ _ _ _ Hw Hy0 E).
Qed.

Lemma mdl_ge : 3 <= MIN_DWORD_GUESS_LEN. Proof. unfold MIN_DWORD_GUESS_LEN. lia. Qed.

(** * the five contracts, for the instance *)
Section Closed.
Variable w : Z.
Hypothesis w_ge : 8 <= w.
Let w_pos : 0 < w. Proof. lia. Qed.
Variable lf : Z -> Z -> nat.
Variable pf : nat.
Hypothesis lf_ok : forall x y, 0 <= y <= x -> x + y < Z.of_nat (lf x y).
Hypothesis pf_ok : 2 * (Words.B w * Words.B w) <= Z.of_nat pf.

Lemma BB_pow : Words.B w * Words.B w = 2 ^ (2 * w).
Proof. unfold Words.B. rewrite <- Z.pow_add_r by lia. f_equal. lia. Qed.

Lemma c_dword_gcd : forall a b, 0 <= a < Words.B w * Words.B w -> 0 <= b < Words.B w * Words.B w ->
  prim_gcd_asis pf (2 * w) a b = if (a =? 0) && (b =? 0) then Panic GcdZeroZero else Ok (Z.gcd a b).
Proof. intros a b Ha Hb. rewrite prim_gcd_asis_total by lia. reflexivity. Qed.

Lemma c_word_gcd : forall a b, 0 < a < Words.B w -> 0 < b < Words.B w -> prim_gcd_asis pf w a b = Ok (Z.gcd a b).
Proof.
  intros a b Ha Hb. pose proof (B_pos w w_pos) as HB.
  assert (Words.B w * 1 <= Words.B w * Words.B w) by (apply Z.mul_le_mono_nonneg_l; lia).
  rewrite prim_gcd_asis_total by lia. unfold gcd_spec.
  replace (a =? 0) with false by (symmetry; apply Z.eqb_neq; lia). reflexivity.
Qed.

Lemma c_rem_by_word : forall ws d, Words.wf w ws -> ws <> [] -> 0 < d < Words.B w ->
  i_rem_by_word w ws d = Words.value w ws mod d.
Proof. apply (rem_by_word_correct w w_pos x1by1 x2by1 (x1by1_ok w) (x2by1_ok w)). Qed.

Lemma c_rem_by_dword : forall ws d, Words.wf w ws -> (2 <= length ws)%nat -> Words.B w <= d < Words.B w * Words.B w ->
  i_rem_by_dword w ws d = Words.value w ws mod d.
Proof. apply (rem_by_dword_correct w w_pos x2by2 (x3by2 w) (x4by2 w) (x2by2_ok w) (x3by2_ok w) (x4by2_ok w)). Qed.

Lemma c_gcd_core : forall a b, Words.wf w a -> Words.wf w b -> 0 < Words.value w b < Words.value w a ->
  exists g, i_gcd_core_f lf pf w a b = Ok g /\ Words.wf w g /\ Words.value w g = Z.gcd (Words.value w a) (Words.value w b).
Proof.
  intros a b Wa Wb Hv. unfold i_gcd_core_f. cbv zeta.
  set (x := Words.value w a) in *. set (y := Words.value w b) in *.
  destruct (gcd_in_place_total (lf x y) pf MIN_DWORD_GUESS_LEN w x y ltac:(lia) mdl_ge ltac:(lia)
              (lf_ok x y ltac:(lia)) ltac:(rewrite <- BB_pow; exact pf_ok)) as [sw E].
  rewrite E. cbn [rbind fst]. eexists. split; [reflexivity|]. split; [apply to_words_wf; exact w_pos|].
  apply value_to_words; [exact w_pos|].
  pose proof (value_bounds w w_pos a Wa) as Hb. fold x in Hb. unfold len in Hb.
  pose proof (Z.gcd_nonneg x y).
  assert (Z.gcd x y <= x) by (apply Z.divide_pos_le; [lia | apply Z.gcd_divide_l]). lia.
Qed.

(** every ownership form of the integer gcd and the call with the operands exchanged: identical canonical
    Repr of Z.gcd, or all panic - for the as-is instance, no kernel contract left *)
Theorem ubig_gcd_forms_identical_closed : forall o o' x y, twf w x -> twf w y ->
  let f := i_gcd_form_f lf pf w in
  f o x y = f o' x y /\ f o y x = f o' x y /\
  (repr_value w x = 0 /\ repr_value w y = 0 -> f o x y = Panic GcdZeroZero) /\
  (~ (repr_value w x = 0 /\ repr_value w y = 0) ->
     exists r, f o x y = Ok r /\ repr_value w r = Z.gcd (repr_value w x) (repr_value w y) /\ twf w r).
Proof.
  intros o o' x y Hx Hy. unfold i_gcd_form_f.
  exact (ubig_gcd_forms_identical_b w w_ge _ _ _ _ _ c_dword_gcd c_word_gcd c_rem_by_word c_rem_by_dword c_gcd_core o o' x y Hx Hy).
Qed.
End Closed.

(** fuels that suffice exist (the hypotheses of the section are inhabited) *)
Lemma lf_total_ok : forall x y, 0 <= y <= x -> x + y < Z.of_nat (lf_total x y).
Proof. intros x y H. unfold lf_total. lia. Qed.
Lemma pf_total_ok : forall w, 0 < w -> 2 * (Words.B w * Words.B w) <= Z.of_nat (pf_total w).
Proof. intros w Hw. unfold pf_total. pose proof (B_pos w Hw). rewrite Z2Nat.id by nia. lia. Qed.

Theorem ubig_gcd_forms_identical_total : forall w, 8 <= w -> forall o o' x y, twf w x -> twf w y ->
  let f := i_gcd_form_f lf_total (pf_total w) w in
  f o x y = f o' x y /\ f o y x = f o' x y /\
  (repr_value w x = 0 /\ repr_value w y = 0 -> f o x y = Panic GcdZeroZero) /\
  (~ (repr_value w x = 0 /\ repr_value w y = 0) ->
     exists r, f o x y = Ok r /\ repr_value w r = Z.gcd (repr_value w x) (repr_value w y) /\ twf w r).
Proof.
  intros w Hw. apply (ubig_gcd_forms_identical_closed w Hw lf_total (pf_total w) lf_total_ok (pf_total_ok w ltac:(lia))).
Qed.

(** the oracle's instance is this instance with the fuels it runs with *)
Example i_gcd_form_is_f : forall w, i_gcd_form w = i_gcd_form_f lehmer_fuel gcd_prim_fuel w.
Proof. reflexivity. Qed.

(** non-vacuity: the answers of the instance in three arms *)
Example ubig_gcd_closed_nonvacuous :
  i_gcd_form_f lehmer_fuel gcd_prim_fuel 64 OVR (Large [0; 0; 12]) (Small 18) = Ok (Small 6) /\
  i_gcd_form_f lehmer_fuel gcd_prim_fuel 64 ORV (Small 18) (Large [0; 0; 12]) = Ok (Small 6) /\
  i_gcd_form_f lehmer_fuel gcd_prim_fuel 64 OVV (Large [0; 0; 12]) (Large [0; 0; 18]) = Ok (Large [0; 0; 6]).
Proof. repeat split; vm_compute; reflexivity. Qed.
