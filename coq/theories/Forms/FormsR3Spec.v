(** C15 (round 3): definitions only (proofs: Forms/FormsFloatR3.v) - the FBig operator forms of + and -
    after the repair of the zero shortcut (float/src/add.rs), Context::sub as repaired, and
    Sum / Product of FBig as folds (float/src/iter.rs). *)
From Dashu Require Import Base.Prelude Float.RoundSpec Float.Contract Float.Model Float.AddModel Int.RingOps.
From Dashu Require Import Forms.FormsSpec Forms.FormsFloatSpec.
Open Scope Z_scope.

Section R3Spec.
Variable B : Z.
Variable digits_ub : Z -> Z.

(** the zero shortcut of the repaired bodies: [s2'] is the right operand with the sign of the
    operation applied; [body] is the (unchanged) code for two non-zero operands *)
Definition zero_shortcut (p : Z) (m : mode) (s1 e1 s2' e2 : Z) (body : Z * Z) : Z * Z :=
  if s1 =? 0 then approx_val (repr_round B p m s2' e2)
  else if s2' =? 0 then approx_val (repr_round B p m s1 e1)
  else body.

(** the operator forms of + (sg = Positive) and - (sg = Negative) as repaired; op= takes self and
    runs the OVV / OVR body *)
Definition fadd_form (o : own) (p1 p2 : Z) (m : mode) (s1 e1 s2 e2 : Z) (sg : sign) : Z * Z :=
  zero_shortcut (ctx_max p1 p2) m s1 e1 (sgnz sg * s2) e2
    (match o with
     | OVV => add_val_val B digits_ub p1 p2 m s1 e1 s2 e2 sg
     | OVR => add_val_ref B digits_ub p1 p2 m s1 e1 s2 e2 sg
     | ORV => add_ref_val B digits_ub p1 p2 m s1 e1 s2 e2 sg
     | ORR => add_ref_ref B digits_ub p1 p2 m s1 e1 s2 e2 sg
     end).

(** Context::sub as repaired: 0 - x rounds -x *)
Definition ctx_sub_r3 (p : Z) (m : mode) (s1 e1 s2 e2 : Z) : approx :=
  if s1 =? 0 then repr_round B p m (- s2) e2
  else if s2 =? 0 then repr_round B p m s1 e1
  else add_dispatch B digits_ub p m s1 e1 s2 e2 Negative.

End R3Spec.

(** an FBig value: (precision, (significand, exponent)); every result is stored normalised *)
Definition fval3 : Type := (Z * (Z * Z))%type.
Definition F_ZERO : fval3 := (0, (0, 0)).
Definition F_ONE : fval3 := (0, (1, 0)).
Definition F_NEG_ONE : fval3 := (0, (-1, 0)).

Section IterSpec.
Variable B : Z.
Variable digits_ub : Z -> Z.
Variable m : mode.

Definition norm2 (se : Z * Z) : Z * Z := normalize B (fst se) (snd se).
Definition fadd3 (o : own) (sg : sign) (a b : fval3) : fval3 :=
  let '(p1, (s1, e1)) := a in let '(p2, (s2, e2)) := b in
  (ctx_max p1 p2, norm2 (fadd_form B digits_ub o p1 p2 m s1 e1 s2 e2 sg)).
Definition fmul3 (a b : fval3) : fval3 :=
  let '(p1, (s1, e1)) := a in let '(p2, (s2, e2)) := b in
  (ctx_max p1 p2, norm2 (fmul_op B (ctx_max p1 p2) m s1 e1 s2 e2)).

(** Sum<FBig> ( FBig::add = Add<FBig> for FBig : o = OVV ), Sum<&FBig> ( Add<&FBig> for FBig : OVR ) *)
Definition fsum_asis (o : own) (items : list fval3) : fval3 := fold_left (fadd3 o Positive) items F_ZERO.
Definition fprod_asis (items : list fval3) : fval3 := fold_left fmul3 items F_ONE.

End IterSpec.

(** instances with the exact digit count as the estimate (what the oracle runs) *)
Definition fadd_form_x (B : Z) := fadd_form B (dlen B).
Definition ctx_sub_r3_x (B : Z) := ctx_sub_r3 B (dlen B).
Definition fsum_asis_x (B : Z) := fsum_asis B (dlen B).
