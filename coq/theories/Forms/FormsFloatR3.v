(** C15 (round 3): the FBig operator forms after the repair of the zero shortcut, the regenerated
    float fragments, the two open classes of * and / stated exactly, Sum / Product as folds.

    REPAIR (float/src/add.rs): the four operator bodies add_val_val / add_val_ref / add_ref_val /
    add_ref_ref returned the other operand UNROUNDED when one operand is zero, so with an operand
    longer than the result precision (an unlimited-precision FBig next to a limited one) `x + 0`
    kept all digits of x while Context::add rounds; Context::sub negated AFTER rounding (0 - x in
    the modes Up / Down rounded in the wrong direction).  Now every zero shortcut rounds the
    surviving operand (with its final sign) into the result precision.  The pinned bodies are
    Float/AddModel.v add_val_val ... (C15_float_operand_exceeds_precision_refuted); the code of the
    branch with two non-zero operands is unchanged.  After the repair ALL FIVE FORMS of + and of -
    agree for ALL operands, precisions, modes and digit estimates (no hypothesis on the lengths). *)
From Dashu Require Import Base.Prelude Float.RoundSpec Float.Contract Float.Model Float.AddModel Int.RingOps.
From Dashu Require Import Forms.FormsSpec Forms.FormsFloatSpec Forms.FormsFloat Forms.FormsR3Spec.
From DashuGen Require Import RoundTables FormsFloatGen.
Open Scope Z_scope.

Section R3.
Variable B : Z.
Variable digits_ub : Z -> Z.
Hypothesis digits_ub_opp : forall s, digits_ub (- s) = digits_ub s.

Theorem float_add_forms_agree_r3 : forall o o' p1 p2 m s1 e1 s2 e2 sg,
  fadd_form B digits_ub o p1 p2 m s1 e1 s2 e2 sg = fadd_form B digits_ub o' p1 p2 m s1 e1 s2 e2 sg.
Proof.
  intros o o' p1 p2 m s1 e1 s2 e2 sg.
  destruct (float_add_forms_agree B digits_ub digits_ub_opp p1 p2 m s1 e1 s2 e2 sg) as (A & B0 & C).
  unfold fadd_form. f_equal. destruct o, o'; congruence.
Qed.

(** operator = Context method at the precision of the result, for ALL operands *)
Theorem float_add_ctx_agrees_r3 : forall o p1 p2 m s1 e1 s2 e2,
  approx_val (ctx_add B digits_ub (ctx_max p1 p2) m s1 e1 s2 e2) = fadd_form B digits_ub o p1 p2 m s1 e1 s2 e2 Positive.
Proof.
  intros o p1 p2 m s1 e1 s2 e2. rewrite (float_add_forms_agree_r3 o OVV).
  unfold fadd_form, zero_shortcut, ctx_add, add_val_val. cbn [sgnz]. rewrite Z.mul_1_l.
  destruct (s1 =? 0); [reflexivity|]. destruct (s2 =? 0); reflexivity.
Qed.

Theorem float_sub_ctx_agrees_r3 : forall o p1 p2 m s1 e1 s2 e2,
  approx_val (ctx_sub_r3 B digits_ub (ctx_max p1 p2) m s1 e1 s2 e2) = fadd_form B digits_ub o p1 p2 m s1 e1 s2 e2 Negative.
Proof.
  intros o p1 p2 m s1 e1 s2 e2. rewrite (float_add_forms_agree_r3 o OVR).
  unfold fadd_form, zero_shortcut, ctx_sub_r3, add_val_ref. rewrite mul_sgnz_eqb0. cbn [sgnz].
  replace (-1 * s2) with (- s2) by ring.
  destruct (s1 =? 0); [reflexivity|]. destruct (s2 =? 0); reflexivity.
Qed.

(** where no operand is longer than the result precision the repair changes nothing *)
Theorem fadd_form_eq_pinned : forall p1 p2 m s1 e1 s2 e2 sg,
  let p := ctx_max p1 p2 in (p = 0 \/ (dlen B s1 <= p /\ dlen B s2 <= p)) ->
  fadd_form B digits_ub OVV p1 p2 m s1 e1 s2 e2 sg = add_val_val B digits_ub p1 p2 m s1 e1 s2 e2 sg.
Proof.
  intros p1 p2 m s1 e1 s2 e2 sg p H. unfold fadd_form, zero_shortcut, add_val_val. fold p.
  assert (D : dlen B (sgnz sg * s2) = dlen B s2).
  { destruct sg; cbn [sgnz]; [rewrite Z.mul_1_l; reflexivity|]. replace (-1 * s2) with (- s2) by ring. apply dlen_opp. }
  destruct (s1 =? 0).
  - rewrite (repr_round_fits B) by (rewrite D; tauto). reflexivity.
  - destruct (sgnz sg * s2 =? 0); [|reflexivity]. rewrite (repr_round_fits B) by tauto. reflexivity.
Qed.

End R3.

(** the pinned zero shortcut is refuted by the repaired form on the witness of the finding, and the
    pinned Context::sub by 0 - 123456 at precision 3 in the mode Up (-124e3 instead of -123e3) *)
Lemma float_zero_shortcut_repaired :
  fadd_form 10 (dlen 10) OVV 0 3 MHalfAway 123456 0 0 0 Positive = (123, 3) /\
  add_val_val_x 10 0 3 MHalfAway 123456 0 0 0 Positive = (123456, 0) /\
  approx_val (ctx_sub_r3 10 (dlen 10) 3 MUp 0 0 123456 0) = (-123, 3) /\
  approx_val (ctx_sub_x 10 3 MUp 0 0 123456 0) = (-124, 3).
Proof. repeat split; vm_compute; reflexivity. Qed.

(** ------------------------------------------------------------------ regenerated fragments *)
(** mul.rs: the four hand-written impls of Mul are one function: the single rounding of the exact
    product at Context::max of the two precisions; each checks for infinite operands first *)
Theorem gen_fmul_model : forall o B m p1 s1 e1 p2 s2 e2,
  gen_fmul o B m p1 s1 e1 p2 s2 e2 = (fmul_op B (ctx_max p1 p2) m s1 e1 s2 e2, ctx_max p1 p2) /\
  gen_fmul_checks_finite o = true.
Proof.
  intros o B m p1 s1 e1 p2 s2 e2. split; [|destruct o; reflexivity].
  destruct o; cbv [gen_fmul gen_fmul_OVV gen_fmul_OVR gen_fmul_ORV gen_fmul_ORR gen_round_pair fmul_op];
    destruct (normalize B (s1 * s2) (e1 + e2)); reflexivity.
Qed.

(** div.rs impl_div_or_rem_for_fbig: the four arms call the same $repr_method on the same operands
    at Context::max; instantiated for (Div, repr_div) and (Rem, repr_rem) *)
Theorem gen_fdivrem_model : forall (A V : Type) o (f : Z -> A -> A -> V) p1 r1 p2 r2,
  gen_fdivrem o f p1 r1 p2 r2 = (f (ctx_max p1 p2) r1 r2, ctx_max p1 p2).
Proof. intros A V o f p1 r1 p2 r2. destruct o; reflexivity. Qed.

Theorem gen_fdivrem_insts_model : gen_fdivrem_insts = [(FDivOp, FReprDiv); (FRemOp, FReprRem)].
Proof. reflexivity. Qed.

(** shift.rs: Shl / ShlAssign / Shr / ShrAssign are the models of Forms/FormsSpec.v (the repaired
    ShrAssign: one subtraction, inside the zero test) and check for an infinite operand *)
Definition fin_of (se : Z * Z) : fval := FFin (fst se) (snd se).
Theorem gen_fshift_model : forall s e n,
  fshl_asis (FFin s e) n = Ok (fin_of (gen_fshl s e n)) /\ fshl_asis (FFin s e) n = Ok (fin_of (gen_fshl_assign s e n)) /\
  fshr_asis (FFin s e) n = Ok (fin_of (gen_fshr s e n)) /\ fshr_asis (FFin s e) n = Ok (fin_of (gen_fshr_assign s e n)) /\
  gen_fshl_checks_finite && gen_fshl_assign_checks_finite && gen_fshr_checks_finite && gen_fshr_assign_checks_finite = true.
Proof.
  intros s e n. cbv [fshl_asis fshr_asis fin_of gen_fshl gen_fshl_assign gen_fshr gen_fshr_assign fst snd].
  repeat split; destruct (s =? 0); reflexivity.
Qed.

(** the FBig methods exp, exp_m1, powi, ln, ln_1p, sqrt, sqr, cubic, inv are
    self.context.<same name>(&self.repr, ..).value(): method and Context method at the precision of
    the value are one computation *)
Theorem gen_fmethod_forwards_model :
  map fst gen_fmethod_forwards = [FM_exp; FM_exp_m1; FM_powi; FM_ln; FM_ln_1p; FM_sqrt; FM_sqr; FM_cubic; FM_inv] /\
  Forall (fun p => fst p = snd p) gen_fmethod_forwards.
Proof. split; [reflexivity|]. repeat constructor. Qed.

(** ------------------------------------------------------------------ the open classes of * and / *)
Lemma repr_div_panics : forall B p m s1 e1 s2 e2 r, repr_div B p m s1 e1 s2 e2 = Panic r ->
  r = UnlimitedPrecision \/ r = DivideBy0.
Proof.
  intros B p m s1 e1 s2 e2 r. unfold repr_div.
  destruct (p =? 0); [intros H; injection H as <-; auto|].
  destruct (s2 =? 0); [intros H; injection H as <-; auto|].
  destruct (Z.rem s1 s2 =? 0); [discriminate|].
  destruct (Z.quot s1 s2 =? 0).
  - destruct (Z.rem _ s2 =? 0); discriminate.
  - destruct (dlen B (Z.quot s1 s2) + dlen B s2 <? dlen B s2 + p); destruct (_ =? 0); discriminate.
Qed.

Lemma rbind_repr_div_not_undoc : forall B p m s1 e1 s2 e2,
  rbind (repr_div B p m s1 e1 s2 e2) (fun a => Ok (approx_val a)) <> Panic Undocumented.
Proof.
  intros B p m s1 e1 s2 e2 H. destruct (repr_div B p m s1 e1 s2 e2) as [a|r| |] eqn:E; cbn [rbind] in H; try discriminate.
  injection H as ->. destruct (repr_div_panics _ _ _ _ _ _ _ _ E); discriminate.
Qed.

(** Context::div never trips the assertion; the operator / does exactly on the class *)
Theorem fdiv_ctx_never_undocumented : forall B p m s1 e1 s2 e2, fdiv_ctx B p m s1 e1 s2 e2 <> Panic Undocumented.
Proof.
  intros B p m s1 e1 s2 e2. unfold fdiv_ctx.
  destruct (negb (s1 =? 0) && (dlen B s1 >? dlen B s2 + p)).
  - destruct (approx_val (repr_round B (dlen B s2 + p) m s1 e1)) as [s e]. destruct (normalize B s e) as [s' e'].
    destruct (p =? 0); [discriminate | apply rbind_repr_div_not_undoc].
  - destruct (p =? 0); [discriminate | apply rbind_repr_div_not_undoc].
Qed.

Theorem fdiv_op_undocumented_iff : forall B p m s1 e1 s2 e2,
  fdiv_op B p m s1 e1 s2 e2 = Panic Undocumented <-> (p <> 0 /\ p + dlen B s2 < dlen B s1).
Proof.
  intros B p m s1 e1 s2 e2. unfold fdiv_op. destruct (Z.eqb_spec p 0) as [P0|P0].
  - split; [discriminate | intros (H & _); contradiction].
  - destruct (Z.gtb_spec (dlen B s1) (p + dlen B s2)) as [G|G].
    + split; [intros _; split; [exact P0 | lia] | reflexivity].
    + split; [intros H; exfalso; exact (rbind_repr_div_not_undoc _ _ _ _ _ _ _ H) | intros (_ & H); lia].
Qed.

(** THE CLASS OF / EXACTLY: operator and Context::div agree iff the dividend is not longer than
    precision + digits of the divisor (or the precision is unlimited: both panic alike) *)
Theorem float_div_class_exact : forall B p m s1 e1 s2 e2,
  fdiv_ctx B p m s1 e1 s2 e2 = fdiv_op B p m s1 e1 s2 e2 <-> ~ (p <> 0 /\ p + dlen B s2 < dlen B s1).
Proof.
  intros B p m s1 e1 s2 e2. split.
  - intros E C. apply (fdiv_ctx_never_undocumented B p m s1 e1 s2 e2). rewrite E. apply fdiv_op_undocumented_iff. exact C.
  - intros N. destruct (Z.eqb_spec p 0) as [P0|P0].
    + unfold fdiv_ctx, fdiv_op. subst p. cbn [Z.eqb].
      destruct (negb (s1 =? 0) && (dlen B s1 >? dlen B s2 + 0)); [|reflexivity].
      destruct (approx_val (repr_round B (dlen B s2 + 0) m s1 e1)) as [s e]. destruct (normalize B s e); reflexivity.
    + apply float_div_ctx_agrees. destruct (Z.le_gt_cases (dlen B s1) (p + dlen B s2)); [assumption|]. exfalso. apply N. split; [exact P0 | lia].
Qed.

(** the class of *: outside it operator = Context::mul (Forms/FormsFloat.v float_mul_ctx_agrees);
    inside it the operator is the correctly rounded exact product by definition, Context::mul rounds
    twice (float_mul_double_rounding_refuted) - they may or may not differ there *)
Definition fmul_class (B p s1 s2 : Z) : Prop := p <> 0 /\ (2 * p < dlen B s1 \/ 2 * p < dlen B s2).

Theorem float_mul_class : forall B p m s1 e1 s2 e2, ~ fmul_class B p s1 s2 ->
  approx_val (ctx_mul B p m s1 e1 s2 e2) = fmul_op B p m s1 e1 s2 e2.
Proof.
  intros B p m s1 e1 s2 e2 N. apply float_mul_ctx_agrees. unfold fmul_class in N.
  destruct (Z.eq_dec p 0); [left; assumption | right; lia].
Qed.

(** ------------------------------------------------------------------ Sum / Product (iter.rs) *)
Section Iter.
Variable B : Z.
Variable digits_ub : Z -> Z.
Hypothesis digits_ub_opp : forall s, digits_ub (- s) = digits_ub s.
Variable m : mode.

(** the regenerated bodies are these folds: start value FBig::ZERO / FBig::ONE, operator add / mul *)
Theorem gen_fsum_model : forall o (fsub fdiv : fval3 -> fval3 -> fval3) items,
  gen_fsum F_ZERO F_ONE F_NEG_ONE (fadd3 B digits_ub m o Positive) fsub (fmul3 B m) fdiv items = fsum_asis B digits_ub m o items /\
  gen_fprod F_ZERO F_ONE F_NEG_ONE (fadd3 B digits_ub m o Positive) fsub (fmul3 B m) fdiv items = fprod_asis B m items.
Proof. intros. split; reflexivity. Qed.

Lemma fold_left_ext_eq : forall (A C : Type) (f g : A -> C -> A), (forall a c, f a c = g a c) ->
  forall l a, fold_left f l a = fold_left g l a.
Proof. intros A C f g H l. induction l as [|c l IH]; intros a; [reflexivity|]. cbn [fold_left]. rewrite H. apply IH. Qed.

(** summing owned items, borrowed items, or folding with + / += by hand: one value, any list *)
Theorem fsum_forms_agree : forall o o' items, fsum_asis B digits_ub m o items = fsum_asis B digits_ub m o' items.
Proof.
  intros o o' items. unfold fsum_asis. apply fold_left_ext_eq. intros [p1 [s1 e1]] [p2 [s2 e2]].
  unfold fadd3. rewrite (float_add_forms_agree_r3 B digits_ub digits_ub_opp o o'). reflexivity.
Qed.

End Iter.

Example fsum_nonvacuous :
  fsum_asis 10 (dlen 10) MHalfAway OVR [(3, (123, 0)); (3, (456, -1)); (5, (1, -4))] = (5, (169, 0)) /\
  fprod_asis 10 MHalfAway [(2, (25, 0)); (2, (5, 0))] = (2, (13, 1)).
Proof. split; vm_compute; reflexivity. Qed.

Example float_div_class_nonvacuous :
  fdiv_op 10 2 MHalfAway 99999999 0 3 0 = Panic Undocumented /\ fdiv_ctx 10 2 MHalfAway 99999999 0 3 0 = Ok (33, 6).
Proof. split; vm_compute; reflexivity. Qed.
