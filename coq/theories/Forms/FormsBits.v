(** C15: the ownership forms of the integer & | ^ << >> at the level of the Repr kernels (bits.rs,
    shift_ops.rs mod repr).  The as-is models Int/BitsKernels.v repr_bitand / repr_bitor / repr_bitxor
    take the ownership form [o : bown] as a parameter (it selects the buffer that is reused: the
    shorter one for &, the longer one for | and ^ when both are owned or both borrowed, the owned
    one otherwise; T op &T swaps the operands); repr_shl has the outcome of the capacity test as a
    parameter and repr_shl_ref / repr_shr_ref are the borrowed-operand bodies.  C09 proves each of
    them correct for every arm (Int/BitsLogicProofs.v, Int/BitsShiftProofs.v, Int/BitsSignedProofs.v,
    imported read-only); here: a canonical Repr is determined by its value, hence ALL FORMS RETURN
    THE IDENTICAL REPRESENTATION.  Any word size w > 0. *)
From Dashu Require Import Base.Prelude Base.Words Int.BitsSpec Int.BitsSign Int.BitsWords Int.BitsKernels
  Int.BitsKernelsBase Int.BitsLogicProofs Int.BitsShiftProofs Int.BitsSignedProofs.
Open Scope Z_scope.

Section FormsBits.
Variable w : Z.
Hypothesis w_pos : 0 < w.
Notation B := (Words.B w).
Notation value := (Words.value w).
Notation wf := (Words.wf w).
Notation bv := (bvalue w).
Notation bok := (brepr_ok w).

(** the canonical representation (inline iff < B^2, no leading zero word) is unique *)
Lemma brepr_unique : forall r1 r2, bok r1 -> bok r2 -> bv r1 = bv r2 -> r1 = r2.
Proof.
  intros r1 r2 H1 H2 E. pose proof (B_pos w w_pos) as HB.
  destruct r1 as [d1|a], r2 as [d2|b]; cbn [bvalue] in E.
  - f_equal. exact E.
  - pose proof (brepr_large_lower w w_pos b H2). cbn [brepr_ok] in H1. lia.
  - pose proof (brepr_large_lower w w_pos a H1). cbn [brepr_ok] in H2. lia.
  - destruct H1 as (Wa & La & Ta), H2 as (Wb & Lb & Tb). f_equal.
    assert (Na : a <> []) by (destruct a; [cbn in La; lia | discriminate]).
    assert (Nb : b <> []) by (destruct b; [cbn in Lb; lia | discriminate]).
    pose proof (value_last_lower w w_pos a Wa Na Ta) as Lo_a.
    pose proof (value_last_lower w w_pos b Wb Nb Tb) as Lo_b.
    pose proof (value_bounds w w_pos a Wa) as Hi_a. pose proof (value_bounds w w_pos b Wb) as Hi_b.
    apply (value_inj w); auto.
    destruct (Nat.lt_trichotomy (length a) (length b)) as [Hl | [Hl | Hl]]; [exfalso | exact Hl | exfalso].
    + assert (B ^ len a <= B ^ (len b - 1)) by (apply Z.pow_le_mono_r; unfold len; lia). lia.
    + assert (B ^ len b <= B ^ (len a - 1)) by (apply Z.pow_le_mono_r; unfold len; lia). lia.
Qed.

(** UBig & | ^ UBig: the four ownership arms (and the op= forms through take) build the same Repr *)
Theorem ubig_bitand_forms_identical : forall o o' a b, bok a -> bok b ->
  repr_bitand w o a b = repr_bitand w o' a b /\ bv (repr_bitand w o a b) = Z.land (bv a) (bv b).
Proof.
  intros o o' a b Ha Hb.
  destruct (repr_bitand_correct w w_pos o a b Ha Hb) as (V & K).
  destruct (repr_bitand_correct w w_pos o' a b Ha Hb) as (V' & K').
  split; [|exact V]. apply brepr_unique; auto. congruence.
Qed.

Theorem ubig_bitor_forms_identical : forall o o' a b, bok a -> bok b ->
  repr_bitor w o a b = repr_bitor w o' a b /\ bv (repr_bitor w o a b) = Z.lor (bv a) (bv b).
Proof.
  intros o o' a b Ha Hb.
  destruct (repr_bitor_correct w w_pos o a b Ha Hb) as (V & K).
  destruct (repr_bitor_correct w w_pos o' a b Ha Hb) as (V' & K').
  split; [|exact V]. apply brepr_unique; auto. congruence.
Qed.

Theorem ubig_bitxor_forms_identical : forall o o' a b, bok a -> bok b ->
  repr_bitxor w o a b = repr_bitxor w o' a b /\ bv (repr_bitxor w o a b) = Z.lxor (bv a) (bv b).
Proof.
  intros o o' a b Ha Hb.
  destruct (repr_bitxor_correct w w_pos o a b Ha Hb) as (V & K).
  destruct (repr_bitxor_correct w w_pos o' a b Ha Hb) as (V' & K').
  split; [|exact V]. apply brepr_unique; auto. congruence.
Qed.

(** the arms really are different functions of the two buffers: with the operands exchanged (what
    `&T op T` does: "op is commutative, rhs.op(self)") the same Repr comes out *)
Theorem ubig_bitops_swapped_identical : forall o a b, bok a -> bok b ->
  repr_bitand w o b a = repr_bitand w o a b /\ repr_bitor w o b a = repr_bitor w o a b /\
  repr_bitxor w o b a = repr_bitxor w o a b.
Proof.
  intros o a b Ha Hb.
  destruct (repr_bitand_correct w w_pos o a b Ha Hb) as (V1 & K1). destruct (repr_bitand_correct w w_pos o b a Hb Ha) as (V1' & K1').
  destruct (repr_bitor_correct w w_pos o a b Ha Hb) as (V2 & K2). destruct (repr_bitor_correct w w_pos o b a Hb Ha) as (V2' & K2').
  destruct (repr_bitxor_correct w w_pos o a b Ha Hb) as (V3 & K3). destruct (repr_bitxor_correct w w_pos o b a Hb Ha) as (V3' & K3').
  repeat split; apply brepr_unique; auto.
  - rewrite V1, V1'. apply Z.land_comm.
  - rewrite V2, V2'. apply Z.lor_comm.
  - rewrite V3, V3'. apply Z.lxor_comm.
Qed.

(** IBig & | ^ IBig (impl_ibig_bitand / bitor / bitxor: sign cases over the kernels): every
    ownership form returns the same integer, the two's-complement operation on the signed values *)
Theorem ibig_bitops_forms_identical : forall o o' s0 r0 s1 r1, mag_ok w s0 r0 -> mag_ok w s1 r1 ->
  ibig_bitand_asis w o s0 r0 s1 r1 = ibig_bitand_asis w o' s0 r0 s1 r1 /\
  ibig_bitor_asis w o s0 r0 s1 r1 = ibig_bitor_asis w o' s0 r0 s1 r1 /\
  ibig_bitxor_asis w o s0 r0 s1 r1 = ibig_bitxor_asis w o' s0 r0 s1 r1 /\
  ibig_bitand_asis w o s0 r0 s1 r1 = Z.land (signed s0 (bv r0)) (signed s1 (bv r1)) /\
  ibig_bitor_asis w o s0 r0 s1 r1 = Z.lor (signed s0 (bv r0)) (signed s1 (bv r1)) /\
  ibig_bitxor_asis w o s0 r0 s1 r1 = Z.lxor (signed s0 (bv r0)) (signed s1 (bv r1)).
Proof.
  intros o o' s0 r0 s1 r1 H0 H1.
  destruct (ibig_bitops_asis_correct w w_pos o s0 r0 s1 r1 H0 H1) as (A & O & X).
  destruct (ibig_bitops_asis_correct w w_pos o' s0 r0 s1 r1 H0 H1) as (A' & O' & X').
  repeat split; congruence.
Qed.

(** UBig << n and >> n: the owned body (shift in place when the capacity suffices, copy otherwise)
    and the borrowed body (shl_large_ref / shr_large_ref with its one- and two-word special cases)
    build the same Repr; <<= and >>= go through take + the owned body *)
Theorem ubig_shl_forms_identical : forall cap cap' r n, 0 <= n -> bok r ->
  repr_shl w cap r n = repr_shl w cap' r n /\ repr_shl_ref w r n = repr_shl w cap r n /\
  bv (repr_shl w cap r n) = Z.shiftl (bv r) n.
Proof.
  intros cap cap' r n Hn Hr.
  destruct (repr_shl_correct w w_pos cap r n Hn Hr) as (V & K).
  destruct (repr_shl_correct w w_pos cap' r n Hn Hr) as (V' & K').
  destruct (repr_shl_ref_correct w w_pos r n Hn Hr) as (V'' & K'').
  repeat split; [apply brepr_unique; auto; congruence | apply brepr_unique; auto; congruence | exact V].
Qed.

Theorem ubig_shr_forms_identical : forall r n, 0 <= n -> bok r ->
  repr_shr_ref w r n = repr_shr w r n /\ bv (repr_shr w r n) = Z.shiftr (bv r) n.
Proof.
  intros r n Hn Hr.
  destruct (repr_shr_correct w w_pos r n Hn Hr) as (V & K).
  destruct (repr_shr_ref_correct w w_pos r n Hn Hr) as (V' & K').
  split; [apply brepr_unique; auto; congruence | exact V].
Qed.

(** Shl<usize> for &IBig: as_sign_repr, the borrowed kernel, with_sign *)
Definition ibig_shl_ref_asis (s : sign) (r : brepr) (n : Z) : Z := signed s (bv (repr_shl_ref w r n)).

Theorem ibig_shift_forms_identical : forall s cap cap' r n, 0 <= n -> bok r ->
  ibig_shl_asis w s cap r n = ibig_shl_asis w s cap' r n /\
  ibig_shl_ref_asis s r n = ibig_shl_asis w s cap r n /\
  ibig_shl_asis w s cap r n = Z.shiftl (signed s (bv r)) n /\
  ibig_shr_ref_asis w s r n = ibig_shr_asis w s r n /\
  ibig_shr_asis w s r n = Z.shiftr (signed s (bv r)) n.
Proof.
  intros s cap cap' r n Hn Hr.
  pose proof (ibig_shl_asis_correct w w_pos s cap r n Hn Hr) as L.
  pose proof (ibig_shl_asis_correct w w_pos s cap' r n Hn Hr) as L'.
  destruct (ibig_shr_asis_correct w w_pos s r n Hn Hr) as (R & R' & _).
  destruct (ubig_shl_forms_identical cap cap r n Hn Hr) as (_ & E & _).
  repeat split; try congruence. unfold ibig_shl_ref_asis, ibig_shl_asis. rewrite E. reflexivity.
Qed.

End FormsBits.

(** non-vacuity: 64-bit words; a 4-word and a 3-word operand: VR reuses the longer left buffer
    (truncate), RV the shorter right buffer *)
Example ubig_bitand_forms_nonvacuous :
  repr_bitand 64 VR (BLarge [1; 2; 3; 4]) (BLarge [7; 7; 7]) = repr_bitand 64 RV (BLarge [1; 2; 3; 4]) (BLarge [7; 7; 7]) /\
  repr_bitand 64 VR (BLarge [1; 2; 3; 4]) (BLarge [7; 7; 7]) = BLarge [1; 2; 3].
Proof. split; reflexivity. Qed.

Example ubig_shl_forms_nonvacuous :
  repr_shl_ref 64 (BLarge [1; 2; 3]) 70 = repr_shl 64 true (BLarge [1; 2; 3]) 70 /\
  repr_shr_ref 64 (BLarge [1; 2; 3]) 70 = BSmall (Z.shiftr (2 + 2 ^ 64 * 3) 6).
Proof. split; vm_compute; reflexivity. Qed.
