(** C15: Clone for Repr (integer/src/repr.rs) on an abstract Repr = (|capacity| field, sign, words).
    clone() and clone_from() onto ANY previous value give a value equal to the source, stored
    canonically (inline iff the capacity field is <= 2; heap buffers compact), and the source is not
    touched (the model is functional: independence at pointer level is observed by the harness). *)
From Dashu Require Import Base.Prelude Forms.FormsSpec Forms.FormsProofs.
Open Scope Z_scope.

Record irepr := { r_cap : Z; r_neg : bool; r_words : list Z }.

(** invariant of a stored integer: inline (capacity field 1 or 2, two inline words) or a heap buffer
    of at least three words that fits its capacity *)
Definition rinv (maxcap : Z) (r : irepr) : Prop :=
  (r_cap r = 1 \/ r_cap r = 2) /\ len (r_words r) = 2
  \/ 2 < r_cap r /\ 3 <= len (r_words r) <= r_cap r /\ r_cap r <= maxcap.

(** a heap buffer is compact when its capacity is at most max_compact_capacity(len) *)
Definition compact (maxcap : Z) (r : irepr) : Prop :=
  2 < r_cap r -> r_cap r <= max_compact_capacity maxcap (len (r_words r)).

Definition clone_asis (maxcap : Z) (src : irepr) : irepr :=
  {| r_cap := clone_cap maxcap (r_cap src) (len (r_words src)); r_neg := r_neg src; r_words := r_words src |}.

Definition clone_from_asis (maxcap : Z) (dst src : irepr) : irepr :=
  {| r_cap := clone_from_cap maxcap (r_cap dst) (r_cap src) (len (r_words src));
     r_neg := r_neg src; r_words := r_words src |}.

Lemma default_capacity_le_maxcap : forall maxcap n, default_capacity maxcap n <= maxcap.
Proof. intros. unfold default_capacity. lia. Qed.

Theorem clone_ok : forall maxcap src, rinv maxcap src ->
  let c := clone_asis maxcap src in
  r_words c = r_words src /\ r_neg c = r_neg src /\ rinv maxcap c /\ compact maxcap c.
Proof.
  intros maxcap src H c. subst c. unfold clone_asis, rinv, compact in *. cbn [r_cap r_neg r_words].
  repeat split; auto.
  - destruct H as [[Hc Hl] | (Hc & Hl & Hm)].
    + left. destruct (clone_inline maxcap 0 (r_cap src) (len (r_words src)) ltac:(lia)) as [E _]. rewrite E. auto.
    + right. pose proof (clone_cap_ok maxcap (r_cap src) (len (r_words src)) ltac:(lia) Hc) as K. cbv zeta in K.
      unfold clone_cap in *. destruct (Z.leb_spec (r_cap src) 2); [lia|].
      pose proof (default_capacity_le_maxcap maxcap (len (r_words src))). lia.
  - intros Hc'. destruct H as [[Hc Hl] | (Hc & Hl & Hm)].
    + destruct (clone_inline maxcap 0 (r_cap src) (len (r_words src)) ltac:(lia)) as [E _]. rewrite E in Hc'. lia.
    + pose proof (clone_cap_ok maxcap (r_cap src) (len (r_words src)) ltac:(lia) Hc) as K. cbv zeta in K. lia.
Qed.

Theorem clone_from_ok : forall maxcap dst src, rinv maxcap dst -> rinv maxcap src ->
  let c := clone_from_asis maxcap dst src in
  r_words c = r_words src /\ r_neg c = r_neg src /\ rinv maxcap c /\ compact maxcap c.
Proof.
  intros maxcap dst src Hd H c. subst c. unfold clone_from_asis, rinv, compact in *. cbn [r_cap r_neg r_words].
  repeat split; auto.
  - destruct H as [[Hc Hl] | (Hc & Hl & Hm)].
    + left. destruct (clone_inline maxcap (r_cap dst) (r_cap src) (len (r_words src)) ltac:(lia)) as [_ E]. rewrite E. auto.
    + right. pose proof (clone_from_cap_ok maxcap (r_cap dst) (r_cap src) (len (r_words src)) ltac:(lia) Hc) as K.
      cbv zeta in K. destruct K as [K _].
      assert (clone_from_cap maxcap (r_cap dst) (r_cap src) (len (r_words src)) <= maxcap).
      { unfold clone_from_cap. destruct (Z.leb_spec (r_cap src) 2); [lia|].
        destruct ((r_cap dst <? len (r_words src)) || (r_cap dst >? max_compact_capacity maxcap (len (r_words src)))) eqn:E.
        - apply default_capacity_le_maxcap.
        - destruct Hd as [[Hdc _] | (_ & _ & Hdm)]; lia. }
      lia.
  - intros Hc'. destruct H as [[Hc Hl] | (Hc & Hl & Hm)].
    + destruct (clone_inline maxcap (r_cap dst) (r_cap src) (len (r_words src)) ltac:(lia)) as [_ E]. rewrite E in Hc'. lia.
    + pose proof (clone_from_cap_ok maxcap (r_cap dst) (r_cap src) (len (r_words src)) ltac:(lia) Hc) as K.
      cbv zeta in K. destruct K as [K _]. lia.
Qed.

(** lifted to all finite histories of clone_from: whatever was cloned into a variable before, the
    last source determines the value and the buffer stays compact *)
Fixpoint clone_from_history (maxcap : Z) (dst : irepr) (srcs : list irepr) : irepr :=
  match srcs with
  | [] => dst
  | s :: rest => clone_from_history maxcap (clone_from_asis maxcap dst s) rest
  end.

Theorem clone_from_history_ok : forall maxcap srcs dst, rinv maxcap dst ->
  Forall (rinv maxcap) srcs -> srcs <> [] ->
  let c := clone_from_history maxcap dst srcs in
  r_words c = r_words (last srcs dst) /\ r_neg c = r_neg (last srcs dst) /\ rinv maxcap c /\ compact maxcap c.
Proof.
  intros maxcap srcs. induction srcs as [|s rest IH]; intros dst Hd Hs Hne; [congruence|].
  inversion Hs as [|? ? Hs1 Hsr]; subst.
  destruct (clone_from_ok maxcap dst s Hd Hs1) as (W & N & I & C). cbv zeta in *.
  destruct rest as [|s2 rest'].
  - cbn [clone_from_history last]. auto.
  - specialize (IH (clone_from_asis maxcap dst s) I Hsr ltac:(congruence)).
    cbn [clone_from_history] in *.
    replace (last (s :: s2 :: rest') dst) with (last (s2 :: rest') (clone_from_asis maxcap dst s)).
    + exact IH.
    + clear. generalize dependent s2. induction rest' as [|x r IHr]; intros s2; [reflexivity|].
      cbn [last] in *. destruct r; auto.
Qed.

Example clone_from_nonvacuous :
  let src := {| r_cap := 6; r_neg := true; r_words := [1; 2; 3; 4] |} in
  let dst := {| r_cap := 9; r_neg := false; r_words := [5; 6; 7; 8; 9; 1] |} in
  rinv (2 ^ 57) src /\ rinv (2 ^ 57) dst /\ r_cap (clone_from_asis (2 ^ 57) dst src) = 9.
Proof. cbv zeta. unfold rinv. cbn. repeat split; try (right; lia); reflexivity. Qed.
