(** C15: the ownership forms (T/&T x T/&T) of the integer + and - at the level of the Repr kernels.
    The as-is models Int/RingOps.v repr_add / repr_sub / repr_sub_signed / ibig_add_asis / ibig_sub_asis
    take the ownership form [o : own] as a parameter (it selects the buffer that is reused and the
    kernel: add_large b0 b1 vs add_large b1 b0, sub_large vs sub_large_ref_val, ...).  C01 proves each
    of them correct for every [o] (Int/RingOpsProofs.v, imported read-only); here: a canonical Repr is
    determined by its value, hence ALL FORMS RETURN THE IDENTICAL REPRESENTATION or all panic. *)
From Dashu Require Import Base.Prelude Base.Words Int.RingAdd Int.RingMul Int.RingOps Int.RingOpsProofs.
Open Scope Z_scope.

Section FormsInt.
Variable w : Z.
Hypothesis w_ge : 8 <= w.
Notation rv := (repr_value w).
Notation twf := (twf w).

(** the canonical representation (inline iff < B^2, no leading zero word) is unique *)
Lemma twf_unique : forall r1 r2, twf r1 -> twf r2 -> rv r1 = rv r2 -> r1 = r2.
Proof.
  intros r1 r2 H1 H2 E. destruct r1 as [d1|a], r2 as [d2|b]; cbn [repr_value] in E.
  - f_equal. exact E.
  - pose proof (large_ge w w_ge b H2). cbn [RingOpsProofs.twf] in H1. lia.
  - pose proof (large_ge w w_ge a H1). cbn [RingOpsProofs.twf] in H2. lia.
  - destruct H1 as (Wa & La & Ta), H2 as (Wb & Lb & Tb). f_equal.
    destruct (Nat.lt_trichotomy (length a) (length b)) as [Hl | [Hl | Hl]].
    + pose proof (shorter_lt w w_ge a b Wa Wb Hl Tb). lia.
    + apply (value_inj w); auto; lia.
    + pose proof (shorter_lt w w_ge b a Wb Wa Hl Ta). lia.
Qed.

(** UBig + UBig: the four ownership arms (and += through take) build the same Repr *)
Theorem ubig_add_forms_identical : forall o o' x y, twf x -> twf y ->
  repr_add w o x y = repr_add w o' x y /\ rv (repr_add w o x y) = rv x + rv y.
Proof.
  intros o o' x y Hx Hy.
  destruct (repr_add_correct w w_ge o x y Hx Hy) as (V & T).
  destruct (repr_add_correct w w_ge o' x y Hx Hy) as (V' & T').
  split; [|exact V]. apply twf_unique; auto. lia.
Qed.

(** UBig - UBig: every arm panics with NegativeUBig (x < y) or every arm builds the same Repr *)
Theorem ubig_sub_forms_identical : forall o o' x y, twf x -> twf y ->
  repr_sub w o x y = repr_sub w o' x y /\
  (rv x < rv y -> repr_sub w o x y = Panic NegativeUBig) /\
  (rv y <= rv x -> exists r, repr_sub w o x y = Ok r /\ rv r = rv x - rv y).
Proof.
  intros o o' x y Hx Hy.
  pose proof (repr_sub_correct w w_ge o x y Hx Hy) as S.
  pose proof (repr_sub_correct w w_ge o' x y Hx Hy) as S'.
  unfold sub_res in S, S'. destruct (Z.ltb_spec (rv x) (rv y)).
  - rewrite S, S'. repeat split; auto. intros; lia.
  - destruct S as (r & E & V & T), S' as (r' & E' & V' & T'). rewrite E, E'.
    assert (r = r') by (apply twf_unique; auto; lia). subst r'.
    repeat split; auto. { intros; lia. } { intros _. exists r. auto. }
Qed.

(** IBig + IBig and IBig - IBig (sign tables over add / sub_signed): every arm returns the same
    value with the same magnitude Repr *)
Lemma ssub_res_unique : forall res res' v,
  ssub_res w res v -> ssub_res w res' v ->
  exists r r', res = Ok r /\ res' = Ok r' /\ srepr_value w r = v /\ srepr_value w r' = v /\ snd r = snd r'.
Proof.
  intros res res' v (r & E & V & T) (r' & E' & V' & T'). exists r, r'. repeat split; auto.
  apply twf_unique; auto.
  pose proof (twf_nonneg w w_ge _ T). pose proof (twf_nonneg w w_ge _ T').
  unfold srepr_value, signed in V, V'. destruct (fst r), (fst r'); cbn [sgnz] in V, V'; lia.
Qed.

Theorem ibig_add_forms_identical : forall o o' s0 x s1 y, twf x -> twf y ->
  exists r r', ibig_add_asis w o s0 x s1 y = Ok r /\ ibig_add_asis w o' s0 x s1 y = Ok r' /\
    srepr_value w r = signed s0 (rv x) + signed s1 (rv y) /\
    srepr_value w r' = signed s0 (rv x) + signed s1 (rv y) /\ snd r = snd r'.
Proof.
  intros o o' s0 x s1 y Hx Hy. apply ssub_res_unique; apply ibig_add_asis_correct; auto.
Qed.

Theorem ibig_sub_forms_identical : forall o o' s0 x s1 y, twf x -> twf y ->
  exists r r', ibig_sub_asis w o s0 x s1 y = Ok r /\ ibig_sub_asis w o' s0 x s1 y = Ok r' /\
    srepr_value w r = signed s0 (rv x) - signed s1 (rv y) /\
    srepr_value w r' = signed s0 (rv x) - signed s1 (rv y) /\ snd r = snd r'.
Proof.
  intros o o' s0 x s1 y Hx Hy. apply ssub_res_unique; apply ibig_sub_asis_correct; auto.
Qed.

End FormsInt.

(** non-vacuity: 64-bit words, a three-word value plus a two-word value in the ref/val arm *)
Example ubig_add_forms_nonvacuous :
  repr_add 64 ORV (Large [1; 2; 3]) (Small 5) = repr_add 64 OVV (Large [1; 2; 3]) (Small 5).
Proof. reflexivity. Qed.
