(** C15 (round 3): rational/src/helper_macros.rs impl_binop_with_macro / impl_binop_with_int generate
    the four ownership impls of every rational operator (RBig and Relaxed, all-rational and
    integer-mixed in both directions) by expanding ONE operator body `$impl!(a, b, c, d, ra, rb, rc,
    rd, $method)`.  What each ownership arm binds these arguments to is REGENERATED from the source
    (tools/translate_c15_r3.py -> DashuGen.FormsRatGen.gen_ratio_arm); proved here: in every arm the
    owned and the borrowed arguments are the numerator and denominator of self, then of rhs (the
    integer operand for the mixed forms), in this order - so at the level of C04's models (integers
    as Z) the four ownership forms of an operation ARE one function of the operands (the premise of
    Forms/FormsRat.v), and op= is take-and-replace. *)
From Dashu Require Import Base.Prelude Int.RingOps.
From DashuGen Require Import FormsRatGen.

Theorem gen_ratio_arms_same : forall o,
  gen_ratio_arm RmBin o = [SelfNum; SelfDen; RhsNum; RhsDen; SelfNum; SelfDen; RhsNum; RhsDen] /\
  gen_ratio_arm RmBin2 o = [SelfNum; SelfDen; RhsNum; RhsDen; SelfNum; SelfDen; RhsNum; RhsDen] /\
  gen_ratio_arm RmIntRight o = [SelfNum; SelfDen; RhsInt; SelfNum; SelfDen; RhsInt] /\
  gen_ratio_arm RmIntLeft o = [RhsNum; RhsDen; SelfInt; RhsNum; RhsDen; SelfInt] /\
  gen_ratio_assign_by_taking = true.
Proof. intros o. destruct o; repeat split; reflexivity. Qed.
