(** C15 (round 3): the instance of the gcd form model that the oracle runs (definitions only):
    DoubleWord::gcd / Word::gcd = C12's as-is model of the primitive binary gcd (Int/GrlModel.v
    prim_gcd_asis), rem_by_word / rem_by_dword = C02's kernel instance (Int/DivWordInst.v),
    gcd_in_place = C12's value-level as-is model of the Lehmer loop (Int/GrlLehmer.v). *)
From Dashu Require Import Base.Prelude Base.Words Int.RingMul Int.RingOps Int.GrlModel Int.GrlLehmer Int.DivWordModel Int.DivWordInst Forms.FormsGcd.
Open Scope Z_scope.

Definition gcd_prim_fuel : nat := 600%nat.

Definition i_gcd_core (w : Z) (a b : list Z) : result (list Z) :=
  let x := Words.value w a in let y := Words.value w b in
  rbind (gcd_in_place_gen (lehmer_fuel x y) gcd_prim_fuel MIN_DWORD_GUESS_LEN w x y)
        (fun r => Ok (to_words w (length a) (fst r))).

Definition i_gcd_form (w : Z) : own -> trepr -> trepr -> result trepr :=
  repr_gcd_form w (prim_gcd_asis gcd_prim_fuel (2 * w)) (prim_gcd_asis gcd_prim_fuel w)
    (i_rem_by_word w) (i_rem_by_dword w) (i_gcd_core w).

Example i_gcd_form_nonvacuous :
  i_gcd_form 64 OVR (Large [0; 0; 12]) (Small 18) = Ok (Small 6) /\
  i_gcd_form 64 OVV (Large [0; 0; 12]) (Large [0; 0; 18]) = Ok (Large [0; 0; 6]) /\
  i_gcd_form 64 ORR (Small 0) (Small 0) = Panic GcdZeroZero.
Proof. repeat split; vm_compute; reflexivity. Qed.
