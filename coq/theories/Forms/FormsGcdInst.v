(** C15 (round 3): the instance of the gcd form model that the oracle runs (definitions only):
    DoubleWord::gcd / Word::gcd = C12's as-is model of the primitive binary gcd (Int/GrlModel.v
    prim_gcd_asis), rem_by_word / rem_by_dword = C02's kernel instance (Int/DivWordInst.v),
    gcd_in_place = C12's value-level as-is model of the Lehmer loop (Int/GrlLehmer.v). *)
From Dashu Require Import Base.Prelude Base.Words Int.RingMul Int.RingOps Int.GrlModel Int.GrlLehmer Int.DivWordModel Int.DivWordInst Forms.FormsGcd.
Open Scope Z_scope.

Definition gcd_prim_fuel : nat := 600%nat.

Definition i_gcd_core (w : Z) (a b : list Z) : result (list Z) :=
  let x := Words.value w a in let y := Words.value w b in
  rbind (gcd_in_place_gen (lehmer_fuel x y) gcd_prim_fuel MIN_DWORD_GUESS_LEN w x y)
        (fun r => Ok (to_words w (length a) (fst r))).

Definition i_gcd_form (w : Z) : own -> trepr -> trepr -> result trepr :=
  repr_gcd_form w (prim_gcd_asis gcd_prim_fuel (2 * w)) (prim_gcd_asis gcd_prim_fuel w)
    (i_rem_by_word w) (i_rem_by_dword w) (i_gcd_core w).

(** the same instance with the fuels as parameters (round 4; Forms/FormsGcdClosed.v proves the five kernel
    contracts for it whenever the fuels suffice: x + y < lf x y, 2 * B^2 <= pf).  Fuel is not part of the
    code: the oracle runs [i_gcd_form] = this instance with lehmer_fuel / gcd_prim_fuel. *)
Definition i_gcd_core_f (lf : Z -> Z -> nat) (pf : nat) (w : Z) (a b : list Z) : result (list Z) :=
  let x := Words.value w a in let y := Words.value w b in
  rbind (gcd_in_place_gen (lf x y) pf MIN_DWORD_GUESS_LEN w x y)
        (fun r => Ok (to_words w (length a) (fst r))).

Definition i_gcd_form_f (lf : Z -> Z -> nat) (pf : nat) (w : Z) : own -> trepr -> trepr -> result trepr :=
  repr_gcd_form w (prim_gcd_asis pf (2 * w)) (prim_gcd_asis pf w)
    (i_rem_by_word w) (i_rem_by_dword w) (i_gcd_core_f lf pf w).

(** fuels that always suffice (used in statements only; as unary numbers they are not for running) *)
Definition lf_total (x y : Z) : nat := S (Z.to_nat (x + y)).
Definition pf_total (w : Z) : nat := Z.to_nat (2 * (Words.B w * Words.B w)).

Example i_gcd_form_nonvacuous :
  i_gcd_form 64 OVR (Large [0; 0; 12]) (Small 18) = Ok (Small 6) /\
  i_gcd_form 64 OVV (Large [0; 0; 12]) (Large [0; 0; 18]) = Ok (Large [0; 0; 6]) /\
  i_gcd_form 64 ORR (Small 0) (Small 0) = Panic GcdZeroZero.
Proof. repeat split; vm_compute; reflexivity. Qed.
