(** C20 - literal macros.  Definitions only (proofs: LitGenProofs.v, LitTokProofs.v).

    Two layers are modelled, as the macro crate is layered:
    (1) token layer  - `parse_integer_with_error` / `parse_ratio_with_error` (macros/src/parse/int.rs,
        ratio.rs): the loop over the macro's token trees that reconstructs the literal;
        `*_tokens_asis` transcribes the loop, `*_tokens_spec` is the literal grammar.
    (2) generator layer - the three code generators (u32 const expression, `from_le_bytes` of a byte
        array, static word arrays selected by `Word::BITS`; macros/src/parse/common.rs quote_words /
        quote_bytes, int.rs parse_integer / quote_ubig / quote_ibig, float.rs, ratio.rs) and the
        constructors the emitted code calls (`from_static_words` with its assertions,
        `from_parts_const` of FBig / RBig / Relaxed, `from_repr_const`, `from_parts`):
        `gen_*_asis` produce a *shape* (what the macro emits), `eval_*` give the value the emitted
        code constructs for a given word size.
    Text = list of byte values; integers are Z; a float is (significand, exponent, precision). *)
From Dashu Require Import Base.Prelude Base.Words Int.IoSpec.
Open Scope Z_scope.

(* ------------------------------------------------------------------------------------------ *)
(** * bytes and words *)

(** [UBig::to_le_bytes]: the shortest little-endian byte string (empty for zero) *)
Definition nbytes (n : Z) : nat := Z.to_nat (byte_len n).
Definition le_bytes (n : Z) : list Z := to_words 8 (nbytes n) n.

(** [chunks_exact(k)]: [n] full chunks of [k] bytes and the remainder *)
Fixpoint exact_chunks (n k : nat) (bs : list Z) : list (list Z) * list Z :=
  match n with
  | O => ([], bs)
  | S m => let '(cs, r) := exact_chunks m k (skipn k bs) in (firstn k bs :: cs, r)
  end.

(** common.rs le_bytes_to_<int>_array with INT_SIZE = k bytes: full chunks, then the remainder
    copied into a zeroed buffer *)
Definition le_bytes_to_array (k : nat) (bs : list Z) : list Z :=
  let '(cs, r) := exact_chunks (Nat.div (length bs) k) k bs in
  map (value 8) cs ++
  match r with [] => [] | _ => [value 8 (r ++ repeat 0 (k - length r))] end.

(** le_bytes_to_<int>_tokens: `while ints.len() < pad_to { ints.push(0) }`, returns the unpadded length *)
Definition array_tokens (k : nat) (bs : list Z) (pad_to : nat) : list Z * Z :=
  let ints := le_bytes_to_array k bs in
  (ints ++ repeat 0 (pad_to - length ints), len ints).

(** what quote_words emits: the declared array length and, for u16/u32/u64, (LEN, DATA) *)
Record qwords := mkq { q_max : Z; q_sel : list (Z * list Z) }.

Definition quote_words (bs : list Z) : qwords :=
  let max_len := Nat.div (length bs + 1) 2 in
  let sel k := let '(d, l) := array_tokens k bs max_len in (l, d) in
  mkq (Z.of_nat max_len) [sel 2%nat; sel 4%nat; sel 8%nat].

(** index of the selector of a word size *)
Definition sel_index (wbits : Z) : nat := if wbits =? 16 then 0%nat else if wbits =? 32 then 1%nat else 2%nat.

(** the emitted tail of quote_words for a target with [wbits]-bit words:
    `static DATA_COPY: [Word; Select::DATA.len()] = Select::DATA;
     from_raw_parts(DATA_COPY.as_ptr(), Select::LEN)`;
    [None] = the program does not compile (array literal of another length than declared, a literal
    out of the range of the element type) or would read out of bounds (LEN > DATA.len()) *)
Definition select_words (wbits : Z) (q : qwords) : option (list Z) :=
  match nth_error (q_sel q) (sel_index wbits) with
  | None => None
  | Some (l, d) =>
    if (len d =? q_max q) && (0 <=? l) && (l <=? len d) && wfb wbits d
    then Some (firstn (Z.to_nat l) d) else None
  end.

(** integer/src/repr.rs Repr::from_static_words: the assertions are compile errors in a static *)
Definition from_static_words (wbits : Z) (ws : list Z) : option Z :=
  match ws with
  | [] => Some 0
  | [n] => Some n
  | [lo; hi] => if 0 <? hi then Some (value wbits ws) else None
  | _ => if last ws 0 =? 0 then None else Some (value wbits ws)
  end.

Definition eval_words (wbits : Z) (q : qwords) : option Z :=
  match select_words wbits q with Some ws => from_static_words wbits ws | None => None end.

(* ------------------------------------------------------------------------------------------ *)
(** * integer generators (int.rs parse_integer, quote_ubig, quote_ibig) *)

Inductive ishape :=
| IC32 (s : sign) (u : Z)               (* UBig::from_dword(u as _) / IBig::from_parts_const(sign, u as _) *)
| IBytes (s : sign) (bs : list Z)       (* const BYTES; UBig::from_le_bytes(&BYTES) [IBig::from_parts(sign, ..)] *)
| IStatic (s : sign) (q : qwords).      (* static DATA/VALUE; from_static_words *)

Definition gen_int_asis (static_ : bool) (s : sign) (mag : Z) : ishape :=
  if (blen mag <=? 32) && negb static_ then IC32 s mag
  else if static_ then IStatic s (quote_words (le_bytes mag))
  else IBytes s (le_bytes mag).

Definition is_byte (b : Z) : bool := (0 <=? b) && (b <? 256).

(** value built by the emitted code; [None] = does not compile *)
Definition eval_ishape (wbits : Z) (sh : ishape) : option Z :=
  match sh with
  | IC32 s u => if (0 <=? u) && (u <? 2 ^ 32) then Some (signed s u) else None
  | IBytes s bs => if forallb is_byte bs then Some (signed s (value 8 bs)) else None
  | IStatic s q => match eval_words wbits q with Some m => Some (signed s m) | None => None end
  end.

Definition int_spec (s : sign) (mag : Z) : Z := signed s mag.

(* ------------------------------------------------------------------------------------------ *)
(** * float generators (float.rs) and the constructors they call *)

Inductive fshape :=
| FC32 (s : sign) (u e p : Z)                 (* from_parts_const(sign, u as _, e, Some(p)) [static VALUE] *)
| FStatic (s : sign) (q : qwords) (e : Z)     (* from_repr_const(Repr::from_static_words(sign, DATA, e)) *)
| FHeap (i : ishape) (e p : Z).               (* from_repr(Repr::new(ibig, e), Context::new(p)) *)

Definition gen_float_asis (static_ : bool) (s : sign) (mag e p : Z) : fshape :=
  if blen mag <=? 32 then FC32 s mag e p
  else if static_ then FStatic s (quote_words (le_bytes mag)) e
  else FHeap (IBytes s (le_bytes mag)) e p.

(** `while significand % B == 0 { significand /= B; exponent += 1 }` (fuel: the bit length) *)
Fixpoint strip_base (fuel : nat) (B m e : Z) : Z * Z :=
  match fuel with
  | O => (m, e)
  | S f => if m mod B =? 0 then strip_base f B (m / B) (e + 1) else (m, e)
  end.

(** `digits = 1; while let Some(next) = pow.checked_mul(B) { if next > sig { break } digits += 1; pow = next }`
    over DoubleWord = 2 * wbits bits (the loop as it is since the repair a2caf12 of C08's finding: the current digit
    is counted before the next power is formed) *)
Fixpoint count_digits (fuel : nat) (B dmax sig pow digits : Z) : Z :=
  match fuel with
  | O => digits
  | S f =>
    let next := pow * B in
    if dmax <? next then digits            (* checked_mul overflowed *)
    else if sig <? next then digits        (* next > significand: break *)
    else count_digits f B dmax sig next (digits + 1)
  end.

(** trailing_zeros (0 for zero, as the callers use it) *)
Fixpoint tz_fuel (f : nat) (m : Z) : Z :=
  match f with O => 0 | S f' => if m mod 2 =? 0 then 1 + tz_fuel f' (m / 2) else 0 end.
Definition tz (m : Z) : Z := if m =? 0 then 0 else tz_fuel (Z.to_nat (blen m)) m.
Definition is_pow2 (B : Z) : bool := (0 <? B) && (Z.land B (B - 1) =? 0).

(** float/src/fbig.rs FBig::from_parts_const(sign, significand, exponent, Some(p)):
    (significand, exponent, precision) *)
Definition fbig_from_parts_const (B wbits : Z) (s : sign) (u e p : Z) : Z * Z * Z :=
  if u =? 0 then (0, 0, 0)                   (* Self::ZERO: the requested precision is dropped *)
  else
    let '(m, e', digits) :=
      if is_pow2 B then
        let bb := tz B in
        let shift := tz u / bb in
        let m := Z.shiftr u (shift * bb) in
        (m, e + shift, (blen m + bb - 1) / bb)
      else
        let '(m, e') := strip_base (Z.to_nat (blen u)) B u e in
        (m, e', count_digits (Z.to_nat (2 * wbits)) B (2 ^ (2 * wbits) - 1) m 1 1) in
    (signed s m, e', if digits <? p then p else digits).

(** Repr::new normalises: no factor B left in the significand, zero has exponent 0 *)
Definition repr_new (B m e : Z) : Z * Z :=
  if m =? 0 then (0, 0)
  else let '(a, e') := strip_base (Z.to_nat (blen (Z.abs m))) B (Z.abs m) e in (Z.sgn m * a, e').

(** [None] = does not compile / assertion of a constructor fails; otherwise (significand, exponent, precision) *)
Definition eval_fshape (B wbits : Z) (sh : fshape) : option (Z * Z * Z) :=
  match sh with
  | FC32 s u e p => if (0 <=? u) && (u <? 2 ^ 32) then Some (fbig_from_parts_const B wbits s u e p) else None
  | FStatic s q e =>
    match eval_words wbits q with
    | Some m => if m mod B =? 0 then None        (* assert!(!significand.is_multiple_of_const(B)) *)
                else Some (signed s m, e, 0)     (* from_repr_const: Context::new(0) *)
    | None => None
    end
  | FHeap i e p =>
    match eval_ishape wbits i with
    | Some m => let '(a, e') := repr_new B m e in Some (a, e', p)
    | None => None
    end
  end.

(** what the property demands: the parsed (sign, magnitude, exponent, precision) is what is built *)
Definition float_spec (s : sign) (mag e p : Z) : Z * Z * Z := (signed s mag, e, p).

(** the two classes where the code builds another precision than the parser reported *)
Definition Known_static_precision (static_ : bool) (mag p : Z) : Prop :=
  static_ = true /\ 32 < blen mag /\ p <> 0.
Definition Known_zero_precision (mag p : Z) : Prop := mag = 0 /\ p <> 0.

(* ------------------------------------------------------------------------------------------ *)
(** * ratio generators (ratio.rs) *)

Inductive rshape :=
| RC32 (s : sign) (n d : Z)                  (* <type>::from_parts_const(sign, n as _, d as _) *)
| RParts (n d : ishape)                      (* <type>::from_parts(num, den) *)
| RStatic (s : sign) (qn qd : qwords).       (* Relaxed::from_static_words(sign, NUM, DEN) [transmute to RBig] *)

Definition gen_ratio_asis (static_ : bool) (num den : Z) : rshape :=
  let s := sign_of num in
  let m := Z.abs num in
  if static_ then RStatic s (quote_words (le_bytes m)) (quote_words (le_bytes den))
  else if (blen m <=? 32) && (blen den <=? 32) then RC32 s m den
  else RParts (if blen m <=? 32 then IC32 s m else IBytes s (le_bytes m))
              (if blen den <=? 32 then IC32 Positive den else IBytes Positive (le_bytes den)).

(** rational/src/rbig.rs RBig::from_parts_const: `let (mut y, mut r) = (d, n % d); while r > 1 { .. }`;
    fuel: the remainder at least halves every two rounds *)
Fixpoint naive_gcd_loop (fuel : nat) (y r : Z) : option (Z * Z) :=
  match fuel with
  | O => None
  | S f => if 1 <? r then naive_gcd_loop f r (y mod r) else Some (y, r)
  end.

Definition rbig_from_parts_const (s : sign) (n d : Z) : result (Z * Z) :=
  if d =? 0 then Panic DivideBy0
  else if n =? 0 then Ok (0, 1)
  else if (1 <? n) && (1 <? d) then
    match naive_gcd_loop (Z.to_nat (2 * blen d + 2)) d (n mod d) with
    | None => OutOfFuel
    | Some (y, r) => if r =? 0 then Ok (signed s (n / y), d / y) else Ok (signed s n, d)
    end
  else Ok (signed s n, d).

Definition pow2_common (n d : Z) : Z := Z.min (tz n) (tz d).

(** Relaxed::from_parts_const: only the common power of two is removed *)
Definition relaxed_from_parts_const (s : sign) (n d : Z) : result (Z * Z) :=
  if d =? 0 then Panic DivideBy0
  else if n =? 0 then Ok (0, 1)
  else let z := pow2_common n d in Ok (signed s (Z.shiftr n z), Z.shiftr d z).

(** Repr::reduce / Repr::reduce2 *)
Definition reduce (n d : Z) : Z * Z :=
  if n =? 0 then (0, 1) else let g := Z.gcd n d in (n / g, d / g).
Definition reduce2 (n d : Z) : Z * Z :=
  if n =? 0 then (0, 1) else let z := pow2_common (Z.abs n) d in (n / 2 ^ z, d / 2 ^ z).

Definition eval_rshape (wbits : Z) (relaxed : bool) (sh : rshape) : option (Z * Z) :=
  match sh with
  | RC32 s n d =>
    if (0 <=? n) && (n <? 2 ^ 32) && (0 <=? d) && (d <? 2 ^ 32) then
      match (if relaxed then relaxed_from_parts_const s n d else rbig_from_parts_const s n d) with
      | Ok r => Some r | _ => None end
    else None
  | RParts n d =>
    match eval_ishape wbits n, eval_ishape wbits d with
    | Some a, Some b => if b =? 0 then None else Some (if relaxed then reduce2 a b else reduce a b)
    | _, _ => None
    end
  | RStatic s qn qd =>
    match eval_words wbits qn, eval_words wbits qd with
    | Some a, Some b =>
      (* assert!(!(num_zeros > 0 && den_zeros > 0)) *)
      if (0 <? tz a) && (0 <? tz b) then None else Some (signed s a, b)
    | _, _ => None
    end
  end.

(** the components the macro hands to the generator: RBig::from_parts_signed / Relaxed::from_parts_signed *)
Definition ratio_parts_spec (relaxed : bool) (num den : Z) : option (Z * Z) :=
  if den =? 0 then None
  else let n := num * Z.sgn den in let d := Z.abs den in
       Some (if relaxed then reduce2 n d else reduce n d).

(* ------------------------------------------------------------------------------------------ *)
(** * token layer *)

Inductive tkind := TLit | TIdent | TPunct | TGroup.
Record token := mk_tok { tk : tkind; ttext : list Z }.

Fixpoint text_eqb (a b : list Z) : bool :=
  match a, b with
  | [], [] => true
  | x :: a', y :: b' => (x =? y) && text_eqb a' b'
  | _, _ => false
  end.

Definition t_base : list Z := [98; 97; 115; 101].
Definition is_char (t : token) (c : Z) : bool := text_eqb (ttext t) [c].

(** ** integers: state of the loop of parse_integer_with_error *)
Record ist := mk_ist { i_val : option (list Z); i_neg : bool; i_sign : bool; i_marked : bool; i_base : option (list Z) }.
Definition ist0 : ist := mk_ist None false false false None.

Definition int_step (signed_ : bool) (st : ist) (t : token) : option ist :=
  match tk t with
  | TLit =>
    match i_val st with
    | None => Some (mk_ist (Some (ttext t)) (i_neg st) (i_sign st) (i_marked st) (i_base st))
    | Some _ =>
      match i_base st with
      | None => if i_marked st then Some (mk_ist (i_val st) (i_neg st) (i_sign st) (i_marked st) (Some (ttext t))) else None
      | Some _ => None
      end
    end
  | TIdent =>
    match i_val st with
    | None => Some (mk_ist (Some (ttext t)) (i_neg st) (i_sign st) (i_marked st) (i_base st))
    | Some _ =>
      match i_base st with
      | None => if negb (i_marked st) && text_eqb (ttext t) t_base
                then Some (mk_ist (i_val st) (i_neg st) (i_sign st) true (i_base st)) else None
      | Some _ => None
      end
    end
  | TPunct =>
    match i_val st with
    | None =>
      (* at most one sign, in front of the digits *)
      if negb (i_sign st) && is_char t 45 then
        (if signed_ then Some (mk_ist (i_val st) true true (i_marked st) (i_base st)) else None)
      else if negb (i_sign st) && is_char t 43 then
        (if signed_ then Some (mk_ist (i_val st) (i_neg st) true (i_marked st) (i_base st)) else None)
      else None
    | Some _ => None
    end
  | TGroup => None
  end.

Fixpoint int_loop (signed_ : bool) (st : ist) (ts : list token) : option ist :=
  match ts with
  | [] => Some st
  | t :: r => match int_step signed_ st t with Some st' => int_loop signed_ st' r | None => None end
  end.

(** what the loop hands to the run-time parser: (negative, value text, base text);
    `val.unwrap()` panics without a value, a `base` without a number is UnsupportedRadix *)
Definition int_tokens_asis (signed_ : bool) (ts : list token) : option (bool * list Z * option (list Z)) :=
  match int_loop signed_ ist0 ts with
  | Some st =>
    match i_val st with
    | None => None
    | Some v => match i_base st with
                | Some b => Some (i_neg st, v, Some b)
                | None => if i_marked st then None else Some (i_neg st, v, None)
                end
    end
  | None => None
  end.

Definition is_value_tok (t : token) : bool := match tk t with TLit | TIdent => true | _ => false end.
Definition is_base_tok (t : token) : bool := match tk t with TIdent => text_eqb (ttext t) t_base | _ => false end.
Definition is_lit_tok (t : token) : bool := match tk t with TLit => true | _ => false end.
Definition is_punct_char (t : token) (c : Z) : bool := match tk t with TPunct => is_char t c | _ => false end.

(** the literal grammar:  [+|-]? value [`base` N]?   (signs only for the signed macros) *)
Definition int_body_spec (ts : list token) : option (list Z * option (list Z)) :=
  match ts with
  | [v] => if is_value_tok v then Some (ttext v, None) else None
  | [v; b; n] => if is_value_tok v && is_base_tok b && is_lit_tok n then Some (ttext v, Some (ttext n)) else None
  | _ => None
  end.

Definition int_tokens_spec (signed_ : bool) (ts : list token) : option (bool * list Z * option (list Z)) :=
  let wrap neg r := match int_body_spec r with Some (v, b) => Some (neg, v, b) | None => None end in
  match ts with
  | t :: r =>
    if is_punct_char t 45 then (if signed_ then wrap true r else None)
    else if is_punct_char t 43 then (if signed_ then wrap false r else None)
    else wrap false ts
  | [] => None
  end.

Definition is_sign_tok (t : token) : bool := is_punct_char t 45 || is_punct_char t 43.

(** ** ratios: state of the loop of parse_ratio_with_error *)
Record rst := mk_rst {
  r_num : option (list Z); r_nneg : bool; r_nsign : bool; r_den : option (list Z); r_dneg : bool; r_dsign : bool;
  r_dmark : bool; r_relaxed : bool; r_bmark : bool; r_base : option (list Z) }.
Definition rst0 : rst := mk_rst None false false None false false false false false None.

Definition rat_step (st : rst) (t : token) : option rst :=
  let '(mk_rst num nneg nsign den dneg dsign dmark rel bmark base) := st in
  match tk t with
  | TLit =>
    match num, den with
    | None, _ => Some (mk_rst (Some (ttext t)) nneg nsign den dneg dsign dmark rel bmark base)
    | Some _, None => if dmark then Some (mk_rst num nneg nsign (Some (ttext t)) dneg dsign dmark rel bmark base) else None
    | Some _, Some _ =>
      match base with
      | None => if bmark then Some (mk_rst num nneg nsign den dneg dsign dmark rel bmark (Some (ttext t))) else None
      | Some _ => None
      end
    end
  | TIdent =>
    match num, den with
    | None, _ => Some (mk_rst (Some (ttext t)) nneg nsign den dneg dsign dmark rel bmark base)
    | Some _, None => if dmark then Some (mk_rst num nneg nsign (Some (ttext t)) dneg dsign dmark rel bmark base) else None
    | Some _, Some _ =>
      match base with
      | None => if negb bmark && text_eqb (ttext t) t_base
                then Some (mk_rst num nneg nsign den dneg dsign dmark rel true base) else None
      | Some _ => None
      end
    end
  | TPunct =>
    if is_char t 47 then
      (* exactly one slash, after the numerator *)
      match num with
      | Some _ => if negb dmark && negb bmark then Some (mk_rst num nneg nsign den dneg dsign true rel bmark base) else None
      | None => None
      end
    else if is_char t 126 then
      match num with
      | None => if negb rel then Some (mk_rst num nneg nsign den dneg dsign dmark true bmark base) else None
      | Some _ => None
      end
    else match num, den with
         | None, _ =>
           if nsign then None
           else if is_char t 45 then Some (mk_rst num true true den dneg dsign dmark rel bmark base)
           else if is_char t 43 then Some (mk_rst num nneg true den dneg dsign dmark rel bmark base) else None
         | Some _, None =>
           if dmark then
             if dsign then None
             else if is_char t 45 then Some (mk_rst num nneg nsign den true true dmark rel bmark base)
             else if is_char t 43 then Some (mk_rst num nneg nsign den dneg true dmark rel bmark base) else None
           else None
         | _, _ => None
         end
  | TGroup => None
  end.

Fixpoint rat_loop (st : rst) (ts : list token) : option rst :=
  match ts with
  | [] => Some st
  | t :: r => match rat_step st t with Some st' => rat_loop st' r | None => None end
  end.

(** (relaxed, numerator negative, numerator text, (denominator negative, text)?, base text?) *)
Definition rat_out := (bool * bool * list Z * option (bool * list Z) * option (list Z))%type.

Definition rat_finish (st : rst) : option rat_out :=
  match r_num st with
  | None => None
  | Some n =>
    if r_dmark st && (match r_den st with None => true | Some _ => false end) then None else
    let d := match r_den st with Some d => Some (r_dneg st, d) | None => None end in
    match r_base st with
    | Some b => Some (r_relaxed st, r_nneg st, n, d, Some b)
    | None => if r_bmark st then None else Some (r_relaxed st, r_nneg st, n, d, None)
    end
  end.

Definition rat_tokens_asis (ts : list token) : option rat_out :=
  match rat_loop rst0 ts with Some st => rat_finish st | None => None end.

(** grammar:  [~]? [+|-]? [~]? num [ / [+|-]? den ]? [`base` N]?   (one `~`, at most one sign each) *)
Definition strip_one (f : token -> bool) (ts : list token) : option token * list token :=
  match ts with t :: r => if f t then (Some t, r) else (None, ts) | [] => (None, ts) end.

Definition rat_tail_spec (ts : list token) : option (option (list Z)) :=
  match ts with
  | [] => Some None
  | [b; n] => if is_base_tok b && is_lit_tok n then Some (Some (ttext n)) else None
  | _ => None
  end.

(** after the numerator: nothing, or `/ [+|-]? den [base N]?`
    (`num base N` is not in the grammar: the loop reads the word `base` as the denominator) *)
Definition rat_rest_spec (rel nneg : bool) (ntext : list Z) (rest : list token) : option rat_out :=
  match rest with
  | [] => Some (rel, nneg, ntext, None, None)
  | s :: rest' =>
    if is_punct_char s 47 then
      let '(dsg, ts4) := strip_one is_sign_tok rest' in
      let dneg := match dsg with Some t => is_punct_char t 45 | None => false end in
      match ts4 with
      | d :: tail =>
        if is_value_tok d then
          match rat_tail_spec tail with
          | Some b => Some (rel, nneg, ntext, Some (dneg, ttext d), b)
          | None => None
          end
        else None
      | [] => None
      end
    else None
  end.

Definition rat_tokens_spec (ts : list token) : option rat_out :=
  let tilde t := is_punct_char t 126 in
  let '(r1, ts1) := strip_one tilde ts in
  let '(sg, ts2) := strip_one is_sign_tok ts1 in
  let '(r2, ts3) := strip_one tilde ts2 in
  let rel := match r1, r2 with None, None => Some false | Some _, None | None, Some _ => Some true | _, _ => None end in
  let nneg := match sg with Some t => is_punct_char t 45 | None => false end in
  match rel, ts3 with
  | Some rel, n :: rest => if is_value_tok n then rat_rest_spec rel nneg (ttext n) rest else None
  | _, _ => None
  end.

(* ------------------------------------------------------------------------------------------ *)
(** * from the reconstructed texts to numbers (the part of the macros after the token loop) *)

(** Rust `str::parse::<u32>()`: optional '+', decimal digits only *)
Fixpoint dec_value (acc : Z) (s : list Z) : option Z :=
  match s with
  | [] => Some acc
  | c :: t => if (48 <=? c) && (c <=? 57) then dec_value (acc * 10 + (c - 48)) t else None
  end.
Definition parse_u32 (s : list Z) : option Z :=
  let s' := match s with 43 :: t => t | _ => s end in
  match s' with
  | [] => None
  | _ => match dec_value 0 s' with Some v => if v <? 2 ^ 32 then Some v else None | None => None end
  end.

(** int.rs: `UBig::from_str_radix(&val, b)` / `UBig::from_str_with_radix_prefix(&val)` *)
Definition macro_uint_value (v : list Z) (b : option (list Z)) : option (Z * Z) :=
  match b with
  | Some bt =>
    match parse_u32 bt with
    | Some r => match from_str_radix_spec false r v with Ok m => Some (m, r) | _ => None end
    | None => None
    end
  | None => match from_str_prefix_spec false 10 v with Ok (m, r) => Some (m, r) | _ => None end
  end.

(** ratio.rs after the loop: components in the same radix, then from_parts_signed *)
Definition macro_rat_value (o : rat_out) : option (bool * Z * Z) :=
  let '(rel, nneg, n, d, b) := o in
  let parts :=
    match b with
    | Some bt =>
      match parse_u32 bt with
      | Some r =>
        match from_str_radix_spec false r n with
        | Ok nv =>
          match d with
          | Some (dneg, dt) => match from_str_radix_spec false r dt with Ok dv => Some (nv, dneg, dv) | _ => None end
          | None => Some (nv, false, 1)
          end
        | _ => None
        end
      | None => None
      end
    | None =>
      match from_str_prefix_spec false 10 n with
      | Ok (nv, nr) =>
        match d with
        | Some (dneg, dt) =>
          match from_str_prefix_spec false nr dt with
          | Ok (dv, dr) => if nr =? dr then Some (nv, dneg, dv) else None
          | _ => None
          end
        | None => Some (nv, false, 1)
        end
      | _ => None
      end
    end in
  match parts with
  | Some (nv, dneg, dv) =>
    let num := if nneg then - nv else nv in
    let den := if dneg then - dv else dv in
    match ratio_parts_spec rel num den with Some (a, c) => Some (rel, a, c) | None => None end
  | None => None
  end.

(** float.rs: the token texts are concatenated; fbig! strips the sign and one '_' itself *)
Definition join_tokens (ts : list token) : list Z := concat (map ttext ts).
Definition strip_us (s : list Z) : list Z := match s with 95 :: t => t | _ => s end.
Definition starts_with_sign (s : list Z) : bool :=
  match s with c :: _ => (c =? 43) || (c =? 45) | [] => false end.
(** parse_binary_float: strip one sign, strip one `_`, refuse a second sign; [None] = the macro panics *)
Definition fbin_text_split (ts : list token) : sign * list Z :=
  match join_tokens ts with
  | 45 :: t => (Negative, strip_us t)
  | 43 :: t => (Positive, strip_us t)
  | s => (Positive, strip_us s)
  end.
Definition fbin_text_asis (ts : list token) : option (sign * list Z) :=
  let '(s, b) := fbin_text_split ts in if starts_with_sign b then None else Some (s, b).

(** grammar:  [+|-]? [_]? unsigned-text *)
Definition fbin_text_spec (ts : list token) : option (sign * list Z) :=
  let body s t := let b := strip_us t in if starts_with_sign b then None else Some (s, b) in
  match join_tokens ts with
  | 45 :: t => body Negative t
  | 43 :: t => body Positive t
  | s => body Positive s
  end.
