(** C20 (round 3) - from the literal TEXT to the token trees the macros receive.
    A transcription of the lexer that produces the tokens in the correspondence run (proc_macro2 1.0.x
    fallback `src/parse.rs`: token_stream, leaf_token, literal -> float / int, float_digits, digits, punct,
    ident; it follows rustc's lexer) for the alphabet of the literal grammar: ASCII letters, digits, `_`,
    white space and the punctuation characters.  Texts with quotes, `#`, a backslash, brackets, comments or non-ASCII bytes are
    [LexUnmodelled] (strings, chars, raw identifiers, groups: no macro here accepts any of them).
    Definitions only (proofs: LitLexProofs.v). *)
From Dashu Require Import Base.Prelude Base.Words Int.IoSpec Macro.LitModel.
Open Scope Z_scope.

Definition is_digit (c : Z) : bool := (48 <=? c) && (c <=? 57).
Definition is_alpha (c : Z) : bool := ((65 <=? c) && (c <=? 90)) || ((97 <=? c) && (c <=? 122)).
Definition is_ident_start (c : Z) : bool := (c =? 95) || is_alpha c.
Definition is_ident_continue (c : Z) : bool := is_ident_start c || is_digit c.
(** skip_whitespace: b' ' | 0x09..=0x0d *)
Definition is_ws (c : Z) : bool := (c =? 32) || ((9 <=? c) && (c <=? 13)).
(** punct_char: "~!@#$%^&*-=+|;:,<.>/?'" without `#` and `'` (unmodelled) *)
Definition punct_chars : list Z := [126; 33; 64; 36; 37; 94; 38; 42; 45; 61; 43; 124; 59; 58; 44; 60; 46; 62; 47; 63].
Definition is_punct (c : Z) : bool := existsb (Z.eqb c) punct_chars.

Definition modelled_char (c : Z) : bool := is_ident_continue c || is_ws c || is_punct c.
(** no comment openers: `//` or `/*` *)
Fixpoint no_comment (s : list Z) : bool :=
  match s with
  | 47 :: ((c :: _) as t) => negb ((c =? 47) || (c =? 42)) && no_comment t
  | _ :: t => no_comment t
  | [] => true
  end.
Definition modelled (s : list Z) : bool := forallb modelled_char s && no_comment s.

(** length of the longest prefix whose characters satisfy [f] *)
Fixpoint span (f : Z -> bool) (s : list Z) : nat :=
  match s with c :: t => if f c then S (span f t) else O | [] => O end.

(** ident_not_raw: an ident start, then ident-continue characters *)
Definition ident_len (s : list Z) : option nat :=
  match s with c :: t => if is_ident_start c then Some (S (span is_ident_continue t)) else None | [] => None end.

(** the tail of float() / int(): an optional suffix (`if is_ident_start(ch) { rest = ident_not_raw(rest)?.0 }`),
    then word_break: the next character must not continue an identifier *)
Definition suffix_break (s : list Z) (n : nat) : option nat :=
  let rest := skipn n s in
  let n' := match ident_len rest with Some k => (n + k)%nat | None => n end in
  match skipn n' s with
  | c :: _ => if is_ident_continue c then None else Some n'
  | [] => Some n'
  end.

(** float_digits, first loop: digits and `_`, one `.` (not followed by `.` or an ident start), stops behind `e`/`E`;
    result: (len, has_dot, has_exp, characters not yet looked at) *)
Fixpoint fd_loop (chars : list Z) (len : nat) (has_dot : bool) : option (nat * bool * bool * list Z) :=
  match chars with
  | [] => Some (len, has_dot, false, [])
  | ch :: t =>
    if is_digit ch || (ch =? 95) then fd_loop t (S len) has_dot
    else if ch =? 46 then
      if has_dot then Some (len, has_dot, false, chars)
      else match t with
           | c2 :: _ => if (c2 =? 46) || is_ident_start c2 then None else fd_loop t (S len) true
           | [] => fd_loop t (S len) true
           end
    else if (ch =? 101) || (ch =? 69) then Some (S len, has_dot, true, t)
    else Some (len, has_dot, false, chars)
  end.

(** float_digits, exponent loop; [before] = token_before_exp *)
Fixpoint exp_loop (chars : list Z) (len : nat) (has_sign has_val : bool) (before : option nat) : option nat :=
  let finish := if has_val then Some len else before in
  match chars with
  | [] => finish
  | ch :: t =>
    if (ch =? 43) || (ch =? 45) then
      if has_val then finish
      else if has_sign then before
      else exp_loop t (S len) true has_val before
    else if is_digit ch then exp_loop t (S len) has_sign true before
    else if ch =? 95 then exp_loop t (S len) has_sign has_val before
    else finish
  end.

Definition float_digits (s : list Z) : option nat :=
  match s with
  | c :: t =>
    if is_digit c then
      match fd_loop t 1 false with
      | Some (len, has_dot, has_exp, rest) =>
        if negb (has_dot || has_exp) then None
        else if has_exp then exp_loop rest len false false (if has_dot then Some (len - 1)%nat else None)
        else Some len
      | None => None
      end
    else None
  | [] => None
  end.

Definition float_len (s : list Z) : option nat :=
  match float_digits s with Some n => suffix_break s n | None => None end.

(** digits(): the loop after the radix prefix; [None] = Reject *)
Fixpoint digits_loop (base : Z) (s : list Z) (len : nat) (empty : bool) : option (nat * bool) :=
  match s with
  | [] => Some (len, empty)
  | b :: t =>
    if is_digit b then (if base <=? b - 48 then None else digits_loop base t (S len) false)
    else if (97 <=? b) && (b <=? 102) then (if base <=? 10 + (b - 97) then Some (len, empty) else digits_loop base t (S len) false)
    else if (65 <=? b) && (b <=? 70) then (if base <=? 10 + (b - 65) then Some (len, empty) else digits_loop base t (S len) false)
    else if b =? 95 then (if empty && (base =? 10) then None else digits_loop base t (S len) empty)
    else Some (len, empty)
  end.

(** `input.starts_with("0x")` / "0o" / "0b": (base, length of the prefix, rest) *)
Definition radix_prefix (s : list Z) : Z * nat * list Z :=
  match s with
  | c :: x :: t =>
    if c =? 48 then
      if x =? 120 then (16, 2%nat, t) else if x =? 111 then (8, 2%nat, t) else if x =? 98 then (2, 2%nat, t) else (10, 0%nat, s)
    else (10, 0%nat, s)
  | _ => (10, 0%nat, s)
  end.

Definition int_digits (s : list Z) : option nat :=
  let '(base, pre, body) := radix_prefix s in
  match digits_loop base body 0 true with
  | Some (len, empty) => if empty then None else Some (pre + len)%nat
  | None => None
  end.

Definition int_len (s : list Z) : option nat :=
  match int_digits s with Some n => suffix_break s n | None => None end.

(** leaf_token: literal (float, then int) before punct before ident *)
Definition leaf (s : list Z) : option (tkind * nat) :=
  match float_len s with
  | Some n => Some (TLit, n)
  | None =>
    match int_len s with
    | Some n => Some (TLit, n)
    | None =>
      match s with
      | c :: _ =>
        if is_punct c then Some (TPunct, 1%nat)
        else match ident_len s with Some n => Some (TIdent, n) | None => None end
      | [] => None
      end
    end
  end.

Inductive lexres := LexOk (ts : list token) | LexErr | LexUnmodelled | LexOutOfFuel.

Fixpoint skip_ws (s : list Z) : list Z :=
  match s with c :: t => if is_ws c then skip_ws t else s | [] => [] end.

(** token_stream: skip white space, end of input or one leaf token, again *)
Fixpoint lex_loop (fuel : nat) (s : list Z) : lexres :=
  match fuel with
  | O => LexOutOfFuel
  | S f =>
    match skip_ws s with
    | [] => LexOk []
    | s' =>
      match leaf s' with
      | Some (k, n) =>
        match n with
        | O => LexErr                      (* never: every leaf token has a character *)
        | _ =>
          match lex_loop f (skipn n s') with
          | LexOk ts => LexOk (mk_tok k (firstn n s') :: ts)
          | r => r
          end
        end
      | None => LexErr
      end
    end
  end.

Definition lex (s : list Z) : lexres :=
  if modelled s then lex_loop (S (length s)) s else LexUnmodelled.

Definition strip_ws (s : list Z) : list Z := filter (fun c => negb (is_ws c)) s.
