(** C20 (round 3) - the code-generator templates, re-read from macros/src/parse/{int,float,ratio}.rs on every run
    (coq/gen/LitTemplates.v, tools/translate_c20_r3.py), against the model of the generators (Macro/LitModel.v).
    A row = guards leading to a `quote!`, the `let` it is bound to, the constructor calls of the emitted code.
    [select] walks the rows as the Rust function does (first row whose guards hold and that is the value of the
    function, early `return`s included); the theorems say that for every magnitude / flag combination the selected row
    calls the constructor with the arguments that the shape of the model stands for.  An edited template (another
    constructor, swapped or dropped arguments, `Some(#prec)` -> `None`), an edited guard or threshold makes the
    regenerated table differ and these proofs fail. *)
From Coq Require Import String.
From Dashu Require Import Base.Prelude Base.Words Int.IoSpec Macro.LitModel Macro.LitGenProofs.
From DashuGen Require Import LitTemplates.
Open Scope Z_scope.

Definition env := list (string * bool).
Fixpoint lookup (e : env) (g : string) : option bool :=
  match e with (k, v) :: r => if String.eqb k g then Some v else lookup r g | [] => None end.
(** a guard the environment does not know is an error: [None] *)
Fixpoint guards_hold (e : env) (gs : list string) : option bool :=
  match gs with
  | [] => Some true
  | g :: r => match lookup e g, guards_hold e r with Some a, Some b => Some (a && b) | _, _ => None end
  end.
Definition is_code (c : string) : bool := negb (String.prefix "text " c) && negb (String.prefix "splice " c).
(** the first row bound to [name] whose guards hold; its calls without the `splice` notes *)
Fixpoint select (e : env) (name : string) (rows : list tpl_row) : option (list string) :=
  match rows with
  | [] => None
  | r :: rest =>
    if String.eqb (r_let r) name then
      match guards_hold e (r_guards r) with
      | Some true => Some (filter is_code (r_calls r))
      | Some false => select e name rest
      | None => None
      end
    else select e name rest
  end.

Local Open Scope string_scope.
Local Open Scope Z_scope.

(** ** integers: parse_integer, quote_ubig, quote_ibig *)
Definition env_int (signed_ static_ fits : bool) : env :=
  [("big.bit_len() <= 32 && !static_", fits && negb static_); ("signed", signed_); ("!(signed)", negb signed_);
   ("(signed, static_) = (false, false)", negb signed_ && negb static_); ("(signed, static_) = (true, false)", signed_ && negb static_);
   ("(signed, static_) = (false, true)", negb signed_ && static_); ("(signed, static_) = (true, true)", signed_ && static_);
   ("embedded", true); ("!(embedded)", false)].

(** what a shape of the model stands for in the emitted code *)
Definition int_calls (signed_ : bool) (sh : ishape) : list string :=
  match sh, signed_ with
  | IC32 _ _, true => ["IBig::from_parts_const(#sign, #u as _)"]
  | IC32 _ _, false => ["UBig::from_dword(#u as _)"]
  | IBytes _ _, true => ["generator quote_ibig(embedded, IBig::from_parts(sign, big))"]
  | IBytes _ _, false => ["generator quote_ubig(embedded, big)"]
  | IStatic _ _, true => ["IBig::from_static_words(#sign, DATA)"]
  | IStatic _ _, false => ["UBig::from_static_words(DATA)"]
  end.

Theorem tpl_int_matches_model signed_ static_ s mag :
  select (env_int signed_ static_ (blen mag <=? nth 0 bitlen_thresholds_parse_integer 0)) "" tpl_parse_integer
  = Some (int_calls signed_ (gen_int_asis static_ s mag)) /\
  select (env_int signed_ static_ false) "data_defs" tpl_parse_integer
  = (if static_ then Some ["generator quote_words(& big.to_le_bytes(), embedded)"] else None).
Proof.
  unfold gen_int_asis. change (nth 0 bitlen_thresholds_parse_integer 0) with 32.
  destruct (blen mag <=? 32), signed_, static_; split; vm_compute; reflexivity.
Qed.

(** quote_ubig: `const BYTES: [u8; #len] = #bytes_tt; UBig::from_le_bytes(&BYTES)` with bytes_tt = quote_bytes(&bytes);
    quote_ibig: `IBig::from_parts(#sign, #mag_tt)` with mag_tt = quote_ubig(embedded, mag): the IBytes shape *)
Theorem tpl_bytes_matches_model :
  select [] "" tpl_quote_ubig = Some ["UBig::from_le_bytes(& BYTES)"] /\
  select [] "bytes_tt" tpl_quote_ubig = Some ["generator quote_bytes(& bytes)"] /\
  select [] "" tpl_quote_ibig = Some ["IBig::from_parts(#sign, #mag_tt)"] /\
  select [] "mag_tt" tpl_quote_ibig = Some ["generator quote_ubig(embedded, mag)"].
Proof. repeat split; vm_compute; reflexivity. Qed.

(** ** floats: parse_binary_float, parse_decimal_float *)
Definition env_float (static_ fits : bool) : env :=
  [("mag.bit_len() <= 32", fits); ("static_", static_); ("!(static_)", negb static_); ("embedded", true); ("!(embedded)", false)].

Definition fbin_calls (sh : fshape) : list string :=
  match sh with
  | FC32 _ _ _ _ => ["#type_tt::from_parts_const(#sign, #u as _, #exp, Some(#prec))"]
  | FStatic _ _ _ => ["#type_tt::from_repr_const(#repr_tt::from_static_words(#sign, DATA, #exp))"; "#repr_tt::from_static_words(#sign, DATA, #exp)"]
  | FHeap _ _ _ => ["#repr_tt::new(#signif_tt, #exp)"; "Context<#ns::round::mode::Zero>::new(#prec)"; "FBig::from_repr(repr, context)"]
  end.
Definition fdec_calls (sh : fshape) : list string :=
  match sh with
  | FC32 _ _ _ _ => ["DBig::from_parts_const(#sign, #u as _, #exp, Some(#prec))"]
  | FStatic _ _ _ => ["DBig::from_repr_const(#ns::Repr::< 10 >::from_static_words(#sign, DATA, #exp))"; "Repr<10>::from_static_words(#sign, DATA, #exp)"]
  | FHeap _ _ _ => ["Repr<10>::new(#signif_tt, #exp)"; "Context::new(#prec)"; "DBig::from_repr(repr, context)"]
  end.
(** the row that is the value of the function: the const expression is bound to value_tt first *)
Definition float_value_row (static_ fits : bool) (rows : list tpl_row) : option (list string) :=
  if fits then select (env_float static_ fits) "value_tt" rows else select (env_float static_ fits) "" rows.

Theorem tpl_float_matches_model static_ s mag e p :
  float_value_row static_ (blen mag <=? nth 0 bitlen_thresholds_parse_binary_float 0) tpl_parse_binary_float
  = Some (fbin_calls (gen_float_asis static_ s mag e p)) /\
  float_value_row static_ (blen mag <=? nth 0 bitlen_thresholds_parse_decimal_float 0) tpl_parse_decimal_float
  = Some (fdec_calls (gen_float_asis static_ s mag e p)) /\
  (* the static variant of the const path only wraps the same expression in a static item *)
  select (env_float true true) "" tpl_parse_binary_float = Some [] /\
  select (env_float true true) "" tpl_parse_decimal_float = Some [] /\
  (* the heap path takes the significand from quote_ibig, the static path its words from quote_words *)
  select (env_float false false) "signif_tt" tpl_parse_binary_float = Some ["generator quote_ibig(embedded, IBig::from_parts(sign, mag))"] /\
  select (env_float false false) "signif_tt" tpl_parse_decimal_float = Some ["generator quote_ibig(embedded, IBig::from_parts(sign, mag))"] /\
  select (env_float true false) "data_defs" tpl_parse_binary_float = Some ["generator quote_words(& mag.to_le_bytes(), embedded)"] /\
  select (env_float true false) "data_defs" tpl_parse_decimal_float = Some ["generator quote_words(& bytes, embedded)"].
Proof.
  unfold gen_float_asis, float_value_row.
  change (nth 0 bitlen_thresholds_parse_binary_float 0) with 32. change (nth 0 bitlen_thresholds_parse_decimal_float 0) with 32.
  destruct (blen mag <=? 32), static_; repeat split; vm_compute; reflexivity.
Qed.

(** ** ratios: parse_ratio, parse_static_ratio *)
Definition env_ratio (relaxed nfits dfits : bool) : env :=
  [("num.bit_len() <= 32 && den.bit_len() <= 32", nfits && dfits); ("num.bit_len() <= 32", nfits); ("!(num.bit_len() <= 32)", negb nfits);
   ("den.bit_len() <= 32", dfits); ("!(den.bit_len() <= 32)", negb dfits); ("relaxed", relaxed); ("!(relaxed)", negb relaxed);
   ("embedded", true); ("!(embedded)", false)].

Definition part_calls (signed_ : bool) (sh : ishape) : list string :=
  match sh, signed_ with
  | IC32 _ _, true => ["IBig::from_parts_const(#sign, #u as _)"]
  | IC32 _ _, false => ["UBig::from_dword(#u as _)"]
  | _, true => ["generator quote_ibig(embedded, num)"]
  | _, false => ["generator quote_ubig(embedded, den)"]
  end.

Theorem tpl_ratio_matches_model relaxed num den :
  let th k := nth k bitlen_thresholds_parse_ratio 0 in
  let nf := blen (Z.abs num) <=? th 2%nat in
  let df := blen den <=? th 3%nat in
  th 0%nat = 32 /\ th 1%nat = 32 /\
  match gen_ratio_asis false num den with
  | RC32 _ _ _ => select (env_ratio relaxed nf df) "" tpl_parse_ratio = Some ["#type_tt::from_parts_const(#sign, #num as _, #den as _)"]
  | RParts n d =>
    select (env_ratio relaxed nf df) "" tpl_parse_ratio = Some ["#type_tt::from_parts(#num_tt, #den_tt)"] /\
    select (env_ratio relaxed nf df) "num_tt" tpl_parse_ratio = Some (part_calls true n) /\
    select (env_ratio relaxed nf df) "den_tt" tpl_parse_ratio = Some (part_calls false d)
  | RStatic _ _ _ => False
  end /\
  select (env_ratio relaxed nf df) "type_tt" tpl_parse_ratio = Some [] /\
  (* static_rbig!: always the two word arrays and Relaxed::from_static_words, transmuted for RBig *)
  select (env_ratio relaxed nf df) "" tpl_parse_static_ratio =
    Some (if relaxed then ["Relaxed::from_static_words(#sign, NUM_DATA, DEN_DATA)"]
          else ["mem::transmute(#ns::Relaxed::from_static_words(#sign, NUM_DATA, DEN_DATA))"; "Relaxed::from_static_words(#sign, NUM_DATA, DEN_DATA)"]) /\
  select [] "num_data_defs" tpl_parse_static_ratio = Some ["generator quote_words(& num.to_le_bytes(), embedded)"] /\
  select [] "den_data_defs" tpl_parse_static_ratio = Some ["generator quote_words(& den.to_le_bytes(), embedded)"].
Proof.
  cbv zeta. unfold gen_ratio_asis. cbv iota.
  change (nth 0 bitlen_thresholds_parse_ratio 0) with 32. change (nth 1 bitlen_thresholds_parse_ratio 0) with 32.
  change (nth 2 bitlen_thresholds_parse_ratio 0) with 32. change (nth 3 bitlen_thresholds_parse_ratio 0) with 32.
  destruct (blen (Z.abs num) <=? 32), (blen den <=? 32), relaxed; cbn [andb]; repeat split; vm_compute; reflexivity.
Qed.

(** the thresholds of all generators are the model's 32 bits (the u32 const path) *)
Theorem tpl_thresholds :
  bitlen_thresholds_parse_integer = [32] /\ bitlen_thresholds_parse_binary_float = [32] /\ bitlen_thresholds_parse_decimal_float = [32] /\
  bitlen_thresholds_parse_ratio = [32; 32; 32; 32] /\ bitlen_thresholds_parse_static_ratio = [] /\
  bitlen_thresholds_quote_ubig = [] /\ bitlen_thresholds_quote_ibig = [].
Proof. repeat split; reflexivity. Qed.
