(** C20 (round 3) - proofs about the lexer model (LitLexModel.v): the tokens a literal text is cut into, joined
    again, are the text without its white space (nothing dropped, nothing changed, nothing re-ordered), no token
    contains white space, literal tokens start with a digit and identifiers with a letter or `_`; hence what the
    macros read from the tokens is what stands in the source text. *)
From Dashu Require Import Base.Prelude Base.Words Int.IoSpec Macro.LitModel Macro.LitTokProofs Macro.LitLexModel.
Open Scope Z_scope.

(** visible characters: everything a token is made of *)
Definition vis (c : Z) : Prop := 33 <= c.

Lemma vis_not_ws c : vis c -> is_ws c = false.
Proof.
  unfold vis, is_ws. intros H. apply orb_false_iff. split; [apply Z.eqb_neq; lia|].
  apply andb_false_iff. right. apply Z.leb_gt. lia.
Qed.

Lemma digit_vis c : is_digit c = true -> vis c.
Proof. unfold is_digit, vis. intros H. apply andb_true_iff in H. destruct H as [A _]. apply Z.leb_le in A. lia. Qed.
Lemma eqb_vis c k : 33 <= k -> (c =? k) = true -> vis c.
Proof. intros Hk H. apply Z.eqb_eq in H. subst. exact Hk. Qed.
Lemma range_vis c lo hi : 33 <= lo -> (lo <=? c) && (c <=? hi) = true -> vis c.
Proof. intros Hk H. apply andb_true_iff in H. destruct H as [A _]. apply Z.leb_le in A. unfold vis. lia. Qed.
Lemma alpha_vis c : is_alpha c = true -> vis c.
Proof.
  unfold is_alpha. intros H. apply orb_true_iff in H. destruct H as [H|H]; eapply range_vis; try exact H; lia.
Qed.
Lemma ident_start_vis c : is_ident_start c = true -> vis c.
Proof.
  unfold is_ident_start. intros H. apply orb_true_iff in H. destruct H as [H|H]; [eapply eqb_vis; [|exact H]; lia | apply alpha_vis; exact H].
Qed.
Lemma ident_continue_vis c : is_ident_continue c = true -> vis c.
Proof.
  unfold is_ident_continue. intros H. apply orb_true_iff in H. destruct H as [H|H]; [apply ident_start_vis | apply digit_vis]; exact H.
Qed.
Lemma punct_vis c : is_punct c = true -> vis c.
Proof.
  unfold is_punct, punct_chars. cbn [existsb]. intros H.
  repeat (apply orb_true_iff in H; destruct H as [H|H]; [eapply eqb_vis; [|exact H]; lia|]). discriminate.
Qed.

Lemma Forall_firstn_ {A} (P : A -> Prop) n : forall l, Forall P l -> Forall P (firstn n l).
Proof.
  induction n as [|n IH]; intros l H; [constructor|]. destruct l as [|x l]; [constructor|].
  inversion H; subst. cbn [firstn]. constructor; auto.
Qed.

Lemma firstn_add {A} n k : forall l : list A, firstn (n + k) l = firstn n l ++ firstn k (skipn n l).
Proof.
  induction n as [|n IH]; intros l; [reflexivity|]. destruct l as [|x l]; [cbn; rewrite firstn_nil; reflexivity|].
  cbn [Nat.add firstn skipn app]. f_equal. apply IH.
Qed.

Lemma span_forall f : forall s, Forall (fun c => f c = true) (firstn (span f s) s).
Proof.
  induction s as [|c t IH]; [constructor|]. cbn [span]. destruct (f c) eqn:E; [|constructor].
  cbn [firstn]. constructor; assumption.
Qed.

Lemma ident_len_vis s n : ident_len s = Some n -> Forall vis (firstn n s).
Proof.
  unfold ident_len. destruct s as [|c t]; [discriminate|]. destruct (is_ident_start c) eqn:E; [|discriminate].
  intros H. inversion H; subst. cbn [firstn]. constructor; [apply ident_start_vis; exact E|].
  eapply Forall_impl; [|apply span_forall]. intros a Ha. apply ident_continue_vis. exact Ha.
Qed.

Lemma suffix_break_vis s n n' : suffix_break s n = Some n' -> Forall vis (firstn n s) -> Forall vis (firstn n' s).
Proof.
  unfold suffix_break. intros H Hn. destruct (ident_len (skipn n s)) as [k|] eqn:I.
  - assert (n' = (n + k)%nat).
    { destruct (skipn (n + k) s) as [|c r]; [inversion H; reflexivity|]. destruct (is_ident_continue c); [discriminate | inversion H; reflexivity]. }
    subst n'. rewrite firstn_add. apply Forall_app. split; [exact Hn | apply ident_len_vis; exact I].
  - assert (n' = n).
    { destruct (skipn n s) as [|c r]; [inversion H; reflexivity|]. destruct (is_ident_continue c); [discriminate | inversion H; reflexivity]. }
    subst. exact Hn.
Qed.

Lemma fd_loop_inv : forall chars len hd len' hd' he' rest, fd_loop chars len hd = Some (len', hd', he', rest) ->
  exists pre, chars = pre ++ rest /\ len' = (len + length pre)%nat /\ Forall vis pre.
Proof.
  induction chars as [|ch t IH]; intros len hd len' hd' he' rest H; cbn [fd_loop] in H.
  - inversion H; subst. exists []. repeat split; [cbn [length]; lia | constructor].
  - destruct (is_digit ch || (ch =? 95)) eqn:E1.
    { destruct (IH _ _ _ _ _ _ H) as (pre & -> & -> & F). exists (ch :: pre). split; [reflexivity|]. split; [cbn [length]; lia|].
      constructor; [|exact F]. apply orb_true_iff in E1. destruct E1 as [E|E]; [apply digit_vis; exact E | eapply eqb_vis; [|exact E]; lia]. }
    destruct (ch =? 46) eqn:E2.
    { destruct hd.
      - inversion H; subst. exists []. repeat split; [cbn [length]; lia | constructor].
      - assert (G : fd_loop t (S len) true = Some (len', hd', he', rest)).
        { destruct t as [|c2 t']; [exact H|]. destruct ((c2 =? 46) || is_ident_start c2); [discriminate | exact H]. }
        destruct (IH _ _ _ _ _ _ G) as (pre & -> & -> & F). exists (ch :: pre). split; [reflexivity|]. split; [cbn [length]; lia|].
        constructor; [eapply eqb_vis; [|exact E2]; lia | exact F]. }
    destruct ((ch =? 101) || (ch =? 69)) eqn:E3.
    { inversion H; subst. exists [ch]. split; [reflexivity|]. split; [cbn [length]; lia|]. constructor; [|constructor].
      apply orb_true_iff in E3. destruct E3 as [E|E]; (eapply eqb_vis; [|exact E]; lia). }
    inversion H; subst. exists []. repeat split; [cbn [length]; lia | constructor].
Qed.

Lemma exp_loop_inv : forall chars len hs hv before n, exp_loop chars len hs hv before = Some n ->
  before = Some n \/ exists pre rest, chars = pre ++ rest /\ n = (len + length pre)%nat /\ Forall vis pre.
Proof.
  induction chars as [|ch t IH]; intros len hs hv before n H; cbn [exp_loop] in H.
  - destruct hv; [right; inversion H; subst; exists [], []; repeat split; [cbn [length]; lia | constructor] | left; exact H].
  - assert (FIN : (if hv then Some len else before) = Some n ->
                  before = Some n \/ exists pre rest, ch :: t = pre ++ rest /\ n = (len + length pre)%nat /\ Forall vis pre).
    { destruct hv; [intros X; right; inversion X; subst; exists [], (ch :: t); repeat split; [cbn [length]; lia | constructor] | intros X; left; exact X]. }
    assert (STEP : forall hs' hv', exp_loop t (S len) hs' hv' before = Some n -> vis ch ->
                  before = Some n \/ exists pre rest, ch :: t = pre ++ rest /\ n = (len + length pre)%nat /\ Forall vis pre).
    { intros hs' hv' X V. destruct (IH _ _ _ _ _ X) as [L|(pre & rest & -> & -> & F)]; [left; exact L|].
      right. exists (ch :: pre), rest. split; [reflexivity|]. split; [cbn [length]; lia | constructor; assumption]. }
    destruct ((ch =? 43) || (ch =? 45)) eqn:E1.
    { destruct hv; [apply FIN; exact H|]. destruct hs; [left; exact H|].
      eapply STEP; [exact H|]. apply orb_true_iff in E1. destruct E1 as [E|E]; (eapply eqb_vis; [|exact E]; lia). }
    destruct (is_digit ch) eqn:E2; [eapply STEP; [exact H | apply digit_vis; exact E2]|].
    destruct (ch =? 95) eqn:E3; [eapply STEP; [exact H | eapply eqb_vis; [|exact E3]; lia]|].
    apply FIN. exact H.
Qed.

Lemma float_digits_vis s n : float_digits s = Some n -> Forall vis (firstn n s).
Proof.
  unfold float_digits. destruct s as [|c t]; [discriminate|]. destruct (is_digit c) eqn:D; [|discriminate].
  destruct (fd_loop t 1 false) as [[[[len hd] he] rest]|] eqn:F; [|discriminate].
  destruct (fd_loop_inv _ _ _ _ _ _ _ F) as (pre & -> & -> & FV).
  assert (V0 : Forall vis (c :: pre)) by (constructor; [apply digit_vis; exact D | exact FV]).
  destruct (negb (hd || he)); [discriminate|]. destruct he.
  - intros H. destruct (exp_loop_inv _ _ _ _ _ _ H) as [L|(pre2 & rest2 & -> & -> & F2)].
    + destruct hd; [|discriminate]. inversion L; subst.
      match goal with |- Forall vis (firstn ?N _) => assert (EN : N = length pre) by lia; rewrite EN end.
      replace (c :: pre ++ rest) with ((c :: pre) ++ rest) by reflexivity.
      rewrite firstn_app. apply Forall_app. split; [apply Forall_firstn_; exact V0|].
      replace (length pre - length (c :: pre))%nat with 0%nat by (cbn [length]; lia). constructor.
    + replace (c :: pre ++ pre2 ++ rest2) with ((c :: pre ++ pre2) ++ rest2) by (cbn [app]; rewrite <- app_assoc; reflexivity).
      match goal with |- Forall vis (firstn ?N _) =>
        replace N with (length (c :: pre ++ pre2) + 0)%nat by (cbn [length]; rewrite app_length; lia) end.
      rewrite firstn_app_2. cbn [firstn]. rewrite app_nil_r. constructor; [apply digit_vis; exact D | apply Forall_app; split; assumption].
  - intros H. inversion H; subst. replace (c :: pre ++ rest) with ((c :: pre) ++ rest) by reflexivity.
    match goal with |- Forall vis (firstn ?N _) => replace N with (length (c :: pre) + 0)%nat by (cbn [length]; lia) end.
    rewrite firstn_app_2. cbn [firstn]. rewrite app_nil_r. exact V0.
Qed.

Lemma digits_loop_inv base : forall s len empty len' empty', digits_loop base s len empty = Some (len', empty') ->
  exists k, len' = (len + k)%nat /\ Forall vis (firstn k s).
Proof.
  induction s as [|b t IH]; intros len empty len' empty' H; cbn [digits_loop] in H.
  - inversion H; subst. exists 0%nat. split; [lia | constructor].
  - assert (STEP : forall e2, digits_loop base t (S len) e2 = Some (len', empty') -> vis b ->
                   exists k, len' = (len + k)%nat /\ Forall vis (firstn k (b :: t))).
    { intros e2 X V. destruct (IH _ _ _ _ X) as (k & -> & F). exists (S k). split; [lia|]. cbn [firstn]. constructor; assumption. }
    assert (STOP : Some (len, empty) = Some (len', empty') -> exists k, len' = (len + k)%nat /\ Forall vis (firstn k (b :: t))).
    { intros X. inversion X; subst. exists 0%nat. split; [lia | constructor]. }
    destruct (is_digit b) eqn:E1.
    { destruct (base <=? b - 48); [discriminate|]. eapply STEP; [exact H | apply digit_vis; exact E1]. }
    destruct ((97 <=? b) && (b <=? 102)) eqn:E2.
    { destruct (base <=? 10 + (b - 97)); [apply STOP; exact H|]. eapply STEP; [exact H | eapply range_vis; [|exact E2]; lia]. }
    destruct ((65 <=? b) && (b <=? 70)) eqn:E3.
    { destruct (base <=? 10 + (b - 65)); [apply STOP; exact H|]. eapply STEP; [exact H | eapply range_vis; [|exact E3]; lia]. }
    destruct (b =? 95) eqn:E4.
    { destruct (empty && (base =? 10)); [discriminate|]. eapply STEP; [exact H | eapply eqb_vis; [|exact E4]; lia]. }
    apply STOP. exact H.
Qed.

Lemma radix_prefix_spec s : let '(base, pre, body) := radix_prefix s in
  s = firstn pre s ++ body /\ Forall vis (firstn pre s) /\ (pre = 0%nat \/ exists t, s = 48 :: t).
Proof.
  unfold radix_prefix. destruct s as [|c [|x t]]; try (repeat split; [constructor | left; reflexivity]).
  destruct (Z.eqb_spec c 48) as [->|]; [|repeat split; [constructor | left; reflexivity]].
  destruct (Z.eqb_spec x 120) as [->|]; [repeat split; [repeat constructor; unfold vis; lia | right; eauto]|].
  destruct (Z.eqb_spec x 111) as [->|]; [repeat split; [repeat constructor; unfold vis; lia | right; eauto]|].
  destruct (Z.eqb_spec x 98) as [->|]; [repeat split; [repeat constructor; unfold vis; lia | right; eauto]|].
  repeat split; [constructor | left; reflexivity].
Qed.

Lemma int_digits_vis s n : int_digits s = Some n -> Forall vis (firstn n s).
Proof.
  unfold int_digits. pose proof (radix_prefix_spec s) as RP. destruct (radix_prefix s) as [[base pre] body].
  destruct RP as (E & V & _). destruct (digits_loop base body 0 true) as [[len empty]|] eqn:D; [|discriminate].
  destruct empty; [discriminate|]. intros H. inversion H; subst n. destruct (digits_loop_inv _ _ _ _ _ _ D) as (k & -> & F).
  cbn [Nat.add]. assert (SK : skipn pre s = body).
  { apply (app_inv_head (firstn pre s)). rewrite firstn_skipn. exact E. }
  rewrite firstn_add, SK. apply Forall_app. split; assumption.
Qed.

(** a literal token starts with a digit *)
Lemma int_digits_first c t n : int_digits (c :: t) = Some n -> is_digit c = true.
Proof.
  unfold int_digits. pose proof (radix_prefix_spec (c :: t)) as RP. destruct (radix_prefix (c :: t)) as [[base pre] body] eqn:R.
  destruct RP as (E & _ & [->|[t' X]]); [|inversion X; reflexivity].
  cbn [firstn app] in E. subst body.
  assert (base = 10).
  { unfold radix_prefix in R. destruct t as [|x t]; [inversion R; reflexivity|].
    destruct (c =? 48); [|inversion R; reflexivity].
    destruct (x =? 120); [inversion R|]. destruct (x =? 111); [inversion R|]. destruct (x =? 98); [inversion R|]. inversion R; reflexivity. }
  subst base. cbn [digits_loop]. destruct (is_digit c); [reflexivity|].
  destruct ((97 <=? c) && (c <=? 102)) eqn:E2.
  { apply andb_true_iff in E2. destruct E2 as [A _]. apply Z.leb_le in A. destruct (Z.leb_spec 10 (10 + (c - 97))); [discriminate | lia]. }
  destruct ((65 <=? c) && (c <=? 70)) eqn:E3.
  { apply andb_true_iff in E3. destruct E3 as [A _]. apply Z.leb_le in A. destruct (Z.leb_spec 10 (10 + (c - 65))); [discriminate | lia]. }
  destruct (c =? 95); discriminate.
Qed.

Lemma float_digits_first c t n : float_digits (c :: t) = Some n -> is_digit c = true.
Proof. unfold float_digits. destruct (is_digit c); [reflexivity | discriminate]. Qed.

Lemma leaf_first c t k n : leaf (c :: t) = Some (k, n) ->
  match k with TLit => is_digit c = true | TIdent => is_ident_start c = true | TPunct => n = 1%nat | TGroup => False end.
Proof.
  unfold leaf, float_len, int_len.
  destruct (float_digits (c :: t)) as [n1|] eqn:F.
  { destruct (suffix_break (c :: t) n1); [intros H; inversion H; subst; eapply float_digits_first; exact F|].
    destruct (int_digits (c :: t)) as [n2|] eqn:I.
    - destruct (suffix_break (c :: t) n2); [intros H; inversion H; subst; eapply int_digits_first; exact I|].
      destruct (is_punct c); [intros H; inversion H; reflexivity|]. unfold ident_len.
      destruct (is_ident_start c) eqn:IS; [intros H; inversion H; subst; reflexivity | discriminate].
    - destruct (is_punct c); [intros H; inversion H; reflexivity|]. unfold ident_len.
      destruct (is_ident_start c) eqn:IS; [intros H; inversion H; subst; reflexivity | discriminate]. }
  destruct (int_digits (c :: t)) as [n2|] eqn:I.
  - destruct (suffix_break (c :: t) n2); [intros H; inversion H; subst; eapply int_digits_first; exact I|].
    destruct (is_punct c); [intros H; inversion H; reflexivity|]. unfold ident_len.
    destruct (is_ident_start c) eqn:IS; [intros H; inversion H; subst; reflexivity | discriminate].
  - destruct (is_punct c); [intros H; inversion H; reflexivity|]. unfold ident_len.
    destruct (is_ident_start c) eqn:IS; [intros H; inversion H; subst; reflexivity | discriminate].
Qed.

Lemma leaf_vis s k n : leaf s = Some (k, n) -> Forall vis (firstn n s).
Proof.
  unfold leaf, float_len, int_len.
  destruct (float_digits s) as [n1|] eqn:F.
  - destruct (suffix_break s n1) as [n1'|] eqn:SB.
    + intros H. inversion H; subst. eapply suffix_break_vis; [exact SB | apply float_digits_vis; exact F].
    + clear F SB. revert n1. intros _. destruct (int_digits s) as [n2|] eqn:I.
      * destruct (suffix_break s n2) as [n2'|] eqn:SB2.
        -- intros H. inversion H; subst. eapply suffix_break_vis; [exact SB2 | apply int_digits_vis; exact I].
        -- destruct s as [|c t]; [discriminate|]. destruct (is_punct c) eqn:P.
           ++ intros H. inversion H; subst. cbn [firstn]. constructor; [apply punct_vis; exact P | constructor].
           ++ destruct (ident_len (c :: t)) as [m|] eqn:IL; [|discriminate]. intros H. inversion H; subst. apply ident_len_vis. exact IL.
      * destruct s as [|c t]; [discriminate|]. destruct (is_punct c) eqn:P.
        -- intros H. inversion H; subst. cbn [firstn]. constructor; [apply punct_vis; exact P | constructor].
        -- destruct (ident_len (c :: t)) as [m|] eqn:IL; [|discriminate]. intros H. inversion H; subst. apply ident_len_vis. exact IL.
  - destruct (int_digits s) as [n2|] eqn:I.
    + destruct (suffix_break s n2) as [n2'|] eqn:SB2.
      * intros H. inversion H; subst. eapply suffix_break_vis; [exact SB2 | apply int_digits_vis; exact I].
      * destruct s as [|c t]; [discriminate|]. destruct (is_punct c) eqn:P.
        -- intros H. inversion H; subst. cbn [firstn]. constructor; [apply punct_vis; exact P | constructor].
        -- destruct (ident_len (c :: t)) as [m|] eqn:IL; [|discriminate]. intros H. inversion H; subst. apply ident_len_vis. exact IL.
    + destruct s as [|c t]; [discriminate|]. destruct (is_punct c) eqn:P.
      * intros H. inversion H; subst. cbn [firstn]. constructor; [apply punct_vis; exact P | constructor].
      * destruct (ident_len (c :: t)) as [m|] eqn:IL; [|discriminate]. intros H. inversion H; subst. apply ident_len_vis. exact IL.
Qed.

(** ** the token stream *)

Lemma strip_ws_app a b : strip_ws (a ++ b) = strip_ws a ++ strip_ws b.
Proof. unfold strip_ws. apply filter_app. Qed.

Lemma strip_ws_vis a : Forall vis a -> strip_ws a = a.
Proof.
  induction 1 as [|c t V _ IH]; [reflexivity|]. unfold strip_ws in *. cbn [filter]. rewrite (vis_not_ws c V). cbn [negb]. f_equal. exact IH.
Qed.

Lemma skip_ws_strip s : strip_ws (skip_ws s) = strip_ws s.
Proof.
  induction s as [|c t IH]; [reflexivity|]. cbn [skip_ws]. destruct (is_ws c) eqn:E; [|reflexivity].
  rewrite IH. unfold strip_ws. cbn [filter]. rewrite E. reflexivity.
Qed.

Lemma skip_ws_length s : (length (skip_ws s) <= length s)%nat.
Proof. induction s as [|c t IH]; [cbn; lia|]. cbn [skip_ws]. destruct (is_ws c); cbn [length]; lia. Qed.

Definition first_ok (k : tkind) (c : Z) : Prop :=
  match k with TLit => is_digit c = true | TIdent => is_ident_start c = true | _ => True end.
Definition tok_ok (t : token) : Prop :=
  Forall vis (ttext t) /\ tk t <> TGroup /\
  exists c r, ttext t = c :: r /\ first_ok (tk t) c /\ (tk t = TPunct -> r = []).

(** every token is a non-empty piece of visible characters, and the pieces joined are the text without white space *)
Theorem lex_loop_join fuel : forall s ts, lex_loop fuel s = LexOk ts ->
  join_tokens ts = strip_ws s /\ Forall tok_ok ts.
Proof.
  induction fuel as [|f IH]; intros s ts H; [discriminate|]. cbn [lex_loop] in H.
  rewrite <- (skip_ws_strip s). destruct (skip_ws s) as [|c t] eqn:SW.
  - inversion H; subst. split; [reflexivity | constructor].
  - destruct (leaf (c :: t)) as [[k n]|] eqn:L; [|discriminate]. destruct n as [|n]; [discriminate|].
    destruct (lex_loop f (skipn (S n) (c :: t))) as [ts'| | |] eqn:R; try discriminate. inversion H; subst ts.
    destruct (IH _ _ R) as [J F]. pose proof (leaf_vis _ _ _ L) as V. split.
    + unfold join_tokens in *. cbn [map concat ttext]. rewrite J.
      transitivity (strip_ws (firstn (S n) (c :: t) ++ skipn (S n) (c :: t))); [|rewrite firstn_skipn; reflexivity].
      rewrite strip_ws_app, (strip_ws_vis _ V). reflexivity.
    + constructor; [|exact F]. unfold tok_ok. cbn [ttext tk]. split; [exact V|]. pose proof (leaf_first _ _ _ _ L) as LF.
      split; [destruct k; try discriminate; contradiction|].
      exists c, (firstn n t). split; [reflexivity|]. split; [destruct k; cbn [first_ok]; auto|].
      intros ->. inversion LF; subst. reflexivity.
Qed.

Theorem lex_join s ts : lex s = LexOk ts -> join_tokens ts = strip_ws s /\ Forall tok_ok ts.
Proof. unfold lex. destruct (modelled s); [apply lex_loop_join | discriminate]. Qed.

(** the fuel of [lex] always suffices: every token takes at least one character *)
Lemma skipn_length_lt {A} n (l : list A) : l <> [] -> (length (skipn (S n) l) < length l)%nat.
Proof. destruct l as [|x l]; [contradiction|]. intros _. cbn [skipn length]. pose proof (skipn_length n l). lia. Qed.

Theorem lex_loop_fuel fuel : forall s, (length s < fuel)%nat -> lex_loop fuel s <> LexOutOfFuel.
Proof.
  induction fuel as [|f IH]; intros s Hl; [lia|]. cbn [lex_loop]. pose proof (skip_ws_length s) as SL.
  destruct (skip_ws s) as [|c t] eqn:SW; [discriminate|].
  destruct (leaf (c :: t)) as [[k n]|]; [|discriminate]. destruct n as [|n]; [discriminate|].
  pose proof (skipn_length_lt n (c :: t) ltac:(discriminate)) as SK.
  specialize (IH (skipn (S n) (c :: t)) ltac:(lia)).
  destruct (lex_loop f (skipn (S n) (c :: t))); try discriminate. exact IH.
Qed.

Theorem lex_total s : lex s <> LexOutOfFuel.
Proof. unfold lex. destruct (modelled s); [apply lex_loop_fuel; lia | discriminate]. Qed.

(** a literal text without white space is given back unchanged *)
Corollary lex_text_roundtrip s ts : Forall vis s -> lex s = LexOk ts -> join_tokens ts = s.
Proof. intros V H. destruct (lex_join s ts H) as [J _]. rewrite J. apply strip_ws_vis. exact V. Qed.
