(** C20 (round 3) - from the source text of a macro invocation to the number: the lexer model (LitLexModel.v)
    composed with the token loops and the run-time parsers (LitRefModel.v).  What the integer macros read is what
    stands in the text (sign, value token, `base` N, nothing else, nothing re-ordered) and the number is what the
    run-time parser makes of sign + value; the float macros read the text without its white space however the
    lexer cuts it into tokens (`1e5` one token, `1.` `e5` three, `0x1.8p-3` five). *)
From Dashu Require Import Base.Prelude Base.Words Int.IoSpec Int.IoModel Float.TextIoSpec Float.PartsConstModel
  Macro.LitModel Macro.LitGenProofs Macro.LitTokProofs Macro.LitLexModel Macro.LitLexProofs Macro.LitRefModel Macro.LitRefProofs.
Open Scope Z_scope.

Lemma digit_not_sign c : is_digit c = true -> negb ((c =? 43) || (c =? 45)) = true.
Proof.
  unfold is_digit. intros H. apply andb_true_iff in H. destruct H as [A _]. apply Z.leb_le in A.
  apply negb_true_iff, orb_false_iff. split; apply Z.eqb_neq; lia.
Qed.
Lemma ident_start_not_sign c : is_ident_start c = true -> negb ((c =? 43) || (c =? 45)) = true.
Proof.
  intros H. apply negb_true_iff, orb_false_iff. split; apply Z.eqb_neq; intros ->; vm_compute in H; discriminate.
Qed.

(** value tokens of a lexed text never start with a sign *)
Lemma value_tok_text_ok t : tok_ok t -> is_value_tok t = true -> value_text_ok (ttext t) = true.
Proof.
  intros (_ & _ & c & r & E & F & _) V. rewrite E. cbn [value_text_ok]. unfold is_value_tok in V.
  destruct (tk t); try discriminate; cbn [first_ok] in F; [apply digit_not_sign | apply ident_start_not_sign]; exact F.
Qed.

Definition base_suffix (b : option (list Z)) : list Z := match b with Some bt => t_base ++ bt | None => [] end.

Lemma int_body_join r v b : int_body_spec r = Some (v, b) ->
  join_tokens r = v ++ base_suffix b /\ exists vt, In vt r /\ is_value_tok vt = true /\ ttext vt = v.
Proof.
  unfold int_body_spec, join_tokens. destruct r as [|v0 [|b0 [|n0 [|x r]]]]; try discriminate.
  - destruct (is_value_tok v0) eqn:V; [|discriminate]. intros H. inversion H; subst. cbn [map concat base_suffix].
    rewrite !app_nil_r. split; [reflexivity|]. exists v0. cbn [In]. auto.
  - destruct (is_value_tok v0) eqn:V; [|discriminate]. destruct (is_base_tok b0) eqn:Bt; [|discriminate].
    destruct (is_lit_tok n0); [|discriminate]. cbn [andb]. intros H. inversion H; subst.
    apply base_inv in Bt. subst b0. cbn [map concat base_suffix ttext]. rewrite !app_nil_r.
    split; [reflexivity|]. exists v0. cbn [In]. auto.
Qed.

(** what the token loop of the integer macros reads is what the text says, in this order and nothing else *)
Theorem src_int_tokens s ts signed_ neg v b : lex s = LexOk ts -> int_tokens_spec signed_ ts = Some (neg, v, b) ->
  exists sgn, strip_ws s = sgn ++ v ++ base_suffix b /\ (sgn = sign_text neg \/ (sgn = [43] /\ neg = false)) /\
              value_text_ok v = true /\ (neg = true -> signed_ = true).
Proof.
  intros L T. destruct (lex_join s ts L) as [J F]. rewrite <- J. unfold int_tokens_spec in T.
  destruct ts as [|t r]; [discriminate|].
  assert (W : forall neg0 r0, (match int_body_spec r0 with Some (v1, b1) => Some (neg0, v1, b1) | None => None end) = Some (neg, v, b) ->
              Forall tok_ok r0 -> neg0 = neg /\ join_tokens r0 = v ++ base_suffix b /\ value_text_ok v = true).
  { intros neg0 r0 X F0. destruct (int_body_spec r0) as [[v1 b1]|] eqn:B; [|discriminate]. inversion X; subst.
    destruct (int_body_join _ _ _ B) as (Jr & vt & I & V & <-). split; [reflexivity|]. split; [exact Jr|].
    apply value_tok_text_ok; [|exact V]. rewrite Forall_forall in F0. apply F0. exact I. }
  inversion F as [|? ? Ft Fr]; subst.
  destruct (is_punct_char t 45) eqn:P1.
  - apply punct_inv in P1. subst t. destruct signed_; [|discriminate].
    destruct (W _ _ T Fr) as (<- & Jr & V). exists [45]. unfold join_tokens in *. cbn [map concat ttext]. rewrite Jr.
    split; [reflexivity|]. split; [left; reflexivity|]. split; [exact V | reflexivity].
  - destruct (is_punct_char t 43) eqn:P2.
    + apply punct_inv in P2. subst t. destruct signed_; [|discriminate].
      destruct (W _ _ T Fr) as (<- & Jr & V). exists [43]. unfold join_tokens in *. cbn [map concat ttext]. rewrite Jr.
      split; [reflexivity|]. split; [right; split; reflexivity|]. split; [exact V | discriminate].
    + destruct (W _ _ T F) as (<- & Jr & V). exists []. cbn [app]. split; [exact Jr|]. split; [left; reflexivity|].
      split; [exact V | discriminate].
Qed.

(** ubig!/ibig!/static_*: from the SOURCE TEXT to the number.  If the text lexes and the macro compiles, the text without
    white space is  [+|-]? value [base N]?  and the number built (const, heap or static path, any target word size) is
    what the run-time parser of the same signedness returns for  [-]? value  in that radix *)
Theorem src_int_macro_runtime w wbits signed_ static_ s ts z : parser_word w -> std_word wbits ->
  lex s = LexOk ts -> macro_int_asis w wbits signed_ static_ ts = Some z ->
  exists neg v b sgn, strip_ws s = sgn ++ v ++ base_suffix b /\ (sgn = sign_text neg \/ (sgn = [43] /\ neg = false)) /\
                      int_runtime w signed_ neg v b = Some z.
Proof.
  intros Hw Hb L M. unfold macro_int_asis in M. rewrite int_tokens_asis_eq_spec in M.
  destruct (int_tokens_spec signed_ ts) as [[[neg v] b]|] eqn:T; [|discriminate].
  destruct (src_int_tokens _ _ _ _ _ _ L T) as (sgn & E & Sg & V & N). exists neg, v, b, sgn. split; [exact E|]. split; [exact Sg|].
  rewrite (macro_int_eq_runtime w signed_ neg v b Hw V N).
  destruct (macro_uint_asis w v b) as [[m r]|] eqn:U; [|discriminate].
  rewrite macro_uint_asis_spec in U by exact Hw. destruct (macro_uint_value_nonneg _ _ _ _ U) as [Hm _].
  rewrite gen_int_asis_correct in M by assumption. exact M.
Qed.

(** the float macros use the tokens only through their concatenated text *)
Theorem float_macros_token_independent wbits static_ ts ts' : join_tokens ts = join_tokens ts' ->
  macro_fbin_asis wbits static_ ts = macro_fbin_asis wbits static_ ts' /\
  macro_fdec_asis wbits static_ ts = macro_fdec_asis wbits static_ ts'.
Proof.
  intros E. unfold macro_fbin_asis, macro_fdec_asis, fbin_text_asis, fbin_text_split. rewrite E. split; reflexivity.
Qed.

(** ... which is the source text without its white space: two texts that differ only in white space and in how the lexer
    cuts them (`1e5` | `1.` `e5` | `0x1` `.` `8p` `-` `3`) build the same float *)
Theorem src_float_macros wbits static_ s ts s' ts' : lex s = LexOk ts -> lex s' = LexOk ts' -> strip_ws s = strip_ws s' ->
  macro_fbin_asis wbits static_ ts = macro_fbin_asis wbits static_ ts' /\
  macro_fdec_asis wbits static_ ts = macro_fdec_asis wbits static_ ts'.
Proof.
  intros L L' E. apply float_macros_token_independent.
  destruct (lex_join _ _ L) as [J _]. destruct (lex_join _ _ L') as [J' _]. rewrite J, J'. exact E.
Qed.

(** dbig!: the literal the grammar (C08) reads in the source text, white space aside, is the literal of the tokens *)
Theorem src_fdec_literal s ts r : lex s = LexOk ts ->
  (fdec_literal ts r <-> TextIoSpec.parse_spec 10 (strip_ws s) = Some r).
Proof. intros L. destruct (lex_join _ _ L) as [J _]. unfold fdec_literal. rewrite J. tauto. Qed.

Example src_examples :
  lex [45; 32; 97; 51; 102; 32; 98; 97; 115; 101; 32; 49; 54] =
    LexOk [mk_tok TPunct [45]; mk_tok TIdent [97; 51; 102]; mk_tok TIdent t_base; mk_tok TLit [49; 54]] /\
  lex [49; 101; 53] = LexOk [mk_tok TLit [49; 101; 53]] /\
  lex [49; 46; 101; 53] = LexOk [mk_tok TLit [49]; mk_tok TPunct [46]; mk_tok TIdent [101; 53]] /\
  lex [48; 120; 49; 46; 56; 112; 45; 51] =
    LexOk [mk_tok TLit [48; 120; 49]; mk_tok TPunct [46]; mk_tok TLit [56; 112]; mk_tok TPunct [45]; mk_tok TLit [51]] /\
  lex [48; 98; 50] = LexErr /\ lex [34; 53; 34] = LexUnmodelled.
Proof. repeat split; vm_compute; reflexivity. Qed.
