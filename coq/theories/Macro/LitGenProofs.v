(** C20 - the code generators of the literal macros build the number that was parsed.
    All theorems are for every magnitude (no size bound) and for the three word sizes. *)
From Dashu Require Import Base.Prelude Base.Words Int.IoSpec Macro.LitModel.
Open Scope Z_scope.

(* ------------------------------------------------------------------------------------------ *)
(** * generic facts about [value] and the most significant word *)

Lemma B_pow w k : 0 <= w -> 0 <= k -> B w ^ k = 2 ^ (w * k).
Proof. intros. unfold B. rewrite <- Z.pow_mul_r by lia. reflexivity. Qed.

Lemma value_snoc w a x : value w (a ++ [x]) = value w a + B w ^ len a * x.
Proof. rewrite value_app. cbn [value]. lia. Qed.

Lemma wf_snoc w a x : wf w (a ++ [x]) <-> wf w a /\ 0 <= x < B w.
Proof. rewrite wf_app, wf_cons. pose proof (wf_nil w). tauto. Qed.

(** top word zero: the value fits one word less; top word non-zero: it does not *)
Lemma value_top_zero w ws : 0 < w -> wf w ws -> ws <> [] -> last ws 0 = 0 -> value w ws < B w ^ (len ws - 1).
Proof.
  intros Hw Hwf Hne Hl. destruct (exists_last Hne) as [a [x ->]]. rewrite last_last in Hl. subst x.
  apply wf_snoc in Hwf. destruct Hwf as [Ha _]. rewrite value_snoc.
  pose proof (value_bounds w Hw a Ha). unfold len in *. rewrite app_length. cbn [length].
  replace (Z.of_nat (length a + 1) - 1) with (Z.of_nat (length a)) by lia. lia.
Qed.

Lemma value_top_nonzero w ws : 0 < w -> wf w ws -> ws <> [] -> last ws 0 <> 0 -> B w ^ (len ws - 1) <= value w ws.
Proof.
  intros Hw Hwf Hne Hl. destruct (exists_last Hne) as [a [x ->]]. rewrite last_last in Hl.
  apply wf_snoc in Hwf. destruct Hwf as [Ha Hx]. rewrite value_snoc.
  pose proof (value_bounds w Hw a Ha). unfold len in *. rewrite app_length. cbn [length].
  replace (Z.of_nat (length a + 1) - 1) with (Z.of_nat (length a)) by lia.
  assert (0 < B w ^ Z.of_nat (length a)) by (apply Z.pow_pos_nonneg; [apply B_pos; lia | lia]). nia.
Qed.

Lemma last_app_ne {A} (a b : list A) d : b <> [] -> last (a ++ b) d = last b d.
Proof.
  intros Hb. induction a as [|x a IH]; [reflexivity|]. cbn [app].
  destruct (a ++ b) as [|y l] eqn:E; [apply app_eq_nil in E; destruct E; contradiction|].
  change (last (x :: y :: l) d) with (last (y :: l) d). exact IH.
Qed.

Lemma wf_firstn w n ws : wf w ws -> wf w (firstn n ws).
Proof. intros H. rewrite <- (firstn_skipn n ws) in H. apply wf_app in H. tauto. Qed.

Lemma wf_skipn w n ws : wf w ws -> wf w (skipn n ws).
Proof. intros H. rewrite <- (firstn_skipn n ws) in H. apply wf_app in H. tauto. Qed.

(* ------------------------------------------------------------------------------------------ *)
(** * [le_bytes]: the byte string of [UBig::to_le_bytes] *)

Lemma blen_nonneg v : 0 <= blen v.
Proof. unfold blen. destruct (Z.leb_spec v 0); [lia | pose proof (Z.log2_nonneg v); lia]. Qed.

Lemma blen_lt v : 0 <= v -> v < 2 ^ blen v.
Proof.
  intros H. unfold blen. destruct (Z.leb_spec v 0).
  - assert (v = 0) by lia. subst. cbn. lia.
  - pose proof (Z.log2_spec v ltac:(lia)). replace (Z.log2 v + 1) with (Z.succ (Z.log2 v)) by lia. lia.
Qed.

Lemma blen_ge v : 0 < v -> 2 ^ (blen v - 1) <= v.
Proof.
  intros H. unfold blen. destruct (Z.leb_spec v 0); [lia|].
  replace (Z.log2 v + 1 - 1) with (Z.log2 v) by lia. apply Z.log2_spec. lia.
Qed.

Lemma blen_le_of_lt v p : 0 <= v -> 0 <= p -> v < 2 ^ p -> blen v <= p.
Proof.
  intros Hv Hp H. unfold blen. destruct (Z.leb_spec v 0); [lia|].
  assert (Z.log2 v < p) by (apply Z.log2_lt_pow2; lia). lia.
Qed.

Lemma byte_len_nonneg v : 0 <= byte_len v.
Proof. unfold byte_len. pose proof (blen_nonneg v). apply Z.div_pos; lia. Qed.

Lemma byte_len_bounds v : 8 * byte_len v - 7 <= blen v <= 8 * byte_len v.
Proof.
  unfold byte_len. pose proof (Z.div_mod (blen v + 7) 8 ltac:(lia)).
  pose proof (Z.mod_pos_bound (blen v + 7) 8 ltac:(lia)). lia.
Qed.

Lemma le_bytes_length n : len (le_bytes n) = byte_len n.
Proof. unfold le_bytes, len, nbytes. rewrite to_words_length. rewrite Z2Nat.id; [reflexivity | apply byte_len_nonneg]. Qed.

Lemma le_bytes_wf n : wf 8 (le_bytes n).
Proof. apply to_words_wf. lia. Qed.

Theorem le_bytes_value n : 0 <= n -> value 8 (le_bytes n) = n.
Proof.
  intros Hn. unfold le_bytes. apply value_to_words; [lia|]. split; [lia|].
  unfold nbytes. rewrite Z2Nat.id by apply byte_len_nonneg. rewrite B_pow by (pose proof (byte_len_nonneg n); lia).
  pose proof (blen_lt n Hn). pose proof (byte_len_bounds n).
  apply Z.lt_le_trans with (2 ^ blen n); [assumption|]. apply Z.pow_le_mono_r; lia.
Qed.

(** the shortest string: the last byte of a non-zero number is not zero *)
Theorem le_bytes_top n : 0 <= n -> le_bytes n = [] \/ last (le_bytes n) 0 <> 0.
Proof.
  intros Hn. destruct (le_bytes n) eqn:E; [now left | right]. rewrite <- E. intros Hl.
  assert (Hne : le_bytes n <> []) by (rewrite E; discriminate).
  pose proof (value_top_zero 8 (le_bytes n) ltac:(lia) (le_bytes_wf n) Hne Hl) as Hv.
  rewrite le_bytes_value, le_bytes_length in Hv by assumption.
  assert (0 < byte_len n).
  { pose proof (le_bytes_length n) as L. rewrite E in L. unfold len in L. cbn [length] in L. lia. }
  rewrite B_pow in Hv by lia.
  assert (0 < n).
  { destruct (Z.eq_dec n 0) as [->|]; [|lia]. unfold byte_len, blen in *. cbn in *. lia. }
  pose proof (blen_ge n ltac:(lia)). pose proof (byte_len_bounds n).
  assert (2 ^ (8 * (byte_len n - 1)) <= 2 ^ (blen n - 1)) by (apply Z.pow_le_mono_r; lia). lia.
Qed.

Lemma le_bytes_is_byte n : forallb is_byte (le_bytes n) = true.
Proof.
  pose proof (le_bytes_wf n) as H. unfold wf in H. apply forallb_forall. intros x Hx.
  rewrite Forall_forall in H. specialize (H x Hx). unfold B in H. change (2 ^ 8) with 256 in H.
  unfold is_byte. apply andb_true_intro. split; [apply Z.leb_le | apply Z.ltb_lt]; lia.
Qed.

(* ------------------------------------------------------------------------------------------ *)
(** * regrouping bytes into words of [k] bytes (le_bytes_to_<int>_array) *)

Section Regroup.
Variable k : nat.
Hypothesis k_pos : (0 < k)%nat.
Let wb : Z := 8 * Z.of_nat k.

Lemma wb_pos : 0 < wb. Proof. unfold wb. lia. Qed.

Lemma B8_pow_k : B 8 ^ Z.of_nat k = B wb.
Proof. rewrite B_pow by lia. reflexivity. Qed.

Lemma exact_chunks_spec n : forall bs, wf 8 bs -> (n * k <= length bs)%nat ->
  let '(cs, r) := exact_chunks n k bs in
  length cs = n /\ Forall (fun c => length c = k /\ wf 8 c) cs /\ wf 8 r /\
  (length r = length bs - n * k)%nat /\
  value 8 bs = value wb (map (value 8) cs) + B wb ^ Z.of_nat n * value 8 r /\
  (r <> [] -> last r 0 = last bs 0).
Proof.
  induction n as [|n IH]; intros bs Hwf Hlen; cbn [exact_chunks].
  - repeat split; auto; try lia. cbn [map value]. rewrite Z.pow_0_r. lia.
  - specialize (IH (skipn k bs) (wf_skipn 8 k bs Hwf)).
    rewrite skipn_length in IH. specialize (IH ltac:(nia)).
    destruct (exact_chunks n k (skipn k bs)) as [cs r]. destruct IH as (L & F & Wr & Lr & V & La).
    assert (Lf : length (firstn k bs) = k) by (apply firstn_length_le; nia).
    repeat split.
    + cbn [length]. lia.
    + constructor; [split; [exact Lf | apply wf_firstn; exact Hwf] | exact F].
    + exact Wr.
    + nia.
    + rewrite <- (firstn_skipn k bs) at 1. rewrite value_app. unfold len. rewrite Lf, B8_pow_k.
      cbn [map value]. rewrite V. rewrite Nat2Z.inj_succ, Z.pow_succ_r by lia. ring.
    + intros Hr. rewrite (La Hr). rewrite <- (firstn_skipn k bs) at 2.
      assert (skipn k bs <> []).
      { intros E. apply (f_equal (@length Z)) in E. rewrite skipn_length in E. cbn [length] in E. destruct r; [contradiction | cbn [length] in Lr; lia]. }
      rewrite last_app_ne by assumption. reflexivity.
Qed.

Lemma chunk_value_bound c : length c = k -> wf 8 c -> 0 <= value 8 c < B wb.
Proof. intros L W. pose proof (value_bounds 8 ltac:(lia) c W) as H. unfold len in H. rewrite L, B8_pow_k in H. exact H. Qed.

(** facts about the array all at once *)
Lemma le_bytes_to_array_spec bs : wf 8 bs ->
  let a := le_bytes_to_array k bs in
  wf wb a /\ value wb a = value 8 bs /\
  (length bs <= length a * k)%nat /\ (length a * k < length bs + k)%nat /\
  (bs <> [] -> last bs 0 <> 0 -> a <> [] /\ last a 0 <> 0).
Proof.
  intros Hwf. unfold le_bytes_to_array.
  pose proof (Nat.mul_div_le (length bs) k ltac:(lia)) as Hq.
  pose proof (Nat.mul_succ_div_gt (length bs) k ltac:(lia)) as Hq2.
  set (n := Nat.div (length bs) k) in *.
  pose proof (exact_chunks_spec n bs Hwf ltac:(lia)) as H.
  destruct (exact_chunks n k bs) as [cs r]. destruct H as (L & F & Wr & Lr & V & La).
  assert (Wcs : wf wb (map (value 8) cs)).
  { unfold wf. apply Forall_forall. intros x Hx. apply in_map_iff in Hx. destruct Hx as [c [<- Hc]].
    rewrite Forall_forall in F. destruct (F c Hc). apply chunk_value_bound; assumption. }
  assert (Lm : length (map (value 8) cs) = n) by (rewrite map_length; exact L).
  destruct r as [|b r'].
  - rewrite app_nil_r. cbn [length] in Lr. refine (conj _ (conj _ (conj _ (conj _ _)))).
    + exact Wcs.
    + rewrite V. cbn [value]. lia.
    + rewrite Lm. lia.
    + rewrite Lm. lia.
    + intros Hne Hl.
      assert (Hane : map (value 8) cs <> []).
      { intros E. apply map_eq_nil in E. subst cs. cbn [length] in L. destruct bs; [contradiction | cbn [length] in *; nia]. }
      split; [exact Hane|]. intros Hz.
      (* the last word holds the last byte *)
      pose proof (value_top_zero wb _ wb_pos Wcs Hane Hz) as Hv.
      pose proof (value_top_nonzero 8 bs ltac:(lia) Hwf Hne Hl) as Hb.
      assert (1 <= n)%nat by (destruct cs; [contradiction | cbn [length] in L; lia]).
      assert (1 <= length bs)%nat by (destruct bs; [contradiction | cbn [length]; lia]).
      rewrite V in Hb. cbn [value] in Hb. unfold len in *. rewrite Lm in Hv.
      rewrite (B_pow wb) in Hv by (pose proof wb_pos; lia). rewrite (B_pow 8) in Hb by lia.
      assert (2 ^ (wb * (Z.of_nat n - 1)) <= 2 ^ (8 * (Z.of_nat (length bs) - 1))).
      { apply Z.pow_le_mono_r; [lia|]. unfold wb. nia. }
      lia.
  - set (rr := b :: r') in *. assert (Hrne : rr <> []) by discriminate.
    assert (Lrr : (length rr < k)%nat) by lia.
    assert (Wp : wf 8 (rr ++ repeat 0 (k - length rr))) by (apply wf_app; split; [exact Wr | apply wf_repeat_zero; lia]).
    assert (Lp : length (rr ++ repeat 0 (k - length rr)) = k) by (rewrite app_length, repeat_length; lia).
    assert (Vp : value 8 (rr ++ repeat 0 (k - length rr)) = value 8 rr) by (rewrite value_app, value_repeat_zero; lia).
    pose proof (chunk_value_bound _ Lp Wp) as Bp.
    refine (conj _ (conj _ (conj _ (conj _ _)))).
    + apply wf_app. split; [exact Wcs|]. apply wf_cons. split; [exact Bp | apply wf_nil].
    + rewrite value_app. unfold len. rewrite Lm. cbn [value]. rewrite Vp, V. lia.
    + rewrite app_length, Lm. cbn [length]. nia.
    + rewrite app_length, Lm. cbn [length].
      assert (1 <= length rr)%nat by (unfold rr; cbn [length]; lia).
      rewrite Nat.mul_add_distr_r, Nat.mul_1_l. lia.
    + intros Hne Hl. split; [intros E; apply app_eq_nil in E; destruct E; discriminate|].
      rewrite last_last. rewrite Vp. specialize (La Hrne). rewrite <- La in Hl.
      pose proof (value_top_nonzero 8 rr ltac:(lia) Wr Hrne Hl) as Hv.
      assert (0 < B 8 ^ (len rr - 1)) by (apply Z.pow_pos_nonneg; [apply B_pos; lia | unfold len, rr; cbn [length]; lia]). lia.
Qed.

End Regroup.

(* ------------------------------------------------------------------------------------------ *)
(** * quote_words: the static word arrays for the three word sizes *)

Definition std_word (wbits : Z) : Prop := wbits = 16 \/ wbits = 32 \/ wbits = 64.
Definition word_bytes (wbits : Z) : nat := Z.to_nat (wbits / 8).

Lemma std_word_bytes wbits : std_word wbits -> (2 <= word_bytes wbits)%nat /\ wbits = 8 * Z.of_nat (word_bytes wbits).
Proof. intros [H|[H|H]]; subst wbits; (split; [vm_compute; lia | vm_compute; reflexivity]). Qed.

Lemma quote_words_nth wbits bs : std_word wbits ->
  nth_error (q_sel (quote_words bs)) (sel_index wbits) =
  Some (let '(d, l) := array_tokens (word_bytes wbits) bs (Nat.div (length bs + 1) 2) in (l, d)).
Proof. intros [H|[H|H]]; subst wbits; reflexivity. Qed.

(** the slice handed to from_static_words is exactly the unpadded array: LEN excludes the padding,
    the declared length max_len = (bytes+1)/2 is enough for every word size, every entry fits the
    element type *)
Theorem select_words_quote wbits bs : std_word wbits -> wf 8 bs ->
  select_words wbits (quote_words bs) = Some (le_bytes_to_array (word_bytes wbits) bs).
Proof.
  intros Hw Hwf. destruct (std_word_bytes wbits Hw) as [Hk Hwb].
  unfold select_words. rewrite (quote_words_nth wbits bs Hw). unfold array_tokens.
  set (k := word_bytes wbits) in *. set (a := le_bytes_to_array k bs).
  destruct (le_bytes_to_array_spec k ltac:(lia) bs Hwf) as (Wa & Va & L1 & L2 & Top). fold a in Wa, Va, L1, L2, Top.
  rewrite <- Hwb in Wa.
  set (mx := Nat.div (length bs + 1) 2).
  assert (Hmx : (length a <= mx)%nat).
  { apply Nat.div_le_lower_bound; [lia|]. destruct (length a) as [|m] eqn:E; [lia|]. nia. }
  assert (Hq : q_max (quote_words bs) = Z.of_nat mx) by reflexivity. rewrite Hq.
  assert (Ld : len (a ++ repeat 0 (mx - length a)) = Z.of_nat mx).
  { unfold len. rewrite app_length, repeat_length. lia. }
  rewrite Ld, Z.eqb_refl. cbn [andb].
  assert (H1 : (0 <=? len a) = true) by (apply Z.leb_le; unfold len; lia). rewrite H1.
  assert (H2 : (len a <=? Z.of_nat mx) = true) by (apply Z.leb_le; unfold len; lia). rewrite H2.
  assert (H3 : wfb wbits (a ++ repeat 0 (mx - length a)) = true).
  { apply wfb_wf. apply wf_app. split; [exact Wa | apply wf_repeat_zero; lia]. }
  rewrite H3. cbn [andb]. unfold len. rewrite Nat2Z.id.
  rewrite firstn_app, Nat.sub_diag, firstn_O, app_nil_r, firstn_all. reflexivity.
Qed.

(** from_static_words' assertions hold and the value is the number *)
Theorem eval_words_quote wbits bs : std_word wbits -> wf 8 bs -> (bs = [] \/ last bs 0 <> 0) ->
  eval_words wbits (quote_words bs) = Some (value 8 bs).
Proof.
  intros Hw Hwf Htop. unfold eval_words. rewrite select_words_quote by assumption.
  destruct (std_word_bytes wbits Hw) as [Hk Hwb]. set (k := word_bytes wbits) in *.
  destruct (le_bytes_to_array_spec k ltac:(lia) bs Hwf) as (Wa & Va & L1 & L2 & Top).
  rewrite <- Hwb in Wa, Va. rewrite <- Va.
  set (a := le_bytes_to_array k bs) in *.
  assert (Hne : a <> [] -> a <> [] /\ last a 0 <> 0).
  { intros Ha. destruct Htop as [Hb|Hl]; [subst bs|].
    - cbn [length] in L2. destruct a; [contradiction | cbn [length] in L2; nia].
    - apply Top; [|exact Hl]. intros ->. cbn [length] in L2. destruct a; [contradiction | cbn [length] in L2; nia]. }
  unfold from_static_words. destruct a as [|x [|y [|z t]]].
  - reflexivity.
  - cbn [value]. f_equal. lia.
  - destruct (Hne ltac:(discriminate)) as [_ Hl]. cbn [last] in Hl.
    apply wf_cons in Wa. destruct Wa as [_ Wa]. apply wf_cons in Wa. destruct Wa as [Hy _].
    assert (E : (0 <? y) = true) by (apply Z.ltb_lt; lia). rewrite E. reflexivity.
  - destruct (Hne ltac:(discriminate)) as [_ Hl].
    destruct (Z.eqb_spec (last (x :: y :: z :: t) 0) 0); [contradiction | reflexivity].
Qed.

(* ------------------------------------------------------------------------------------------ *)
(** * the integer generators *)

Lemma signed_sign_abs x : signed (sign_of x) (Z.abs x) = x.
Proof. unfold signed, sign_of, sgnz. destruct (Z.ltb_spec x 0); lia. Qed.

Theorem gen_int_asis_correct wbits static_ s mag : std_word wbits -> 0 <= mag ->
  eval_ishape wbits (gen_int_asis static_ s mag) = Some (int_spec s mag).
Proof.
  intros Hw Hm. unfold gen_int_asis, int_spec.
  destruct ((blen mag <=? 32) && negb static_) eqn:E.
  - apply andb_prop in E. destruct E as [E _]. apply Z.leb_le in E. cbn [eval_ishape].
    pose proof (blen_lt mag Hm). assert (2 ^ blen mag <= 2 ^ 32) by (apply Z.pow_le_mono_r; [lia | exact E]).
    assert (E1 : (0 <=? mag) = true) by (apply Z.leb_le; lia).
    assert (E2 : (mag <? 2 ^ 32) = true) by (apply Z.ltb_lt; lia).
    rewrite E1, E2. reflexivity.
  - destruct static_; cbn [eval_ishape].
    + rewrite eval_words_quote by (auto using le_bytes_wf, le_bytes_top). rewrite le_bytes_value by assumption. reflexivity.
    + rewrite le_bytes_is_byte, le_bytes_value by assumption. reflexivity.
Qed.

(** which generator: the u32 const expression exactly when the magnitude has at most 32 bits and
    the macro is not a static_ one *)
Theorem gen_int_asis_path static_ s mag : 0 <= mag ->
  (exists u, gen_int_asis static_ s mag = IC32 s u) <-> (mag < 2 ^ 32 /\ static_ = false).
Proof.
  intros Hm. unfold gen_int_asis. destruct (Z.leb_spec (blen mag) 32) as [H|H]; destruct static_; cbn [andb negb]; split.
  all: try (intros [u Hu]; discriminate).
  all: try (intros [_ ?]; discriminate).
  - intros _. split; [|reflexivity]. pose proof (blen_lt mag Hm).
    assert (2 ^ blen mag <= 2 ^ 32) by (apply Z.pow_le_mono_r; lia). lia.
  - intros _. now exists mag.
  - intros [Hlt _]. pose proof (blen_le_of_lt mag 32 Hm ltac:(lia) Hlt). lia.
Qed.

(* ------------------------------------------------------------------------------------------ *)
(** * the float generators *)

Lemma tz_fuel_odd f m : m mod 2 <> 0 -> tz_fuel f m = 0.
Proof. intros H. destruct f; cbn [tz_fuel]; [reflexivity|]. destruct (Z.eqb_spec (m mod 2) 0); [contradiction | reflexivity]. Qed.

Lemma tz_odd m : m mod 2 <> 0 -> tz m = 0.
Proof. intros H. unfold tz. destruct (m =? 0); [reflexivity | apply tz_fuel_odd; exact H]. Qed.

Lemma tz_fuel_nonneg f : forall m, 0 <= tz_fuel f m.
Proof. induction f; intros m; cbn [tz_fuel]; [lia|]. destruct (m mod 2 =? 0); [specialize (IHf (m / 2)); lia | lia]. Qed.

Lemma tz_nonneg m : 0 <= tz m.
Proof. unfold tz. destruct (m =? 0); [lia | apply tz_fuel_nonneg]. Qed.

Lemma strip_base_id fuel B m e : m mod B <> 0 -> strip_base fuel B m e = (m, e).
Proof. intros H. destruct fuel; cbn [strip_base]; [reflexivity|]. destruct (Z.eqb_spec (m mod B) 0); [contradiction | reflexivity]. Qed.

(** the digit counting loop of from_parts_const never exceeds the number of digits of the literal *)
Lemma count_digits_le fuel B dmax m p : 2 <= B -> 0 <= p -> m < B ^ p ->
  forall pow d, 0 <= d -> pow = B ^ d -> pow <= m -> count_digits fuel B dmax m pow (d + 1) <= p.
Proof.
  intros HB Hp Hm. induction fuel as [|fuel IH]; intros pow d Hd Hpow Hle; cbn [count_digits];
    assert (d < p) by (apply (Z.pow_lt_mono_r_iff B d p); lia).
  - lia.
  - destruct (dmax <? pow * B); [lia|]. destruct (Z.ltb_spec m (pow * B)); [lia|].
    apply IH; [lia | | lia]. subst pow. replace (d + 1) with (Z.succ d) by lia. rewrite Z.pow_succ_r by lia. lia.
Qed.

(** what the macro hands to the generator: a normalised significand and the digit count of the text *)
Definition float_pre (B mag e p : Z) : Prop :=
  0 <= mag /\ 0 <= p /\ (mag = 0 -> e = 0) /\ (0 < mag -> mag mod B <> 0 /\ mag < B ^ p).

Lemma signed_abs_sgn s m : 0 < m -> Z.abs (signed s m) = m /\ Z.sgn (signed s m) * m = signed s m /\ signed s m <> 0.
Proof.
  intros H. destruct s; unfold signed, sgnz.
  - rewrite Z.mul_1_l. rewrite Z.sgn_pos by lia. lia.
  - replace (-1 * m) with (- m) by lia. rewrite Z.sgn_neg by lia. lia.
Qed.

Theorem gen_float_asis_correct B wbits static_ s mag e p :
  B = 2 \/ B = 10 -> std_word wbits -> float_pre B mag e p ->
  ~ Known_static_precision static_ mag p -> ~ Known_zero_precision mag p ->
  eval_fshape B wbits (gen_float_asis static_ s mag e p) = Some (float_spec s mag e p).
Proof.
  intros HB Hw (Hm & Hp & Hz & Hn) NK1 NK2. unfold gen_float_asis, float_spec.
  destruct (Z.leb_spec (blen mag) 32) as [H32|H32].
  - cbn [eval_fshape].
    pose proof (blen_lt mag Hm). assert (2 ^ blen mag <= 2 ^ 32) by (apply Z.pow_le_mono_r; lia).
    assert (E1 : (0 <=? mag) = true) by (apply Z.leb_le; lia).
    assert (E2 : (mag <? 2 ^ 32) = true) by (apply Z.ltb_lt; lia).
    rewrite E1, E2. cbn [andb]. unfold fbig_from_parts_const.
    destruct (Z.eqb_spec mag 0) as [E0|E0].
    + subst mag. rewrite (Hz eq_refl). assert (p = 0) by (destruct (Z.eq_dec p 0); [assumption | exfalso; apply NK2; split; auto]).
      subst p. unfold signed. rewrite Z.mul_0_r. reflexivity.
    + destruct (Hn ltac:(lia)) as [Hmod Hlt]. destruct HB as [HB|HB]; subst B.
      * change (is_pow2 2) with true. cbv iota. change (tz 2) with 1.
        rewrite (tz_odd mag Hmod). rewrite Z.div_0_l, Z.mul_0_l, Z.shiftr_0_r, Z.add_0_r by lia.
        replace ((blen mag + 1 - 1) / 1) with (blen mag) by (rewrite Z.div_1_r; lia).
        pose proof (blen_le_of_lt mag p Hm Hp Hlt). destruct (Z.ltb_spec (blen mag) p); [reflexivity | repeat f_equal; lia].
      * change (is_pow2 10) with false. cbv iota. rewrite strip_base_id by exact Hmod.
        pose proof (count_digits_le (Z.to_nat (2 * wbits)) 10 (2 ^ (2 * wbits) - 1) mag p ltac:(lia) Hp Hlt 1 0 ltac:(lia) eq_refl ltac:(lia)) as Hc.
        change 1 with (0 + 1) in Hc at 2.
        destruct (Z.ltb_spec (count_digits (Z.to_nat (2 * wbits)) 10 (2 ^ (2 * wbits) - 1) mag 1 1) p); [reflexivity | repeat f_equal; change (0 + 1) with 1 in Hc; lia].
  - assert (Hpos : 0 < mag).
    { destruct (Z.eq_dec mag 0) as [E|E]; [subst; cbn in H32; lia | lia]. }
    destruct (Hn Hpos) as [Hmod Hlt]. destruct static_.
    + cbn [eval_fshape]. rewrite eval_words_quote by (auto using le_bytes_wf, le_bytes_top). rewrite le_bytes_value by assumption.
      destruct (Z.eqb_spec (mag mod B) 0); [contradiction|].
      assert (p = 0) by (destruct (Z.eq_dec p 0); [assumption | exfalso; apply NK1; repeat split; auto]). subst p. reflexivity.
    + cbn [eval_fshape eval_ishape]. rewrite le_bytes_is_byte, le_bytes_value by assumption. unfold repr_new.
      destruct (signed_abs_sgn s mag Hpos) as (A1 & A2 & A3).
      destruct (Z.eqb_spec (signed s mag) 0); [contradiction|]. rewrite A1, strip_base_id by exact Hmod. rewrite A2. reflexivity.
Qed.

Example gen_float_nonvacuous :
  float_pre 10 1234567890123 (-3) 13 /\ ~ Known_static_precision false 1234567890123 13 /\ ~ Known_zero_precision 1234567890123 13.
Proof.
  split; [|split].
  - unfold float_pre. split; [lia|]. split; [lia|]. split; [intros; lia|]. intros _.
    split; [vm_compute; discriminate | vm_compute; reflexivity].
  - intros [H _]. discriminate.
  - intros [H _]. discriminate.
Qed.

(** finding 29 of DESIGN 5.1: static_fbig!/static_dbig! with a significand above 32 bits lose the precision *)
Theorem float_static_precision_refuted :
  exists s mag e p, float_pre 2 mag e p /\ Known_static_precision true mag p /\
    eval_fshape 2 64 (gen_float_asis true s mag e p) <> Some (float_spec s mag e p).
Proof.
  exists Positive, 81985529216486895, (-3), 60. split; [|split].
  - unfold float_pre. split; [lia|]. split; [lia|]. split; [intros; lia|]. intros _.
    split; [vm_compute; discriminate | vm_compute; reflexivity].
  - unfold Known_static_precision. split; [reflexivity|]. split; [vm_compute; reflexivity | lia].
  - vm_compute. discriminate.
Qed.

(** a zero literal with n digits: from_parts_const returns ZERO and drops the precision *)
Theorem float_zero_precision_refuted :
  exists st s e p, float_pre 10 0 e p /\ Known_zero_precision 0 p /\
    eval_fshape 10 64 (gen_float_asis st s 0 e p) <> Some (float_spec s 0 e p).
Proof.
  exists false, Positive, 0, 3. split; [|split].
  - unfold float_pre. split; [lia|]. split; [lia|]. split; [intros; lia | intros; lia].
  - unfold Known_zero_precision. split; [reflexivity | lia].
  - vm_compute. discriminate.
Qed.

(* ------------------------------------------------------------------------------------------ *)
(** * the ratio generators *)

Lemma blen_mono a b : 0 <= a -> a <= b -> blen a <= blen b.
Proof.
  intros Ha Hab. apply blen_le_of_lt; [lia | apply blen_nonneg|].
  pose proof (blen_lt b ltac:(lia)). lia.
Qed.

Lemma blen_half a y : 0 <= a -> 2 * a < y -> blen a < blen y.
Proof.
  intros Ha H. assert (0 < y) by lia.
  assert (1 <= blen y). { unfold blen. destruct (Z.leb_spec y 0); [lia | pose proof (Z.log2_nonneg y); lia]. }
  assert (blen a <= blen y - 1); [|lia]. apply blen_le_of_lt; [lia | lia |].
  pose proof (blen_lt y ltac:(lia)) as Hy. replace (blen y) with (Z.succ (blen y - 1)) in Hy by lia.
  rewrite Z.pow_succ_r in Hy by lia. lia.
Qed.

(** the const Euclid loop of RBig::from_parts_const keeps the gcd and stops with r <= 1 *)
Lemma naive_gcd_loop_inv fuel : forall y r y' r', 0 <= r < y ->
  naive_gcd_loop fuel y r = Some (y', r') -> Z.gcd y r = Z.gcd y' r' /\ 0 <= r' <= 1 /\ 0 < y'.
Proof.
  induction fuel as [|fuel IH]; intros y r y' r' Hr H; cbn [naive_gcd_loop] in H; [discriminate|].
  destruct (Z.ltb_spec 1 r) as [H1|H1].
  - pose proof (Z.mod_pos_bound y r ltac:(lia)).
    destruct (IH r (y mod r) y' r' ltac:(lia) H) as (G & B1 & B2). split; [|tauto].
    rewrite <- G. rewrite (Z.gcd_comm r (y mod r)), Z.gcd_mod by lia. apply Z.gcd_comm.
  - inversion H; subst. split; [reflexivity | lia].
Qed.

(** fuel: bit lengths of (y, r) shrink by one bit per round *)
Lemma naive_gcd_loop_fuel fuel : forall y r, 0 <= r < y -> blen y + blen r < Z.of_nat fuel ->
  naive_gcd_loop fuel y r <> None.
Proof.
  induction fuel as [|fuel IH]; intros y r Hr Hf.
  - pose proof (blen_nonneg y). pose proof (blen_nonneg r). cbn in Hf. lia.
  - cbn [naive_gcd_loop]. destruct (Z.ltb_spec 1 r) as [H1|H1]; [|discriminate].
    pose proof (Z.mod_pos_bound y r ltac:(lia)) as Hm. apply IH; [lia|].
    assert (blen (y mod r) < blen y).
    { apply blen_half; [lia|]. pose proof (Z.div_mod y r ltac:(lia)).
      assert (1 <= y / r) by (apply Z.div_le_lower_bound; lia). nia. }
    lia.
Qed.

Definition ratio_pre (num den : Z) : Prop := 0 < den /\ (num = 0 -> den = 1).
(** RBig components are in lowest terms; Relaxed ones have no common factor two *)
Definition ratio_reduced (relaxed : bool) (num den : Z) : Prop :=
  if relaxed then num = 0 \/ Z.abs num mod 2 <> 0 \/ den mod 2 <> 0 else Z.gcd num den = 1.

Lemma reduced_not_both_even relaxed num den : ratio_pre num den -> ratio_reduced relaxed num den ->
  tz (Z.abs num) = 0 \/ tz den = 0.
Proof.
  intros [Hd H0] R. destruct relaxed; cbn [ratio_reduced] in R.
  - destruct R as [->|[R|R]]; [left; reflexivity | left; apply tz_odd; exact R | right; apply tz_odd; exact R].
  - destruct (Z.eq_dec (Z.abs num mod 2) 0) as [E1|E1]; [|left; apply tz_odd; exact E1].
    destruct (Z.eq_dec (den mod 2) 0) as [E2|E2]; [|right; apply tz_odd; exact E2].
    exfalso. apply Z.mod_divide in E1; [|lia]. apply Z.mod_divide in E2; [|lia].
    apply (proj1 (Z.divide_abs_r 2 num)) in E1. pose proof (Z.gcd_greatest num den 2 E1 E2) as G. rewrite R in G.
    destruct G as [q Hq]. lia.
Qed.

Lemma eval_small_or_bytes wbits s m : 0 <= m ->
  eval_ishape wbits (if blen m <=? 32 then IC32 s m else IBytes s (le_bytes m)) = Some (signed s m).
Proof.
  intros Hm. destruct (Z.leb_spec (blen m) 32) as [H|H]; cbn [eval_ishape].
  - pose proof (blen_lt m Hm). assert (2 ^ blen m <= 2 ^ 32) by (apply Z.pow_le_mono_r; lia).
    assert (E1 : (0 <=? m) = true) by (apply Z.leb_le; lia).
    assert (E2 : (m <? 2 ^ 32) = true) by (apply Z.ltb_lt; lia). rewrite E1, E2. reflexivity.
  - rewrite le_bytes_is_byte, le_bytes_value by assumption. reflexivity.
Qed.

Theorem gen_ratio_asis_correct wbits static_ relaxed num den :
  std_word wbits -> ratio_pre num den -> ratio_reduced relaxed num den ->
  eval_rshape wbits relaxed (gen_ratio_asis static_ num den) = Some (num, den).
Proof.
  intros Hw Hpre R. pose proof (reduced_not_both_even relaxed num den Hpre R) as Hev.
  destruct Hpre as [Hd H0]. unfold gen_ratio_asis.
  pose proof (signed_sign_abs num) as Hs. pose proof (Z.abs_nonneg num) as Ha.
  set (s := sign_of num) in *. set (m := Z.abs num) in *.
  assert (Hz : pow2_common m den = 0).
  { unfold pow2_common. pose proof (tz_nonneg m). pose proof (tz_nonneg den). lia. }
  destruct static_.
  - cbn [eval_rshape].
    rewrite (eval_words_quote wbits (le_bytes m) Hw (le_bytes_wf m) (le_bytes_top m Ha)).
    rewrite (eval_words_quote wbits (le_bytes den) Hw (le_bytes_wf den) (le_bytes_top den ltac:(lia))).
    rewrite !le_bytes_value by lia.
    assert (E : (0 <? tz m) && (0 <? tz den) = false).
    { destruct Hev as [E|E]; rewrite E; [reflexivity | apply andb_false_r]. }
    rewrite E, Hs. reflexivity.
  - destruct ((blen m <=? 32) && (blen den <=? 32)) eqn:E32.
    + apply andb_prop in E32. destruct E32 as [Em Ed]. apply Z.leb_le in Em. apply Z.leb_le in Ed.
      pose proof (blen_lt m Ha). pose proof (blen_lt den ltac:(lia)).
      assert (2 ^ blen m <= 2 ^ 32) by (apply Z.pow_le_mono_r; lia).
      assert (2 ^ blen den <= 2 ^ 32) by (apply Z.pow_le_mono_r; lia).
      cbn [eval_rshape].
      assert (E1 : (0 <=? m) = true) by (apply Z.leb_le; lia). assert (E2 : (m <? 2 ^ 32) = true) by (apply Z.ltb_lt; lia).
      assert (E3 : (0 <=? den) = true) by (apply Z.leb_le; lia). assert (E4 : (den <? 2 ^ 32) = true) by (apply Z.ltb_lt; lia).
      rewrite E1, E2, E3, E4. cbn [andb].
      destruct relaxed.
      * unfold relaxed_from_parts_const. destruct (Z.eqb_spec den 0); [lia|].
        destruct (Z.eqb_spec m 0) as [E0|E0].
        { assert (En : num = 0) by lia. rewrite (H0 En), En. reflexivity. }
        rewrite Hz, !Z.shiftr_0_r, Hs. reflexivity.
      * unfold rbig_from_parts_const. destruct (Z.eqb_spec den 0); [lia|].
        destruct (Z.eqb_spec m 0) as [E0|E0].
        { assert (En : num = 0) by lia. rewrite (H0 En), En. reflexivity. }
        destruct ((1 <? m) && (1 <? den)) eqn:E11; [|rewrite Hs; reflexivity].
        apply andb_prop in E11. destruct E11 as [Em1 Ed1]. apply Z.ltb_lt in Em1. apply Z.ltb_lt in Ed1.
        pose proof (Z.mod_pos_bound m den ltac:(lia)) as Hmod.
        destruct (naive_gcd_loop (Z.to_nat (2 * blen den + 2)) den (m mod den)) as [[y r]|] eqn:EL.
        2:{ exfalso. revert EL. apply naive_gcd_loop_fuel; [lia|].
            pose proof (blen_mono (m mod den) den ltac:(lia) ltac:(lia)). pose proof (blen_nonneg den).
            rewrite Z2Nat.id by lia. lia. }
        destruct (naive_gcd_loop_inv _ _ _ _ _ Hmod EL) as (G & Br & By).
        destruct (Z.eqb_spec r 0) as [Er|Er]; [|rewrite Hs; reflexivity].
        subst r. rewrite Z.gcd_0_r, (Z.abs_eq y) in G by lia.
        rewrite (Z.gcd_comm den (m mod den)), Z.gcd_mod, Z.gcd_comm in G by lia.
        cbn [ratio_reduced] in R. unfold m in G. rewrite Z.gcd_abs_l, R in G. subst y.
        rewrite !Z.div_1_r. fold m. rewrite Hs. reflexivity.
    + cbn [eval_rshape]. rewrite (eval_small_or_bytes wbits s m Ha), (eval_small_or_bytes wbits Positive den ltac:(lia)).
      replace (signed Positive den) with den by (unfold signed, sgnz; lia). rewrite Hs.
      destruct (Z.eqb_spec den 0); [lia|]. f_equal.
      destruct relaxed.
      * unfold reduce2. destruct (Z.eqb_spec num 0) as [E0|E0]; [rewrite (H0 E0), E0; reflexivity|].
        fold m. rewrite Hz. rewrite Z.pow_0_r, !Z.div_1_r. reflexivity.
      * unfold reduce. destruct (Z.eqb_spec num 0) as [E0|E0]; [rewrite (H0 E0), E0; reflexivity|].
        cbn [ratio_reduced] in R. rewrite R, !Z.div_1_r. reflexivity.
Qed.

Example gen_ratio_nonvacuous : ratio_pre (-22) 7 /\ ratio_reduced false (-22) 7 /\ ratio_reduced true 6 3.
Proof. split; [split; [lia | intros; lia] | split; [reflexivity | right; right; vm_compute; discriminate]]. Qed.

(** the components the macro computes are in the form the generator theorem asks for *)
Theorem ratio_parts_spec_reduced relaxed num den a c :
  ratio_parts_spec relaxed num den = Some (a, c) -> relaxed = false -> ratio_pre a c /\ ratio_reduced false a c.
Proof.
  unfold ratio_parts_spec. destruct (Z.eqb_spec den 0) as [E|E]; [discriminate|]. intros H ->.
  unfold reduce in H. set (n := num * Z.sgn den) in *. set (d := Z.abs den) in *.
  assert (Hd : 0 < d) by (unfold d; lia).
  destruct (Z.eqb_spec n 0) as [E0|E0]; inversion H; subst a c; clear H.
  - split; [split; [lia | reflexivity] | reflexivity].
  - pose proof (Z.gcd_nonneg n d) as Hg. assert (Z.gcd n d <> 0) by (intros G; apply Z.gcd_eq_0_r in G; lia).
    destruct (Z.gcd_divide_l n d) as [qa Hqa]. destruct (Z.gcd_divide_r n d) as [qc Hqc].
    set (g := Z.gcd n d) in *.
    assert (Ea : n / g = qa) by (rewrite Hqa at 1; apply Z.div_mul; lia).
    assert (Ec : d / g = qc) by (rewrite Hqc at 1; apply Z.div_mul; lia).
    rewrite Ea, Ec. split.
    + split; [nia | intros ->; lia].
    + cbn [ratio_reduced]. pose proof (Z.gcd_mul_mono_r_nonneg qa qc g ltac:(lia)) as M.
      rewrite <- Hqa, <- Hqc in M. fold g in M. pose proof (Z.gcd_nonneg qa qc). nia.
Qed.

(* ------------------------------------------------------------------------------------------ *)
(** * the byte strings of this file are C07's specification of to_le_bytes / from_le_bytes *)

Lemma to_words8_le_bytes_n n : forall v, to_words 8 n v = le_bytes_n n v.
Proof.
  induction n as [|n IH]; intros v; cbn [to_words le_bytes_n]; [reflexivity|].
  rewrite IH. unfold B. change (2 ^ 8) with 256. reflexivity.
Qed.

Theorem le_bytes_is_to_le_bytes_spec n : le_bytes n = to_le_bytes_spec n.
Proof. unfold le_bytes, to_le_bytes_spec, nbytes. apply to_words8_le_bytes_n. Qed.

Theorem value8_is_le_value bs : value 8 bs = le_value bs.
Proof.
  induction bs as [|b t IH]; cbn [value le_value]; [reflexivity|]. rewrite IH. unfold B. change (2 ^ 8) with 256. reflexivity.
Qed.

Theorem le_bytes_c07_spec n bs : le_bytes n = to_le_bytes_spec n /\ value 8 bs = le_value bs.
Proof. split; [apply le_bytes_is_to_le_bytes_spec | apply value8_is_le_value]. Qed.
