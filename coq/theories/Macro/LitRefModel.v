(** C20 (round 3) - the macros end to end, with the run-time parsers as they are modelled by their own
    properties: integers C07 (Int/IoModel.v from_str_radix_asis / from_str_prefix_asis, any word size w),
    floats C08 (Float/PartsConstModel.v fbig_from_str_asis = FBig::from_str), ratios C04
    (Ratio/RatArithModel.v from_parts_signed_asis / xfrom_parts_signed_asis, parse_asis / xparse_asis)
    and rational/src/parse.rs (the text level of the run-time ratio parser, transcribed here).
    `macro_*_asis`  = token loop -> run-time parser of the crate -> generator -> emitted constructor;
    `*_literal`     = the literal grammar and the value it denotes (what was written).
    Definitions only (proofs: LitRefProofs.v). *)
From Dashu Require Import Base.Prelude Base.Words Int.IoSpec Int.IoModel Float.Model Float.TextIoSpec Float.TextIoModel
  Float.PartsConstModel Ratio.RatArithModel Macro.LitModel.
Open Scope Z_scope.

Definition sign_of_neg (neg : bool) : sign := if neg then Negative else Positive.
Definition sign_text (neg : bool) : list Z := if neg then [45] else [].

(* ------------------------------------------------------------------------------------------ *)
(** * integers: ubig! ibig! static_ubig! static_ibig! (macros/src/parse/int.rs) *)

(** `UBig::from_str_radix(&val, b)` / `UBig::from_str_with_radix_prefix(&val)` as C07 models them *)
Definition macro_uint_asis (w : Z) (v : list Z) (b : option (list Z)) : option (Z * Z) :=
  match b with
  | Some bt =>
    match parse_u32 bt with
    | Some r => match from_str_radix_asis w false r v with Ok m => Some (m, r) | _ => None end
    | None => None
    end
  | None => match from_str_prefix_asis w false 10 v with Ok (m, r) => Some (m, r) | _ => None end
  end.

(** parse_integer: [w] = word size of the compiler's host (the parser runs at expansion time),
    [wbits] = word size of the target (selects the static array); [None] = compile error *)
Definition macro_int_asis (w wbits : Z) (signed_ static_ : bool) (ts : list token) : option Z :=
  match int_tokens_asis signed_ ts with
  | Some (neg, v, b) =>
    match macro_uint_asis w v b with
    | Some (m, _) => eval_ishape wbits (gen_int_asis static_ (sign_of_neg neg) m)
    | None => None
    end
  | None => None
  end.

(** the radix and the digit text of a value token: `v base N` -> (N, v); `v` -> radix prefix or 10.
    A leading `+` of the value text is skipped (UBig::from_str_radix does; no token starts with one) *)
Definition uint_text_split (v : list Z) (b : option (list Z)) : option (Z * list Z) :=
  let v' := snd (strip_sign false v) in
  match b with
  | Some bt => match parse_u32 bt with Some r => if radix_valid r then Some (r, v') else None | None => None end
  | None => Some (strip_radix_prefix 10 v')
  end.

(** the literal grammar of the integer macros and the number a literal denotes:
    tokens  [+|-]? value [`base` N]?   (int_tokens_spec), value = digits and `_` in the radix, at least one
    digit (C07 body_rel), the number = sign * positional value of the digits *)
Definition int_literal (signed_ : bool) (ts : list token) (z : Z) : Prop :=
  exists neg v b r body ds,
    int_tokens_spec signed_ ts = Some (neg, v, b) /\ uint_text_split v b = Some (r, body) /\
    body_rel r body ds /\ ds <> [] /\ z = signed (sign_of_neg neg) (digits_value r ds).

(** the text handed to the run-time parser in the comparison of the property: sign and value token *)
Definition int_runtime (w : Z) (signed_ : bool) (neg : bool) (v : list Z) (b : option (list Z)) : option Z :=
  match b with
  | Some bt =>
    match parse_u32 bt with
    | Some r => match from_str_radix_asis w signed_ r (sign_text neg ++ v) with Ok z => Some z | _ => None end
    | None => None
    end
  | None => match from_str_prefix_asis w signed_ 10 (sign_text neg ++ v) with Ok (z, _) => Some z | _ => None end
  end.

(** what every Literal / Ident token text looks like: not empty, no sign in front *)
Definition value_text_ok (v : list Z) : bool :=
  match v with c :: _ => negb ((c =? 43) || (c =? 45)) | [] => false end.

(* ------------------------------------------------------------------------------------------ *)
(** * floats: fbig! dbig! static_fbig! static_dbig! (macros/src/parse/float.rs) *)

(** parse_binary_float: concatenated token texts, own sign and `_` handling, FBig::<Zero, 2>::from_str,
    `assert!(signif.is_positive())` (zero is positive), then the generators *)
Definition macro_fbin_asis (wbits : Z) (static_ : bool) (ts : list token) : option (Z * Z * Z) :=
  match fbin_text_asis ts with
  | Some (s, body) =>
    match fbig_from_str_asis 2 body with
    | Ok (sig, e, p) => if 0 <=? sig then eval_fshape 2 wbits (gen_float_asis static_ s (Z.abs sig) e p) else None
    | _ => None
    end
  | None => None
  end.

(** parse_decimal_float: DBig::from_str of the concatenated token texts; the sign comes out of the parsed significand *)
Definition macro_fdec_asis (wbits : Z) (static_ : bool) (ts : list token) : option (Z * Z * Z) :=
  match fbig_from_str_asis 10 (join_tokens ts) with
  | Ok (sig, e, p) => eval_fshape 10 wbits (gen_float_asis static_ (sign_of sig) (Z.abs sig) e p)
  | _ => None
  end.

(** the literal grammar of the float macros: C08's grammar (TextIoSpec.parse_spec: value, exponent, number of
    written digits) on the text of the tokens; fbig! reads [+|-]? [_]? text without another sign *)
Definition fbin_literal (ts : list token) (r : Z * Z * Z) : Prop :=
  exists s body sig e p, fbin_text_spec ts = Some (s, body) /\ TextIoSpec.parse_spec 2 body = Some (sig, e, p) /\
    r = (signed s sig, e, p).
Definition fdec_literal (ts : list token) (r : Z * Z * Z) : Prop :=
  TextIoSpec.parse_spec 10 (join_tokens ts) = Some r.

(** the recorded classes, on the parsed literal *)
Definition Known_float (static_ : bool) (r : Z * Z * Z) : Prop :=
  let '(sig, _, p) := r in Known_static_precision static_ (Z.abs sig) p \/ Known_zero_precision (Z.abs sig) p.

(* ------------------------------------------------------------------------------------------ *)
(** * ratios: rbig! static_rbig! (macros/src/parse/ratio.rs) and the run-time parser rational/src/parse.rs *)

Definition opt_of {A} (r : result A) : option A := match r with Ok a => Some a | _ => None end.

(** the part of parse_ratio_with_error after the token loop: both parts by the unsigned integer parsers, in one
    radix, signs from the tokens, RBig::from_parts_signed / Relaxed::from_parts_signed *)
Definition macro_rat_parts_asis (w : Z) (o : rat_out) : option (bool * Z * Z) :=
  let '(rel, nneg, n, d, b) := o in
  let parts :=
    match b with
    | Some bt =>
      match parse_u32 bt with
      | Some r =>
        match from_str_radix_asis w false r n with
        | Ok nv =>
          match d with
          | Some (dneg, dt) => match from_str_radix_asis w false r dt with Ok dv => Some (nv, dneg, dv) | _ => None end
          | None => Some (nv, false, 1)
          end
        | _ => None
        end
      | None => None
      end
    | None =>
      match from_str_prefix_asis w false 10 n with
      | Ok (nv, nr) =>
        match d with
        | Some (dneg, dt) =>
          match from_str_prefix_asis w false nr dt with
          | Ok (dv, dr) => if nr =? dr then Some (nv, dneg, dv) else None
          | _ => None
          end
        | None => Some (nv, false, 1)
        end
      | _ => None
      end
    end in
  match parts with
  | Some (nv, dneg, dv) =>
    let num := signed (sign_of_neg nneg) nv in
    let den := signed (sign_of_neg dneg) dv in
    match (if rel then xfrom_parts_signed_asis num den else from_parts_signed_asis num den) with
    | Ok (a, c) => Some (rel, a, c)
    | _ => None
    end
  | None => None
  end.

Definition macro_rat_asis (w wbits : Z) (static_ : bool) (ts : list token) : option (bool * (Z * Z)) :=
  match rat_tokens_asis ts with
  | Some o =>
    match macro_rat_parts_asis w o with
    | Some (rel, a, c) =>
      match eval_rshape wbits rel (gen_ratio_asis static_ a c) with Some r => Some (rel, r) | None => None end
    | None => None
    end
  | None => None
  end.

(** `src.find('/')`: the text before the first slash and, if there is one, the text after it *)
Fixpoint split_slash (s : list Z) : list Z * option (list Z) :=
  match s with
  | [] => ([], None)
  | c :: t => if c =? 47 then ([], Some t) else let '(a, b) := split_slash t in (c :: a, b)
  end.

(** rational/src/parse.rs Repr::from_str_radix, then RBig: reduce / Relaxed: reduce2
    (C04 parse_asis / xparse_asis are exactly "zero denominator refused, sign moved, reduce") *)
Definition rat_from_str_radix_asis (w : Z) (relaxed : bool) (r : Z) (s : list Z) : option (Z * Z) :=
  let build n d := opt_of (if relaxed then xparse_asis n d else RatArithModel.parse_asis n d) in
  match split_slash s with
  | (a, Some b) =>
    match from_str_radix_asis w true r a with
    | Ok n => match from_str_radix_asis w true r b with Ok d => build n d | _ => None end
    | _ => None
    end
  | (a, None) => match from_str_radix_asis w true r a with Ok n => build n 1 | _ => None end
  end.

(** Repr::from_str_with_radix_prefix: the denominator defaults to the radix of the numerator, both must agree *)
Definition rat_from_str_prefix_asis (w : Z) (relaxed : bool) (s : list Z) : option (Z * Z) :=
  let build n d := opt_of (if relaxed then xparse_asis n d else RatArithModel.parse_asis n d) in
  match split_slash s with
  | (a, Some b) =>
    match from_str_prefix_asis w true 10 a with
    | Ok (n, nr) =>
      match from_str_prefix_asis w true nr b with
      | Ok (d, dr) => if nr =? dr then build n d else None
      | _ => None
      end
    | _ => None
    end
  | (a, None) => match from_str_prefix_asis w true 10 a with Ok (n, _) => build n 1 | _ => None end
  end.

(** the text of a fraction literal as the comparison hands it to the run-time parser *)
Definition rat_runtime_text (o : rat_out) : list Z :=
  let '(_, nneg, n, d, _) := o in
  sign_text nneg ++ n ++ match d with Some (dneg, dt) => 47 :: sign_text dneg ++ dt | None => [] end.

Definition rat_runtime (w : Z) (o : rat_out) : option (Z * Z) :=
  let '(rel, _, _, _, b) := o in
  match b with
  | Some bt => match parse_u32 bt with Some r => rat_from_str_radix_asis w rel r (rat_runtime_text o) | None => None end
  | None => rat_from_str_prefix_asis w rel (rat_runtime_text o)
  end.

(** token texts as a lexer produces them: no sign in front, no slash inside *)
Definition no_slash (v : list Z) : bool := forallb (fun c => negb (c =? 47)) v.
Definition rat_texts_ok (o : rat_out) : bool :=
  let '(_, _, n, d, _) := o in
  value_text_ok n && no_slash n && match d with Some (_, dt) => value_text_ok dt | None => true end.

(** the fraction a literal denotes: the digits of both parts in one radix, C07's grammar *)
Definition rat_literal (ts : list token) (relaxed : bool) (num den : Z) : Prop :=
  exists nneg n d b r nbody nds,
    rat_tokens_spec ts = Some (relaxed, nneg, n, d, b) /\
    uint_text_split n b = Some (r, nbody) /\ body_rel r nbody nds /\ nds <> [] /\
    num = signed (sign_of_neg nneg) (digits_value r nds) /\
    match d with
    | None => den = 1
    | Some (dneg, dt) =>
      exists dbody dds,
        (match b with
         | Some _ => uint_text_split dt b = Some (r, dbody)
         | None => strip_radix_prefix r (snd (strip_sign false dt)) = (r, dbody)
         end) /\ body_rel r dbody dds /\ dds <> [] /\ den = signed (sign_of_neg dneg) (digits_value r dds)
    end.
