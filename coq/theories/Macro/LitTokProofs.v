(** C20 - the token loops of the literal macros read every literal of the grammar as the grammar does;
    the deviations (token sequences outside the grammar that compile to numbers) are exhibited. *)
From Dashu Require Import Base.Prelude Base.Words Int.IoSpec Macro.LitModel.
Open Scope Z_scope.

Lemma text_eqb_eq a : forall b, text_eqb a b = true -> a = b.
Proof.
  induction a as [|x a IH]; intros [|y b] H; cbn [text_eqb] in H; try discriminate; [reflexivity|].
  apply andb_prop in H. destruct H as [H1 H2]. apply Z.eqb_eq in H1. subst y. f_equal. apply IH. exact H2.
Qed.

Lemma text_eqb_refl a : text_eqb a a = true.
Proof. induction a as [|x a IH]; cbn [text_eqb]; [reflexivity|]. rewrite Z.eqb_refl, IH. reflexivity. Qed.

Lemma punct_inv t c : is_punct_char t c = true -> t = mk_tok TPunct [c].
Proof.
  destruct t as [k x]. unfold is_punct_char, is_char. cbn [tk ttext]. destruct k; try discriminate.
  intros H. apply text_eqb_eq in H. subst x. reflexivity.
Qed.

Lemma base_inv t : is_base_tok t = true -> t = mk_tok TIdent t_base.
Proof.
  destruct t as [k x]. unfold is_base_tok. cbn [tk ttext]. destruct k; try discriminate.
  intros H. apply text_eqb_eq in H. subst x. reflexivity.
Qed.

Lemma value_inv t : is_value_tok t = true -> t = mk_tok TLit (ttext t) \/ t = mk_tok TIdent (ttext t).
Proof. destruct t as [k x]. unfold is_value_tok. cbn [tk ttext]. destruct k; try discriminate; auto. Qed.

Lemma lit_inv t : is_lit_tok t = true -> t = mk_tok TLit (ttext t).
Proof. destruct t as [k x]. unfold is_lit_tok. cbn [tk ttext]. destruct k; try discriminate; auto. Qed.

Lemma sign_inv t : is_sign_tok t = true -> t = mk_tok TPunct [45] \/ t = mk_tok TPunct [43].
Proof.
  unfold is_sign_tok. intros H. apply orb_prop in H. destruct H as [H|H]; apply punct_inv in H; auto.
Qed.

(* ------------------------------------------------------------------------------------------ *)
(** * integers *)

(** the body  value [`base` N]?  read by the loop from a state without a value *)
Lemma int_body_loop signed_ neg sg ts v b : int_body_spec ts = Some (v, b) ->
  match int_loop signed_ (mk_ist None neg sg false None) ts with
  | Some st => i_val st = Some v /\ i_neg st = neg /\ i_base st = b /\ (b = None -> i_marked st = false)
  | None => False
  end.
Proof.
  unfold int_body_spec. destruct ts as [|t1 [|t2 [|t3 [|t4 r]]]]; try discriminate.
  - destruct (is_value_tok t1) eqn:E1; [|discriminate]. intros H. inversion H; subst v b; clear H.
    destruct (value_inv t1 E1) as [-> | ->]; cbn; auto.
  - destruct (is_value_tok t1) eqn:E1; [|discriminate]. destruct (is_base_tok t2) eqn:E2; [|discriminate].
    destruct (is_lit_tok t3) eqn:E3; [|discriminate]. cbn [andb]. intros H. inversion H; subst v b; clear H.
    rewrite (base_inv t2 E2). rewrite (lit_inv t3 E3).
    destruct (value_inv t1 E1) as [-> | ->]; cbn; repeat split; auto; discriminate.
Qed.

(** every literal of the grammar is accepted by the loop with the reading the grammar gives it *)
Theorem int_tokens_spec_sound signed_ ts r :
  int_tokens_spec signed_ ts = Some r -> int_tokens_asis signed_ ts = Some r.
Proof.
  unfold int_tokens_spec, int_tokens_asis, ist0. destruct ts as [|t ts]; [discriminate|].
  assert (W : forall neg sg body,
    match int_body_spec body with Some (v, b) => Some (neg, v, b) | None => None end = Some r ->
    match int_loop signed_ (mk_ist None neg sg false None) body with
    | Some st =>
        match i_val st with
        | Some v => match i_base st with
                    | Some b => Some (i_neg st, v, Some b)
                    | None => if i_marked st then None else Some (i_neg st, v, None)
                    end
        | None => None
        end
    | None => None
    end = Some r).
  { intros neg sg body H. destruct (int_body_spec body) as [[v b]|] eqn:E; [|discriminate].
    pose proof (int_body_loop signed_ neg sg body v b E) as L.
    destruct (int_loop signed_ (mk_ist None neg sg false None) body) as [st|]; [|contradiction].
    destruct L as (L1 & L2 & L3 & L4). rewrite L1, L2, L3. destruct b; [exact H|]. rewrite (L4 eq_refl). exact H. }
  destruct (is_punct_char t 45) eqn:E45.
  - rewrite (punct_inv t 45 E45). destruct signed_; [|discriminate]. intros H.
    cbn [int_loop int_step tk ttext is_char text_eqb Z.eqb Pos.eqb andb negb i_val i_sign].
    apply W. exact H.
  - destruct (is_punct_char t 43) eqn:E43.
    + rewrite (punct_inv t 43 E43). destruct signed_; [|discriminate]. intros H.
      cbn [int_loop int_step tk ttext is_char text_eqb Z.eqb Pos.eqb andb negb i_val i_sign].
      apply W. exact H.
    + intros H. apply W. exact H.
Qed.

(** the converse: the loop accepts nothing else.  Every accepted token moves the loop to a later
    phase (sign, digits, `base`, radix), so an accepted literal has at most four tokens. *)
Definition int_phase (st : ist) : nat :=
  match i_val st, i_base st with
  | None, _ => if i_sign st then 1 else 0
  | Some _, None => if i_marked st then 3 else 2
  | Some _, Some _ => 4
  end.

Lemma int_step_phase signed_ st t st' : int_step signed_ st t = Some st' -> (int_phase st < int_phase st' <= 4)%nat.
Proof.
  destruct st as [v n sg m b]. destruct t as [k x]. unfold int_step, int_phase, is_char. cbn [tk ttext i_val i_neg i_sign i_marked i_base].
  destruct k, v, b, m, sg, signed_; cbn [negb andb];
    repeat match goal with |- context [text_eqb ?a ?c] => destruct (text_eqb a c) end;
    intros H; inversion H; cbn; lia.
Qed.

Lemma int_loop_phase signed_ ts : forall st st', int_loop signed_ st ts = Some st' ->
  (int_phase st + length ts <= int_phase st' <= 4)%nat.
Proof.
  induction ts as [|t ts IH]; intros st st' H; cbn [int_loop] in H.
  - inversion H; subst. cbn [length]. destruct st' as [v n sg m b]. unfold int_phase. cbn. destruct v, b, m, sg; lia.
  - destruct (int_step signed_ st t) as [st1|] eqn:E; [|discriminate].
    pose proof (int_step_phase _ _ _ _ E). pose proof (IH _ _ H). cbn [length]. lia.
Qed.

(** an accepted integer literal has at most four tokens (sign, digits, `base`, radix) *)
Theorem int_tokens_asis_length signed_ ts r : int_tokens_asis signed_ ts = Some r -> (length ts <= 4)%nat.
Proof.
  unfold int_tokens_asis. destruct (int_loop signed_ ist0 ts) as [st|] eqn:L; [|discriminate].
  pose proof (int_loop_phase _ _ _ _ L) as P. change (int_phase ist0) with 0%nat in P. intros _. lia.
Qed.

Example int_tokens_spec_nonvacuous :
  int_tokens_spec true [mk_tok TPunct [45]; mk_tok TIdent [97; 51]; mk_tok TIdent t_base; mk_tok TLit [51; 50]]
  = Some (true, [97; 51], Some [51; 50]).
Proof. reflexivity. Qed.

(** F03 (repaired): repeated signs and a repeated `base` are refused *)
Example int_repeated_sign_rejected :
  int_tokens_asis true [mk_tok TPunct [45]; mk_tok TPunct [45]; mk_tok TLit [53]] = None /\
  int_tokens_asis true [mk_tok TPunct [45]; mk_tok TPunct [43]; mk_tok TLit [53]] = None /\
  int_tokens_asis false [mk_tok TLit [53]; mk_tok TIdent t_base; mk_tok TIdent t_base; mk_tok TLit [49; 48]] = None.
Proof. repeat split; reflexivity. Qed.

(* ------------------------------------------------------------------------------------------ *)
(** * ratios *)

Lemma rat_tail_loop n nneg ns d dneg ds dmark rel tail b : rat_tail_spec tail = Some b ->
  rat_loop (mk_rst (Some n) nneg ns (Some d) dneg ds dmark rel false None) tail =
  Some (mk_rst (Some n) nneg ns (Some d) dneg ds dmark rel (match b with Some _ => true | None => false end) b).
Proof.
  unfold rat_tail_spec. destruct tail as [|t1 [|t2 [|t3 r]]]; try discriminate.
  - intros H. inversion H. reflexivity.
  - destruct (is_base_tok t1) eqn:E1; [|discriminate]. destruct (is_lit_tok t2) eqn:E2; [|discriminate].
    cbn [andb]. intros H. inversion H; subst b. rewrite (base_inv _ E1), (lit_inv _ E2). reflexivity.
Qed.

Ltac step_loop := cbn [rat_loop rat_step tk ttext is_char is_punct_char text_eqb Z.eqb Pos.eqb andb negb].

Lemma rat_rest_loop rel nneg ns nt rest r : rat_rest_spec rel nneg nt rest = Some r ->
  match rat_loop (mk_rst (Some nt) nneg ns None false false false rel false None) rest with
  | Some st => rat_finish st = Some r
  | None => False
  end.
Proof.
  unfold rat_rest_spec. destruct rest as [|s rest'].
  - intros H. inversion H. reflexivity.
  - destruct (is_punct_char s 47) eqn:E47; [|discriminate]. rewrite (punct_inv _ _ E47). clear E47 s.
    assert (W : forall dneg ds d tail b, is_value_tok d = true -> rat_tail_spec tail = Some b ->
      match rat_loop (mk_rst (Some nt) nneg ns None dneg ds true rel false None) (d :: tail) with
      | Some st => rat_finish st = Some (rel, nneg, nt, Some (dneg, ttext d), b)
      | None => False
      end).
    { intros dneg ds d tail b Hv Ht. destruct (value_inv d Hv) as [E|E]; rewrite E; step_loop;
        rewrite (rat_tail_loop _ _ _ _ _ _ _ _ _ _ Ht); destruct b; reflexivity. }
    destruct rest' as [|t2 r2]; cbn [strip_one]; [discriminate|].
    destruct (is_sign_tok t2) eqn:S2.
    + destruct r2 as [|d tail]; [discriminate|]. destruct (is_value_tok d) eqn:Vd; [|discriminate].
      destruct (rat_tail_spec tail) as [b|] eqn:Tl; [|discriminate].
      destruct (sign_inv _ S2) as [E|E]; rewrite E; intros H; inversion H; subst r; clear H;
        [apply (W true true d tail b Vd Tl) | apply (W false true d tail b Vd Tl)].
    + destruct (is_value_tok t2) eqn:Vd; [|discriminate].
      destruct (rat_tail_spec r2) as [b|] eqn:Tl; [|discriminate].
      intros H; inversion H; subst r; clear H. apply (W false false t2 r2 b Vd Tl).
Qed.

Ltac stage H :=
  match type of H with
  | context [strip_one ?f []] => cbn [strip_one] in H
  | context [strip_one ?f (?x :: ?l)] => cbn [strip_one] in H; destruct (f x) eqn:?
  | context [strip_one ?f ?l] => destruct l as [|? ?]
  end.

Ltac inv_toks := repeat match goal with
  | E : is_punct_char ?x _ = true |- _ => apply punct_inv in E; subst x
  | E : is_sign_tok ?x = true |- _ => apply sign_inv in E; destruct E; subst x
  end.

(** every fraction literal of the grammar is accepted by the loop with the grammar's reading *)
Theorem rat_tokens_spec_sound ts r : rat_tokens_spec ts = Some r -> rat_tokens_asis ts = Some r.
Proof.
  unfold rat_tokens_spec, rat_tokens_asis, rst0. intros H.
  repeat stage H; inv_toks;
    cbn [is_punct_char tk ttext is_char text_eqb Z.eqb Pos.eqb andb] in H; try discriminate;
    try (match type of H with
         | context [match ?l with [] => _ | _ :: _ => _ end] => is_var l; destruct l as [|? ?]; [discriminate|]
         end);
    match type of H with
    | context [is_value_tok ?n] =>
      destruct (is_value_tok n) eqn:Vn; [|discriminate];
      destruct (value_inv n Vn) as [E|E]; rewrite E; step_loop; rewrite <- ?E;
      match goal with
      | |- context [rat_loop (mk_rst _ _ ?ns _ _ _ _ _ _ _) _] => pose proof (rat_rest_loop _ _ ns _ _ _ H) as H1
      end;
      match type of H1 with match ?x with _ => _ end => destruct x; [exact H1 | contradiction] end
    end.
Qed.

Example rat_tokens_spec_nonvacuous :
  rat_tokens_spec [mk_tok TPunct [126]; mk_tok TPunct [45]; mk_tok TLit [49]; mk_tok TPunct [47]; mk_tok TLit [49; 51]]
  = Some (true, true, [49], Some (false, [49; 51]), None).
Proof. reflexivity. Qed.

(** every accepted token sets one more of the eight marks of the loop (relaxed, sign, numerator, slash,
    sign, denominator, `base`, radix) and none is ever reset: an accepted fraction has at most eight tokens *)
Definition b2n (b : bool) : nat := if b then 1 else 0.
Definition o2n {A} (o : option A) : nat := match o with Some _ => 1 | None => 0 end.
Definition rat_phase (st : rst) : nat :=
  o2n (r_num st) + o2n (r_den st) + o2n (r_base st) + b2n (r_nsign st) + b2n (r_dsign st) +
  b2n (r_dmark st) + b2n (r_relaxed st) + b2n (r_bmark st).

Lemma rat_step_phase st t st' : rat_step st t = Some st' -> (rat_phase st < rat_phase st' <= 8)%nat.
Proof.
  destruct st as [num nneg ns den dneg ds dmark rel bmark base]. destruct t as [k x].
  unfold rat_step, rat_phase, is_char, b2n, o2n. cbn [tk ttext r_num r_den r_base r_relaxed r_nsign r_dmark r_dsign r_bmark].
  destruct k, num, den, base, dmark, rel, bmark, ns, ds; cbn [negb andb];
    repeat match goal with |- context [text_eqb ?a ?c] => destruct (text_eqb a c) end;
    intros H; inversion H; cbn; lia.
Qed.

Lemma rat_phase_le st : (rat_phase st <= 8)%nat.
Proof. destruct st as [num nneg ns den dneg ds dmark rel bmark base]. unfold rat_phase, b2n, o2n. cbn. destruct num, den, base, ns, ds, dmark, rel, bmark; lia. Qed.

Theorem rat_loop_phase ts : forall st st', rat_loop st ts = Some st' -> (rat_phase st + length ts <= rat_phase st' <= 8)%nat.
Proof.
  induction ts as [|t ts IH]; intros st st' H; cbn [rat_loop] in H.
  - inversion H; subst. cbn [length]. pose proof (rat_phase_le st'). lia.
  - destruct (rat_step st t) as [st1|] eqn:E; [|discriminate].
    pose proof (rat_step_phase _ _ _ E). pose proof (IH _ _ H). cbn [length]. lia.
Qed.

Theorem rat_tokens_asis_length ts r : rat_tokens_asis ts = Some r -> (length ts <= 8)%nat.
Proof.
  unfold rat_tokens_asis. destruct (rat_loop rst0 ts) as [st|] eqn:L; [|discriminate].
  pose proof (rat_loop_phase _ _ _ L) as P. change (rat_phase rst0) with 0%nat in P. intros _. lia.
Qed.

(** F04 (repaired): a fraction without a slash, a dangling or leading slash, repeated signs and ~ are refused *)
Example rat_outside_grammar_rejected :
  rat_tokens_asis [mk_tok TLit [49]; mk_tok TLit [50]] = None /\
  rat_tokens_asis [mk_tok TLit [49]; mk_tok TPunct [47]] = None /\
  rat_tokens_asis [mk_tok TPunct [47]; mk_tok TLit [50]] = None /\
  rat_tokens_asis [mk_tok TPunct [45]; mk_tok TPunct [45]; mk_tok TLit [49]; mk_tok TPunct [47]; mk_tok TLit [50]] = None /\
  rat_tokens_asis [mk_tok TPunct [126]; mk_tok TPunct [126]; mk_tok TLit [49]] = None /\
  rat_tokens_asis [mk_tok TLit [49]; mk_tok TPunct [45]; mk_tok TPunct [47]; mk_tok TLit [50]] = None.
Proof. repeat split; reflexivity. Qed.

(* ------------------------------------------------------------------------------------------ *)
(** * binary floats: the sign handling of fbig! *)

Theorem fbin_text_asis_spec ts : fbin_text_asis ts = fbin_text_spec ts.
Proof.
  unfold fbin_text_asis, fbin_text_spec, fbin_text_split. destruct (join_tokens ts) as [|c t]; [reflexivity|].
  destruct c as [|p|p]; try reflexivity.
  do 7 (destruct p as [p|p|]; try reflexivity).
Qed.

(** F05 (repaired): fbig!(-+1) is refused *)
Example fbin_double_sign_rejected :
  fbin_text_asis [mk_tok TPunct [45]; mk_tok TPunct [43]; mk_tok TLit [49]] = None /\
  fbin_text_asis [mk_tok TPunct [45]; mk_tok TIdent [95; 48; 120; 49]] = Some (Negative, [48; 120; 49]).
Proof. split; reflexivity. Qed.
