(** C20 - the token loops of the literal macros read every literal of the grammar as the grammar does;
    the deviations (token sequences outside the grammar that compile to numbers) are exhibited. *)
From Dashu Require Import Base.Prelude Base.Words Int.IoSpec Macro.LitModel.
Open Scope Z_scope.

Lemma text_eqb_eq a : forall b, text_eqb a b = true -> a = b.
Proof.
  induction a as [|x a IH]; intros [|y b] H; cbn [text_eqb] in H; try discriminate; [reflexivity|].
  apply andb_prop in H. destruct H as [H1 H2]. apply Z.eqb_eq in H1. subst y. f_equal. apply IH. exact H2.
Qed.

Lemma text_eqb_refl a : text_eqb a a = true.
Proof. induction a as [|x a IH]; cbn [text_eqb]; [reflexivity|]. rewrite Z.eqb_refl, IH. reflexivity. Qed.

Lemma punct_inv t c : is_punct_char t c = true -> t = mk_tok TPunct [c].
Proof.
  destruct t as [k x]. unfold is_punct_char, is_char. cbn [tk ttext]. destruct k; try discriminate.
  intros H. apply text_eqb_eq in H. subst x. reflexivity.
Qed.

Lemma base_inv t : is_base_tok t = true -> t = mk_tok TIdent t_base.
Proof.
  destruct t as [k x]. unfold is_base_tok. cbn [tk ttext]. destruct k; try discriminate.
  intros H. apply text_eqb_eq in H. subst x. reflexivity.
Qed.

Lemma value_inv t : is_value_tok t = true -> t = mk_tok TLit (ttext t) \/ t = mk_tok TIdent (ttext t).
Proof. destruct t as [k x]. unfold is_value_tok. cbn [tk ttext]. destruct k; try discriminate; auto. Qed.

Lemma lit_inv t : is_lit_tok t = true -> t = mk_tok TLit (ttext t).
Proof. destruct t as [k x]. unfold is_lit_tok. cbn [tk ttext]. destruct k; try discriminate; auto. Qed.

Lemma sign_inv t : is_sign_tok t = true -> t = mk_tok TPunct [45] \/ t = mk_tok TPunct [43].
Proof.
  unfold is_sign_tok. intros H. apply orb_prop in H. destruct H as [H|H]; apply punct_inv in H; auto.
Qed.

(* ------------------------------------------------------------------------------------------ *)
(** * integers *)

(** the body  value [`base` N]?  read by the loop from a state without a value *)
Lemma int_body_loop signed_ neg sg ts v b : int_body_spec ts = Some (v, b) ->
  match int_loop signed_ (mk_ist None neg sg false None) ts with
  | Some st => i_val st = Some v /\ i_neg st = neg /\ i_base st = b /\ (b = None -> i_marked st = false)
  | None => False
  end.
Proof.
  unfold int_body_spec. destruct ts as [|t1 [|t2 [|t3 [|t4 r]]]]; try discriminate.
  - destruct (is_value_tok t1) eqn:E1; [|discriminate]. intros H. inversion H; subst v b; clear H.
    destruct (value_inv t1 E1) as [-> | ->]; cbn; auto.
  - destruct (is_value_tok t1) eqn:E1; [|discriminate]. destruct (is_base_tok t2) eqn:E2; [|discriminate].
    destruct (is_lit_tok t3) eqn:E3; [|discriminate]. cbn [andb]. intros H. inversion H; subst v b; clear H.
    rewrite (base_inv t2 E2). rewrite (lit_inv t3 E3).
    destruct (value_inv t1 E1) as [-> | ->]; cbn; repeat split; auto; discriminate.
Qed.

(** every literal of the grammar is accepted by the loop with the reading the grammar gives it *)
Theorem int_tokens_spec_sound signed_ ts r :
  int_tokens_spec signed_ ts = Some r -> int_tokens_asis signed_ ts = Some r.
Proof.
  unfold int_tokens_spec, int_tokens_asis, ist0. destruct ts as [|t ts]; [discriminate|].
  assert (W : forall neg sg body,
    match int_body_spec body with Some (v, b) => Some (neg, v, b) | None => None end = Some r ->
    match int_loop signed_ (mk_ist None neg sg false None) body with
    | Some st =>
        match i_val st with
        | Some v => match i_base st with
                    | Some b => Some (i_neg st, v, Some b)
                    | None => if i_marked st then None else Some (i_neg st, v, None)
                    end
        | None => None
        end
    | None => None
    end = Some r).
  { intros neg sg body H. destruct (int_body_spec body) as [[v b]|] eqn:E; [|discriminate].
    pose proof (int_body_loop signed_ neg sg body v b E) as L.
    destruct (int_loop signed_ (mk_ist None neg sg false None) body) as [st|]; [|contradiction].
    destruct L as (L1 & L2 & L3 & L4). rewrite L1, L2, L3. destruct b; [exact H|]. rewrite (L4 eq_refl). exact H. }
  destruct (is_punct_char t 45) eqn:E45.
  - rewrite (punct_inv t 45 E45). destruct signed_; [|discriminate]. intros H.
    cbn [int_loop int_step tk ttext is_char text_eqb Z.eqb Pos.eqb andb negb i_val i_sign].
    apply W. exact H.
  - destruct (is_punct_char t 43) eqn:E43.
    + rewrite (punct_inv t 43 E43). destruct signed_; [|discriminate]. intros H.
      cbn [int_loop int_step tk ttext is_char text_eqb Z.eqb Pos.eqb andb negb i_val i_sign].
      apply W. exact H.
    + intros H. apply W. exact H.
Qed.

(** the converse: the loop accepts nothing else.  Every accepted token moves the loop to a later
    phase (sign, digits, `base`, radix), so an accepted literal has at most four tokens. *)
Definition int_phase (st : ist) : nat :=
  match i_val st, i_base st with
  | None, _ => if i_sign st then 1 else 0
  | Some _, None => if i_marked st then 3 else 2
  | Some _, Some _ => 4
  end.

Lemma int_step_phase signed_ st t st' : int_step signed_ st t = Some st' -> (int_phase st < int_phase st' <= 4)%nat.
Proof.
  destruct st as [v n sg m b]. destruct t as [k x]. unfold int_step, int_phase, is_char. cbn [tk ttext i_val i_neg i_sign i_marked i_base].
  destruct k, v, b, m, sg, signed_; cbn [negb andb];
    repeat match goal with |- context [text_eqb ?a ?c] => destruct (text_eqb a c) end;
    intros H; inversion H; cbn; lia.
Qed.

Lemma int_loop_phase signed_ ts : forall st st', int_loop signed_ st ts = Some st' ->
  (int_phase st + length ts <= int_phase st' <= 4)%nat.
Proof.
  induction ts as [|t ts IH]; intros st st' H; cbn [int_loop] in H.
  - inversion H; subst. cbn [length]. destruct st' as [v n sg m b]. unfold int_phase. cbn. destruct v, b, m, sg; lia.
  - destruct (int_step signed_ st t) as [st1|] eqn:E; [|discriminate].
    pose proof (int_step_phase _ _ _ _ E). pose proof (IH _ _ H). cbn [length]. lia.
Qed.

(** an accepted integer literal has at most four tokens (sign, digits, `base`, radix) *)
Theorem int_tokens_asis_length signed_ ts r : int_tokens_asis signed_ ts = Some r -> (length ts <= 4)%nat.
Proof.
  unfold int_tokens_asis. destruct (int_loop signed_ ist0 ts) as [st|] eqn:L; [|discriminate].
  pose proof (int_loop_phase _ _ _ _ L) as P. change (int_phase ist0) with 0%nat in P. intros _. lia.
Qed.

(** the converse: the loop accepts nothing but the grammar.  One inversion lemma per state of the loop. *)
Lemma int_step_noval signed_ neg sg m b t st' : int_step signed_ (mk_ist None neg sg m b) t = Some st' ->
  (is_value_tok t = true /\ st' = mk_ist (Some (ttext t)) neg sg m b) \/
  (sg = false /\ signed_ = true /\ is_punct_char t 45 = true /\ st' = mk_ist None true true m b) \/
  (sg = false /\ signed_ = true /\ is_punct_char t 45 = false /\ is_punct_char t 43 = true /\ st' = mk_ist None neg true m b).
Proof.
  destruct t as [k x]. unfold int_step, is_value_tok, is_punct_char, is_char. cbn [tk ttext i_val i_neg i_sign i_marked i_base].
  destruct k; try discriminate.
  - intros H. inversion H. left. auto.
  - intros H. inversion H. left. auto.
  - destruct sg; cbn [negb andb]; [discriminate|]. destruct (text_eqb x [45]).
    + destruct signed_; [|discriminate]. intros H. inversion H. right. left. auto.
    + destruct (text_eqb x [43]); [|discriminate]. destruct signed_; [|discriminate]. intros H. inversion H. right. right. auto.
Qed.

Lemma int_step_val signed_ v neg sg t st' : int_step signed_ (mk_ist (Some v) neg sg false None) t = Some st' ->
  is_base_tok t = true /\ st' = mk_ist (Some v) neg sg true None.
Proof.
  destruct t as [k x]. unfold int_step, is_base_tok. cbn [tk ttext i_val i_neg i_sign i_marked i_base negb andb].
  destruct k; try discriminate. destruct (text_eqb x t_base); [|discriminate]. intros H. inversion H. auto.
Qed.

Lemma int_step_marked signed_ v neg sg t st' : int_step signed_ (mk_ist (Some v) neg sg true None) t = Some st' ->
  is_lit_tok t = true /\ st' = mk_ist (Some v) neg sg true (Some (ttext t)).
Proof.
  destruct t as [k x]. unfold int_step, is_lit_tok. cbn [tk ttext i_val i_neg i_sign i_marked i_base negb andb].
  destruct k; try discriminate. intros H. inversion H. auto.
Qed.

Lemma int_step_done signed_ v neg sg m b t : int_step signed_ (mk_ist (Some v) neg sg m (Some b)) t = None.
Proof. destruct t as [k x]. unfold int_step. cbn [tk ttext i_val i_base]. destruct k; reflexivity. Qed.

Definition int_finish (st : ist) : option (bool * list Z * option (list Z)) :=
  match i_val st with
  | None => None
  | Some v => match i_base st with
              | Some b => Some (i_neg st, v, Some b)
              | None => if i_marked st then None else Some (i_neg st, v, None)
              end
  end.

(** from the digits on *)
Lemma int_body_complete signed_ neg sg body st' r :
  match body with t :: _ => is_value_tok t = true | [] => True end ->
  int_loop signed_ (mk_ist None neg sg false None) body = Some st' -> int_finish st' = Some r ->
  match int_body_spec body with Some (v, b) => Some (neg, v, b) | None => None end = Some r.
Proof.
  intros Hv L F. destruct body as [|t1 rest].
  - cbn [int_loop] in L. inversion L; subst st'. discriminate.
  - cbn [int_loop] in L. destruct (int_step signed_ (mk_ist None neg sg false None) t1) as [s1|] eqn:E1; [|discriminate].
    destruct (int_step_noval _ _ _ _ _ _ _ E1) as [[V1 ->]|[(_ & _ & P & _)|(_ & _ & _ & P & _)]].
    2,3: (apply punct_inv in P; subst t1; discriminate).
    destruct rest as [|t2 rest].
    + cbn [int_loop] in L. inversion L; subst st'. cbn in F. unfold int_body_spec. rewrite V1. exact F.
    + cbn [int_loop] in L. destruct (int_step signed_ (mk_ist (Some (ttext t1)) neg sg false None) t2) as [s2|] eqn:E2; [|discriminate].
      destruct (int_step_val _ _ _ _ _ _ E2) as [B2 ->].
      destruct rest as [|t3 rest].
      * cbn [int_loop] in L. inversion L; subst st'. discriminate.
      * cbn [int_loop] in L. destruct (int_step signed_ (mk_ist (Some (ttext t1)) neg sg true None) t3) as [s3|] eqn:E3; [|discriminate].
        destruct (int_step_marked _ _ _ _ _ _ E3) as [L3 ->].
        destruct rest as [|t4 rest].
        -- cbn [int_loop] in L. inversion L; subst st'. cbn in F. unfold int_body_spec. rewrite V1, B2, L3. exact F.
        -- cbn [int_loop] in L. rewrite int_step_done in L. discriminate.
Qed.

Theorem int_tokens_asis_complete signed_ ts r :
  int_tokens_asis signed_ ts = Some r -> int_tokens_spec signed_ ts = Some r.
Proof.
  change (int_tokens_asis signed_ ts) with (match int_loop signed_ ist0 ts with Some st => int_finish st | None => None end).
  destruct (int_loop signed_ ist0 ts) as [st|] eqn:L; [|discriminate]. intros F. unfold ist0 in L.
  destruct ts as [|t rest].
  - cbn [int_loop] in L. inversion L; subst st. discriminate.
  - unfold int_tokens_spec. cbn [int_loop] in L.
    destruct (int_step signed_ (mk_ist None false false false None) t) as [s1|] eqn:E1; [|discriminate].
    destruct (int_step_noval _ _ _ _ _ _ _ E1) as [[V1 E]|[(_ & Sg & P & E)|(_ & Sg & P45 & P & E)]]; subst s1.
    + (* no sign: the first token is the digits *)
      assert (N45 : is_punct_char t 45 = false) by (destruct t as [[] x]; cbn in V1 |- *; try discriminate; reflexivity).
      assert (N43 : is_punct_char t 43 = false) by (destruct t as [[] x]; cbn in V1 |- *; try discriminate; reflexivity).
      rewrite N45, N43. apply (int_body_complete signed_ false false (t :: rest) st r V1); [|exact F].
      cbn [int_loop]. rewrite E1. exact L.
    + rewrite P, Sg. destruct rest as [|t2 rest2].
      * cbn [int_loop] in L. inversion L; subst st. discriminate.
      * assert (V2 : is_value_tok t2 = true).
        { cbn [int_loop] in L. destruct (int_step signed_ (mk_ist None true true false None) t2) as [s2|] eqn:E2; [|discriminate].
          destruct (int_step_noval _ _ _ _ _ _ _ E2) as [[V _]|[(A & _)|(A & _)]]; [exact V | discriminate | discriminate]. }
        apply (int_body_complete signed_ true true (t2 :: rest2) st r V2 L F).
    + rewrite P45, P, Sg. destruct rest as [|t2 rest2].
      * cbn [int_loop] in L. inversion L; subst st. discriminate.
      * assert (V2 : is_value_tok t2 = true).
        { cbn [int_loop] in L. destruct (int_step signed_ (mk_ist None false true false None) t2) as [s2|] eqn:E2; [|discriminate].
          destruct (int_step_noval _ _ _ _ _ _ _ E2) as [[V _]|[(A & _)|(A & _)]]; [exact V | discriminate | discriminate]. }
        apply (int_body_complete signed_ false true (t2 :: rest2) st r V2 L F).
Qed.

(** the repaired loop of parse_integer_with_error accepts exactly the literal grammar *)
Theorem int_tokens_asis_eq_spec signed_ ts : int_tokens_asis signed_ ts = int_tokens_spec signed_ ts.
Proof.
  destruct (int_tokens_asis signed_ ts) as [r|] eqn:A.
  - symmetry. apply int_tokens_asis_complete. exact A.
  - destruct (int_tokens_spec signed_ ts) as [r|] eqn:S; [|reflexivity].
    apply int_tokens_spec_sound in S. congruence.
Qed.

Example int_tokens_spec_nonvacuous :
  int_tokens_spec true [mk_tok TPunct [45]; mk_tok TIdent [97; 51]; mk_tok TIdent t_base; mk_tok TLit [51; 50]]
  = Some (true, [97; 51], Some [51; 50]).
Proof. reflexivity. Qed.

(** F03 (repaired): repeated signs and a repeated `base` are refused *)
Example int_repeated_sign_rejected :
  int_tokens_asis true [mk_tok TPunct [45]; mk_tok TPunct [45]; mk_tok TLit [53]] = None /\
  int_tokens_asis true [mk_tok TPunct [45]; mk_tok TPunct [43]; mk_tok TLit [53]] = None /\
  int_tokens_asis false [mk_tok TLit [53]; mk_tok TIdent t_base; mk_tok TIdent t_base; mk_tok TLit [49; 48]] = None.
Proof. repeat split; reflexivity. Qed.

(* ------------------------------------------------------------------------------------------ *)
(** * ratios *)

Lemma rat_tail_loop n nneg ns d dneg ds dmark rel tail b : rat_tail_spec tail = Some b ->
  rat_loop (mk_rst (Some n) nneg ns (Some d) dneg ds dmark rel false None) tail =
  Some (mk_rst (Some n) nneg ns (Some d) dneg ds dmark rel (match b with Some _ => true | None => false end) b).
Proof.
  unfold rat_tail_spec. destruct tail as [|t1 [|t2 [|t3 r]]]; try discriminate.
  - intros H. inversion H. reflexivity.
  - destruct (is_base_tok t1) eqn:E1; [|discriminate]. destruct (is_lit_tok t2) eqn:E2; [|discriminate].
    cbn [andb]. intros H. inversion H; subst b. rewrite (base_inv _ E1), (lit_inv _ E2). reflexivity.
Qed.

Ltac step_loop := cbn [rat_loop rat_step tk ttext is_char is_punct_char text_eqb Z.eqb Pos.eqb andb negb].

Lemma rat_rest_loop rel nneg ns nt rest r : rat_rest_spec rel nneg nt rest = Some r ->
  match rat_loop (mk_rst (Some nt) nneg ns None false false false rel false None) rest with
  | Some st => rat_finish st = Some r
  | None => False
  end.
Proof.
  unfold rat_rest_spec. destruct rest as [|s rest'].
  - intros H. inversion H. reflexivity.
  - destruct (is_punct_char s 47) eqn:E47; [|discriminate]. rewrite (punct_inv _ _ E47). clear E47 s.
    assert (W : forall dneg ds d tail b, is_value_tok d = true -> rat_tail_spec tail = Some b ->
      match rat_loop (mk_rst (Some nt) nneg ns None dneg ds true rel false None) (d :: tail) with
      | Some st => rat_finish st = Some (rel, nneg, nt, Some (dneg, ttext d), b)
      | None => False
      end).
    { intros dneg ds d tail b Hv Ht. destruct (value_inv d Hv) as [E|E]; rewrite E; step_loop;
        rewrite (rat_tail_loop _ _ _ _ _ _ _ _ _ _ Ht); destruct b; reflexivity. }
    destruct rest' as [|t2 r2]; cbn [strip_one]; [discriminate|].
    destruct (is_sign_tok t2) eqn:S2.
    + destruct r2 as [|d tail]; [discriminate|]. destruct (is_value_tok d) eqn:Vd; [|discriminate].
      destruct (rat_tail_spec tail) as [b|] eqn:Tl; [|discriminate].
      destruct (sign_inv _ S2) as [E|E]; rewrite E; intros H; inversion H; subst r; clear H;
        [apply (W true true d tail b Vd Tl) | apply (W false true d tail b Vd Tl)].
    + destruct (is_value_tok t2) eqn:Vd; [|discriminate].
      destruct (rat_tail_spec r2) as [b|] eqn:Tl; [|discriminate].
      intros H; inversion H; subst r; clear H. apply (W false false t2 r2 b Vd Tl).
Qed.

Ltac stage H :=
  match type of H with
  | context [strip_one ?f []] => cbn [strip_one] in H
  | context [strip_one ?f (?x :: ?l)] => cbn [strip_one] in H; destruct (f x) eqn:?
  | context [strip_one ?f ?l] => destruct l as [|? ?]
  end.

Ltac inv_toks := repeat match goal with
  | E : is_punct_char ?x _ = true |- _ => apply punct_inv in E; subst x
  | E : is_sign_tok ?x = true |- _ => apply sign_inv in E; destruct E; subst x
  end.

(** every fraction literal of the grammar is accepted by the loop with the grammar's reading *)
Theorem rat_tokens_spec_sound ts r : rat_tokens_spec ts = Some r -> rat_tokens_asis ts = Some r.
Proof.
  unfold rat_tokens_spec, rat_tokens_asis, rst0. intros H.
  repeat stage H; inv_toks;
    cbn [is_punct_char tk ttext is_char text_eqb Z.eqb Pos.eqb andb] in H; try discriminate;
    try (match type of H with
         | context [match ?l with [] => _ | _ :: _ => _ end] => is_var l; destruct l as [|? ?]; [discriminate|]
         end);
    match type of H with
    | context [is_value_tok ?n] =>
      destruct (is_value_tok n) eqn:Vn; [|discriminate];
      destruct (value_inv n Vn) as [E|E]; rewrite E; step_loop; rewrite <- ?E;
      match goal with
      | |- context [rat_loop (mk_rst _ _ ?ns _ _ _ _ _ _ _) _] => pose proof (rat_rest_loop _ _ ns _ _ _ H) as H1
      end;
      match type of H1 with match ?x with _ => _ end => destruct x; [exact H1 | contradiction] end
    end.
Qed.

(** the converse for fractions: one inversion lemma per state of the repaired loop *)
Lemma value_not_sign t : is_value_tok t = true -> is_sign_tok t = false /\ is_punct_char t 126 = false /\ is_punct_char t 47 = false.
Proof. destruct t as [[] x]; cbn; intros H; try discriminate; auto. Qed.

(* before the numerator *)
Lemma rat_step_P st' rel ns nneg t :
  rat_step (mk_rst None nneg ns None false false false rel false None) t = Some st' ->
  (is_value_tok t = true /\ st' = mk_rst (Some (ttext t)) nneg ns None false false false rel false None) \/
  (rel = false /\ is_punct_char t 126 = true /\ st' = mk_rst None nneg ns None false false false true false None) \/
  (ns = false /\ is_punct_char t 126 = false /\ is_punct_char t 45 = true /\ st' = mk_rst None true true None false false false rel false None) \/
  (ns = false /\ is_punct_char t 126 = false /\ is_punct_char t 45 = false /\ is_punct_char t 43 = true /\
   st' = mk_rst None nneg true None false false false rel false None).
Proof.
  destruct t as [k x]. unfold rat_step, is_value_tok, is_punct_char, is_char. cbn [tk ttext].
  destruct k; try discriminate.
  - intros H. inversion H. left. auto.
  - intros H. inversion H. left. auto.
  - destruct (text_eqb x [47]); [discriminate|]. destruct (text_eqb x [126]).
    + destruct rel; cbn [negb]; [discriminate|]. intros H. inversion H. right. left. auto.
    + destruct ns; [discriminate|]. destruct (text_eqb x [45]).
      * intros H. inversion H. right. right. left. auto.
      * destruct (text_eqb x [43]); [|discriminate]. intros H. inversion H. right. right. right. auto.
Qed.

(* after the numerator: only the slash *)
Lemma rat_step_N st' nt nneg ns rel t :
  rat_step (mk_rst (Some nt) nneg ns None false false false rel false None) t = Some st' ->
  is_punct_char t 47 = true /\ st' = mk_rst (Some nt) nneg ns None false false true rel false None.
Proof.
  destruct t as [k x]. unfold rat_step, is_punct_char, is_char. cbn [tk ttext negb andb].
  destruct k; try discriminate. destruct (text_eqb x [47]); [intros H; inversion H; auto|].
  destruct (text_eqb x [126]); discriminate.
Qed.

(* after the slash *)
Lemma rat_step_D st' nt nneg ns dneg ds rel t :
  rat_step (mk_rst (Some nt) nneg ns None dneg ds true rel false None) t = Some st' ->
  (is_value_tok t = true /\ st' = mk_rst (Some nt) nneg ns (Some (ttext t)) dneg ds true rel false None) \/
  (ds = false /\ is_punct_char t 45 = true /\ st' = mk_rst (Some nt) nneg ns None true true true rel false None) \/
  (ds = false /\ is_punct_char t 45 = false /\ is_punct_char t 43 = true /\ st' = mk_rst (Some nt) nneg ns None dneg true true rel false None).
Proof.
  destruct t as [k x]. unfold rat_step, is_value_tok, is_punct_char, is_char. cbn [tk ttext negb andb].
  destruct k; try discriminate.
  - intros H. inversion H. left. auto.
  - intros H. inversion H. left. auto.
  - destruct (text_eqb x [47]); [discriminate|]. destruct (text_eqb x [126]); [discriminate|].
    destruct ds; [discriminate|]. destruct (text_eqb x [45]).
    + intros H. inversion H. right. left. auto.
    + destruct (text_eqb x [43]); [|discriminate]. intros H. inversion H. right. right. auto.
Qed.

(* after the denominator: only `base` *)
Lemma rat_step_T st' nt nneg ns d dneg ds rel t :
  rat_step (mk_rst (Some nt) nneg ns (Some d) dneg ds true rel false None) t = Some st' ->
  is_base_tok t = true /\ st' = mk_rst (Some nt) nneg ns (Some d) dneg ds true rel true None.
Proof.
  destruct t as [k x]. unfold rat_step, is_base_tok, is_char. cbn [tk ttext negb andb].
  destruct k; try discriminate.
  - destruct (text_eqb x t_base); [|discriminate]. intros H. inversion H. auto.
  - destruct (text_eqb x [47]); [discriminate|]. destruct (text_eqb x [126]); discriminate.
Qed.

(* after `base`: only the radix literal; after the radix: nothing *)
Lemma rat_step_B st' nt nneg ns d dneg ds rel t :
  rat_step (mk_rst (Some nt) nneg ns (Some d) dneg ds true rel true None) t = Some st' ->
  is_lit_tok t = true /\ st' = mk_rst (Some nt) nneg ns (Some d) dneg ds true rel true (Some (ttext t)).
Proof.
  destruct t as [k x]. unfold rat_step, is_lit_tok, is_char. cbn [tk ttext negb andb].
  destruct k; try discriminate.
  - intros H. inversion H. auto.
  - destruct (text_eqb x [47]); [discriminate|]. destruct (text_eqb x [126]); discriminate.
Qed.

Lemma rat_step_done nt nneg ns d dneg ds rel b t :
  rat_step (mk_rst (Some nt) nneg ns (Some d) dneg ds true rel true (Some b)) t = None.
Proof.
  destruct t as [k x]. unfold rat_step, is_char. cbn [tk ttext negb andb].
  destruct k; try reflexivity. destruct (text_eqb x [47]); [reflexivity|]. destruct (text_eqb x [126]); reflexivity.
Qed.

Lemma rat_tail_complete nt nneg ns d dneg ds rel tail st' r :
  rat_loop (mk_rst (Some nt) nneg ns (Some d) dneg ds true rel false None) tail = Some st' ->
  rat_finish st' = Some r ->
  exists b, rat_tail_spec tail = Some b /\ r = (rel, nneg, nt, Some (dneg, d), b).
Proof.
  intros L F. destruct tail as [|t1 tl].
  - cbn [rat_loop] in L. inversion L; subst st'. cbn in F. inversion F. exists None. auto.
  - cbn [rat_loop] in L. destruct (rat_step _ t1) as [s1|] eqn:E1; [|discriminate].
    destruct (rat_step_T _ _ _ _ _ _ _ _ _ E1) as [B1 ->]. destruct tl as [|t2 tl].
    + cbn [rat_loop] in L. inversion L; subst st'. discriminate.
    + cbn [rat_loop] in L. destruct (rat_step _ t2) as [s2|] eqn:E2; [|discriminate].
      destruct (rat_step_B _ _ _ _ _ _ _ _ _ E2) as [L2 ->]. destruct tl as [|t3 tl].
      * cbn [rat_loop] in L. inversion L; subst st'. cbn in F. inversion F.
        exists (Some (ttext t2)). unfold rat_tail_spec. rewrite B1, L2. auto.
      * cbn [rat_loop] in L. rewrite rat_step_done in L. discriminate.
Qed.

Lemma rat_rest_complete nt nneg ns rel rest st' r :
  rat_loop (mk_rst (Some nt) nneg ns None false false false rel false None) rest = Some st' ->
  rat_finish st' = Some r -> rat_rest_spec rel nneg nt rest = Some r.
Proof.
  intros L F. unfold rat_rest_spec. destruct rest as [|t1 rest].
  - cbn [rat_loop] in L. inversion L; subst st'. cbn in F. exact F.
  - cbn [rat_loop] in L. destruct (rat_step _ t1) as [s1|] eqn:E1; [|discriminate].
    destruct (rat_step_N _ _ _ _ _ _ E1) as [P1 ->]. rewrite P1.
    destruct rest as [|t2 rest].
    + cbn [rat_loop] in L. inversion L; subst st'. discriminate.
    + cbn [rat_loop] in L. destruct (rat_step _ t2) as [s2|] eqn:E2; [|discriminate]. cbn [strip_one].
      destruct (rat_step_D _ _ _ _ _ _ _ _ E2) as [[V2 ->]|[(_ & P2 & ->)|(_ & P45 & P2 & ->)]].
      * destruct (value_not_sign t2 V2) as (NS & _). rewrite NS, V2.
        destruct (rat_tail_complete _ _ _ _ _ _ _ _ _ _ L F) as [b [Tb ->]]. rewrite Tb. reflexivity.
      * assert (S2 : is_sign_tok t2 = true) by (unfold is_sign_tok; rewrite P2; reflexivity). rewrite S2, P2.
        destruct rest as [|t3 rest]; [cbn [rat_loop] in L; inversion L; subst st'; discriminate|].
        cbn [rat_loop] in L. destruct (rat_step _ t3) as [s3|] eqn:E3; [|discriminate].
        destruct (rat_step_D _ _ _ _ _ _ _ _ E3) as [[V3 ->]|[(A & _)|(A & _)]]; try discriminate.
        rewrite V3. destruct (rat_tail_complete _ _ _ _ _ _ _ _ _ _ L F) as [b [Tb ->]]. rewrite Tb. reflexivity.
      * assert (S2 : is_sign_tok t2 = true) by (unfold is_sign_tok; rewrite P2; apply orb_true_r). rewrite S2, P45.
        destruct rest as [|t3 rest]; [cbn [rat_loop] in L; inversion L; subst st'; discriminate|].
        cbn [rat_loop] in L. destruct (rat_step _ t3) as [s3|] eqn:E3; [|discriminate].
        destruct (rat_step_D _ _ _ _ _ _ _ _ E3) as [[V3 ->]|[(A & _)|(A & _)]]; try discriminate.
        rewrite V3. destruct (rat_tail_complete _ _ _ _ _ _ _ _ _ _ L F) as [b [Tb ->]]. rewrite Tb. reflexivity.
Qed.

(* the grammar's reading of the five admissible prefixes *)
Definition tT : token := mk_tok TPunct [126].
Definition tM : token := mk_tok TPunct [45].
Definition tP : token := mk_tok TPunct [43].

Lemma spec_p0 n rest : is_value_tok n = true -> rat_tokens_spec (n :: rest) = rat_rest_spec false false (ttext n) rest.
Proof. intros V. destruct n as [[] x]; try discriminate V; reflexivity. Qed.
Lemma spec_pT n rest : is_value_tok n = true -> rat_tokens_spec (tT :: n :: rest) = rat_rest_spec true false (ttext n) rest.
Proof. intros V. destruct n as [[] x]; try discriminate V; reflexivity. Qed.
Lemma spec_pM n rest : is_value_tok n = true -> rat_tokens_spec (tM :: n :: rest) = rat_rest_spec false true (ttext n) rest.
Proof. intros V. destruct n as [[] x]; try discriminate V; reflexivity. Qed.
Lemma spec_pP n rest : is_value_tok n = true -> rat_tokens_spec (tP :: n :: rest) = rat_rest_spec false false (ttext n) rest.
Proof. intros V. destruct n as [[] x]; try discriminate V; reflexivity. Qed.
Lemma spec_pTM n rest : is_value_tok n = true -> rat_tokens_spec (tT :: tM :: n :: rest) = rat_rest_spec true true (ttext n) rest.
Proof. intros V. destruct n as [[] x]; try discriminate V; reflexivity. Qed.
Lemma spec_pTP n rest : is_value_tok n = true -> rat_tokens_spec (tT :: tP :: n :: rest) = rat_rest_spec true false (ttext n) rest.
Proof. intros V. destruct n as [[] x]; try discriminate V; reflexivity. Qed.
Lemma spec_pMT n rest : is_value_tok n = true -> rat_tokens_spec (tM :: tT :: n :: rest) = rat_rest_spec true true (ttext n) rest.
Proof. intros V. destruct n as [[] x]; try discriminate V; reflexivity. Qed.
Lemma spec_pPT n rest : is_value_tok n = true -> rat_tokens_spec (tP :: tT :: n :: rest) = rat_rest_spec true false (ttext n) rest.
Proof. intros V. destruct n as [[] x]; try discriminate V; reflexivity. Qed.

(* the next token of an accepted literal, from a state before the numerator *)
Ltac next_tok L F ts t E :=
  destruct ts as [|t ts]; [cbn [rat_loop] in L; inversion L; subst; cbn in F; discriminate F|];
  cbn [rat_loop] in L;
  match type of L with match rat_step ?st t with _ => _ end = _ => destruct (rat_step st t) eqn:E; [|discriminate L] end.

Theorem rat_tokens_asis_complete ts r : rat_tokens_asis ts = Some r -> rat_tokens_spec ts = Some r.
Proof.
  unfold rat_tokens_asis. destruct (rat_loop rst0 ts) as [st|] eqn:L; [|discriminate]. intros F. unfold rst0 in L.
  next_tok L F ts t1 E1.
  destruct (rat_step_P _ _ _ _ _ E1) as [[V1 ->]|[(_ & T1 & ->)|[(_ & _ & M1 & ->)|(_ & _ & _ & P1 & ->)]]].
  - rewrite (spec_p0 _ _ V1). exact (rat_rest_complete _ _ _ _ _ _ _ L F).
  - apply punct_inv in T1. subst t1. fold tT. next_tok L F ts t2 E2.
    destruct (rat_step_P _ _ _ _ _ E2) as [[V2 ->]|[(A & _)|[(_ & _ & M2 & ->)|(_ & _ & _ & P2 & ->)]]]; try discriminate.
    + rewrite (spec_pT _ _ V2). exact (rat_rest_complete _ _ _ _ _ _ _ L F).
    + apply punct_inv in M2. subst t2. fold tM. next_tok L F ts t3 E3.
      destruct (rat_step_P _ _ _ _ _ E3) as [[V3 ->]|[(A & _)|[(A & _)|(A & _)]]]; try discriminate.
      rewrite (spec_pTM _ _ V3). exact (rat_rest_complete _ _ _ _ _ _ _ L F).
    + apply punct_inv in P2. subst t2. fold tP. next_tok L F ts t3 E3.
      destruct (rat_step_P _ _ _ _ _ E3) as [[V3 ->]|[(A & _)|[(A & _)|(A & _)]]]; try discriminate.
      rewrite (spec_pTP _ _ V3). exact (rat_rest_complete _ _ _ _ _ _ _ L F).
  - apply punct_inv in M1. subst t1. fold tM. next_tok L F ts t2 E2.
    destruct (rat_step_P _ _ _ _ _ E2) as [[V2 ->]|[(_ & T2 & ->)|[(A & _)|(A & _)]]]; try discriminate.
    + rewrite (spec_pM _ _ V2). exact (rat_rest_complete _ _ _ _ _ _ _ L F).
    + apply punct_inv in T2. subst t2. fold tT. next_tok L F ts t3 E3.
      destruct (rat_step_P _ _ _ _ _ E3) as [[V3 ->]|[(A & _)|[(A & _)|(A & _)]]]; try discriminate.
      rewrite (spec_pMT _ _ V3). exact (rat_rest_complete _ _ _ _ _ _ _ L F).
  - apply punct_inv in P1. subst t1. fold tP. next_tok L F ts t2 E2.
    destruct (rat_step_P _ _ _ _ _ E2) as [[V2 ->]|[(_ & T2 & ->)|[(A & _)|(A & _)]]]; try discriminate.
    + rewrite (spec_pP _ _ V2). exact (rat_rest_complete _ _ _ _ _ _ _ L F).
    + apply punct_inv in T2. subst t2. fold tT. next_tok L F ts t3 E3.
      destruct (rat_step_P _ _ _ _ _ E3) as [[V3 ->]|[(A & _)|[(A & _)|(A & _)]]]; try discriminate.
      rewrite (spec_pPT _ _ V3). exact (rat_rest_complete _ _ _ _ _ _ _ L F).
Qed.

(** the repaired loop of parse_ratio_with_error accepts exactly the fraction grammar *)
Theorem rat_tokens_asis_eq_spec ts : rat_tokens_asis ts = rat_tokens_spec ts.
Proof.
  destruct (rat_tokens_asis ts) as [r|] eqn:A.
  - symmetry. apply rat_tokens_asis_complete. exact A.
  - destruct (rat_tokens_spec ts) as [r|] eqn:S; [|reflexivity].
    apply rat_tokens_spec_sound in S. congruence.
Qed.

Example rat_tokens_spec_nonvacuous :
  rat_tokens_spec [mk_tok TPunct [126]; mk_tok TPunct [45]; mk_tok TLit [49]; mk_tok TPunct [47]; mk_tok TLit [49; 51]]
  = Some (true, true, [49], Some (false, [49; 51]), None).
Proof. reflexivity. Qed.

(** every accepted token sets one more of the eight marks of the loop (relaxed, sign, numerator, slash,
    sign, denominator, `base`, radix) and none is ever reset: an accepted fraction has at most eight tokens *)
Definition b2n (b : bool) : nat := if b then 1 else 0.
Definition o2n {A} (o : option A) : nat := match o with Some _ => 1 | None => 0 end.
Definition rat_phase (st : rst) : nat :=
  o2n (r_num st) + o2n (r_den st) + o2n (r_base st) + b2n (r_nsign st) + b2n (r_dsign st) +
  b2n (r_dmark st) + b2n (r_relaxed st) + b2n (r_bmark st).

Lemma rat_step_phase st t st' : rat_step st t = Some st' -> (rat_phase st < rat_phase st' <= 8)%nat.
Proof.
  destruct st as [num nneg ns den dneg ds dmark rel bmark base]. destruct t as [k x].
  unfold rat_step, rat_phase, is_char, b2n, o2n. cbn [tk ttext r_num r_den r_base r_relaxed r_nsign r_dmark r_dsign r_bmark].
  destruct k, num, den, base, dmark, rel, bmark, ns, ds; cbn [negb andb];
    repeat match goal with |- context [text_eqb ?a ?c] => destruct (text_eqb a c) end;
    intros H; inversion H; cbn; lia.
Qed.

Lemma rat_phase_le st : (rat_phase st <= 8)%nat.
Proof. destruct st as [num nneg ns den dneg ds dmark rel bmark base]. unfold rat_phase, b2n, o2n. cbn. destruct num, den, base, ns, ds, dmark, rel, bmark; lia. Qed.

Theorem rat_loop_phase ts : forall st st', rat_loop st ts = Some st' -> (rat_phase st + length ts <= rat_phase st' <= 8)%nat.
Proof.
  induction ts as [|t ts IH]; intros st st' H; cbn [rat_loop] in H.
  - inversion H; subst. cbn [length]. pose proof (rat_phase_le st'). lia.
  - destruct (rat_step st t) as [st1|] eqn:E; [|discriminate].
    pose proof (rat_step_phase _ _ _ E). pose proof (IH _ _ H). cbn [length]. lia.
Qed.

Theorem rat_tokens_asis_length ts r : rat_tokens_asis ts = Some r -> (length ts <= 8)%nat.
Proof.
  unfold rat_tokens_asis. destruct (rat_loop rst0 ts) as [st|] eqn:L; [|discriminate].
  pose proof (rat_loop_phase _ _ _ L) as P. change (rat_phase rst0) with 0%nat in P. intros _. lia.
Qed.

(** F04 (repaired): a fraction without a slash, a dangling or leading slash, repeated signs and ~ are refused *)
Example rat_outside_grammar_rejected :
  rat_tokens_asis [mk_tok TLit [49]; mk_tok TLit [50]] = None /\
  rat_tokens_asis [mk_tok TLit [49]; mk_tok TPunct [47]] = None /\
  rat_tokens_asis [mk_tok TPunct [47]; mk_tok TLit [50]] = None /\
  rat_tokens_asis [mk_tok TPunct [45]; mk_tok TPunct [45]; mk_tok TLit [49]; mk_tok TPunct [47]; mk_tok TLit [50]] = None /\
  rat_tokens_asis [mk_tok TPunct [126]; mk_tok TPunct [126]; mk_tok TLit [49]] = None /\
  rat_tokens_asis [mk_tok TLit [49]; mk_tok TPunct [45]; mk_tok TPunct [47]; mk_tok TLit [50]] = None.
Proof. repeat split; reflexivity. Qed.

(* ------------------------------------------------------------------------------------------ *)
(** * binary floats: the sign handling of fbig! *)

Theorem fbin_text_asis_spec ts : fbin_text_asis ts = fbin_text_spec ts.
Proof.
  unfold fbin_text_asis, fbin_text_spec, fbin_text_split. destruct (join_tokens ts) as [|c t]; [reflexivity|].
  destruct c as [|p|p]; try reflexivity.
  do 7 (destruct p as [p|p|]; try reflexivity).
Qed.

(** F05 (repaired): fbig!(-+1) is refused *)
Example fbin_double_sign_rejected :
  fbin_text_asis [mk_tok TPunct [45]; mk_tok TPunct [43]; mk_tok TLit [49]] = None /\
  fbin_text_asis [mk_tok TPunct [45]; mk_tok TIdent [95; 48; 120; 49]] = Some (Negative, [48; 120; 49]).
Proof. split; reflexivity. Qed.
