(** C20 (round 4) - rbig!/static_rbig! from the source text: the identifier and number tokens of a lexed text consist of
    letters, digits, `_`, `.`, `+`, `-` - never a slash, never a sign in front - so the hypothesis [rat_texts_ok] of the
    run-time theorem of round 3 (macro_rat_parts_eq_runtime) holds for every text the lexer model cuts: the components
    the macro builds are those the run-time ratio parser builds from  [-]num[/[-]den]  in the same radix. *)
From Dashu Require Import Base.Prelude Base.Words Int.IoSpec Int.IoModel Float.TextIoSpec Float.PartsConstModel Ratio.RatArithModel
  Macro.LitModel Macro.LitGenProofs Macro.LitTokProofs Macro.LitLexModel Macro.LitLexProofs Macro.LitLexComplete
  Macro.LitRefModel Macro.LitRefProofs Macro.LitSrcProofs.
Open Scope Z_scope.

Definition L (c : Z) : Prop := lit_char c = true.

Lemma L_idc c : idc c = true -> L c.
Proof. unfold L, lit_char. intros ->. reflexivity. Qed.
Lemma L_eq c k : k = 46 \/ k = 43 \/ k = 45 -> (c =? k) = true -> L c.
Proof.
  intros K H. apply Z.eqb_eq in H. subst c. unfold L, lit_char. destruct K as [-> | [-> | ->]]; reflexivity.
Qed.
Lemma L_no_slash c : L c -> negb (c =? 47) = true.
Proof.
  unfold L, lit_char. intros H. destruct (Z.eqb_spec c 47) as [->|]; [vm_compute in H; discriminate | reflexivity].
Qed.

Lemma firstn_le_span f : forall k s, (k <= span f s)%nat -> Forall (fun c => f c = true) (firstn k s).
Proof.
  induction k as [|k IH]; intros s H; [constructor|]. destruct s as [|c t]; [constructor|]. cbn [span] in H.
  destruct (f c) eqn:E; [|lia]. cbn [firstn]. constructor; [exact E | apply IH; lia].
Qed.

Lemma Forall_idc_L w : Forall (fun c => idc c = true) w -> Forall L w.
Proof. apply Forall_impl. exact L_idc. Qed.

Lemma fd_loop_lit : forall chars len hd len' hd' he' rest, fd_loop chars len hd = Some (len', hd', he', rest) ->
  exists pre, chars = pre ++ rest /\ len' = (len + length pre)%nat /\ Forall L pre.
Proof.
  induction chars as [|ch t IH]; intros len hd len' hd' he' rest H; cbn [fd_loop] in H.
  - inversion H; subst. exists []. repeat split; [cbn [length]; lia | constructor].
  - destruct (is_digit ch || (ch =? 95)) eqn:E1.
    { destruct (IH _ _ _ _ _ _ H) as (pre & -> & -> & F). exists (ch :: pre). split; [reflexivity|]. split; [cbn [length]; lia|].
      constructor; [|exact F]. apply L_idc. apply orb_true_iff in E1. destruct E1 as [E|E]; [apply idc_digit | apply idc_us]; exact E. }
    destruct (ch =? 46) eqn:E2.
    { destruct hd.
      - inversion H; subst. exists []. repeat split; [cbn [length]; lia | constructor].
      - assert (G : fd_loop t (S len) true = Some (len', hd', he', rest)).
        { destruct t as [|c2 t']; [exact H|]. destruct ((c2 =? 46) || is_ident_start c2); [discriminate | exact H]. }
        destruct (IH _ _ _ _ _ _ G) as (pre & -> & -> & F). exists (ch :: pre). split; [reflexivity|]. split; [cbn [length]; lia|].
        constructor; [eapply L_eq; [|exact E2]; auto | exact F]. }
    destruct ((ch =? 101) || (ch =? 69)) eqn:E3.
    { inversion H; subst. exists [ch]. split; [reflexivity|]. split; [cbn [length]; lia|]. constructor; [|constructor].
      apply L_idc. apply orb_true_iff in E3. destruct E3 as [E|E]; apply Z.eqb_eq in E; subst ch; reflexivity. }
    inversion H; subst. exists []. repeat split; [cbn [length]; lia | constructor].
Qed.

Lemma exp_loop_lit : forall chars len hs hv before n, exp_loop chars len hs hv before = Some n ->
  before = Some n \/ exists pre rest, chars = pre ++ rest /\ n = (len + length pre)%nat /\ Forall L pre.
Proof.
  induction chars as [|ch t IH]; intros len hs hv before n H; cbn [exp_loop] in H.
  - destruct hv; [right; inversion H; subst; exists [], []; repeat split; [cbn [length]; lia | constructor] | left; exact H].
  - assert (FIN : (if hv then Some len else before) = Some n ->
                  before = Some n \/ exists pre rest, ch :: t = pre ++ rest /\ n = (len + length pre)%nat /\ Forall L pre).
    { destruct hv; [intros X; right; inversion X; subst; exists [], (ch :: t); repeat split; [cbn [length]; lia | constructor] | intros X; left; exact X]. }
    assert (STEP : forall hs' hv', exp_loop t (S len) hs' hv' before = Some n -> L ch ->
                  before = Some n \/ exists pre rest, ch :: t = pre ++ rest /\ n = (len + length pre)%nat /\ Forall L pre).
    { intros hs' hv' X V. destruct (IH _ _ _ _ _ X) as [B|(pre & rest & -> & -> & F)]; [left; exact B|].
      right. exists (ch :: pre), rest. split; [reflexivity|]. split; [cbn [length]; lia | constructor; assumption]. }
    destruct ((ch =? 43) || (ch =? 45)) eqn:E1.
    { destruct hv; [apply FIN; exact H|]. destruct hs; [left; exact H|].
      eapply STEP; [exact H|]. apply orb_true_iff in E1. destruct E1 as [E|E]; (eapply L_eq; [|exact E]; auto). }
    destruct (is_digit ch) eqn:E2; [eapply STEP; [exact H | apply L_idc, idc_digit; exact E2]|].
    destruct (ch =? 95) eqn:E3; [eapply STEP; [exact H | apply L_idc, idc_us; exact E3]|].
    apply FIN. exact H.
Qed.

Lemma float_digits_lit s n : float_digits s = Some n -> Forall L (firstn n s).
Proof.
  unfold float_digits. destruct s as [|c t]; [discriminate|]. destruct (is_digit c) eqn:D; [|discriminate].
  destruct (fd_loop t 1 false) as [[[[len hd] he] rest]|] eqn:F; [|discriminate].
  destruct (fd_loop_lit _ _ _ _ _ _ _ F) as (pre & -> & -> & FV).
  assert (V0 : Forall L (c :: pre)) by (constructor; [apply L_idc, idc_digit; exact D | exact FV]).
  destruct (negb (hd || he)); [discriminate|]. destruct he.
  - intros H. destruct (exp_loop_lit _ _ _ _ _ _ H) as [B|(pre2 & rest2 & -> & -> & F2)].
    + destruct hd; [|discriminate]. inversion B; subst.
      match goal with |- Forall L (firstn ?N _) => assert (EN : N = length pre) by lia; rewrite EN end.
      replace (c :: pre ++ rest) with ((c :: pre) ++ rest) by reflexivity.
      rewrite firstn_app. apply Forall_app. split; [apply Forall_firstn_; exact V0|].
      replace (length pre - length (c :: pre))%nat with 0%nat by (cbn [length]; lia). constructor.
    + replace (c :: pre ++ pre2 ++ rest2) with ((c :: pre ++ pre2) ++ rest2) by (cbn [app]; rewrite <- app_assoc; reflexivity).
      match goal with |- Forall L (firstn ?N _) =>
        replace N with (length (c :: pre ++ pre2) + 0)%nat by (cbn [length]; rewrite app_length; lia) end.
      rewrite firstn_app_2. cbn [firstn]. rewrite app_nil_r. constructor; [apply L_idc, idc_digit; exact D | apply Forall_app; split; assumption].
  - intros H. inversion H; subst. replace (c :: pre ++ rest) with ((c :: pre) ++ rest) by reflexivity.
    match goal with |- Forall L (firstn ?N _) => replace N with (length (c :: pre) + 0)%nat by (cbn [length]; lia) end.
    rewrite firstn_app_2. cbn [firstn]. rewrite app_nil_r. exact V0.
Qed.

Lemma ident_len_lit s n : ident_len s = Some n -> Forall L (firstn n s).
Proof. intros H. rewrite (ident_len_span _ _ H). apply Forall_idc_L, firstn_le_span. lia. Qed.

Lemma suffix_break_lit s n n' : suffix_break s n = Some n' -> Forall L (firstn n s) -> Forall L (firstn n' s).
Proof.
  unfold suffix_break. intros H Hn. destruct (ident_len (skipn n s)) as [k|] eqn:I.
  - assert (n' = (n + k)%nat).
    { destruct (skipn (n + k) s) as [|c r]; [inversion H; reflexivity|]. destruct (is_ident_continue c); [discriminate | inversion H; reflexivity]. }
    subst n'. rewrite firstn_add. apply Forall_app. split; [exact Hn | apply ident_len_lit; exact I].
  - assert (n' = n).
    { destruct (skipn n s) as [|c r]; [inversion H; reflexivity|]. destruct (is_ident_continue c); [discriminate | inversion H; reflexivity]. }
    subst. exact Hn.
Qed.

(** the characters of an identifier or number token *)
Theorem leaf_lit s k n : leaf s = Some (k, n) -> k <> TPunct -> Forall L (firstn n s).
Proof.
  intros H NP. pose proof (leaf_munch _ _ _ H) as LM. destruct k; try contradiction.
  - destruct LM as [_ [-> | FL]]; [apply Forall_idc_L, firstn_le_span; lia|].
    unfold float_len in FL. destruct (float_digits s) as [m|] eqn:FD; [|discriminate].
    eapply suffix_break_lit; [exact FL | apply float_digits_lit; exact FD].
  - subst n. apply Forall_idc_L, firstn_le_span. lia.
Qed.

Definition value_tok_lit (t : token) : Prop := is_value_tok t = true -> Forall L (ttext t).

Theorem lex_loop_lit fuel : forall s ts, lex_loop fuel s = LexOk ts -> Forall value_tok_lit ts.
Proof.
  induction fuel as [|f IH]; intros s ts H; [discriminate|]. cbn [lex_loop] in H.
  destruct (skip_ws s) as [|c t] eqn:SW; [inversion H; constructor|].
  destruct (leaf (c :: t)) as [[k n]|] eqn:LF; [|discriminate]. destruct n as [|n]; [discriminate|].
  destruct (lex_loop f (skipn (S n) (c :: t))) as [ts'| | |] eqn:R; try discriminate. inversion H; subst ts.
  constructor; [|apply (IH _ _ R)]. unfold value_tok_lit, is_value_tok. cbn [tk ttext].
  intros V. apply (leaf_lit _ _ _ LF). destruct k; discriminate.
Qed.

Theorem lex_value_tokens s ts : lex s = LexOk ts -> Forall value_tok_lit ts.
Proof. unfold lex. destruct (modelled s); [apply lex_loop_lit | discriminate]. Qed.

(* ------------------------------------------------------------------------------------------ *)
(** * the texts the ratio grammar picks are texts of value tokens *)

Lemma strip_one_incl f ts o r : strip_one f ts = (o, r) -> incl r ts.
Proof.
  unfold strip_one. destruct ts as [|t ts']; [intros H; inversion H; apply incl_refl|].
  destruct (f t); intros H; inversion H; [apply incl_tl, incl_refl | apply incl_refl].
Qed.

Lemma rat_tokens_spec_texts ts rel nneg n d b : rat_tokens_spec ts = Some (rel, nneg, n, d, b) ->
  (exists t, In t ts /\ is_value_tok t = true /\ ttext t = n) /\
  match d with Some (_, dt) => exists t, In t ts /\ is_value_tok t = true /\ ttext t = dt | None => True end.
Proof.
  unfold rat_tokens_spec.
  destruct (strip_one (fun t => is_punct_char t 126) ts) as [r1 ts1] eqn:S1.
  destruct (strip_one is_sign_tok ts1) as [sg ts2] eqn:S2.
  destruct (strip_one (fun t => is_punct_char t 126) ts2) as [r2 ts3] eqn:S3.
  assert (I3 : incl ts3 ts).
  { eapply incl_tran; [eapply strip_one_incl; exact S3|]. eapply incl_tran; [eapply strip_one_incl; exact S2|]. eapply strip_one_incl; exact S1. }
  destruct (match r1, r2 with None, None => Some false | Some _, None | None, Some _ => Some true | _, _ => None end) as [rel0|]; [|discriminate].
  destruct ts3 as [|nt rest]; [discriminate|]. destruct (is_value_tok nt) eqn:VN; [|discriminate].
  unfold rat_rest_spec. destruct rest as [|sl rest'].
  - intros H. inversion H; subst. split; [exists nt; split; [apply I3; left; reflexivity | auto] | exact I].
  - destruct (is_punct_char sl 47); [|discriminate].
    destruct (strip_one is_sign_tok rest') as [dsg ts4] eqn:S4. destruct ts4 as [|dtok tail]; [discriminate|].
    destruct (is_value_tok dtok) eqn:VD; [|discriminate]. destruct (rat_tail_spec tail) as [b0|]; [|discriminate].
    intros H. inversion H; subst. split; [exists nt; split; [apply I3; left; reflexivity | auto]|].
    exists dtok. split; [|auto]. apply I3. right. right. eapply strip_one_incl; [exact S4 | left; reflexivity].
Qed.

Lemma lit_no_slash v : Forall L v -> no_slash v = true.
Proof. intros F. unfold no_slash. apply forallb_forall. rewrite Forall_forall in F. intros c I. apply L_no_slash, F, I. Qed.

(** every fraction literal read from a lexed text satisfies the side condition of the run-time theorem *)
Theorem src_rat_texts_ok s ts o : lex s = LexOk ts -> rat_tokens_spec ts = Some o -> rat_texts_ok o = true.
Proof.
  intros LX T. destruct o as [[[[rel nneg] n] d] b]. destruct (rat_tokens_spec_texts _ _ _ _ _ _ T) as [(nt & In1 & Vn & <-) HD].
  destruct (lex_join _ _ LX) as [_ TOK]. pose proof (lex_value_tokens _ _ LX) as LIT. rewrite Forall_forall in TOK, LIT.
  unfold rat_texts_ok. rewrite (value_tok_text_ok nt (TOK nt In1) Vn), (lit_no_slash _ (LIT nt In1 Vn)). cbn [andb].
  destruct d as [[dneg dt]|]; [|reflexivity]. destruct HD as (dtok & In2 & Vd & <-). apply value_tok_text_ok; [apply TOK; exact In2 | exact Vd].
Qed.

(** rbig!/static_rbig! from the SOURCE TEXT: whatever the lexer cuts out of a text, the macro builds (const, heap or static
    path, any target word size) the components the run-time ratio parser builds from  [-]num[/[-]den]  in that radix, and
    is a compile error exactly when the tokens are no fraction literal or the run-time parser refuses that text *)
Theorem src_rat_macro_runtime w wbits static_ s ts : std_word wbits -> lex s = LexOk ts ->
  macro_rat_asis w wbits static_ ts =
  match rat_tokens_spec ts with
  | Some o => match rat_runtime w o with Some (a, c) => Some (fst (fst (fst (fst o))), (a, c)) | None => None end
  | None => None
  end.
Proof.
  intros Hb LX. rewrite (macro_rat_asis_parts w wbits static_ ts Hb). destruct (rat_tokens_spec ts) as [o|] eqn:T; [|reflexivity].
  rewrite (macro_rat_parts_eq_runtime w o (src_rat_texts_ok _ _ _ LX T)). destruct (rat_runtime w o) as [[a c]|]; reflexivity.
Qed.

(** `~ -3 / 0x10 ` : relaxed, the denominator in the radix of ... the numerator has no prefix: inconsistent radix, refused by
    both; `0x6 / 0x4`: 3/2 *)
Example src_rat_examples :
  (exists ts, lex [48; 120; 54; 32; 47; 32; 48; 120; 52] = LexOk ts /\ macro_rat_asis 64 64 false ts = Some (false, (3, 2))) /\
  (exists ts, lex [126; 45; 51; 47; 48; 120; 49; 48] = LexOk ts /\ macro_rat_asis 64 32 true ts = None).
Proof.
  split; eexists; (split; [vm_compute; reflexivity|]); vm_compute; reflexivity.
Qed.
