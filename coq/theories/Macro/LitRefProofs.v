(** C20 (round 3) - proofs about Macro/LitRefModel.v: the macros build the number the literal GRAMMAR denotes
    (C07 body_rel / digits_value for integers and fractions, C08 TextIoSpec.parse_spec for floats), and the
    same number as the run-time parser of the crate (C07 / C08 / C04 as-is models) on the same text. *)
From Dashu Require Import Base.Prelude Base.Words Int.IoSpec Int.IoModel Int.IoDigits Int.IoRound Int.IoPow2
  Float.Model Float.ModelProof Float.TextIoSpec Float.TextIoModel Float.ParseProof
  Float.PartsConstModel Float.PartsConstProof
  Ratio.RatArithModel Ratio.RatArithCanon Ratio.RatArithProofs Ratio.RatArithRelaxed Ratio.RatArithRelaxedInv
  Macro.LitModel Macro.LitGenProofs Macro.LitTokProofs Macro.LitRefModel.
Open Scope Z_scope.

(** the word sizes the run-time parsers are proved for (C07): any even w with 36 < 2^w *)
Definition parser_word (w : Z) : Prop := 0 < w /\ w mod 2 = 0 /\ 36 < Bw w.

Lemma parser_word_64 : parser_word 64. Proof. unfold parser_word, Bw. repeat split; reflexivity. Qed.

(* ------------------------------------------------------------------------------------------ *)
(** * integers *)

Lemma strip_sign_false s : fst (strip_sign false s) = Positive.
Proof.
  destruct s as [|c t]; [reflexivity|]. unfold strip_sign.
  destruct c as [|p|p]; try reflexivity.
  repeat (destruct p as [p|p|]; try reflexivity).
Qed.

Lemma signed_pos m : signed Positive m = m.
Proof. unfold signed, sgnz. lia. Qed.

Lemma body_digits_range r : forall s ds, body_digits r s = Some ds -> in_range r ds.
Proof.
  induction s as [|c t IH]; intros ds H; cbn [body_digits] in H.
  - inversion H. constructor.
  - destruct (c =? 95); [apply IH; exact H|].
    destruct (digit_from_ascii r c) as [d|] eqn:D; [|discriminate].
    destruct (body_digits r t) as [ds'|]; [|discriminate]. inversion H; subst.
    constructor; [eapply digit_from_ascii_range; exact D | apply IH; reflexivity].
Qed.

Lemma body_spec_iff r s n : body_spec r s = Ok n <-> exists ds, body_rel r s ds /\ ds <> [] /\ n = digits_value r ds.
Proof.
  split; [apply body_spec_ok|]. intros (ds & R & N & ->). apply body_spec_complete; assumption.
Qed.

Lemma body_spec_nonneg r s n : 2 <= r -> body_spec r s = Ok n -> 0 <= n.
Proof.
  intros Hr H. apply body_spec_ok in H. destruct H as (ds & R & _ & ->).
  apply body_digits_rel in R. apply body_digits_range in R. pose proof (value_bounds r Hr ds R). lia.
Qed.

Lemma radix_valid_ge r : radix_valid r = true -> 2 <= r <= 36.
Proof. unfold radix_valid. intros H. apply andb_true_iff in H. destruct H as [A B]. apply Z.leb_le in A, B. lia. Qed.

Lemma strip_radix_prefix_ge default s : 2 <= default -> 2 <= fst (strip_radix_prefix default s).
Proof.
  intros H. unfold strip_radix_prefix.
  repeat (match goal with |- context [match ?x with _ => _ end] => destruct x; cbn [fst]; try lia end).
Qed.

Theorem macro_uint_asis_spec w v b : parser_word w -> macro_uint_asis w v b = macro_uint_value v b.
Proof.
  intros (H1 & H2 & H3). unfold macro_uint_asis, macro_uint_value. destruct b as [bt|].
  - destruct (parse_u32 bt); [|reflexivity]. rewrite from_str_radix_asis_correct by assumption. reflexivity.
  - rewrite from_str_prefix_asis_correct by (try assumption; lia). reflexivity.
Qed.

(** the value the macro reads from the value token is the one C07's grammar gives to its digits *)
Theorem macro_uint_value_literal v b m r :
  macro_uint_value v b = Some (m, r) <->
  exists body ds, uint_text_split v b = Some (r, body) /\ body_rel r body ds /\ ds <> [] /\ m = digits_value r ds.
Proof.
  unfold macro_uint_value, uint_text_split. destruct b as [bt|].
  - destruct (parse_u32 bt) as [r0|]; [|split; [discriminate | intros (? & ? & H & _); discriminate]].
    unfold from_str_radix_spec, from_str_radix_gen. destruct (radix_valid r0) eqn:RV.
    + pose proof (strip_sign_false v) as SF. destruct (strip_sign false v) as [sg body0]. cbn [fst snd] in *. subst sg.
      unfold rmap, rbind. destruct (body_spec r0 body0) as [n| | |] eqn:BS.
      * rewrite signed_pos. apply body_spec_iff in BS. split.
        -- intros H. inversion H; subst. destruct BS as (ds & R & N & E). exists body0, ds. auto.
        -- intros (body & ds & H & R & N & ->). inversion H; subst. destruct BS as (ds' & R' & N' & ->).
           apply body_digits_rel in R, R'. rewrite R in R'. inversion R'; subst. reflexivity.
      * split; [discriminate|]. intros (body & ds & H & R & N & _). inversion H; subst.
        rewrite (body_spec_complete _ _ _ R N) in BS. discriminate.
      * split; [discriminate|]. intros (body & ds & H & R & N & _). inversion H; subst.
        rewrite (body_spec_complete _ _ _ R N) in BS. discriminate.
      * split; [discriminate|]. intros (body & ds & H & R & N & _). inversion H; subst.
        rewrite (body_spec_complete _ _ _ R N) in BS. discriminate.
    + split; [discriminate | intros (? & ? & H & _); discriminate].
  - unfold from_str_prefix_spec, from_str_prefix_gen.
    pose proof (strip_sign_false v) as SF. destruct (strip_sign false v) as [sg body0]. cbn [fst snd] in *. subst sg.
    destruct (strip_radix_prefix 10 body0) as [r0 body1]. unfold rmap, rbind.
    destruct (body_spec r0 body1) as [n| | |] eqn:BS.
    + rewrite signed_pos. apply body_spec_iff in BS. split.
      * intros H. inversion H; subst. destruct BS as (ds & R & N & E). exists body1, ds. auto.
      * intros (body & ds & H & R & N & ->). inversion H; subst. destruct BS as (ds' & R' & N' & ->).
        apply body_digits_rel in R, R'. rewrite R in R'. inversion R'; subst. reflexivity.
    + split; [discriminate|]. intros (body & ds & H & R & N & _). inversion H; subst.
      rewrite (body_spec_complete _ _ _ R N) in BS. discriminate.
    + split; [discriminate|]. intros (body & ds & H & R & N & _). inversion H; subst.
      rewrite (body_spec_complete _ _ _ R N) in BS. discriminate.
    + split; [discriminate|]. intros (body & ds & H & R & N & _). inversion H; subst.
      rewrite (body_spec_complete _ _ _ R N) in BS. discriminate.
Qed.

Lemma macro_uint_value_nonneg v b m r : macro_uint_value v b = Some (m, r) -> 0 <= m /\ 2 <= r.
Proof.
  intros H. apply macro_uint_value_literal in H. destruct H as (body & ds & S & R & _ & ->).
  assert (Hr : 2 <= r).
  { unfold uint_text_split in S. destruct b as [bt|].
    - destruct (parse_u32 bt) as [r0|]; [|discriminate]. destruct (radix_valid r0) eqn:RV; [|discriminate].
      inversion S; subst. apply radix_valid_ge in RV. lia.
    - inversion S as [E]. pose proof (strip_radix_prefix_ge 10 (snd (strip_sign false v)) ltac:(lia)) as G.
      rewrite E in G. exact G. }
  split; [|exact Hr]. apply body_digits_rel in R. apply body_digits_range in R. pose proof (value_bounds r Hr ds R). lia.
Qed.

(** ubig!/ibig!/static_ubig!/static_ibig!: for every token list, every host word size the parser is proved
    for and every target word size, the macro compiles iff the tokens are a literal of the grammar, and then
    it builds exactly the number the literal denotes - on the const, the heap and the static path alike *)
Theorem macro_int_asis_literal w wbits signed_ static_ ts z : parser_word w -> std_word wbits ->
  (macro_int_asis w wbits signed_ static_ ts = Some z <-> int_literal signed_ ts z).
Proof.
  intros Hw Hb. unfold macro_int_asis, int_literal. rewrite int_tokens_asis_eq_spec.
  destruct (int_tokens_spec signed_ ts) as [[[neg v] b]|].
  - rewrite macro_uint_asis_spec by exact Hw. destruct (macro_uint_value v b) as [[m r]|] eqn:MV.
    + destruct (macro_uint_value_nonneg _ _ _ _ MV) as [Hm _].
      rewrite gen_int_asis_correct by assumption. unfold int_spec.
      apply macro_uint_value_literal in MV. destruct MV as (body & ds & S & R & N & ->). split.
      * intros H. inversion H; subst. exists neg, v, b, r, body, ds. auto.
      * intros (neg' & v' & b' & r' & body' & ds' & E & S' & R' & N' & ->). inversion E; subst.
        assert (MV' : macro_uint_value v' b' = Some (digits_value r' ds', r'))
          by (apply macro_uint_value_literal; exists body', ds'; auto).
        assert (MV : macro_uint_value v' b' = Some (digits_value r ds, r))
          by (apply macro_uint_value_literal; exists body, ds; auto).
        rewrite MV in MV'. inversion MV'. reflexivity.
    + split; [discriminate|]. intros (neg' & v' & b' & r' & body' & ds' & E & S' & R' & N' & _). inversion E; subst.
      assert (MV' : macro_uint_value v' b' = Some (digits_value r' ds', r'))
        by (apply macro_uint_value_literal; exists body', ds'; auto).
      rewrite MV in MV'. discriminate.
  - split; [discriminate|]. intros (neg' & v' & b' & r' & body' & ds' & E & _). discriminate.
Qed.

Example macro_int_literal_nonvacuous :
  macro_int_asis 64 32 true true [mk_tok TPunct [45]; mk_tok TIdent [97; 51; 102]; mk_tok TIdent t_base; mk_tok TLit [49; 54]]
  = Some (- 2623) /\
  macro_int_asis 64 64 false false [mk_tok TLit [48; 120; 49; 95; 48; 48; 48; 48; 95; 48; 48; 48; 48]] = Some (2 ^ 32).
Proof. split; vm_compute; reflexivity. Qed.

(** with a `base N` suffix the digits are digits of radix N even where they look like a radix prefix
    (`0b101 base 16` = 0xb101, `0o17 base 32`, `0x1f base 36`); where the letter is no digit of N it is no literal *)
Example macro_int_pseudo_prefix :
  macro_int_asis 64 64 false false [mk_tok TLit [48; 98; 49; 48; 49]; mk_tok TIdent t_base; mk_tok TLit [49; 54]] = Some 45313 /\
  macro_int_asis 64 32 false true [mk_tok TLit [48; 111; 49; 55]; mk_tok TIdent t_base; mk_tok TLit [51; 50]] = Some 24615 /\
  macro_int_asis 64 64 true false [mk_tok TPunct [45]; mk_tok TLit [48; 120; 49; 102]; mk_tok TIdent t_base; mk_tok TLit [51; 54]] = Some (- 42819) /\
  macro_int_asis 64 64 false false [mk_tok TLit [48; 120; 49; 48]; mk_tok TIdent t_base; mk_tok TLit [49; 48]] = None /\
  macro_int_asis 64 64 false false [mk_tok TLit [48; 98; 49; 48; 49]; mk_tok TIdent t_base; mk_tok TLit [49; 49]] = None.
Proof. repeat split; vm_compute; reflexivity. Qed.

(** ... and it is the number the run-time parser of the same signedness returns for the text sign + value *)
Lemma strip_sign_clean sg v : value_text_ok v = true -> strip_sign sg v = (Positive, v).
Proof.
  destruct v as [|c t]; [discriminate|]. cbn [value_text_ok]. intros H. apply negb_true_iff, orb_false_iff in H.
  destruct H as [H1 H2]. apply Z.eqb_neq in H1, H2. unfold strip_sign.
  destruct c as [|p|p]; try reflexivity.
  repeat (destruct p as [p|p|]; try reflexivity); lia.
Qed.

Theorem macro_int_eq_runtime w signed_ neg v b : parser_word w -> value_text_ok v = true -> (neg = true -> signed_ = true) ->
  int_runtime w signed_ neg v b =
  match macro_uint_asis w v b with Some (m, _) => Some (signed (sign_of_neg neg) m) | None => None end.
Proof.
  intros (H1 & H2 & H3) Hv Hn. unfold int_runtime, macro_uint_asis.
  assert (SS : strip_sign signed_ (sign_text neg ++ v) = (sign_of_neg neg, v)).
  { destruct neg; cbn [sign_text app sign_of_neg].
    - rewrite (Hn eq_refl). reflexivity.
    - apply strip_sign_clean. exact Hv. }
  pose proof (strip_sign_clean false v Hv) as SF.
  destruct b as [bt|].
  - destruct (parse_u32 bt) as [r|]; [|reflexivity].
    unfold from_str_radix_asis, from_str_radix_gen. destruct (radix_valid r); [|reflexivity].
    rewrite SS, SF. unfold rmap, rbind. destruct (body_asis w r v); try reflexivity. rewrite signed_pos. reflexivity.
  - unfold from_str_prefix_asis, from_str_prefix_gen. rewrite SS, SF.
    destruct (strip_radix_prefix 10 v) as [r body]. unfold rmap, rbind. destruct (body_asis w r body); try reflexivity.
    rewrite signed_pos. reflexivity.
Qed.

(* ------------------------------------------------------------------------------------------ *)
(** * floats *)

Lemma span_run_range r s ds n rest : span_run r s = (ds, n, rest) -> in_range r ds.
Proof.
  intros H. apply span_run_spec in H. destruct H as (run & _ & _ & Bd & _). eapply body_digits_range. exact Bd.
Qed.

Lemma frac_run_range r s3 fds nf s4 :
  (match s3 with c :: t => if c =? 46 then span_run r t else ([], 0, s3) | [] => ([], 0, s3) end) = (fds, nf, s4) ->
  in_range r fds.
Proof.
  destruct s3 as [|c t].
  - intros H. inversion H. constructor.
  - destruct (c =? 46).
    + apply span_run_range.
    + intros H. inversion H. constructor.
Qed.

Lemma strip_float_sign_cases s : fst (strip_float_sign s) = 1 \/ fst (strip_float_sign s) = -1.
Proof.
  destruct s as [|c t]; [left; reflexivity|]. unfold strip_float_sign.
  destruct c as [|p|p]; try (left; reflexivity).
  repeat (destruct p as [p|p|]; try (left; reflexivity); try (right; reflexivity)).
Qed.

Lemma strip_float_sign_clean s : starts_with_sign s = false -> strip_float_sign s = (1, s).
Proof.
  destruct s as [|c t]; [reflexivity|]. cbn [starts_with_sign]. intros H. apply orb_false_iff in H.
  destruct H as [H1 H2]. apply Z.eqb_neq in H1, H2. unfold strip_float_sign.
  destruct c as [|p|p]; try reflexivity.
  repeat (destruct p as [p|p|]; try reflexivity); lia.
Qed.

Lemma strip_hex_prefix_base B s : fst (strip_hex_prefix B s) = true -> B = 2.
Proof.
  unfold strip_hex_prefix. destruct (Z.eqb_spec B 2); [auto|]. cbn [fst]. discriminate.
Qed.

Lemma normalize_facts B s e : 2 <= B ->
  let '(s', e') := normalize B s e in
  Z.abs s' <= Z.abs s /\ (s' = 0 -> e' = 0) /\ (s' <> 0 -> Z.abs s' mod B <> 0) /\ (0 <= s -> 0 <= s') /\ (s <= 0 -> s' <= 0).
Proof.
  intros HB. pose proof (normalize_spec B HB s e) as N. destruct (normalize B s e) as [s' e']. destruct N as [N0 N1].
  destruct (Z.eq_dec s 0) as [->|Hs].
  - destruct (N0 eq_refl) as [-> ->]. repeat split; try lia.
  - destruct (N1 Hs) as (Hs' & Hm & k & Hk & He & Hv).
    assert (Hp : 1 <= B ^ k) by (pose proof (Z.pow_pos_nonneg B k ltac:(lia) Hk); lia).
    assert (Ha : Z.abs s = Z.abs s' * B ^ k) by (rewrite Hv, Z.abs_mul, (Z.abs_eq (B ^ k)) by lia; reflexivity).
    split; [|split; [|split; [|split]]].
    + rewrite Ha. pose proof (Z.abs_nonneg s'). clear - Hp H. nia.
    + intros; contradiction.
    + intros _ E. apply Hm. apply Z.mod_divide; [lia|]. apply Z.mod_divide in E; [|lia].
      apply (proj1 (Z.divide_abs_r B s')) in E. exact E.
    + intros H0. clear - Hv Hp H0. nia.
    + intros H0. clear - Hv Hp H0. nia.
Qed.

(** a literal of C08's grammar hands the generators what they are proved for: a normalised significand and at
    least as many digits of precision as the significand has *)
Theorem parse_spec_float_pre B s sig e p : 2 <= B -> TextIoSpec.parse_spec B s = Some (sig, e, p) ->
  float_pre B (Z.abs sig) e p.
Proof.
  intros HB H. unfold TextIoSpec.parse_spec in H.
  pose proof (strip_float_sign_cases s) as SG. destruct (strip_float_sign s) as [sg s1]. cbn [fst] in SG.
  pose proof (strip_hex_prefix_base B s1) as HX. destruct (strip_hex_prefix B s1) as [hex s2]. cbn [fst] in HX.
  set (r := if hex then 16 else B) in *. set (per := if hex then 4 else 1) in *.
  destruct (span_run r s2) as [[ids ni] s3] eqn:S1. apply span_run_range in S1.
  match type of H with context [match ?x with pair _ _ => _ end] => destruct x as [[fds nf] s4] eqn:S2 end.
  apply frac_run_range in S2.
  match type of H with match ?x with Some _ => _ | None => _ end = _ => destruct x as [sc|]; [|discriminate] end.
  match type of H with (if ?x then _ else _) = _ => destruct x; [|discriminate] end.
  set (v := digits_value r (ids ++ fds)) in *. set (e0 := sc - per * len fds) in *.
  pose proof (normalize_facts B (sg * v) e0 HB) as NF. destruct (normalize B (sg * v) e0) as [s' e'].
  destruct (in_isize e'); [|discriminate]. inversion H; subst sig e p. clear H.
  destruct NF as (N1 & N2 & N3 & _).
  assert (Hr : 2 <= r) by (unfold r; destruct hex; lia).
  assert (R : in_range r (ids ++ fds)) by (apply Forall_app; split; assumption).
  pose proof (value_bounds r Hr _ R) as VB. fold v in VB. rewrite len_app in VB.
  pose proof (len_nonneg ids). pose proof (len_nonneg fds).
  assert (PW : r ^ (len ids + len fds) = B ^ (per * (len ids + len fds))).
  { unfold r, per. destruct hex.
    - rewrite (HX eq_refl). rewrite Z.pow_mul_r by lia. reflexivity.
    - rewrite Z.mul_1_l. reflexivity. }
  assert (AV : Z.abs (sg * v) = v) by (destruct SG as [-> | ->]; rewrite Z.abs_mul; cbn [Z.abs]; rewrite Z.abs_eq; lia).
  unfold float_pre. split; [apply Z.abs_nonneg|]. split; [unfold per; destruct hex; lia|].
  split; [intros E; apply N2; lia|]. intros Hpos. split; [apply N3; lia | lia].
Qed.

Lemma parse_spec_clean_nonneg B body sig e p : 2 <= B -> starts_with_sign body = false ->
  TextIoSpec.parse_spec B body = Some (sig, e, p) -> 0 <= sig.
Proof.
  intros HB C H. unfold TextIoSpec.parse_spec in H. rewrite (strip_float_sign_clean body C) in H.
  destruct (strip_hex_prefix B body) as [hex s2].
  set (r := if hex then 16 else B) in *.
  destruct (span_run r s2) as [[ids ni] s3] eqn:S1. apply span_run_range in S1.
  match type of H with context [match ?x with pair _ _ => _ end] => destruct x as [[fds nf] s4] eqn:S2 end.
  apply frac_run_range in S2.
  match type of H with match ?x with Some _ => _ | None => _ end = _ => destruct x as [sc|]; [|discriminate] end.
  match type of H with (if ?x then _ else _) = _ => destruct x; [|discriminate] end.
  assert (Hr : 2 <= r) by (unfold r; destruct hex; lia).
  assert (R : in_range r (ids ++ fds)) by (apply Forall_app; split; assumption).
  pose proof (value_bounds r Hr _ R) as VB.
  match type of H with context [normalize B ?x ?y] => pose proof (normalize_facts B x y HB) as NF; destruct (normalize B x y) as [s' e'] end.
  destruct (in_isize e'); [|discriminate]. inversion H; subst. destruct NF as (_ & _ & _ & N4 & _). apply N4. lia.
Qed.

Lemma fbin_text_spec_clean ts s body : fbin_text_spec ts = Some (s, body) -> starts_with_sign body = false.
Proof.
  unfold fbin_text_spec. cbv beta zeta. intros H.
  assert (G : forall s0 t, (if starts_with_sign (strip_us t) then None else Some (s0, strip_us t)) = Some (s, body) ->
                           starts_with_sign body = false).
  { intros s0 t. destruct (starts_with_sign (strip_us t)) eqn:E; [discriminate|]. intros X. inversion X; subst. exact E. }
  destruct (join_tokens ts) as [|c t]; [(match type of H with context [strip_us ?x] => first [exact (G Positive x H) | exact (G Negative x H)] end)|].
  destruct c as [|q|q]; try (match type of H with context [strip_us ?x] => first [exact (G Positive x H) | exact (G Negative x H)] end).
  repeat (destruct q as [q|q|]; try (match type of H with context [strip_us ?x] => first [exact (G Positive x H) | exact (G Negative x H)] end)).
Qed.

Lemma signed_abs_nonneg s m : 0 <= m -> signed s (Z.abs m) = signed s m.
Proof. intros H. rewrite Z.abs_eq by exact H. reflexivity. Qed.

(** fbig!/static_fbig!: a literal of the grammar (C08), outside the two recorded precision classes, builds exactly the
    written significand, exponent and digit count, for every target word size and on every generator path *)
Theorem macro_fbin_correct wbits static_ ts r : std_word wbits -> fbin_literal ts r -> ~ Known_float static_ r ->
  macro_fbin_asis wbits static_ ts = Some r.
Proof.
  intros Hw (s & body & sig & e & p & T & P & ->) NK. unfold macro_fbin_asis. rewrite fbin_text_asis_spec, T.
  pose proof (proj2 (fbig_from_str_iff 2 body (sig, e, p) eq_refl) P) as F. rewrite F.
  pose proof (parse_spec_clean_nonneg 2 body sig e p ltac:(lia) (fbin_text_spec_clean _ _ _ T) P) as Hs.
  destruct (Z.leb_spec 0 sig); [|lia].
  pose proof (parse_spec_float_pre 2 body sig e p ltac:(lia) P) as FP.
  assert (A : Z.abs (signed s sig) = Z.abs sig).
  { unfold signed, sgnz. destruct s; rewrite Z.abs_mul; cbn [Z.abs]; lia. }
  unfold Known_float in NK. rewrite A in NK.
  rewrite gen_float_asis_correct; auto. unfold float_spec. rewrite signed_abs_nonneg by exact Hs. reflexivity.
Qed.

(** ... and everything else is a compile error *)
Theorem macro_fbin_rejects wbits static_ ts r : macro_fbin_asis wbits static_ ts = Some r ->
  exists s body sig e p, fbin_text_spec ts = Some (s, body) /\ TextIoSpec.parse_spec 2 body = Some (sig, e, p).
Proof.
  unfold macro_fbin_asis. rewrite fbin_text_asis_spec. destruct (fbin_text_spec ts) as [[s body]|]; [|discriminate].
  destruct (fbig_from_str_asis 2 body) as [[[sig e] p]| | |] eqn:F; try discriminate. intros _.
  apply (fbig_from_str_iff 2 body (sig, e, p) eq_refl) in F. exists s, body, sig, e, p. auto.
Qed.

Lemma signed_sign_of_abs x : signed (sign_of x) (Z.abs x) = x.
Proof. apply signed_sign_abs. Qed.

(** dbig!/static_dbig! *)
Theorem macro_fdec_correct wbits static_ ts r : std_word wbits -> fdec_literal ts r -> ~ Known_float static_ r ->
  macro_fdec_asis wbits static_ ts = Some r.
Proof.
  intros Hw P NK. destruct r as [[sig e] p]. unfold fdec_literal in P. unfold macro_fdec_asis.
  pose proof (proj2 (fbig_from_str_iff 10 _ (sig, e, p) eq_refl) P) as F. rewrite F.
  pose proof (parse_spec_float_pre 10 _ sig e p ltac:(lia) P) as FP. unfold Known_float in NK.
  rewrite gen_float_asis_correct; auto. unfold float_spec. rewrite signed_sign_of_abs. reflexivity.
Qed.

Theorem macro_fdec_rejects wbits static_ ts r : macro_fdec_asis wbits static_ ts = Some r ->
  exists v, TextIoSpec.parse_spec 10 (join_tokens ts) = Some v.
Proof.
  unfold macro_fdec_asis. destruct (fbig_from_str_asis 10 (join_tokens ts)) as [[[sig e] p]| | |] eqn:F; try discriminate.
  intros _. apply (fbig_from_str_iff 10 _ (sig, e, p) eq_refl) in F. eauto.
Qed.

Example macro_float_nonvacuous :
  fdec_literal [mk_tok TPunct [45]; mk_tok TLit [49; 46; 50; 53; 101; 45; 51]] (-125, -5, 3) /\
  ~ Known_float true (-125, -5, 3) /\
  fbin_literal [mk_tok TPunct [45]; mk_tok TIdent [95; 48; 120; 49]; mk_tok TPunct [46]; mk_tok TLit [56; 112]; mk_tok TPunct [45]; mk_tok TLit [51]] (-3, -4, 8).
Proof.
  split; [vm_compute; reflexivity|]. split.
  - intros [[_ [H _]]|[H _]]; vm_compute in H; discriminate.
  - exists Negative, [48; 120; 49; 46; 56; 112; 45; 51], 3, (-4), 8. repeat split; vm_compute; reflexivity.
Qed.

(** the run-time text of an fbig! literal is sign + body: FBig::from_str reads the sign the macro strips itself *)
Lemma normalize_opp B x e : 2 <= B -> normalize B (- x) e = (- fst (normalize B x e), snd (normalize B x e)).
Proof.
  intros HB. pose proof (normalize_spec B HB x e) as N. destruct (normalize B x e) as [s' e'] eqn:E. cbn [fst snd].
  destruct N as [N0 N1]. destruct (Z.eq_dec x 0) as [->|Hx].
  - destruct (N0 eq_refl) as [-> ->]. cbn [Z.opp]. exact E.
  - destruct (N1 Hx) as (Hs' & Hm & k & Hk & He & Hv).
    apply (normalize_char B HB); [lia | |].
    + intros X. apply Hm. apply Z.mod_divide; [lia|]. apply Z.mod_divide in X; [|lia]. apply (proj1 (Z.divide_opp_r B s')) in X. exact X.
    + exists k. split; [exact Hk|]. split; [exact He|]. rewrite Hv. ring.
Qed.

Theorem fbin_runtime_text body sig e p : starts_with_sign body = false ->
  TextIoSpec.parse_spec 2 body = Some (sig, e, p) ->
  TextIoSpec.parse_spec 2 (45 :: body) = Some (- sig, e, p) /\ TextIoSpec.parse_spec 2 (43 :: body) = Some (sig, e, p).
Proof.
  intros C H. split.
  - unfold TextIoSpec.parse_spec in *. rewrite (strip_float_sign_clean body C) in H.
    change (strip_float_sign (45 :: body)) with (-1, body). cbv beta iota zeta in *.
    destruct (strip_hex_prefix 2 body) as [hex s2].
    destruct (span_run (if hex then 16 else 2) s2) as [[ids ni] s3].
    match type of H with context [match ?x with pair _ _ => _ end] => destruct x as [[fds nf] s4] end.
    match type of H with match ?x with Some _ => _ | None => _ end = _ => destruct x as [sc|]; [|discriminate] end.
    match type of H with (if ?x then _ else _) = _ => destruct x; [|discriminate] end.
    match type of H with context [normalize 2 (1 * ?x) ?y] =>
      replace (-1 * x) with (- (1 * x)) by ring; rewrite (normalize_opp 2 (1 * x) y ltac:(lia));
      destruct (normalize 2 (1 * x) y) as [s' e'] end.
    cbn [fst snd]. destruct (in_isize e'); [|discriminate]. inversion H; subst. reflexivity.
  - unfold TextIoSpec.parse_spec in *. rewrite (strip_float_sign_clean body C) in H.
    change (strip_float_sign (43 :: body)) with (1, body). exact H.
Qed.

(* ------------------------------------------------------------------------------------------ *)
(** * ratios *)

Definition rmatch {A B} (x : result A) (f : A -> B) : result B :=
  match x with Ok a => Ok (f a) | Panic r => Panic r | Err e => Err e | OutOfFuel => OutOfFuel end.

Lemma sign_text_strip neg v : value_text_ok v = true -> strip_sign true (sign_text neg ++ v) = (sign_of_neg neg, v).
Proof. intros Hv. destruct neg; cbn [sign_text app sign_of_neg]; [reflexivity | apply strip_sign_clean; exact Hv]. Qed.

Lemma radix_signed w r neg v : value_text_ok v = true ->
  from_str_radix_asis w true r (sign_text neg ++ v) = rmatch (from_str_radix_asis w false r v) (signed (sign_of_neg neg)).
Proof.
  intros Hv. unfold from_str_radix_asis, from_str_radix_gen. destruct (radix_valid r); [|reflexivity].
  rewrite (sign_text_strip neg v Hv), (strip_sign_clean false v Hv). unfold rmap, rbind, rmatch.
  destruct (body_asis w r v); try reflexivity. rewrite signed_pos. reflexivity.
Qed.

Lemma prefix_signed w dflt neg v : value_text_ok v = true ->
  from_str_prefix_asis w true dflt (sign_text neg ++ v) =
  rmatch (from_str_prefix_asis w false dflt v) (fun mr => (signed (sign_of_neg neg) (fst mr), snd mr)).
Proof.
  intros Hv. unfold from_str_prefix_asis, from_str_prefix_gen.
  rewrite (sign_text_strip neg v Hv), (strip_sign_clean false v Hv).
  destruct (strip_radix_prefix dflt v) as [r body]. unfold rmap, rbind, rmatch.
  destruct (body_asis w r body); try reflexivity. cbn [fst snd]. rewrite signed_pos. reflexivity.
Qed.

Lemma split_slash_none a : no_slash a = true -> split_slash a = (a, None).
Proof.
  induction a as [|c t IH]; [reflexivity|]. cbn [no_slash forallb split_slash]. intros H. apply andb_true_iff in H.
  destruct H as [H1 H2]. apply negb_true_iff in H1. rewrite H1. fold (no_slash t) in H2. rewrite (IH H2). reflexivity.
Qed.

Lemma split_slash_some a rest : no_slash a = true -> split_slash (a ++ 47 :: rest) = (a, Some rest).
Proof.
  induction a as [|c t IH]; [reflexivity|]. cbn [no_slash forallb split_slash app]. intros H. apply andb_true_iff in H.
  destruct H as [H1 H2]. apply negb_true_iff in H1. rewrite H1. fold (no_slash t) in H2. rewrite (IH H2). reflexivity.
Qed.

Lemma no_slash_sign neg n : no_slash n = true -> no_slash (sign_text neg ++ n) = true.
Proof. destruct neg; cbn [sign_text app]; [|auto]. intros H. cbn [no_slash forallb]. exact H. Qed.

(** C04's run-time constructors: the parser's and from_parts_signed's are the same function but for the kind of refusal *)
Lemma parse_is_from_parts_signed n d : opt_of (RatArithModel.parse_asis n d) = opt_of (from_parts_signed_asis n d).
Proof.
  unfold RatArithModel.parse_asis, from_parts_signed_asis, from_parts_asis.
  destruct (Z.eqb_spec d 0) as [->|Hd]; [reflexivity|]. destruct (Z.eqb_spec (Z.abs d) 0); [lia | reflexivity].
Qed.
Lemma xparse_is_xfrom_parts_signed n d : opt_of (xparse_asis n d) = opt_of (xfrom_parts_signed_asis n d).
Proof.
  unfold xparse_asis, xfrom_parts_signed_asis, xfrom_parts_asis.
  destruct (Z.eqb_spec d 0) as [->|Hd]; [reflexivity|]. destruct (Z.eqb_spec (Z.abs d) 0); [lia | reflexivity].
Qed.

Lemma build_eq (rel : bool) n d :
  opt_of (if rel then xparse_asis n d else RatArithModel.parse_asis n d) =
  match (if rel then xfrom_parts_signed_asis n d else from_parts_signed_asis n d) with Ok (a, c) => Some (a, c) | _ => None end.
Proof.
  destruct rel; [rewrite xparse_is_xfrom_parts_signed | rewrite parse_is_from_parts_signed]; unfold opt_of.
  - destruct (xfrom_parts_signed_asis n d) as [[a c]| | |]; reflexivity.
  - destruct (from_parts_signed_asis n d) as [[a c]| | |]; reflexivity.
Qed.

(** rbig!/static_rbig!: the components handed to the generators are those the run-time parser (rational/src/parse.rs over
    the C07 integer parsers, then C04's reduce / reduce2) builds from the text  [-]num[/[-]den]  in the same radix *)
Theorem macro_rat_parts_eq_runtime w o : rat_texts_ok o = true ->
  macro_rat_parts_asis w o =
  match rat_runtime w o with Some (a, c) => Some (fst (fst (fst (fst o))), a, c) | None => None end.
Proof.
  destruct o as [[[[rel nneg] n] d] b]. cbn [fst]. unfold rat_texts_ok. intros H.
  apply andb_true_iff in H. destruct H as [H Hd]. apply andb_true_iff in H. destruct H as [Hn Hs].
  unfold macro_rat_parts_asis, rat_runtime, rat_runtime_text.
  destruct b as [bt|].
  - destruct (parse_u32 bt) as [r|]; [|reflexivity]. unfold rat_from_str_radix_asis.
    destruct d as [[dneg dt]|].
    + rewrite app_assoc, split_slash_some by (apply no_slash_sign; exact Hs).
      rewrite !radix_signed by assumption. unfold rmatch.
      destruct (from_str_radix_asis w false r n) as [nv| | |]; try reflexivity.
      destruct (from_str_radix_asis w false r dt) as [dv| | |]; try reflexivity.
      rewrite build_eq. destruct (if rel then _ else _) as [[a c]| | |]; reflexivity.
    + rewrite app_nil_r, split_slash_none by (apply no_slash_sign; exact Hs).
      rewrite radix_signed by assumption. unfold rmatch.
      destruct (from_str_radix_asis w false r n) as [nv| | |]; try reflexivity.
      rewrite build_eq. cbn [sign_of_neg]. rewrite (signed_pos 1). destruct (if rel then _ else _) as [[a c]| | |]; reflexivity.
  - unfold rat_from_str_prefix_asis. destruct d as [[dneg dt]|].
    + rewrite app_assoc, split_slash_some by (apply no_slash_sign; exact Hs).
      rewrite prefix_signed by assumption. unfold rmatch at 1.
      destruct (from_str_prefix_asis w false 10 n) as [[nv nr]| | |]; try reflexivity. cbn [fst snd].
      rewrite prefix_signed by assumption. unfold rmatch.
      destruct (from_str_prefix_asis w false nr dt) as [[dv dr]| | |]; try reflexivity. cbn [fst snd].
      destruct (nr =? dr); [|reflexivity].
      rewrite build_eq. destruct (if rel then _ else _) as [[a c]| | |]; reflexivity.
    + rewrite app_nil_r, split_slash_none by (apply no_slash_sign; exact Hs).
      rewrite prefix_signed by assumption. unfold rmatch.
      destruct (from_str_prefix_asis w false 10 n) as [[nv nr]| | |]; try reflexivity. cbn [fst snd].
      rewrite build_eq. cbn [sign_of_neg]. rewrite (signed_pos 1). destruct (if rel then _ else _) as [[a c]| | |]; reflexivity.
Qed.

Lemma odd_abs_mod a : Z.even a = false -> Z.abs a mod 2 <> 0.
Proof.
  intros H. rewrite <- Z.negb_odd in H. apply negb_false_iff in H. apply Z.odd_spec in H. destruct H as [k Hk].
  pose proof (Z.div_mod (Z.abs a) 2 ltac:(lia)). pose proof (Z.mod_pos_bound (Z.abs a) 2 ltac:(lia)). lia.
Qed.

(** what C04 proves about the constructors: RBig components are in lowest terms, Relaxed ones have no common factor two *)
Lemma rat_ctor_value (rel : bool) num den a c :
  (if rel then xfrom_parts_signed_asis num den else from_parts_signed_asis num den) = Ok (a, c) ->
  den <> 0 /\ ratio_pre a c /\ ratio_reduced rel a c /\ a * den = num * c.
Proof.
  assert (SG : forall d, d <> 0 -> (d < 0 /\ sgnz (sign_of d) = -1 /\ Z.abs d = - d) \/ (0 < d /\ sgnz (sign_of d) = 1 /\ Z.abs d = d)).
  { intros d Hd. unfold sign_of. destruct (Z.ltb_spec d 0); [left | right]; cbn [sgnz]; lia. }
  destruct rel.
  - unfold xfrom_parts_signed_asis, xfrom_parts_asis. destruct (Z.eqb_spec (Z.abs den) 0) as [|Hd]; [discriminate|].
    intros H. assert (Hp : 0 < Z.abs den) by lia.
    pose proof (reduce2_asis_RInv2 _ _ _ Hp H) as (I1 & I2 & I3).
    destruct (reduce2_asis_ok (num * sgnz (sign_of den)) (Z.abs den) Hp) as (r' & E & _ & V). rewrite H in E. inversion E; subst r'.
    unfold veq in V. cbn [fst snd] in *. split; [lia|]. split; [split; assumption|]. split.
    + cbn [ratio_reduced]. apply andb_false_iff in I2. destruct I2 as [I2|I2].
      * right; left. apply odd_abs_mod. exact I2.
      * right; right. pose proof (odd_abs_mod c I2) as X. rewrite Z.abs_eq in X by lia. exact X.
    + destruct (SG den ltac:(lia)) as [(S1 & S2 & S3)|(S1 & S2 & S3)]; rewrite S2, S3 in V; lia.
  - rewrite from_parts_signed_asis_spec. unfold from_parts_signed_spec. destruct (Z.eqb_spec den 0) as [|Hd]; [discriminate|].
    intros H. assert (E : canon (num * Z.sgn den) (Z.abs den) = (a, c)) by (inversion H; reflexivity).
    assert (Hp : 0 < Z.abs den) by lia.
    pose proof (canon_Inv (num * Z.sgn den) (Z.abs den) Hp) as [I1 I2].
    pose proof (canon_veq (num * Z.sgn den) (Z.abs den) Hp) as V. rewrite E in I1, I2, V. unfold veq in V. cbn [fst snd] in *.
    split; [exact Hd|]. split; [split; [exact I1|]|].
    + intros ->. rewrite Z.gcd_0_l in I2. lia.
    + split; [exact I2|]. destruct (Z.lt_total den 0) as [L|[L|L]]; [| lia |].
      * rewrite Z.sgn_neg, Z.abs_neq in V by lia. lia.
      * rewrite Z.sgn_pos, Z.abs_eq in V by lia. lia.
Qed.

(** the three ratio generators and the constructors they call hand back exactly these components *)
Theorem macro_rat_asis_parts w wbits static_ ts : std_word wbits ->
  macro_rat_asis w wbits static_ ts =
  match rat_tokens_spec ts with
  | Some o => match macro_rat_parts_asis w o with Some (rel, a, c) => Some (rel, (a, c)) | None => None end
  | None => None
  end.
Proof.
  intros Hw. unfold macro_rat_asis. rewrite rat_tokens_asis_eq_spec. destruct (rat_tokens_spec ts) as [o|]; [|reflexivity].
  destruct (macro_rat_parts_asis w o) as [[[rel a] c]|] eqn:P; [|reflexivity].
  assert (G : ratio_pre a c /\ ratio_reduced rel a c).
  { unfold macro_rat_parts_asis in P. destruct o as [[[[rel0 nneg] n] d] b].
    match type of P with match ?x with Some _ => _ | None => _ end = _ => destruct x as [[[nv dneg] dv]|]; [|discriminate] end.
    match type of P with match ?x with Ok _ => _ | _ => _ end = _ => destruct x as [[a0 c0]| | |] eqn:C; try discriminate end.
    inversion P; subst. apply rat_ctor_value in C. tauto. }
  destruct G as [G1 G2]. rewrite (gen_ratio_asis_correct wbits static_ rel a c Hw G1 G2). reflexivity.
Qed.

(** the unsigned parsers of C07 on a value token, as grammar statements *)
Lemma radix_spec_literal r v m :
  from_str_radix_spec false r v = Ok m <->
  radix_valid r = true /\ exists ds, body_rel r (snd (strip_sign false v)) ds /\ ds <> [] /\ m = digits_value r ds.
Proof.
  unfold from_str_radix_spec, from_str_radix_gen. destruct (radix_valid r); [|split; [discriminate | intros [X _]; discriminate]].
  pose proof (strip_sign_false v) as SF. destruct (strip_sign false v) as [sg body]. cbn [fst snd] in *. subst sg.
  unfold rmap, rbind. destruct (body_spec r body) as [n| | |] eqn:BS.
  - rewrite signed_pos. rewrite body_spec_iff in BS. split.
    + intros H; inversion H; subst. split; [reflexivity | exact BS].
    + intros [_ (ds & R & N & ->)]. destruct BS as (ds' & R' & _ & ->). apply body_digits_rel in R, R'. rewrite R in R'.
      inversion R'. reflexivity.
  - split; [discriminate|]. intros [_ (ds & R & N & _)]. rewrite (body_spec_complete _ _ _ R N) in BS. discriminate.
  - split; [discriminate|]. intros [_ (ds & R & N & _)]. rewrite (body_spec_complete _ _ _ R N) in BS. discriminate.
  - split; [discriminate|]. intros [_ (ds & R & N & _)]. rewrite (body_spec_complete _ _ _ R N) in BS. discriminate.
Qed.

Lemma prefix_spec_literal dflt v m r :
  from_str_prefix_spec false dflt v = Ok (m, r) <->
  exists body ds, strip_radix_prefix dflt (snd (strip_sign false v)) = (r, body) /\ body_rel r body ds /\ ds <> [] /\ m = digits_value r ds.
Proof.
  unfold from_str_prefix_spec, from_str_prefix_gen.
  pose proof (strip_sign_false v) as SF. destruct (strip_sign false v) as [sg body0]. cbn [fst snd] in *. subst sg.
  destruct (strip_radix_prefix dflt body0) as [r0 body1]. unfold rmap, rbind.
  destruct (body_spec r0 body1) as [n| | |] eqn:BS.
  - rewrite signed_pos. rewrite body_spec_iff in BS. split.
    + intros H. inversion H; subst. destruct BS as (ds & R & N & E). exists body1, ds. auto.
    + intros (body & ds & H & R & N & ->). inversion H; subst. destruct BS as (ds' & R' & N' & ->).
      apply body_digits_rel in R, R'. rewrite R in R'. inversion R'; subst. reflexivity.
  - split; [discriminate|]. intros (body & ds & H & R & N & _). inversion H; subst.
    rewrite (body_spec_complete _ _ _ R N) in BS. discriminate.
  - split; [discriminate|]. intros (body & ds & H & R & N & _). inversion H; subst.
    rewrite (body_spec_complete _ _ _ R N) in BS. discriminate.
  - split; [discriminate|]. intros (body & ds & H & R & N & _). inversion H; subst.
    rewrite (body_spec_complete _ _ _ R N) in BS. discriminate.
Qed.

(** the parts of a fraction literal, read by the macro (function) and by the grammar (relation) *)
Definition rat_parts_value (w : Z) (n : list Z) (d : option (bool * list Z)) (b : option (list Z)) : option (Z * bool * Z) :=
  match b with
  | Some bt =>
    match parse_u32 bt with
    | Some r =>
      match from_str_radix_asis w false r n with
      | Ok nv =>
        match d with
        | Some (dneg, dt) => match from_str_radix_asis w false r dt with Ok dv => Some (nv, dneg, dv) | _ => None end
        | None => Some (nv, false, 1)
        end
      | _ => None
      end
    | None => None
    end
  | None =>
    match from_str_prefix_asis w false 10 n with
    | Ok (nv, nr) =>
      match d with
      | Some (dneg, dt) =>
        match from_str_prefix_asis w false nr dt with
        | Ok (dv, dr) => if nr =? dr then Some (nv, dneg, dv) else None
        | _ => None
        end
      | None => Some (nv, false, 1)
      end
    | _ => None
    end
  end.

Definition rat_parts_literal (nneg : bool) (n : list Z) (d : option (bool * list Z)) (b : option (list Z)) (num den : Z) : Prop :=
  exists r nbody nds,
    uint_text_split n b = Some (r, nbody) /\ body_rel r nbody nds /\ nds <> [] /\
    num = signed (sign_of_neg nneg) (digits_value r nds) /\
    match d with
    | None => den = 1
    | Some (dneg, dt) =>
      exists dbody dds,
        (match b with
         | Some _ => uint_text_split dt b = Some (r, dbody)
         | None => strip_radix_prefix r (snd (strip_sign false dt)) = (r, dbody)
         end) /\ body_rel r dbody dds /\ dds <> [] /\ den = signed (sign_of_neg dneg) (digits_value r dds)
    end.

Lemma rat_parts_value_literal w nneg n d b num den : parser_word w ->
  (rat_parts_literal nneg n d b num den <->
   exists nv dneg dv, rat_parts_value w n d b = Some (nv, dneg, dv) /\
                      num = signed (sign_of_neg nneg) nv /\ den = signed (sign_of_neg dneg) dv).
Proof.
  intros (H1 & H2 & H3). unfold rat_parts_value, rat_parts_literal, uint_text_split. destruct b as [bt|].
  - destruct (parse_u32 bt) as [r0|].
    2:{ split; [intros (r & nb & nds & X & _); discriminate | intros (nv & dneg & dv & X & _); discriminate]. }
    rewrite !from_str_radix_asis_correct by assumption. split.
    + intros (r & nbody & nds & S & R & N & -> & D). destruct (radix_valid r0) eqn:RV; [|discriminate]. inversion S; subst r nbody.
      assert (E : from_str_radix_spec false r0 n = Ok (digits_value r0 nds)) by (apply radix_spec_literal; split; [exact RV | eauto]).
      rewrite E. destruct d as [[dneg dt]|].
      * destruct D as (dbody & dds & S' & R' & N' & ->). inversion S'; subst dbody.
        assert (E' : from_str_radix_spec false r0 dt = Ok (digits_value r0 dds)) by (apply radix_spec_literal; split; [exact RV | eauto]).
        rewrite (from_str_radix_asis_correct w false r0 dt H1 H2 H3), E'. eauto 10.
      * subst den. exists (digits_value r0 nds), false, 1. rewrite signed_pos. auto.
    + intros (nv & dneg & dv & X & -> & ->).
      destruct (from_str_radix_spec false r0 n) as [nv'| | |] eqn:E; try discriminate.
      apply radix_spec_literal in E. destruct E as [RV (nds & R & N & ->)]. rewrite RV.
      exists r0, (snd (strip_sign false n)), nds. split; [reflexivity|]. split; [exact R|]. split; [exact N|].
      destruct d as [[dneg' dt]|].
      * rewrite (from_str_radix_asis_correct w false r0 dt H1 H2 H3) in X.
        destruct (from_str_radix_spec false r0 dt) as [dv'| | |] eqn:E'; try discriminate. inversion X; subst.
        split; [reflexivity|]. apply radix_spec_literal in E'. destruct E' as [_ (dds & R' & N' & ->)].
        exists (snd (strip_sign false dt)), dds. auto.
      * inversion X; subst. split; [reflexivity|]. rewrite signed_pos. reflexivity.
  - rewrite from_str_prefix_asis_correct by (try assumption; lia). split.
    + intros (r & nbody & nds & S & R & N & -> & D). inversion S as [S0].
      assert (E : from_str_prefix_spec false 10 n = Ok (digits_value r nds, r)) by (apply prefix_spec_literal; eauto 10).
      rewrite E. pose proof (strip_radix_prefix_ge 10 (snd (strip_sign false n)) ltac:(lia)) as G. rewrite S0 in G. cbn [fst] in G.
      assert (G2 : r <= 36).
      { clear - S0. unfold strip_radix_prefix in S0.
        repeat (match type of S0 with context [match ?x with _ => _ end] => destruct x end); inversion S0; lia. }
      destruct d as [[dneg dt]|].
      * destruct D as (dbody & dds & S' & R' & N' & ->).
        assert (E' : from_str_prefix_spec false r dt = Ok (digits_value r dds, r)) by (apply prefix_spec_literal; eauto 10).
        rewrite (from_str_prefix_asis_correct w false r dt H1 H2 H3 ltac:(lia)), E', Z.eqb_refl. eauto 10.
      * subst den. exists (digits_value r nds), false, 1. rewrite signed_pos. auto.
    + intros (nv & dneg & dv & X & -> & ->).
      destruct (from_str_prefix_spec false 10 n) as [[nv' nr]| | |] eqn:E; try discriminate.
      apply prefix_spec_literal in E. destruct E as (nbody & nds & S & R & N & ->).
      pose proof (strip_radix_prefix_ge 10 (snd (strip_sign false n)) ltac:(lia)) as G. rewrite S in G. cbn [fst] in G.
      assert (G2 : nr <= 36).
      { clear - S. unfold strip_radix_prefix in S.
        repeat (match type of S with context [match ?x with _ => _ end] => destruct x end); inversion S; lia. }
      exists nr, nbody, nds. split; [rewrite S; reflexivity|]. split; [exact R|]. split; [exact N|].
      destruct d as [[dneg' dt]|].
      * rewrite (from_str_prefix_asis_correct w false nr dt H1 H2 H3 ltac:(lia)) in X.
        destruct (from_str_prefix_spec false nr dt) as [[dv' dr]| | |] eqn:E'; try discriminate.
        destruct (Z.eqb_spec nr dr) as [<-|]; [|discriminate]. inversion X; subst.
        split; [reflexivity|]. apply prefix_spec_literal in E'. destruct E' as (dbody & dds & S' & R' & N' & ->).
        exists dbody, dds. auto.
      * inversion X; subst. split; [reflexivity|]. rewrite signed_pos. reflexivity.
Qed.

Lemma rat_literal_parts ts rel num den :
  rat_literal ts rel num den <->
  exists nneg n d b, rat_tokens_spec ts = Some (rel, nneg, n, d, b) /\ rat_parts_literal nneg n d b num den.
Proof.
  unfold rat_literal, rat_parts_literal. split.
  - intros (nneg & n & d & b & r & nbody & nds & T & S & R & N & E & D). exists nneg, n, d, b. split; [exact T|].
    exists r, nbody, nds. repeat (split; [assumption|]). assumption.
  - intros (nneg & n & d & b & T & r & nbody & nds & S & R & N & E & D). exists nneg, n, d, b, r, nbody, nds.
    repeat (split; [assumption|]). assumption.
Qed.

Lemma macro_rat_parts_asis_value w rel nneg n d b :
  macro_rat_parts_asis w (rel, nneg, n, d, b) =
  match rat_parts_value w n d b with
  | Some (nv, dneg, dv) =>
    match (if rel then xfrom_parts_signed_asis (signed (sign_of_neg nneg) nv) (signed (sign_of_neg dneg) dv)
           else from_parts_signed_asis (signed (sign_of_neg nneg) nv) (signed (sign_of_neg dneg) dv)) with
    | Ok (a, c) => Some (rel, a, c)
    | _ => None
    end
  | None => None
  end.
Proof. reflexivity. Qed.

(** rbig!/static_rbig!: the macro compiles iff the tokens are a fraction literal of the grammar with a non-zero
    denominator, and then its components are those of the written fraction num/den: equal in value, positive
    denominator, in lowest terms for RBig (no common factor two for Relaxed) - on all three generator paths *)
Theorem macro_rat_asis_literal w wbits static_ ts rel a c : parser_word w -> std_word wbits ->
  (macro_rat_asis w wbits static_ ts = Some (rel, (a, c)) <->
   exists num den, rat_literal ts rel num den /\
                   (if rel then xfrom_parts_signed_asis num den else from_parts_signed_asis num den) = Ok (a, c)).
Proof.
  intros Hw Hb. rewrite (macro_rat_asis_parts w wbits static_ ts Hb). split.
  - destruct (rat_tokens_spec ts) as [[[[[rel0 nneg] n] d] b]|] eqn:T; [|discriminate].
    rewrite macro_rat_parts_asis_value. destruct (rat_parts_value w n d b) as [[[nv dneg] dv]|] eqn:V; [|discriminate].
    match goal with |- match match ?x with Ok _ => _ | _ => _ end with Some _ => _ | None => _ end = _ -> _ =>
      destruct x as [[a0 c0]| | |] eqn:C; try discriminate end.
    intros H. inversion H; subst rel0 a0 c0.
    exists (signed (sign_of_neg nneg) nv), (signed (sign_of_neg dneg) dv). split; [|exact C].
    apply rat_literal_parts. exists nneg, n, d, b. split; [exact T|].
    apply (rat_parts_value_literal w nneg n d b _ _ Hw). exists nv, dneg, dv. auto.
  - intros (num & den & L & C). apply rat_literal_parts in L. destruct L as (nneg & n & d & b & T & P).
    apply (rat_parts_value_literal w nneg n d b _ _ Hw) in P. destruct P as (nv & dneg & dv & V & -> & ->).
    rewrite T, macro_rat_parts_asis_value, V, C. reflexivity.
Qed.

Theorem macro_rat_asis_value w wbits static_ ts rel a c : parser_word w -> std_word wbits ->
  macro_rat_asis w wbits static_ ts = Some (rel, (a, c)) ->
  exists num den, rat_literal ts rel num den /\ den <> 0 /\ 0 < c /\ a * den = num * c /\
                  (rel = false -> Z.gcd a c = 1) /\ (rel = true -> a = 0 \/ Z.abs a mod 2 <> 0 \/ c mod 2 <> 0).
Proof.
  intros Hw Hb H. apply (macro_rat_asis_literal w wbits static_ ts rel a c Hw Hb) in H. destruct H as (num & den & L & C).
  apply rat_ctor_value in C. destruct C as (C1 & [C2 _] & C3 & C4). exists num, den.
  repeat split; try assumption; intros ->; exact C3.
Qed.

Example macro_rat_nonvacuous :
  macro_rat_asis 64 32 true
    [mk_tok TPunct [126]; mk_tok TPunct [45]; mk_tok TLit [48; 120; 54]; mk_tok TPunct [47]; mk_tok TLit [52]] = Some (true, (-3, 2)) /\
  macro_rat_asis 64 64 false [mk_tok TLit [54]; mk_tok TPunct [47]; mk_tok TPunct [45]; mk_tok TLit [52]] = Some (false, (-3, 2)).
Proof. split; vm_compute; reflexivity. Qed.
