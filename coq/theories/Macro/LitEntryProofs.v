(** C20 (round 4) - the tables regenerated from the source on every run (coq/gen/LitEntryPoints.v, tools/translate_c20_r4.py):
    which parse function and flags stand behind each of the twenty proc-macro names (macros/src/lib.rs), which proc macro
    each `dashu::` wrapper expands to and that it hands over its `$crate` path (src/lib.rs), and the rows of the
    word-size selector of quote_words (macros/src/parse/common.rs).  The correspondence run calls the parse functions with
    the flags (signed, static_, embedded) and the models are indexed by them: these theorems connect the flags to the
    macro names a program writes, and the selector table to the model of quote_words (Macro/LitModel.v). *)
From Coq Require Import List String Bool Arith.
From Dashu Require Import Base.Prelude Macro.LitModel.
From DashuGen Require Import LitEntryPoints.
Import ListNotations.
Open Scope string_scope.

Inductive mkind := KU | KI | KF | KD | KR.
Definition kind_name (k : mkind) : string :=
  match k with KU => "ubig" | KI => "ibig" | KF => "fbig" | KD => "dbig" | KR => "rbig" end.
Definition macro_name (k : mkind) (static_ embedded : bool) : string :=
  (if static_ then "static_" else "") ++ kind_name k ++ (if embedded then "_embedded" else "").

(** the front end the naming convention promises: integers parse_integer(signed, static_, embedded, ..), floats
    parse_binary_float / parse_decimal_float(static_, embedded, ..), ratios parse_ratio / parse_static_ratio(embedded, ..);
    the embedded variants (and only they) take the `$crate` root *)
Definition expected_entry (k : mkind) (static_ embedded : bool) : string * string * list bool * bool :=
  (macro_name k static_ embedded,
   match k with
   | KU | KI => "int::parse_integer"
   | KF => "float::parse_binary_float"
   | KD => "float::parse_decimal_float"
   | KR => if static_ then "ratio::parse_static_ratio" else "ratio::parse_ratio"
   end,
   match k with
   | KU => [false; static_; embedded] | KI => [true; static_; embedded]
   | KF | KD => [static_; embedded] | KR => [embedded]
   end,
   embedded).

Definition find_entry (name : string) : option (string * string * list bool * bool) :=
  find (fun e => String.eqb (fst (fst (fst e))) name) proc_macro_entries.

Theorem entry_points_table : forall k static_ embedded,
  find_entry (macro_name k static_ embedded) = Some (expected_entry k static_ embedded).
Proof. intros [] [] []; vm_compute; reflexivity. Qed.

Theorem entry_points_count : length proc_macro_entries = 20%nat /\ NoDup (map (fun e => fst (fst (fst e))) proc_macro_entries).
Proof.
  split; [reflexivity|]. vm_compute.
  repeat (constructor; [cbn [In]; intros H; repeat (destruct H as [H|H]; [discriminate H|]); exact H|]). constructor.
Qed.

(** src/lib.rs: `dashu::NAME!` expands to `NAME_embedded!` of the macro crate and hands over `[$crate]` *)
Definition find_wrapper (name : string) : option (string * string * bool) :=
  find (fun e => String.eqb (fst (fst e)) name) meta_wrappers.

Theorem meta_wrappers_table : forall k static_,
  find_wrapper (macro_name k static_ false) = Some (macro_name k static_ false, macro_name k static_ true, true).
Proof. intros [] []; vm_compute; reflexivity. Qed.

Theorem meta_wrappers_count : length meta_wrappers = 10%nat.
Proof. reflexivity. Qed.

(** a `dashu::` invocation reaches the same front end with the same signedness / static_ flags as the plain macro,
    with embedded = true and the root applied *)
Corollary dashu_path_front_end k static_ :
  exists target, find_wrapper (macro_name k static_ false) = Some (macro_name k static_ false, target, true) /\
                 find_entry target = Some (expected_entry k static_ true).
Proof.
  exists (macro_name k static_ true). split; [apply meta_wrappers_table | apply entry_points_table].
Qed.

(** quote_words: the rows of the word-size selector *)
Definition bits_str (n : nat) : string :=
  if Nat.eqb n 16 then "16" else if Nat.eqb n 32 then "32" else if Nat.eqb n 64 then "64" else "?".

Definition row_consistent (r : nat * string * string * string * string * string) : Prop :=
  let '(n, ty, lenv, ety, dlen, datav) := r in
  ty = "u" ++ bits_str n /\ ety = ty /\ dlen = quote_words_trait_len /\
  In ("le_bytes_to_" ++ ty ++ "_tokens", (datav, lenv)) quote_words_binds.

Definition row_bytes (r : nat * string * string * string * string * string) : nat :=
  let '(n, _, _, _, _, _) := r in Nat.div n 8.

(** every `impl DataSource for DataSelector<N>` uses the element type uN, the padded length of the trait, and the
    (DATA, LEN) pair that le_bytes_to_uN_tokens returned - and these rows, in this order, are the selectors of the model *)
Theorem selectors_table :
  Forall row_consistent quote_words_selectors /\
  quote_words_max_len = "(le_bytes.len() + 1) / 2" /\ quote_words_trait_len = "max_len" /\
  forall bs, q_sel (quote_words bs) =
    map (fun r => let '(d, l) := array_tokens (row_bytes r) bs (Nat.div (length bs + 1) 2) in (l, d)) quote_words_selectors /\
    map (fun r => sel_index (Z.of_nat (let '(n, _, _, _, _, _) := r in n))) quote_words_selectors = [0; 1; 2]%nat.
Proof.
  split; [|split; [reflexivity | split; [reflexivity|]]].
  - repeat (constructor; [unfold row_consistent; split; [reflexivity|]; split; [reflexivity|]; split; [reflexivity|]; cbn; auto 6|]). constructor.
  - intros bs. split; reflexivity.
Qed.
