(** C20 (round 4) - the other direction of the lexer model (LitLexModel.v): maximal munch.
    LitLexProofs.v shows that the tokens of a text, joined, are the text.  Here: a number or identifier token never ends
    inside a run of identifier characters (`a3f`, `0x1F`, `123`, `1e5` stay one token: [leaf_munch]); the only lexical errors
    of the modelled alphabet are malformed radix-prefixed integers (`0x`, `0b2`: [lex_err_located]); and any sequence of
    well-formed tokens, laid out with white space (or a separating punctuation character) after each word, is lexed
    back into exactly these tokens ([lex_render]) - hence `tokens joined = text` holds in both directions. *)
From Dashu Require Import Base.Prelude Base.Words Int.IoSpec Macro.LitModel Macro.LitTokProofs Macro.LitLexModel Macro.LitLexProofs.
Open Scope Z_scope.

Notation idc := is_ident_continue.

Definition head_not (f : Z -> bool) (s : list Z) : Prop := match s with [] => True | c :: _ => f c = false end.

(* ------------------------------------------------------------------------------------------ *)
(** * runs of characters *)

Lemma span_stop f : forall s, head_not f (skipn (span f s) s).
Proof.
  induction s as [|c t IH]; [exact I|]. cbn [span]. destruct (f c) eqn:E; [cbn [skipn]; exact IH | cbn [skipn head_not]; exact E].
Qed.

Lemma span_le_length f : forall s, (span f s <= length s)%nat.
Proof. induction s as [|c t IH]; [cbn; lia|]. cbn [span length]. destruct (f c); lia. Qed.

Lemma span_app_all f : forall w r, Forall (fun c => f c = true) w -> head_not f r -> span f (w ++ r) = length w.
Proof.
  induction w as [|c t IH]; intros r F H.
  - cbn [app length]. destruct r as [|c r]; [reflexivity|]. cbn [span]. cbn [head_not] in H. rewrite H. reflexivity.
  - inversion F; subst. cbn [app span length]. match goal with E : f c = true |- _ => rewrite E end. f_equal. apply IH; assumption.
Qed.

Lemma span_skip f : forall n s, (n <= span f s)%nat -> span f s = (n + span f (skipn n s))%nat.
Proof.
  induction n as [|n IH]; intros s H; [reflexivity|]. destruct s as [|c t]; [cbn [span] in H; lia|].
  cbn [span] in *. destruct (f c); [|lia]. cbn [skipn]. rewrite (IH t) by lia. lia.
Qed.

Lemma skipn_add {A} n k : forall l : list A, skipn (n + k) l = skipn k (skipn n l).
Proof.
  induction n as [|n IH]; intros l; [reflexivity|]. destruct l as [|x l]; [cbn [Nat.add skipn]; rewrite skipn_nil; reflexivity|].
  cbn [Nat.add skipn]. apply IH.
Qed.

Lemma idc_digit c : is_digit c = true -> idc c = true.
Proof. intros H. unfold is_ident_continue. rewrite H. apply orb_true_r. Qed.
Lemma idc_start c : is_ident_start c = true -> idc c = true.
Proof. intros H. unfold is_ident_continue. rewrite H. reflexivity. Qed.
Lemma idc_us c : (c =? 95) = true -> idc c = true.
Proof. intros H. apply idc_start. unfold is_ident_start. rewrite H. reflexivity. Qed.
Lemma idc_lower c lo hi : 97 <= lo -> hi <= 122 -> (lo <=? c) && (c <=? hi) = true -> idc c = true.
Proof.
  intros A B H. apply andb_true_iff in H. destruct H as [H1 H2]. apply Z.leb_le in H1, H2. apply idc_start.
  unfold is_ident_start, is_alpha. replace ((97 <=? c) && (c <=? 122)) with true by (symmetry; apply andb_true_iff; split; apply Z.leb_le; lia).
  rewrite !orb_true_r. reflexivity.
Qed.
Lemma idc_upper c lo hi : 65 <= lo -> hi <= 90 -> (lo <=? c) && (c <=? hi) = true -> idc c = true.
Proof.
  intros A B H. apply andb_true_iff in H. destruct H as [H1 H2]. apply Z.leb_le in H1, H2. apply idc_start.
  unfold is_ident_start, is_alpha. replace ((65 <=? c) && (c <=? 90)) with true by (symmetry; apply andb_true_iff; split; apply Z.leb_le; lia).
  rewrite orb_true_r. reflexivity.
Qed.
Lemma idc_not_digit_start c : idc c = true -> is_digit c = false -> is_ident_start c = true.
Proof. unfold is_ident_continue. intros H D. rewrite D, orb_false_r in H. exact H. Qed.
Lemma not_idc_not_digit c : idc c = false -> is_digit c = false.
Proof. unfold is_ident_continue. intros H. apply orb_false_iff in H. tauto. Qed.
Lemma not_idc_not_start c : idc c = false -> is_ident_start c = false.
Proof. unfold is_ident_continue. intros H. apply orb_false_iff in H. tauto. Qed.

(** the characters that are neither digits nor letters nor `_` *)
Lemma idc_range c : idc c = true -> (48 <= c <= 57) \/ (65 <= c <= 90) \/ c = 95 \/ (97 <= c <= 122).
Proof.
  unfold is_ident_continue, is_ident_start, is_alpha, is_digit. intros H.
  repeat (apply orb_true_iff in H; destruct H as [H|H]); try (apply andb_true_iff in H; destruct H as [H1 H2]; apply Z.leb_le in H1, H2; lia).
  apply Z.eqb_eq in H. lia.
Qed.
Lemma idc_neq c k : idc c = true -> (k < 48 \/ 57 < k < 65 \/ 90 < k < 95 \/ k = 96 \/ 122 < k) -> (c =? k) = false.
Proof. intros H K. apply idc_range in H. apply Z.eqb_neq. lia. Qed.

(* ------------------------------------------------------------------------------------------ *)
(** * the tail of a number literal: suffix and word break *)

(** when the digits consumed so far lie inside the run of identifier characters, the token is that whole run *)
Lemma suffix_break_span s n n' : (n <= span idc s)%nat -> suffix_break s n = Some n' -> n' = span idc s.
Proof.
  intros Hn. rewrite (span_skip idc n s Hn). unfold suffix_break.
  destruct (skipn n s) as [|c t] eqn:SK.
  - cbn [ident_len]. rewrite SK. intros H. inversion H. cbn [span]. lia.
  - cbn [ident_len]. destruct (is_ident_start c) eqn:IS.
    + cbn [span]. rewrite (idc_start c IS). intros H.
      destruct (skipn (n + S (span idc t)) s) as [|c2 r2]; [inversion H; reflexivity|].
      destruct (idc c2); [discriminate | inversion H; reflexivity].
    + rewrite SK. destruct (idc c) eqn:IC; [discriminate|]. intros H. inversion H. cbn [span]. rewrite IC. lia.
Qed.

Lemma suffix_break_ge s n n' : suffix_break s n = Some n' -> (n <= n')%nat.
Proof.
  unfold suffix_break. destruct (ident_len (skipn n s)) as [k|].
  - destruct (skipn (n + k) s) as [|c r]; [intros H; inversion H; lia|]. destruct (idc c); [discriminate | intros H; inversion H; lia].
  - destruct (skipn n s) as [|c r]; [intros H; inversion H; lia|]. destruct (idc c); [discriminate | intros H; inversion H; lia].
Qed.

(** after the digits of an integer (the next character is no digit) the suffix / word-break step never fails *)
Lemma suffix_break_some s n : head_not is_digit (skipn n s) -> exists n', suffix_break s n = Some n'.
Proof.
  intros H. unfold suffix_break. destruct (skipn n s) as [|c t] eqn:SK.
  - cbn [ident_len]. rewrite SK. eauto.
  - cbn [ident_len head_not] in *. destruct (is_ident_start c) eqn:IS.
    + rewrite skipn_add, SK. cbn [skipn]. pose proof (span_stop idc t) as ST.
      destruct (skipn (span idc t) t) as [|c2 r2]; [eauto|]. cbn [head_not] in ST. rewrite ST. eauto.
    + rewrite SK. unfold is_ident_continue. rewrite IS, H. cbn [orb]. eauto.
Qed.

(* ------------------------------------------------------------------------------------------ *)
(** * integer literals *)

Lemma digits_loop_idc base : forall s len e len' e', digits_loop base s len e = Some (len', e') ->
  exists k, len' = (len + k)%nat /\ (k <= span idc s)%nat /\ head_not is_digit (skipn k s).
Proof.
  induction s as [|b t IH]; intros len e len' e' H; cbn [digits_loop] in H.
  - inversion H; subst. exists 0%nat. repeat split; [lia | cbn; lia].
  - assert (STEP : forall e2, digits_loop base t (S len) e2 = Some (len', e') -> idc b = true ->
                   exists k, len' = (len + k)%nat /\ (k <= span idc (b :: t))%nat /\ head_not is_digit (skipn k (b :: t))).
    { intros e2 X V. destruct (IH _ _ _ _ X) as (k & -> & L & HN). exists (S k). cbn [span skipn]. rewrite V. repeat split; [lia | lia | exact HN]. }
    assert (STOP : is_digit b = false -> Some (len, e) = Some (len', e') ->
                   exists k, len' = (len + k)%nat /\ (k <= span idc (b :: t))%nat /\ head_not is_digit (skipn k (b :: t))).
    { intros D X. inversion X; subst. exists 0%nat. repeat split; [lia | lia | exact D]. }
    destruct (is_digit b) eqn:E1.
    { destruct (base <=? b - 48); [discriminate|]. eapply STEP; [exact H | apply idc_digit; exact E1]. }
    destruct ((97 <=? b) && (b <=? 102)) eqn:E2.
    { destruct (base <=? 10 + (b - 97)); [apply STOP; [reflexivity | exact H]|]. eapply STEP; [exact H | eapply idc_lower; [| |exact E2]; lia]. }
    destruct ((65 <=? b) && (b <=? 70)) eqn:E3.
    { destruct (base <=? 10 + (b - 65)); [apply STOP; [reflexivity | exact H]|]. eapply STEP; [exact H | eapply idc_upper; [| |exact E3]; lia]. }
    destruct (b =? 95) eqn:E4.
    { destruct (e && (base =? 10)); [discriminate|]. eapply STEP; [exact H | apply idc_us; exact E4]. }
    apply STOP; [reflexivity | exact H].
Qed.

Lemma radix_prefix_cases s : let '(base, pre, body) := radix_prefix s in
  (pre = 0%nat /\ body = s /\ base = 10) \/
  (exists x, s = 48 :: x :: body /\ pre = 2%nat /\ ((x = 120 /\ base = 16) \/ (x = 111 /\ base = 8) \/ (x = 98 /\ base = 2))).
Proof.
  unfold radix_prefix. destruct s as [|c [|x t]]; try (left; repeat split).
  destruct (Z.eqb_spec c 48) as [->|]; [|left; repeat split].
  destruct (Z.eqb_spec x 120) as [->|]; [right; exists 120; repeat split; auto|].
  destruct (Z.eqb_spec x 111) as [->|]; [right; exists 111; repeat split; auto|].
  destruct (Z.eqb_spec x 98) as [->|]; [right; exists 98; repeat split; auto|].
  left; repeat split.
Qed.

(** the digits of an integer literal lie inside the run of identifier characters, no digit follows them *)
Lemma int_digits_idc s n : int_digits s = Some n -> (n <= span idc s)%nat /\ head_not is_digit (skipn n s).
Proof.
  unfold int_digits. pose proof (radix_prefix_cases s) as RP. destruct (radix_prefix s) as [[base pre] body].
  destruct (digits_loop base body 0 true) as [[len e]|] eqn:D; [|discriminate]. destruct e; [discriminate|].
  intros H. inversion H; subst n. destruct (digits_loop_idc _ _ _ _ _ _ D) as (k & -> & L & HN). cbn [Nat.add].
  destruct RP as [(-> & -> & _)|(x & -> & -> & X)]; [cbn [Nat.add]; split; assumption|].
  assert (IX : idc x = true) by (destruct X as [[-> _]|[[-> _]|[-> _]]]; reflexivity).
  cbn [span skipn Nat.add]. change (idc 48) with true. rewrite IX. cbn [skipn]. split; [lia | exact HN].
Qed.

(** an integer-literal token is exactly the maximal run of identifier characters *)
Theorem int_len_span s n : int_len s = Some n -> n = span idc s.
Proof.
  unfold int_len. destruct (int_digits s) as [m|] eqn:I; [|discriminate]. destruct (int_digits_idc _ _ I) as [L _].
  apply suffix_break_span. exact L.
Qed.

Theorem int_len_total s : int_len s = None <-> int_digits s = None.
Proof.
  unfold int_len. destruct (int_digits s) as [m|] eqn:I; [|tauto]. destruct (int_digits_idc _ _ I) as [_ H].
  destruct (suffix_break_some s m H) as [n' ->]. split; discriminate.
Qed.

(** a decimal literal (no 0x / 0o / 0b in front) that starts with a digit always has digits *)
Lemma digits_loop_10 : forall s len, exists len', digits_loop 10 s len false = Some (len', false).
Proof.
  induction s as [|b t IH]; intros len; cbn [digits_loop]; [eauto|].
  destruct (is_digit b) eqn:E1.
  { unfold is_digit in E1. apply andb_true_iff in E1. destruct E1 as [A B]. apply Z.leb_le in A, B.
    destruct (Z.leb_spec 10 (b - 48)); [lia | apply IH]. }
  destruct ((97 <=? b) && (b <=? 102)) eqn:E2.
  { apply andb_true_iff in E2. destruct E2 as [A B]. apply Z.leb_le in A, B. destruct (Z.leb_spec 10 (10 + (b - 97))); [eauto | lia]. }
  destruct ((65 <=? b) && (b <=? 70)) eqn:E3.
  { apply andb_true_iff in E3. destruct E3 as [A B]. apply Z.leb_le in A, B. destruct (Z.leb_spec 10 (10 + (b - 65))); [eauto | lia]. }
  destruct (b =? 95); [cbn [andb]; apply IH | eauto].
Qed.

Theorem int_digits_none c t : is_digit c = true -> int_digits (c :: t) = None ->
  exists x t', c = 48 /\ t = x :: t' /\ (x = 120 \/ x = 111 \/ x = 98).
Proof.
  intros D. unfold int_digits. pose proof (radix_prefix_cases (c :: t)) as RP. destruct (radix_prefix (c :: t)) as [[base pre] body].
  destruct RP as [(-> & -> & ->)|(x & E & -> & X)].
  - cbn [digits_loop]. rewrite D. unfold is_digit in D. apply andb_true_iff in D. destruct D as [A B]. apply Z.leb_le in A, B.
    destruct (Z.leb_spec 10 (c - 48)); [lia|]. destruct (digits_loop_10 t 1) as [len' ->]. discriminate.
  - intros _. inversion E; subst. exists x, body. repeat split. destruct X as [[-> _]|[[-> _]|[-> _]]]; auto.
Qed.

(* ------------------------------------------------------------------------------------------ *)
(** * one token: maximal munch *)

Lemma ident_len_span s n : ident_len s = Some n -> n = span idc s.
Proof.
  unfold ident_len. destruct s as [|c t]; [discriminate|]. destruct (is_ident_start c) eqn:IS; [|discriminate].
  intros H. inversion H. cbn [span]. rewrite (idc_start c IS). reflexivity.
Qed.

Lemma float_len_ge s n : float_len s = Some n -> (span idc s <= n)%nat.
Proof.
  unfold float_len. destruct (float_digits s) as [m|]; [|discriminate]. intros H.
  destruct (Nat.le_gt_cases m (span idc s)) as [L|G]; [rewrite (suffix_break_span _ _ _ L H); lia|].
  pose proof (suffix_break_ge _ _ _ H). lia.
Qed.

(** a token never ends inside a run of letters, digits and `_`: identifiers and integer literals are exactly such a run,
    a float literal contains the run it starts with *)
Theorem leaf_munch s k n : leaf s = Some (k, n) ->
  match k with
  | TPunct => n = 1%nat
  | TIdent => n = span idc s
  | TLit => (span idc s <= n)%nat /\ (n = span idc s \/ float_len s = Some n)
  | TGroup => False
  end.
Proof.
  unfold leaf. destruct (float_len s) as [n1|] eqn:F.
  { intros H. inversion H; subst. split; [apply float_len_ge; exact F | right; reflexivity]. }
  destruct (int_len s) as [n2|] eqn:I.
  { intros H. inversion H; subst. rewrite (int_len_span _ _ I). split; [lia | left; reflexivity]. }
  destruct s as [|c t]; [discriminate|]. destruct (is_punct c); [intros H; inversion H; reflexivity|].
  destruct (ident_len (c :: t)) as [m|] eqn:IL; [|discriminate]. intros H. inversion H; subst. apply ident_len_span. exact IL.
Qed.

Lemma float_digits_not_digit c t : is_digit c = false -> float_digits (c :: t) = None.
Proof. unfold float_digits. intros ->. reflexivity. Qed.
Lemma int_digits_not_digit c t : is_digit c = false -> int_digits (c :: t) = None.
Proof. intros D. destruct (int_digits (c :: t)) as [n|] eqn:I; [|reflexivity]. rewrite (int_digits_first _ _ _ I) in D. discriminate. Qed.

(** where no token can be cut: only at `0x` / `0o` / `0b` without a digit of that radix behind it, or with a wrong digit *)
Theorem leaf_none c t : is_ws c = false -> modelled_char c = true -> leaf (c :: t) = None ->
  exists x t', c = 48 /\ t = x :: t' /\ (x = 120 \/ x = 111 \/ x = 98) /\ int_digits (c :: t) = None.
Proof.
  intros W M. unfold leaf. destruct (float_len (c :: t)); [discriminate|].
  destruct (int_len (c :: t)) eqn:I; [discriminate|]. apply int_len_total in I.
  destruct (is_punct c) eqn:P; [discriminate|]. unfold ident_len. destruct (is_ident_start c) eqn:IS; [discriminate|]. intros _.
  assert (D : is_digit c = true).
  { unfold modelled_char, is_ident_continue in M. rewrite W, P, IS in M. cbn [orb] in M. rewrite !orb_false_r in M. exact M. }
  destruct (int_digits_none c t D I) as (x & t' & -> & -> & X). exists x, t'. auto.
Qed.

(* ------------------------------------------------------------------------------------------ *)
(** * the token stream: where it can fail *)

Lemma skip_ws_split : forall s, exists p, s = p ++ skip_ws s /\ Forall (fun c => is_ws c = true) p.
Proof.
  induction s as [|c t IH]; [exists []; split; [reflexivity | constructor]|]. cbn [skip_ws]. destruct (is_ws c) eqn:E.
  - destruct IH as (p & E1 & F). exists (c :: p). split; [cbn [app]; f_equal; exact E1 | constructor; assumption].
  - exists []. split; [reflexivity | constructor].
Qed.

Lemma skip_ws_head s : head_not is_ws (skip_ws s).
Proof. induction s as [|c t IH]; [exact I|]. cbn [skip_ws]. destruct (is_ws c) eqn:E; [exact IH | exact E]. Qed.

Lemma Forall_skipn_ {A} (P : A -> Prop) n : forall l, Forall P l -> Forall P (skipn n l).
Proof.
  induction n as [|n IH]; intros l H; [exact H|]. destruct l as [|x l]; [constructor|]. inversion H; subst. cbn [skipn]. auto.
Qed.

Definition bad_radix_literal (s : list Z) : Prop :=
  exists x t, s = 48 :: x :: t /\ (x = 120 \/ x = 111 \/ x = 98) /\ int_digits s = None.

(** the only lexical error in the modelled alphabet is a malformed radix-prefixed integer at the start of a token *)
Theorem lex_loop_err fuel : forall s, Forall (fun c => modelled_char c = true) s -> lex_loop fuel s = LexErr ->
  exists pre rest, s = pre ++ rest /\ bad_radix_literal rest.
Proof.
  induction fuel as [|f IH]; intros s M H; [discriminate|]. cbn [lex_loop] in H.
  destruct (skip_ws_split s) as (p & E & _). pose proof (skip_ws_head s) as HW.
  destruct (skip_ws s) as [|c t] eqn:SW; [discriminate|]. cbn [head_not] in HW.
  assert (Mct : Forall (fun c => modelled_char c = true) (c :: t)) by (rewrite E in M; apply Forall_app in M; tauto).
  destruct (leaf (c :: t)) as [[k n]|] eqn:L.
  - destruct n as [|n]; [|].
    + (* an empty token: never *)
      exfalso. pose proof (leaf_munch _ _ _ L) as LM. destruct k; try lia; try contradiction.
      * destruct LM as [LM _]. pose proof (leaf_first _ _ _ _ L) as LF. cbn in LF. cbn [span] in LM. rewrite (idc_digit c LF) in LM. lia.
      * pose proof (leaf_first _ _ _ _ L) as LF. cbn in LF. cbn [span] in LM. rewrite (idc_start c LF) in LM. lia.
    + destruct (lex_loop f (skipn (S n) (c :: t))) as [ts'| | |] eqn:R; try discriminate.
      destruct (IH _ (Forall_skipn_ _ (S n) _ Mct) R) as (pre & rest & E2 & B).
      exists (p ++ firstn (S n) (c :: t) ++ pre), rest. split; [|exact B].
      rewrite E at 1. rewrite <- !app_assoc. f_equal. rewrite <- E2. symmetry. apply firstn_skipn.
  - inversion Mct as [|c0 t0 MX MY]. destruct (leaf_none c t HW MX L) as (x & t' & -> & -> & X1 & X2).
    exists p, (48 :: x :: t'). split; [exact E|]. exists x, t'. auto.
Qed.

Lemma modelled_forall s : modelled s = true -> Forall (fun c => modelled_char c = true) s.
Proof. unfold modelled. intros H. apply andb_true_iff in H. destruct H as [H _]. apply Forall_forall. apply forallb_forall. exact H. Qed.

Theorem lex_err_located s : lex s = LexErr -> exists pre rest, s = pre ++ rest /\ bad_radix_literal rest.
Proof.
  unfold lex. destruct (modelled s) eqn:M; [|discriminate]. apply lex_loop_err. apply modelled_forall. exact M.
Qed.

(** hence: a modelled text in which every `0x` / `0o` / `0b` is followed by a digit of that radix is cut into tokens *)
Corollary lex_ok s : modelled s = true ->
  (forall pre rest, s = pre ++ rest -> ~ bad_radix_literal rest) -> exists ts, lex s = LexOk ts.
Proof.
  intros M H. destruct (lex s) as [ts| | |] eqn:L; [eauto | | |].
  - destruct (lex_err_located s L) as (pre & rest & E & B). destruct (H pre rest E B).
  - unfold lex in L. rewrite M in L. clear - L. exfalso. revert L. generalize (S (length s)). intros fuel. revert s.
    induction fuel as [|f IH]; intros s; [discriminate|]. cbn [lex_loop]. destruct (skip_ws s) as [|c t]; [discriminate|].
    destruct (leaf (c :: t)) as [[k n]|]; [|discriminate]. destruct n; [discriminate|].
    specialize (IH (skipn (S n) (c :: t))). destruct (lex_loop f (skipn (S n) (c :: t))); try discriminate. exact IH.
  - destruct (lex_total s L).
Qed.

(* ------------------------------------------------------------------------------------------ *)
(** * words followed by a separator *)

(** a character after which a number cannot go on: no letter, digit, `_`, `.`, `+`, `-` *)
Definition sep (c : Z) : bool := negb (idc c || (c =? 46) || (c =? 43) || (c =? 45)).
Definition sep_head (r : list Z) : Prop := match r with [] => True | c :: _ => sep c = true end.

Lemma sep_facts c : sep c = true -> idc c = false /\ (c =? 46) = false /\ (c =? 43) = false /\ (c =? 45) = false.
Proof.
  unfold sep. intros H. apply negb_true_iff in H. apply orb_false_iff in H. destruct H as [H H3].
  apply orb_false_iff in H. destruct H as [H H2]. apply orb_false_iff in H. destruct H as [H0 H1]. auto.
Qed.

Lemma ws_sep c : is_ws c = true -> sep c = true.
Proof.
  unfold is_ws. intros H. assert (R : c = 32 \/ 9 <= c <= 13).
  { apply orb_true_iff in H. destruct H as [H|H]; [apply Z.eqb_eq in H; auto|]. apply andb_true_iff in H. destruct H as [A B]. apply Z.leb_le in A, B. auto. }
  assert (I : idc c = false) by (destruct (idc c) eqn:E; [apply idc_range in E; lia | reflexivity]).
  unfold sep. rewrite I. cbn [orb]. apply negb_true_iff.
  apply orb_false_iff; split; [apply orb_false_iff; split|]; apply Z.eqb_neq; lia.
Qed.

Lemma sep_head_idc r : sep_head r -> head_not idc r.
Proof. destruct r as [|c r]; [auto|]. cbn. intros H. apply sep_facts in H. tauto. Qed.

Lemma digits_loop_app base r : head_not idc r -> forall w len e, digits_loop base (w ++ r) len e = digits_loop base w len e.
Proof.
  intros H. induction w as [|b t IH]; intros len e.
  - cbn [app digits_loop]. destruct r as [|c r]; [reflexivity|]. cbn [head_not] in H. cbn [digits_loop].
    rewrite (not_idc_not_digit c H).
    destruct ((97 <=? c) && (c <=? 102)) eqn:E2; [rewrite (idc_lower c 97 102) in H by (lia || exact E2); discriminate|].
    destruct ((65 <=? c) && (c <=? 70)) eqn:E3; [rewrite (idc_upper c 65 70) in H by (lia || exact E3); discriminate|].
    destruct (c =? 95) eqn:E4; [rewrite (idc_us c E4) in H; discriminate|]. reflexivity.
  - cbn [app digits_loop]. rewrite !IH. reflexivity.
Qed.

Lemma int_digits_app w r : w <> [] -> head_not idc r -> int_digits (w ++ r) = int_digits w.
Proof.
  intros NE H. unfold int_digits.
  assert (RP : radix_prefix (w ++ r) = let '(b, p, body) := radix_prefix w in (b, p, body ++ r)).
  { destruct w as [|c [|x t]]; [contradiction | |].
    - cbn [app]. destruct r as [|c2 r]; [reflexivity|]. cbn [head_not] in H. unfold radix_prefix.
      destruct (c =? 48); [|reflexivity].
      destruct (Z.eqb_spec c2 120) as [->|]; [discriminate|]. destruct (Z.eqb_spec c2 111) as [->|]; [discriminate|].
      destruct (Z.eqb_spec c2 98) as [->|]; [discriminate|]. reflexivity.
    - cbn [app]. unfold radix_prefix. destruct (c =? 48); [|reflexivity].
      destruct (x =? 120); [reflexivity|]. destruct (x =? 111); [reflexivity|]. destruct (x =? 98); reflexivity. }
  rewrite RP. destruct (radix_prefix w) as [[b p] body]. rewrite (digits_loop_app b r H). reflexivity.
Qed.

Lemma fd_loop_word r : sep_head r -> forall w len hd len' hd' he' rest, Forall (fun c => idc c = true) w ->
  fd_loop (w ++ r) len hd = Some (len', hd', he', rest) ->
  exists k, len' = (len + k)%nat /\ (k <= length w)%nat /\ rest = skipn k w ++ r /\ hd' = hd.
Proof.
  intros H. induction w as [|ch t IH]; intros len hd len' hd' he' rest F X.
  - cbn [app] in X. exists 0%nat. cbn [skipn app length]. destruct r as [|c r]; cbn [fd_loop] in X.
    + inversion X; subst. repeat split; lia.
    + cbn [sep_head] in H. destruct (sep_facts c H) as (I & D & _). rewrite (not_idc_not_digit c I) in X.
      destruct (c =? 95) eqn:E4; [rewrite (idc_us c E4) in I; discriminate|]. cbn [orb] in X. rewrite D in X.
      destruct ((c =? 101) || (c =? 69)) eqn:E5.
      { apply orb_true_iff in E5. destruct E5 as [E5|E5]; apply Z.eqb_eq in E5; subst c; discriminate. }
      inversion X; subst. repeat split; lia.
  - inversion F as [|? ? Ic Ft]; subst. cbn [app fd_loop] in X.
    destruct (is_digit ch || (ch =? 95)) eqn:E1.
    { destruct (IH _ _ _ _ _ _ Ft X) as (k & -> & L & -> & ->). exists (S k). cbn [skipn length]. repeat split; lia. }
    rewrite (idc_neq ch 46 Ic) in X by lia.
    destruct ((ch =? 101) || (ch =? 69)).
    { inversion X; subst. exists 1%nat. cbn [skipn length]. repeat split; lia. }
    inversion X; subst. exists 0%nat. cbn [skipn length]. repeat split; lia.
Qed.

Lemma exp_loop_word r : sep_head r -> forall w len hs hv before n, Forall (fun c => idc c = true) w ->
  exp_loop (w ++ r) len hs hv before = Some n -> before = Some n \/ exists k, n = (len + k)%nat /\ (k <= length w)%nat.
Proof.
  intros H. induction w as [|ch t IH]; intros len hs hv before n F X.
  - cbn [app] in X.
    assert (FIN : (if hv then Some len else before) = Some n -> before = Some n \/ exists k, n = (len + k)%nat /\ (k <= @length Z [])%nat).
    { destruct hv; [intros Y; inversion Y; right; exists 0%nat; cbn; lia | auto]. }
    destruct r as [|c r]; cbn [exp_loop] in X; [apply FIN; exact X|].
    cbn [sep_head] in H. destruct (sep_facts c H) as (I & _ & P & M). rewrite P, M, (not_idc_not_digit c I) in X. cbn [orb] in X.
    destruct (c =? 95) eqn:E4; [rewrite (idc_us c E4) in I; discriminate|]. apply FIN. exact X.
  - inversion F as [|? ? Ic Ft]; subst. cbn [app exp_loop] in X.
    rewrite (idc_neq ch 43 Ic), (idc_neq ch 45 Ic) in X by lia. cbn [orb] in X.
    assert (STEP : forall hs' hv', exp_loop (t ++ r) (S len) hs' hv' before = Some n ->
                   before = Some n \/ exists k, n = (len + k)%nat /\ (k <= length (ch :: t))%nat).
    { intros hs' hv' Y. destruct (IH _ _ _ _ _ Ft Y) as [B|(k & -> & L)]; [auto|]. right. exists (S k). cbn [length]. lia. }
    destruct (is_digit ch); [eapply STEP; exact X|]. destruct (ch =? 95); [eapply STEP; exact X|].
    destruct hv; [inversion X; right; exists 0%nat; cbn [length]; lia | auto].
Qed.

(** the float reading of a word that a separator follows ends inside the word *)
Lemma float_digits_word w r m : Forall (fun c => idc c = true) w -> sep_head r ->
  float_digits (w ++ r) = Some m -> (m <= length w)%nat.
Proof.
  intros F H. destruct w as [|c t]; [|].
  - cbn [app]. destruct r as [|c r]; [discriminate|]. cbn [sep_head] in H. destruct (sep_facts c H) as (I & _).
    rewrite (float_digits_not_digit c r (not_idc_not_digit c I)). discriminate.
  - inversion F as [|? ? Ic Ft]; subst. cbn [app]. unfold float_digits. destruct (is_digit c); [|discriminate].
    destruct (fd_loop (t ++ r) 1 false) as [[[[len hd] he] rest]|] eqn:FD; [|discriminate].
    destruct (fd_loop_word r H _ _ _ _ _ _ _ Ft FD) as (k & -> & L & -> & ->). cbn [orb negb].
    destruct he; [|discriminate]. cbn [negb]. intros X.
    destruct (exp_loop_word r H (skipn k t) _ _ _ _ _ (Forall_skipn_ _ k _ Ft) X) as [B|(k2 & -> & L2)]; [discriminate|].
    pose proof (skipn_length k t). cbn [length]. lia.
Qed.

(* ------------------------------------------------------------------------------------------ *)
(** * tokens that are lexed back *)

(** the token stands at the start of a text in front of a separator and is cut off as it is *)
Definition tok_lexes (t : token) : Prop :=
  match tk t with
  | TPunct => exists c, ttext t = [c] /\ is_punct c = true
  | TLit | TIdent => ttext t <> [] /\ forall r, sep_head r -> leaf (ttext t ++ r) = Some (tk t, length (ttext t))
  | TGroup => False
  end.

Lemma punct_not_digit c : is_punct c = true -> is_digit c = false.
Proof.
  unfold is_punct, punct_chars. cbn [existsb]. intros H.
  repeat (apply orb_true_iff in H; destruct H as [H|H]; [apply Z.eqb_eq in H; subst c; reflexivity|]). discriminate.
Qed.

Lemma leaf_punct c r : is_punct c = true -> leaf (c :: r) = Some (TPunct, 1%nat).
Proof.
  intros P. pose proof (punct_not_digit c P) as D. unfold leaf, float_len, int_len.
  rewrite (float_digits_not_digit c r D), (int_digits_not_digit c r D), P. reflexivity.
Qed.

(** identifiers: a letter or `_`, then letters, digits, `_` *)
Theorem ident_word_lexes c w : is_ident_start c = true -> Forall (fun x => idc x = true) w -> tok_lexes (mk_tok TIdent (c :: w)).
Proof.
  intros IS F. unfold tok_lexes. cbn [tk ttext]. split; [discriminate|]. intros r H.
  assert (D : is_digit c = false).
  { destruct (is_digit c) eqn:E; [|reflexivity]. exfalso. unfold is_digit in E. apply andb_true_iff in E. destruct E as [A B]. apply Z.leb_le in A, B.
    pose proof IS as IS'. unfold is_ident_start, is_alpha in IS'.
    repeat (apply orb_true_iff in IS'; destruct IS' as [IS'|IS']); try (apply andb_true_iff in IS'; destruct IS' as [I1 I2]; apply Z.leb_le in I1, I2; lia).
    apply Z.eqb_eq in IS'. lia. }
  unfold leaf, float_len, int_len. cbn [app]. rewrite (float_digits_not_digit c _ D), (int_digits_not_digit c _ D).
  destruct (is_punct c) eqn:P; [rewrite (punct_not_digit c P) in D; clear D|].
  - exfalso. revert IS. unfold is_punct, punct_chars in P. cbn [existsb] in P.
    repeat (apply orb_true_iff in P; destruct P as [P|P]; [apply Z.eqb_eq in P; subst c; discriminate|]). discriminate.
  - unfold ident_len. rewrite IS. rewrite (span_app_all idc w r F (sep_head_idc r H)). reflexivity.
Qed.

(** number words: a digit, then letters, digits, `_` (`123`, `0x1F`, `1e5`, `1_000`, `12a`, `1z`), provided a radix prefix
    is followed by digits of that radix *)
Theorem number_word_lexes d w : is_digit d = true -> Forall (fun x => idc x = true) w -> int_digits (d :: w) <> None ->
  tok_lexes (mk_tok TLit (d :: w)).
Proof.
  intros D F ID. unfold tok_lexes. cbn [tk ttext]. split; [discriminate|]. intros r H.
  assert (Fw : Forall (fun x => idc x = true) (d :: w)) by (constructor; [apply idc_digit; exact D | exact F]).
  pose proof (span_app_all idc (d :: w) r Fw (sep_head_idc r H)) as SP.
  assert (IL : exists n, int_len ((d :: w) ++ r) = Some n).
  { destruct (int_len ((d :: w) ++ r)) as [n|] eqn:I; [eauto|]. apply int_len_total in I.
    rewrite int_digits_app in I by (discriminate || apply sep_head_idc; exact H). contradiction. }
  destruct IL as [n IL]. pose proof (int_len_span _ _ IL) as EN. rewrite SP in EN. subst n.
  unfold leaf. rewrite IL. unfold float_len. destruct (float_digits ((d :: w) ++ r)) as [m|] eqn:FD; [|reflexivity].
  pose proof (float_digits_word _ _ _ Fw H FD) as LM.
  destruct (suffix_break ((d :: w) ++ r) m) as [n'|] eqn:SB; [|reflexivity].
  rewrite (suffix_break_span _ _ _ ltac:(rewrite SP; exact LM) SB), SP. reflexivity.
Qed.

(** without a radix prefix every such word is a number token *)
Corollary decimal_word_lexes d w : is_digit d = true -> Forall (fun x => idc x = true) w ->
  (d <> 48 \/ match w with x :: _ => x <> 120 /\ x <> 111 /\ x <> 98 | [] => True end) -> tok_lexes (mk_tok TLit (d :: w)).
Proof.
  intros D F NP. apply number_word_lexes; [exact D | exact F|]. intros I.
  destruct (int_digits_none d w D I) as (x & t' & -> & -> & X). destruct NP as [NP|NP]; [contradiction|]. lia.
Qed.

(* ------------------------------------------------------------------------------------------ *)
(** * a laid-out token sequence is lexed back into its tokens *)

Definition ws_text (s : list Z) : Prop := Forall (fun c => is_ws c = true) s.

(** the text: white space, token, white space, token, ..., trailing white space *)
Fixpoint render (l : list (list Z * token)) (tail : list Z) : list Z :=
  match l with [] => tail | (ws, t) :: l' => ws ++ ttext t ++ render l' tail end.

(** white space (or a separating punctuation character, or the end) follows every identifier and number *)
Fixpoint layout_ok (l : list (list Z * token)) (tail : list Z) : Prop :=
  match l with
  | [] => ws_text tail
  | (ws, t) :: l' => ws_text ws /\ tok_lexes t /\ (tk t = TPunct \/ sep_head (render l' tail)) /\ layout_ok l' tail
  end.

Lemma skip_ws_app a b : ws_text a -> skip_ws (a ++ b) = skip_ws b.
Proof. induction 1 as [|c t W _ IH]; [reflexivity|]. cbn [app skip_ws]. rewrite W. exact IH. Qed.

Lemma skip_ws_all a : ws_text a -> skip_ws a = [].
Proof. intros W. rewrite <- (app_nil_r a). rewrite skip_ws_app by exact W. reflexivity. Qed.

Lemma tok_lexes_leaf t r : tok_lexes t -> (tk t = TPunct \/ sep_head r) ->
  exists c w, ttext t = c :: w /\ is_ws c = false /\ leaf (ttext t ++ r) = Some (tk t, length (ttext t)).
Proof.
  unfold tok_lexes. intros T S.
  assert (W : forall c w r', leaf ((c :: w) ++ r') = Some (tk t, length (c :: w)) -> is_ws c = false).
  { intros c w r' L. pose proof (leaf_vis _ _ _ L) as V. cbn [length app firstn] in V. inversion V; subst. apply vis_not_ws. assumption. }
  destruct (tk t) eqn:K; try contradiction.
  - destruct T as [NE T]. destruct S as [S|S]; [discriminate|]. destruct (ttext t) as [|c w] eqn:E; [contradiction|].
    exists c, w. split; [reflexivity|]. split; [eapply W; apply (T r S) | apply T; exact S].
  - destruct T as [NE T]. destruct S as [S|S]; [discriminate|]. destruct (ttext t) as [|c w] eqn:E; [contradiction|].
    exists c, w. split; [reflexivity|]. split; [eapply W; apply (T r S) | apply T; exact S].
  - destruct T as (c & E & P). rewrite E. exists c, []. split; [reflexivity|]. cbn [app length].
    split; [apply vis_not_ws, punct_vis; exact P | apply leaf_punct; exact P].
Qed.

Theorem lex_loop_render : forall l tail fuel, layout_ok l tail -> (length (render l tail) < fuel)%nat ->
  lex_loop fuel (render l tail) = LexOk (map snd l).
Proof.
  induction l as [|[ws t] l' IH]; intros tail fuel LO LF; (destruct fuel as [|f]; [lia|]); cbn [lex_loop render map snd].
  - cbn [layout_ok] in LO. rewrite (skip_ws_all tail LO). reflexivity.
  - cbn [layout_ok] in LO. destruct LO as (W & T & SEP & LO'). rewrite (skip_ws_app _ _ W).
    destruct (tok_lexes_leaf t (render l' tail) T SEP) as (c & w & E & NW & L). rewrite E in *. cbn [app skip_ws]. rewrite NW.
    cbn [app] in L. rewrite L. cbn [length].
    change (skipn (S (length w)) (c :: w ++ render l' tail)) with (skipn (length w) (w ++ render l' tail)).
    change (firstn (S (length w)) (c :: w ++ render l' tail)) with (c :: firstn (length w) (w ++ render l' tail)).
    rewrite skipn_app, skipn_all, Nat.sub_diag. cbn [skipn app].
    rewrite firstn_app, firstn_all, Nat.sub_diag. cbn [firstn]. rewrite app_nil_r.
    rewrite IH; [|exact LO'|].
    + f_equal. f_equal. destruct t as [k x]. cbn [tk ttext] in *. rewrite E. reflexivity.
    + cbn [render] in LF. rewrite E in LF. rewrite !app_length in LF. cbn [length] in LF. lia.
Qed.

(** tokens -> text -> the same tokens *)
Theorem lex_render l tail : layout_ok l tail -> modelled (render l tail) = true -> lex (render l tail) = LexOk (map snd l).
Proof. intros LO M. unfold lex. rewrite M. apply lex_loop_render; [exact LO | lia]. Qed.

(** ... and the text is the tokens joined, white space aside (lex_join): both directions *)
Corollary render_join l tail : layout_ok l tail -> modelled (render l tail) = true ->
  strip_ws (render l tail) = join_tokens (map snd l).
Proof. intros LO M. destruct (lex_join _ _ (lex_render l tail LO M)) as [J _]. symmetry. exact J. Qed.

(** the characters of identifier and number tokens of a lexed text: letters, digits, `_`, `.`, `+`, `-` - never a slash *)
Definition lit_char (c : Z) : bool := idc c || (c =? 46) || (c =? 43) || (c =? 45).

Example lex_render_example :
  let l := [([32], mk_tok TPunct [45]); ([], mk_tok TIdent [97; 51; 102]); ([32; 9], mk_tok TIdent t_base); ([32], mk_tok TLit [49; 54])] in
  layout_ok l [32] /\ lex (render l [32]) = LexOk (map snd l).
Proof.
  assert (LO : layout_ok [([32], mk_tok TPunct [45]); ([], mk_tok TIdent [97; 51; 102]); ([32; 9], mk_tok TIdent t_base); ([32], mk_tok TLit [49; 54])] [32]).
  { cbn [layout_ok].
    split; [repeat constructor|]. split; [exists 45; split; reflexivity|]. split; [left; reflexivity|].
    split; [constructor|]. split; [apply ident_word_lexes; [reflexivity | repeat constructor]|]. split; [right; reflexivity|].
    split; [repeat constructor|]. split; [apply ident_word_lexes; [reflexivity | repeat constructor]|]. split; [right; reflexivity|].
    split; [repeat constructor|]. split; [apply decimal_word_lexes; [reflexivity | repeat constructor | left; discriminate]|].
    split; [right; reflexivity|]. repeat constructor. }
  split; [exact LO | apply lex_render; [exact LO | reflexivity]].
Qed.
