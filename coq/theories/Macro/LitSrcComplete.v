(** C20 (round 4) - completeness of the way from the source text to the number for the integer macros:
    LitSrcProofs.v shows "if the text lexes and the macro compiles, the text is a literal and the number is the run-time
    parser's".  Here the converse: EVERY text that is laid out as a literal of the grammar - optional sign, a value word
    (`123`, `0x1F`, `a3f`, `1e5`, `1_000`), optionally `base` N, white space where the grammar allows it - is cut into exactly
    these tokens (maximal munch, LitLexComplete.v) and the macro compiles iff the run-time parser accepts sign + value in
    that radix, building the same number on the const, heap and static path. *)
From Dashu Require Import Base.Prelude Base.Words Int.IoSpec Int.IoModel Float.TextIoSpec Float.PartsConstModel
  Macro.LitModel Macro.LitGenProofs Macro.LitTokProofs Macro.LitLexModel Macro.LitLexProofs Macro.LitLexComplete
  Macro.LitRefModel Macro.LitRefProofs Macro.LitSrcProofs.
Open Scope Z_scope.

(** every laid-out token sequence that the grammar of the integer macros reads as (sign, value, base): the lexer returns
    these tokens and the macro is the run-time parser *)
Theorem src_int_complete w wbits signed_ static_ l tail neg v b : parser_word w -> std_word wbits ->
  layout_ok l tail -> modelled (render l tail) = true -> int_tokens_spec signed_ (map snd l) = Some (neg, v, b) ->
  lex (render l tail) = LexOk (map snd l) /\
  macro_int_asis w wbits signed_ static_ (map snd l) = int_runtime w signed_ neg v b.
Proof.
  intros Hw Hb LO M T. pose proof (lex_render l tail LO M) as L. split; [exact L|].
  destruct (src_int_tokens _ _ _ _ _ _ L T) as (sgn & _ & _ & V & N).
  unfold macro_int_asis. rewrite int_tokens_asis_eq_spec, T. rewrite (macro_int_eq_runtime w signed_ neg v b Hw V N).
  destruct (macro_uint_asis w v b) as [[m r]|] eqn:U; [|reflexivity].
  rewrite macro_uint_asis_spec in U by exact Hw. destruct (macro_uint_value_nonneg _ _ _ _ U) as [Hm _].
  rewrite gen_int_asis_correct by assumption. reflexivity.
Qed.

(** the layouts of the grammar  [+|-]? value [base N]?  : a sign glued or spaced, white space after `value` and after `base` *)
Definition sign_piece (sg : option bool) (ws : list Z) : list (list Z * token) :=
  match sg with Some true => [(ws, mk_tok TPunct [45])] | Some false => [(ws, mk_tok TPunct [43])] | None => [] end.
Definition base_piece (bs : option (list Z * list Z * token)) : list (list Z * token) :=
  match bs with Some (ws1, ws2, nt) => [(ws1, mk_tok TIdent t_base); (ws2, nt)] | None => [] end.
Definition int_layout (sg : option bool) (wsS ws0 : list Z) (vt : token) (bs : option (list Z * list Z * token)) :=
  sign_piece sg wsS ++ (ws0, vt) :: base_piece bs.

Lemma ws_text_sep_head s : ws_text s -> sep_head s.
Proof. destruct s as [|c s]; [intros _; exact I|]. intros H. inversion H; subst. cbn. apply ws_sep. assumption. Qed.

Lemma ws_app_sep_head a b : ws_text a -> a <> [] -> sep_head (a ++ b).
Proof. destruct a as [|c a]; [contradiction|]. intros H _. inversion H; subst. cbn. apply ws_sep. assumption. Qed.

Theorem int_layout_ok sg wsS ws0 vt bs tail :
  ws_text wsS -> ws_text ws0 -> ws_text tail -> tok_lexes vt ->
  match bs with Some (ws1, ws2, nt) => ws_text ws1 /\ ws1 <> [] /\ ws_text ws2 /\ ws2 <> [] /\ tok_lexes nt | None => True end ->
  layout_ok (int_layout sg wsS ws0 vt bs) tail.
Proof.
  intros WS W0 WT TV HB. unfold int_layout.
  assert (BASE : tok_lexes (mk_tok TIdent t_base)) by (apply ident_word_lexes; [reflexivity | repeat constructor]).
  assert (REST : layout_ok ((ws0, vt) :: base_piece bs) tail).
  { cbn [layout_ok]. split; [exact W0|]. split; [exact TV|]. destruct bs as [[[ws1 ws2] nt]|]; cbn [base_piece].
    - destruct HB as (W1 & N1 & W2 & N2 & TN). split; [right; cbn [render]; apply ws_app_sep_head; assumption|].
      cbn [layout_ok]. split; [exact W1|]. split; [exact BASE|]. split; [right; cbn [render]; apply ws_app_sep_head; assumption|].
      split; [exact W2|]. split; [exact TN|]. split; [right; cbn [render]; apply ws_text_sep_head; exact WT | exact WT].
    - split; [right; cbn [render]; apply ws_text_sep_head; exact WT | exact WT]. }
  destruct sg as [[|]|]; cbn [sign_piece app]; [| |exact REST].
  - cbn [layout_ok]. split; [exact WS|]. split; [exists 45; split; reflexivity|]. split; [left; reflexivity | exact REST].
  - cbn [layout_ok]. split; [exact WS|]. split; [exists 43; split; reflexivity|]. split; [left; reflexivity | exact REST].
Qed.

(** what the grammar reads in such a layout *)
Lemma int_layout_tokens signed_ sg wsS ws0 vt bs :
  is_value_tok vt = true -> (sg <> None -> signed_ = true) ->
  match bs with Some (_, _, nt) => is_lit_tok nt = true | None => True end ->
  int_tokens_spec signed_ (map snd (int_layout sg wsS ws0 vt bs)) =
  Some (match sg with Some true => true | _ => false end, ttext vt,
        match bs with Some (_, _, nt) => Some (ttext nt) | None => None end).
Proof.
  intros V SG HB. unfold int_layout. rewrite map_app. cbn [map snd].
  assert (NP : forall c, is_punct_char vt c = false).
  { intros c. unfold is_punct_char. unfold is_value_tok in V. destruct (tk vt); try discriminate; reflexivity. }
  assert (BODY : int_body_spec (vt :: map snd (base_piece bs)) =
                 Some (ttext vt, match bs with Some (_, _, nt) => Some (ttext nt) | None => None end)).
  { destruct bs as [[[ws1 ws2] nt]|]; cbn [base_piece map snd int_body_spec].
    - rewrite V, HB. reflexivity.
    - rewrite V. reflexivity. }
  destruct sg as [[|]|]; cbn [sign_piece map snd app]; unfold int_tokens_spec.
  - change (is_punct_char (mk_tok TPunct [45]) 45) with true. cbn iota. rewrite (SG ltac:(discriminate)), BODY. reflexivity.
  - change (is_punct_char (mk_tok TPunct [43]) 45) with false. change (is_punct_char (mk_tok TPunct [43]) 43) with true.
    cbn iota. rewrite (SG ltac:(discriminate)), BODY. reflexivity.
  - rewrite !NP, BODY. reflexivity.
Qed.

(** ubig!/ibig!/static_*: every text  [+|-]? value [base N]?  with white space at the places the grammar allows is lexed
    into sign, value, `base`, N - the value word in one piece - and the macro compiles iff the run-time parser of the same
    signedness accepts  [-]value  in that radix (radix prefix or 10 without `base`), with the same number *)
Corollary src_int_literal_text w wbits signed_ static_ sg wsS ws0 vt bs tail : parser_word w -> std_word wbits ->
  ws_text wsS -> ws_text ws0 -> ws_text tail -> tok_lexes vt -> is_value_tok vt = true -> (sg <> None -> signed_ = true) ->
  match bs with
  | Some (ws1, ws2, nt) => ws_text ws1 /\ ws1 <> [] /\ ws_text ws2 /\ ws2 <> [] /\ tok_lexes nt /\ is_lit_tok nt = true
  | None => True end ->
  let l := int_layout sg wsS ws0 vt bs in
  modelled (render l tail) = true ->
  lex (render l tail) = LexOk (map snd l) /\
  macro_int_asis w wbits signed_ static_ (map snd l) =
  int_runtime w signed_ (match sg with Some true => true | _ => false end) (ttext vt)
              (match bs with Some (_, _, nt) => Some (ttext nt) | None => None end).
Proof.
  intros Hw Hb WS W0 WT TV V SG HB l M. apply src_int_complete; try assumption.
  - apply int_layout_ok; try assumption. destruct bs as [[[ws1 ws2] nt]|]; [|exact I]. tauto.
  - apply int_layout_tokens; try assumption. destruct bs as [[[ws1 ws2] nt]|]; [|exact I]. tauto.
Qed.

(** `- a3f base 16`, `0x1_0000_0000`, `+0b101 base 16` (pseudo prefix), `1e5 base 16` (one token, hex digits) *)
Example src_int_literal_examples :
  (let l := int_layout (Some true) [] [32] (mk_tok TIdent [97; 51; 102]) (Some ([32], [32; 32], mk_tok TLit [49; 54])) in
   lex (render l []) = LexOk (map snd l) /\ macro_int_asis 64 32 true true (map snd l) = Some (- 2623)) /\
  (let l := int_layout None [] [] (mk_tok TLit [48; 120; 49; 95; 48; 48; 48; 48; 95; 48; 48; 48; 48]) None in
   lex (render l [32]) = LexOk (map snd l) /\ macro_int_asis 64 64 false false (map snd l) = Some (2 ^ 32)) /\
  (let l := int_layout None [] [] (mk_tok TLit [49; 101; 53]) (Some ([9], [32], mk_tok TLit [49; 54])) in
   lex (render l []) = LexOk (map snd l) /\ macro_int_asis 64 64 false true (map snd l) = Some 485).
Proof.
  assert (N16 : tok_lexes (mk_tok TLit [49; 54])) by (apply decimal_word_lexes; [reflexivity | repeat constructor | left; discriminate]).
  split; [split|split; split].
  - apply lex_render; [|reflexivity]. apply int_layout_ok; try (repeat constructor; fail).
    + apply ident_word_lexes; [reflexivity | repeat constructor].
    + split; [repeat constructor|]. split; [discriminate|]. split; [repeat constructor|]. split; [discriminate | exact N16].
  - vm_compute. reflexivity.
  - apply lex_render; [|reflexivity]. apply int_layout_ok; try (repeat constructor; fail).
    apply number_word_lexes; [reflexivity | repeat constructor | vm_compute; discriminate].
  - vm_compute. reflexivity.
  - apply lex_render; [|reflexivity]. apply int_layout_ok; try (repeat constructor; fail).
    + apply decimal_word_lexes; [reflexivity | repeat constructor | left; discriminate].
    + split; [repeat constructor|]. split; [discriminate|]. split; [repeat constructor|]. split; [discriminate | exact N16].
  - vm_compute. reflexivity.
Qed.

(* ------------------------------------------------------------------------------------------ *)
(** * floats: every text whose radix prefixes are well-formed is cut into tokens, and the float macros read its text *)

(** the macro result as a function of the text alone (the float macros only look at the joined token texts) *)
Definition fbin_of_text (wbits : Z) (static_ : bool) (txt : list Z) := macro_fbin_asis wbits static_ [mk_tok TLit txt].
Definition fdec_of_text (wbits : Z) (static_ : bool) (txt : list Z) := macro_fdec_asis wbits static_ [mk_tok TLit txt].

Theorem src_float_complete wbits static_ s : modelled s = true ->
  (forall pre rest, s = pre ++ rest -> ~ bad_radix_literal rest) ->
  exists ts, lex s = LexOk ts /\
    macro_fbin_asis wbits static_ ts = fbin_of_text wbits static_ (strip_ws s) /\
    macro_fdec_asis wbits static_ ts = fdec_of_text wbits static_ (strip_ws s).
Proof.
  intros M H. destruct (lex_ok s M H) as [ts L]. exists ts. split; [exact L|].
  destruct (lex_join _ _ L) as [J _]. apply float_macros_token_independent.
  rewrite J. unfold join_tokens. cbn [map concat ttext]. rewrite app_nil_r. reflexivity.
Qed.

(** decimal literals (dbig!, and fbig! without the 0x prefix): no `x`, `o`, `b` in the text, so nothing can go wrong *)
Definition no_radix_letters (s : list Z) : bool := forallb (fun c => negb ((c =? 120) || (c =? 111) || (c =? 98))) s.

Lemma no_radix_letters_ok s : no_radix_letters s = true -> forall pre rest, s = pre ++ rest -> ~ bad_radix_literal rest.
Proof.
  intros H pre rest E (x & t & E2 & X & _). subst rest. unfold no_radix_letters in H. rewrite forallb_forall in H.
  assert (I : In x s) by (rewrite E; apply in_or_app; right; right; left; reflexivity).
  specialize (H x I). destruct X as [-> | [-> | ->]]; discriminate.
Qed.

Corollary src_decimal_float_complete wbits static_ s : modelled s = true -> no_radix_letters s = true ->
  exists ts, lex s = LexOk ts /\ macro_fdec_asis wbits static_ ts = fdec_of_text wbits static_ (strip_ws s).
Proof.
  intros M N. destruct (src_float_complete wbits static_ s M (no_radix_letters_ok s N)) as (ts & L & _ & D). eauto.
Qed.

(** `- 1_234.5e-3`, `0x1.8p-3` (five tokens) *)
Example src_float_examples :
  (exists ts, lex [45; 32; 49; 95; 50; 51; 52; 46; 53; 101; 45; 51] = LexOk ts /\
     macro_fdec_asis 64 false ts = fdec_of_text 64 false [45; 49; 95; 50; 51; 52; 46; 53; 101; 45; 51]) /\
  fdec_of_text 64 false [45; 49; 95; 50; 51; 52; 46; 53; 101; 45; 51] = Some (- 12345, - 4, 5) /\
  (exists ts, lex [48; 120; 49; 46; 56; 112; 45; 51] = LexOk ts /\ macro_fbin_asis 64 false ts = Some (3, - 4, 8)).
Proof.
  split; [|split].
  - apply (src_decimal_float_complete 64 false); reflexivity.
  - vm_compute. reflexivity.
  - eexists. split; [vm_compute; reflexivity|]. vm_compute. reflexivity.
Qed.
