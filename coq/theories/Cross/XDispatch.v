(** C14: which body serves which pair of types (the trait impl tables of the three num_order.rs files and
    of the AbsOrd impls), the hashing bodies, Repr::new.  Definitions only. *)
From Dashu Require Import Base.Prelude Cross.XVal Cross.XOrdModel.
From Dashu Require Float.Contract.
Open Scope Z_scope.

(** operands with the type that selects the impl *)
Inductive tagged :=
| TU (z : Z)                 (* UBig and the unsigned primitives (UBig::from / from_unsigned) *)
| TI (z : Z)                 (* IBig and the signed primitives (IBig::from / from_signed) *)
| TF (B s e : Z)             (* Repr<B> / FBig<_, B> *)
| TQ (n d : Z)               (* RBig / Relaxed *)
| TP (mb eb bits : Z).       (* f32 / f64 *)

Definition untag (t : tagged) : operand :=
  match t with
  | TU z | TI z => OInt z
  | TF B s e => OFlt B s e
  | TQ n d => ORat n d
  | TP mb eb bits => OPrim mb eb bits
  end.

Definition orev (c : option comparison) : option comparison := option_map CompOpp c.

(** Repr::<B>::new = normalize: strip the factors B of a non-zero significand; zero becomes (0, 0) *)
Fixpoint strip (fuel : nat) (B s e : Z) : Z * Z :=
  match fuel with
  | O => (s, e)
  | S f => if s mod B =? 0 then strip f B (s / B) (e + 1) else (s, e)
  end.
Definition repr_new (B s e : Z) : Z * Z :=
  if s =? 0 then (0, 0) else strip (Z.to_nat (Z.log2 (Z.abs s) + 1)) B s e.

Section Est.
Variable E : Type.
Variable egt : E -> E -> bool.
Variable ib : Z -> E * E.
Variable fb : Z -> Z -> Z -> E * E.
Variable qb : Z -> Z -> E * E.
Variable dub : Z -> Z -> Z.

(** NumOrd::num_partial_cmp; outer None = the pair has no impl *)
Definition ord_asis (a b : tagged) : option (option comparison) :=
  match a, b with
  | TU x, TU y => Some (Some (x ?= y))
  | TU x, TI y => Some (Some (ubig_cmp_ibig x y))
  | TI x, TU y => Some (Some (ibig_cmp_ubig x y))
  | TI x, TI y => Some (Some (ibig_cmp x y))
  | TU x, TP mb eb w => Some (ubig_cmp_prim x mb eb w)
  | TP mb eb w, TU x => Some (orev (ubig_cmp_prim x mb eb w))
  | TI x, TP mb eb w => Some (ibig_cmp_prim x mb eb w)
  | TP mb eb w, TI x => Some (orev (ibig_cmp_prim x mb eb w))
  | TF B1 s1 e1, TF B2 s2 e2 => Some (Some (repr_num_cmp E egt fb B1 s1 e1 B2 s2 e2))
  | TF B s e, TU u => Some (Some (frepr_cmp_ubig E egt ib fb false B s e u))
  | TU u, TF B s e => Some (Some (CompOpp (frepr_cmp_ubig E egt ib fb false B s e u)))
  | TF B s e, TI i => Some (Some (frepr_cmp_ibig E egt ib fb false B s e i))
  | TI i, TF B s e => Some (Some (CompOpp (frepr_cmp_ibig E egt ib fb false B s e i)))
  | TF B s e, TP mb eb w => Some (frepr_cmp_prim B s e mb eb w)
  | TP mb eb w, TF B s e => Some (orev (frepr_cmp_prim B s e mb eb w))
  | TQ n1 d1, TQ n2 d2 => Some (Some (qrepr_cmp false n1 d1 n2 d2))
  | TQ n d, TU u => Some (Some (qrepr_cmp_ubig E egt ib qb false n d u))
  | TU u, TQ n d => Some (Some (CompOpp (qrepr_cmp_ubig E egt ib qb false n d u)))
  | TQ n d, TI i => Some (Some (qrepr_cmp_ibig E egt ib qb false n d i))
  | TI i, TQ n d => Some (Some (CompOpp (qrepr_cmp_ibig E egt ib qb false n d i)))
  | TQ n d, TF B s e => Some (Some (qrepr_cmp_fbig E egt fb qb false n d B s e))
  | TF B s e, TQ n d => Some (Some (CompOpp (qrepr_cmp_fbig E egt fb qb false n d B s e)))
  | TQ n d, TP mb eb w => Some (qrepr_cmp_prim n d mb eb w)
  | TP mb eb w, TQ n d => Some (orev (qrepr_cmp_prim n d mb eb w))
  | TP _ _ _, TP _ _ _ => None
  end.

(** AbsOrd::abs_cmp; None = no impl (floats of two different bases, primitives) *)
Definition abs_asis (a b : tagged) : option comparison :=
  match a, b with
  | (TU x | TI x), (TU y | TI y) => Some (int_abs_cmp x y)
  | TF B1 s1 e1, TF B2 s2 e2 => if B1 =? B2 then Some (fsame_cmp dub true B1 s1 e1 s2 e2) else None
  | TF B s e, TU u => Some (frepr_cmp_ubig E egt ib fb true B s e u)
  | TU u, TF B s e => Some (CompOpp (frepr_cmp_ubig E egt ib fb true B s e u))
  | TF B s e, TI i => Some (frepr_cmp_ibig E egt ib fb true B s e i)
  | TI i, TF B s e => Some (CompOpp (frepr_cmp_ibig E egt ib fb true B s e i))
  | TQ n1 d1, TQ n2 d2 => Some (qrepr_cmp true n1 d1 n2 d2)
  | TQ n d, TU u => Some (qrepr_cmp_ubig E egt ib qb true n d u)
  | TU u, TQ n d => Some (CompOpp (qrepr_cmp_ubig E egt ib qb true n d u))
  | TQ n d, TI i => Some (qrepr_cmp_ibig E egt ib qb true n d i)
  | TI i, TQ n d => Some (CompOpp (qrepr_cmp_ibig E egt ib qb true n d i))
  | TQ n d, TF B s e => Some (qrepr_cmp_fbig E egt fb qb true n d B s e)
  | TF B s e, TQ n d => Some (CompOpp (qrepr_cmp_fbig E egt fb qb true n d B s e))
  | _, _ => None
  end.

(** PartialOrd / Ord between FBig (or Repr) of one base *)
Definition fsame_ord (B s1 e1 s2 e2 : Z) : comparison := fsame_cmp dub false B s1 e1 s2 e2.
End Est.

(* ---------------------------------------------------------------- NumHash bodies *)
(** x^n in the field of 2^127-1 by repeated squaring (FixedMersenneInt::pow) *)
Fixpoint mpow_pos (x : Z) (p : positive) : Z :=
  match p with
  | xH => x mod M127
  | xO p => let y := mpow_pos x p in y * y mod M127
  | xI p => let y := mpow_pos x p in (y * y mod M127) * x mod M127
  end.
Definition mpow (x n : Z) : Z := match n with Z0 => 1 | Zpos p => mpow_pos x p | Zneg _ => 0 end.

(** ModularAbs::absm of an isize: the representative of e in [0, m) *)
Definition absm (e m : Z) : Z := e mod m.

(** impl NumHash for UBig / IBig: x % M127 with the sign of x *)
Definition int_hash (x : Z) : Z := Z.rem x M127.

(** impl NumHash for Repr<B> *)
Definition frepr_hash (B s e : Z) : option Z :=
  let sr := Z.rem s M127 in
  let sh := Z.abs sr in
  let eh :=
    if B =? 2 then Some (2 ^ absm e 127 mod M127)
    else if e <? 0 then minv_euclid (mpow (B mod M127) (- e))
    else Some (mpow (B mod M127) e) in
  match eh with
  | None => None                               (* inv().unwrap() would panic *)
  | Some eh => let h := sh * eh mod M127 in Some (if sr <? 0 then - h else h)
  end.

(** impl NumHash for the rational Repr (the i128 handed to num-order's i128 hash, which maps +-M127 to 0).
    A denominator that is a multiple of 2^127-1 has no inverse: a common factor 2^127-1 (possible in a
    Relaxed) is divided out first, otherwise the number is hashed like an infinity. *)
Fixpoint qrepr_hash_f (fuel : nat) (n d : Z) : option Z :=
  let ub := d mod M127 in
  if ub =? 0 then
    match fuel with
    | S f => if negb (n =? 0) && (Z.rem n M127 =? 0) then qrepr_hash_f f (Z.quot n M127) (d / M127) else Some 0
    | O => Some 0
    end
  else match minv_euclid ub with
       | None => None
       | Some binv => let ua := Z.abs (Z.rem n M127) in
                      Some (sgnz (sign_of n) * (ua * binv mod M127))
       end.
Definition qrepr_hash (n d : Z) : option Z := qrepr_hash_f (Z.to_nat (Z.log2 d)) n d.

Definition hash_asis (a : tagged) : option Z :=
  match a with
  | TU z | TI z => Some (int_hash z)
  | TF B s e => frepr_hash B s e
  | TQ n d => qrepr_hash n d
  | TP _ _ _ => None                            (* num-order's own code *)
  end.

(* ---------------------------------------------------------------- executable instance used by the oracle *)
Definition ord_run := ord_asis ZE zegt zib zfb zqb.
Definition abs_run := abs_asis ZE zegt zib zfb zqb Contract.dlen.
Definition fsame_run := fsame_ord Contract.dlen.
(** a second admissible estimator (bounds one unit wider, digits over-estimated by one): the answers must not
    depend on the choice *)
Definition widen (p : ZE * ZE) : ZE * ZE :=
  (option_map (fun x => x - 1) (fst p), option_map (fun x => x + 1) (snd p)).
Definition ord_run2 := ord_asis ZE zegt (fun z => widen (zib z)) (fun B s e => widen (zfb B s e)) (fun n d => widen (zqb n d)).
Definition abs_run2 := abs_asis ZE zegt (fun z => widen (zib z)) (fun B s e => widen (zfb B s e)) (fun n d => widen (zqb n d))
                                (fun B s => Contract.dlen B s + 1).
